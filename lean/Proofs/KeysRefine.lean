/-
  Proofs.KeysRefine — the refinement between the key-management layer (Proofs.Keys: `KStep`/`KSteps` over `Keys`)
  and the conversation API (Proofs.Api: `ApiCall`, `runApi`): whatever an API call does to `conv.keys` is a
  history of key-management steps and session boundaries.

  §1  `KStep'`: the steps of Proofs.Keys plus the three further things the conversation really does to the key
      context (none of them is `KStep.recv`/`send`/`reject`):
        * `recvNoRot`  — a data message passed all guards (counter stored, receiving MAC key recorded) and then
                         `rotateOurKeys` could not draw its new key: nothing rotates, the TLVs are acted upon (repaired
                         code: a disconnect TLV is a `SessionBoundary` as after a rotation), the call returns the error;
        * `replay`     — a message with a stale counter is refused, but `findCounter` has created the (zero) counter
                         entry of its pair;
        * `sendAbort`  — `genDataMsgWithFlag` recorded the MAC key and bumped the counter, then `messageHeader` threw
                         (v3, instance tag not yet generated, randomness exhausted): nothing is revealed.
      (`KStep.recv` with any `newPriv` covers the accept without rotation of our key: `rotateOurKeys` ignores it.)
      `KSteps'` its closure; the invariants of Proofs.Keys lifted to it: `WF.steps'`, `KSteps'.ids_mono`,
      `Keys.Stored.steps'`, `c05_no_replay'`, `retired_forever'`, `Keys.Bnd` (C19, also for unusable contexts).
  §2  `SessionBoundary` (`akeHasFinished`, `endSession`, `processDisconnectedTLV`), `KHist K n` (histories with
      exactly `n` boundaries), `khist_zero_iff : KHist K 0 ↔ KSteps'`, `Keys.Bnd.hist`.
  §3  frames for the `Stable` calculus (Proofs.ConvLife): `KAFrame` (keys and AKE context untouched), `SRel`
      (steps only, AKE context untouched), `ARel` (keys untouched, AKE key context stays clean), `KRel` (history);
      tactics `kstable`, `kstableR`.
  §4–§8 every function of Otr/Conv.lean on the API paths is `Stable` for its frame; the exact points:
      `genDataMsgWithFlag_s` (send / sendAbort / nothing), `processDataMessageRaw_k` with `tail_from_accept`
      (recv / recvNoRot, then TLVs and reply; replay; nothing), `akeHasFinished_k`, `processDisconnectedTLV_k`,
      `endSession_k` (the three boundaries).
  §9  `KHistE`, `c05_no_replay_until_ake`: C05 across `End` and disconnect, up to the next completed key exchange.
  §10 `khist_queue_provenance`: C09 (provenance of the reveal queue) along histories.
  §11 `apiCall_keys_refine`, `apiCall_same_session`, `runApi_keys_refine`, `runApi_bounded`,
      `runApi_c05_no_replay`, `runApi_c09_queue_provenance` — no hypothesis on the cryptography, none on the state
      except a clean AKE key context (`AkeClean`, true of a fresh conversation and preserved).
  §12 examples: the hypotheses are satisfiable, the new steps and the boundaries are real.
  The versions "for all API sequences from a fresh conversation" (with panic-freedom from Proofs.NoPanic) are in
  Proofs.KeysRefineApi.  Core Lean only.
-/
import Proofs.Api
import Proofs.ConvData
import Proofs.AkeGuard
import Proofs.Keys
set_option linter.unusedSimpArgs false
set_option linter.unusedVariables false
namespace Otr

/-! ## 1. the steps the conversation really takes -/

/-- the key context after a data message has passed all guards of `processDataMessageRaw` — counter stored,
    receiving MAC key recorded — and before `processDataMessageTail` rotates anything -/
def Keys.afterCheck (K : Crypto) (k : Keys) (r s n : Nat) : Keys :=
  (k.checkMessageCounter r s n).1.recordMac r s (k.recvMACOf K r s)

/-- the key context after a replayed counter was refused: `findCounter` has created the entry of the pair -/
def Keys.afterReplay (k : Keys) (r s : Nat) : Keys :=
  { k with counters := (findCounter k.counters r s).2 }

/-- the key context when `genDataMsgWithFlag` stops at the message header: MAC key recorded, counter bumped,
    nothing revealed -/
def Keys.afterSendAbort (K : Crypto) (k : Keys) : Keys :=
  (k.recordMac (k.ourKeyID - 1) k.theirKeyID (k.recvMACOf K (k.ourKeyID - 1) k.theirKeyID)).bumpOur

theorem afterAccept_eq_afterCheck (K : Crypto) (k : Keys) (r s n y : Nat) (p : Bytes) :
    k.afterAccept K r s n y p = ((k.afterCheck K r s n).rotateOurKeys K r (some p)).1.rotateTheirKey s y := rfl

theorem afterSend_eq_afterSendAbort (K : Crypto) (k : Keys) :
    k.afterSend K = { k.afterSendAbort K with oldMACKeys := [] } := rfl

inductive KStep' (K : Crypto) : Keys → Keys → Prop
  /-- accept with rotation, complete send, or no change (Proofs.Keys) -/
  | base {k k' : Keys} : KStep K k k' → KStep' K k k'
  /-- accepted, but the rotation of our key failed for lack of randomness -/
  | recvNoRot (k : Keys) (r s n : Nat) : k.accepts K r s n → r = k.ourKeyID → KStep' K k (k.afterCheck K r s n)
  /-- a replay refused by the counter check -/
  | replay (k : Keys) (r s : Nat) : (∃ sk, k.deriveSessionKeys K r s = .ok sk) → KStep' K k (k.afterReplay r s)
  /-- a send that stopped at the message header -/
  | sendAbort (k : Keys) : (∃ sk, k.deriveSessionKeys K (k.ourKeyID - 1) k.theirKeyID = .ok sk) →
      KStep' K k (k.afterSendAbort K)

inductive KSteps' (K : Crypto) : Keys → Keys → Prop
  | refl (k : Keys) : KSteps' K k k
  | tail {k k1 k2 : Keys} : KSteps' K k k1 → KStep' K k1 k2 → KSteps' K k k2

theorem KSteps'.single {K k k'} (h : KStep' K k k') : KSteps' K k k' := .tail (.refl k) h

theorem KSteps'.trans {K k1 k2 k3} (h1 : KSteps' K k1 k2) (h2 : KSteps' K k2 k3) : KSteps' K k1 k3 := by
  induction h2 with
  | refl => exact h1
  | tail _ hs ih => exact .tail ih hs

theorem KSteps'.head {K k1 k2 k3} (h1 : KStep' K k1 k2) (h2 : KSteps' K k2 k3) : KSteps' K k1 k3 :=
  (KSteps'.single h1).trans h2

/-- every history of Proofs.Keys is one -/
theorem KSteps.toPrime {K k k'} (h : KSteps K k k') : KSteps' K k k' := by
  induction h with
  | refl => exact .refl _
  | tail _ hs ih => exact .tail ih (.base hs)

theorem afterCheck_ids (K : Crypto) (k : Keys) (r s n : Nat) :
    (k.afterCheck K r s n).ourKeyID = k.ourKeyID ∧ (k.afterCheck K r s n).theirKeyID = k.theirKeyID := by
  unfold Keys.afterCheck
  rw [checkMessageCounter_fst]
  exact ⟨rfl, rfl⟩

theorem KStep'.ids_mono {K k k'} (h : KStep' K k k') :
    k.ourKeyID ≤ k'.ourKeyID ∧ k.theirKeyID ≤ k'.theirKeyID := by
  cases h with
  | base hb => exact hb.ids_mono
  | recvNoRot r s n _ _ =>
    have := afterCheck_ids K k r s n
    omega
  | replay r s _ => exact ⟨Nat.le_refl _, Nat.le_refl _⟩
  | sendAbort _ => exact ⟨Nat.le_refl _, Nat.le_refl _⟩

theorem KSteps'.ids_mono {K k k'} (h : KSteps' K k k') :
    k.ourKeyID ≤ k'.ourKeyID ∧ k.theirKeyID ≤ k'.theirKeyID := by
  induction h with
  | refl => exact ⟨Nat.le_refl _, Nat.le_refl _⟩
  | tail _ hs ih => have := hs.ids_mono; omega

/-- C09 (b) over the generalised steps -/
theorem retired_forever' {K k k'} (h : KSteps' K k k') (i j : Nat)
    (hr : i + 1 < k.ourKeyID ∨ j + 1 < k.theirKeyID) :
    ∃ e, k'.deriveSessionKeys K i j = .error e := by
  have := h.ids_mono
  exact derive_retired k' i j (by omega)

theorem WF.afterCheck {K} {k : Keys} (h : WF k) {r s : Nat} (n : Nat)
    (hw : InWin k.ourKeyID k.theirKeyID r s) : WF (k.afterCheck K r s n) := by
  unfold Keys.afterCheck
  apply (h.checkCtr n hw).recordMac
  rw [checkMessageCounter_fst]; exact hw

theorem WF.afterReplay {k : Keys} (h : WF k) {r s : Nat}
    (hw : InWin k.ourKeyID k.theirKeyID r s) : WF (k.afterReplay r s) :=
  ⟨h.our_pos, h.their_pos, findCounter_pairsOK r s h.ctr hw, h.mac⟩

theorem WF.afterSendAbort {K} {k : Keys} (h : WF k)
    (hw : InWin k.ourKeyID k.theirKeyID (k.ourKeyID - 1) k.theirKeyID) : WF (k.afterSendAbort K) := by
  unfold Keys.afterSendAbort
  apply WF.bumpOur
  · exact h.recordMac _ hw
  · exact hw

theorem WF.step' {K k k'} (h : WF k) (hs : KStep' K k k') : WF k' := by
  cases hs with
  | base hb => exact h.step hb
  | recvNoRot r s n hacc _ =>
    obtain ⟨⟨sk, hsk⟩, _⟩ := hacc
    exact h.afterCheck n (derive_ok_inWin hsk).1
  | replay r s hd =>
    obtain ⟨sk, hsk⟩ := hd
    exact h.afterReplay (derive_ok_inWin hsk).1
  | sendAbort hd =>
    obtain ⟨sk, hsk⟩ := hd
    exact h.afterSendAbort (derive_ok_inWin hsk).1

theorem WF.steps' {K k k'} (h : WF k) (hs : KSteps' K k k') : WF k' := by
  induction hs with
  | refl => exact h
  | tail _ hs ih => exact ih.step' hs

theorem Keys.Stored.afterCheck {K f} {k : Keys} {i j n} (hf : MonoProj f) (h : k.Stored f i j n)
    (r s n' : Nat) : (k.afterCheck K r s n').Stored f i j n :=
  h.checkCtr hf r s n'

theorem Keys.Stored.afterReplay {f} {k : Keys} {i j n} (h : k.Stored f i j n) (r s : Nat) :
    (k.afterReplay r s).Stored f i j n := by
  rcases h with h | h | h
  · exact .inl h
  · exact .inr (.inl h)
  · exact .inr (.inr (h.findCounter r s))

theorem Keys.Stored.afterSendAbort {K f} {k : Keys} {i j n} (hf : MonoProj f) (h : k.Stored f i j n) :
    (k.afterSendAbort K).Stored f i j n := by
  unfold Keys.afterSendAbort
  have h1 : (k.recordMac (k.ourKeyID - 1) k.theirKeyID
      (k.recvMACOf K (k.ourKeyID - 1) k.theirKeyID)).Stored f i j n := h
  exact h1.bumpOur hf

theorem Keys.Stored.step' {K f} {k k' : Keys} {i j n} (hf : MonoProj f) (h : k.Stored f i j n)
    (ho : 1 ≤ k.ourKeyID) (ht : 1 ≤ k.theirKeyID) (hs : KStep' K k k') : k'.Stored f i j n := by
  cases hs with
  | base hb => exact h.step hf ho ht hb
  | recvNoRot r s n' _ _ => exact h.afterCheck hf r s n'
  | replay r s _ => exact h.afterReplay r s
  | sendAbort _ => exact h.afterSendAbort hf

theorem Keys.Stored.steps' {K f} {k k' : Keys} {i j n} (hf : MonoProj f) (h : k.Stored f i j n)
    (ho : 1 ≤ k.ourKeyID) (ht : 1 ≤ k.theirKeyID) (hs : KSteps' K k k') : k'.Stored f i j n := by
  induction hs with
  | refl => exact h
  | tail hss hs ih =>
    have := hss.ids_mono
    exact ih.step' hf (by omega) (by omega) hs

/-- passing the guards stores the counter (before any rotation) -/
theorem accepts_stored_check {K} {k : Keys} {r s n : Nat} (h : k.accepts K r s n) :
    (k.afterCheck K r s n).Stored Counter.theirCounter r s n := by
  obtain ⟨⟨sk, hsk⟩, hlt⟩ := h
  show ((k.checkMessageCounter r s n).1).Stored Counter.theirCounter r s n
  rw [checkMessageCounter_fst]
  right; right
  show StoredC _ (storeCtr k.counters r s n) r s n
  unfold storeCtr
  rw [if_neg (by omega)]
  have hids := findCounter_ids k.counters r s
  refine ⟨_, by rw [updateCounter_find, findCounter_find]; rfl, ?_⟩
  have : ctrMatch r s (findCounter k.counters r s).1 = true := ctrMatch_iff.mpr hids
  simp only [hids.1, hids.2, this, ↓reduceIte]
  exact Nat.le_refl _

/-- the two states an accepted data message leaves when the call returns from the key rotation: rotated
    (`afterAccept`), or not rotated because the randomness read failed (`afterCheck`) -/
def Keys.AcceptedInto (K : Crypto) (k : Keys) (r s n : Nat) (k1 : Keys) : Prop :=
  (∃ y p, k1 = k.afterAccept K r s n y p) ∨ (r = k.ourKeyID ∧ k1 = k.afterCheck K r s n)

/-- **C05 over the steps the conversation really takes**: once `(r, s, n)` has been accepted — whether or not
    the rotation that follows succeeded — neither it nor any older counter of the pair is accepted again, whatever
    accepts, sends, refused replays, failed rotations and aborted sends follow in the session -/
theorem c05_no_replay' {K} {k k1 k2 : Keys} {r s n m : Nat}
    (hacc : k.accepts K r s n) (hk1 : k.AcceptedInto K r s n k1) (hs : KSteps' K k1 k2) (hm : m ≤ n) :
    ¬ k2.accepts K r s m := by
  have hw := derive_ok_inWin hacc.1.choose_spec
  have hst : k1.Stored Counter.theirCounter r s n ∧ 1 ≤ k1.ourKeyID ∧ 1 ≤ k1.theirKeyID := by
    rcases hk1 with ⟨y, p, rfl⟩ | ⟨_, rfl⟩
    · have hm := (KStep.recv k r s n y p hacc).ids_mono
      exact ⟨accepts_stored hacc y p, by omega, by omega⟩
    · have := afterCheck_ids K k r s n
      exact ⟨accepts_stored_check hacc, by omega, by omega⟩
  have h2 := hst.1.steps' monoProj_their hst.2.1 hst.2.2 hs
  intro h
  exact h2.not_accepts ⟨h.1, Nat.lt_of_lt_of_le h.2 hm⟩

theorem Keys.AcceptedInto.toStep {K} {k k1 : Keys} {r s n : Nat} (h : k.AcceptedInto K r s n k1)
    (hacc : k.accepts K r s n) : KStep' K k k1 := by
  rcases h with ⟨y, p, rfl⟩ | ⟨hr, rfl⟩
  · exact .base (.recv k r s n y p hacc)
  · exact .recvNoRot k r s n hacc hr

/-! ### bounds (C19) over the generalised steps, including key contexts that can not be used at all -/

/-- a key context without counters and MAC history in which no session keys can be derived -/
def Keys.Dead (k : Keys) : Prop :=
  k.counters = [] ∧ k.macHistory = [] ∧ (k.ourKeyID = 0 ∨ k.theirKeyID = 0)

/-- well-formed, or unusable and empty -/
def Keys.Bnd (k : Keys) : Prop := WF k ∨ k.Dead

theorem Keys.Dead.no_derive {K} {k : Keys} (h : k.Dead) (i j : Nat) (sk : SessionKeys) :
    k.deriveSessionKeys K i j ≠ .ok sk := by
  intro hd
  have := derive_ok_inWin hd
  rcases h.2.2 with h0 | h0 <;> omega

theorem Keys.Dead.step' {K k k'} (h : k.Dead) (hs : KStep' K k k') : k' = k := by
  cases hs with
  | base hb =>
    cases hb with
    | recv r s n y p hacc => exact absurd hacc.1.choose_spec (h.no_derive _ _ _)
    | send hd => exact absurd hd.choose_spec (h.no_derive _ _ _)
    | reject => rfl
  | recvNoRot r s n hacc _ => exact absurd hacc.1.choose_spec (h.no_derive _ _ _)
  | replay r s hd => exact absurd hd.choose_spec (h.no_derive _ _ _)
  | sendAbort hd => exact absurd hd.choose_spec (h.no_derive _ _ _)

theorem Keys.Bnd.step' {K k k'} (h : k.Bnd) (hs : KStep' K k k') : k'.Bnd := by
  rcases h with h | h
  · exact .inl (h.step' hs)
  · rw [h.step' hs]; exact .inr h

theorem Keys.Bnd.lengths {k : Keys} (h : k.Bnd) : k.counters.length ≤ 4 ∧ k.macHistory.length ≤ 4 := by
  rcases h with h | h
  · exact c19_lengths h
  · rw [h.1, h.2.1]; exact ⟨Nat.zero_le _, Nat.zero_le _⟩

/-! ## 2. session boundaries and histories -/

/-- the key context of an AKE in progress holds key ids and DH values only: no counters, no MAC history, no
    MAC keys waiting to be revealed -/
def CleanK (k : Keys) : Prop := k.counters = [] ∧ k.macHistory = [] ∧ k.oldMACKeys = []

/-- the three places of the model that replace the key context of the conversation -/
inductive SessionBoundary (K : Crypto) : Keys → Keys → Prop
  /-- `akeHasFinished`: the key context `ak` of the AKE becomes the conversation's, the MAC keys of the session
      that ends (reveal queue, then the keys of its MAC history) are appended to its reveal queue, and a fresh DH
      key pair is generated (`r` = the 40 random bytes; `none`: the read failed and nothing is generated) -/
  | ake (k ak : Keys) (r : Option Bytes) : CleanK ak →
      SessionBoundary K k
        (({ ak with oldMACKeys := ak.oldMACKeys ++ (k.oldMACKeys ++ k.macHistory.map (fun u : MacUse => u.key)) } :
            Keys).generateNewDHKeyPair K r).1
  /-- `endSession`: our DH key pairs are dropped and the peer's current DH value is zeroed; key ids, counters,
      MAC history and reveal queue stay (until the next key exchange carries the MAC keys over) -/
  | endS (k : Keys) :
      SessionBoundary K k { k with ourCur := none, ourPrev := none, theirCur := k.theirCur.map (fun _ => 0) }
  /-- `processDisconnectedTLV` (repaired code): DH keys, key ids, counters and MAC history are wiped; the MAC keys
      of the session that ends (reveal queue, then the keys of its MAC history) stay in the reveal queue, to be
      revealed by the first data message of the next conversation -/
  | disc (k : Keys) :
      SessionBoundary K k { oldMACKeys := k.oldMACKeys ++ k.macHistory.map (fun u : MacUse => u.key) }

/-- histories of the key context: steps and session boundaries; the index counts the boundaries -/
inductive KHist (K : Crypto) : Nat → Keys → Keys → Prop
  | refl (k : Keys) : KHist K 0 k k
  | step {n : Nat} {k k1 k2 : Keys} : KHist K n k k1 → KStep' K k1 k2 → KHist K n k k2
  | boundary {n : Nat} {k k1 k2 : Keys} : KHist K n k k1 → SessionBoundary K k1 k2 → KHist K (n + 1) k k2

theorem KHist.trans {K n m k1 k2 k3} (h1 : KHist K n k1 k2) (h2 : KHist K m k2 k3) : KHist K (n + m) k1 k3 := by
  induction h2 with
  | refl => exact h1
  | step _ hs ih => exact .step (ih h1) hs
  | boundary _ hb ih => exact .boundary (ih h1) hb

theorem KSteps'.toHist {K k k'} (h : KSteps' K k k') : KHist K 0 k k' := by
  induction h with
  | refl => exact .refl _
  | tail _ hs ih => exact .step ih hs

theorem KHist.steps_of_zero {K n k k'} (h : KHist K n k k') (hn : n = 0) : KSteps' K k k' := by
  induction h with
  | refl => exact .refl _
  | step _ hs ih => exact .tail (ih hn) hs
  | boundary _ _ _ => cases hn

/-- a history without session boundary is a sequence of steps, and conversely -/
theorem khist_zero_iff {K k k'} : KHist K 0 k k' ↔ KSteps' K k k' :=
  ⟨fun h => h.steps_of_zero rfl, fun h => h.toHist⟩

theorem KHist.ofStep {K k k'} (h : KStep' K k k') : KHist K 0 k k' := .step (.refl _) h
theorem KHist.ofBoundary {K k k'} (h : SessionBoundary K k k') : KHist K 1 k k' := .boundary (.refl _) h

theorem generateNewDHKeyPair_frame (K : Crypto) (k : Keys) (r : Option Bytes) :
    (k.generateNewDHKeyPair K r).1.counters = k.counters ∧
    (k.generateNewDHKeyPair K r).1.macHistory = k.macHistory ∧
    (k.generateNewDHKeyPair K r).1.theirKeyID = k.theirKeyID := by
  cases r <;> exact ⟨rfl, rfl, rfl⟩

theorem Keys.Bnd.boundary {K k k'} (h : k.Bnd) (hb : SessionBoundary K k k') : k'.Bnd := by
  cases hb with
  | ake ak r hc =>
    generalize hk0 : ({ ak with oldMACKeys := ak.oldMACKeys ++ (k.oldMACKeys ++
      k.macHistory.map (fun u : MacUse => u.key)) } : Keys) = k0
    have hc0 : k0.counters = [] ∧ k0.macHistory = [] := by subst hk0; exact ⟨hc.1, hc.2.1⟩
    obtain ⟨f1, f2, -⟩ := generateNewDHKeyPair_frame K k0 r
    by_cases hp : 1 ≤ (k0.generateNewDHKeyPair K r).1.ourKeyID ∧ 1 ≤ (k0.generateNewDHKeyPair K r).1.theirKeyID
    · left
      refine ⟨hp.1, hp.2, ?_, ?_⟩
      · rw [f1, hc0.1]; exact PairsOK.nil _ _
      · rw [f2, hc0.2]; exact PairsOK.nil _ _
    · right
      refine ⟨by rw [f1, hc0.1], by rw [f2, hc0.2], by omega⟩
  | endS =>
    rcases h with h | h
    · exact .inl ⟨h.our_pos, h.their_pos, h.ctr, h.mac⟩
    · exact .inr ⟨h.1, h.2.1, h.2.2⟩
  | disc => exact .inr ⟨rfl, rfl, Or.inl rfl⟩

theorem Keys.Bnd.hist {K n k k'} (h : k.Bnd) (hs : KHist K n k k') : k'.Bnd := by
  induction hs with
  | refl => exact h
  | step _ hs ih => exact (ih h).step' hs
  | boundary _ hb ih => exact (ih h).boundary hb

/-! ## 3. frames -/

/-- the AKE context of the conversation, when present, has a clean key context -/
def AkeClean (c : Conv) : Prop := ∀ a, c.ake = some a → CleanK a.keys

/-- key context and AKE context untouched -/
abbrev KAFrame : MState → MState → Prop := Keeps (fun s => (s.conv.keys, s.conv.ake))

/-- frames that hold whenever neither the key context nor the AKE context changes -/
class KFrame (R : MState → MState → Prop) : Prop extends Frame R where
  same : ∀ s s', (s'.conv.keys, s'.conv.ake) = (s.conv.keys, s.conv.ake) → R s s'

/-- frames that hold whenever the key context does not change and the AKE key context stays clean -/
class AFrame (R : MState → MState → Prop) : Prop extends KFrame R where
  akeOnly : ∀ s s', s'.conv.keys = s.conv.keys → (AkeClean s.conv → AkeClean s'.conv) → R s s'

instance : KFrame KAFrame where
  refl _ := rfl
  trans h1 h2 := h2.trans h1
  same _ _ h := h

/-- steps only; the AKE context is not touched -/
def SRel (K : Crypto) (s s' : MState) : Prop :=
  KSteps' K s.conv.keys s'.conv.keys ∧ s'.conv.ake = s.conv.ake

instance (K : Crypto) : KFrame (SRel K) where
  refl _ := ⟨.refl _, rfl⟩
  trans h1 h2 := ⟨h1.1.trans h2.1, h2.2.trans h1.2⟩
  same s s' h := by
    have h1 : s'.conv.keys = s.conv.keys := congrArg Prod.fst h
    have h2 : s'.conv.ake = s.conv.ake := congrArg Prod.snd h
    exact ⟨by rw [h1]; exact .refl _, h2⟩

/-- the key context is not touched; the AKE key context stays clean -/
def ARel (s s' : MState) : Prop :=
  s'.conv.keys = s.conv.keys ∧ (AkeClean s.conv → AkeClean s'.conv)

theorem AkeClean.congr {c c' : Conv} (h : c'.ake = c.ake) (hc : AkeClean c) : AkeClean c' := by
  unfold AkeClean; rw [h]; exact hc

instance : AFrame ARel where
  refl _ := ⟨rfl, fun h => h⟩
  trans h1 h2 := ⟨h2.1.trans h1.1, fun h => h2.2 (h1.2 h)⟩
  same s s' h := ⟨congrArg Prod.fst h, AkeClean.congr (congrArg Prod.snd h)⟩
  akeOnly _ _ h1 h2 := ⟨h1, h2⟩

/-- from a state with a clean AKE key context: the AKE key context is clean again, and the key context of the
    conversation has moved along a history of steps and session boundaries -/
def KRel (K : Crypto) (s s' : MState) : Prop :=
  AkeClean s.conv → AkeClean s'.conv ∧ ∃ n, KHist K n s.conv.keys s'.conv.keys

instance (K : Crypto) : AFrame (KRel K) where
  refl _ := fun h => ⟨h, 0, .refl _⟩
  trans h1 h2 := fun h => by
    obtain ⟨c1, n1, g1⟩ := h1 h
    obtain ⟨c2, n2, g2⟩ := h2 c1
    exact ⟨c2, _, g1.trans g2⟩
  same s s' h := fun hc => by
    have h1 : s'.conv.keys = s.conv.keys := congrArg Prod.fst h
    exact ⟨hc.congr (congrArg Prod.snd h), 0, by rw [h1]; exact .refl _⟩
  akeOnly s s' h1 h2 := fun hc => ⟨h2 hc, 0, by rw [h1]; exact .refl _⟩

theorem Stable.ofKA {α} {R : MState → MState → Prop} [KFrame R] {x : M α} (h : Stable KAFrame x) : Stable R x :=
  Stable.mono (fun s s' h => KFrame.same s s' h) h

theorem Stable.s_toK {α} {K : Crypto} {x : M α} (h : Stable (SRel K) x) : Stable (KRel K) x :=
  Stable.mono (fun s s' h hc => ⟨hc.congr h.2, 0, h.1.toHist⟩) h

theorem Stable.a_toK {α} {K : Crypto} {x : M α} (h : Stable ARel x) : Stable (KRel K) x :=
  Stable.mono (fun s s' h => AFrame.akeOnly s s' h.1 h.2) h

/-- `modAke f` for an `f` that keeps the AKE key context clean -/
theorem modAke_st {R : MState → MState → Prop} [AFrame R] (f : Ake → Ake)
    (hf : ∀ a, CleanK a.keys → CleanK (f a).keys) : Stable R (modAke f) := by
  unfold modAke
  refine Stable.modc _ (fun s => AFrame.akeOnly _ _ rfl (fun hc a ha => ?_))
  have ha' : s.conv.ake.map f = some a := ha
  cases hs : s.conv.ake with
  | none => rw [hs] at ha'; cases ha'
  | some a0 =>
    rw [hs] at ha'
    have h2 : some (f a0) = some a := ha'
    injection h2 with h2
    subst h2
    exact hf a0 (hc a0 hs)

theorem initAKE_st {R : MState → MState → Prop} [AFrame R] : Stable R initAKE := by
  unfold initAKE
  refine Stable.modc _ (fun s => AFrame.akeOnly _ _ rfl (fun _ a ha => ?_))
  have h2 : some ({} : Ake) = some a := ha
  injection h2 with h2
  subst h2
  exact ⟨rfl, rfl, rfl⟩

theorem dropAke_st {R : MState → MState → Prop} [AFrame R] :
    Stable R (modc fun c => { c with ake := none }) :=
  Stable.modc _ (fun s => AFrame.akeOnly _ _ rfl (fun _ a ha => nomatch ha))

/-- `kstable [lemmas]`: as `stable`, for frames of the classes `KFrame` / `AFrame` -/
syntax "kstable" "[" term,* "]" : tactic
macro_rules
  | `(tactic| kstable [$ls,*]) => do
    let tacs ← ls.getElems.mapM fun l => `(tactic| with_reducible apply $l)
    `(tactic| repeat' (first
        | stable_core
        | exact Stable.modc _ (fun _ => KFrame.same _ _ rfl)
        | exact Stable.ev _ (fun _ => KFrame.same _ _ rfl)
        | exact Stable.mism _ (fun _ => KFrame.same _ _ rfl)
        | (with_reducible refine modAke_st _ ?_;
           first | exact fun _ h => h | exact fun _ _ => ⟨rfl, rfl, rfl⟩ | exact fun _ h => ⟨rfl, rfl, h.2.2⟩)
        | with_reducible exact initAKE_st
        | with_reducible exact dropAke_st
        | (with_reducible refine Stable.modc _ ?_; exact fun _ => KFrame.same _ _ (by dsimp only; split <;> rfl))
        $[| $tacs:tactic]* | with_reducible intro _ | split | dsimp only))

/-- `kstable` with syntactic (reducible) matching of the leaves: for large terms -/
syntax "kstableR" "[" term,* "]" : tactic
macro_rules
  | `(tactic| kstableR [$ls,*]) => do
    let tacs ← ls.getElems.mapM fun l => `(tactic| with_reducible apply $l)
    `(tactic| repeat' (first
        | with_reducible apply Stable.bind | with_reducible apply Stable.tryCatch
        | with_reducible apply Stable.ite | with_reducible apply Stable.map | with_reducible apply Stable.forIn
        | with_reducible exact Stable.pure _ | with_reducible exact Stable.throw _
        | with_reducible exact Stable.goPanic _
        | with_reducible exact Stable.getc | with_reducible exact Stable.get | with_reducible exact Stable.now
        | (with_reducible refine Stable.modc _ ?_; exact fun _ => KFrame.same _ _ rfl)
        | (with_reducible refine Stable.ev _ ?_; exact fun _ => KFrame.same _ _ rfl)
        | (with_reducible refine Stable.mism _ ?_; exact fun _ => KFrame.same _ _ rfl)
        | (with_reducible refine modAke_st _ ?_;
           first | exact fun _ h => h | exact fun _ _ => ⟨rfl, rfl, rfl⟩ | exact fun _ h => ⟨rfl, rfl, h.2.2⟩)
        | with_reducible exact initAKE_st
        | with_reducible exact dropAke_st
        $[| $tacs:tactic]* | with_reducible intro _ | split | dsimp only))

/-! ## 4. what touches neither the key context nor the AKE context -/

theorem randRead_ka (n : Nat) : Stable KAFrame (randRead n) :=
  randRead_stable (fun _ _ _ _ => rfl) n

theorem randomInto_ka (n : Nat) : Stable KAFrame (randomInto n) := by
  unfold randomInto
  stable [randRead_ka]

theorem signOracle_ka (mb : Bytes) : Stable KAFrame (signOracle mb) :=
  signOracle_stable (fun _ _ _ => rfl) mb

theorem generateInstanceTagAux_ka (fuel : Nat) : Stable KAFrame (generateInstanceTagAux fuel) := by
  induction fuel with
  | zero => unfold generateInstanceTagAux; stable []
  | succ n ih => unfold generateInstanceTagAux; stable [randomInto_ka, ih]

theorem generateInstanceTag_ka : Stable KAFrame generateInstanceTag := by
  unfold generateInstanceTag
  stable [generateInstanceTagAux_ka]

theorem messageHeader_ka (t : Nat) : Stable KAFrame (messageHeader t) := by
  unfold messageHeader
  stable [generateInstanceTag_ka]

theorem wrapMessageHeader_ka (t : Nat) (m : Bytes) : Stable KAFrame (wrapMessageHeader t m) := by
  unfold wrapMessageHeader
  stable [messageHeader_ka]

theorem generatePotentialErrorMessage_ka (code : Nat) : Stable KAFrame (generatePotentialErrorMessage code) := by
  unfold generatePotentialErrorMessage
  stable []

theorem malformedMessage_ka : Stable KAFrame malformedMessage := by
  unfold malformedMessage msgEvent
  stable [generatePotentialErrorMessage_ka]

theorem verifyInstanceTags_ka (their our : Nat) : Stable KAFrame (verifyInstanceTags their our) := by
  unfold verifyInstanceTags msgEvent
  stable [malformedMessage_ka]

theorem parseMessageHeader_ka (msg : Bytes) : Stable KAFrame (parseMessageHeader msg) := by
  unfold parseMessageHeader
  stable [malformedMessage_ka, verifyInstanceTags_ka]

theorem setKeyMatchingVersion_ka : Stable KAFrame setKeyMatchingVersion := by
  unfold setKeyMatchingVersion
  stable []

theorem commitToVersionFrom_ka (vs : Nat) : Stable KAFrame (commitToVersionFrom vs) := by
  unfold commitToVersionFrom
  stable [setKeyMatchingVersion_ka]

theorem checkVersion_ka (msg : Bytes) : Stable KAFrame (checkVersion msg) := by
  unfold checkVersion
  stable [commitToVersionFrom_ka]

theorem parseFragmentPrefix_ka (data : Bytes) : Stable KAFrame (parseFragmentPrefix data) := by
  unfold parseFragmentPrefix
  stable [commitToVersionFrom_ka, verifyInstanceTags_ka]

theorem receiveFragment_ka (before : FragCtx) (data : Bytes) : Stable KAFrame (receiveFragment before data) := by
  unfold receiveFragment msgEvent
  stable [parseFragmentPrefix_ka]

theorem fragEncode_ka (msg : Bytes) : Stable KAFrame (fragEncode msg) := by
  unfold fragEncode
  stable []

theorem withInjects_ka (vms : List Bytes) : Stable KAFrame (withInjects vms) := by
  unfold withInjects
  stable []

theorem toSendEncoded_ka (toSend : List Bytes) (err : Option Err) : Stable KAFrame (toSendEncoded toSend err) := by
  unfold toSendEncoded
  stable [fragEncode_ka]

theorem updateLastSent_ka : Stable KAFrame updateLastSent := by
  unfold updateLastSent
  stable []

theorem resendLater_ka (m : Bytes) : Stable KAFrame (resendLater m) := by
  unfold resendLater
  stable []

theorem checkPlaintextPolicies_ka (plain : Bytes) : Stable KAFrame (checkPlaintextPolicies plain) := by
  unfold checkPlaintextPolicies msgEventMsg
  stable []

theorem receiveErrorMessage_ka (msg : Bytes) : Stable KAFrame (receiveErrorMessage msg) := by
  unfold receiveErrorMessage msgEventMsg
  stable []

theorem notifyDataMessageError_ka (e : Err) : Stable KAFrame (notifyDataMessageError e) := by
  unfold notifyDataMessageError msgEvent
  stable [generatePotentialErrorMessage_ka]

theorem appendWhitespaceTag_ka (m : Bytes) : Stable KAFrame (appendWhitespaceTag m) := by
  unfold appendWhitespaceTag
  stable []

theorem smpSecretFor_ka (K : Crypto) (ini : Bool) (secret : Bytes) : Stable KAFrame (smpSecretFor K ini secret) := by
  unfold smpSecretFor
  stable []

theorem paramLen_ka : Stable KAFrame paramLen := by
  unfold paramLen
  stable []

theorem randMPIs_ka (k len : Nat) : Stable KAFrame (randMPIs k len) := by
  induction k with
  | zero => unfold randMPIs; stable []
  | succ n ih => unfold randMPIs; stable [randRead_ka, ih]

theorem startAuthenticateExpect1_ka (K : Crypto) (q sec : Bytes) :
    Stable KAFrame (startAuthenticateExpect1 K q sec) := by
  unfold startAuthenticateExpect1
  stable [smpSecretFor_ka, paramLen_ka, randMPIs_ka]

theorem continueSMP_ka (K : Crypto) (sec : Bytes) : Stable KAFrame (continueSMP K sec) := by
  unfold continueSMP smpEvent
  stable [smpSecretFor_ka, paramLen_ka, randMPIs_ka]

/-- `processSMPTLV` changes the SMP context only (`processSMPTLV_frame`) -/
theorem processSMPTLV_ka (K : Crypto) (t : Tlv) : Stable KAFrame (processSMPTLV K t) := by
  intro s r s' h
  have hf := ConvData.wp_of_run _ _ _ _ _ _ (ConvData.processSMPTLV_frame K t s) h
  unfold ConvData.SmpFrame at hf
  show (s'.conv.keys, s'.conv.ake) = (s.conv.keys, s.conv.ake)
  rw [hf]

theorem processExtraSymmetricKeyTLV_ka (t : Tlv) (x : Bytes) : Stable KAFrame (processExtraSymmetricKeyTLV t x) := by
  unfold processExtraSymmetricKeyTLV
  stable []

/-! ## 5. sending data messages: steps only -/

theorem encryptPlain_run' (K : Crypto) (key ctr : Bytes) (p : PlainDataMsg) (s : MState) :
    runM (encryptPlain K key ctr p) s =
      .ok (.ok (match K.ctr key (ctr ++ List.replicate 8 0) p.pad.serialize with
                | some d => d
                | none => List.replicate p.pad.serialize.length 0), s) := by
  unfold encryptPlain
  cases K.ctr key (ctr ++ List.replicate 8 0) (p.pad.serialize) <;> rfl

theorem genDataMsgWithFlag_s (K : Crypto) (m : Bytes) (f : Nat) (tlvs : List Tlv) :
    Stable (SRel K) (genDataMsgWithFlag K m f tlvs) := by
  intro s r s' h
  unfold genDataMsgWithFlag at h
  simp only [runM_bind, runM_getc, bindM_ok] at h
  by_cases hm : s.conv.msgState = .encrypted
  · simp only [hm, ne_eq, not_true_eq_false, ↓reduceIte, runM_pure, bindM_ok] at h
    cases hk : s.conv.keys.deriveSessionKeys K (s.conv.keys.ourKeyID - 1) s.conv.keys.theirKeyID with
    | error e =>
      rw [hk] at h
      simp only [runM_bind, runM_throw, bindM_error, Res.ok.injEq, Prod.mk.injEq] at h
      rw [← h.2]; exact Frame.refl _
    | ok sk =>
      rw [hk] at h
      simp only [runM_pure, bindM_ok, runM_bind, runM_modc, runM_getc, encryptPlain_run'] at h
      generalize hs1 : MState.mk _ s.env s.events s.mismatch = s1 at h
      have hk1 : s1.conv.keys = s.conv.keys.afterSendAbort K := by
        subst hs1
        simp only [Keys.afterSendAbort, Keys.recordMac, Keys.bumpOur, Keys.recvMACOf, hk]
      have ha1 : s1.conv.ake = s.conv.ake := by subst hs1; rfl
      cases hh : runM (messageHeader msgTypeData) s1 with
      | panic p => rw [hh] at h; cases h
      | ok w =>
        obtain ⟨w, s2⟩ := w
        obtain ⟨tg, hc2, -⟩ := messageHeader_conv _ _ _ _ hh
        rw [hh] at h
        cases w with
        | error e =>
          simp only [bindM_error, Res.ok.injEq, Prod.mk.injEq] at h
          rw [← h.2]
          refine ⟨?_, by rw [hc2]; exact ha1⟩
          have : s2.conv.keys = s.conv.keys.afterSendAbort K := by rw [hc2]; exact hk1
          rw [this]
          exact .single (.sendAbort _ ⟨sk, hk⟩)
        | ok hdr =>
          simp only [bindM_ok] at h
          have hfin : s'.conv.keys = s.conv.keys.afterSend K ∧ s'.conv.ake = s.conv.ake := by
            cases hoc : s2.conv.keys.ourCur with
            | none => rw [hoc] at h; simp only [runM_bind, runM_goPanic, bindM_panic] at h; cases h
            | some pr =>
              rw [hoc] at h
              have hk2 : s2.conv.keys = s.conv.keys.afterSendAbort K := by rw [hc2]; exact hk1
              have ha2 : s2.conv.ake = s.conv.ake := by rw [hc2]; exact ha1
              by_cases hl : m.length > 0
              · simp only [hl, ↓reduceIte, runM_bind, runM_pure, bindM_ok, runM_modc, resendLast, runM_getc] at h
                cases hrt : s2.conv.retransmitting with
                | true =>
                  simp only [hrt, ↓reduceIte, runM_pure, bindM_ok, Res.ok.injEq, Prod.mk.injEq] at h
                  rw [← h.2]
                  exact ⟨by show (s2.conv.keys.revealMACKeys).2 = _; rw [hk2]; rfl, ha2⟩
                | false =>
                  simp only [hrt, Bool.false_eq_true, ↓reduceIte, runM_pure, bindM_ok, runM_bind, runM_modc,
                    Res.ok.injEq, Prod.mk.injEq] at h
                  rw [← h.2]
                  exact ⟨by show (s2.conv.keys.revealMACKeys).2 = _; rw [hk2]; rfl, ha2⟩
              · simp only [hl, ↓reduceIte, runM_bind, runM_pure, bindM_ok, runM_modc, Res.ok.injEq, Prod.mk.injEq] at h
                rw [← h.2]
                exact ⟨by show (s2.conv.keys.revealMACKeys).2 = _; rw [hk2]; rfl, ha2⟩
          refine ⟨?_, hfin.2⟩
          rw [hfin.1]
          exact .single (.base (.send _ ⟨sk, hk⟩))
  · simp only [hm, ne_eq, not_false_eq_true, ↓reduceIte, runM_bind, runM_throw, bindM_error, Res.ok.injEq,
      Prod.mk.injEq] at h
    rw [← h.2]; exact Frame.refl _


theorem createSerializedDataMessage_s (K : Crypto) (m : Bytes) (f : Nat) (tlvs : List Tlv) :
    Stable (SRel K) (createSerializedDataMessage K m f tlvs) := by
  unfold createSerializedDataMessage
  kstable [genDataMsgWithFlag_s, Stable.ofKA (wrapMessageHeader_ka _ _), Stable.ofKA updateLastSent_ka,
    Stable.ofKA (fragEncode_ka _)]

theorem potentialHeartbeat_s (K : Crypto) (plain : Option Bytes) : Stable (SRel K) (potentialHeartbeat K plain) := by
  unfold potentialHeartbeat msgEvent
  kstable [genDataMsgWithFlag_s, Stable.ofKA (wrapMessageHeader_ka _ _), Stable.ofKA updateLastSent_ka]

theorem retransmit_s (K : Crypto) : Stable (SRel K) (retransmit K) := by
  unfold retransmit msgEvent
  kstable [genDataMsgWithFlag_s, Stable.ofKA (wrapMessageHeader_ka _ _), Stable.ofKA updateLastSent_ka]

theorem maybeRetransmit_s (K : Crypto) : Stable (SRel K) (maybeRetransmit K) := by
  unfold maybeRetransmit
  kstable [retransmit_s]

theorem retransmitOrReveal_s (K : Crypto) : Stable (SRel K) (retransmitOrReveal K) := by
  unfold retransmitOrReveal
  kstable [maybeRetransmit_s, genDataMsgWithFlag_s, Stable.ofKA (wrapMessageHeader_ka _ _)]

theorem retransmitAfterCompletedExchange_s (K : Crypto) (before after : AuthState) (e : Option Err) :
    Stable (SRel K) (retransmitAfterCompletedExchange K before after e) := by
  by_cases h : before = .none ∨ after ≠ .none ∨ e ≠ none
  · rw [retransmitAfterCompletedExchange_skip K before after e h]; exact Stable.pure _
  · have hb : before ≠ .none := fun hb => h (Or.inl hb)
    have ha : after = .none := Classical.byContradiction fun ha => h (Or.inr (Or.inl ha))
    have he : e = none := Classical.byContradiction fun he => h (Or.inr (Or.inr he))
    subst ha he
    rw [retransmitAfterCompletedExchange_completed K before hb]
    exact retransmitOrReveal_s K

theorem startAuthenticate_s (K : Crypto) (q sec : Bytes) : Stable (SRel K) (startAuthenticate K q sec) := by
  unfold startAuthenticate
  kstable [Stable.ofKA (startAuthenticateExpect1_ka _ _ _), createSerializedDataMessage_s]

theorem provideAuthenticationSecret_s (K : Crypto) (sec : Bytes) :
    Stable (SRel K) (provideAuthenticationSecret K sec) := by
  unfold provideAuthenticationSecret
  kstable [Stable.ofKA (continueSMP_ka _ _), createSerializedDataMessage_s]

theorem abortAuthentication_s (K : Crypto) : Stable (SRel K) (abortAuthentication K) := by
  unfold abortAuthentication
  kstable [createSerializedDataMessage_s]

theorem useExtraSymmetricKey_s (K : Crypto) (usage : Nat) (d : Bytes) :
    Stable (SRel K) (useExtraSymmetricKey K usage d) := by
  unfold useExtraSymmetricKey
  kstable [createSerializedDataMessage_s]

theorem send_s (K : Crypto) (m : Bytes) : Stable (SRel K) (send K m) := by
  unfold send msgEvent
  kstable [createSerializedDataMessage_s, Stable.ofKA (withInjects_ka _), Stable.ofKA updateLastSent_ka,
    Stable.ofKA (resendLater_ka _), Stable.ofKA (appendWhitespaceTag_ka _),
    Stable.ofKA (generatePotentialErrorMessage_ka _)]


/-! ## 6. the AKE short of `akeHasFinished`: the key context of the conversation is not touched -/

theorem getAke_ka : Stable KAFrame getAke := by
  unfold getAke
  stable []

theorem optNat_ka (site : String) (v : Option Nat) : Stable KAFrame (optNat site v) := by
  unfold optNat
  stable []

theorem akeEncrypt_ka (K : Crypto) (key data : Bytes) : Stable KAFrame (akeEncrypt K key data) := by
  unfold akeEncrypt
  stable []

theorem resToM_ka {α} (r : Res α) : Stable KAFrame (resToM r) := by
  unfold resToM
  stable []

theorem generateEncryptedSignature_ka (K : Crypto) (key : AkeKeys) :
    Stable KAFrame (generateEncryptedSignature K key) := by
  unfold generateEncryptedSignature
  refine Stable.bind Stable.getc fun c => ?_
  dsimp only
  have hjp : ∀ pk : DsaPub, Stable KAFrame (do
      let a ← getAke
      let ours ← optNat "generateEncryptedSignature: nil ourPublicValue" a.ourPublicValue
      let theirs ← optNat "generateEncryptedSignature: nil theirPublicValue" a.theirPublicValue
      let r ← signOracle (K.mac2 key.m1 (appendAll ours theirs pk a.keys.ourKeyID))
      match r with
        | none => throw Err.shortRandom
        | some sigb => do
          let enc ← akeEncrypt K key.c (appendWord pk.serialize a.keys.ourKeyID ++ sigb)
          pure (appendData [] enc)) := by
    intro pk
    refine Stable.bind getAke_ka fun a => ?_
    refine Stable.bind (optNat_ka _ _) fun ours => ?_
    refine Stable.bind (optNat_ka _ _) fun theirs => ?_
    refine Stable.bind (signOracle_ka _) fun r => ?_
    cases r with
    | none => exact Stable.throw _
    | some sigb => exact Stable.bind (akeEncrypt_ka _ _ _) fun enc => Stable.pure _
  split
  · exact Stable.bind (Stable.pure _) hjp
  · exact Stable.bind (Stable.throw _) hjp

theorem serializeDHKey_ka : Stable KAFrame serializeDHKey := by
  unfold serializeDHKey
  stable [getAke_ka, optNat_ka]

theorem serializeDHCommit_ka (K : Crypto) : Stable KAFrame (serializeDHCommit K) := by
  unfold serializeDHCommit
  stable [getAke_ka, optNat_ka]

theorem sigMessage_a (K : Crypto) : Stable ARel (sigMessage K) := by
  unfold sigMessage
  kstable [Stable.ofKA getAke_ka, Stable.ofKA (generateEncryptedSignature_ka _ _), Stable.ofKA (resToM_ka _)]

theorem akeSetTheirCurrent_a : Stable ARel akeSetTheirCurrent := by
  unfold akeSetTheirCurrent
  kstable [Stable.ofKA getAke_ka, Stable.ofKA (optNat_ka _ _)]

theorem akeSetOurCurrent_a : Stable ARel akeSetOurCurrent := by
  unfold akeSetOurCurrent
  kstable [Stable.ofKA getAke_ka, Stable.ofKA (optNat_ka _ _)]

theorem dhKeyMessage_a (K : Crypto) : Stable ARel (dhKeyMessage K) := by
  unfold dhKeyMessage setSecretExponent
  kstable [Stable.ofKA (randomInto_ka _), Stable.ofKA serializeDHKey_ka]

theorem dhCommitMessage_a (K : Crypto) : Stable ARel (dhCommitMessage K) := by
  unfold dhCommitMessage setSecretExponent
  kstable [Stable.ofKA (randomInto_ka _), Stable.ofKA (serializeDHCommit_ka _), Stable.ofKA getAke_ka,
    Stable.ofKA (optNat_ka _ _), Stable.ofKA (akeEncrypt_ka _ _ _)]

theorem processDHCommit_a (msg : Bytes) : Stable ARel (processDHCommit msg) := by
  unfold processDHCommit
  kstable []

theorem processDHKey_a (msg : Bytes) : Stable ARel (processDHKey msg) := by
  unfold processDHKey
  kstable [Stable.ofKA getAke_ka]

theorem recvDHCommitNone_a (K : Crypto) (msg : Bytes) : Stable ARel (recvDHCommitNone K msg) := by
  unfold recvDHCommitNone akeTry
  kstable [dhKeyMessage_a, Stable.ofKA (wrapMessageHeader_ka _ _), processDHCommit_a]

theorem recvDHCommit_a (K : Crypto) (st : AuthState) (msg : Bytes) : Stable ARel (recvDHCommit K st msg) := by
  unfold recvDHCommit akeTry
  kstable [recvDHCommitNone_a, Stable.ofKA (wrapMessageHeader_ka _ _), processDHCommit_a,
    Stable.ofKA serializeDHKey_ka, Stable.ofKA (serializeDHCommit_ka _), Stable.ofKA getAke_ka,
    Stable.ofKA (optNat_ka _ _)]

theorem calcAKEKeys_a (K : Crypto) : Stable ARel (calcAKEKeys K) := by
  unfold calcAKEKeys
  kstable [Stable.ofKA getAke_ka, Stable.ofKA (optNat_ka _ _)]

theorem revealSigMessage_a (K : Crypto) : Stable ARel (revealSigMessage K) := by
  unfold revealSigMessage
  kstable [calcAKEKeys_a, Stable.ofKA getAke_ka, Stable.ofKA (generateEncryptedSignature_ka _ _),
    Stable.ofKA (resToM_ka _)]

theorem recvDHKey_a (K : Crypto) (st : AuthState) (msg : Bytes) : Stable ARel (recvDHKey K st msg) := by
  unfold recvDHKey akeTry
  kstable [processDHKey_a, revealSigMessage_a, Stable.ofKA (wrapMessageHeader_ka _ _), akeSetTheirCurrent_a,
    akeSetOurCurrent_a]

theorem processEncryptedSig_a (K : Crypto) (encryptedSig theirMAC : Bytes) (keys : AkeKeys) :
    Stable ARel (processEncryptedSig K encryptedSig theirMAC keys) := by
  unfold processEncryptedSig
  kstable [Stable.ofKA getAke_ka, Stable.ofKA (optNat_ka _ _)]

theorem processRevealSig_a (K : Crypto) (msg : Bytes) : Stable ARel (processRevealSig K msg) := by
  unfold processRevealSig
  kstable [Stable.ofKA getAke_ka, calcAKEKeys_a, processEncryptedSig_a]

theorem processSig_a (K : Crypto) (msg : Bytes) : Stable ARel (processSig K msg) := by
  unfold processSig
  kstable [Stable.ofKA getAke_ka, processEncryptedSig_a]

theorem sendDHCommit_a (K : Crypto) : Stable ARel (sendDHCommit K) := by
  unfold sendDHCommit
  kstable [dhCommitMessage_a, Stable.ofKA (wrapMessageHeader_ka _ _)]


/-! ## 7. session boundaries on the receive path: `akeHasFinished`, the disconnect TLV -/

/-- `akeHasFinished` is the session boundary `SessionBoundary.ake` -/
theorem akeHasFinished_k (K : Crypto) : Stable (KRel K) (akeHasFinished K) := by
  intro s r s' h hc
  cases ha : s.conv.ake with
  | none => rw [akeHasFinished_none K s ha] at h; cases h
  | some a =>
    obtain ⟨r0, env', mm', -, h'⟩ := akeHasFinished_run K s a ha
    rw [h'] at h
    simp only [Res.ok.injEq, Prod.mk.injEq] at h
    rw [← h.2]
    refine ⟨?_, 1, .ofBoundary (.ake s.conv.keys a.keys r0 (hc a ha))⟩
    intro a' ha'
    have h2 : some a.wiped = some a' := ha'
    injection h2 with h2
    subst h2
    exact ⟨rfl, rfl, rfl⟩

theorem recvRevealSig_k (K : Crypto) (st : AuthState) (msg : Bytes) : Stable (KRel K) (recvRevealSig K st msg) := by
  unfold recvRevealSig akeTry
  kstable [(processRevealSig_a _ _).a_toK, (sigMessage_a _).a_toK, Stable.ofKA (wrapMessageHeader_ka _ _),
    akeSetTheirCurrent_a.a_toK, akeSetOurCurrent_a.a_toK, akeHasFinished_k]

theorem recvSig_k (K : Crypto) (st : AuthState) (msg : Bytes) : Stable (KRel K) (recvSig K st msg) := by
  unfold recvSig akeTry
  kstable [(processSig_a _ _).a_toK, akeSetTheirCurrent_a.a_toK, akeHasFinished_k]

theorem processAKE_k (K : Crypto) (t : Nat) (msg : Bytes) : Stable (KRel K) (processAKE K t msg) := by
  unfold processAKE
  kstableR [Stable.ofKA getAke_ka, (recvDHCommit_a _ _ _).a_toK, (recvDHKey_a _ _ _).a_toK, recvRevealSig_k,
    recvSig_k, (retransmitAfterCompletedExchange_s _ _ _ _).s_toK]

theorem receiveQueryMessage_k (K : Crypto) (msg : Bytes) : Stable (KRel K) (receiveQueryMessage K msg) := by
  unfold receiveQueryMessage msgEventErr
  kstable [Stable.ofKA (commitToVersionFrom_ka _), (sendDHCommit_a _).a_toK]

theorem receiveTaggedPlaintext_k (K : Crypto) (msg : Bytes) : Stable (KRel K) (receiveTaggedPlaintext K msg) := by
  unfold receiveTaggedPlaintext msgEventErr
  kstable [Stable.ofKA (commitToVersionFrom_ka _), (sendDHCommit_a _).a_toK, Stable.ofKA (checkPlaintextPolicies_ka _)]

/-- the peer's disconnect TLV is the session boundary `SessionBoundary.disc` -/
theorem processDisconnectedTLV_k (K : Crypto) : Stable (KRel K) processDisconnectedTLV := by
  intro s r s' h hc
  rw [processDisconnectedTLV_run] at h
  simp only [Res.ok.injEq, Prod.mk.injEq] at h
  rw [← h.2]
  exact ⟨fun a ha => (nomatch ha), 1, .ofBoundary (.disc _)⟩

theorem processTLVs_k (K : Crypto) (tlvs : List Tlv) (x : Bytes) : Stable (KRel K) (processTLVs K tlvs x) := by
  unfold processTLVs
  kstable [processDisconnectedTLV_k, Stable.ofKA (processExtraSymmetricKeyTLV_ka _ _), Stable.ofKA (processSMPTLV_ka _ _)]

theorem tailRest_k (K : Crypto) (tlvs : List Tlv) (x : Bytes) : Stable (KRel K) (ConvData.tailRest K tlvs x) := by
  unfold ConvData.tailRest
  kstable [processTLVs_k, (genDataMsgWithFlag_s _ _ _ _).s_toK, Stable.ofKA (wrapMessageHeader_ka _ _)]


/-! ## 8. receiving a data message -/

/-- what is left of `processDataMessageTail` when the rotation has failed (repaired code): the TLVs of the message
    are acted upon - their replies are dropped - and then the rotation error is reported -/
def tailFailed (K : Crypto) (tlvs : List Tlv) (extraKey : Bytes) (e : Err) : M (Option Bytes) := do
  let _ ← processTLVs K tlvs extraKey
  throw e

theorem tailFailed_k (K : Crypto) (tlvs : List Tlv) (x : Bytes) (e : Err) : Stable (KRel K) (tailFailed K tlvs x e) := by
  unfold tailFailed
  kstable [processTLVs_k]

/-- `processDataMessageTail`: the rotation part, then `tailRest` (TLVs and reply) - or, when the rotation failed for
    lack of randomness (keys unchanged by it, their key not rotated), `tailFailed` (TLVs, then the error).  `np` is
    what the randomness read for the new DH key returned (`none` also when no read was made: `rotateOurKeys`
    ignores it then) -/
theorem tail_run (K : Crypto) (dm : DataMsg) (tlvs : List Tlv) (x : Bytes) (t : MState) :
    ∃ np env' mm',
      runM (processDataMessageTail K dm tlvs x) t =
        match (t.conv.keys.rotateOurKeys K dm.recipientKeyID np).2 with
        | some e => runM (tailFailed K tlvs x e)
            { t with conv := { t.conv with keys := (t.conv.keys.rotateOurKeys K dm.recipientKeyID np).1 },
                     env := env', mismatch := mm' }
        | none => runM (ConvData.tailRest K tlvs x)
            { t with conv := { t.conv with keys :=
                        ((t.conv.keys.rotateOurKeys K dm.recipientKeyID np).1).rotateTheirKey dm.senderKeyID dm.y },
                     env := env', mismatch := mm' } := by
  unfold processDataMessageTail ConvData.tailRest tailFailed
  by_cases hro : t.conv.keys.rotatesOur dm.recipientKeyID = true
  · obtain ⟨np, env', mm', hr, -, -⟩ := randRead_run 40 t
    refine ⟨np, env', mm', ?_⟩
    simp only [runM_bind, runM_getc, bindM_ok, hro, ↓reduceIte, hr]
    cases hk : t.conv.keys.rotateOurKeys K dm.recipientKeyID np with
    | mk k1 e =>
      cases e with
      | none => simp only [runM_bind, runM_modc, bindM_ok, runM_pure, Option.isNone_none, ↓reduceIte]
      | some e =>
        simp only [runM_bind, runM_modc, bindM_ok, runM_pure, runM_throw, Option.isNone_some, Bool.false_eq_true,
          ↓reduceIte]
        cases runM (processTLVs K tlvs x) _ with
        | panic p => rfl
        | ok v => obtain ⟨v, u⟩ := v; cases v <;> rfl
  · refine ⟨none, t.env, t.mismatch, ?_⟩
    simp only [runM_bind, runM_getc, bindM_ok, hro, Bool.false_eq_true, ↓reduceIte, runM_pure]
    cases hk : t.conv.keys.rotateOurKeys K dm.recipientKeyID none with
    | mk k1 e =>
      cases e with
      | none => simp only [runM_bind, runM_modc, bindM_ok, runM_pure, Option.isNone_none, ↓reduceIte]
      | some e =>
        simp only [runM_bind, runM_modc, bindM_ok, runM_pure, runM_throw, Option.isNone_some, Bool.false_eq_true,
          ↓reduceIte]
        cases runM (processTLVs K tlvs x) _ with
        | panic p => rfl
        | ok v => obtain ⟨v, u⟩ := v; cases v <;> rfl


theorem rotateOurKeys_err {K : Crypto} {k : Keys} {r : Nat} {np : Option Bytes} {e : Err}
    (h : (k.rotateOurKeys K r np).2 = some e) : r = k.ourKeyID ∧ (k.rotateOurKeys K r np).1 = k := by
  cases np with
  | some p =>
    exfalso
    by_cases hr : r = k.ourKeyID
    · simp only [Keys.rotateOurKeys, hr, ↓reduceIte] at h; cases h
    · simp only [Keys.rotateOurKeys, hr, ↓reduceIte] at h; cases h
  | none =>
    rw [rotateOurKeys_fail_unchanged] at h ⊢
    by_cases hr : r = k.ourKeyID
    · exact ⟨hr, rfl⟩
    · rw [if_neg hr] at h; cases h

theorem rotateOurKeys_none_eq {K : Crypto} {k : Keys} {r : Nat} {np : Option Bytes}
    (h : (k.rotateOurKeys K r np).2 = none) :
    (k.rotateOurKeys K r np).1 = (k.rotateOurKeys K r (some (np.getD []))).1 := by
  cases np with
  | some p => rfl
  | none =>
    by_cases hr : r = k.ourKeyID
    · rw [rotateOurKeys_fail_unchanged, if_pos hr] at h; cases h
    · rw [rotateOur_ne k r _ hr, rotateOur_ne k r _ hr]

theorem acceptState_keys (K : Crypto) (header msg : Bytes) (s : MState) (dm : DataMsg) (sk : SessionKeys)
    (h : ConvData.Accepts K header msg s dm sk) :
    (ConvData.acceptState s dm sk).conv.keys =
      s.conv.keys.afterCheck K dm.recipientKeyID dm.senderKeyID (bytesToNat dm.topHalfCtr) := by
  obtain ⟨h1, h2, h3, h4, h5⟩ := h
  unfold Keys.afterCheck ConvData.acceptState
  rw [checkMessageCounter_fst]
  simp only [Keys.recordMac, Keys.recvMACOf, h3, storeCtr, if_neg (Nat.not_le.mpr h5)]

theorem accepts_of_Accepts (K : Crypto) (header msg : Bytes) (s : MState) (dm : DataMsg) (sk : SessionKeys)
    (h : ConvData.Accepts K header msg s dm sk) :
    s.conv.keys.accepts K dm.recipientKeyID dm.senderKeyID (bytesToNat dm.topHalfCtr) :=
  ⟨⟨sk, h.2.2.1⟩, h.2.2.2.2⟩

/-- the rest of an accepted data message, from the state in which the counter is stored and the MAC key recorded:
    one step of the key context (`recv`, or `recvNoRot` when the rotation fails), then TLVs and reply -/
theorem tail_from_accept (K : Crypto) (dm : DataMsg) (tlvs : List Tlv) (x : Bytes) (k : Keys) (n : Nat) (t : MState)
    (r : Except Err (Option Bytes)) (s' : MState)
    (hacc : k.accepts K dm.recipientKeyID dm.senderKeyID n)
    (ht : t.conv.keys = k.afterCheck K dm.recipientKeyID dm.senderKeyID n)
    (h : runM (processDataMessageTail K dm tlvs x) t = .ok (r, s')) :
    ∃ t1 : MState, k.AcceptedInto K dm.recipientKeyID dm.senderKeyID n t1.conv.keys ∧
      t1.conv.ake = t.conv.ake ∧ KRel K t1 s' := by
  obtain ⟨np, env', mm', hrun⟩ := tail_run K dm tlvs x t
  rw [hrun] at h
  cases he : (t.conv.keys.rotateOurKeys K dm.recipientKeyID np).2 with
  | some e =>
    rw [he] at h
    simp only at h
    obtain ⟨hr, hk⟩ := rotateOurKeys_err he
    refine ⟨{ t with
        conv := { t.conv with keys := (t.conv.keys.rotateOurKeys K dm.recipientKeyID np).1 }
        env := env', mismatch := mm' }, ?_, rfl, tailFailed_k K tlvs x e _ r s' h⟩
    show k.AcceptedInto K _ _ n (t.conv.keys.rotateOurKeys K dm.recipientKeyID np).1
    rw [hk, ht]
    refine .inr ⟨?_, rfl⟩
    rw [hr, ht, (afterCheck_ids K k _ _ n).1]
  | none =>
    rw [he] at h
    simp only at h
    refine ⟨{ t with
        conv := { t.conv with keys :=
          ((t.conv.keys.rotateOurKeys K dm.recipientKeyID np).1).rotateTheirKey dm.senderKeyID dm.y }
        env := env', mismatch := mm' }, ?_, rfl, tailRest_k K tlvs x _ r s' h⟩
    show k.AcceptedInto K _ _ n
      (((t.conv.keys.rotateOurKeys K dm.recipientKeyID np).1).rotateTheirKey dm.senderKeyID dm.y)
    rw [rotateOurKeys_none_eq he, ht, ← afterAccept_eq_afterCheck]
    exact .inl ⟨dm.y, _, rfl⟩

theorem KHist.head_step {K n k k1 k2} (h1 : KStep' K k k1) (h2 : KHist K n k1 k2) : KHist K n k k2 := by
  have := (KHist.ofStep h1).trans h2
  rwa [Nat.zero_add] at this

theorem processDataMessageRaw_k (K : Crypto) (header msg : Bytes) :
    Stable (KRel K) (processDataMessageRaw K header msg) := by
  intro s r s' h
  have h' : ConvData.run' (processDataMessageRaw K header msg) s = .ok (r, s') := h
  rw [ConvData.raw_eq] at h'
  by_cases h1 : s.conv.msgState ≠ .encrypted
  · rw [if_pos h1] at h'
    simp only [Res.ok.injEq, Prod.mk.injEq] at h'
    rw [← h'.2]; exact KFrame.same _ _ rfl
  · rw [if_neg h1] at h'
    cases h2 : DataMsg.deserialize msg with
    | none =>
      rw [h2] at h'
      simp only [Res.ok.injEq, Prod.mk.injEq] at h'
      rw [← h'.2]; exact Frame.refl _
    | some dm =>
      rw [h2] at h'
      simp only [] at h'
      cases h3 : s.conv.keys.deriveSessionKeys K dm.recipientKeyID dm.senderKeyID with
      | error e =>
        rw [h3] at h'
        simp only [Res.ok.injEq, Prod.mk.injEq] at h'
        rw [← h'.2]; exact Frame.refl _
      | ok sk =>
        rw [h3] at h'
        simp only [] at h'
        by_cases h4 : K.mac1 sk.recvMAC (header ++ dm.unsignedRaw) ≠ dm.authenticator
        · rw [if_pos h4] at h'
          simp only [Res.ok.injEq, Prod.mk.injEq] at h'
          rw [← h'.2]; exact Frame.refl _
        · rw [if_neg h4] at h'
          by_cases h5 : bytesToNat dm.topHalfCtr ≤
              (findCounter s.conv.keys.counters dm.recipientKeyID dm.senderKeyID).1.theirCounter
          · rw [if_pos h5] at h'
            simp only [Res.ok.injEq, Prod.mk.injEq] at h'
            rw [← h'.2]
            intro hc
            exact ⟨hc, 0, .ofStep (.replay _ _ _ ⟨sk, h3⟩)⟩
          · rw [if_neg h5, ConvData.acceptCont_run] at h'
            have hA : ConvData.Accepts K header msg s dm sk :=
              ⟨by simpa using h1, h2, h3, by simpa using h4, by omega⟩
            have key : ∀ (t : MState), t.conv = (ConvData.acceptState s dm sk).conv → ∀ r0 u,
                runM (processDataMessageTail K dm
                  (PlainDataMsg.deserialize (ConvData.plainBytesOf K sk dm)).1.tlvs sk.extraKey) t = .ok (r0, u) →
                KRel K s u := by
              intro t htc r0 u hrun hc
              obtain ⟨t1, hst, hak, hrel⟩ := tail_from_accept K dm _ _ s.conv.keys _ t r0 u
                (accepts_of_Accepts K header msg s dm sk hA)
                (by rw [htc]; exact acceptState_keys K header msg s dm sk hA) hrun
              have hc1 : AkeClean t1.conv := hc.congr (by rw [hak, htc]; rfl)
              obtain ⟨hcu, n, hh⟩ := hrel hc1
              exact ⟨hcu, n, hh.head_step (hst.toStep (accepts_of_Accepts K header msg s dm sk hA))⟩
            cases hrun : ConvData.run' (processDataMessageTail K dm
                (PlainDataMsg.deserialize (ConvData.plainBytesOf K sk dm)).1.tlvs sk.extraKey)
                (if (PlainDataMsg.deserialize (ConvData.plainBytesOf K sk dm)).1.message.isEmpty
                  then { ConvData.acceptState s dm sk with
                          events := (ConvData.acceptState s dm sk).events ++ ["msg:10"] }
                  else ConvData.acceptState s dm sk) with
            | panic p => rw [hrun] at h'; cases h'
            | ok v =>
              obtain ⟨v, u⟩ := v
              rw [hrun] at h'
              have hu : u = s' := by
                cases v <;> (simp only [Res.ok.injEq, Prod.mk.injEq] at h'; exact h'.2)
              subst hu
              exact key _ (by split <;> rfl) v u hrun

theorem receiveDataMessage_k (K : Crypto) (header body : Bytes) :
    Stable (KRel K) (receiveDataMessage K header body) := by
  unfold receiveDataMessage
  kstable [processDataMessageRaw_k, Stable.ofKA (notifyDataMessageError_ka _), (potentialHeartbeat_s _ _).s_toK]

theorem receiveDecodedCore_k (K : Crypto) (msg : Bytes) : Stable (KRel K) (receiveDecodedCore K msg) := by
  unfold receiveDecodedCore msgEventErr
  kstable [Stable.ofKA (checkVersion_ka _), Stable.ofKA (parseMessageHeader_ka _), receiveDataMessage_k, processAKE_k]

theorem receiveDecoded_k (K : Crypto) (msg : Bytes) : Stable (KRel K) (receiveDecoded K msg) := by
  unfold receiveDecoded
  kstable [receiveDecodedCore_k]

/-! ## 8b. `receive`, `endSession` -/

theorem receiveUnit_k (K : Crypto) : ∀ (fuel : Nat) (msg : Bytes) (fg : Bool),
    Stable (KRel K) (receiveUnit K fuel msg fg) := by
  intro fuel
  induction fuel with
  | zero =>
    intro msg fg
    rw [receiveUnit]
    kstable []
  | succ fuel ih =>
    intro msg fg
    rw [receiveUnit]
    unfold msgEvent
    kstableR [Stable.ofKA (receiveErrorMessage_ka _), Stable.ofKA (withInjects_ka _), receiveQueryMessage_k,
      Stable.ofKA (toSendEncoded_ka _ _), receiveTaggedPlaintext_k, Stable.ofKA (checkPlaintextPolicies_ka _),
      Stable.ofKA (receiveFragment_ka _ _), ih, receiveDecoded_k]

theorem receive_k (K : Crypto) (m : Bytes) : Stable (KRel K) (receive K m) :=
  receiveUnit_k K _ m true

/-- `endSession`: whatever the disconnect message does (steps), then the boundary `SessionBoundary.endS` -/
theorem endSession_k (K : Crypto) : Stable (KRel K) (endSession K) := by
  intro s r s' h hc
  by_cases he : s.conv.msgState = .encrypted
  · rw [endSession_encrypted_run K s he] at h
    cases hx : runM (createSerializedDataMessage K [] messageFlagIgnoreUnreadable
        [{ typ := tlvTypeDisconnected, len := 0, value := [] }]) { s with conv := { s.conv with smp := {} } } with
    | panic p => rw [hx] at h; cases h
    | ok v =>
      obtain ⟨v, s2⟩ := v
      rw [hx] at h
      simp only [Res.ok.injEq, Prod.mk.injEq] at h
      have hs := createSerializedDataMessage_s K _ _ _ _ v s2 hx
      rw [← h.2]
      refine ⟨fun a ha => (nomatch ha), 1, ?_⟩
      exact .boundary hs.1.toHist (.endS _)
  · rw [endSession_notEncrypted_run K s he] at h
    simp only [Res.ok.injEq, Prod.mk.injEq] at h
    rw [← h.2]
    exact ⟨fun a ha => (nomatch ha), 1, .ofBoundary (.endS _)⟩



/-! ## 9. C05 up to the next completed key exchange -/

/-- histories without a completed key exchange: steps, `endSession`, the peer's disconnect TLV -/
inductive KHistE (K : Crypto) : Keys → Keys → Prop
  | refl (k : Keys) : KHistE K k k
  | step {k k1 k2 : Keys} : KHistE K k k1 → KStep' K k1 k2 → KHistE K k k2
  | endS {k k1 : Keys} : KHistE K k k1 →
      KHistE K k { k1 with ourCur := none, ourPrev := none, theirCur := k1.theirCur.map (fun _ => 0) }
  | disc {k k1 : Keys} : KHistE K k k1 →
      KHistE K k { oldMACKeys := k1.oldMACKeys ++ k1.macHistory.map (fun u : MacUse => u.key) }

theorem KSteps'.toHistE {K k k'} (h : KSteps' K k k') : KHistE K k k' := by
  induction h with
  | refl => exact .refl _
  | tail _ hs ih => exact .step ih hs

theorem KHistE.toHist {K k k'} (h : KHistE K k k') : ∃ n, KHist K n k k' := by
  induction h with
  | refl => exact ⟨0, .refl _⟩
  | step _ hs ih => obtain ⟨n, ih⟩ := ih; exact ⟨n, .step ih hs⟩
  | endS _ ih => obtain ⟨n, ih⟩ := ih; exact ⟨n + 1, .boundary ih (.endS _)⟩
  | disc _ ih => obtain ⟨n, ih⟩ := ih; exact ⟨n + 1, .boundary ih (.disc _)⟩

theorem KHistE.after_steps {K k0 k k'} (h : KHistE K k k') (h0 : KSteps' K k0 k) : KHistE K k0 k' := by
  induction h with
  | refl => exact h0.toHistE
  | step _ hs ih => exact .step ih hs
  | endS _ ih => exact .endS ih
  | disc _ ih => exact .disc ih

/-- no session keys can be derived: both generations of our DH key are gone -/
def Keys.Unusable (k : Keys) : Prop := k.ourCur = none ∧ k.ourPrev = none

theorem Keys.Unusable.no_derive {K} {k : Keys} (h : k.Unusable) (i j : Nat) (sk : SessionKeys) :
    k.deriveSessionKeys K i j ≠ .ok sk := by
  intro hd
  unfold Keys.deriveSessionKeys at hd
  split at hd
  · cases hd
  · rename_i ours ho
    have hn : ours = none := by
      unfold Keys.pickOurKeys at ho
      split at ho
      · cases ho
      · split at ho
        · injection ho with ho; rw [← ho]; exact h.1
        · split at ho
          · injection ho with ho; rw [← ho]; exact h.2
          · cases ho
    subst hn
    split at hd
    · cases hd
    · cases hd

theorem Keys.Unusable.step' {K k k'} (h : k.Unusable) (hs : KStep' K k k') : k' = k := by
  cases hs with
  | base hb =>
    cases hb with
    | recv r s n y p hacc => exact absurd hacc.1.choose_spec (h.no_derive _ _ _)
    | send hd => exact absurd hd.choose_spec (h.no_derive _ _ _)
    | reject => rfl
  | recvNoRot r s n hacc _ => exact absurd hacc.1.choose_spec (h.no_derive _ _ _)
  | replay r s hd => exact absurd hd.choose_spec (h.no_derive _ _ _)
  | sendAbort hd => exact absurd hd.choose_spec (h.no_derive _ _ _)

/-- the invariant behind C05 across `End` and disconnect: the counter is stored (or the pair retired), or the
    key context can not derive session keys at all -/
theorem stored_or_unusable_histE {K} {k k' : Keys} {r s n : Nat}
    (h : (k.Stored Counter.theirCounter r s n ∧ 1 ≤ k.ourKeyID ∧ 1 ≤ k.theirKeyID) ∨ k.Unusable)
    (hs : KHistE K k k') :
    (k'.Stored Counter.theirCounter r s n ∧ 1 ≤ k'.ourKeyID ∧ 1 ≤ k'.theirKeyID) ∨ k'.Unusable := by
  induction hs with
  | refl => exact h
  | step _ hs ih =>
    rcases ih with ih | ih
    · have := hs.ids_mono
      exact .inl ⟨ih.1.step' monoProj_their ih.2.1 ih.2.2 hs, by omega, by omega⟩
    · rw [ih.step' hs]; exact .inr ih
  | endS _ ih => exact .inr ⟨rfl, rfl⟩
  | disc _ ih => exact .inr ⟨rfl, rfl⟩

/-- **C05 up to the next completed key exchange**: once `(r, s, n)` has been accepted, neither it nor an older
    counter of the pair is accepted again — across any further traffic, failed rotations, refused replays,
    `End`, and the peer's disconnect — as long as no key exchange completes -/
theorem c05_no_replay_until_ake {K} {k k1 k2 : Keys} {r s n m : Nat}
    (hacc : k.accepts K r s n) (hk1 : k.AcceptedInto K r s n k1) (hs : KHistE K k1 k2) (hm : m ≤ n) :
    ¬ k2.accepts K r s m := by
  have hw := derive_ok_inWin hacc.1.choose_spec
  have hst : k1.Stored Counter.theirCounter r s n ∧ 1 ≤ k1.ourKeyID ∧ 1 ≤ k1.theirKeyID := by
    rcases hk1 with ⟨y, p, rfl⟩ | ⟨_, rfl⟩
    · have hm := (KStep.recv k r s n y p hacc).ids_mono
      exact ⟨accepts_stored hacc y p, by omega, by omega⟩
    · have := afterCheck_ids K k r s n
      exact ⟨accepts_stored_check hacc, by omega, by omega⟩
  intro h
  rcases stored_or_unusable_histE (.inl hst) hs with h2 | h2
  · exact h2.1.not_accepts ⟨h.1, Nat.lt_of_lt_of_le h.2 hm⟩
  · exact h2.no_derive _ _ _ h.1.choose_spec

/-! ## 10. C09: where the keys of the reveal queue come from -/

theorem afterCheck_old (K : Crypto) (k : Keys) (r s n : Nat) : (k.afterCheck K r s n).oldMACKeys = k.oldMACKeys := by
  unfold Keys.afterCheck
  rw [checkMessageCounter_fst]
  rfl

/-- `b` is in the reveal queue at the start, or it is the key of a MAC-history entry of some state of the history -/
def QueueProv (K : Crypto) (k0 k : Keys) (b : Bytes) : Prop :=
  b ∈ k0.oldMACKeys ∨ ∃ n1 n2 k1, KHist K n1 k0 k1 ∧ KHist K n2 k1 k ∧ ∃ u ∈ k1.macHistory, u.key = b

theorem QueueProv.extend {K k0 k k' b n} (h : QueueProv K k0 k b) (hs : KHist K n k k') : QueueProv K k0 k' b := by
  rcases h with h | ⟨n1, n2, k1, h1, h2, hu⟩
  · exact .inl h
  · exact .inr ⟨n1, _, k1, h1, h2.trans hs, hu⟩

/-- **C09 (provenance) over histories with session boundaries**: every key waiting in the reveal queue was there
    at the start or is the key of an entry the MAC history had in some earlier state of the history — nothing else
    is ever disclosed, also across key exchanges, `End` and disconnects -/
theorem khist_queue_provenance {K n k0 k} (h : KHist K n k0 k) : ∀ b ∈ k.oldMACKeys, QueueProv K k0 k b := by
  induction h with
  | refl => exact fun b hb => .inl hb
  | @step n k0' k1 k2 hh hs ih =>
    intro b hb
    have keep : k2.oldMACKeys = k1.oldMACKeys → QueueProv K k0' k2 b := fun he =>
      (ih b (he ▸ hb)).extend (.ofStep hs)
    cases hs with
    | base hbs =>
      cases hbs with
      | recv r s n' y p hacc =>
        rw [afterAccept_old, List.mem_append] at hb
        rcases hb with hb | hb
        · exact (ih b hb).extend (.ofStep (.base (.recv k1 r s n' y p hacc)))
        · rw [List.mem_map] at hb
          obtain ⟨u, hu, rfl⟩ := hb
          exact .inr ⟨_, _, k1, hh, .ofStep (.base (.recv k1 r s n' y p hacc)), u, (disclosedBy_spec hacc y p hu).1, rfl⟩
      | send hd => exact nomatch hb
      | reject => exact keep rfl
    | recvNoRot r s n' hacc hr => exact keep (afterCheck_old K k1 r s n')
    | replay r s hd => exact keep rfl
    | sendAbort hd => exact keep rfl
  | @boundary n k0' k1 k2 hh hb' ih =>
    intro b hb
    cases hb' with
    | ake ak r hc =>
      rw [generateNewDHKeyPair_oldMACKeys] at hb
      simp only [hc.2.2, List.nil_append, List.mem_append, List.mem_map] at hb
      rcases hb with hb | ⟨u, hu, rfl⟩
      · exact (ih b hb).extend (.ofBoundary (.ake k1 ak r hc))
      · exact .inr ⟨_, _, k1, hh, .ofBoundary (.ake k1 ak r hc), u, hu, rfl⟩
    | endS => exact (ih b hb).extend (.ofBoundary (.endS k1))
    | disc =>
      simp only [List.mem_append, List.mem_map] at hb
      rcases hb with hb | ⟨u, hu, rfl⟩
      · exact (ih b hb).extend (.ofBoundary (.disc k1))
      · exact .inr ⟨_, _, k1, hh, .ofBoundary (.disc k1), u, hu, rfl⟩

/-! ## 11. the API level -/

theorem apiCall_k (K : Crypto) (call : ApiCall) : Stable (KRel K) (call.run K) := by
  cases call with
  | receive m => exact Stable.bind (receive_k K m) (fun _ => Stable.pure _)
  | send m => exact Stable.bind (send_s K m).s_toK (fun _ => Stable.pure _)
  | endSession => exact Stable.bind (endSession_k K) (fun _ => Stable.pure _)
  | smpStart q sec => exact Stable.bind (startAuthenticate_s K q sec).s_toK (fun _ => Stable.pure _)
  | smpSecret sec => exact Stable.bind (provideAuthenticationSecret_s K sec).s_toK (fun _ => Stable.pure _)
  | smpAbort => exact Stable.bind (abortAuthentication_s K).s_toK (fun _ => Stable.pure _)
  | extraKey u d => exact Stable.bind (useExtraSymmetricKey_s K u d).s_toK (fun _ => Stable.pure _)
  | sendTlvs text flag tlvs =>
    exact Stable.bind (createSerializedDataMessage_s K text flag tlvs).s_toK (fun _ => Stable.pure _)
  | setFragmentSize n =>
    show Stable (KRel K) (modc fun c => { c with fragmentSize := n })
    exact Stable.modc _ (fun s => KFrame.same s _ rfl)

/-- the calls that can not cross a session boundary: everything except `receive` and `endSession` -/
def ApiCall.keepsSession : ApiCall → Prop
  | .receive _ => False
  | .endSession => False
  | _ => True

theorem apiCall_s (K : Crypto) (call : ApiCall) (hk : call.keepsSession) : Stable (SRel K) (call.run K) := by
  cases call with
  | receive m => exact hk.elim
  | send m => exact Stable.bind (send_s K m) (fun _ => Stable.pure _)
  | endSession => exact hk.elim
  | smpStart q sec => exact Stable.bind (startAuthenticate_s K q sec) (fun _ => Stable.pure _)
  | smpSecret sec => exact Stable.bind (provideAuthenticationSecret_s K sec) (fun _ => Stable.pure _)
  | smpAbort => exact Stable.bind (abortAuthentication_s K) (fun _ => Stable.pure _)
  | extraKey u d => exact Stable.bind (useExtraSymmetricKey_s K u d) (fun _ => Stable.pure _)
  | sendTlvs text flag tlvs =>
    exact Stable.bind (createSerializedDataMessage_s K text flag tlvs) (fun _ => Stable.pure _)
  | setFragmentSize n =>
    show Stable (SRel K) (modc fun c => { c with fragmentSize := n })
    exact Stable.modc _ (fun s => KFrame.same s _ rfl)

/-- **the refinement, per API call.**  For every API call, every argument, every environment (randomness and
    signing tapes, clock) and every start state whose AKE key context is clean: if the call ends — it returned or
    threw, it did not panic — then the AKE key context is clean again and the key-management context of the
    conversation has moved along a history of key-management steps (`KStep'`) and session boundaries
    (`SessionBoundary`); `n` counts the boundaries.  (Neither `Inv` nor `CryptoOK` is needed for this direction;
    they give that the call does end: `apiCall_keys_refine_inv`.) -/
theorem apiCall_keys_refine (K : Crypto) (call : ApiCall) (s s' : MState) (r : Except Err Unit)
    (hc : AkeClean s.conv) (hr : runM (call.run K) s = .ok (r, s')) :
    AkeClean s'.conv ∧ ∃ n, KHist K n s.conv.keys s'.conv.keys :=
  apiCall_k K call s r s' hr hc

/-- calls other than `receive` and `endSession` stay inside the session: steps only, no boundary -/
theorem apiCall_same_session (K : Crypto) (call : ApiCall) (hk : call.keepsSession) (s s' : MState)
    (r : Except Err Unit) (hr : runM (call.run K) s = .ok (r, s')) :
    KSteps' K s.conv.keys s'.conv.keys ∧ s'.conv.ake = s.conv.ake :=
  apiCall_s K call hk s r s' hr

theorem runApi_append (K : Crypto) (pre mid : List ApiStep) (c : Conv) :
    runApi K c (pre ++ mid) = match runApi K c pre with
      | .ok c1 => runApi K c1 mid
      | .panic site => .panic site := by
  induction pre generalizing c with
  | nil => rfl
  | cons st rest ih =>
    simp only [List.cons_append, runApi]
    cases runM (st.call.run K) { conv := c, env := st.env } with
    | panic site => rfl
    | ok v => exact ih v.2.conv

/-- sequences of calls from any conversation with a clean AKE key context -/
theorem runApi_keys_refine (K : Crypto) (steps : List ApiStep) :
    ∀ (c c' : Conv), AkeClean c → runApi K c steps = .ok c' →
      AkeClean c' ∧ ∃ n, KHist K n c.keys c'.keys := by
  induction steps with
  | nil =>
    intro c c' hc h
    simp only [runApi, Res.ok.injEq] at h
    subst h
    exact ⟨hc, 0, .refl _⟩
  | cons st rest ih =>
    intro c c' hc h
    unfold runApi at h
    cases hr : runM (st.call.run K) { conv := c, env := st.env } with
    | panic site => rw [hr] at h; cases h
    | ok v =>
      obtain ⟨r, s'⟩ := v
      rw [hr] at h
      obtain ⟨hc1, n1, h1⟩ := apiCall_keys_refine K st.call _ s' r hc hr
      obtain ⟨hc2, n2, h2⟩ := ih s'.conv c' hc1 h
      exact ⟨hc2, _, h1.trans h2⟩

/-- the bounds without any hypothesis on the cryptography: from any conversation with a clean AKE key context and a
    bounded key context, whenever the sequence of calls runs to the end -/
theorem runApi_bounded (K : Crypto) (steps : List ApiStep) (c c' : Conv) (hc : AkeClean c) (hb : c.keys.Bnd)
    (hr : runApi K c steps = .ok c') :
    AkeClean c' ∧ c'.keys.Bnd ∧ c'.keys.counters.length ≤ 4 ∧ c'.keys.macHistory.length ≤ 4 := by
  obtain ⟨hc', n, hn⟩ := runApi_keys_refine K steps c c' hc hr
  exact ⟨hc', hb.hist hn, (hb.hist hn).lengths⟩

/-- **C05 between two states of an API history** (no hypothesis on the cryptography): `c2` is reached from `c1`
    by the calls `mid`.  The key contexts are related by a history (the refinement); if that history completes no
    key exchange (`KHistE`: steps, `End`, disconnect — in particular if it has no session boundary at all,
    `KHist K 0`), then whatever data message `(r, s, n)` had been accepted on the way to `c1` since its last
    boundary is refused at `c2`, and so is every older counter of the pair. -/
theorem runApi_c05_no_replay (K : Crypto) (mid : List ApiStep) (c1 c2 : Conv) (hc : AkeClean c1)
    (hr : runApi K c1 mid = .ok c2) :
    (∃ n, KHist K n c1.keys c2.keys) ∧
    ((KHistE K c1.keys c2.keys ∨ KHist K 0 c1.keys c2.keys) →
      ∀ (k k1 : Keys) (r s n m : Nat), k.accepts K r s n → k.AcceptedInto K r s n k1 →
        KSteps' K k1 c1.keys → m ≤ n → ¬ c2.keys.accepts K r s m) := by
  obtain ⟨-, hn⟩ := runApi_keys_refine K mid c1 c2 hc hr
  refine ⟨hn, ?_⟩
  intro hsame k k1 r s n m hacc hk1 hs1 hm
  have hE : KHistE K c1.keys c2.keys := by
    rcases hsame with h | h
    · exact h
    · exact (h.steps_of_zero rfl).toHistE
  exact c05_no_replay_until_ake hacc hk1 (hE.after_steps hs1) hm

/-- **C09 (provenance) along an API history** (no hypothesis on the cryptography): from a conversation with an
    empty reveal queue, every key waiting in the reveal queue afterwards is the key of an entry the MAC history
    had in some state of the history of the key context -/
theorem runApi_c09_queue_provenance (K : Crypto) (steps : List ApiStep) (c c' : Conv) (hc : AkeClean c)
    (h0 : c.keys.oldMACKeys = []) (hr : runApi K c steps = .ok c') :
    ∀ b ∈ c'.keys.oldMACKeys,
      ∃ n1 n2 k1, KHist K n1 c.keys k1 ∧ KHist K n2 k1 c'.keys ∧ ∃ u ∈ k1.macHistory, u.key = b := by
  obtain ⟨-, n, hn⟩ := runApi_keys_refine K steps c c' hc hr
  intro b hb
  rcases khist_queue_provenance hn b hb with h | h
  · rw [h0] at h; exact nomatch h
  · exact h

/-! ## 12. the hypotheses are satisfiable; the new steps and the boundaries are real -/

/-- a fresh conversation has a clean AKE key context, and a call on it ends -/
example : AkeClean ({} : Conv) := fun a ha => nomatch ha
example (K : Crypto) :
    runM ((ApiCall.setFragmentSize 5).run K) ⟨{}, {}, [], []⟩ = .ok (.ok (), ⟨{ fragmentSize := 5 }, {}, [], []⟩) := rfl
example : (({} : Keys)).Bnd := .inr ⟨rfl, rfl, .inl rfl⟩

/-- accepting (2, 2, 3) in `Keys.example1` (Proofs.Keys): both outcomes of the rotation -/
example : Keys.example1.AcceptedInto Crypto.dummy 2 2 3 (Keys.example1.afterAccept Crypto.dummy 2 2 3 13 [9]) :=
  .inl ⟨13, [9], rfl⟩
example : Keys.example1.AcceptedInto Crypto.dummy 3 2 1 (Keys.example1.afterCheck Crypto.dummy 3 2 1) :=
  .inr ⟨rfl, rfl⟩
/-- the three further steps -/
example : KStep' Crypto.dummy Keys.example1 (Keys.example1.afterCheck Crypto.dummy 3 2 1) :=
  .recvNoRot _ 3 2 1 ⟨⟨_, rfl⟩, by decide⟩ rfl
example : KStep' Crypto.dummy Keys.example1 (Keys.example1.afterReplay 2 2) := .replay _ 2 2 ⟨_, rfl⟩
example : KStep' Crypto.dummy Keys.example1 (Keys.example1.afterSendAbort Crypto.dummy) := .sendAbort _ ⟨_, rfl⟩
/-- a failed rotation leaves the message accepted — and refused from then on -/
example (k2 : Keys) (h : KSteps' Crypto.dummy (Keys.example1.afterCheck Crypto.dummy 3 2 1) k2) :
    ¬ k2.accepts Crypto.dummy 3 2 1 :=
  c05_no_replay' (k := Keys.example1) ⟨⟨_, rfl⟩, by decide⟩ (.inr ⟨rfl, rfl⟩) h (Nat.le_refl _)
/-- … also after `End` (no key exchange in between) -/
example : ¬ ({ Keys.example1.afterCheck Crypto.dummy 3 2 1 with
      ourCur := none, ourPrev := none
      theirCur := (Keys.example1.afterCheck Crypto.dummy 3 2 1).theirCur.map (fun _ => 0) } : Keys).accepts
        Crypto.dummy 3 2 1 :=
  c05_no_replay_until_ake (k := Keys.example1) ⟨⟨_, rfl⟩, by decide⟩ (.inr ⟨rfl, rfl⟩) (.endS (.refl _))
    (Nat.le_refl _)
/-- the three session boundaries; the key exchange carries the reveal queue `[0xCC]` and the two MAC-history keys -/
example : SessionBoundary Crypto.dummy Keys.example1
    { ourKeyID := 2, theirKeyID := 1, ourCur := some ⟨1, [3]⟩, ourPrev := some ⟨7, [1]⟩, theirCur := some 5
      oldMACKeys := [[0xCC], [0xAA], [0xBB]] } :=
  .ake Keys.example1 { ourKeyID := 1, theirKeyID := 1, ourCur := some ⟨7, [1]⟩, theirCur := some 5 } (some [3])
    ⟨rfl, rfl, rfl⟩
example : SessionBoundary Crypto.dummy Keys.example1
    { Keys.example1 with ourCur := none, ourPrev := none, theirCur := some 0 } := .endS _
example : SessionBoundary Crypto.dummy Keys.example1 { oldMACKeys := [[0xCC], [0xAA], [0xBB]] } := .disc _
/-- `End` on a fresh conversation: one boundary, as `apiCall_keys_refine` says -/
example (K : Crypto) : ∃ r s', runM (ApiCall.endSession.run K) ⟨{}, {}, [], []⟩ = .ok (r, s') ∧
    KHist K 1 ({} : Conv).keys s'.conv.keys :=
  ⟨_, _, rfl, .ofBoundary (.endS _)⟩


end Otr
