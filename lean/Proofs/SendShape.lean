/-
  Proofs.SendShape — property C03, the encrypted case: how the text handed to `Conversation.Send`
  (and a text released later from the resend queue) reaches the wire.

  Result in one sentence: in the encrypted state the text influences what is emitted ONLY as the third
  argument of `K.ctr` (AES-CTR under the sending key of the pair (ourKeyID-1, theirKeyID), IV = send
  counter ‖ 0^8) and, through that ciphertext, as part of the input of `K.mac1`; everything else on the
  wire is a function of the conversation state.  The padding TLV depends on the text LENGTH only.

  §0  message header     : TagReady, hdrOf, messageHeader_ready (exact), messageHeader_ok (what a successful
                           `messageHeader` guarantees afterwards)
  §1  pieces             : plaintextOf / plainBytes (text ‖ 0 ‖ TLVs ‖ padding TLV), plaintextOf_length,
                           encBytes (ciphertext actually used: `K.ctr …`, or zeros if AES refuses the key),
                           sendKeysOf, sendIV, cipherOf, dataFields, genData_run (general decomposition of
                           `genDataMsgWithFlag` around the one effectful step `messageHeader`)
  §2  exact runs         : dataBody, rawDataWith, armorOf, wireOfRaw, dataWire; SendReady;
                           genData_ready, createSerializedDataMessage_ready, fragEncode_run
  §3  Send               : send_encrypted_exact (wire and successor state), send_encrypted_wire,
                           send_encrypted_successor, sendKeysOf_dh / sendAES_dh (the AES key is a hash of the
                           DH shared secret), links to Otr.Spec (armor_spec, rawDataWith_spec, hdrOf_spec_*)
  §4  noninterference    : Crypto.AgreeExceptCtr, send_encrypted_text_only_via_ctr
  §5  every encrypted state (no well-formedness): createSerializedDataMessage_run, send_encrypted_run (exact,
                           including the failure paths), SameButResend, send_encrypted_text_only_via_ctr_any
  §6  the resend queue   : retransmit_exact, retransmit_single, maybeRetransmit_run,
                           queued_text_only_via_ctr (+ _maybe), resendText ("[resent] " prefix),
                           toSendEncoded_run (the armouring the receive path applies to those messages)
  §7  alphabet           : isWireChar, WireText, wireText_wireOfRaw, send_wire_is_armoured,
                           queued_wire_is_armoured, WireText.not_infix

  NOT proved (and not provable here): that `K.ctr` hides its plaintext, that `K.mac1` does not leak its
  input, and that the key is unknown to anyone without a DH secret — `K : Crypto` is an uninterpreted
  record (DESIGN §6).  `sendAES_dh` states the structural half: the key is
  `hash1(sendbyte ‖ MPI(theirPub ^ ourPriv))[0..16]`.
  Honest remark on state: the successor state REMEMBERS the text (`resendMsgs := [text]`, unless we are
  inside a retransmission) for a later "[resent] " retransmission (C08/C18).  That is memory, not wire; when
  it is released it goes through the same `genDataMsgWithFlag` path (§6).
  Core Lean only; axioms: propext, Classical.choice, Quot.sound.
-/
import Otr.Conv
import Proofs.ConvLife
import Proofs.Ratchet
import Proofs.B64
import Proofs.Frag
import Proofs.ConvData
import Proofs.Spec
namespace Otr

/-! ## 0. message header -/

/-- the header of the next message is determined by the state: version 2 (no instance tags), or version 3
    with our instance tag already generated.  In an encrypted conversation this always holds (the AKE
    messages carried the same header), but no stored invariant says so, hence the explicit hypothesis.
    Without it `messageHeader` draws the tag from `env.rand` (see §5 for that case). -/
def TagReady (c : Conv) : Prop := c.version = some .v2 ∨ (c.version = some .v3 ∧ c.ourTag ≠ 0)

/-- otrV2/otrV3.messageHeader as a function of the conversation -/
def hdrOf (c : Conv) (msgType : Nat) : Bytes :=
  match c.version with
  | some .v2 => [0, 2, b8 msgType]
  | _ => [0, 3, b8 msgType] ++ be32 c.ourTag ++ be32 c.theirTag

/-- exact: from a `TagReady` state `messageHeader` is pure -/
theorem messageHeader_ready (s : MState) (h : TagReady s.conv) (t : Nat) :
    runM (messageHeader t) s = .ok (.ok (hdrOf s.conv t), s) := by
  rcases h with h | ⟨h, ht⟩
  · unfold messageHeader hdrOf
    simp only [runM_bind, runM_getc, bindM_ok, h, runM_pure]
    rfl
  · rw [messageHeader_v3 s h ht t]
    simp only [hdrOf, h]

/-- whenever `messageHeader` returns normally, the state afterwards is `TagReady`, the header is `hdrOf`
    of it, and only `ourTag` (plus `env.rand`/`mismatch`) may have changed -/
theorem messageHeader_ok (s s' : MState) (t : Nat) (h : Bytes)
    (hr : runM (messageHeader t) s = .ok (.ok h, s')) :
    TagReady s'.conv ∧ h = hdrOf s'.conv t ∧ s'.conv = { s.conv with ourTag := s'.conv.ourTag } ∧
      s'.events = s.events ∧ s'.env.now = s.env.now := by
  cases hv : s.conv.version with
  | none =>
    unfold messageHeader at hr
    simp only [runM_bind, runM_getc, bindM_ok, hv, runM_goPanic] at hr
    cases hr
  | some v =>
    cases v with
    | v2 =>
      have h2 := messageHeader_ready s (Or.inl hv) t
      rw [h2] at hr
      simp only [Res.ok.injEq, Prod.mk.injEq, Except.ok.injEq] at hr
      obtain ⟨hr1, hr2⟩ := hr
      subst hr2
      exact ⟨Or.inl hv, hr1.symm, rfl, rfl, rfl⟩
    | v3 =>
      by_cases ht : s.conv.ourTag = 0
      · obtain ⟨env', mm', hs, hh⟩ := generateInstanceTag_run s ht
        unfold messageHeader at hr
        simp only [runM_bind, runM_getc, bindM_ok, hv] at hr
        rcases hh with ⟨v, hv1, hv2, hh⟩ | hh
        · rw [hh] at hr
          simp only [bindM_ok, runM_pure, Res.ok.injEq, Prod.mk.injEq, Except.ok.injEq] at hr
          obtain ⟨hr1, hr2⟩ := hr
          subst hr2
          refine ⟨Or.inr ⟨hv, ?_⟩, ?_, rfl, rfl, hs.1⟩
          · show v ≠ 0
            omega
          · rw [← hr1]
            simp only [hdrOf, hv]
            rfl
        · rw [hh] at hr
          simp only [bindM_error, Res.ok.injEq, Prod.mk.injEq] at hr
          cases hr.1
      · have h2 := messageHeader_ready s (Or.inr ⟨hv, ht⟩) t
        rw [h2] at hr
        simp only [Res.ok.injEq, Prod.mk.injEq, Except.ok.injEq] at hr
        obtain ⟨hr1, hr2⟩ := hr
        subst hr2
        exact ⟨Or.inr ⟨hv, ht⟩, hr1.symm, rfl, rfl, rfl⟩

/-! ## 1. the pieces of a data message as functions of the ciphertext -/

/-- number of padding bytes `plainDataMsg.pad` adds for a text of `n` bytes -/
def padLenOf (n : Nat) : Nat := paddingGranularity - ((n + 4 + 1) % paddingGranularity)

/-- the serialised padding TLV (type 0, length, zeros) for a text of `n` bytes: depends on `n` only -/
def paddingTlvBytes (n : Nat) : Bytes :=
  appendShort (appendShort [] tlvTypePadding) (padLenOf n) ++ List.replicate (padLenOf n) 0

/-- what is handed to AES for text `text` and TLVs `tlvs`: text ‖ NUL ‖ TLVs ‖ padding TLV -/
def plainBytes (text : Bytes) (tlvs : List Tlv) : Bytes :=
  text ++ [0] ++ (tlvs.flatMap Tlv.serialize ++ paddingTlvBytes text.length)

/-- the plaintext `Send` encrypts for `text` (no TLVs): `text ++ [0] ++ paddingTlvBytes text.length` -/
def plaintextOf (text : Bytes) : Bytes := plainBytes text []

/-- `plainBytes` is the model's `(pad ⟨text, tlvs⟩).serialize` -/
theorem plainBytes_eq (text : Bytes) (tlvs : List Tlv) :
    plainBytes text tlvs = (PlainDataMsg.pad ⟨text, tlvs⟩).serialize := by
  simp only [plainBytes, paddingTlvBytes, PlainDataMsg.pad, PlainDataMsg.serialize, List.flatMap_append,
    List.flatMap_cons, List.flatMap_nil, List.append_nil, Tlv.serialize, padLenOf]

theorem plaintextOf_eq (text : Bytes) : plaintextOf text = text ++ [0] ++ paddingTlvBytes text.length := rfl

theorem paddingTlvBytes_length (n : Nat) : (paddingTlvBytes n).length = 4 + padLenOf n := by
  simp only [paddingTlvBytes, appendShort, be16, List.nil_append, List.length_append, List.length_cons,
    List.length_nil, List.length_replicate]

/-- the plaintext length is a function of the text length only: the next multiple of 256 above `len + 5` -/
theorem plaintextOf_length (text : Bytes) :
    (plaintextOf text).length = 256 * ((text.length + 5) / 256 + 1) := by
  simp only [plaintextOf_eq, List.length_append, List.length_cons, List.length_nil, paddingTlvBytes_length,
    padLenOf, paddingGranularity]
  omega

theorem plaintextOf_length_congr (t1 t2 : Bytes) (h : t1.length = t2.length) :
    (plaintextOf t1).length = (plaintextOf t2).length := by
  rw [plaintextOf_length, plaintextOf_length, h]

/-- the ciphertext `encryptPlain` produces: `K.ctr key iv plain`; if AES rejects the key size the Go code
    ignores the error and sends the zero-initialised buffer of the plaintext's length -/
def encBytes (K : Crypto) (key iv plain : Bytes) : Bytes :=
  match K.ctr key iv plain with
  | some d => d
  | none => List.replicate plain.length 0

/-- the session keys `genDataMsgWithFlag` derives, for (ourKeyID − 1, theirKeyID) -/
def sendKeysOf (K : Crypto) (k : Keys) : SessionKeys :=
  match k.deriveSessionKeys K (k.ourKeyID - 1) k.theirKeyID with
  | .ok sk => sk
  | .error _ => ⟨[], [], [], [], []⟩

theorem sendKeysOf_eq {K : Crypto} {k : Keys} {sk : SessionKeys}
    (h : k.deriveSessionKeys K (k.ourKeyID - 1) k.theirKeyID = .ok sk) : sendKeysOf K k = sk := by
  simp only [sendKeysOf, h]

/-- the AES-CTR initial counter block: top half = the send counter, bottom half zero -/
def sendIV (k : Keys) : Bytes := be64 k.sendCtr ++ List.replicate 8 0

/-- the ciphertext of `plain` in key context `k`: `K.ctr sendAES (ctr ‖ 0^8) plain` (or zeros) -/
def cipherOf (K : Crypto) (k : Keys) (plain : Bytes) : Bytes :=
  encBytes K (sendKeysOf K k).sendAES (sendIV k) plain

/-- the state in which `genDataMsgWithFlag` calls `messageHeader`: receiving MAC key recorded, counter
    bumped.  Independent of the text. -/
def preHdr (K : Crypto) (s : MState) : MState :=
  { s with conv := { s.conv with keys :=
      (s.conv.keys.recordMac (s.conv.keys.ourKeyID - 1) s.conv.keys.theirKeyID
        (s.conv.keys.recvMACOf K (s.conv.keys.ourKeyID - 1) s.conv.keys.theirKeyID)).bumpOur } }

/-- flags ‖ sender keyid ‖ recipient keyid ‖ MPI(next DH) ‖ ctr ‖ DATA(ciphertext): the MAC'd fields -/
def dataFields (flag : Nat) (k : Keys) (top ct : Bytes) : Bytes :=
  serializeUnsignedFields flag (k.ourKeyID - 1) k.theirKeyID k.pubCur top ct

/-- the part of `genDataMsgWithFlag` after the header is known, as a function of the ciphertext `ct` -/
def genFinish (K : Crypto) (flag : Nat) (m : Bytes) (sk : SessionKeys) (top ct hdr : Bytes) (s3 : MState) :
    Out (DataMsg × Bytes) :=
  match s3.conv.keys.ourCur with
  | none => .panic "genDataMsg: nil ourCurrentDHKeys.pub"
  | some p =>
    .ok (.ok (⟨flag, s3.conv.keys.ourKeyID - 1, s3.conv.keys.theirKeyID, p.pub, top, ct,
          K.mac1 sk.sendMAC (hdr ++ serializeUnsignedFields flag (s3.conv.keys.ourKeyID - 1) s3.conv.keys.theirKeyID p.pub top ct),
          s3.conv.keys.oldMACKeys,
          serializeUnsignedFields flag (s3.conv.keys.ourKeyID - 1) s3.conv.keys.theirKeyID p.pub top ct⟩, sk.extraKey),
      { s3 with conv := { s3.conv with
          keys := { s3.conv.keys with oldMACKeys := [] }
          mayRetransmit := .no
          resendMsgs := if m.length > 0 ∧ s3.conv.retransmitting = false then [m] else s3.conv.resendMsgs } })

/-- `encryptPlain` is pure -/
theorem encryptPlain_run (K : Crypto) (key ctr : Bytes) (p : PlainDataMsg) (s : MState) :
    runM (encryptPlain K key ctr p) s =
      .ok (.ok (encBytes K key (ctr ++ List.replicate 8 0) (plainBytes p.message p.tlvs)), s) := by
  unfold encryptPlain encBytes
  rw [plainBytes_eq]
  cases K.ctr key (ctr ++ List.replicate 8 0) (p.pad.serialize) <;> rfl

/-- general decomposition of `genDataMsgWithFlag` in the encrypted state with derivable keys: the text
    enters only through `encBytes … (plainBytes m tlvs)` and (for the resend memory) `genFinish … m` -/
theorem genData_run (K : Crypto) (m : Bytes) (flag : Nat) (tlvs : List Tlv) (s : MState) (sk : SessionKeys)
    (he : s.conv.msgState = .encrypted)
    (hk : s.conv.keys.deriveSessionKeys K (s.conv.keys.ourKeyID - 1) s.conv.keys.theirKeyID = .ok sk) :
    runM (genDataMsgWithFlag K m flag tlvs) s =
      bindM (runM (messageHeader msgTypeData) (preHdr K s)) (fun hdr s3 =>
        genFinish K flag m sk (be64 s.conv.keys.sendCtr)
          (encBytes K sk.sendAES (sendIV s.conv.keys) (plainBytes m tlvs)) hdr s3) := by
  unfold genDataMsgWithFlag
  simp only [runM_bind, runM_getc, bindM_ok, he, ne_eq, not_true_eq_false, ↓reduceIte, runM_pure, hk, runM_modc,
    encryptPlain_run]
  refine congr (congrArg bindM (congrArg _ ?_)) ?_
  · simp only [preHdr, Keys.recordMac, Keys.bumpOur, Keys.recvMACOf, hk, he]
  · funext hdr s3
    unfold genFinish
    simp only [Keys.sendCtr, sendIV]
    cases hc : s3.conv.keys.ourCur with
    | none => simp only [runM_bind, runM_goPanic, bindM_panic]
    | some p =>
      by_cases hm : m.length > 0
      · by_cases hrt : s3.conv.retransmitting = true
        · simp [hm, hrt, hc, resendLast, Keys.revealMACKeys]
        · simp [hm, hrt, hc, resendLast, Keys.revealMACKeys]
      · simp [hm, hc, Keys.revealMACKeys]

/-! ## 2. exact runs from a ready state -/

/-- `encode`: "?OTR:" ‖ base64 ‖ "." -/
def armorOf (msg : Bytes) : Bytes := msgMarker ++ b64encode msg ++ [46]

/-- the data message without header as a function of the ciphertext `ct`:
    DATA-less concatenation `fields(ct) ‖ MAC_sendMAC(hdr ‖ fields(ct)) ‖ DATA(old MAC keys)` -/
def dataBody (K : Crypto) (flag : Nat) (k : Keys) (hdr ct : Bytes) : Bytes :=
  appendData
    (dataFields flag k (be64 k.sendCtr) ct ++
      K.mac1 (sendKeysOf K k).sendMAC (hdr ++ dataFields flag k (be64 k.sendCtr) ct))
    k.oldMACKeys.flatten

/-- the record `genDataMsgWithFlag` returns -/
def dataMsgOf (K : Crypto) (flag : Nat) (k : Keys) (hdr ct : Bytes) : DataMsg :=
  ⟨flag, k.ourKeyID - 1, k.theirKeyID, k.pubCur, be64 k.sendCtr, ct,
    K.mac1 (sendKeysOf K k).sendMAC (hdr ++ dataFields flag k (be64 k.sendCtr) ct), k.oldMACKeys,
    dataFields flag k (be64 k.sendCtr) ct⟩

theorem dataMsgOf_serialize (K : Crypto) (flag : Nat) (k : Keys) (hdr ct : Bytes) :
    (dataMsgOf K flag k hdr ct).serialize = dataBody K flag k hdr ct := rfl

/-- header ‖ data message: the binary message before armouring -/
def rawDataWith (K : Crypto) (flag : Nat) (c : Conv) (ct : Bytes) : Bytes :=
  hdrOf c msgTypeData ++ dataBody K flag c.keys (hdrOf c msgTypeData) ct

/-- `fragEncode`: armour, then cut into fragments if longer than `fragmentSize` -/
def wireOfRaw (c : Conv) (raw : Bytes) : List Bytes :=
  fragment (c.version.getD .v3) c.ourTag c.theirTag (armorOf raw) c.fragmentSize

/-- everything `createSerializedDataMessage` emits, as a function of the ciphertext -/
def dataWireWith (K : Crypto) (flag : Nat) (c : Conv) (ct : Bytes) : List Bytes :=
  wireOfRaw c (rawDataWith K flag c ct)

/-- everything `Send` emits for its text (flag 0, no TLVs) as a function of the ciphertext `ct`:
    `fragment version ourTag theirTag (armorOf (header ++ dataBody ct)) fragmentSize` -/
def dataWire (K : Crypto) (c : Conv) (ct : Bytes) : List Bytes := dataWireWith K messageFlagNormal c ct

/-- `dataWire` written out -/
theorem dataWire_eq (K : Crypto) (c : Conv) (ct : Bytes) :
    dataWire K c ct =
      fragment (c.version.getD .v3) c.ourTag c.theirTag
        (armorOf (hdrOf c msgTypeData ++
          appendData
            (dataFields messageFlagNormal c.keys (be64 c.keys.sendCtr) ct ++
              K.mac1 (sendKeysOf K c.keys).sendMAC
                (hdrOf c msgTypeData ++ dataFields messageFlagNormal c.keys (be64 c.keys.sendCtr) ct))
            c.keys.oldMACKeys.flatten))
        c.fragmentSize := rfl

/-- the conversation after `genDataMsgWithFlag` succeeded for text `m` -/
def Conv.afterData (K : Crypto) (c : Conv) (m : Bytes) : Conv :=
  { c with
    keys := c.keys.afterSend K
    mayRetransmit := .no
    resendMsgs := if m.length > 0 ∧ c.retransmitting = false then [m] else c.resendMsgs }

/-- the hypotheses of the exact theorems:
    * `enc`  — the conversation is encrypted;
    * `wf`   — `ConvData.DataWF`: a version is set and our current DH key exists (else Go panics);
    * `tag`  — `TagReady`: the header needs no randomness;
    * `keys` — `Keys.canSend`: the session keys for (ourKeyID − 1, theirKeyID) are derivable (else `Send`
               fails with a conflict error, see `send_encrypted_run`). -/
structure SendReady (K : Crypto) (c : Conv) : Prop where
  enc : c.msgState = .encrypted
  wf : ConvData.DataWF c
  tag : TagReady c
  keys : c.keys.canSend K

/-- `fragEncode` is pure once a version is set (`fragment` repeats the "fits in one piece" test) -/
theorem fragEncode_run (msg : Bytes) (s : MState) (h : s.conv.version ≠ none) :
    runM (fragEncode msg) s = .ok (.ok (wireOfRaw s.conv msg), s) := by
  unfold fragEncode wireOfRaw armorOf
  cases hv : s.conv.version with
  | none => exact absurd hv h
  | some v =>
    simp only [runM_bind, runM_getc, bindM_ok, Option.getD_some]
    by_cases hl : (msgMarker ++ b64encode msg ++ [46]).length ≤ s.conv.fragmentSize ∨ s.conv.fragmentSize = 0
    · simp only [hl, ↓reduceIte, runM_pure, fragment]
    · simp only [hl, ↓reduceIte, hv, runM_pure]

/-- exact: `genDataMsgWithFlag` from a ready state -/
theorem genData_ready (K : Crypto) (m : Bytes) (flag : Nat) (tlvs : List Tlv) (s : MState)
    (h : SendReady K s.conv) :
    runM (genDataMsgWithFlag K m flag tlvs) s =
      .ok (.ok (dataMsgOf K flag s.conv.keys (hdrOf s.conv msgTypeData)
                  (cipherOf K s.conv.keys (plainBytes m tlvs)),
                (sendKeysOf K s.conv.keys).extraKey),
        { s with conv := s.conv.afterData K m }) := by
  obtain ⟨sk, hk⟩ := h.keys
  rw [genData_run K m flag tlvs s sk h.enc hk]
  have ht : TagReady (preHdr K s).conv := h.tag
  rw [messageHeader_ready _ ht]
  simp only [bindM_ok]
  have hcur := h.wf.2 h.enc
  cases hc : s.conv.keys.ourCur with
  | none => exact absurd hc hcur
  | some p =>
    have hc' : (preHdr K s).conv.keys.ourCur = some p := hc
    have hsk := sendKeysOf_eq hk
    have hp : s.conv.keys.pubCur = p.pub := by simp only [Keys.pubCur, hc]
    unfold genFinish
    split
    · rename_i hn; rw [hc'] at hn; cases hn
    · rename_i p' hp'
      rw [hc'] at hp'
      injection hp' with e
      subst e
      simp only [dataMsgOf, cipherOf, dataFields, hsk, hp]
      rfl

theorem SendReady.afterData {K : Crypto} {c : Conv} (h : SendReady K c) (m : Bytes) :
    SendReady K (c.afterData K m) := by
  refine ⟨h.enc, ⟨h.wf.1, fun _ => h.wf.2 h.enc⟩, h.tag, ?_⟩
  obtain ⟨sk, hk⟩ := h.keys
  exact ⟨sk, hk⟩

theorem hdrOf_afterData (K : Crypto) (c : Conv) (m : Bytes) (t : Nat) :
    hdrOf (c.afterData K m) t = hdrOf c t := rfl

theorem wireOfRaw_congr {c c' : Conv} (hv : c'.version = c.version) (h1 : c'.ourTag = c.ourTag)
    (h2 : c'.theirTag = c.theirTag) (h3 : c'.fragmentSize = c.fragmentSize) (raw : Bytes) :
    wireOfRaw c' raw = wireOfRaw c raw := by
  simp only [wireOfRaw, hv, h1, h2, h3]

/-- the conversation after `createSerializedDataMessage` succeeded -/
def Conv.afterDataSent (K : Crypto) (c : Conv) (m : Bytes) (t : Nat) : Conv :=
  { c.afterData K m with heartbeatLastSent := some t }

/-- exact: `createSerializedDataMessage` from a ready state -/
theorem createSerializedDataMessage_ready (K : Crypto) (m : Bytes) (flag : Nat) (tlvs : List Tlv) (s : MState)
    (h : SendReady K s.conv) :
    runM (createSerializedDataMessage K m flag tlvs) s =
      .ok (.ok (dataWireWith K flag s.conv (cipherOf K s.conv.keys (plainBytes m tlvs)),
                (sendKeysOf K s.conv.keys).extraKey),
        { s with conv := s.conv.afterDataSent K m s.env.now }) := by
  unfold createSerializedDataMessage wrapMessageHeader updateLastSent
  simp only [runM_bind, genData_ready K m flag tlvs s h, bindM_ok]
  have h2 := h.afterData m
  rw [messageHeader_ready { s with conv := s.conv.afterData K m } h2.tag]
  simp only [bindM_ok, runM_pure, runM_now, runM_modc]
  rw [fragEncode_run]
  · simp only [bindM_ok, dataMsgOf_serialize]
    rfl
  · exact h.wf.1

/-! ## 3. `Send` in the encrypted state -/

/-- **C03, encrypted state (exact).**  The wire output is `dataWire K s.conv ct` followed by the
    injections queued earlier, where `ct = encBytes K sendAES (sendIV keys) (plaintextOf text)` is the only
    place `text` occurs.  Successor state: key context `afterSend` (MAC key recorded, send counter bumped,
    `oldMACKeys` emptied — `send_encrypted_successor`), `mayRetransmit := no`, heartbeat clock updated,
    injections drained, and — honestly — `resendMsgs := [text]` (the text is remembered for retransmission
    unless it is empty or we are retransmitting; C08/C18; memory, not wire). -/
theorem send_encrypted_exact (K : Crypto) (text : Bytes) (s : MState)
    (hp : isOTREnabled s.conv.policies = true) (h : SendReady K s.conv) :
    runM (send K text) s =
      .ok (.ok (dataWire K s.conv
                  (encBytes K (sendKeysOf K s.conv.keys).sendAES (sendIV s.conv.keys) (plaintextOf text)) ++
                s.conv.injections, none),
        { s with conv := { s.conv with
            keys := s.conv.keys.afterSend K
            mayRetransmit := .no
            resendMsgs := if text.length > 0 ∧ s.conv.retransmitting = false then [text] else s.conv.resendMsgs
            heartbeatLastSent := some s.env.now
            injections := [] } }) := by
  unfold send
  simp only [runM_bind, runM_getc, bindM_ok, hp, Bool.not_true, Bool.false_eq_true, ↓reduceIte, h.enc,
    runM_tryCatch, createSerializedDataMessage_ready K text messageFlagNormal [] s h, runM_pure, catchM_ok,
    withInjects, runM_modc]
  simp only [Conv.afterDataSent, Conv.afterData, h.enc]
  rfl

/-- the same with the ciphertext named: if AES-CTR returns `ct`, the wire is `dataWire K s.conv ct` -/
theorem send_encrypted_wire (K : Crypto) (text ct : Bytes) (s : MState)
    (hp : isOTREnabled s.conv.policies = true) (h : SendReady K s.conv)
    (hct : K.ctr (sendKeysOf K s.conv.keys).sendAES (sendIV s.conv.keys) (plaintextOf text) = some ct) :
    ∃ s', runM (send K text) s = .ok (.ok (dataWire K s.conv ct ++ s.conv.injections, none), s') := by
  rw [send_encrypted_exact K text s hp h]
  simp only [encBytes, hct]
  exact ⟨_, rfl⟩

/-- what `afterSend` does to the key context -/
theorem send_encrypted_successor (K : Crypto) (k : Keys) (h : k.canSend K) :
    (k.afterSend K).oldMACKeys = [] ∧ k.sendCtr < (k.afterSend K).sendCtr ∧
    (k.afterSend K).ourKeyID = k.ourKeyID ∧ (k.afterSend K).theirKeyID = k.theirKeyID ∧
    (k.afterSend K).ourCur = k.ourCur ∧ (k.afterSend K).ourPrev = k.ourPrev ∧
    (k.afterSend K).theirCur = k.theirCur ∧ (k.afterSend K).theirPrev = k.theirPrev :=
  ⟨rfl, c05_send_counter_next h, rfl, rfl, rfl, rfl, rfl, rfl⟩

/-- the sending keys are `sessionKeysOf` of our previous DH pair and their current public key -/
theorem sendKeysOf_dh {K : Crypto} {k : Keys} (h : k.canSend K) :
    ∃ (o : DhPair) (t : Nat), k.ourPrev = some o ∧ k.theirCur = some t ∧
      sendKeysOf K k = sessionKeysOf K o.priv o.pub t := by
  obtain ⟨sk, hk⟩ := h
  rw [sendKeysOf_eq hk]
  unfold Keys.deriveSessionKeys at hk
  split at hk
  · cases hk
  · rename_i ours ho
    split at hk
    · cases hk
    · rename_i theirs ht
      have h1 := pickOurKeys_ok ho
      have h2 := pickTheirKey_ok ht
      have e1 : ours = k.ourPrev := by
        unfold Keys.pickOurKeys at ho
        have c1 : ¬ (k.ourKeyID - 1 = 0 ∨ k.ourKeyID = 0) := by omega
        have c2 : ¬ (k.ourKeyID - 1 = k.ourKeyID) := by omega
        simp only [c1, c2, ↓reduceIte, Except.ok.injEq] at ho
        exact ho.symm
      have e2 : theirs = k.theirCur := by
        unfold Keys.pickTheirKey at ht
        have c1 : ¬ (k.theirKeyID = 0 ∨ k.theirKeyID = 0) := by omega
        simp only [c1, ↓reduceIte, Except.ok.injEq] at ht
        exact ht.symm
      subst e1 e2
      split at hk
      · rename_i o t ho' ht'
        injection hk with hk
        exact ⟨o, t, ho', ht', hk.symm⟩
      · cases hk

/-- "decipherable only with the session's DH secrets", structural half: the AES key is the first 16 bytes
    of `hash1(sendbyte ‖ MPI(theirPub ^ ourPriv))` -/
theorem sendAES_dh {K : Crypto} {k : Keys} (h : k.canSend K) :
    ∃ (o : DhPair) (t : Nat), k.ourPrev = some o ∧ k.theirCur = some t ∧
      (sendKeysOf K k).sendAES =
        (K.hash1 ((if o.pub > t then 1 else 2) :: appendMPI [] (K.gexp t (bytesToNat o.priv)))).take 16 := by
  obtain ⟨o, t, h1, h2, h3⟩ := sendKeysOf_dh h
  refine ⟨o, t, h1, h2, ?_⟩
  rw [h3]
  unfold sessionKeysOf
  by_cases hg : o.pub > t
  · simp only [hg, ↓reduceIte]; rfl
  · simp only [hg, ↓reduceIte]; rfl

theorem armor_spec (raw : Bytes) : armorOf raw = Spec.armor raw := fragEncode_envelope_spec raw

theorem rawDataWith_spec (K : Crypto) (flag : Nat) (c : Conv) (ct : Bytes) :
    rawDataWith K flag c ct =
      Spec.dataMessage K (sendKeysOf K c.keys).sendMAC (hdrOf c msgTypeData)
        ⟨flag, c.keys.ourKeyID - 1, c.keys.theirKeyID, c.keys.pubCur, be64 c.keys.sendCtr, ct,
          c.keys.oldMACKeys.flatten⟩ :=
  genDataMsg_result_spec K _ _ flag _ _ _ _ ct _

theorem hdrOf_spec_v2 (c : Conv) (t : Nat) (h : c.version = some .v2) :
    hdrOf c t = Spec.header .v2 t c.ourTag c.theirTag := by
  simp only [hdrOf, h]; rfl

theorem hdrOf_spec_v3 (c : Conv) (t : Nat) (h : c.version = some .v3) :
    hdrOf c t = Spec.header .v3 t c.ourTag c.theirTag := by
  simp only [hdrOf, h]; rfl

theorem encBytes_spec (K : Crypto) (key top plain ct : Bytes)
    (h : Spec.encryptData K key top plain = some ct) :
    encBytes K key (top ++ List.replicate 8 0) plain = ct := by
  have h' : K.ctr key (top ++ List.replicate 8 0) plain = some ct := h
  simp only [encBytes, h']

/-! ## 4. the text reaches the wire only through `K.ctr` -/

/-- two crypto records that agree on every operation except (possibly) `ctr` -/
structure Crypto.AgreeExceptCtr (K1 K2 : Crypto) : Prop where
  hash1 : K2.hash1 = K1.hash1
  hash2 : K2.hash2 = K1.hash2
  mac1 : K2.mac1 = K1.mac1
  mac2 : K2.mac2 = K1.mac2
  gexp : K2.gexp = K1.gexp
  modInv : K2.modInv = K1.modInv
  dsaVerify : K2.dsaVerify = K1.dsaVerify

theorem Crypto.AgreeExceptCtr.eq {K1 K2 : Crypto} (h : K1.AgreeExceptCtr K2) :
    K2 = { K1 with ctr := K2.ctr } := by
  obtain ⟨h1, h2, h3, h4, h5, h6, h7⟩ := h
  cases K1; cases K2
  simp only at h1 h2 h3 h4 h5 h6 h7
  subst h1 h2 h3 h4 h5 h6 h7
  rfl

theorem Crypto.AgreeExceptCtr.refl (K : Crypto) : K.AgreeExceptCtr K := ⟨rfl, rfl, rfl, rfl, rfl, rfl, rfl⟩

section withCtr
variable (K : Crypto) (f : Bytes → Bytes → Bytes → Option Bytes)

theorem derive_withCtr (k : Keys) (a b : Nat) :
    k.deriveSessionKeys { K with ctr := f } a b = k.deriveSessionKeys K a b := rfl
theorem sendKeysOf_withCtr (k : Keys) : sendKeysOf { K with ctr := f } k = sendKeysOf K k := rfl
theorem afterSend_withCtr (k : Keys) : k.afterSend { K with ctr := f } = k.afterSend K := rfl
theorem dataBody_withCtr (flag : Nat) (k : Keys) (hdr ct : Bytes) :
    dataBody { K with ctr := f } flag k hdr ct = dataBody K flag k hdr ct := rfl
theorem dataWireWith_withCtr (flag : Nat) (c : Conv) (ct : Bytes) :
    dataWireWith { K with ctr := f } flag c ct = dataWireWith K flag c ct := rfl
theorem preHdr_withCtr (s : MState) : preHdr { K with ctr := f } s = preHdr K s := rfl
theorem SendReady.withCtr {c : Conv} (h : SendReady K c) : SendReady { K with ctr := f } c :=
  ⟨h.enc, h.wf, h.tag, h.keys⟩

end withCtr

/-- **C03, noninterference.**  Same state, two texts, two cipher implementations: if the ciphertexts agree,
    the wire outputs agree (and the final states differ at most in the resend memory).  An observer of the
    wire learns about the text only what the ciphertext tells; in particular nothing but the length class
    `(len + 5) / 256` enters through the padding (`plaintextOf_length`). -/
theorem send_encrypted_text_only_via_ctr (K1 K2 : Crypto) (t1 t2 : Bytes) (s : MState)
    (hK : K1.AgreeExceptCtr K2)
    (hp : isOTREnabled s.conv.policies = true) (h : SendReady K1 s.conv)
    (hct : encBytes K1 (sendKeysOf K1 s.conv.keys).sendAES (sendIV s.conv.keys) (plaintextOf t1) =
           encBytes K2 (sendKeysOf K1 s.conv.keys).sendAES (sendIV s.conv.keys) (plaintextOf t2)) :
    ∃ wire s1 s2,
      runM (send K1 t1) s = .ok (.ok (wire, none), s1) ∧
      runM (send K2 t2) s = .ok (.ok (wire, none), s2) ∧
      s2 = { s1 with conv := { s1.conv with resendMsgs := s2.conv.resendMsgs } } := by
  have e := hK.eq
  generalize K2.ctr = f at e
  subst e
  have h1 := send_encrypted_exact K1 t1 s hp h
  have h2 := send_encrypted_exact _ t2 s hp (h.withCtr K1 f)
  simp only [sendKeysOf_withCtr, dataWire, dataWireWith_withCtr, afterSend_withCtr] at h2
  rw [← hct] at h2
  exact ⟨_, _, _, h1, h2, rfl⟩

/-- equal `K.ctr` results give equal `encBytes`; the length side condition matters only when AES refuses the
    key (both `none`), where the zero buffer of the plaintext's length goes out -/
theorem encBytes_congr (K1 K2 : Crypto) (key iv p1 p2 : Bytes)
    (h : K1.ctr key iv p1 = K2.ctr key iv p2) (hl : p1.length = p2.length) :
    encBytes K1 key iv p1 = encBytes K2 key iv p2 := by
  simp only [encBytes, h, hl]

/-- the noninterference statement with the ciphertext named: both AES-CTR calls return the same `ct` -/
theorem send_encrypted_text_only_via_ctr_some (K1 K2 : Crypto) (t1 t2 ct : Bytes) (s : MState)
    (hK : K1.AgreeExceptCtr K2)
    (hp : isOTREnabled s.conv.policies = true) (h : SendReady K1 s.conv)
    (h1 : K1.ctr (sendKeysOf K1 s.conv.keys).sendAES (sendIV s.conv.keys) (plaintextOf t1) = some ct)
    (h2 : K2.ctr (sendKeysOf K1 s.conv.keys).sendAES (sendIV s.conv.keys) (plaintextOf t2) = some ct) :
    ∃ s1 s2,
      runM (send K1 t1) s = .ok (.ok (dataWire K1 s.conv ct ++ s.conv.injections, none), s1) ∧
      runM (send K2 t2) s = .ok (.ok (dataWire K1 s.conv ct ++ s.conv.injections, none), s2) ∧
      s2 = { s1 with conv := { s1.conv with resendMsgs := s2.conv.resendMsgs } } := by
  obtain ⟨wire, s1, s2, r1, r2, hs⟩ := send_encrypted_text_only_via_ctr K1 K2 t1 t2 s hK hp h
    (by simp only [encBytes, h1, h2])
  obtain ⟨s1', r1'⟩ := send_encrypted_wire K1 t1 ct s hp h h1
  rw [r1'] at r1
  simp only [Res.ok.injEq, Prod.mk.injEq, Except.ok.injEq, and_true] at r1
  obtain ⟨hw, hs1⟩ := r1
  subst hw hs1
  exact ⟨_, _, r1', r2, hs⟩

/-! ## 5. every encrypted state, including the failure paths -/

/-- keys not derivable: `genDataMsgWithFlag` throws, state unchanged -/
theorem genData_err (K : Crypto) (m : Bytes) (flag : Nat) (tlvs : List Tlv) (s : MState) (e : Err)
    (he : s.conv.msgState = .encrypted)
    (hk : s.conv.keys.deriveSessionKeys K (s.conv.keys.ourKeyID - 1) s.conv.keys.theirKeyID = .error e) :
    runM (genDataMsgWithFlag K m flag tlvs) s = .ok (.error e, s) := by
  unfold genDataMsgWithFlag
  simp only [runM_bind, runM_getc, bindM_ok, he, ne_eq, not_true_eq_false, ↓reduceIte, hk, runM_throw,
    bindM_error]

/-- bookkeeping of `genDataMsgWithFlag` after the header (keys as they are at that point) -/
def Conv.afterGen (c : Conv) (m : Bytes) : Conv :=
  { c with
    keys := { c.keys with oldMACKeys := [] }
    mayRetransmit := .no
    resendMsgs := if m.length > 0 ∧ c.retransmitting = false then [m] else c.resendMsgs }

theorem genFinish_some (K : Crypto) (flag : Nat) (m : Bytes) (sk : SessionKeys) (top ct hdr : Bytes) (s3 : MState)
    (p : DhPair) (hc : s3.conv.keys.ourCur = some p) :
    genFinish K flag m sk top ct hdr s3 =
      .ok (.ok (⟨flag, s3.conv.keys.ourKeyID - 1, s3.conv.keys.theirKeyID, p.pub, top, ct,
          K.mac1 sk.sendMAC (hdr ++ serializeUnsignedFields flag (s3.conv.keys.ourKeyID - 1) s3.conv.keys.theirKeyID p.pub top ct),
          s3.conv.keys.oldMACKeys,
          serializeUnsignedFields flag (s3.conv.keys.ourKeyID - 1) s3.conv.keys.theirKeyID p.pub top ct⟩, sk.extraKey),
        { s3 with conv := s3.conv.afterGen m }) := by
  unfold genFinish
  split
  · rename_i hn; rw [hc] at hn; cases hn
  · rename_i p' hp'
    rw [hc] at hp'
    injection hp' with e
    subst e
    rfl

/-- `afterGen` plus the heartbeat clock -/
def Conv.afterDataAt (c : Conv) (m : Bytes) (t : Nat) : Conv :=
  { c with
    keys := { c.keys with oldMACKeys := [] }
    mayRetransmit := .no
    resendMsgs := if m.length > 0 ∧ c.retransmitting = false then [m] else c.resendMsgs
    heartbeatLastSent := some t }

/-- `createSerializedDataMessage` in ANY encrypted state, as a function of the ciphertext: key derivation
    may fail (throw), `messageHeader` may panic (no version), throw (randomness for the instance tag ran out)
    or generate the tag; a missing DH key panics.  `runM (messageHeader …) (preHdr K s)` does not depend on the
    text. -/
def csdmOut (K : Crypto) (flag : Nat) (s : MState) (ct m : Bytes) : Out (List Bytes × Bytes) :=
  match s.conv.keys.deriveSessionKeys K (s.conv.keys.ourKeyID - 1) s.conv.keys.theirKeyID with
  | .error e => .ok (.error e, s)
  | .ok sk =>
    match runM (messageHeader msgTypeData) (preHdr K s) with
    | .panic p => .panic p
    | .ok (.error e, s3) => .ok (.error e, s3)
    | .ok (.ok _, s3) =>
      match s.conv.keys.ourCur with
      | none => .panic "genDataMsg: nil ourCurrentDHKeys.pub"
      | some _ =>
        .ok (.ok (dataWireWith K flag { s.conv with ourTag := s3.conv.ourTag } ct, sk.extraKey),
          { s3 with conv := s3.conv.afterDataAt m s3.env.now })

/-- exact, no well-formedness hypothesis -/
theorem createSerializedDataMessage_run (K : Crypto) (m : Bytes) (flag : Nat) (tlvs : List Tlv) (s : MState)
    (he : s.conv.msgState = .encrypted) :
    runM (createSerializedDataMessage K m flag tlvs) s =
      csdmOut K flag s (cipherOf K s.conv.keys (plainBytes m tlvs)) m := by
  unfold createSerializedDataMessage csdmOut
  cases hk : s.conv.keys.deriveSessionKeys K (s.conv.keys.ourKeyID - 1) s.conv.keys.theirKeyID with
  | error e => simp only [runM_bind, genData_err K m flag tlvs s e he hk, bindM_error]
  | ok sk =>
    simp only [runM_bind, genData_run K m flag tlvs s sk he hk]
    cases hh : runM (messageHeader msgTypeData) (preHdr K s) with
    | panic p => simp only [bindM_panic]
    | ok v =>
      obtain ⟨r, s3⟩ := v
      cases r with
      | error e => simp only [bindM_error]
      | ok hdr =>
        obtain ⟨htag, hhdr, hconv, -, -⟩ := messageHeader_ok _ _ _ _ hh
        simp only [bindM_ok]
        have hcur : s3.conv.keys.ourCur = s.conv.keys.ourCur := by rw [hconv]; rfl
        cases hc : s.conv.keys.ourCur with
        | none =>
          unfold genFinish
          rw [hcur, hc]
          simp only [bindM_panic]
        | some p =>
          rw [genFinish_some _ _ _ _ _ _ _ _ p (hcur.trans hc)]
          have hready : TagReady ({ s3 with conv := s3.conv.afterGen m } : MState).conv := htag
          unfold wrapMessageHeader updateLastSent
          simp only [bindM_ok, runM_bind, messageHeader_ready _ hready, runM_pure, runM_now, runM_modc]
          rw [fragEncode_run]
          · simp only [bindM_ok]
            have hsk := sendKeysOf_eq hk
            have hp : s.conv.keys.pubCur = p.pub := by simp only [Keys.pubCur, hc]
            clear hh hready htag hcur
            obtain ⟨conv3, env3, ev3, mm3⟩ := s3
            simp only at hconv hhdr
            generalize conv3.ourTag = tag at hconv
            subst hconv
            subst hhdr
            simp only [dataWireWith, rawDataWith, dataBody, cipherOf, dataFields, hsk, hp]
            rfl
          · rcases htag with h2 | ⟨h3, _⟩
            · show s3.conv.version ≠ none
              rw [h2]; exact fun h => by cases h
            · show s3.conv.version ≠ none
              rw [h3]; exact fun h => by cases h

/-- the reply the error-message handler produces for "encryption error" -/
def errReplyEncryption : Bytes := errorMarker ++ [32] ++ strBytes s!"E{ecEncryptionError}"

/-- `Send`'s failure path: event EncryptionError, optional error reply; only injections go out -/
def sendFail (e : Err) (s : MState) : Out (List Bytes × Option Err) :=
  .ok (.ok (s.conv.injections ++ (if s.conv.errHandler then [errReplyEncryption] else []), some e),
    { s with conv := { s.conv with injections := [] }, events := s.events ++ ["msg:1"] })

/-- `Send` in any encrypted state as a function of the ciphertext -/
def sendEncOut (K : Crypto) (s : MState) (ct text : Bytes) : Out (List Bytes × Option Err) :=
  match csdmOut K messageFlagNormal s ct text with
  | .panic p => .panic p
  | .ok (.error e, s') => sendFail e s'
  | .ok (.ok (ms, _), s') =>
    .ok (.ok (ms ++ s'.conv.injections, none), { s' with conv := { s'.conv with injections := [] } })

/-- **exact, every encrypted state**, including all failure paths: none of them emits any form of the text -/
theorem send_encrypted_run (K : Crypto) (text : Bytes) (s : MState)
    (hp : isOTREnabled s.conv.policies = true) (he : s.conv.msgState = .encrypted) :
    runM (send K text) s = sendEncOut K s (cipherOf K s.conv.keys (plaintextOf text)) text := by
  unfold send sendEncOut
  simp only [runM_bind, runM_getc, bindM_ok, hp, Bool.not_true, Bool.false_eq_true, ↓reduceIte, he,
    runM_tryCatch, createSerializedDataMessage_run K text messageFlagNormal [] s he, plaintextOf]
  cases csdmOut K messageFlagNormal s (cipherOf K s.conv.keys (plainBytes text [])) text with
  | panic p => rfl
  | ok v =>
    obtain ⟨r, s'⟩ := v
    cases r with
    | ok a =>
      obtain ⟨ms, x⟩ := a
      simp only [bindM_ok, runM_pure, catchM_ok, withInjects, runM_bind, runM_getc, runM_modc]
    | error e =>
      simp only [bindM_error, catchM_error, runM_pure, bindM_ok, runM_bind, runM_evEncryptionError,
        generatePotentialErrorMessage, withInjects, runM_getc, sendFail]
      by_cases hh : s'.conv.errHandler = true
      · simp only [hh, ↓reduceIte, runM_modc, bindM_ok, List.nil_append]
        rfl
      · simp only [hh, Bool.false_eq_true, ↓reduceIte, runM_modc, bindM_ok, runM_pure,
          List.nil_append, List.append_nil]

/-- two outcomes agree on everything (panic site, result value, final state) except the field
    `resendMsgs` of the final conversation -/
def SameButResend {α} (o1 o2 : Out α) : Prop :=
  match o1, o2 with
  | .ok (r1, s1), .ok (r2, s2) =>
    r1 = r2 ∧ s2 = { s1 with conv := { s1.conv with resendMsgs := s2.conv.resendMsgs } }
  | .panic p, .panic q => p = q
  | _, _ => False

/-- what the caller of an API function (and hence the network) gets to see of an outcome -/
def Out.value {α} : Out α → Res (Except Err α)
  | .ok (r, _) => .ok r
  | .panic p => .panic p

theorem SameButResend.value {α} {o1 o2 : Out α} (h : SameButResend o1 o2) : o1.value = o2.value := by
  cases o1 with
  | panic p => cases o2 with
    | panic q => exact congrArg Res.panic h
    | ok v => exact h.elim
  | ok v => cases o2 with
    | panic q => exact h.elim
    | ok w =>
      obtain ⟨r1, s1⟩ := v
      obtain ⟨r2, s2⟩ := w
      exact congrArg Res.ok h.1

theorem csdmOut_withCtr (K : Crypto) (f : Bytes → Bytes → Bytes → Option Bytes) (flag : Nat) (s : MState)
    (ct m : Bytes) : csdmOut { K with ctr := f } flag s ct m = csdmOut K flag s ct m := rfl

theorem csdmOut_text (K : Crypto) (flag : Nat) (s : MState) (ct m1 m2 : Bytes) :
    SameButResend (csdmOut K flag s ct m1) (csdmOut K flag s ct m2) := by
  unfold csdmOut
  cases s.conv.keys.deriveSessionKeys K (s.conv.keys.ourKeyID - 1) s.conv.keys.theirKeyID with
  | error e => exact ⟨rfl, rfl⟩
  | ok sk =>
    cases runM (messageHeader msgTypeData) (preHdr K s) with
    | panic p => exact rfl
    | ok v =>
      obtain ⟨r, s3⟩ := v
      cases r with
      | error e => exact ⟨rfl, rfl⟩
      | ok hdr =>
        cases s.conv.keys.ourCur with
        | none => exact rfl
        | some p => exact ⟨rfl, rfl⟩

theorem sendEncOut_text (K : Crypto) (s : MState) (ct t1 t2 : Bytes) :
    SameButResend (sendEncOut K s ct t1) (sendEncOut K s ct t2) := by
  have h := csdmOut_text K messageFlagNormal s ct t1 t2
  unfold sendEncOut
  cases h1 : csdmOut K messageFlagNormal s ct t1 with
  | panic p =>
    cases h2 : csdmOut K messageFlagNormal s ct t2 with
    | panic q => rw [h1, h2] at h; exact h
    | ok w => rw [h1, h2] at h; exact h.elim
  | ok v =>
    cases h2 : csdmOut K messageFlagNormal s ct t2 with
    | panic q => rw [h1, h2] at h; exact h.elim
    | ok w =>
      rw [h1, h2] at h
      obtain ⟨r1, s1⟩ := v
      obtain ⟨r2, s2⟩ := w
      obtain ⟨hr, hs⟩ := h
      subst hr
      cases r1 with
      | error e =>
        simp only [sendFail]
        refine ⟨?_, ?_⟩
        · rw [hs]
        · rw [hs]
      | ok a =>
        obtain ⟨ms, x⟩ := a
        simp only
        refine ⟨?_, ?_⟩
        · rw [hs]
        · rw [hs]

/-- **C03, noninterference, no well-formedness hypothesis**: also on the failure and panic paths the two runs
    are indistinguishable (same panic site, or same result and same final state up to `resendMsgs`) -/
theorem send_encrypted_text_only_via_ctr_any (K1 K2 : Crypto) (t1 t2 : Bytes) (s : MState)
    (hK : K1.AgreeExceptCtr K2)
    (hp : isOTREnabled s.conv.policies = true) (he : s.conv.msgState = .encrypted)
    (hct : encBytes K1 (sendKeysOf K1 s.conv.keys).sendAES (sendIV s.conv.keys) (plaintextOf t1) =
           encBytes K2 (sendKeysOf K1 s.conv.keys).sendAES (sendIV s.conv.keys) (plaintextOf t2)) :
    SameButResend (runM (send K1 t1) s) (runM (send K2 t2) s) := by
  have e := hK.eq
  generalize K2.ctr = f at e
  subst e
  rw [send_encrypted_run K1 t1 s hp he, send_encrypted_run _ t2 s hp he]
  simp only [cipherOf, sendKeysOf_withCtr]
  rw [← hct]
  exact sendEncOut_text K1 s _ t1 t2

/-! ## 6. texts released from the queue (`retransmit`, `maybeRetransmit`) -/

/-- the conversation after one data message generated while `retransmitting` is set: independent of the text -/
def Conv.afterRetx (K : Crypto) (c : Conv) : Conv :=
  { c with keys := c.keys.afterSend K, mayRetransmit := .no }

theorem Conv.afterData_retx (K : Crypto) (c : Conv) (m : Bytes) (h : c.retransmitting = true) :
    c.afterData K m = c.afterRetx K := by
  simp only [Conv.afterData, Conv.afterRetx, h, Bool.true_eq_false, and_false, ↓reduceIte]

def retxConv (K : Crypto) : Conv → Nat → Conv
  | c, 0 => c
  | c, n + 1 => retxConv K (c.afterRetx K) n

/-- the key-management context after `n` data messages were generated -/
def Keys.afterSends (K : Crypto) : Keys → Nat → Keys
  | k, 0 => k
  | k, n + 1 => Keys.afterSends K (k.afterSend K) n

theorem retxConv_eq (K : Crypto) (n : Nat) : ∀ c : Conv, retxConv K c n =
    { c with keys := c.keys.afterSends K n, mayRetransmit := if n = 0 then c.mayRetransmit else .no } := by
  induction n with
  | zero => intro c; rfl
  | succ n ih =>
    intro c
    rw [retxConv, ih]
    by_cases hn : n = 0
    · subst hn; rfl
    · simp only [hn, ↓reduceIte, Nat.add_eq_zero_iff, Nat.succ_ne_self, and_false, Conv.afterRetx, Keys.afterSends]

/-- the ciphertexts of the queued texts `g m` (`g` adds the "[resent] " prefix or nothing), each under the
    counter that is current when its turn comes -/
def retxCts (K : Crypto) (g : Bytes → Bytes) : Keys → List Bytes → List Bytes
  | _, [] => []
  | k, m :: ms => cipherOf K k (plaintextOf (g m)) :: retxCts K g (k.afterSend K) ms

/-- the binary data messages (header and body, before armour) built around given ciphertexts -/
def retxRaws (K : Crypto) (hdr : Bytes) : Keys → List Bytes → List Bytes
  | _, [] => []
  | k, ct :: cts => (hdr ++ dataBody K messageFlagNormal k hdr ct) :: retxRaws K hdr (k.afterSend K) cts

theorem SendReady.afterRetx {K : Crypto} {c : Conv} (h : SendReady K c) : SendReady K (c.afterRetx K) := by
  refine ⟨h.enc, ⟨h.wf.1, fun _ => h.wf.2 h.enc⟩, h.tag, ?_⟩
  obtain ⟨sk, hk⟩ := h.keys
  exact ⟨sk, hk⟩

theorem wrapMessageHeader_ready (s : MState) (h : TagReady s.conv) (t : Nat) (msg : Bytes) :
    runM (wrapMessageHeader t msg) s = .ok (.ok (hdrOf s.conv t ++ msg), s) := by
  unfold wrapMessageHeader
  simp only [runM_bind, messageHeader_ready s h, bindM_ok, runM_pure]

/-- the loop of `retransmit`, exact, from a ready state with `retransmitting` set -/
theorem retx_loop (K : Crypto) (g : Bytes → Bytes) (msgs : List Bytes) :
    ∀ (acc : List Bytes) (s : MState), SendReady K s.conv → s.conv.retransmitting = true →
    runM (forIn msgs acc (fun m a => do
        let x ← genDataMsgWithFlag K (g m) messageFlagNormal []
        let ts ← tryCatch (wrapMessageHeader msgTypeData x.fst.serialize) (fun _ => pure [])
        pure (ForInStep.yield (a ++ [ts])))) s =
      .ok (.ok (acc ++ retxRaws K (hdrOf s.conv msgTypeData) s.conv.keys (retxCts K g s.conv.keys msgs)),
        { s with conv := retxConv K s.conv msgs.length }) := by
  induction msgs with
  | nil =>
    intro acc s _ _
    simp only [List.forIn_nil, runM_pure, retxCts, retxRaws, List.append_nil, List.length_nil, retxConv]
  | cons m ms ih =>
    intro acc s h hrt
    rw [List.forIn_cons]
    have h2 : SendReady K ({ s with conv := s.conv.afterRetx K } : MState).conv := h.afterRetx
    simp only [runM_bind, genData_ready K (g m) messageFlagNormal [] s h, bindM_ok,
      Conv.afterData_retx K s.conv (g m) hrt, runM_tryCatch, wrapMessageHeader_ready _ h2.tag, runM_pure, catchM_ok,
      dataMsgOf_serialize]
    rw [ih _ _ h2 hrt]
    simp only [retxCts, retxRaws, List.length_cons, retxConv, List.append_assoc, List.cons_append, List.nil_append]
    rfl

/-- the event loop of `retransmit` -/
theorem events_loop (e : String) (msgs : List Bytes) : ∀ s : MState,
    runM (forIn msgs PUnit.unit (fun _ _ => do ev e; pure (ForInStep.yield PUnit.unit))) s =
      .ok (.ok PUnit.unit, { s with events := s.events ++ List.replicate msgs.length e }) := by
  induction msgs with
  | nil => intro s; simp only [List.forIn_nil, runM_pure, List.length_nil, List.replicate_zero, List.append_nil]
  | cons m ms ih =>
    intro s
    rw [List.forIn_cons]
    simp only [runM_bind, runM_ev, bindM_ok, runM_pure, ih, List.length_cons, List.replicate_succ,
      List.append_assoc, List.cons_append, List.nil_append]

/-- the text actually encrypted for a queued text: with the "[resent] " prefix after an error message of the
    peer (`mayRetransmit = withPrefix`), unchanged after a key exchange (`exact`) -/
def resendText (r : Retx) (m : Bytes) : Bytes :=
  if r = .withPrefix then defaultResentPrefix ++ m else m

/-- **queued texts (exact).**  `retransmit` sends every queued text through `genDataMsgWithFlag`: the result
    is one binary data message per text, built around `retxCts` — the texts occur only there — and the final
    state does not depend on the texts at all (only on their number). -/
theorem retransmit_exact (K : Crypto) (s : MState) (h : SendReady K s.conv) :
    runM (retransmit K) s =
      .ok (.ok (retxRaws K (hdrOf s.conv msgTypeData) s.conv.keys
                  (retxCts K (resendText s.conv.mayRetransmit) s.conv.keys s.conv.resendMsgs)),
        { s with
          conv := { s.conv with
            keys := s.conv.keys.afterSends K s.conv.resendMsgs.length
            mayRetransmit := if s.conv.resendMsgs.length = 0 then s.conv.mayRetransmit else .no
            resendMsgs := []
            retransmitting := false
            heartbeatLastSent := some s.env.now }
          events := s.events ++ List.replicate s.conv.resendMsgs.length
            (if s.conv.mayRetransmit = .withPrefix then "msg:6" else "msg:5") }) := by
  unfold retransmit
  simp only [runM_bind, runM_getc, bindM_ok, runM_modc, runM_tryCatch]
  have h1 : SendReady K ({ s with conv := { s.conv with resendMsgs := [], retransmitting := true } } : MState).conv :=
    ⟨h.enc, h.wf, h.tag, h.keys⟩
  by_cases hr : s.conv.mayRetransmit = .withPrefix
  · have hb : (s.conv.mayRetransmit == Retx.withPrefix) = true := by rw [hr]; rfl
    simp only [hb, ↓reduceIte]
    have hl := retx_loop K (fun m => defaultResentPrefix ++ m) s.conv.resendMsgs [] _ h1 rfl
    rw [hl]
    simp only [bindM_ok, runM_pure, catchM_ok, runM_bind, updateLastSent, runM_now, runM_modc, retxConv_eq]
    have he : msgEvent evMessageResent = ev "msg:6" := rfl
    rw [he, events_loop]
    simp only [bindM_ok, hr, ↓reduceIte, List.nil_append]
    rfl
  · have hb : (s.conv.mayRetransmit == Retx.withPrefix) = false := by
      cases hm : s.conv.mayRetransmit with
      | withPrefix => exact absurd hm hr
      | no => rfl
      | exact => rfl
    simp only [hb, Bool.false_eq_true, ↓reduceIte]
    have hl := retx_loop K (fun m => m) s.conv.resendMsgs [] _ h1 rfl
    rw [hl]
    simp only [bindM_ok, runM_pure, catchM_ok, runM_bind, updateLastSent, runM_now, runM_modc, retxConv_eq]
    have he : msgEvent evMessageSent = ev "msg:5" := rfl
    rw [he, events_loop]
    have hg : resendText s.conv.mayRetransmit = fun m => m := by
      funext m; simp only [resendText, hr, ↓reduceIte]
    simp only [bindM_ok, hr, ↓reduceIte, List.nil_append, hg]
    rfl

/-- one queued text `m`: exactly one data message around the ciphertext of `resendText r m` -/
theorem retransmit_single (K : Crypto) (s : MState) (m : Bytes) (h : SendReady K s.conv)
    (hq : s.conv.resendMsgs = [m]) :
    ∃ s', runM (retransmit K) s =
      .ok (.ok [rawDataWith K messageFlagNormal s.conv
                  (cipherOf K s.conv.keys (plaintextOf (resendText s.conv.mayRetransmit m)))], s') := by
  rw [retransmit_exact K s h, hq]
  exact ⟨_, rfl⟩

theorem resendText_withPrefix (m : Bytes) : resendText .withPrefix m = strBytes "[resent] " ++ m := rfl
theorem resendText_exact (m : Bytes) : resendText .exact m = m := rfl

/-- `maybeRetransmit` is `retransmit` under its guard -/
theorem maybeRetransmit_run (K : Crypto) (s : MState) :
    runM (maybeRetransmit K) s =
      if s.conv.resendMsgs.length > 0 ∧ s.conv.mayRetransmit ≠ .no ∧ s.conv.msgState = .encrypted
      then runM (retransmit K) s else .ok (.ok [], s) := by
  unfold maybeRetransmit
  simp only [runM_bind, runM_getc, bindM_ok, runM_ite, runM_pure]

theorem retxCts_length (K : Crypto) (g : Bytes → Bytes) : ∀ (ms : List Bytes) (k : Keys),
    (retxCts K g k ms).length = ms.length := by
  intro ms
  induction ms with
  | nil => intro k; rfl
  | cons m ms ih => intro k; simp only [retxCts, List.length_cons, ih]

theorem retxRaws_withCtr (K : Crypto) (f : Bytes → Bytes → Bytes → Option Bytes) (hdr : Bytes) :
    ∀ (cts : List Bytes) (k : Keys), retxRaws { K with ctr := f } hdr k cts = retxRaws K hdr k cts := by
  intro cts
  induction cts with
  | nil => intro k; rfl
  | cons ct cts ih =>
    intro k
    simp only [retxRaws, dataBody_withCtr, afterSend_withCtr, ih]

theorem afterSends_withCtr (K : Crypto) (f : Bytes → Bytes → Bytes → Option Bytes) :
    ∀ (n : Nat) (k : Keys), Keys.afterSends { K with ctr := f } k n = Keys.afterSends K k n := by
  intro n
  induction n with
  | zero => intro k; rfl
  | succ n ih => intro k; simp only [Keys.afterSends, afterSend_withCtr, ih]

/-- **C03 for queued texts, noninterference** (both the plain release after the key exchange and the
    "[resent] " retransmission, according to `s.conv.mayRetransmit`): two queues whose ciphertext lists agree
    give the same outcome — same messages, same final state. -/
theorem queued_text_only_via_ctr (K1 K2 : Crypto) (s : MState) (q1 q2 : List Bytes)
    (hK : K1.AgreeExceptCtr K2) (h : SendReady K1 s.conv)
    (hct : retxCts K1 (resendText s.conv.mayRetransmit) s.conv.keys q1 =
           retxCts K2 (resendText s.conv.mayRetransmit) s.conv.keys q2) :
    runM (retransmit K1) { s with conv := { s.conv with resendMsgs := q1 } } =
    runM (retransmit K2) { s with conv := { s.conv with resendMsgs := q2 } } := by
  have e := hK.eq
  generalize K2.ctr = f at e
  subst e
  have hlen : q1.length = q2.length := by
    have := congrArg List.length hct
    rwa [retxCts_length, retxCts_length] at this
  have h1 : SendReady K1 ({ s with conv := { s.conv with resendMsgs := q1 } } : MState).conv :=
    ⟨h.enc, h.wf, h.tag, h.keys⟩
  have h2 : SendReady { K1 with ctr := f } ({ s with conv := { s.conv with resendMsgs := q2 } } : MState).conv :=
    ⟨h.enc, h.wf, h.tag, h.keys⟩
  rw [retransmit_exact K1 _ h1, retransmit_exact _ _ h2]
  simp only [retxRaws_withCtr, afterSends_withCtr]
  rw [← hlen]
  show Res.ok (Except.ok (retxRaws K1 (hdrOf s.conv msgTypeData) s.conv.keys
      (retxCts K1 (resendText s.conv.mayRetransmit) s.conv.keys q1)), _) =
    Res.ok (Except.ok (retxRaws K1 (hdrOf s.conv msgTypeData) s.conv.keys
      (retxCts _ (resendText s.conv.mayRetransmit) s.conv.keys q2)), _)
  rw [hct]

/-- the same through `maybeRetransmit` (the guard needs `mayRetransmit ≠ no`, else the queue is kept) -/
theorem queued_text_only_via_ctr_maybe (K1 K2 : Crypto) (s : MState) (q1 q2 : List Bytes)
    (hK : K1.AgreeExceptCtr K2) (h : SendReady K1 s.conv) (hm : s.conv.mayRetransmit ≠ .no)
    (hct : retxCts K1 (resendText s.conv.mayRetransmit) s.conv.keys q1 =
           retxCts K2 (resendText s.conv.mayRetransmit) s.conv.keys q2) :
    runM (maybeRetransmit K1) { s with conv := { s.conv with resendMsgs := q1 } } =
    runM (maybeRetransmit K2) { s with conv := { s.conv with resendMsgs := q2 } } := by
  have hlen : q1.length = q2.length := by
    have := congrArg List.length hct
    rwa [retxCts_length, retxCts_length] at this
  rw [maybeRetransmit_run, maybeRetransmit_run, queued_text_only_via_ctr K1 K2 s q1 q2 hK h hct]
  by_cases hq : q2.length > 0
  · have hq1 : q1.length > 0 := by omega
    have hc : s.conv.mayRetransmit ≠ .no ∧ s.conv.msgState = .encrypted := ⟨hm, h.enc⟩
    simp only [hq, hq1, true_and]
    rw [if_pos hc, if_pos hc]
  · have hq1 : ¬ q1.length > 0 := by omega
    have e1 : q1 = [] := List.eq_nil_of_length_eq_zero (by omega)
    have e2 : q2 = [] := List.eq_nil_of_length_eq_zero (by omega)
    simp only [e1, e2]

theorem toSendEncoded_loop (l : List Bytes) : ∀ (acc : List Bytes) (s : MState), s.conv.version ≠ none →
    runM (forIn l acc (fun ts out => do
        let r ← fragEncode ts
        pure (ForInStep.yield (out ++ r)))) s =
      .ok (.ok (acc ++ l.flatMap (wireOfRaw s.conv)), s) := by
  induction l with
  | nil => intro acc s _; simp only [List.forIn_nil, runM_pure, List.flatMap_nil, List.append_nil]
  | cons a l ih =>
    intro acc s hv
    rw [List.forIn_cons]
    simp only [runM_bind, fragEncode_run a s hv, bindM_ok, runM_pure, ih _ s hv, List.flatMap_cons,
      List.append_assoc]

/-- what the receive path does with the messages `maybeRetransmit` returned (`toSendEncoded`, no error,
    first message non-empty): each is armoured/fragmented by `fragEncode` -/
theorem toSendEncoded_run (first : Bytes) (rest : List Bytes) (s : MState) (hv : s.conv.version ≠ none)
    (hne : first ≠ []) :
    runM (toSendEncoded (first :: rest) none) s =
      .ok (.ok ((first :: rest).flatMap (wireOfRaw s.conv)), s) := by
  have he : first.isEmpty = false := by
    cases first with
    | nil => exact absurd rfl hne
    | cons a b => rfl
  unfold toSendEncoded
  simp only [Option.isSome_none, Bool.false_eq_true, ↓reduceIte, he, runM_bind, toSendEncoded_loop _ _ _ hv,
    bindM_ok, runM_pure, List.nil_append]

/-! ## 7. the alphabet of what goes out -/

/-- bytes that occur in armoured messages and fragments: the base64 alphabet (which contains the letters of
    "OTR", the decimal digits and the lower-case hex digits), '=' and the punctuation `. , ? : |` -/
def isWireChar (c : UInt8) : Bool :=
  (b64Val c).isSome || c == 61 || c == 46 || c == 44 || c == 63 || c == 58 || c == 124

/-- a byte string made of wire characters only -/
def WireText (p : Bytes) : Prop := ∀ c ∈ p, isWireChar c = true

theorem WireText.append {a b : Bytes} (ha : WireText a) (hb : WireText b) : WireText (a ++ b) := by
  intro c hc
  rcases List.mem_append.mp hc with h | h
  · exact ha c h
  · exact hb c h

theorem WireText.sublist {a b : Bytes} (hb : WireText b) (h : a.Sublist b) : WireText a :=
  fun c hc => hb c (h.subset hc)

theorem WireText.nil : WireText [] := fun _ h => by cases h

theorem wireText_replicate48 (n : Nat) : WireText (List.replicate n 48) := by
  intro c hc
  rw [List.mem_replicate] at hc
  rw [hc.2]
  decide

theorem isWireChar_digit (c : UInt8) (h : isDigit c = true) : isWireChar c = true := by
  have hb : (b64Val c).isSome = true := by
    unfold isDigit at h
    unfold b64Val
    split
    · rfl
    · split
      · rfl
      · first | rfl | (rw [if_pos h]; rfl)
  simp only [isWireChar, hb, Bool.true_or]

theorem isWireChar_b64 (c : UInt8) (h : (b64Val c).isSome = true ∨ c = 61) : isWireChar c = true := by
  rcases h with h | h
  · simp only [isWireChar, h, Bool.true_or]
  · subst h; decide

theorem wireText_decDigits : ∀ f n, WireText (decDigits f n) := by
  intro f
  induction f with
  | zero => intro n; exact WireText.nil
  | succ f ih =>
    intro n
    unfold decDigits
    split
    · rename_i h
      intro c hc
      rw [List.mem_singleton] at hc
      subst hc
      exact isWireChar_digit _ (isDigit_dig n h)
    · refine (ih _).append ?_
      intro c hc
      rw [List.mem_singleton] at hc
      subst hc
      exact isWireChar_digit _ (isDigit_dig (n % 10) (Nat.mod_lt _ (by decide)))

theorem isWireChar_hex_fin : ∀ d : Fin 16,
    isWireChar (if d.val < 10 then b8 (48 + d.val) else b8 (87 + d.val)) = true := by decide

theorem wireText_hexDigits : ∀ f n, WireText (hexDigits f n) := by
  intro f
  induction f with
  | zero => intro n; exact WireText.nil
  | succ f ih =>
    intro n
    have hd : WireText [if n % 16 < 10 then b8 (48 + n % 16) else b8 (87 + n % 16)] := by
      intro c hc
      rw [List.mem_singleton] at hc
      subst hc
      exact isWireChar_hex_fin ⟨n % 16, Nat.mod_lt _ (by decide)⟩
    unfold hexDigits
    split
    · exact hd
    · exact (ih _).append hd

theorem wireText_fmt05d (n : Nat) : WireText (fmt05d n) :=
  (wireText_replicate48 _).append (wireText_decDigits _ _)

theorem wireText_fmt08x (n : Nat) : WireText (fmt08x n) :=
  (wireText_replicate48 _).append (wireText_hexDigits _ _)

theorem wireText_markers :
    WireText msgMarker ∧ WireText otrv2FragPrefix ∧ WireText otrv3FragPrefix ∧ WireText [44] ∧ WireText [124] ∧
      WireText [46] := by
  refine ⟨?_, ?_, ?_, ?_, ?_, ?_⟩ <;> (unfold WireText; decide)

theorem wireText_fragmentPrefix (v : Version) (n total its itr : Nat) :
    WireText (fragmentPrefix v n total its itr) := by
  obtain ⟨_, h2, h3, hc, hb, _⟩ := wireText_markers
  cases v
  · exact (((h2.append (wireText_fmt05d _)).append hc).append (wireText_fmt05d _)).append hc
  · exact (((((((h3.append (wireText_fmt08x _)).append hb).append (wireText_fmt08x _)).append hc).append
      (wireText_fmt05d _)).append hc).append (wireText_fmt05d _)).append hc

/-- the armour "?OTR:" ‖ base64 ‖ "." consists of wire characters (`b64encode_alphabet`) -/
theorem wireText_armor (raw : Bytes) : WireText (armorOf raw) := by
  obtain ⟨h1, _, _, _, _, hd⟩ := wireText_markers
  refine (h1.append ?_).append hd
  intro c hc
  exact isWireChar_b64 c (b64encode_alphabet raw c hc)

theorem wireText_fragmentPieces (v : Version) (data : Bytes) (r num its itr : Nat) (hd : WireText data) :
    ∀ k i, ∀ p ∈ fragmentPieces v data r num its itr k i, WireText p := by
  intro k i p hp
  obtain ⟨j, _, _, rfl⟩ := fragmentPieces_mem v data r num its itr k i p hp
  refine ((wireText_fragmentPrefix v j num its itr).append ?_).append wireText_markers.2.2.2.1
  exact hd.sublist ((List.take_sublist _ _).trans (List.drop_sublist _ _))

theorem wireText_fragment (v : Version) (its itr : Nat) (data : Bytes) (size : Nat) (hd : WireText data) :
    ∀ p ∈ fragment v its itr data size, WireText p := by
  intro p hp
  unfold fragment at hp
  simp only at hp
  split at hp
  · rw [List.mem_singleton] at hp; rw [hp]; exact hd
  · split at hp
    · rw [List.mem_singleton] at hp; rw [hp]; exact hd
    · split at hp
      · rw [List.mem_singleton] at hp; rw [hp]; exact hd
      · exact wireText_fragmentPieces v data _ _ its itr hd _ _ p hp

/-- whatever `fragEncode` makes of a binary message (one armoured message, or its fragments) is wire text -/
theorem wireText_wireOfRaw (c : Conv) (raw : Bytes) : ∀ p ∈ wireOfRaw c raw, WireText p :=
  wireText_fragment _ _ _ _ _ (wireText_armor raw)

/-- the queued messages, once `toSendEncoded` has armoured them, are wire text as well -/
theorem queued_wire_is_armoured (c : Conv) (raws : List Bytes) :
    ∀ p ∈ raws.flatMap (wireOfRaw c), WireText p := by
  intro p hp
  obtain ⟨raw, _, hraw⟩ := List.mem_flatMap.mp hp
  exact wireText_wireOfRaw c raw p hraw

/-- a text containing any byte outside the wire alphabet (space, NUL, '!', any byte ≥ 0x80, …) is not a
    contiguous part of a wire message.  (For texts made of wire characters only nothing is claimed.) -/
theorem WireText.not_infix {p text : Bytes} (hp : WireText p) (ch : UInt8) (hc : ch ∈ text)
    (hn : isWireChar ch = false) : ¬ text <:+: p := by
  intro h
  have := hp ch (h.sublist.subset hc)
  rw [hn] at this
  cases this

/-- **C03, shape**: every message `Send` emits for the text in the encrypted state (i.e. apart from
    injections queued before) consists of wire characters only: "?OTR:"/"?OTR,"/"?OTR|" markers, base64
    alphabet and '=', '.', ',' (`b64encode_alphabet`). -/
theorem send_wire_is_armoured (K : Crypto) (text : Bytes) (s : MState)
    (hp : isOTREnabled s.conv.policies = true) (h : SendReady K s.conv) :
    ∃ wire s', runM (send K text) s = .ok (.ok (wire ++ s.conv.injections, none), s') ∧
      ∀ p ∈ wire, WireText p := by
  refine ⟨_, _, send_encrypted_exact K text s hp h, ?_⟩
  exact wireText_wireOfRaw _ _

end Otr
