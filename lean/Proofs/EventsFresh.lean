/-
  Proofs.EventsFresh — the theorems of Proofs.Events combined with the no-panic theorems of Proofs.NoPanic:
  from a state satisfying the invariant nothing has to be assumed about the outcome of a call.
  (Separate file: Proofs.NoPanic cannot be imported together with Proofs.Fixes2, hence not by Props.C18.)
-/
import Proofs.NoPanic
import Proofs.Events
namespace Otr
open ConvData

/-- every API call from a state satisfying the invariant: it returns (or throws), and the security events it
    appends are those of the transition of the message state (`apiCall_security_events`) -/
theorem apiCall_security_events_inv (K : Crypto) (hK : CryptoOK K) (call : ApiCall) (s : MState)
    (hinv : Inv K s.conv) :
    ∃ (r : Except Err Unit) (s' : MState) (evs : List String) (completed : Bool),
      runM (call.run K) s = .ok (r, s') ∧ Inv K s'.conv ∧
      s'.events = s.events ++ evs ∧
      secEventsIn evs = secEventsOf s.conv.msgState s'.conv.msgState completed ∧
      (completed = true → (∃ m, call = .receive m) ∧ s'.conv.msgState = .encrypted ∧
        s'.conv.lastMessageStateChange = some s.env.now) ∧
      (completed = false → s'.conv.msgState = .encrypted →
        s.conv.msgState = .encrypted ∧ s'.conv.lastMessageStateChange = s.conv.lastMessageStateChange) := by
  have hw := apiCall_inv K hK call s hinv
  unfold wp at hw
  rw [run'_eq_runM] at hw
  cases hr : runM (call.run K) s with
  | panic site => rw [hr] at hw; exact hw.elim
  | ok v =>
    obtain ⟨r, s'⟩ := v
    rw [hr] at hw
    obtain ⟨evs, completed, h1, h2, h3, h4⟩ := apiCall_security_events K call s r s' hr
    exact ⟨r, s', evs, completed, rfl, hw, h1, h2, h3, h4⟩

/-- every session from a freshly created conversation (any version preset or none, any policies, any key list,
    …), any sequence of API calls with arbitrary arguments, tapes and clocks: no panic, and in the log the number
    of GoneSecure events is the number of GoneInsecure events plus one if the conversation is encrypted at the
    end -/
theorem api_sequence_events_balance_fresh (K : Crypto) (hK : CryptoOK K) (version : Option Version)
    (policies : Policies) (keys : List DsaPub) (fragmentSize : Nat) (errHandler : Bool) (friendlyQuery : Bytes)
    (ourTag : Nat) (steps : List ApiStep) :
    ∃ c', runApi K (freshConv version policies keys fragmentSize errHandler friendlyQuery ourTag) steps = .ok c' ∧
      Inv K c' ∧
      (secEventsIn (runApiEvents K (freshConv version policies keys fragmentSize errHandler friendlyQuery ourTag)
        steps)).count .goneSecure =
      (secEventsIn (runApiEvents K (freshConv version policies keys fragmentSize errHandler friendlyQuery ourTag)
        steps)).count .goneInsecure + (if c'.msgState = .encrypted then 1 else 0) := by
  obtain ⟨c', h, hinv⟩ := api_sequence_no_panic_fresh K hK version policies keys fragmentSize errHandler
    friendlyQuery ourTag steps
  exact ⟨c', h, hinv, api_sequence_events_balance K steps _ c' (by simp [freshConv]) h⟩

end Otr
