/-
  Proofs.KeyFile — the key-file writer and reader are inverse to each other, and the readers
  never run out of fuel.  (C17 `keyfile_roundtrip`, C13 totality of the key-file readers.)
-/
import Otr.KeyFile
import Proofs.Msg
namespace Otr
open Otr

/-! hex -/
theorem sxHexVal_upper : ∀ k : Fin 16, sxHexVal (hexDigitUpper k.val) = some k.val := by decide

theorem sxHexVal_hexDigitUpper (k : Nat) (h : k < 16) : sxHexVal (hexDigitUpper k) = some k :=
  sxHexVal_upper ⟨k, h⟩

theorem parseHexDigits_append (a b : Bytes) (acc : Nat) :
    parseHexDigits (a ++ b) acc = (parseHexDigits a acc).bind (fun v => parseHexDigits b v) := by
  induction a generalizing acc with
  | nil => simp [parseHexDigits]
  | cons c a ih =>
    simp only [List.cons_append, parseHexDigits]
    cases sxHexVal c with
    | none => simp
    | some d => simp [ih]

theorem parseHexDigits_hexUpperLE (n : Nat) : parseHexDigits (hexUpperLE n).reverse 0 = some n := by
  induction n using Nat.strongRecOn with
  | _ n ih =>
    unfold hexUpperLE
    by_cases h : n = 0
    · subst h; simp [parseHexDigits]
    · simp only [h, dite_false, List.reverse_cons]
      rw [parseHexDigits_append, ih (n / 16) (by omega)]
      simp only [Option.bind_some, parseHexDigits, sxHexVal_hexDigitUpper (n % 16) (by omega)]
      congr 1; omega

def isUpperHex (c : UInt8) : Bool := (0x30 ≤ c && c ≤ 0x39) || (0x41 ≤ c && c ≤ 0x46)

theorem isUpperHex_hexDigitUpper : ∀ k : Fin 16, isUpperHex (hexDigitUpper k.val) = true := by decide

theorem hexUpperLE_all (n : Nat) : ∀ c ∈ hexUpperLE n, isUpperHex c = true := by
  induction n using Nat.strongRecOn with
  | _ n ih =>
    unfold hexUpperLE
    by_cases h : n = 0
    · simp [h]
    · simp only [h, dite_false, List.mem_cons]
      intro c hc
      rcases hc with hc | hc
      · subst hc; exact isUpperHex_hexDigitUpper ⟨n % 16, by omega⟩
      · exact ih (n / 16) (by omega) c hc

theorem hexUpperLE_ne_nil (n : Nat) (h : n ≠ 0) : hexUpperLE n ≠ [] := by
  unfold hexUpperLE; simp [h]

theorem hexUpper_all (n : Nat) : ∀ c ∈ hexUpper n, isUpperHex c = true := by
  unfold hexUpper
  by_cases h : n = 0
  · simp [h]; decide
  · simp only [h, if_false, List.mem_reverse]; exact hexUpperLE_all n

theorem hexUpper_ne_nil (n : Nat) : hexUpper n ≠ [] := by
  unfold hexUpper
  by_cases h : n = 0
  · simp [h]
  · simp only [h, if_false]; simpa using hexUpperLE_ne_nil n h

theorem parseHexNat_hexUpper (n : Nat) : parseHexNat (hexUpper n) = some n := by
  have hne := hexUpper_ne_nil n
  unfold parseHexNat
  split
  · contradiction
  · unfold hexUpper
    by_cases h : n = 0
    · subst h; simp [parseHexDigits]; decide
    · simp only [h, if_false]; exact parseHexDigits_hexUpperLE n

theorem parseBigHex_digit (c : UInt8) (rest : Bytes) (h1 : c ≠ 0x2d) (h2 : c ≠ 0x2b) :
    parseBigHex (c :: rest) = (parseHexNat (c :: rest)).map Int.ofNat := by
  unfold parseBigHex
  split
  · rename_i h; cases h
  · rename_i h; injection h with h _; exact absurd h h1
  · rename_i h; injection h with h _; exact absurd h h2
  · rfl


theorem isUpperHex_ne (c : UInt8) (h : isUpperHex c = true) :
    c ≠ 0x2d ∧ c ≠ 0x2b ∧ c ≠ 0x23 := by
  refine ⟨?_, ?_, ?_⟩ <;> (intro hc; subst hc; revert h; decide)

/-- reading back what `%X` printed: every integer, and the nil pointer ("<nil>" is not a number) -/
theorem parseBigHex_fmtX (v : Option Int) : parseBigHex (fmtX v) = v := by
  cases v with
  | none => decide
  | some i =>
    cases i with
    | ofNat n =>
      simp only [fmtX]
      have hne := hexUpper_ne_nil n
      have hall := hexUpper_all n
      have hp := parseHexNat_hexUpper n
      revert hne hall hp
      cases hexUpper n with
      | nil => intro h; exact absurd rfl h
      | cons c rest =>
        intro _ hall hp
        have hc := isUpperHex_ne c (hall c (by simp))
        rw [parseBigHex_digit c rest hc.1 hc.2.1, hp]; rfl
    | negSucc n =>
      simp only [fmtX]
      unfold parseBigHex
      simp only [parseHexNat_hexUpper, Option.map_some]
      congr 1

theorem fmtX_no_hash (v : Option Int) : ∀ c ∈ fmtX v, (c == chHash) = false := by
  intro c hc
  cases v with
  | none => revert c; decide
  | some i =>
    cases i with
    | ofNat n =>
      simp only [fmtX] at hc
      have := (isUpperHex_ne c (hexUpper_all n c hc)).2.2
      simpa [chHash] using this
    | negSucc n =>
      simp only [fmtX, List.mem_cons] at hc
      rcases hc with hc | hc
      · subst hc; decide
      · have := (isUpperHex_ne c (hexUpper_all (n + 1) c hc)).2.2
        simpa [chHash] using this

/-! ### the readers on the shapes the writer produces -/

theorem readDataUntilAux_stop (stop : UInt8 → Bool) (d : Bytes) (c : UInt8) (rest : Bytes) (l : Option UInt8)
    (hd : ∀ x ∈ d, stop x = false) (hc : stop c = true) :
    readDataUntilAux stop (d ++ c :: rest) l = (d, ⟨c :: rest, none⟩) := by
  induction d generalizing l with
  | nil => simp [readDataUntilAux, hc]
  | cons x d ih =>
    have hx : stop x = false := hd x (by simp)
    simp only [List.cons_append, readDataUntilAux, hx]
    rw [ih (some x) (fun y hy => hd y (by simp [hy]))]
    simp

theorem expect_ws (c x : UInt8) (rest : Bytes) (l : Option UInt8) (h : isWhitespace c = true) :
    expect ⟨c :: rest, l⟩ x = expect ⟨rest, some c⟩ x := by
  simp [expect, readWhitespace, readWhitespaceAux, h]

theorem expect_hit (c : UInt8) (rest : Bytes) (l : Option UInt8) (h : isWhitespace c = false) :
    expect ⟨c :: rest, l⟩ c = (true, ⟨rest, some c⟩) := by
  simp [expect, readWhitespace, readWhitespaceAux, h, Rd.readByte]

theorem expect_miss (b c : UInt8) (rest : Bytes) (l : Option UInt8) (h : isWhitespace b = false) (hne : b ≠ c) :
    expect ⟨b :: rest, l⟩ c = (false, ⟨b :: rest, none⟩) := by
  simp [expect, readWhitespace, readWhitespaceAux, h, Rd.readByte, Rd.unreadByte, hne]

theorem readValue_ws (c : UInt8) (rest : Bytes) (l : Option UInt8) (h : isWhitespace c = true) :
    readValue ⟨c :: rest, l⟩ = readValue ⟨rest, some c⟩ := by
  simp [readValue, readValueWith, readWhitespace, readWhitespaceAux, h]

/-- may `c` start a symbol (as ReadValue dispatches) -/
def isSymbolStart (c : UInt8) : Bool :=
  !isNotSymbolCharacter c && c != chQuote && c != chHash

theorem isSymbolStart_spec (c : UInt8) (h : isSymbolStart c = true) :
    isWhitespace c = false ∧ c ≠ chLParen ∧ c ≠ chRParen ∧ c ≠ chQuote ∧ c ≠ chHash ∧
      isNotSymbolCharacter c = false := by
  simp only [isSymbolStart, isNotSymbolCharacter, Bool.and_eq_true, Bool.not_eq_true',
    Bool.or_eq_false_iff, bne_iff_ne, ne_eq, beq_eq_false_iff_ne] at h
  simp only [isNotSymbolCharacter, chLParen, chRParen, Bool.or_eq_false_iff, beq_eq_false_iff_ne, ne_eq]
  exact ⟨h.1.1.1.1, h.1.1.1.2, h.1.1.2, h.1.2, h.2, h.1.1⟩

/-- a symbol: first byte a symbol start, then symbol bytes, then a delimiter -/
theorem readValue_sym (c0 : UInt8) (s : Bytes) (d : UInt8) (rest : Bytes) (l : Option UInt8)
    (h0 : isSymbolStart c0 = true) (hs : ∀ x ∈ s, isNotSymbolCharacter x = false)
    (hd : isNotSymbolCharacter d = true) :
    readValue ⟨c0 :: (s ++ d :: rest), l⟩ = .done ((.sym (c0 :: s), false), ⟨d :: rest, none⟩) := by
  obtain ⟨hw, h1, h2, h3, h4, h5⟩ := isSymbolStart_spec c0 h0
  have key := readDataUntilAux_stop isNotSymbolCharacter (c0 :: s) d rest none
    (by intro x hx; rcases List.mem_cons.mp hx with hx | hx
        · subst hx; exact h5
        · exact hs x hx) hd
  simp only [List.cons_append] at key
  simp [readValue, readValueWith, readWhitespace, readWhitespaceAux, hw, Rd.peek, Rd.readByte, Rd.unreadByte,
    h1, h2, h3, h4, readSymbol, readDataUntil, key]

/-- a quoted string without a quote inside -/
theorem readValue_str (n : Bytes) (rest : Bytes) (l : Option UInt8)
    (hn : ∀ x ∈ n, (x == chQuote) = false) :
    readValue ⟨chQuote :: (n ++ chQuote :: rest), l⟩ = .done ((.str n, false), ⟨rest, some chQuote⟩) := by
  have hw : isWhitespace chQuote = false := by decide
  have key := readDataUntilAux_stop (· == chQuote) n chQuote rest (some chQuote) hn (by decide)
  have e1 := expect_hit chQuote (n ++ chQuote :: rest) none hw
  have e2 := expect_hit chQuote rest none hw
  simp [readValue, readValueWith, readWhitespace, readWhitespaceAux, hw, Rd.peek, Rd.readByte, Rd.unreadByte,
    readString, readDataUntil, key, e1, e2, show chQuote ≠ chLParen by decide, show chQuote ≠ chRParen by decide]

/-- a number between hash marks -/
theorem readValue_big (d : Bytes) (rest : Bytes) (l : Option UInt8)
    (hn : ∀ x ∈ d, (x == chHash) = false) :
    readValue ⟨chHash :: (d ++ chHash :: rest), l⟩ =
      .done ((.big (parseBigHex d), false), ⟨rest, some chHash⟩) := by
  have hw : isWhitespace chHash = false := by decide
  have key := readDataUntilAux_stop (· == chHash) d chHash rest (some chHash) hn (by decide)
  have e1 := expect_hit chHash (d ++ chHash :: rest) none hw
  have e2 := expect_hit chHash rest none hw
  simp [readValue, readValueWith, readWhitespace, readWhitespaceAux, hw, Rd.peek, Rd.readByte, Rd.unreadByte,
    readBigNum, readDataUntil, key, e1, e2, show chHash ≠ chLParen by decide, show chHash ≠ chRParen by decide,
    show chHash ≠ chQuote by decide]

/-! ### one level of the file at a time

Inputs are written in the normal form `b₁ :: b₂ :: … :: (variable ++ (… :: rest))` that
`simp only [List.cons_append, List.append_assoc]` produces from the writer's output; fixed text
(indentation, keywords, parentheses) is read by evaluation. -/

/-- the evaluation rules for fixed text -/
theorem readWhitespaceAux_cons (c : UInt8) (rest : Bytes) (l : Option UInt8) :
    readWhitespaceAux (c :: rest) l =
      if isWhitespace c then readWhitespaceAux rest (some c) else ⟨c :: rest, none⟩ := rfl

theorem readSymbolAndExpect_of (r r' : Rd) (s t : Bytes) (h : readValue r = .done ((.sym s, false), r')) :
    readSymbolAndExpect r t = .done (s == t, r') := by
  simp [readSymbolAndExpect, readPotentialSymbol, h]

theorem exportParameter_eq (t : UInt8) (v : Option Int) (rest : Bytes) :
    exportParameter [t] v ++ rest =
      0x20 :: 0x20 :: 0x20 :: 0x20 :: 0x20 :: 0x20 :: 0x20 :: 0x20 :: 0x28 :: t :: 0x20 :: 0x23 ::
        (fmtX v ++ 0x23 :: 0x29 :: 0x0a :: rest) := by
  simp [exportParameter, strBytes]

/-- the tags of the five parameters -/
def isParamTag (t : UInt8) : Bool := t == 0x70 || t == 0x71 || t == 0x67 || t == 0x79 || t == 0x78

/-- `(t #HEX#)` is read back as the tag and the number -/
theorem readParameter_export (t : UInt8) (v : Option Int) (rest : Bytes) (l : Option UInt8)
    (ht : isSymbolStart t = true) :
    readParameter ⟨exportParameter [t] v ++ rest, l⟩ =
      .done (⟨[t], v, false, true⟩, ⟨0x0a :: rest, some chRParen⟩) := by
  rw [exportParameter_eq]
  have hsp : isWhitespace 0x20 = true := by decide
  have hsym := readValue_sym t [] 0x20 (0x23 :: (fmtX v ++ 0x23 :: 0x29 :: 0x0a :: rest)) (some chLParen) ht
    (by simp) (by decide)
  have hbig := readValue_big (fmtX v) (0x29 :: 0x0a :: rest) (some 0x20) (fmtX_no_hash v)
  simp only [List.nil_append] at hsym
  simp only [readParameter]
  rw [expect_ws _ _ _ _ hsp, expect_ws _ _ _ _ hsp, expect_ws _ _ _ _ hsp, expect_ws _ _ _ _ hsp,
    expect_ws _ _ _ _ hsp, expect_ws _ _ _ _ hsp, expect_ws _ _ _ _ hsp, expect_ws _ _ _ _ hsp]
  rw [show (0x28 : UInt8) = chLParen from rfl, expect_hit chLParen _ _ (by decide)]
  simp only [readPotentialSymbol, readPotentialBigNum, hsym, Run.bind_done, Run.pure_eq]
  rw [readValue_ws _ _ _ hsp, show (0x23 : UInt8) = chHash from rfl, hbig]
  simp only [Run.bind_done, parseBigHex_fmtX]
  rw [show (0x29 : UInt8) = chRParen from rfl, expect_hit chRParen _ _ (by decide)]
  simp

theorem readParameter_ws (c : UInt8) (rest : Bytes) (l : Option UInt8) (h : isWhitespace c = true) :
    readParameter ⟨c :: rest, l⟩ = readParameter ⟨rest, some c⟩ := by
  simp only [readParameter, expect_ws _ _ _ _ h]

theorem readDSAParams_step (f : Nat) (k k' : DsaPriv) (t : UInt8) (v : Option Int) (rest : Bytes)
    (l : Option UInt8) (ht : isSymbolStart t = true) (ha : assignParameter k [t] v = some k') :
    readDSAParams (f + 1) k ⟨0x0a :: (exportParameter [t] v ++ rest), l⟩ =
      readDSAParams f k' ⟨0x0a :: rest, some chRParen⟩ := by
  simp only [readDSAParams]
  rw [readParameter_ws _ _ _ (by decide), readParameter_export t v rest _ ht]
  simp [ha]

theorem readDSAParams_end (f : Nat) (k : DsaPriv) (rest : Bytes) (l : Option UInt8) :
    readDSAParams (f + 1) k ⟨0x0a :: 0x20 :: 0x20 :: 0x20 :: 0x20 :: 0x20 :: 0x20 :: 0x29 :: rest, l⟩ =
      .done (some k, ⟨0x29 :: rest, none⟩) := by
  have hsp : isWhitespace 0x20 = true := by decide
  simp only [readDSAParams, readParameter]
  rw [expect_ws _ _ _ _ (by decide), expect_ws _ _ _ _ hsp, expect_ws _ _ _ _ hsp, expect_ws _ _ _ _ hsp,
    expect_ws _ _ _ _ hsp, expect_ws _ _ _ _ hsp, expect_ws _ _ _ _ hsp,
    expect_miss 0x29 chLParen _ _ (by decide) (by decide)]
  simp [ParamRes.stop]

theorem exportDSAPrivateKey_eq (k : DsaPriv) (rest : Bytes) :
    exportDSAPrivateKey k ++ rest =
      0x20 :: 0x20 :: 0x20 :: 0x20 :: 0x20 :: 0x20 :: 0x28 :: 0x64 :: 0x73 :: 0x61 :: 0x0a ::
        (exportParameter [0x70] k.p ++ (exportParameter [0x71] k.q ++ (exportParameter [0x67] k.g ++
          (exportParameter [0x79] k.y ++ (exportParameter [0x78] k.x ++
            (0x20 :: 0x20 :: 0x20 :: 0x20 :: 0x20 :: 0x20 :: 0x29 :: 0x0a :: rest)))))) := by
  simp [exportDSAPrivateKey, strBytes]

theorem exportParameter_length_pos (t : Bytes) (v : Option Int) : 0 < (exportParameter t v).length := by
  simp [exportParameter, strBytes]

/-- `(dsa (p #…#) … (x #…#))` is read back as the key -/
theorem readDSAPrivateKey_export (k : DsaPriv) (rest : Bytes) (l : Option UInt8) :
    readDSAPrivateKey ⟨exportDSAPrivateKey k ++ rest, l⟩ =
      .done ((some k, true), ⟨0x0a :: rest, some chRParen⟩) := by
  rw [exportDSAPrivateKey_eq]
  have hsp : isWhitespace 0x20 = true := by decide
  simp only [readDSAPrivateKey]
  rw [expect_ws _ _ _ _ hsp, expect_ws _ _ _ _ hsp, expect_ws _ _ _ _ hsp, expect_ws _ _ _ _ hsp,
    expect_ws _ _ _ _ hsp, expect_ws _ _ _ _ hsp]
  rw [show (0x28 : UInt8) = chLParen from rfl, expect_hit chLParen _ _ (by decide)]
  have hsym := fun tl => readValue_sym 0x64 [0x73, 0x61] 0x0a tl (some chLParen) (by decide) (by decide) (by decide)
  simp only [List.cons_append, List.nil_append] at hsym
  simp only [readSymbolAndExpect_of _ _ _ _ (hsym _), Run.bind_done]
  -- the loop: five parameters, then the closing parenthesis
  generalize hlen : (Rd.mk (0x0a :: (exportParameter [0x70] k.p ++ (exportParameter [0x71] k.q ++
      (exportParameter [0x67] k.g ++ (exportParameter [0x79] k.y ++ (exportParameter [0x78] k.x ++
        (0x20 :: 0x20 :: 0x20 :: 0x20 :: 0x20 :: 0x20 :: 0x29 :: 0x0a :: rest))))))) none).inp.length + 1 = fuel
  have hfuel : ∃ f, fuel = f + 6 := by
    refine ⟨fuel - 6, ?_⟩
    have h1 := exportParameter_length_pos [0x70] k.p
    have h2 := exportParameter_length_pos [0x71] k.q
    have h3 := exportParameter_length_pos [0x67] k.g
    have h4 := exportParameter_length_pos [0x79] k.y
    have h5 := exportParameter_length_pos [0x78] k.x
    simp only [List.length_cons, List.length_append] at hlen
    omega
  obtain ⟨f, rfl⟩ := hfuel
  rw [readDSAParams_step (f + 5) {} { p := k.p } 0x70 k.p _ _ (by decide) (by rfl)]
  rw [readDSAParams_step (f + 4) _ { p := k.p, q := k.q } 0x71 k.q _ _ (by decide) (by rfl)]
  rw [readDSAParams_step (f + 3) _ { p := k.p, q := k.q, g := k.g } 0x67 k.g _ _ (by decide) (by rfl)]
  rw [readDSAParams_step (f + 2) _ { p := k.p, q := k.q, g := k.g, y := k.y } 0x79 k.y _ _ (by decide) (by rfl)]
  rw [readDSAParams_step (f + 1) _ { p := k.p, q := k.q, g := k.g, y := k.y, x := k.x } 0x78 k.x _ _ (by decide) (by rfl)]
  rw [readDSAParams_end f]
  simp only [Run.bind_done]
  rw [show (0x29 : UInt8) = chRParen from rfl, expect_hit chRParen _ _ (by decide)]
  cases k
  simp [strBytes]

theorem readDSAPrivateKey_ws (c : UInt8) (rest : Bytes) (l : Option UInt8) (h : isWhitespace c = true) :
    readDSAPrivateKey ⟨c :: rest, l⟩ = readDSAPrivateKey ⟨rest, some c⟩ := by
  simp only [readDSAPrivateKey, expect_ws _ _ _ _ h]

theorem exportPrivateKey_eq (k : DsaPriv) (rest : Bytes) :
    exportPrivateKey k ++ rest =
      0x20 :: 0x20 :: 0x20 :: 0x20 :: 0x28 ::
        0x70 :: 0x72 :: 0x69 :: 0x76 :: 0x61 :: 0x74 :: 0x65 :: 0x2d :: 0x6b :: 0x65 :: 0x79 :: 0x0a ::
        (exportDSAPrivateKey k ++ (0x20 :: 0x20 :: 0x20 :: 0x20 :: 0x29 :: 0x0a :: rest)) := by
  simp [exportPrivateKey, strBytes]

/-- `(private-key (dsa …))` -/
theorem readPrivateKey_export (k : DsaPriv) (rest : Bytes) (l : Option UInt8) :
    readPrivateKey ⟨exportPrivateKey k ++ rest, l⟩ = .done ((k, true), ⟨0x0a :: rest, some chRParen⟩) := by
  rw [exportPrivateKey_eq]
  have hsp : isWhitespace 0x20 = true := by decide
  simp only [readPrivateKey]
  rw [expect_ws _ _ _ _ hsp, expect_ws _ _ _ _ hsp, expect_ws _ _ _ _ hsp, expect_ws _ _ _ _ hsp]
  rw [show (0x28 : UInt8) = chLParen from rfl, expect_hit chLParen _ _ (by decide)]
  have hsym := fun tl => readValue_sym 0x70 [0x72, 0x69, 0x76, 0x61, 0x74, 0x65, 0x2d, 0x6b, 0x65, 0x79] 0x0a tl
    (some chLParen) (by decide) (by decide) (by decide)
  simp only [List.cons_append, List.nil_append] at hsym
  simp only [readSymbolAndExpect_of _ _ _ _ (hsym _), Run.bind_done]
  rw [readDSAPrivateKey_ws _ _ _ (by decide), readDSAPrivateKey_export]
  simp only [Run.bind_done]
  rw [expect_ws _ _ _ _ (by decide), expect_ws _ _ _ _ hsp, expect_ws _ _ _ _ hsp, expect_ws _ _ _ _ hsp,
    expect_ws _ _ _ _ hsp, show (0x29 : UInt8) = chRParen from rfl, expect_hit chRParen _ _ (by decide)]
  simp [strBytes]

theorem readPrivateKey_ws (c : UInt8) (rest : Bytes) (l : Option UInt8) (h : isWhitespace c = true) :
    readPrivateKey ⟨c :: rest, l⟩ = readPrivateKey ⟨rest, some c⟩ := by
  simp only [readPrivateKey, expect_ws _ _ _ _ h]

theorem exportName_eq (n : Bytes) (rest : Bytes) :
    exportName n ++ rest =
      0x20 :: 0x20 :: 0x20 :: 0x20 :: 0x28 :: 0x6e :: 0x61 :: 0x6d :: 0x65 :: 0x20 :: 0x22 ::
        (n ++ 0x22 :: 0x29 :: 0x0a :: rest) := by
  simp [exportName, strBytes]

/-- `(name "…")` for a name without a double quote -/
theorem readAccountName_export (n : Bytes) (rest : Bytes) (l : Option UInt8)
    (hn : ∀ x ∈ n, (x == chQuote) = false) :
    readAccountName ⟨exportName n ++ rest, l⟩ = .done ((n, true), ⟨0x0a :: rest, some chRParen⟩) := by
  rw [exportName_eq]
  have hsp : isWhitespace 0x20 = true := by decide
  simp only [readAccountName]
  rw [expect_ws _ _ _ _ hsp, expect_ws _ _ _ _ hsp, expect_ws _ _ _ _ hsp, expect_ws _ _ _ _ hsp]
  rw [show (0x28 : UInt8) = chLParen from rfl, expect_hit chLParen _ _ (by decide)]
  have hsym := fun tl => readValue_sym 0x6e [0x61, 0x6d, 0x65] 0x20 tl
    (some chLParen) (by decide) (by decide) (by decide)
  simp only [List.cons_append, List.nil_append] at hsym
  simp only [readSymbolAndExpect_of _ _ _ _ (hsym _), Run.bind_done, readPotentialStringOrSymbol]
  rw [readValue_ws _ _ _ hsp, show (0x22 : UInt8) = chQuote from rfl, readValue_str n _ _ hn]
  simp only [Run.bind_done, Run.pure_eq]
  rw [show (0x29 : UInt8) = chRParen from rfl, expect_hit chRParen _ _ (by decide)]
  simp [strBytes]
  intro hm
  have := hn _ hm
  exact absurd this (by decide)

theorem readAccountName_ws (c : UInt8) (rest : Bytes) (l : Option UInt8) (h : isWhitespace c = true) :
    readAccountName ⟨c :: rest, l⟩ = readAccountName ⟨rest, some c⟩ := by
  simp only [readAccountName, expect_ws _ _ _ _ h]

/-- a protocol name the reader takes for a symbol: non-empty, starts with a symbol-start byte
    (no whitespace, parenthesis, double quote or hash mark), goes on without whitespace or parentheses -/
def validProtocol : Bytes → Bool
  | [] => false
  | c :: s => isSymbolStart c && s.all fun x => !isNotSymbolCharacter x

theorem exportProtocol_eq (n : Bytes) (rest : Bytes) :
    exportProtocol n ++ rest =
      0x20 :: 0x20 :: 0x20 :: 0x20 :: 0x28 :: 0x70 :: 0x72 :: 0x6f :: 0x74 :: 0x6f :: 0x63 :: 0x6f :: 0x6c :: 0x20 ::
        (n ++ 0x29 :: 0x0a :: rest) := by
  simp [exportProtocol, strBytes]

/-- `(protocol …)` -/
theorem readAccountProtocol_export (n : Bytes) (rest : Bytes) (l : Option UInt8) (hn : validProtocol n = true) :
    readAccountProtocol ⟨exportProtocol n ++ rest, l⟩ = .done ((n, true), ⟨0x0a :: rest, some chRParen⟩) := by
  rw [exportProtocol_eq]
  have hsp : isWhitespace 0x20 = true := by decide
  simp only [readAccountProtocol]
  rw [expect_ws _ _ _ _ hsp, expect_ws _ _ _ _ hsp, expect_ws _ _ _ _ hsp, expect_ws _ _ _ _ hsp]
  rw [show (0x28 : UInt8) = chLParen from rfl, expect_hit chLParen _ _ (by decide)]
  have hsym := fun tl => readValue_sym 0x70 [0x72, 0x6f, 0x74, 0x6f, 0x63, 0x6f, 0x6c] 0x20 tl
    (some chLParen) (by decide) (by decide) (by decide)
  simp only [List.cons_append, List.nil_append] at hsym
  simp only [readSymbolAndExpect_of _ _ _ _ (hsym _), Run.bind_done, readPotentialSymbol]
  rw [readValue_ws _ _ _ hsp]
  cases n with
  | nil => simp [validProtocol] at hn
  | cons c0 s =>
    simp only [validProtocol, Bool.and_eq_true, List.all_eq_true, Bool.not_eq_true'] at hn
    simp only [List.cons_append]
    rw [readValue_sym c0 s 0x29 _ _ hn.1 hn.2 (by decide)]
    simp only [Run.bind_done, Run.pure_eq]
    rw [show (0x29 : UInt8) = chRParen from rfl, expect_hit chRParen _ _ (by decide)]
    simp [strBytes]

theorem readAccountProtocol_ws (c : UInt8) (rest : Bytes) (l : Option UInt8) (h : isWhitespace c = true) :
    readAccountProtocol ⟨c :: rest, l⟩ = readAccountProtocol ⟨rest, some c⟩ := by
  simp only [readAccountProtocol, expect_ws _ _ _ _ h]

/-- the accounts the round trip holds for -/
def Account.wellFormed (a : Account) : Bool :=
  (a.name.all fun x => !(x == chQuote)) && validProtocol a.protocol

theorem exportAccount_eq (a : Account) (rest : Bytes) :
    exportAccount a ++ rest =
      0x20 :: 0x20 :: 0x28 :: 0x61 :: 0x63 :: 0x63 :: 0x6f :: 0x75 :: 0x6e :: 0x74 :: 0x0a ::
        (exportName a.name ++ (exportProtocol a.protocol ++ (exportPrivateKey a.key ++
          (0x20 :: 0x20 :: 0x29 :: 0x0a :: rest)))) := by
  simp [exportAccount, strBytes]

/-- one `(account …)` -/
theorem readAccount_export (a : Account) (rest : Bytes) (l : Option UInt8) (ha : a.wellFormed = true) :
    readAccount ⟨0x0a :: (exportAccount a ++ rest), l⟩ =
      .done ((some a, true, false), ⟨0x0a :: rest, some chRParen⟩) := by
  rw [exportAccount_eq]
  have hsp : isWhitespace 0x20 = true := by decide
  simp only [Account.wellFormed, Bool.and_eq_true, List.all_eq_true, Bool.not_eq_true'] at ha
  simp only [readAccount]
  rw [expect_ws _ _ _ _ (by decide), expect_ws _ _ _ _ hsp, expect_ws _ _ _ _ hsp]
  rw [show (0x28 : UInt8) = chLParen from rfl, expect_hit chLParen _ _ (by decide)]
  have hsym := fun tl => readValue_sym 0x61 [0x63, 0x63, 0x6f, 0x75, 0x6e, 0x74] 0x0a tl
    (some chLParen) (by decide) (by decide) (by decide)
  simp only [List.cons_append, List.nil_append] at hsym
  simp only [readSymbolAndExpect_of _ _ _ _ (hsym _), Run.bind_done]
  rw [readAccountName_ws _ _ _ (by decide), readAccountName_export _ _ _ ha.1]
  simp only [Run.bind_done]
  rw [readAccountProtocol_ws _ _ _ (by decide), readAccountProtocol_export _ _ _ ha.2]
  simp only [Run.bind_done]
  rw [readPrivateKey_ws _ _ _ (by decide), readPrivateKey_export]
  simp only [Run.bind_done]
  rw [expect_ws _ _ _ _ (by decide), expect_ws _ _ _ _ hsp, expect_ws _ _ _ _ hsp,
    show (0x29 : UInt8) = chRParen from rfl, expect_hit chRParen _ _ (by decide)]
  cases a
  simp [strBytes]

theorem exportAccounts_length (as : List Account) : as.length ≤ (as.map exportAccount).flatten.length := by
  induction as with
  | nil => simp
  | cons a as ih =>
    have : 0 < (exportAccount a).length := by simp [exportAccount, strBytes]
    simp only [List.map_cons, List.flatten_cons, List.length_append, List.length_cons]
    omega

/-- the loop of readAccounts over the accounts and the closing parenthesis -/
theorem readAccountsLoop_export (as : List Account) (has : ∀ a ∈ as, a.wellFormed = true) :
    ∀ (fuel : Nat) (acc : List Account) (ok : Bool) (l : Option UInt8), as.length < fuel →
      readAccountsLoop fuel acc ok ⟨0x0a :: ((as.map exportAccount).flatten ++ [0x29, 0x0a]), l⟩ =
        .done ((acc ++ as, ok), ⟨[0x29, 0x0a], none⟩) := by
  induction as with
  | nil =>
    intro fuel acc ok l hf
    obtain ⟨f, rfl⟩ : ∃ f, fuel = f + 1 := ⟨fuel - 1, by simp at hf; omega⟩
    simp only [List.map_nil, List.flatten_nil, List.nil_append, readAccountsLoop, readAccount]
    rw [expect_ws _ _ _ _ (by decide), expect_miss 0x29 chLParen _ _ (by decide) (by decide)]
    simp
  | cons a as ih =>
    intro fuel acc ok l hf
    obtain ⟨f, rfl⟩ : ∃ f, fuel = f + 1 := ⟨fuel - 1, by simp at hf; omega⟩
    simp only [List.map_cons, List.flatten_cons, List.append_assoc, readAccountsLoop]
    rw [readAccount_export a _ _ (has a (by simp))]
    simp only [Run.bind_done, Bool.and_true, Bool.false_eq_true, if_false]
    rw [ih (fun b hb => has b (by simp [hb])) f (acc ++ [a]) ok _ (by simp at hf; omega)]
    simp

theorem exportKeys_eq (as : List Account) :
    exportKeys as =
      0x28 :: 0x70 :: 0x72 :: 0x69 :: 0x76 :: 0x6b :: 0x65 :: 0x79 :: 0x73 :: 0x0a ::
        ((as.map exportAccount).flatten ++ [0x29, 0x0a]) := by
  simp [exportKeys, strBytes]

/-- **C17, key files.**  Reading back what `ExportKeysToFile` wrote gives the same accounts:
    names are arbitrary bytes except the double quote (the empty name, whitespace, parentheses,
    newlines, hash marks are all fine inside the quotes), protocol names are symbols, and the five
    key parameters are arbitrary: any integer (zero, negative, any number of hex digits) and even
    the nil pointer, which `%X` prints as `<nil>` and the reader turns back into nil. -/
theorem keyfile_roundtrip (as : List Account) (has : ∀ a ∈ as, a.wellFormed = true) :
    importKeys (exportKeys as) = .done (some as) := by
  rw [exportKeys_eq]
  simp only [importKeys, readAccounts]
  rw [show (0x28 : UInt8) = chLParen from rfl, expect_hit chLParen _ _ (by decide)]
  have hsym := fun tl => readValue_sym 0x70 [0x72, 0x69, 0x76, 0x6b, 0x65, 0x79, 0x73] 0x0a tl
    (some chLParen) (by decide) (by decide) (by decide)
  simp only [List.cons_append, List.nil_append] at hsym
  simp only [readSymbolAndExpect_of _ _ _ _ (hsym _), Run.bind_done]
  rw [readAccountsLoop_export as has _ [] true none
    (by have := exportAccounts_length as
        simp only [List.length_cons, List.length_append]; omega)]
  simp only [Run.bind_done]
  rw [show (0x29 : UInt8) = chRParen from rfl, expect_hit chRParen _ _ (by decide)]
  simp [strBytes]

/-! ### totality: the fuelled loops never run out of fuel (C13)

Every reader leaves at most as many bytes as it found, and every round of a loop that goes on
has consumed at least one byte. -/

theorem readWhitespaceAux_spec (inp : Bytes) (l : Option UInt8) :
    (readWhitespaceAux inp l).inp.length ≤ inp.length ∧
    ((readWhitespaceAux inp l).inp = [] ∨
      ∃ c rest, readWhitespaceAux inp l = ⟨c :: rest, none⟩ ∧ isWhitespace c = false) := by
  induction inp generalizing l with
  | nil => simp [readWhitespaceAux]
  | cons c rest ih =>
    simp only [readWhitespaceAux]
    by_cases h : isWhitespace c = true
    · simp only [h, if_true]
      have := ih (some c)
      exact ⟨by simp only [List.length_cons]; omega, this.2⟩
    · simp only [h]
      exact ⟨by simp, Or.inr ⟨c, rest, by simp, by simpa using h⟩⟩

theorem readWhitespace_len (r : Rd) : (readWhitespace r).inp.length ≤ r.inp.length :=
  (readWhitespaceAux_spec r.inp r.last).1

theorem readWhitespace_head (r : Rd) :
    (readWhitespace r).inp = [] ∨ ∃ c rest, readWhitespace r = ⟨c :: rest, none⟩ ∧ isWhitespace c = false :=
  (readWhitespaceAux_spec r.inp r.last).2

theorem readWhitespace_idem (c : UInt8) (rest : Bytes) (l : Option UInt8) (h : isWhitespace c = false) :
    readWhitespace ⟨c :: rest, l⟩ = ⟨c :: rest, none⟩ := by
  simp [readWhitespace, readWhitespaceAux, h]

theorem readDataUntilAux_len (stop : UInt8 → Bool) (inp : Bytes) (l : Option UInt8) :
    (readDataUntilAux stop inp l).2.inp.length ≤ inp.length := by
  induction inp generalizing l with
  | nil => simp [readDataUntilAux]
  | cons c rest ih =>
    simp only [readDataUntilAux]
    cases h : stop c with
    | true => simp
    | false =>
      have := ih (some c)
      simp only [Bool.false_eq_true, if_false, List.length_cons]; omega

theorem readDataUntilAux_lt (stop : UInt8 → Bool) (c : UInt8) (rest : Bytes) (l : Option UInt8)
    (h : stop c = false) :
    (readDataUntilAux stop (c :: rest) l).2.inp.length < (c :: rest).length := by
  simp only [readDataUntilAux, h]
  have := readDataUntilAux_len stop rest (some c)
  simp only [Bool.false_eq_true, if_false, List.length_cons]; omega

theorem expect_len (r : Rd) (c : UInt8) : (expect r c).2.inp.length ≤ r.inp.length := by
  have hw := readWhitespace_len r
  simp only [expect, Rd.readByte]
  cases hi : (readWhitespace r).inp with
  | nil => exact hw
  | cons b rest =>
    rw [hi] at hw
    by_cases hb : b = c
    · simp only [hb, if_true]; simp only [List.length_cons] at hw; omega
    · simp only [hb, if_false, Rd.unreadByte]; exact hw

theorem expect_lt (r : Rd) (c : UInt8) (h : (expect r c).1 = true) :
    (expect r c).2.inp.length < r.inp.length := by
  have hw := readWhitespace_len r
  revert h
  simp only [expect, Rd.readByte]
  cases hi : (readWhitespace r).inp with
  | nil => simp
  | cons b rest =>
    rw [hi] at hw
    by_cases hb : b = c
    · simp only [hb, if_true]; intro _; simp only [List.length_cons] at hw; omega
    · simp [hb]

/-- a reader that always comes back and never leaves more than it found -/
def Tot {α : Type} (f : Rd → Run (α × Rd)) : Prop :=
  ∀ r, ∃ a r', f r = .done (a, r') ∧ r'.inp.length ≤ r.inp.length

theorem readString_len (r : Rd) : (readString r).2.inp.length ≤ r.inp.length := by
  have h0 := readWhitespace_len r
  have h1 := expect_len (readWhitespace r) chQuote
  simp only [readString]
  cases he : expect (readWhitespace r) chQuote with
  | mk b r1 =>
    rw [he] at h1
    simp only at h1
    cases b with
    | false => simp only; omega
    | true =>
      simp only [readDataUntil]
      have h2 := readDataUntilAux_len (· == chQuote) r1.inp r1.last
      cases hd : readDataUntilAux (· == chQuote) r1.inp r1.last with
      | mk d r2 =>
        rw [hd] at h2
        have h3 := expect_len r2 chQuote
        simp only at h2 ⊢
        cases he2 : expect r2 chQuote with
        | mk b2 r3 =>
          rw [he2] at h3
          simp only at h3
          cases b2 <;> simp only <;> omega

theorem readBigNum_len (r : Rd) : (readBigNum r).2.inp.length ≤ r.inp.length := by
  have h0 := readWhitespace_len r
  have h1 := expect_len (readWhitespace r) chHash
  simp only [readBigNum]
  cases he : expect (readWhitespace r) chHash with
  | mk b r1 =>
    rw [he] at h1
    simp only at h1
    cases b with
    | false => simp only; omega
    | true =>
      simp only [readDataUntil]
      have h2 := readDataUntilAux_len (· == chHash) r1.inp r1.last
      cases hd : readDataUntilAux (· == chHash) r1.inp r1.last with
      | mk d r2 =>
        rw [hd] at h2
        have h3 := expect_len r2 chHash
        simp only at h2 ⊢
        cases he2 : expect r2 chHash with
        | mk b2 r3 =>
          rw [he2] at h3
          simp only at h3
          cases b2 <;> simp only <;> omega

/-- ReadString / ReadBigNum on a reader whose next byte is the opening mark consume it -/
theorem readString_lt (rest : Bytes) (l : Option UInt8) :
    (readString ⟨chQuote :: rest, l⟩).2.inp.length < (chQuote :: rest).length := by
  have hw : isWhitespace chQuote = false := by decide
  simp only [readString, readWhitespace_idem _ _ _ hw, expect_hit _ _ _ hw, readDataUntil]
  have h2 := readDataUntilAux_len (· == chQuote) rest (some chQuote)
  cases hd : readDataUntilAux (· == chQuote) rest (some chQuote) with
  | mk d r2 =>
    rw [hd] at h2
    have h3 := expect_len r2 chQuote
    simp only at h2 ⊢
    cases he2 : expect r2 chQuote with
    | mk b2 r3 =>
      rw [he2] at h3
      simp only at h3
      cases b2 <;> simp only [List.length_cons] <;> omega

theorem readBigNum_lt (rest : Bytes) (l : Option UInt8) :
    (readBigNum ⟨chHash :: rest, l⟩).2.inp.length < (chHash :: rest).length := by
  have hw : isWhitespace chHash = false := by decide
  simp only [readBigNum, readWhitespace_idem _ _ _ hw, expect_hit _ _ _ hw, readDataUntil]
  have h2 := readDataUntilAux_len (· == chHash) rest (some chHash)
  cases hd : readDataUntilAux (· == chHash) rest (some chHash) with
  | mk d r2 =>
    rw [hd] at h2
    have h3 := expect_len r2 chHash
    simp only at h2 ⊢
    cases he2 : expect r2 chHash with
    | mk b2 r3 =>
      rw [he2] at h3
      simp only at h3
      cases b2 <;> simp only [List.length_cons] <;> omega

theorem readSymbol_lt (c : UInt8) (rest : Bytes) (l : Option UInt8) (h : isNotSymbolCharacter c = false) :
    (readSymbol ⟨c :: rest, l⟩).2.inp.length < (c :: rest).length := by
  have hw : isWhitespace c = false := by
    simp only [isNotSymbolCharacter, Bool.or_eq_false_iff] at h; exact h.1.1
  simp only [readSymbol, readWhitespace_idem _ _ _ hw, readDataUntil]
  exact readDataUntilAux_lt isNotSymbolCharacter c rest none h

/-- what `readValueWith` needs of the list reader: called on a "(" it comes back, having consumed it -/
def GoodList (L : Rd → Run (Sexp × Rd)) : Prop :=
  ∀ rest l, ∃ v r', L ⟨chLParen :: rest, l⟩ = .done (v, r') ∧ r'.inp.length ≤ rest.length

/-- a value reader: comes back, leaves no more than it found, and less when it read a value -/
def GoodValue (V : Rd → Run ((Sexp × Bool) × Rd)) : Prop :=
  ∀ r, ∃ v e r', V r = .done ((v, e), r') ∧ r'.inp.length ≤ r.inp.length ∧
    (e = false → r'.inp.length < r.inp.length)

theorem goodList_readListWith (item : Option (Rd → Run (Sexp × Rd))) (hitem : ∀ it, item = some it → Tot it) :
    GoodList (readListWith item) := by
  intro rest l
  have hw : isWhitespace chLParen = false := by decide
  simp only [readListWith, readWhitespace_idem _ _ _ hw, expect_hit _ _ _ hw]
  cases item with
  | none => exact ⟨_, _, rfl, Nat.le_refl _⟩
  | some it =>
    obtain ⟨v, r1, h1, hl1⟩ := hitem it rfl ⟨rest, some chLParen⟩
    simp only [h1]
    have h2 := expect_len r1 chRParen
    cases he : expect r1 chRParen with
    | mk b r2 =>
      rw [he] at h2
      simp only at hl1 h2
      cases b <;> exact ⟨_, _, rfl, by omega⟩

theorem goodValue_readValueWith (L : Rd → Run (Sexp × Rd)) (hL : GoodList L) : GoodValue (readValueWith L) := by
  intro r
  have hlen := readWhitespace_len r
  simp only [readValueWith]
  rcases readWhitespace_head r with h | ⟨c, rest, h, hc⟩
  · have : readWhitespace r = ⟨[], (readWhitespace r).last⟩ := by
      cases hr : readWhitespace r with
      | mk i l => rw [hr] at h; simp only at h; subst h; rfl
    rw [this]
    exact ⟨_, _, _, rfl, by simp, by simp⟩
  · rw [h] at hlen ⊢
    simp only [Rd.peek, Rd.readByte, Rd.unreadByte, List.length_cons] at hlen ⊢
    by_cases h1 : c = chLParen
    · subst h1
      obtain ⟨v, r', hv, hl⟩ := hL rest none
      simp only [if_true, hv]
      exact ⟨_, _, _, rfl, by omega, fun _ => by omega⟩
    · simp only [h1, if_false]
      by_cases h2 : c = chRParen
      · simp only [h2, if_true]
        exact ⟨_, _, _, rfl, by simp only [List.length_cons]; omega, by simp⟩
      · simp only [h2, if_false]
        by_cases h3 : c = chQuote
        · subst h3
          have := readString_lt rest none
          simp only [if_true]
          exact ⟨_, _, _, rfl, by simp only [List.length_cons] at this; omega,
            fun _ => by simp only [List.length_cons] at this; omega⟩
        · simp only [h3, if_false]
          by_cases h4 : c = chHash
          · subst h4
            have := readBigNum_lt rest none
            simp only [if_true]
            exact ⟨_, _, _, rfl, by simp only [List.length_cons] at this; omega,
              fun _ => by simp only [List.length_cons] at this; omega⟩
          · simp only [h4, if_false]
            have hns : isNotSymbolCharacter c = false := by
              simp only [isNotSymbolCharacter, hc, Bool.false_or, Bool.or_eq_false_iff, beq_eq_false_iff_ne, ne_eq]
              exact ⟨h1, h2⟩
            have := readSymbol_lt c rest none hns
            exact ⟨_, _, _, rfl, by simp only [List.length_cons] at this; omega,
              fun _ => by simp only [List.length_cons] at this; omega⟩

theorem itemLoop_total (V : Rd → Run ((Sexp × Bool) × Rd)) (hV : GoodValue V) :
    ∀ (fuel : Nat) (r : Rd), r.inp.length < fuel →
      ∃ vs r', itemLoop V fuel r = .done (vs, r') ∧ r'.inp.length ≤ r.inp.length := by
  intro fuel
  induction fuel with
  | zero => intro r h; omega
  | succ f ih =>
    intro r hf
    have hw := readWhitespace_len r
    obtain ⟨v, e, r1, h1, hl1, hlt⟩ := hV (readWhitespace r)
    simp only [itemLoop, h1]
    cases e with
    | true => exact ⟨_, _, rfl, by omega⟩
    | false =>
      have := hlt rfl
      obtain ⟨vs, r2, h2, hl2⟩ := ih r1 (by omega)
      simp only [h2]
      exact ⟨_, _, rfl, by omega⟩

theorem tot_readListItemAt : ∀ b, Tot (readListItemAt b) := by
  intro b
  induction b with
  | zero =>
    intro r
    obtain ⟨vs, r', h, hl⟩ := itemLoop_total _
      (goodValue_readValueWith _ (goodList_readListWith none (by simp))) (r.inp.length + 1) r (by omega)
    simp only [readListItemAt, h]
    exact ⟨_, _, rfl, hl⟩
  | succ b ih =>
    intro r
    obtain ⟨vs, r', h, hl⟩ := itemLoop_total _
      (goodValue_readValueWith _ (goodList_readListWith (some (readListItemAt b))
        (by intro it hit; cases hit; exact ih))) (r.inp.length + 1) r (by omega)
    simp only [readListItemAt, h]
    exact ⟨_, _, rfl, hl⟩

theorem goodList_readList : GoodList readList := by
  show GoodList (readListWith (some (readListItemAt (maxDepth - 1))))
  exact goodList_readListWith _ (by intro it hit; cases hit; exact tot_readListItemAt _)

/-- **C13, sexp.ReadValue**: comes back on every input, with no more input left than before -/
theorem goodValue_readValue : GoodValue readValue := goodValue_readValueWith _ goodList_readList

/-- sexp.Read is total -/
theorem read_total (b : Bytes) : ∃ v r, read b = .done (v, r) := by
  obtain ⟨v, e, r', h, _, _⟩ := goodValue_readValue ⟨b, none⟩
  exact ⟨v, r', by simp [read, h]⟩

/-- sexp.ReadListItem and sexp.ReadList are total -/
theorem readListItem_total (r : Rd) : ∃ v r', readListItem r = .done (v, r') := by
  obtain ⟨v, r', h, _⟩ := tot_readListItemAt (maxDepth - 1) r
  exact ⟨v, r', h⟩

/-! #### keys.go -/

theorem tot_readPotentialBigNum : Tot readPotentialBigNum := by
  intro r
  obtain ⟨v, e, r', h, hl, _⟩ := goodValue_readValue r
  simp only [readPotentialBigNum, h, Run.bind_done]
  cases v <;> exact ⟨_, _, rfl, hl⟩

theorem tot_readPotentialSymbol : Tot readPotentialSymbol := by
  intro r
  obtain ⟨v, e, r', h, hl, _⟩ := goodValue_readValue r
  simp only [readPotentialSymbol, h, Run.bind_done]
  cases v <;> exact ⟨_, _, rfl, hl⟩

theorem tot_readPotentialStringOrSymbol : Tot readPotentialStringOrSymbol := by
  intro r
  obtain ⟨v, e, r', h, hl, _⟩ := goodValue_readValue r
  simp only [readPotentialStringOrSymbol, h, Run.bind_done]
  cases v <;> exact ⟨_, _, rfl, hl⟩

theorem tot_readSymbolAndExpect (s : Bytes) : Tot (fun r => readSymbolAndExpect r s) := by
  intro r
  obtain ⟨a, r', h, hl⟩ := tot_readPotentialSymbol r
  obtain ⟨res, ok⟩ := a
  simp only [readSymbolAndExpect, h, Run.bind_done]
  exact ⟨_, _, rfl, hl⟩

/-- readParameter comes back; when it reports a parameter it has consumed its "(" -/
theorem readParameter_total (r : Rd) :
    ∃ pr r', readParameter r = .done (pr, r') ∧ r'.inp.length ≤ r.inp.length ∧
      (pr.atEnd = false → r'.inp.length < r.inp.length) := by
  have h0 := expect_len r chLParen
  have h0' := expect_lt r chLParen
  simp only [readParameter]
  cases he : expect r chLParen with
  | mk b r1 =>
    rw [he] at h0 h0'
    simp only at h0 h0'
    cases b with
    | false => exact ⟨_, _, rfl, h0, by simp [ParamRes.stop]⟩
    | true =>
      have hlt := h0' rfl
      obtain ⟨⟨tag, ok1⟩, r2, h2, hl2⟩ := tot_readPotentialSymbol r1
      obtain ⟨⟨value, ok2⟩, r3, h3, hl3⟩ := tot_readPotentialBigNum r2
      simp only [h2, h3, Run.bind_done]
      have h4 := expect_len r3 chRParen
      cases he4 : expect r3 chRParen with
      | mk b4 r4 =>
        rw [he4] at h4
        simp only at h4
        cases b4 with
        | false => exact ⟨_, _, rfl, by omega, fun _ => by omega⟩
        | true => exact ⟨_, _, rfl, by omega, fun _ => by omega⟩

theorem readDSAParams_total :
    ∀ (fuel : Nat) (k : DsaPriv) (r : Rd), r.inp.length < fuel →
      ∃ o r', readDSAParams fuel k r = .done (o, r') ∧ r'.inp.length ≤ r.inp.length := by
  intro fuel
  induction fuel with
  | zero => intro k r h; omega
  | succ f ih =>
    intro k r hf
    obtain ⟨pr, r1, h1, hl1, hlt⟩ := readParameter_total r
    simp only [readDSAParams, h1, Run.bind_done]
    cases hok : pr.ok with
    | false => exact ⟨_, _, rfl, hl1⟩
    | true =>
      cases hend : pr.atEnd with
      | true => exact ⟨_, _, rfl, hl1⟩
      | false =>
        have := hlt hend
        simp only [Bool.not_true, Bool.false_eq_true, if_false]
        cases assignParameter k pr.tag pr.value with
        | none => exact ⟨_, _, rfl, hl1⟩
        | some k' =>
          obtain ⟨o, r2, h2, hl2⟩ := ih k' r1 (by omega)
          exact ⟨o, r2, h2, by omega⟩

theorem tot_readDSAPrivateKey : Tot readDSAPrivateKey := by
  intro r
  have h0 := expect_len r chLParen
  simp only [readDSAPrivateKey]
  cases he : expect r chLParen with
  | mk b r1 =>
    rw [he] at h0
    simp only at h0 ⊢
    obtain ⟨ok1, r2, h2, hl2⟩ := tot_readSymbolAndExpect (strBytes "dsa") r1
    simp only at h2
    obtain ⟨o, r3, h3, hl3⟩ := readDSAParams_total (r2.inp.length + 1) {} r2 (by omega)
    simp only [h2, h3, Run.bind_done]
    cases o with
    | none => exact ⟨_, _, rfl, by omega⟩
    | some k =>
      have h4 := expect_len r3 chRParen
      cases he4 : expect r3 chRParen with
      | mk b4 r4 =>
        rw [he4] at h4
        simp only at h4 ⊢
        exact ⟨_, _, rfl, by omega⟩

theorem tot_readPrivateKey : Tot readPrivateKey := by
  intro r
  have h0 := expect_len r chLParen
  simp only [readPrivateKey]
  cases he : expect r chLParen with
  | mk b r1 =>
    rw [he] at h0
    simp only at h0 ⊢
    obtain ⟨ok1, r2, h2, hl2⟩ := tot_readSymbolAndExpect (strBytes "private-key") r1
    simp only at h2
    obtain ⟨⟨res, ok2⟩, r3, h3, hl3⟩ := tot_readDSAPrivateKey r2
    simp only [h2, h3, Run.bind_done]
    have h4 := expect_len r3 chRParen
    cases he4 : expect r3 chRParen with
    | mk b4 r4 =>
      rw [he4] at h4
      simp only at h4 ⊢
      exact ⟨_, _, rfl, by omega⟩

theorem tot_readAccountName : Tot readAccountName := by
  intro r
  have h0 := expect_len r chLParen
  simp only [readAccountName]
  cases he : expect r chLParen with
  | mk b r1 =>
    rw [he] at h0
    simp only at h0 ⊢
    obtain ⟨ok1, r2, h2, hl2⟩ := tot_readSymbolAndExpect (strBytes "name") r1
    simp only at h2
    obtain ⟨⟨nm, ok2⟩, r3, h3, hl3⟩ := tot_readPotentialStringOrSymbol r2
    simp only [h2, h3, Run.bind_done]
    have h4 := expect_len r3 chRParen
    cases he4 : expect r3 chRParen with
    | mk b4 r4 =>
      rw [he4] at h4
      simp only at h4 ⊢
      exact ⟨_, _, rfl, by omega⟩

theorem tot_readAccountProtocol : Tot readAccountProtocol := by
  intro r
  have h0 := expect_len r chLParen
  simp only [readAccountProtocol]
  cases he : expect r chLParen with
  | mk b r1 =>
    rw [he] at h0
    simp only at h0 ⊢
    obtain ⟨ok1, r2, h2, hl2⟩ := tot_readSymbolAndExpect (strBytes "protocol") r1
    simp only at h2
    obtain ⟨⟨nm, ok2⟩, r3, h3, hl3⟩ := tot_readPotentialSymbol r2
    simp only [h2, h3, Run.bind_done]
    have h4 := expect_len r3 chRParen
    cases he4 : expect r3 chRParen with
    | mk b4 r4 =>
      rw [he4] at h4
      simp only at h4 ⊢
      exact ⟨_, _, rfl, by omega⟩

/-- readAccount comes back; when it reports an account it has consumed its "(" -/
theorem readAccount_total (r : Rd) :
    ∃ a ok atEnd r', readAccount r = .done ((a, ok, atEnd), r') ∧ r'.inp.length ≤ r.inp.length ∧
      (atEnd = false → r'.inp.length < r.inp.length) := by
  have h0 := expect_len r chLParen
  have h0' := expect_lt r chLParen
  simp only [readAccount]
  cases he : expect r chLParen with
  | mk b r1 =>
    rw [he] at h0 h0'
    simp only at h0 h0'
    cases b with
    | false => exact ⟨_, _, _, _, rfl, h0, by simp⟩
    | true =>
      have hlt := h0' rfl
      obtain ⟨ok1, r2, h2, hl2⟩ := tot_readSymbolAndExpect (strBytes "account") r1
      simp only at h2
      obtain ⟨⟨name, ok2⟩, r3, h3, hl3⟩ := tot_readAccountName r2
      obtain ⟨⟨proto, ok3⟩, r4, h4, hl4⟩ := tot_readAccountProtocol r3
      obtain ⟨⟨key, ok4⟩, r5, h5, hl5⟩ := tot_readPrivateKey r4
      simp only [h2, h3, h4, h5, Run.bind_done]
      have h6 := expect_len r5 chRParen
      cases he6 : expect r5 chRParen with
      | mk b6 r6 =>
        rw [he6] at h6
        simp only at h6 ⊢
        exact ⟨_, _, _, _, rfl, by omega, fun _ => by omega⟩

theorem readAccountsLoop_total :
    ∀ (fuel : Nat) (as : List Account) (ok : Bool) (r : Rd), r.inp.length < fuel →
      ∃ res r', readAccountsLoop fuel as ok r = .done (res, r') ∧ r'.inp.length ≤ r.inp.length := by
  intro fuel
  induction fuel with
  | zero => intro as ok r h; omega
  | succ f ih =>
    intro as ok r hf
    obtain ⟨a, ok', atEnd, r1, h1, hl1, hlt⟩ := readAccount_total r
    simp only [readAccountsLoop, h1, Run.bind_done]
    cases atEnd with
    | true => exact ⟨_, _, rfl, hl1⟩
    | false =>
      have := hlt rfl
      simp only [Bool.false_eq_true, if_false]
      cases a with
      | none =>
        obtain ⟨res, r2, h2, hl2⟩ := ih as (ok && ok') r1 (by omega)
        exact ⟨res, r2, h2, by omega⟩
      | some a =>
        obtain ⟨res, r2, h2, hl2⟩ := ih (as ++ [a]) (ok && ok') r1 (by omega)
        exact ⟨res, r2, h2, by omega⟩

/-- **C13, ImportKeys**: the model of ImportKeys comes back (with accounts or with an error) on
    every byte string: no loop of the reader can run for ever -/
theorem importKeys_total (b : Bytes) : ∃ res, importKeys b = .done res := by
  simp only [importKeys, readAccounts]
  cases he : expect ⟨b, none⟩ chLParen with
  | mk b0 r1 =>
    simp only
    obtain ⟨ok1, r2, h2, hl2⟩ := tot_readSymbolAndExpect (strBytes "privkeys") r1
    simp only at h2
    obtain ⟨⟨as, ok2⟩, r3, h3, hl3⟩ := readAccountsLoop_total (r2.inp.length + 1) [] true r2 (by omega)
    simp only [h2, h3, Run.bind_done]
    cases he4 : expect r3 chRParen with
    | mk b4 r4 => exact ⟨_, rfl⟩

/-! ### repaired code: imported account names carry no double quote

    The writer puts the name between double quotes without escaping, so a name with a double quote
    could not be written back.  The reader used to accept such a name when it was written as a
    symbol (`(name a"b)`); now every account of a successful import has a name the writer can
    handle — the name half of `Account.wellFormed`, the precondition of `keyfile_roundtrip`. -/

theorem readAccountName_no_quote (r r' : Rd) (nm : Bytes)
    (h : readAccountName r = .done ((nm, true), r')) : nm.contains 34 = false := by
  simp only [readAccountName] at h
  cases he : expect r chLParen with
  | mk b r1 =>
    rw [he] at h
    simp only at h
    obtain ⟨ok1, r2, h2, _⟩ := tot_readSymbolAndExpect (strBytes "name") r1
    simp only at h2
    obtain ⟨⟨nm', ok2⟩, r3, h3, _⟩ := tot_readPotentialStringOrSymbol r2
    simp only [h2, h3, Run.bind_done] at h
    cases he4 : expect r3 chRParen with
    | mk b4 r4 =>
      rw [he4] at h
      simp only [Run.pure_eq, Run.done.injEq, Prod.mk.injEq, Bool.and_eq_true,
        Bool.not_eq_true'] at h
      obtain ⟨⟨rfl, _, hq⟩, _⟩ := h
      exact hq

/-- an account that `readAccount` reports without an error has a name without a double quote -/
theorem readAccount_no_quote (r r' : Rd) (a : Account) (atEnd : Bool)
    (h : readAccount r = .done ((some a, true, atEnd), r')) : a.name.contains 34 = false := by
  simp only [readAccount] at h
  cases he : expect r chLParen with
  | mk b r1 =>
    rw [he] at h
    cases b with
    | false => simp only [Run.pure_eq, Run.done.injEq, Prod.mk.injEq, reduceCtorEq, false_and] at h
    | true =>
      simp only at h
      obtain ⟨ok1, r2, h2, _⟩ := tot_readSymbolAndExpect (strBytes "account") r1
      simp only at h2
      obtain ⟨⟨name, ok2⟩, r3, h3, _⟩ := tot_readAccountName r2
      obtain ⟨⟨proto, ok3⟩, r4, h4, _⟩ := tot_readAccountProtocol r3
      obtain ⟨⟨key, ok4⟩, r5, h5, _⟩ := tot_readPrivateKey r4
      simp only [h2, h3, h4, h5, Run.bind_done] at h
      cases he6 : expect r5 chRParen with
      | mk b6 r6 =>
        rw [he6] at h
        simp only [Run.pure_eq, Run.done.injEq, Prod.mk.injEq, Option.some.injEq,
          Bool.and_eq_true] at h
        obtain ⟨⟨rfl, ⟨⟨⟨⟨_, hok2⟩, _⟩, _⟩, _⟩, _⟩, _⟩ := h
        subst hok2
        exact readAccountName_no_quote r2 r3 name h3

theorem readAccountsLoop_no_quote :
    ∀ (fuel : Nat) (as : List Account) (ok : Bool) (r : Rd) (res : List Account) (r' : Rd),
      readAccountsLoop fuel as ok r = .done ((res, true), r') →
      ok = true ∧ ((∀ a ∈ as, a.name.contains 34 = false) → ∀ a ∈ res, a.name.contains 34 = false) := by
  intro fuel
  induction fuel with
  | zero => intro as ok r res r' h; simp only [readAccountsLoop, reduceCtorEq] at h
  | succ f ih =>
    intro as ok r res r' h
    obtain ⟨a, ok', atEnd, r1, h1, _, _⟩ := readAccount_total r
    simp only [readAccountsLoop, h1, Run.bind_done] at h
    cases atEnd with
    | true =>
      simp only [if_true, Run.pure_eq, Run.done.injEq, Prod.mk.injEq, Bool.and_eq_true] at h
      obtain ⟨⟨rfl, hok, _⟩, _⟩ := h
      exact ⟨hok, fun has => has⟩
    | false =>
      simp only [Bool.false_eq_true, if_false] at h
      cases a with
      | none =>
        obtain ⟨hok, hres⟩ := ih as (ok && ok') r1 res r' h
        simp only [Bool.and_eq_true] at hok
        exact ⟨hok.1, hres⟩
      | some a =>
        obtain ⟨hok, hres⟩ := ih (as ++ [a]) (ok && ok') r1 res r' h
        simp only [Bool.and_eq_true] at hok
        refine ⟨hok.1, fun has => hres ?_⟩
        intro x hx
        rw [List.mem_append, List.mem_singleton] at hx
        rcases hx with hx | rfl
        · exact has x hx
        · have hok' := hok.2
          subst hok'
          exact readAccount_no_quote r r1 x false h1

/-- **repaired ImportKeys**: every account of a successful import has a name without the double
    quote (byte 34), i.e. a name that `exportKeys` writes back unchanged -/
theorem importKeys_names_no_quote (b : Bytes) (as : List Account)
    (h : importKeys b = .done (some as)) : ∀ a ∈ as, a.name.contains 34 = false := by
  simp only [importKeys, readAccounts] at h
  cases he : expect ⟨b, none⟩ chLParen with
  | mk b0 r1 =>
    rw [he] at h
    simp only at h
    obtain ⟨ok1, r2, h2, _⟩ := tot_readSymbolAndExpect (strBytes "privkeys") r1
    simp only at h2
    obtain ⟨⟨as', ok2⟩, r3, h3, _⟩ := readAccountsLoop_total (r2.inp.length + 1) [] true r2 (by omega)
    simp only [h2, h3, Run.bind_done] at h
    cases he4 : expect r3 chRParen with
    | mk b4 r4 =>
      rw [he4] at h
      simp only [Run.pure_eq, Run.bind_done, Run.done.injEq] at h
      split at h
      · rename_i hok
        injection h with h
        subst h
        simp only [Bool.and_eq_true] at hok
        have hok2 := hok.1.2
        subst hok2
        exact (readAccountsLoop_no_quote _ _ _ _ _ _ h3).2 (fun a ha => by cases ha)
      · cases h

/-- in the vocabulary of the round trip: the name half of `Account.wellFormed` holds for every
    imported account -/
theorem importKeys_names_wellFormed (b : Bytes) (as : List Account)
    (h : importKeys b = .done (some as)) : ∀ a ∈ as, (a.name.all fun x => !(x == chQuote)) = true := by
  intro a ha
  have hq := importKeys_names_no_quote b as h a ha
  rw [List.all_eq_true]
  intro x hx
  cases hxe : x == chQuote with
  | false => rfl
  | true =>
    have : x = 34 := eq_of_beq hxe
    subst this
    have : a.name.contains 34 = true := List.contains_iff_mem.mpr hx
    rw [hq] at this
    cases this

/-! ### the wire form of a private key (ParsePrivateKey ∘ Serialize) -/

theorem parsePrivateKey_of (b r0 r1 r2 r3 r4 r5 : Bytes) (p q g y x : Nat)
    (h0 : extractShort b = some (0, r0)) (h1 : extractMPI r0 = some (p, r1)) (h2 : extractMPI r1 = some (q, r2))
    (h3 : extractMPI r2 = some (g, r3)) (h4 : extractMPI r3 = some (y, r4)) (h5 : extractMPI r4 = some (x, r5)) :
    parsePrivateKey b = (r5, some (⟨p, q, g, y⟩, x)) := by
  unfold parsePrivateKey parsePublicKey
  simp only [h0, h1, h2, h3, h4, h5]
  simp

/-- **C17, DSA private key wire form.**  `ParsePrivateKey(key.Serialize() ++ rest)` gives the key and `rest`. -/
theorem parsePrivateKey_roundtrip (pk : DsaPub) (x : Nat) (rest : Bytes)
    (h : mpisFit [pk.p, pk.q, pk.g, pk.y, x]) :
    parsePrivateKey (appendMPI pk.serialize x ++ rest) = (rest, some (pk, x)) := by
  have e : appendMPI pk.serialize x ++ rest =
      [0, 0] ++ (appendMPI [] pk.p ++ (appendMPI [] pk.q ++ (appendMPI [] pk.g ++ (appendMPI [] pk.y ++
        (appendMPI [] x ++ rest))))) := by
    simp [DsaPub.serialize, appendMPI, appendData]
  rw [e]
  exact parsePrivateKey_of _ _ _ _ _ _ _ _ _ _ _ _ rfl
    (extractMPI_append _ _ (h pk.p (by simp))) (extractMPI_append _ _ (h pk.q (by simp)))
    (extractMPI_append _ _ (h pk.g (by simp))) (extractMPI_append _ _ (h pk.y (by simp)))
    (extractMPI_append _ _ (h x (by simp)))

/-- the same for a key read from a key file whose five numbers are present and non-negative -/
theorem serialize_parsePrivateKey (p q g y x : Nat) (rest : Bytes) (h : mpisFit [p, q, g, y, x]) :
    ∃ b, (DsaPriv.mk (some p) (some q) (some g) (some y) (some x)).serialize = .ok b ∧
      parsePrivateKey (b ++ rest) = (rest, some (⟨p, q, g, y⟩, x)) := by
  refine ⟨appendMPI (DsaPub.serialize ⟨p, q, g, y⟩) x, ?_, parsePrivateKey_roundtrip ⟨p, q, g, y⟩ x rest h⟩
  simp [DsaPriv.serialize, DsaPriv.pubSerialize]

/-! ### non-vacuity -/

/-- a name with spaces, parentheses, a hash mark and a newline; zero, a negative number, the nil
    pointer, numbers with odd and even digit counts -/
example : (⟨strBytes "a b(c)#\n", strBytes "prpl-jabber", ⟨some 0, some (-5), none, some 255, some 4096⟩⟩ : Account).wellFormed = true := by
  decide

example : (⟨[], strBytes "x", {}⟩ : Account).wellFormed = true := by decide

-- outside the precondition the round trip does fail: a double quote in the name ends the string early
set_option maxRecDepth 20000 in
example : importKeys (exportKeys [⟨strBytes "a\"b", strBytes "x", {}⟩]) = .done none := by decide

example : parseBigHex (fmtX (some 0)) = some 0 := parseBigHex_fmtX _
example : fmtX (some 0) = [0x30] := by decide

end Otr
