/-
  Proofs.KeyFile — the key-file writer and reader are inverse to each other, and the readers
  never run out of fuel.  (C17 `keyfile_roundtrip`, C13 totality of the key-file readers.)
-/
import Otr.KeyFile
namespace Otr
open Otr

/-! hex -/
theorem sxHexVal_upper : ∀ k : Fin 16, sxHexVal (hexDigitUpper k.val) = some k.val := by decide

theorem sxHexVal_hexDigitUpper (k : Nat) (h : k < 16) : sxHexVal (hexDigitUpper k) = some k :=
  sxHexVal_upper ⟨k, h⟩

theorem parseHexDigits_append (a b : Bytes) (acc : Nat) :
    parseHexDigits (a ++ b) acc = (parseHexDigits a acc).bind (fun v => parseHexDigits b v) := by
  induction a generalizing acc with
  | nil => simp [parseHexDigits]
  | cons c a ih =>
    simp only [List.cons_append, parseHexDigits]
    cases sxHexVal c with
    | none => simp
    | some d => simp [ih]

theorem parseHexDigits_hexUpperLE (n : Nat) : parseHexDigits (hexUpperLE n).reverse 0 = some n := by
  induction n using Nat.strongRecOn with
  | _ n ih =>
    unfold hexUpperLE
    by_cases h : n = 0
    · subst h; simp [parseHexDigits]
    · simp only [h, dite_false, List.reverse_cons]
      rw [parseHexDigits_append, ih (n / 16) (by omega)]
      simp only [Option.bind_some, parseHexDigits, sxHexVal_hexDigitUpper (n % 16) (by omega)]
      congr 1; omega

def isUpperHex (c : UInt8) : Bool := (0x30 ≤ c && c ≤ 0x39) || (0x41 ≤ c && c ≤ 0x46)

theorem isUpperHex_hexDigitUpper : ∀ k : Fin 16, isUpperHex (hexDigitUpper k.val) = true := by decide

theorem hexUpperLE_all (n : Nat) : ∀ c ∈ hexUpperLE n, isUpperHex c = true := by
  induction n using Nat.strongRecOn with
  | _ n ih =>
    unfold hexUpperLE
    by_cases h : n = 0
    · simp [h]
    · simp only [h, dite_false, List.mem_cons]
      intro c hc
      rcases hc with hc | hc
      · subst hc; exact isUpperHex_hexDigitUpper ⟨n % 16, by omega⟩
      · exact ih (n / 16) (by omega) c hc

theorem hexUpperLE_ne_nil (n : Nat) (h : n ≠ 0) : hexUpperLE n ≠ [] := by
  unfold hexUpperLE; simp [h]

theorem hexUpper_all (n : Nat) : ∀ c ∈ hexUpper n, isUpperHex c = true := by
  unfold hexUpper
  by_cases h : n = 0
  · simp [h]; decide
  · simp only [h, if_false, List.mem_reverse]; exact hexUpperLE_all n

theorem hexUpper_ne_nil (n : Nat) : hexUpper n ≠ [] := by
  unfold hexUpper
  by_cases h : n = 0
  · simp [h]
  · simp only [h, if_false]; simpa using hexUpperLE_ne_nil n h

theorem parseHexNat_hexUpper (n : Nat) : parseHexNat (hexUpper n) = some n := by
  have hne := hexUpper_ne_nil n
  unfold parseHexNat
  split
  · contradiction
  · unfold hexUpper
    by_cases h : n = 0
    · subst h; simp [parseHexDigits]; decide
    · simp only [h, if_false]; exact parseHexDigits_hexUpperLE n

theorem parseBigHex_digit (c : UInt8) (rest : Bytes) (h1 : c ≠ 0x2d) (h2 : c ≠ 0x2b) :
    parseBigHex (c :: rest) = (parseHexNat (c :: rest)).map Int.ofNat := by
  unfold parseBigHex
  split
  · rename_i h; cases h
  · rename_i h; injection h with h _; exact absurd h h1
  · rename_i h; injection h with h _; exact absurd h h2
  · rfl


theorem isUpperHex_ne (c : UInt8) (h : isUpperHex c = true) :
    c ≠ 0x2d ∧ c ≠ 0x2b ∧ c ≠ 0x23 := by
  refine ⟨?_, ?_, ?_⟩ <;> (intro hc; subst hc; revert h; decide)

/-- reading back what `%X` printed: every integer, and the nil pointer ("<nil>" is not a number) -/
theorem parseBigHex_fmtX (v : Option Int) : parseBigHex (fmtX v) = v := by
  cases v with
  | none => decide
  | some i =>
    cases i with
    | ofNat n =>
      simp only [fmtX]
      have hne := hexUpper_ne_nil n
      have hall := hexUpper_all n
      have hp := parseHexNat_hexUpper n
      revert hne hall hp
      cases hexUpper n with
      | nil => intro h; exact absurd rfl h
      | cons c rest =>
        intro _ hall hp
        have hc := isUpperHex_ne c (hall c (by simp))
        rw [parseBigHex_digit c rest hc.1 hc.2.1, hp]; rfl
    | negSucc n =>
      simp only [fmtX]
      unfold parseBigHex
      simp only [parseHexNat_hexUpper, Option.map_some]
      congr 1

theorem fmtX_no_hash (v : Option Int) : ∀ c ∈ fmtX v, (c == chHash) = false := by
  intro c hc
  cases v with
  | none => revert c; decide
  | some i =>
    cases i with
    | ofNat n =>
      simp only [fmtX] at hc
      have := (isUpperHex_ne c (hexUpper_all n c hc)).2.2
      simpa [chHash] using this
    | negSucc n =>
      simp only [fmtX, List.mem_cons] at hc
      rcases hc with hc | hc
      · subst hc; decide
      · have := (isUpperHex_ne c (hexUpper_all (n + 1) c hc)).2.2
        simpa [chHash] using this

/-! ### the readers on the shapes the writer produces -/

theorem readDataUntilAux_stop (stop : UInt8 → Bool) (d : Bytes) (c : UInt8) (rest : Bytes) (l : Option UInt8)
    (hd : ∀ x ∈ d, stop x = false) (hc : stop c = true) :
    readDataUntilAux stop (d ++ c :: rest) l = (d, ⟨c :: rest, none⟩) := by
  induction d generalizing l with
  | nil => simp [readDataUntilAux, hc]
  | cons x d ih =>
    have hx : stop x = false := hd x (by simp)
    simp only [List.cons_append, readDataUntilAux, hx]
    rw [ih (some x) (fun y hy => hd y (by simp [hy]))]
    simp

theorem expect_ws (c x : UInt8) (rest : Bytes) (l : Option UInt8) (h : isWhitespace c = true) :
    expect ⟨c :: rest, l⟩ x = expect ⟨rest, some c⟩ x := by
  simp [expect, readWhitespace, readWhitespaceAux, h]

theorem expect_hit (c : UInt8) (rest : Bytes) (l : Option UInt8) (h : isWhitespace c = false) :
    expect ⟨c :: rest, l⟩ c = (true, ⟨rest, some c⟩) := by
  simp [expect, readWhitespace, readWhitespaceAux, h, Rd.readByte]

theorem expect_miss (b c : UInt8) (rest : Bytes) (l : Option UInt8) (h : isWhitespace b = false) (hne : b ≠ c) :
    expect ⟨b :: rest, l⟩ c = (false, ⟨b :: rest, none⟩) := by
  simp [expect, readWhitespace, readWhitespaceAux, h, Rd.readByte, Rd.unreadByte, hne]

theorem readValue_ws (c : UInt8) (rest : Bytes) (l : Option UInt8) (h : isWhitespace c = true) :
    readValue ⟨c :: rest, l⟩ = readValue ⟨rest, some c⟩ := by
  simp [readValue, readValueWith, readWhitespace, readWhitespaceAux, h]

/-- may `c` start a symbol (as ReadValue dispatches) -/
def isSymbolStart (c : UInt8) : Bool :=
  !isNotSymbolCharacter c && c != chQuote && c != chHash

theorem isSymbolStart_spec (c : UInt8) (h : isSymbolStart c = true) :
    isWhitespace c = false ∧ c ≠ chLParen ∧ c ≠ chRParen ∧ c ≠ chQuote ∧ c ≠ chHash ∧
      isNotSymbolCharacter c = false := by
  simp only [isSymbolStart, isNotSymbolCharacter, Bool.and_eq_true, Bool.not_eq_true',
    Bool.or_eq_false_iff, bne_iff_ne, ne_eq, beq_eq_false_iff_ne] at h
  simp only [isNotSymbolCharacter, chLParen, chRParen, Bool.or_eq_false_iff, beq_eq_false_iff_ne, ne_eq]
  exact ⟨h.1.1.1.1, h.1.1.1.2, h.1.1.2, h.1.2, h.2, h.1.1⟩

/-- a symbol: first byte a symbol start, then symbol bytes, then a delimiter -/
theorem readValue_sym (c0 : UInt8) (s : Bytes) (d : UInt8) (rest : Bytes) (l : Option UInt8)
    (h0 : isSymbolStart c0 = true) (hs : ∀ x ∈ s, isNotSymbolCharacter x = false)
    (hd : isNotSymbolCharacter d = true) :
    readValue ⟨c0 :: (s ++ d :: rest), l⟩ = .done ((.sym (c0 :: s), false), ⟨d :: rest, none⟩) := by
  obtain ⟨hw, h1, h2, h3, h4, h5⟩ := isSymbolStart_spec c0 h0
  have key := readDataUntilAux_stop isNotSymbolCharacter (c0 :: s) d rest none
    (by intro x hx; rcases List.mem_cons.mp hx with hx | hx
        · subst hx; exact h5
        · exact hs x hx) hd
  simp only [List.cons_append] at key
  simp [readValue, readValueWith, readWhitespace, readWhitespaceAux, hw, Rd.peek, Rd.readByte, Rd.unreadByte,
    h1, h2, h3, h4, readSymbol, readDataUntil, key]

/-- a quoted string without a quote inside -/
theorem readValue_str (n : Bytes) (rest : Bytes) (l : Option UInt8)
    (hn : ∀ x ∈ n, (x == chQuote) = false) :
    readValue ⟨chQuote :: (n ++ chQuote :: rest), l⟩ = .done ((.str n, false), ⟨rest, some chQuote⟩) := by
  have hw : isWhitespace chQuote = false := by decide
  have key := readDataUntilAux_stop (· == chQuote) n chQuote rest (some chQuote) hn (by decide)
  have e1 := expect_hit chQuote (n ++ chQuote :: rest) none hw
  have e2 := expect_hit chQuote rest none hw
  simp [readValue, readValueWith, readWhitespace, readWhitespaceAux, hw, Rd.peek, Rd.readByte, Rd.unreadByte,
    readString, readDataUntil, key, e1, e2, show chQuote ≠ chLParen by decide, show chQuote ≠ chRParen by decide]

/-- a number between hash marks -/
theorem readValue_big (d : Bytes) (rest : Bytes) (l : Option UInt8)
    (hn : ∀ x ∈ d, (x == chHash) = false) :
    readValue ⟨chHash :: (d ++ chHash :: rest), l⟩ =
      .done ((.big (parseBigHex d), false), ⟨rest, some chHash⟩) := by
  have hw : isWhitespace chHash = false := by decide
  have key := readDataUntilAux_stop (· == chHash) d chHash rest (some chHash) hn (by decide)
  have e1 := expect_hit chHash (d ++ chHash :: rest) none hw
  have e2 := expect_hit chHash rest none hw
  simp [readValue, readValueWith, readWhitespace, readWhitespaceAux, hw, Rd.peek, Rd.readByte, Rd.unreadByte,
    readBigNum, readDataUntil, key, e1, e2, show chHash ≠ chLParen by decide, show chHash ≠ chRParen by decide,
    show chHash ≠ chQuote by decide]

/-! ### one level of the file at a time

Inputs are written in the normal form `b₁ :: b₂ :: … :: (variable ++ (… :: rest))` that
`simp only [List.cons_append, List.append_assoc]` produces from the writer's output; fixed text
(indentation, keywords, parentheses) is read by evaluation. -/

/-- the evaluation rules for fixed text -/
theorem readWhitespaceAux_cons (c : UInt8) (rest : Bytes) (l : Option UInt8) :
    readWhitespaceAux (c :: rest) l =
      if isWhitespace c then readWhitespaceAux rest (some c) else ⟨c :: rest, none⟩ := rfl

theorem readSymbolAndExpect_of (r r' : Rd) (s t : Bytes) (h : readValue r = .done ((.sym s, false), r')) :
    readSymbolAndExpect r t = .done (s == t, r') := by
  simp [readSymbolAndExpect, readPotentialSymbol, h]

theorem exportParameter_eq (t : UInt8) (v : Option Int) (rest : Bytes) :
    exportParameter [t] v ++ rest =
      0x20 :: 0x20 :: 0x20 :: 0x20 :: 0x20 :: 0x20 :: 0x20 :: 0x20 :: 0x28 :: t :: 0x20 :: 0x23 ::
        (fmtX v ++ 0x23 :: 0x29 :: 0x0a :: rest) := by
  simp [exportParameter, strBytes]

/-- the tags of the five parameters -/
def isParamTag (t : UInt8) : Bool := t == 0x70 || t == 0x71 || t == 0x67 || t == 0x79 || t == 0x78

/-- `(t #HEX#)` is read back as the tag and the number -/
theorem readParameter_export (t : UInt8) (v : Option Int) (rest : Bytes) (l : Option UInt8)
    (ht : isSymbolStart t = true) :
    readParameter ⟨exportParameter [t] v ++ rest, l⟩ =
      .done (⟨[t], v, false, true⟩, ⟨0x0a :: rest, some chRParen⟩) := by
  rw [exportParameter_eq]
  have hsp : isWhitespace 0x20 = true := by decide
  have hsym := readValue_sym t [] 0x20 (0x23 :: (fmtX v ++ 0x23 :: 0x29 :: 0x0a :: rest)) (some chLParen) ht
    (by simp) (by decide)
  have hbig := readValue_big (fmtX v) (0x29 :: 0x0a :: rest) (some 0x20) (fmtX_no_hash v)
  simp only [List.nil_append] at hsym
  simp only [readParameter]
  rw [expect_ws _ _ _ _ hsp, expect_ws _ _ _ _ hsp, expect_ws _ _ _ _ hsp, expect_ws _ _ _ _ hsp,
    expect_ws _ _ _ _ hsp, expect_ws _ _ _ _ hsp, expect_ws _ _ _ _ hsp, expect_ws _ _ _ _ hsp]
  rw [show (0x28 : UInt8) = chLParen from rfl, expect_hit chLParen _ _ (by decide)]
  simp only [readPotentialSymbol, readPotentialBigNum, hsym, Run.bind_done, Run.pure_eq]
  rw [readValue_ws _ _ _ hsp, show (0x23 : UInt8) = chHash from rfl, hbig]
  simp only [Run.bind_done, parseBigHex_fmtX]
  rw [show (0x29 : UInt8) = chRParen from rfl, expect_hit chRParen _ _ (by decide)]
  simp

theorem readParameter_ws (c : UInt8) (rest : Bytes) (l : Option UInt8) (h : isWhitespace c = true) :
    readParameter ⟨c :: rest, l⟩ = readParameter ⟨rest, some c⟩ := by
  simp only [readParameter, expect_ws _ _ _ _ h]

theorem readDSAParams_step (f : Nat) (k k' : DsaPriv) (t : UInt8) (v : Option Int) (rest : Bytes)
    (l : Option UInt8) (ht : isSymbolStart t = true) (ha : assignParameter k [t] v = some k') :
    readDSAParams (f + 1) k ⟨0x0a :: (exportParameter [t] v ++ rest), l⟩ =
      readDSAParams f k' ⟨0x0a :: rest, some chRParen⟩ := by
  simp only [readDSAParams]
  rw [readParameter_ws _ _ _ (by decide), readParameter_export t v rest _ ht]
  simp [ha]

theorem readDSAParams_end (f : Nat) (k : DsaPriv) (rest : Bytes) (l : Option UInt8) :
    readDSAParams (f + 1) k ⟨0x0a :: 0x20 :: 0x20 :: 0x20 :: 0x20 :: 0x20 :: 0x20 :: 0x29 :: rest, l⟩ =
      .done (some k, ⟨0x29 :: rest, none⟩) := by
  have hsp : isWhitespace 0x20 = true := by decide
  simp only [readDSAParams, readParameter]
  rw [expect_ws _ _ _ _ (by decide), expect_ws _ _ _ _ hsp, expect_ws _ _ _ _ hsp, expect_ws _ _ _ _ hsp,
    expect_ws _ _ _ _ hsp, expect_ws _ _ _ _ hsp, expect_ws _ _ _ _ hsp,
    expect_miss 0x29 chLParen _ _ (by decide) (by decide)]
  simp [ParamRes.stop]

theorem exportDSAPrivateKey_eq (k : DsaPriv) (rest : Bytes) :
    exportDSAPrivateKey k ++ rest =
      0x20 :: 0x20 :: 0x20 :: 0x20 :: 0x20 :: 0x20 :: 0x28 :: 0x64 :: 0x73 :: 0x61 :: 0x0a ::
        (exportParameter [0x70] k.p ++ (exportParameter [0x71] k.q ++ (exportParameter [0x67] k.g ++
          (exportParameter [0x79] k.y ++ (exportParameter [0x78] k.x ++
            (0x20 :: 0x20 :: 0x20 :: 0x20 :: 0x20 :: 0x20 :: 0x29 :: 0x0a :: rest)))))) := by
  simp [exportDSAPrivateKey, strBytes]

theorem exportParameter_length_pos (t : Bytes) (v : Option Int) : 0 < (exportParameter t v).length := by
  simp [exportParameter, strBytes]

/-- `(dsa (p #…#) … (x #…#))` is read back as the key -/
theorem readDSAPrivateKey_export (k : DsaPriv) (rest : Bytes) (l : Option UInt8) :
    readDSAPrivateKey ⟨exportDSAPrivateKey k ++ rest, l⟩ =
      .done ((some k, true), ⟨0x0a :: rest, some chRParen⟩) := by
  rw [exportDSAPrivateKey_eq]
  have hsp : isWhitespace 0x20 = true := by decide
  simp only [readDSAPrivateKey]
  rw [expect_ws _ _ _ _ hsp, expect_ws _ _ _ _ hsp, expect_ws _ _ _ _ hsp, expect_ws _ _ _ _ hsp,
    expect_ws _ _ _ _ hsp, expect_ws _ _ _ _ hsp]
  rw [show (0x28 : UInt8) = chLParen from rfl, expect_hit chLParen _ _ (by decide)]
  have hsym := fun tl => readValue_sym 0x64 [0x73, 0x61] 0x0a tl (some chLParen) (by decide) (by decide) (by decide)
  simp only [List.cons_append, List.nil_append] at hsym
  simp only [readSymbolAndExpect_of _ _ _ _ (hsym _), Run.bind_done]
  -- the loop: five parameters, then the closing parenthesis
  generalize hlen : (Rd.mk (0x0a :: (exportParameter [0x70] k.p ++ (exportParameter [0x71] k.q ++
      (exportParameter [0x67] k.g ++ (exportParameter [0x79] k.y ++ (exportParameter [0x78] k.x ++
        (0x20 :: 0x20 :: 0x20 :: 0x20 :: 0x20 :: 0x20 :: 0x29 :: 0x0a :: rest))))))) none).inp.length + 1 = fuel
  have hfuel : ∃ f, fuel = f + 6 := by
    refine ⟨fuel - 6, ?_⟩
    have h1 := exportParameter_length_pos [0x70] k.p
    have h2 := exportParameter_length_pos [0x71] k.q
    have h3 := exportParameter_length_pos [0x67] k.g
    have h4 := exportParameter_length_pos [0x79] k.y
    have h5 := exportParameter_length_pos [0x78] k.x
    simp only [List.length_cons, List.length_append] at hlen
    omega
  obtain ⟨f, rfl⟩ := hfuel
  rw [readDSAParams_step (f + 5) {} { p := k.p } 0x70 k.p _ _ (by decide) (by rfl)]
  rw [readDSAParams_step (f + 4) _ { p := k.p, q := k.q } 0x71 k.q _ _ (by decide) (by rfl)]
  rw [readDSAParams_step (f + 3) _ { p := k.p, q := k.q, g := k.g } 0x67 k.g _ _ (by decide) (by rfl)]
  rw [readDSAParams_step (f + 2) _ { p := k.p, q := k.q, g := k.g, y := k.y } 0x79 k.y _ _ (by decide) (by rfl)]
  rw [readDSAParams_step (f + 1) _ { p := k.p, q := k.q, g := k.g, y := k.y, x := k.x } 0x78 k.x _ _ (by decide) (by rfl)]
  rw [readDSAParams_end f]
  simp only [Run.bind_done]
  rw [show (0x29 : UInt8) = chRParen from rfl, expect_hit chRParen _ _ (by decide)]
  cases k
  simp [strBytes]

end Otr
