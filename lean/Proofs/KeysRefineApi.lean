/-
  Proofs.KeysRefineApi — the refinement of Proofs.KeysRefine combined with the panic-freedom of Proofs.NoPanic:
  every API call from a state satisfying `Inv` ends, and every sequence of API calls from a fresh conversation
  ends; the corollaries C19 (bounds), C05 (no replay short of a completed key exchange) and C09 (provenance of
  the reveal queue) for ALL API call sequences from a fresh conversation.
  (Separate from Proofs.KeysRefine because Proofs.NoPanic can not be imported together with Proofs.Ratchet.)
-/
import Proofs.KeysRefine
import Proofs.NoPanic
set_option linter.unusedSimpArgs false
set_option linter.unusedVariables false
namespace Otr

/-- the same from the invariant of Proofs.NoPanic: the call ends, `Inv` holds again, and the keys moved along a
    history -/
theorem apiCall_keys_refine_inv (K : Crypto) (hK : CryptoOK K) (call : ApiCall) (s : MState)
    (h : Inv K s.conv) (hc : AkeClean s.conv) :
    ∃ r s', runM (call.run K) s = .ok (r, s') ∧ Inv K s'.conv ∧ AkeClean s'.conv ∧
      ∃ n, KHist K n s.conv.keys s'.conv.keys := by
  have hw := apiCall_inv K hK call s h
  unfold ConvData.wp at hw
  rw [run'_eq_runM] at hw
  cases hr : runM (call.run K) s with
  | panic site => rw [hr] at hw; exact hw.elim
  | ok v =>
    obtain ⟨r, s'⟩ := v
    rw [hr] at hw
    obtain ⟨h1, h2⟩ := apiCall_keys_refine K call s s' r hc hr
    exact ⟨r, s', rfl, hw, h1, h2⟩

theorem akeClean_fresh (version : Option Version) (policies : Policies) (keys : List DsaPub) (fragmentSize : Nat)
    (errHandler : Bool) (friendlyQuery : Bytes) (ourTag : Nat) :
    AkeClean (freshConv version policies keys fragmentSize errHandler friendlyQuery ourTag) :=
  fun a ha => nomatch ha

/-- **the refinement for whole API histories.**  Every sequence of API calls from a fresh conversation (any
    policies, long-term keys, fragment size, randomness and signing tapes, clock values) runs to the end without
    panic, and the key-management context of the final conversation is reached from the empty context `{}` by a
    history of key-management steps and session boundaries. -/
theorem api_sequence_keys_refine (K : Crypto) (hK : CryptoOK K) (version : Option Version) (policies : Policies)
    (keys : List DsaPub) (fragmentSize : Nat) (errHandler : Bool) (friendlyQuery : Bytes) (ourTag : Nat)
    (steps : List ApiStep) :
    ∃ c', runApi K (freshConv version policies keys fragmentSize errHandler friendlyQuery ourTag) steps = .ok c' ∧
      Inv K c' ∧ AkeClean c' ∧ ∃ n, KHist K n {} c'.keys := by
  obtain ⟨c', hr, hi⟩ := api_sequence_no_panic_fresh K hK version policies keys fragmentSize errHandler
    friendlyQuery ourTag steps
  obtain ⟨hc, hn⟩ := runApi_keys_refine K steps _ c' (akeClean_fresh _ _ _ _ _ _ _) hr
  exact ⟨c', hr, hi, hc, hn⟩

/-- **C19 at the API level.**  After every prefix of every sequence of API calls from a fresh conversation the
    key-management context holds at most 4 counter entries and at most 4 MAC-history entries — across any number
    of sessions, key exchanges, `End`s and disconnects. -/
theorem api_c19_bounded (K : Crypto) (hK : CryptoOK K) (version : Option Version) (policies : Policies)
    (keys : List DsaPub) (fragmentSize : Nat) (errHandler : Bool) (friendlyQuery : Bytes) (ourTag : Nat)
    (steps : List ApiStep) (i : Nat) :
    ∃ c, runApi K (freshConv version policies keys fragmentSize errHandler friendlyQuery ourTag) (steps.take i)
        = .ok c ∧ c.keys.counters.length ≤ 4 ∧ c.keys.macHistory.length ≤ 4 := by
  obtain ⟨c, hr, -, -, n, hn⟩ := api_sequence_keys_refine K hK version policies keys fragmentSize errHandler
    friendlyQuery ourTag (steps.take i)
  have hb : (({} : Keys)).Bnd := .inr ⟨rfl, rfl, .inl rfl⟩
  exact ⟨c, hr, (hb.hist hn).lengths⟩

/-- **C05 at the API level.**  Let `c1` be the conversation after the calls `pre` and `c2` the one after the
    further calls `mid`, from a fresh conversation.  The key contexts of `c1` and `c2` are related by a history
    (the refinement).  If that history completes no key exchange (`KHistE`: steps, `End`, disconnect — in
    particular if it has no session boundary at all, `KHist K 0`), then whatever data message `(r, s, n)` had been
    accepted on the way to `c1` since its last boundary is refused at `c2`, and so is every older counter of the
    pair. -/
theorem api_c05_no_replay_within_session (K : Crypto) (hK : CryptoOK K) (version : Option Version)
    (policies : Policies) (keys : List DsaPub) (fragmentSize : Nat) (errHandler : Bool) (friendlyQuery : Bytes)
    (ourTag : Nat) (pre mid : List ApiStep) :
    ∃ c1 c2,
      runApi K (freshConv version policies keys fragmentSize errHandler friendlyQuery ourTag) pre = .ok c1 ∧
      runApi K c1 mid = .ok c2 ∧
      runApi K (freshConv version policies keys fragmentSize errHandler friendlyQuery ourTag) (pre ++ mid) = .ok c2 ∧
      (∃ n, KHist K n c1.keys c2.keys) ∧
      ((KHistE K c1.keys c2.keys ∨ KHist K 0 c1.keys c2.keys) →
        ∀ (k k1 : Keys) (r s n m : Nat), k.accepts K r s n → k.AcceptedInto K r s n k1 →
          KSteps' K k1 c1.keys → m ≤ n → ¬ c2.keys.accepts K r s m) := by
  obtain ⟨c1, h1, -, hc1, -⟩ := api_sequence_keys_refine K hK version policies keys fragmentSize errHandler
    friendlyQuery ourTag pre
  obtain ⟨c2, h2, -, -, -⟩ := api_sequence_keys_refine K hK version policies keys fragmentSize errHandler
    friendlyQuery ourTag (pre ++ mid)
  have h12 : runApi K c1 mid = .ok c2 := by
    rw [runApi_append, h1] at h2
    exact h2
  obtain ⟨hn, hrest⟩ := runApi_c05_no_replay K mid c1 c2 hc1 h12
  exact ⟨c1, c2, h1, h12, h2, hn, hrest⟩

/-- **C09 (provenance) at the API level.**  In every conversation reached from a fresh one by API calls, every key
    waiting in the reveal queue is the key of an entry the MAC history had in some earlier state of the history of
    the key-management context: only receiving MAC keys that were recorded are ever disclosed, also across key
    exchanges (`akeHasFinished` carries the queue and the history's keys over), `End` and disconnects. -/
theorem api_c09_queue_provenance (K : Crypto) (hK : CryptoOK K) (version : Option Version) (policies : Policies)
    (keys : List DsaPub) (fragmentSize : Nat) (errHandler : Bool) (friendlyQuery : Bytes) (ourTag : Nat)
    (steps : List ApiStep) :
    ∃ c, runApi K (freshConv version policies keys fragmentSize errHandler friendlyQuery ourTag) steps = .ok c ∧
      ∀ b ∈ c.keys.oldMACKeys, ∃ n1 n2 k1, KHist K n1 {} k1 ∧ KHist K n2 k1 c.keys ∧ ∃ u ∈ k1.macHistory, u.key = b := by
  obtain ⟨c, hr, -, -, -⟩ := api_sequence_keys_refine K hK version policies keys fragmentSize errHandler
    friendlyQuery ourTag steps
  exact ⟨c, hr, runApi_c09_queue_provenance K steps _ c (akeClean_fresh _ _ _ _ _ _ _) rfl hr⟩

end Otr
