/-
  Proofs.ConvLife — conversation life cycle (C18), instance tags (C15), version choice (C16) and
  silent states (C03) of the conversation model `Otr.Conv`.

  Part 0  monad calculus for the execution monad `M` (reusable):
            runM, bindM, catchM, simp lemmas runM_* (pure, bind, map, get, set, modify, getc, modc, setc,
            ev, mism, now, goPanic, throw, tryCatch, attempt, ite, dite, the literal events),
            frames: class Frame, Stable R x, Keeps π, Stable.* closure lemmas, tactic `stable [lemmas]`;
            randomness: EnvStep, randRead_run, randomInto_run, randRead_stable.
  Part A  life cycle: akeHasFinished_run / _none / _panic_iff / _spec, sendKept + *_sendFrame,
            endSession_notEncrypted / _encrypted / _spec, endedConv, endSession_encrypted_run /
            _notEncrypted_run / _forgets (repaired code), processDisconnectedTLV_run,
            startAuthenticate_question_nul / _too_long / _bad_question, retransmitOrReveal,
            retransmitAfterCompletedExchange_skip / _skip_run / _same / _completed (repaired code),
            send_finished, send_requireEncryption, send_disabled, receive_disabled, send_plain,
            send_plain_roundtrip.
  Part B  instance tags: generateInstanceTag_noop / _run / _tag, verifyInstanceTags_run (exact) and its
            corollaries _frame, _adopt, _foreign, _otherInstance, _malformed, _ok;
            parseMessageHeader_v3 / _v3' / _v3_short, messageHeader_v3, header_roundtrip.
  Part C  version choice: chooseVersion_sound / _highest / _none, commitToVersionFrom_run (exact),
            _sticky, _unsupported, _choice, VersionOK, commitToVersionFrom_versionOK;
            checkVersion_committed / _unsupported / _forbidden / _short / _ok / _state / _versionOK.
-/
import Otr.Conv
import Proofs.Bytes
import Proofs.Codec
import Proofs.Wire
namespace Otr

/-! ## Part 0: monad calculus for `M` -/
section Calculus

/-- outcome of running an `M` computation: panic, or (value/thrown error, final state) -/
abbrev Out (α : Type) := Res (Except Err α × MState)

/-- run `x` from the state `s` -/
def runM {α} (x : M α) (s : MState) : Out α := (ExceptT.run x).run s

/-- sequencing of outcomes: continue on a normal result, propagate a throw (state kept) or a panic -/
def bindM {α β} (r : Out α) (f : α → MState → Out β) : Out β :=
  match r with
  | .ok (.ok a, s) => f a s
  | .ok (.error e, s) => .ok (.error e, s)
  | .panic p => .panic p

/-- `tryCatch` on outcomes: the handler runs from the state at the throw -/
def catchM {α} (r : Out α) (h : Err → MState → Out α) : Out α :=
  match r with
  | .ok (.ok a, s) => .ok (.ok a, s)
  | .ok (.error e, s) => h e s
  | .panic p => .panic p

@[simp] theorem bindM_ok {α β} (a : α) (s : MState) (f : α → MState → Out β) :
    bindM (.ok (.ok a, s)) f = f a s := rfl
@[simp] theorem bindM_error {α β} (e : Err) (s : MState) (f : α → MState → Out β) :
    bindM (.ok (.error e, s)) f = .ok (.error e, s) := rfl
@[simp] theorem bindM_panic {α β} (p : String) (f : α → MState → Out β) :
    bindM (.panic p) f = .panic p := rfl
@[simp] theorem catchM_ok {α} (a : α) (s : MState) (h : Err → MState → Out α) :
    catchM (.ok (.ok a, s)) h = .ok (.ok a, s) := rfl
@[simp] theorem catchM_error {α} (e : Err) (s : MState) (h : Err → MState → Out α) :
    catchM (.ok (.error e, s)) h = h e s := rfl
@[simp] theorem catchM_panic {α} (p : String) (h : Err → MState → Out α) :
    catchM (.panic p) h = .panic p := rfl

@[simp] theorem runM_pure {α} (a : α) (s : MState) : runM (pure a : M α) s = .ok (.ok a, s) := rfl

@[simp] theorem runM_bind {α β} (x : M α) (f : α → M β) (s : MState) :
    runM (x >>= f) s = bindM (runM x s) (fun a s' => runM (f a) s') := by
  show (ExceptT.run (x >>= f)).run s = _
  simp only [ExceptT.run_bind]
  show (do let r ← (ExceptT.run x).run s; _) = _
  unfold bindM runM
  cases h : (ExceptT.run x).run s with
  | panic p => rfl
  | ok r =>
    obtain ⟨r, s'⟩ := r
    cases r <;> rfl

@[simp] theorem runM_map {α β} (g : α → β) (x : M α) (s : MState) :
    runM (g <$> x) s = bindM (runM x s) (fun a s' => .ok (.ok (g a), s')) := by
  show (ExceptT.run (g <$> x)).run s = _
  unfold bindM runM
  show (do let r ← (ExceptT.run x).run s; _) = _
  cases h : (ExceptT.run x).run s with
  | panic p => rfl
  | ok r =>
    obtain ⟨r, s'⟩ := r
    cases r <;> rfl

@[simp] theorem runM_get (s : MState) : runM (get : M MState) s = .ok (.ok s, s) := rfl
@[simp] theorem runM_set (t s : MState) : runM (set t : M PUnit) s = .ok (.ok ⟨⟩, t) := rfl
@[simp] theorem runM_modify (f : MState → MState) (s : MState) :
    runM (modify f : M PUnit) s = .ok (.ok ⟨⟩, f s) := rfl
@[simp] theorem runM_getc (s : MState) : runM getc s = .ok (.ok s.conv, s) := rfl
@[simp] theorem runM_modc (f : Conv → Conv) (s : MState) :
    runM (modc f) s = .ok (.ok (), { s with conv := f s.conv }) := rfl
@[simp] theorem runM_setc (c : Conv) (s : MState) :
    runM (setc c) s = .ok (.ok (), { s with conv := c }) := rfl
@[simp] theorem runM_ev (e : String) (s : MState) :
    runM (ev e) s = .ok (.ok (), { s with events := s.events ++ [e] }) := rfl
@[simp] theorem runM_mism (e : String) (s : MState) :
    runM (mism e) s = .ok (.ok (), { s with mismatch := s.mismatch ++ [e] }) := rfl
@[simp] theorem runM_now (s : MState) : runM now s = .ok (.ok s.env.now, s) := rfl
@[simp] theorem runM_goPanic {α} (site : String) (s : MState) :
    runM (goPanic site : M α) s = .panic site := rfl
@[simp] theorem runM_throw {α} (e : Err) (s : MState) :
    runM (throw e : M α) s = .ok (.error e, s) := rfl

@[simp] theorem runM_tryCatch {α} (x : M α) (h : Err → M α) (s : MState) :
    runM (tryCatch x h) s = catchM (runM x s) (fun e s' => runM (h e) s') := by
  show (ExceptT.run (tryCatch x h)).run s = _
  unfold catchM runM
  show (do let r ← (ExceptT.run x).run s; _) = _
  cases h : (ExceptT.run x).run s with
  | panic p => rfl
  | ok r =>
    obtain ⟨r, s'⟩ := r
    cases r <;> rfl

/-- the model's idiom for "run and capture the error as a value": never throws -/
theorem runM_attempt {α β} (x : M α) (g : α → β) (s : MState) :
    runM (tryCatch (do let a ← x; pure (Except.ok (g a))) (fun e => pure (Except.error e))) s =
      match runM x s with
      | .ok (.ok a, s') => .ok (.ok (.ok (g a)), s')
      | .ok (.error e, s') => .ok (.ok (.error e), s')
      | .panic p => .panic p := by
  rw [runM_tryCatch, runM_bind]
  cases runM x s with
  | panic p => rfl
  | ok v =>
    obtain ⟨v, s'⟩ := v
    cases v <;> rfl

theorem runM_ite {α} (c : Prop) [Decidable c] (x y : M α) (s : MState) :
    runM (if c then x else y) s = if c then runM x s else runM y s := by
  split <;> rfl

theorem runM_dite {α} (c : Prop) [Decidable c] (x : c → M α) (y : ¬ c → M α) (s : MState) :
    runM (dite c x y) s = if h : c then runM (x h) s else runM (y h) s := by
  split <;> rfl

theorem runM_msgEvent (n : Nat) (s : MState) :
    runM (msgEvent n) s = .ok (.ok (), { s with events := s.events ++ [s!"msg:{n}"] }) := rfl
theorem runM_secEvent (n : Nat) (s : MState) :
    runM (secEvent n) s = .ok (.ok (), { s with events := s.events ++ [s!"sec:{n}"] }) := rfl

/-! the events used below, as literal strings -/
@[simp] theorem runM_secGoneInsecure (s : MState) :
    runM (secEvent secGoneInsecure) s = .ok (.ok (), { s with events := s.events ++ ["sec:0"] }) := rfl
@[simp] theorem runM_secGoneSecure (s : MState) :
    runM (secEvent secGoneSecure) s = .ok (.ok (), { s with events := s.events ++ ["sec:1"] }) := rfl
@[simp] theorem runM_secStillSecure (s : MState) :
    runM (secEvent secStillSecure) s = .ok (.ok (), { s with events := s.events ++ ["sec:2"] }) := rfl
@[simp] theorem runM_evEncryptionRequired (s : MState) :
    runM (msgEvent evEncryptionRequired) s = .ok (.ok (), { s with events := s.events ++ ["msg:0"] }) := rfl
@[simp] theorem runM_evEncryptionError (s : MState) :
    runM (msgEvent evEncryptionError) s = .ok (.ok (), { s with events := s.events ++ ["msg:1"] }) := rfl
@[simp] theorem runM_evConnectionEnded (s : MState) :
    runM (msgEvent evConnectionEnded) s = .ok (.ok (), { s with events := s.events ++ ["msg:2"] }) := rfl
@[simp] theorem runM_evMalformed (s : MState) :
    runM (msgEvent evMalformed) s = .ok (.ok (), { s with events := s.events ++ ["msg:9"] }) := rfl
@[simp] theorem runM_evOtherInstance (s : MState) :
    runM (msgEvent evOtherInstance) s = .ok (.ok (), { s with events := s.events ++ ["msg:15"] }) := rfl

/-! ### frames: relations between start and final state that every run respects -/

/-- a reflexive, transitive relation on states -/
class Frame (R : MState → MState → Prop) : Prop where
  refl : ∀ s, R s s
  trans : ∀ {a b c}, R a b → R b c → R a c

/-- every non-panicking run of `x` (normal or throwing) relates the start state to the final state by `R` -/
def Stable {α} (R : MState → MState → Prop) (x : M α) : Prop :=
  ∀ s r s', runM x s = .ok (r, s') → R s s'

/-- the frame "the component `π` of the state is unchanged" -/
def Keeps {β} (π : MState → β) : MState → MState → Prop := fun s s' => π s' = π s

instance {β} (π : MState → β) : Frame (Keeps π) where
  refl _ := rfl
  trans h1 h2 := h2.trans h1

/-- conjunction of two frames -/
instance {R Q : MState → MState → Prop} [Frame R] [Frame Q] : Frame (fun s s' => R s s' ∧ Q s s') where
  refl s := ⟨Frame.refl s, Frame.refl s⟩
  trans h1 h2 := ⟨Frame.trans h1.1 h2.1, Frame.trans h1.2 h2.2⟩

section StableLemmas
variable {R : MState → MState → Prop} [Frame R] {α β : Type}

theorem Stable.pure (a : α) : Stable R (pure a : M α) := by
  intro s r s' h; simp only [runM_pure, Res.ok.injEq, Prod.mk.injEq] at h; rw [← h.2]; exact Frame.refl s

theorem Stable.throw (e : Err) : Stable R (throw e : M α) := by
  intro s r s' h; simp only [runM_throw, Res.ok.injEq, Prod.mk.injEq] at h; rw [← h.2]; exact Frame.refl s

omit [Frame R] in
theorem Stable.goPanic (site : String) : Stable R (goPanic site : M α) := by
  intro s r s' h; simp only [runM_goPanic] at h; cases h

theorem Stable.getc : Stable R getc := by
  intro s r s' h; simp only [runM_getc, Res.ok.injEq, Prod.mk.injEq] at h; rw [← h.2]; exact Frame.refl s

theorem Stable.get : Stable R (get : M MState) := by
  intro s r s' h; simp only [runM_get, Res.ok.injEq, Prod.mk.injEq] at h; rw [← h.2]; exact Frame.refl s

theorem Stable.now : Stable R now := by
  intro s r s' h; simp only [runM_now, Res.ok.injEq, Prod.mk.injEq] at h; rw [← h.2]; exact Frame.refl s

omit [Frame R] in
theorem Stable.modify (f : MState → MState) (hf : ∀ s, R s (f s)) : Stable R (modify f : M PUnit) := by
  intro s r s' h; simp only [runM_modify, Res.ok.injEq, Prod.mk.injEq] at h; rw [← h.2]; exact hf s

omit [Frame R] in
theorem Stable.modc (f : Conv → Conv) (hf : ∀ s, R s { s with conv := f s.conv }) : Stable R (modc f) :=
  Stable.modify _ hf

omit [Frame R] in
theorem Stable.ev (e : String) (hf : ∀ s, R s { s with events := s.events ++ [e] }) : Stable R (ev e) :=
  Stable.modify _ hf

omit [Frame R] in
theorem Stable.mism (e : String) (hf : ∀ s, R s { s with mismatch := s.mismatch ++ [e] }) : Stable R (mism e) :=
  Stable.modify _ hf

theorem Stable.bind {x : M α} {f : α → M β} (hx : Stable R x) (hf : ∀ a, Stable R (f a)) :
    Stable R (x >>= f) := by
  intro s r s' h
  rw [runM_bind] at h
  cases hx' : runM x s with
  | panic p => rw [hx'] at h; cases h
  | ok v =>
    obtain ⟨v, s1⟩ := v
    rw [hx'] at h
    have h1 := hx s v s1 hx'
    cases v with
    | error e =>
      simp only [bindM_error, Res.ok.injEq, Prod.mk.injEq] at h
      rw [← h.2]; exact h1
    | ok a =>
      simp only [bindM_ok] at h
      exact Frame.trans h1 (hf a s1 r s' h)

omit [Frame R] in
theorem Stable.map {x : M α} (g : α → β) (hx : Stable R x) : Stable R (g <$> x) := by
  intro s r s' h
  rw [runM_map] at h
  cases hx' : runM x s with
  | panic p => rw [hx'] at h; cases h
  | ok v =>
    obtain ⟨v, s1⟩ := v
    rw [hx'] at h
    have h1 := hx s v s1 hx'
    cases v with
    | error e => simp only [bindM_error, Res.ok.injEq, Prod.mk.injEq] at h; rw [← h.2]; exact h1
    | ok a => simp only [bindM_ok, Res.ok.injEq, Prod.mk.injEq] at h; rw [← h.2]; exact h1

theorem Stable.tryCatch {x : M α} {h : Err → M α} (hx : Stable R x) (hh : ∀ e, Stable R (h e)) :
    Stable R (tryCatch x h) := by
  intro s r s' hr
  rw [runM_tryCatch] at hr
  cases hx' : runM x s with
  | panic p => rw [hx'] at hr; cases hr
  | ok v =>
    obtain ⟨v, s1⟩ := v
    rw [hx'] at hr
    have h1 := hx s v s1 hx'
    cases v with
    | ok a =>
      simp only [catchM_ok, Res.ok.injEq, Prod.mk.injEq] at hr
      rw [← hr.2]; exact h1
    | error e =>
      simp only [catchM_error] at hr
      exact Frame.trans h1 (hh e s1 r s' hr)

omit [Frame R] in
theorem Stable.ite {c : Prop} [Decidable c] {x y : M α} (hx : Stable R x) (hy : Stable R y) :
    Stable R (if c then x else y) := by
  split <;> assumption

/-- a loop body that is stable makes the whole `for` loop stable -/
theorem Stable.forIn {γ σ : Type} (l : List γ) (init : σ) (f : γ → σ → M (ForInStep σ))
    (hf : ∀ a b, Stable R (f a b)) : Stable R (forIn l init f) := by
  induction l generalizing init with
  | nil => exact Stable.pure _
  | cons a l ih =>
    rw [List.forIn_cons]
    refine Stable.bind (hf a init) ?_
    intro r
    cases r with
    | done b => exact Stable.pure _
    | yield b => exact ih b

end StableLemmas

/-- structural leaves and combinators of a `Stable` goal (side conditions of `modc`/`ev`/`mism` by `rfl`) -/
macro "stable_core" : tactic => `(tactic| first
  | exact Stable.pure _ | exact Stable.throw _ | exact Stable.goPanic _
  | exact Stable.getc | exact Stable.get | exact Stable.now
  | exact Stable.modc _ (fun _ => rfl) | exact Stable.mism _ (fun _ => rfl) | exact Stable.ev _ (fun _ => rfl)
  | with_reducible apply Stable.bind | with_reducible apply Stable.tryCatch
  | with_reducible apply Stable.ite | with_reducible apply Stable.map
  | with_reducible apply Stable.forIn)

/-- `stable [lemmas]`: decompose a `Stable R x` goal along the structure of `x`, closing calls to already
    treated functions with the given lemmas -/
syntax "stable" "[" term,* "]" : tactic
macro_rules
  | `(tactic| stable [$ls,*]) => do
    let tacs ← ls.getElems.mapM fun l => `(tactic| with_reducible apply $l)
    `(tactic| repeat' (first | stable_core $[| $tacs:tactic]* | with_reducible intro _ | split | dsimp only))

end Calculus

/-! ## randomness reads -/

/-- `e'` is `e` after some recorded reads have been consumed (clock and signing oracle untouched) -/
def EnvStep (e e' : Env) : Prop := e'.now = e.now ∧ e'.sigs = e.sigs ∧ ∃ k, e'.rand = e.rand.drop k

theorem EnvStep.refl (e : Env) : EnvStep e e := ⟨rfl, rfl, 0, by simp⟩
theorem EnvStep.trans {a b c : Env} (h1 : EnvStep a b) (h2 : EnvStep b c) : EnvStep a c := by
  obtain ⟨n1, g1, k1, r1⟩ := h1
  obtain ⟨n2, g2, k2, r2⟩ := h2
  refine ⟨by rw [n2, n1], by rw [g2, g1], k1 + k2, ?_⟩
  rw [r2, r1, List.drop_drop]

theorem randReadAux_run (fuel n : Nat) (acc : Bytes) (s : MState) :
    ∃ r env' mm', runM (randReadAux fuel n acc) s = .ok (.ok r, { s with env := env', mismatch := mm' }) ∧
      EnvStep s.env env' ∧ (∀ b, r = some b → b.length = n) := by
  induction fuel generalizing acc s with
  | zero => exact ⟨none, s.env, s.mismatch ++ ["rand-fuel"], by simp [randReadAux], EnvStep.refl _, by simp⟩
  | succ fuel ih =>
    unfold randReadAux
    by_cases hl : acc.length = n
    · exact ⟨some acc, s.env, s.mismatch, by simp [hl], EnvStep.refl _, by simp [hl]⟩
    · simp only [hl, ↓reduceIte, runM_bind, runM_get, bindM_ok]
      have step1 : ∀ (x : Option Bytes) rest, s.env.rand = x :: rest →
          EnvStep s.env { rand := rest, sigs := s.env.sigs, now := s.env.now } :=
        fun _ rest h => ⟨rfl, rfl, 1, by rw [h]; rfl⟩
      split
      · exact ⟨none, s.env, _, by simp only [runM_bind, runM_mism, bindM_ok, runM_pure]; rfl,
          EnvStep.refl _, by simp⟩
      · rename_i rest h
        exact ⟨none, _, s.mismatch, by simp only [runM_bind, runM_set, bindM_ok, runM_pure],
          step1 _ rest h, by simp⟩
      · rename_i b rest h
        simp only [runM_bind, runM_set, bindM_ok]
        split
        · exact ⟨none, _, _, by simp only [runM_bind, runM_mism, bindM_ok, runM_pure]; rfl,
            step1 _ rest h, by simp⟩
        · split
          · exact ⟨none, _, _, by simp only [runM_bind, runM_mism, bindM_ok, runM_pure]; rfl,
              step1 _ rest h, by simp⟩
          · obtain ⟨r, env', mm', hr, hs, hb⟩ := ih (acc ++ b)
              { conv := s.conv, env := { rand := rest, sigs := s.env.sigs, now := s.env.now },
                events := s.events, mismatch := s.mismatch }
            exact ⟨r, env', mm', hr, (step1 _ rest h).trans hs, hb⟩

theorem randRead_run (n : Nat) (s : MState) :
    ∃ r env' mm', runM (randRead n) s = .ok (.ok r, { s with env := env', mismatch := mm' }) ∧
      EnvStep s.env env' ∧ (∀ b, r = some b → b.length = n) := by
  unfold randRead
  split
  · rename_i h
    exact ⟨some [], s.env, s.mismatch, rfl, EnvStep.refl _, by simp [h]⟩
  · exact randReadAux_run _ _ _ _

/-- `randomInto n`: returns exactly `n` bytes or throws `shortRandom`; touches only the reads and diagnostics -/
theorem randomInto_run (n : Nat) (s : MState) :
    ∃ env' mm', EnvStep s.env env' ∧
      ((∃ b, b.length = n ∧ runM (randomInto n) s = .ok (.ok b, { s with env := env', mismatch := mm' })) ∨
       runM (randomInto n) s = .ok (.error .shortRandom, { s with env := env', mismatch := mm' })) := by
  obtain ⟨r, env', mm', hr, hs, hb⟩ := randRead_run n s
  refine ⟨env', mm', hs, ?_⟩
  unfold randomInto
  simp only [runM_bind, hr, bindM_ok]
  cases r with
  | none => right; rfl
  | some b => left; exact ⟨b, hb b rfl, rfl⟩

/-! ## A. life cycle (C18) -/

theorem beq_encrypted (m : MsgState) : (m == .encrypted) = decide (m = .encrypted) := by
  cases m <;> rfl

/-- A1 (exact): `akeHasFinished` from a state with an AKE context -/
theorem akeHasFinished_run (K : Crypto) (s : MState) (a : Ake) (ha : s.conv.ake = some a) :
    ∃ r env' mm', EnvStep s.env env' ∧
      runM (akeHasFinished K) s = .ok (.ok (a.keys.generateNewDHKeyPair K r).2,
        { conv := { s.conv with
                      keys := ({ a.keys with oldMACKeys := a.keys.oldMACKeys ++
                        (s.conv.keys.oldMACKeys ++ s.conv.keys.macHistory.map (fun u : MacUse => u.key)) }.generateNewDHKeyPair K r).1
                      ssid := if s.conv.msgState = .encrypted then a.ssid else s.conv.ssid
                      sentRevealSig := if s.conv.msgState = .encrypted then a.sentRevealSig else s.conv.sentRevealSig
                      ake := some a.wiped
                      lastMessageStateChange := some s.env.now
                      msgState := .encrypted }
          env := env'
          events := s.events ++ [if s.conv.msgState = .encrypted then "sec:2" else "sec:1"]
          mismatch := mm' }) := by
  unfold akeHasFinished
  simp only [getAke, ha, modAke, runM_bind, runM_getc, runM_modc, runM_now, bindM_ok, runM_pure, Option.map]
  generalize hs1 : MState.mk _ s.env s.events s.mismatch = s1
  obtain ⟨r, env', mm', hr, hs, -⟩ := randRead_run 40 s1
  subst hs1
  refine ⟨r, env', mm', hs, ?_⟩
  rw [hr]
  cases hm : s.conv.msgState <;> cases r <;> simp [Keys.generateNewDHKeyPair]


/-- A1: `akeHasFinished` panics exactly when there is no AKE context (nil `c.ake`) -/
theorem akeHasFinished_none (K : Crypto) (s : MState) (h : s.conv.ake = none) :
    runM (akeHasFinished K) s = .panic "nil c.ake" := by
  simp [akeHasFinished, getAke, h]

theorem akeHasFinished_panic_iff (K : Crypto) (s : MState) :
    (∃ p, runM (akeHasFinished K) s = .panic p) ↔ s.conv.ake = none := by
  constructor
  · intro ⟨p, hp⟩
    cases ha : s.conv.ake with
    | none => rfl
    | some a =>
      obtain ⟨r, env', mm', -, h⟩ := akeHasFinished_run K s a ha
      rw [h] at hp; cases hp
  · intro h; exact ⟨_, akeHasFinished_none K s h⟩

/-- A1, in the form asked: whenever `akeHasFinished` does not panic it does not throw either, the conversation
    is `encrypted`, stamped with the current time, and exactly one security event was appended:
    GoneSecure if the conversation was not encrypted before, StillSecure if it was -/
theorem akeHasFinished_spec (K : Crypto) (s : MState) (r : Except Err (Option Err)) (s' : MState)
    (hr : runM (akeHasFinished K) s = .ok (r, s')) :
    (∃ e, r = .ok e) ∧ s'.conv.msgState = .encrypted ∧ s'.conv.lastMessageStateChange = some s.env.now ∧
    (s.conv.msgState ≠ .encrypted → s'.events = s.events ++ ["sec:1"]) ∧
    (s.conv.msgState = .encrypted → s'.events = s.events ++ ["sec:2"]) := by
  cases ha : s.conv.ake with
  | none => rw [akeHasFinished_none K s ha] at hr; cases hr
  | some a =>
    obtain ⟨r0, env', mm', -, h⟩ := akeHasFinished_run K s a ha
    rw [h] at hr
    simp only [Res.ok.injEq, Prod.mk.injEq] at hr
    obtain ⟨hr1, hr2⟩ := hr
    subst hr2
    refine ⟨⟨_, hr1.symm⟩, rfl, rfl, fun hne => ?_, fun he => ?_⟩
    · simp only [hne, ↓reduceIte]
    · simp only [he, ↓reduceIte]

/-- `generateNewDHKeyPair` does not touch the reveal queue -/
theorem generateNewDHKeyPair_oldMACKeys (K : Crypto) (k : Keys) (r : Option Bytes) :
    (k.generateNewDHKeyPair K r).1.oldMACKeys = k.oldMACKeys := by
  cases r <;> rfl

/-- repaired code, exact form: the reveal queue after `akeHasFinished` is the queue of the AKE context
    followed by the queue of the session that ends and by the MAC keys that session used to accept
    messages, in the order of its MAC history -/
theorem akeHasFinished_oldMACKeys (K : Crypto) (s : MState) (a : Ake) (ha : s.conv.ake = some a)
    (r : Except Err (Option Err)) (s' : MState) (hr : runM (akeHasFinished K) s = .ok (r, s')) :
    s'.conv.keys.oldMACKeys =
      a.keys.oldMACKeys ++ (s.conv.keys.oldMACKeys ++ s.conv.keys.macHistory.map (fun u : MacUse => u.key)) := by
  obtain ⟨r0, env', mm', -, h⟩ := akeHasFinished_run K s a ha
  rw [h] at hr
  simp only [Res.ok.injEq, Prod.mk.injEq] at hr
  rw [← hr.2]
  exact generateNewDHKeyPair_oldMACKeys K _ r0

/-- repaired code (C09): a key exchange that completes while a session exists loses no MAC key that
    is still to be disclosed — every key waiting in the reveal queue of the session that ends, and the
    key of every entry of its MAC history (the keys used to accept messages), is in the reveal queue
    of the new session, so the next data message discloses it -/
theorem akeHasFinished_carries_mac_keys (K : Crypto) (s : MState) (a : Ake) (ha : s.conv.ake = some a)
    (r : Except Err (Option Err)) (s' : MState) (hr : runM (akeHasFinished K) s = .ok (r, s')) :
    (∀ k ∈ s.conv.keys.oldMACKeys, k ∈ s'.conv.keys.oldMACKeys) ∧
    (∀ u ∈ s.conv.keys.macHistory, u.key ∈ s'.conv.keys.oldMACKeys) := by
  rw [akeHasFinished_oldMACKeys K s a ha r s' hr]
  refine ⟨fun k hk => ?_, fun u hu => ?_⟩
  · exact List.mem_append_right _ (List.mem_append_left _ hk)
  · exact List.mem_append_right _ (List.mem_append_right _ (List.mem_map_of_mem hu))

/-! ### frame of the sending path of a data message -/

/-- everything that generating and serialising a data message leaves alone: the events, the clock and
    signing oracle, and all of the conversation except `ourTag` (generated on first use), `keys`
    (counters, MAC keys), `heartbeatLastSent`, `mayRetransmit` and `resendMsgs` -/
def sendKept (s : MState) :=
  (s.events, s.env.now, s.env.sigs, s.conv.version, s.conv.msgState, s.conv.wsState,
   s.conv.lastMessageStateChange, s.conv.theirTag, s.conv.ssid, s.conv.ourKeys, s.conv.ourCurrentKey,
   s.conv.theirKey, s.conv.ake, s.conv.smp, s.conv.policies, s.conv.retransmitting, s.conv.injections,
   s.conv.fragmentSize, s.conv.fragCtx, s.conv.sentRevealSig, s.conv.friendlyQuery, s.conv.errHandler)

abbrev SendFrame : MState → MState → Prop := Keeps sendKept

theorem randRead_stable {R : MState → MState → Prop}
    (hR : ∀ (s : MState) env' mm', EnvStep s.env env' → R s { s with env := env', mismatch := mm' }) (n : Nat) :
    Stable R (randRead n) := by
  intro s r s' h
  obtain ⟨r0, env', mm', hr, hs, -⟩ := randRead_run n s
  rw [hr] at h
  simp only [Res.ok.injEq, Prod.mk.injEq] at h
  rw [← h.2]; exact hR s env' mm' hs

theorem randRead_sendFrame (n : Nat) : Stable SendFrame (randRead n) :=
  randRead_stable (fun s env' mm' h => by
    show sendKept _ = sendKept _
    simp only [sendKept, h.1, h.2.1]) n

theorem randomInto_sendFrame (n : Nat) : Stable SendFrame (randomInto n) := by
  unfold randomInto
  stable [randRead_sendFrame]

theorem generateInstanceTagAux_sendFrame (fuel : Nat) : Stable SendFrame (generateInstanceTagAux fuel) := by
  induction fuel with
  | zero => unfold generateInstanceTagAux; stable []
  | succ n ih => unfold generateInstanceTagAux; stable [randomInto_sendFrame, ih]

theorem generateInstanceTag_sendFrame : Stable SendFrame generateInstanceTag := by
  unfold generateInstanceTag
  stable [generateInstanceTagAux_sendFrame]

theorem messageHeader_sendFrame (t : Nat) : Stable SendFrame (messageHeader t) := by
  unfold messageHeader
  stable [generateInstanceTag_sendFrame]

theorem genDataMsgWithFlag_sendFrame (K : Crypto) (m : Bytes) (f : Nat) (tlvs : List Tlv) :
    Stable SendFrame (genDataMsgWithFlag K m f tlvs) := by
  unfold genDataMsgWithFlag encryptPlain resendLast
  stable [messageHeader_sendFrame]

theorem createSerializedDataMessage_sendFrame (K : Crypto) (m : Bytes) (f : Nat) (tlvs : List Tlv) :
    Stable SendFrame (createSerializedDataMessage K m f tlvs) := by
  unfold createSerializedDataMessage wrapMessageHeader updateLastSent fragEncode
  stable [messageHeader_sendFrame, genDataMsgWithFlag_sendFrame]

/-- A2, not encrypted (exact): nothing is sent, no event, only the state reset — which (repaired code)
    includes the SMP state in every message state, and the resend state unless it holds texts still
    waiting for a session to start (`mayRetransmit = .exact`) -/
theorem endSession_notEncrypted (K : Crypto) (s : MState) (h : s.conv.msgState ≠ .encrypted) :
    runM (endSession K) s = .ok (.ok ([], none),
      { s with conv := { s.conv with
          smp := {}
          resendMsgs := if s.conv.mayRetransmit = .exact then s.conv.resendMsgs else []
          mayRetransmit := if s.conv.mayRetransmit = .exact then .exact else .no
          lastMessageStateChange := none, ake := none, msgState := .plainText
          keys := { s.conv.keys with ourCur := none, ourPrev := none,
                                     theirCur := s.conv.keys.theirCur.map (fun _ => 0) } } }) := by
  unfold endSession
  by_cases he : s.conv.mayRetransmit = .exact <;> simp [beq_encrypted, h, he, smpWipe]


/-- A2, encrypted: whatever the data-message machinery does (it may fail; a panic is the only other outcome),
    the session ends in `plainText` with exactly one event, GoneInsecure -/
theorem endSession_encrypted (K : Crypto) (s : MState) (h : s.conv.msgState = .encrypted)
    (r : Except Err (List Bytes × Option Err)) (s' : MState) (hr : runM (endSession K) s = .ok (r, s')) :
    (∃ toSend err, r = .ok (toSend, err)) ∧
    s'.conv.msgState = .plainText ∧ s'.conv.ake = none ∧ s'.conv.lastMessageStateChange = none ∧
    s'.conv.keys.ourCur = none ∧ s'.conv.keys.ourPrev = none ∧ s'.conv.smp = {} ∧
    s'.events = s.events ++ ["sec:0"] ∧
    s'.conv.version = s.conv.version ∧ s'.conv.policies = s.conv.policies ∧ s'.conv.wsState = s.conv.wsState ∧
    s'.conv.theirTag = s.conv.theirTag ∧ s'.conv.theirKey = s.conv.theirKey ∧ s'.conv.ssid = s.conv.ssid ∧
    s'.conv.injections = s.conv.injections ∧ s'.conv.fragCtx = s.conv.fragCtx := by
  unfold endSession at hr
  simp only [runM_bind, runM_getc, bindM_ok, beq_encrypted, h, decide_true, ↓reduceIte, smpWipe, runM_modc,
    runM_tryCatch] at hr
  generalize hs1 : MState.mk _ s.env s.events s.mismatch = s1 at hr
  have hfr := createSerializedDataMessage_sendFrame K [] messageFlagIgnoreUnreadable
    [{ typ := tlvTypeDisconnected, len := 0, value := [] }] s1
  cases hx : runM (createSerializedDataMessage K [] messageFlagIgnoreUnreadable
      [{ typ := tlvTypeDisconnected, len := 0, value := [] }]) s1 with
  | panic p => rw [hx] at hr; cases hr
  | ok v =>
    obtain ⟨v, s2⟩ := v
    have hk := hfr v s2 hx
    subst hs1
    simp only [Keeps, sendKept, Prod.mk.injEq] at hk
    rw [hx] at hr
    cases v with
    | ok a =>
      simp only [bindM_ok, runM_pure, catchM_ok, runM_bind, runM_modc, runM_secGoneInsecure, Res.ok.injEq,
        Prod.mk.injEq] at hr
      obtain ⟨hr1, hr2⟩ := hr
      subst hr2
      refine ⟨⟨_, _, hr1.symm⟩, ?_⟩
      by_cases he : s2.conv.mayRetransmit = .exact <;> simp [hk, he]
    | error e =>
      simp only [bindM_error, bindM_ok, runM_pure, catchM_error, runM_bind, runM_modc, runM_secGoneInsecure, Res.ok.injEq,
        Prod.mk.injEq] at hr
      obtain ⟨hr1, hr2⟩ := hr
      subst hr2
      refine ⟨⟨_, _, hr1.symm⟩, ?_⟩
      by_cases he : s2.conv.mayRetransmit = .exact <;> simp [hk, he]


/-- A2, in the form asked: for every start state, a non-panicking `endSession` never throws, ends in
    `plainText` with the AKE context and our DH keys gone; GoneInsecure is among the appended events iff the
    start state was `encrypted`, GoneSecure/StillSecure are never appended, and from a state that is not
    `encrypted` nothing is sent and no event is appended -/
theorem endSession_spec (K : Crypto) (s : MState)
    (r : Except Err (List Bytes × Option Err)) (s' : MState) (hr : runM (endSession K) s = .ok (r, s')) :
    (∃ toSend err, r = .ok (toSend, err)) ∧
    s'.conv.msgState = .plainText ∧ s'.conv.ake = none ∧ s'.conv.lastMessageStateChange = none ∧
    s'.conv.keys.ourCur = none ∧ s'.conv.keys.ourPrev = none ∧
    ∃ evs, s'.events = s.events ++ evs ∧ ("sec:0" ∈ evs ↔ s.conv.msgState = .encrypted) ∧
      "sec:1" ∉ evs ∧ "sec:2" ∉ evs ∧
      (s.conv.msgState ≠ .encrypted → evs = [] ∧ r = .ok ([], none)) := by
  by_cases h : s.conv.msgState = .encrypted
  · obtain ⟨h1, h2, h3, h4, h5, h6, -, h8, -⟩ := endSession_encrypted K s h r s' hr
    refine ⟨h1, h2, h3, h4, h5, h6, ["sec:0"], h8, by simp [h], by decide, by decide, fun hn => absurd h hn⟩
  · rw [endSession_notEncrypted K s h] at hr
    simp only [Res.ok.injEq, Prod.mk.injEq] at hr
    obtain ⟨hr1, hr2⟩ := hr
    subst hr2
    exact ⟨⟨_, _, hr1.symm⟩, rfl, rfl, rfl, rfl, rfl, [], by simp, by simp [h], by simp, by simp,
      fun _ => ⟨rfl, hr1.symm⟩⟩

/-! ### repaired code: what `End` forgets (C08) -/

/-- what the last three state updates of `endSession` make of the conversation: the resend state is forgotten
    unless it holds texts still waiting for a session to start (`mayRetransmit = .exact`: texts queued by `Send`
    under required encryption while in plaintext, to go out unmarked once a session exists), the message state
    is plaintext, AKE context and our DH key pairs are gone, the peer's DH value is zeroed -/
def endedConv (c : Conv) : Conv :=
  { c with
    resendMsgs := if c.mayRetransmit = .exact then c.resendMsgs else []
    mayRetransmit := if c.mayRetransmit = .exact then .exact else .no
    lastMessageStateChange := none, ake := none, msgState := .plainText
    keys := { c.keys with ourCur := none, ourPrev := none, theirCur := c.keys.theirCur.map (fun _ => 0) } }

/-- A2, encrypted (exact decomposition): the SMP state is wiped first, then the disconnect message is
    generated (it may fail: the error is returned, nothing is sent), and whatever came of that the conversation
    ends as `endedConv` says, with exactly one event, GoneInsecure -/
theorem endSession_encrypted_run (K : Crypto) (s : MState) (h : s.conv.msgState = .encrypted) :
    runM (endSession K) s =
      match runM (createSerializedDataMessage K [] messageFlagIgnoreUnreadable
          [{ typ := tlvTypeDisconnected, len := 0, value := [] }]) { s with conv := { s.conv with smp := {} } } with
      | .panic p => .panic p
      | .ok (v, s2) =>
        .ok (.ok (match v with
                  | .ok (ms, _) => (ms, none)
                  | .error e => ([], some e)),
          { s2 with conv := endedConv s2.conv, events := s2.events ++ ["sec:0"] }) := by
  have hb : (s.conv.msgState == MsgState.encrypted) = true := by rw [h]; rfl
  unfold endSession
  simp only [runM_bind, runM_getc, bindM_ok, hb, ↓reduceIte, smpWipe, runM_modc, runM_tryCatch]
  generalize ({ s with conv := { s.conv with smp := {} } } : MState) = s1
  cases hx : runM (createSerializedDataMessage K [] messageFlagIgnoreUnreadable
      [{ typ := tlvTypeDisconnected, len := 0, value := [] }]) s1 with
  | panic p => rfl
  | ok v =>
    obtain ⟨v, s2⟩ := v
    cases v with
    | ok a =>
      by_cases he : s2.conv.mayRetransmit = .exact <;>
        simp [endedConv, he]
    | error e =>
      by_cases he : s2.conv.mayRetransmit = .exact <;>
        simp [endedConv, he]

/-- A2, not encrypted, in the same form -/
theorem endSession_notEncrypted_run (K : Crypto) (s : MState) (h : s.conv.msgState ≠ .encrypted) :
    runM (endSession K) s =
      .ok (.ok ([], none), { s with conv := endedConv { s.conv with smp := {} } }) := by
  rw [endSession_notEncrypted K s h]
  rfl

/-- C08 (repaired code): after `End` — from any message state, whether or not the disconnect message could be
    generated — nothing of an authentication in progress survives (the SMP context is the zero value: no
    secret, no exponents, no stored messages, no question), and the resend state holds no message text unless it
    is in the branch `mayRetransmit = .exact` (texts the user sent under required encryption before any session
    existed, which are still waiting for one): otherwise `resendMsgs = []` and `mayRetransmit = .no`, so the
    last text of the session that ends is neither kept nor resent later -/
theorem endSession_forgets (K : Crypto) (s : MState)
    (r : Except Err (List Bytes × Option Err)) (s' : MState) (hr : runM (endSession K) s = .ok (r, s')) :
    s'.conv.smp = {} ∧
    (s'.conv.mayRetransmit = .exact ∨ (s'.conv.mayRetransmit = .no ∧ s'.conv.resendMsgs = [])) := by
  have hended : ∀ c : Conv, (endedConv c).smp = c.smp ∧
      ((endedConv c).mayRetransmit = .exact ∨ ((endedConv c).mayRetransmit = .no ∧ (endedConv c).resendMsgs = [])) := by
    intro c
    by_cases he : c.mayRetransmit = .exact
    · exact ⟨rfl, Or.inl (by simp [endedConv, he])⟩
    · exact ⟨rfl, Or.inr (by simp [endedConv, he])⟩
  by_cases h : s.conv.msgState = .encrypted
  · rw [endSession_encrypted_run K s h] at hr
    have hfr := createSerializedDataMessage_sendFrame K [] messageFlagIgnoreUnreadable
      [{ typ := tlvTypeDisconnected, len := 0, value := [] }] { s with conv := { s.conv with smp := {} } }
    cases hx : runM (createSerializedDataMessage K [] messageFlagIgnoreUnreadable
        [{ typ := tlvTypeDisconnected, len := 0, value := [] }]) { s with conv := { s.conv with smp := {} } } with
    | panic p => rw [hx] at hr; cases hr
    | ok v =>
      obtain ⟨v, s2⟩ := v
      have hk := hfr v s2 hx
      simp only [Keeps, sendKept, Prod.mk.injEq] at hk
      rw [hx] at hr
      simp only [Res.ok.injEq, Prod.mk.injEq] at hr
      rw [← hr.2]
      refine ⟨?_, (hended s2.conv).2⟩
      show (endedConv s2.conv).smp = _
      rw [(hended s2.conv).1]
      exact hk.2.2.2.2.2.2.2.2.2.2.2.2.2.1
  · rw [endSession_notEncrypted_run K s h] at hr
    simp only [Res.ok.injEq, Prod.mk.injEq] at hr
    rw [← hr.2]
    exact ⟨(hended _).1, (hended _).2⟩

/-- the hypothesis is satisfiable, and the kept branch is real: a fresh conversation ends normally; one with a
    text waiting under `.exact` keeps it, one with the last text of a session (`.withPrefix` / `.no`) does not -/
example (K : Crypto) :
    runM (endSession K) ⟨{ resendMsgs := [[104, 105]], mayRetransmit := .withPrefix }, {}, [], []⟩ =
      .ok (.ok ([], none), ⟨{ resendMsgs := [], mayRetransmit := .no }, {}, [], []⟩) ∧
    runM (endSession K) ⟨{ resendMsgs := [[104, 105]], mayRetransmit := .exact }, {}, [], []⟩ =
      .ok (.ok ([], none), ⟨{ resendMsgs := [[104, 105]], mayRetransmit := .exact }, {}, [], []⟩) := by
  constructor
  · rw [endSession_notEncrypted K _ (by decide)]; rfl
  · rw [endSession_notEncrypted K _ (by decide)]; rfl

/-- A3 (exact): the peer's disconnect TLV -/
theorem processDisconnectedTLV_run (s : MState) :
    runM processDisconnectedTLV s = .ok (.ok (),
      { s with
        conv := { s.conv with lastMessageStateChange := none, msgState := .finished, smp := {}, ake := none,
                              keys := { oldMACKeys := s.conv.keys.oldMACKeys ++ s.conv.keys.macHistory.map (·.key) } }
        events := s.events ++ (if s.conv.msgState = .encrypted then ["sec:0"] else []) }) := by
  unfold processDisconnectedTLV
  by_cases h : s.conv.msgState = .encrypted <;> simp [beq_encrypted, h]

/-- the error `send` returns in the `finished` state -/
def errFinished : Err := .other "cannot send message because secure conversation has finished"

/-- A4 (exact): `send` in the `finished` state emits nothing of the message -/
theorem send_finished (K : Crypto) (m : Bytes) (s : MState)
    (hp : isOTREnabled s.conv.policies = true) (h : s.conv.msgState = .finished) :
    runM (send K m) s = .ok (.ok (s.conv.injections, some errFinished),
      { s with conv := { s.conv with injections := [] }, events := s.events ++ ["msg:2"] }) := by
  unfold send
  simp [hp, h, withInjects, errFinished]

/-- A6a (exact): with OTR disabled `send` is the identity -/
theorem send_disabled (K : Crypto) (m : Bytes) (s : MState) (hp : isOTREnabled s.conv.policies = false) :
    runM (send K m) s = .ok (.ok ([m], none), s) := by
  unfold send
  simp [hp]

/-- A6b (exact): with OTR disabled `receive` is the identity -/
theorem receive_disabled (K : Crypto) (m : Bytes) (s : MState) (hp : isOTREnabled s.conv.policies = false) :
    runM (receive K m) s = .ok (.ok ⟨some m, [], none⟩, s) := by
  unfold receive
  rw [receiveUnit]
  simp [hp]

/-- A5 (exact): plaintext state with `requireEncryption`: the message is queued, a query goes out instead -/
theorem send_requireEncryption (K : Crypto) (m : Bytes) (s : MState)
    (hp : isOTREnabled s.conv.policies = true) (h : s.conv.msgState = .plainText)
    (hr : polHas s.conv.policies requireEncryption = true) (hrt : s.conv.retransmitting = false) :
    runM (send K m) s = .ok (.ok (queryMessage s.conv.policies s.conv.friendlyQuery :: s.conv.injections, none),
      { s with
        conv := { s.conv with
          heartbeatLastSent := some s.env.now
          resendMsgs := (if s.conv.mayRetransmit = .exact then s.conv.resendMsgs else []) ++ [m]
          mayRetransmit := .exact
          injections := [] }
        events := s.events ++ ["msg:0"] }) := by
  unfold send
  by_cases he : s.conv.mayRetransmit = .exact <;>
    simp [hp, h, hr, hrt, he, withInjects, updateLastSent, resendLater]


/-- does `send` append the whitespace tag in this conversation state -/
def tagging (c : Conv) : Prop := polHas c.policies sendWhitespaceTag = true ∧ c.wsState ≠ .rejected
instance (c : Conv) : Decidable (tagging c) := by unfold tagging; infer_instance

/-- A7 (exact): plaintext state without `requireEncryption`: the message goes out in clear, followed by the
    whitespace tag when the policy asks for it and the peer has not rejected it -/
theorem send_plain (K : Crypto) (m : Bytes) (s : MState)
    (hp : isOTREnabled s.conv.policies = true) (h : s.conv.msgState = .plainText)
    (hr : polHas s.conv.policies requireEncryption = false) :
    runM (send K m) s = .ok (.ok
      ((m ++ if tagging s.conv then genWhitespaceTag s.conv.policies else []) :: s.conv.injections, none),
      { s with conv := { s.conv with
          wsState := if tagging s.conv then .sent else s.conv.wsState
          injections := [] } }) := by
  unfold send
  by_cases h1 : polHas s.conv.policies sendWhitespaceTag = true
  · cases h2 : s.conv.wsState <;>
      simp [hp, h, hr, h1, h2, withInjects, appendWhitespaceTag, tagging]
  · simp [hp, h, hr, h1, withInjects, appendWhitespaceTag, tagging]

/-- A7 + `c16_plain_exact`: the receiver's `extractWhitespaceTag` recovers exactly `m` (and the offered
    versions) from the first message `send` produced, under the side condition of `c16_plain_exact` -/
theorem send_plain_roundtrip (K : Crypto) (m : Bytes) (s : MState)
    (hp : isOTREnabled s.conv.policies = true) (h : s.conv.msgState = .plainText)
    (hr : polHas s.conv.policies requireEncryption = false) (ht : tagging s.conv)
    (hi : indexOf whitespaceTagHeader (m ++ genWhitespaceTag s.conv.policies) = some m.length) :
    ∃ sent s', runM (send K m) s = .ok (.ok (sent :: s.conv.injections, none), s') ∧
      extractWhitespaceTag sent =
        (m, (if polHas s.conv.policies allowV2 then 4 else 0) ||| (if polHas s.conv.policies allowV3 then 8 else 0)) := by
  refine ⟨_, _, send_plain K m s hp h hr, ?_⟩
  rw [if_pos ht]
  exact c16_plain_exact _ _ hi


/-! ### repaired code: API arguments that do not fit the 16-bit length field of a TLV -/

/-- repaired code: `StartAuthenticate` with a question containing a NUL byte (the question is written NUL
    terminated, so the peer would read it cut short and the bytes after it as MPIs) fails at once:
    nothing is sent, no state (not even the SMP state, the randomness or the events) changes -/
theorem startAuthenticate_question_nul (K : Crypto) (question secret : Bytes) (s : MState)
    (h : question.contains 0 = true) :
    runM (startAuthenticate K question secret) s =
      .ok (.error (.other "question must not contain a NUL byte"), s) := by
  unfold startAuthenticate
  simp only [h, ↓reduceIte, runM_bind, runM_throw, bindM_error]

example : ([63, 0, 63] : Bytes).contains 0 = true := by decide

/-- `StartAuthenticate` with a question longer than `maxSMPQuestionLength` (= 64354 bytes) fails at once:
    nothing is sent, no state (not even the SMP state) changes.  (The NUL check comes first in the repaired
    code, so this error is the one reported for a NUL-free question; see `startAuthenticate_bad_question`
    for both cases at once.) -/
theorem startAuthenticate_question_too_long (K : Crypto) (question secret : Bytes) (s : MState)
    (h0 : question.contains 0 = false) (h : question.length > maxSMPQuestionLength) :
    runM (startAuthenticate K question secret) s = .ok (.error (.other "question too long for a TLV"), s) := by
  unfold startAuthenticate
  simp only [h0, h, Bool.false_eq_true, ↓reduceIte, runM_bind, runM_throw, bindM_error]

/-- the two hypotheses are satisfiable together: 64355 bytes, none of them NUL -/
example : (List.replicate (maxSMPQuestionLength + 1) (1 : UInt8)).contains 0 = false ∧
    (List.replicate (maxSMPQuestionLength + 1) (1 : UInt8)).length > maxSMPQuestionLength := by
  refine ⟨?_, by simp⟩
  simp [List.contains_eq_mem, List.mem_replicate]

/-- both guards together: a question with a NUL byte or longer than `maxSMPQuestionLength` is refused with
    an error and the state is exactly the one before the call -/
theorem startAuthenticate_bad_question (K : Crypto) (question secret : Bytes) (s : MState)
    (h : question.contains 0 = true ∨ question.length > maxSMPQuestionLength) :
    ∃ msg, runM (startAuthenticate K question secret) s = .ok (.error (.other msg), s) := by
  cases h0 : question.contains 0 with
  | true => exact ⟨_, startAuthenticate_question_nul K question secret s h0⟩
  | false =>
    rcases h with h | h
    · rw [h0] at h; cases h
    · exact ⟨_, startAuthenticate_question_too_long K question secret s h0 h⟩

/-- `UseExtraSymmetricKey` with more than 65531 bytes of usage data (4 + length would not fit the TLV length
    field) returns an error: no key, no message, no state change -/
theorem useExtraSymmetricKey_too_long (K : Crypto) (usage : Nat) (usageData : Bytes) (s : MState)
    (h : usageData.length > 0xffff - 4) :
    ∃ msg, runM (useExtraSymmetricKey K usage usageData) s = .ok (.ok ([], [], some (.other msg)), s) := by
  unfold useExtraSymmetricKey
  simp only [runM_bind, runM_getc, bindM_ok]
  split
  · exact ⟨_, rfl⟩
  · exact ⟨_, rfl⟩

/-- whenever `UseExtraSymmetricKey` gets as far as building its TLV, the length field is exact (no reduction
    modulo 2^16 takes place any more) -/
theorem useExtraSymmetricKey_len_exact (usageData : Bytes) (h : ¬ usageData.length > 0xffff - 4) :
    (4 + usageData.length % 65536) % 65536 = 4 + usageData.length := by
  omega

/-! ### repaired code: retransmission only after a completed key exchange (C06, C18) -/

/-- what `retransmitAfterCompletedExchange` does when the message has completed a key exchange: whatever waits
    for retransmission goes out; if nothing did and MAC keys carried over from the session that was replaced
    wait in the reveal queue, an empty data message (flag IGNORE_UNREADABLE) is generated to reveal them — an
    error on that path is swallowed (nothing is sent then) -/
def retransmitOrReveal (K : Crypto) : M (List Bytes) := do
  let toSend ← maybeRetransmit K
  if toSend.isEmpty && !(← getc).keys.oldMACKeys.isEmpty then
    tryCatch (do
        let (dm, _) ← genDataMsgWithFlag K [] messageFlagIgnoreUnreadable []
        let m ← wrapMessageHeader msgTypeData dm.serialize
        pure [m])
      (fun _ => pure [])
  else pure toSend

/-- repaired code (C06/C18): a message that did not complete a key exchange — it was rejected (`e` is an error),
    or the exchange is still under way afterwards (`after ≠ none`), or there was none to complete
    (`before = none`: the message was ignored) — triggers no retransmission: the computation *is* `pure []`,
    so nothing is sent, no state changes, and what waits for retransmission keeps waiting -/
theorem retransmitAfterCompletedExchange_skip (K : Crypto) (before after : AuthState) (e : Option Err)
    (h : before = .none ∨ after ≠ .none ∨ e ≠ none) :
    retransmitAfterCompletedExchange K before after e = pure [] := by
  unfold retransmitAfterCompletedExchange
  cases before <;> cases after <;> cases e <;> first | rfl | (exfalso; simp at h)

/-- the same as a run: the result is `[]` and the final state is the start state -/
theorem retransmitAfterCompletedExchange_skip_run (K : Crypto) (before after : AuthState) (e : Option Err)
    (h : before = .none ∨ after ≠ .none ∨ e ≠ none) (s : MState) :
    runM (retransmitAfterCompletedExchange K before after e) s = .ok (.ok [], s) := by
  rw [retransmitAfterCompletedExchange_skip K before after e h]; rfl

example : (AuthState.none = .none ∨ AuthState.awaitingDHKey ≠ .none ∨ (Option.none : Option Err) ≠ none) :=
  Or.inl rfl
example : (AuthState.awaitingSig [] = .none ∨ AuthState.awaitingSig [] ≠ .none ∨
    (some Err.invalidMessage : Option Err) ≠ none) := Or.inr (Or.inl (by simp))

/-- an authentication state that did not change cannot be a completed exchange -/
theorem retransmitAfterCompletedExchange_same (K : Crypto) (st : AuthState) (e : Option Err) :
    retransmitAfterCompletedExchange K st st e = pure [] := by
  refine retransmitAfterCompletedExchange_skip K st st e ?_
  cases st
  · exact Or.inl rfl
  all_goals exact Or.inr (Or.inl (by simp))

/-- the completed case: an exchange was under way (`before ≠ none`), is over (`after = none`) and no error -/
theorem retransmitAfterCompletedExchange_completed (K : Crypto) (before : AuthState) (h : before ≠ .none) :
    retransmitAfterCompletedExchange K before .none none = retransmitOrReveal K := by
  unfold retransmitAfterCompletedExchange retransmitOrReveal
  cases before <;> first | rfl | exact absurd rfl h

/-! ## B. instance tags (C15) -/

theorem generateInstanceTagAux_run (fuel : Nat) (s : MState) :
    ∃ env' mm', EnvStep s.env env' ∧
      ((∃ v, 0x100 ≤ v ∧ v < 4294967296 ∧ runM (generateInstanceTagAux fuel) s =
          .ok (.ok (), { s with conv := { s.conv with ourTag := v }, env := env', mismatch := mm' })) ∨
       runM (generateInstanceTagAux fuel) s = .ok (.error .shortRandom, { s with env := env', mismatch := mm' })) := by
  induction fuel generalizing s with
  | zero =>
    exact ⟨s.env, s.mismatch ++ ["itag-fuel"], EnvStep.refl _, Or.inr (by simp [generateInstanceTagAux])⟩
  | succ fuel ih =>
    unfold generateInstanceTagAux
    obtain ⟨env1, mm1, hs1, hb⟩ := randomInto_run 4 s
    rcases hb with ⟨b, hlen, hb⟩ | hb
    · simp only [runM_bind, hb, bindM_ok]
      by_cases hv : bytesToNat b < 0x100
      · simp only [hv, ↓reduceIte]
        obtain ⟨env2, mm2, hs2, h2⟩ := ih { s with env := env1, mismatch := mm1 }
        exact ⟨env2, mm2, hs1.trans hs2, h2⟩
      · simp only [hv, ↓reduceIte, runM_modc]
        have hlt := bytesToNat_lt b
        rw [hlen] at hlt
        exact ⟨env1, mm1, hs1, Or.inl ⟨bytesToNat b, by omega, hlt, rfl⟩⟩
    · exact ⟨env1, mm1, hs1, Or.inr (by simp only [runM_bind, hb, bindM_error])⟩

/-- B8a (exact): an instance tag, once set, is never regenerated and no randomness is read -/
theorem generateInstanceTag_noop (s : MState) (h : s.conv.ourTag ≠ 0) :
    runM generateInstanceTag s = .ok (.ok (), s) := by
  unfold generateInstanceTag
  simp [h]

/-- B8b: from tag 0, either a well-formed tag (`0x100 ≤ v < 2^32`) is installed, or the reads ran out
    (`shortRandom`) and the tag is still 0; nothing else of the conversation changes; no panic -/
theorem generateInstanceTag_run (s : MState) (h : s.conv.ourTag = 0) :
    ∃ env' mm', EnvStep s.env env' ∧
      ((∃ v, 0x100 ≤ v ∧ v < 4294967296 ∧ runM generateInstanceTag s =
          .ok (.ok (), { s with conv := { s.conv with ourTag := v }, env := env', mismatch := mm' })) ∨
       runM generateInstanceTag s = .ok (.error .shortRandom, { s with env := env', mismatch := mm' })) := by
  unfold generateInstanceTag
  simp only [runM_bind, runM_getc, bindM_ok, h, ne_eq, not_true_eq_false, ↓reduceIte, runM_get]
  exact generateInstanceTagAux_run _ s

/-- B8, in the form asked: on normal return the tag is well formed, on a throw it is unchanged -/
theorem generateInstanceTag_tag (s : MState) (r : Except Err Unit) (s' : MState)
    (hr : runM generateInstanceTag s = .ok (r, s')) :
    (r = .ok () → (s.conv.ourTag ≠ 0 → s' = s) ∧
        (s.conv.ourTag = 0 → 0x100 ≤ s'.conv.ourTag ∧ s'.conv.ourTag < 4294967296)) ∧
    (∀ e, r = .error e → s'.conv = s.conv) := by
  by_cases h : s.conv.ourTag = 0
  · obtain ⟨env', mm', -, hh⟩ := generateInstanceTag_run s h
    rcases hh with ⟨v, hv1, hv2, hh⟩ | hh
    · rw [hh] at hr
      simp only [Res.ok.injEq, Prod.mk.injEq] at hr
      obtain ⟨hr1, hr2⟩ := hr
      subst hr1 hr2
      exact ⟨fun _ => ⟨fun h' => absurd h h', fun _ => ⟨hv1, hv2⟩⟩, fun e he => by cases he⟩
    · rw [hh] at hr
      simp only [Res.ok.injEq, Prod.mk.injEq] at hr
      obtain ⟨hr1, hr2⟩ := hr
      subst hr1 hr2
      exact ⟨fun h' => (by cases h'), fun _ _ => rfl⟩
  · rw [generateInstanceTag_noop s h] at hr
    simp only [Res.ok.injEq, Prod.mk.injEq] at hr
    obtain ⟨hr1, hr2⟩ := hr
    subst hr1 hr2
    exact ⟨fun _ => ⟨fun _ => rfl, fun h' => absurd h' h⟩, fun e he => by cases he⟩


/-- the reply the error-message handler produces for "malformed message" -/
def malformedReply : Bytes := errorMarker ++ [32] ++ strBytes s!"E{ecMalformed}"

/-- the conversation after `malformedMessage`: an error reply is queued when a handler is installed -/
def afterMalformed (c : Conv) : Conv :=
  if c.errHandler then { c with injections := c.injections ++ [malformedReply] } else c

theorem malformedMessage_run (s : MState) :
    runM malformedMessage s = .ok (.ok (), { s with conv := afterMalformed s.conv, events := s.events ++ ["msg:9"] }) := by
  unfold malformedMessage generatePotentialErrorMessage afterMalformed
  by_cases h : s.conv.errHandler = true <;> simp [h, malformedReply]

/-- are the two tags of an incoming v3 message syntactically valid -/
def tagsWellFormed (their our : Nat) : Prop := ¬ (our > 0 ∧ our < 0x100) ∧ ¬ their < 0x100
/-- is a (well-formed) message addressed to another instance of this conversation -/
def tagsForeign (c : Conv) (their our : Nat) : Prop :=
  (our ≠ 0 ∧ c.ourTag ≠ our) ∨ (c.theirTag ≠ 0 ∧ c.theirTag ≠ their)
instance (a b : Nat) : Decidable (tagsWellFormed a b) := by unfold tagsWellFormed; infer_instance
instance (c : Conv) (a b : Nat) : Decidable (tagsForeign c a b) := by unfold tagsForeign; infer_instance

/-- B9 (exact): the complete behaviour of `verifyInstanceTags` -/
theorem verifyInstanceTags_run (their our : Nat) (s : MState) :
    runM (verifyInstanceTags their our) s =
      if ¬ tagsWellFormed their our then
        .ok (.error .invalidMessage, { s with conv := afterMalformed s.conv, events := s.events ++ ["msg:9"] })
      else if tagsForeign s.conv their our then
        .ok (.error .otherInstance, { s with events := s.events ++ ["msg:15"] })
      else .ok (.ok (), { s with conv := { s.conv with theirTag := their } }) := by
  unfold verifyInstanceTags tagsWellFormed tagsForeign
  by_cases h1 : our > 0 ∧ our < 0x100
  · simp [h1, malformedMessage_run]
  · by_cases h2 : their < 0x100
    · simp [h1, h2, malformedMessage_run]
    · simp only [h1, h2, ↓reduceIte, not_true_eq_false, not_false_eq_true, and_self, runM_bind, runM_getc,
        bindM_ok]
      by_cases h3 : (our ≠ 0 ∧ s.conv.ourTag ≠ our) ∨ (s.conv.theirTag ≠ 0 ∧ s.conv.theirTag ≠ their)
      · simp only [h3, ↓reduceIte, runM_bind, runM_evOtherInstance, bindM_ok, runM_throw, bindM_error]
      · simp only [h3, ↓reduceIte]
        by_cases h4 : s.conv.theirTag = 0
        · simp only [h4, ↓reduceIte, runM_modc]
        · simp only [h4, ↓reduceIte, runM_pure]
          have h5 : s.conv.theirTag = their := by
            apply Decidable.byContradiction
            intro h; exact h3 (Or.inr ⟨h4, h⟩)
          subst h5
          rfl


theorem afterMalformed_frame (c : Conv) :
    afterMalformed c = { c with injections := (afterMalformed c).injections } ∧
    (c.errHandler = false → afterMalformed c = c) := by
  unfold afterMalformed
  refine ⟨?_, fun h => by simp [h]⟩
  split <;> rfl

/-- B9a: `verifyInstanceTags` never panics and changes nothing of the conversation except possibly
    `theirTag` and (only with an error handler installed) `injections` -/
theorem verifyInstanceTags_frame (their our : Nat) (s : MState) :
    ∃ r s', runM (verifyInstanceTags their our) s = .ok (r, s') ∧
      s'.conv = { s.conv with theirTag := s'.conv.theirTag, injections := s'.conv.injections } ∧
      (s.conv.errHandler = false → s'.conv.injections = s.conv.injections) ∧
      s'.env = s.env := by
  rw [verifyInstanceTags_run]
  split
  · refine ⟨_, _, rfl, ?_, ?_, rfl⟩
    · show afterMalformed s.conv = _
      unfold afterMalformed
      split <;> rfl
    · intro h
      show (afterMalformed s.conv).injections = _
      rw [(afterMalformed_frame s.conv).2 h]
  · split
    · exact ⟨_, _, rfl, rfl, fun _ => rfl, rfl⟩
    · exact ⟨_, _, rfl, rfl, fun _ => rfl, rfl⟩

/-- B9b: `theirTag` changes only by adoption: it was 0, the message's tags are well formed and addressed to
    us, the call succeeds, and the new value is the sender tag of the message -/
theorem verifyInstanceTags_adopt (their our : Nat) (s : MState) (r : Except Err Unit) (s' : MState)
    (hr : runM (verifyInstanceTags their our) s = .ok (r, s')) (hne : s'.conv.theirTag ≠ s.conv.theirTag) :
    s.conv.theirTag = 0 ∧ 0x100 ≤ their ∧ (our = 0 ∨ our = s.conv.ourTag) ∧ s'.conv.theirTag = their ∧ r = .ok () := by
  rw [verifyInstanceTags_run] at hr
  split at hr
  · simp only [Res.ok.injEq, Prod.mk.injEq] at hr
    obtain ⟨-, hr2⟩ := hr
    subst hr2
    exfalso; apply hne
    show (afterMalformed s.conv).theirTag = _
    unfold afterMalformed
    split <;> rfl
  · rename_i hwf
    simp only [Decidable.not_not] at hwf
    split at hr
    · simp only [Res.ok.injEq, Prod.mk.injEq] at hr
      obtain ⟨-, hr2⟩ := hr
      subst hr2
      exact absurd rfl hne
    · rename_i hnf
      simp only [Res.ok.injEq, Prod.mk.injEq] at hr
      obtain ⟨hr1, hr2⟩ := hr
      subst hr2
      unfold tagsWellFormed at hwf
      unfold tagsForeign at hnf
      simp only [ne_eq] at hne hnf
      refine ⟨?_, by omega, ?_, rfl, hr1.symm⟩
      · apply Decidable.byContradiction
        intro h0
        exact hnf (Or.inr ⟨h0, fun h => hne h.symm⟩)
      · by_cases ho : our = 0
        · exact Or.inl ho
        · right
          apply Decidable.byContradiction
          intro h; exact hnf (Or.inl ⟨ho, fun h' => h h'.symm⟩)

/-- B9c (exact): a well-formed message for another instance is refused with `otherInstance`; the conversation
    is unchanged and the only event is OtherInstance -/
theorem verifyInstanceTags_foreign (their our : Nat) (s : MState)
    (hwf : tagsWellFormed their our) (hf : tagsForeign s.conv their our) :
    runM (verifyInstanceTags their our) s =
      .ok (.error .otherInstance, { s with events := s.events ++ ["msg:15"] }) := by
  rw [verifyInstanceTags_run]
  simp [hwf, hf]

/-- B9c in the form asked -/
theorem verifyInstanceTags_otherInstance (their our : Nat) (s : MState)
    (h1 : 0x100 ≤ their) (h2 : our = 0 ∨ 0x100 ≤ our) (h3 : s.conv.theirTag ≠ 0)
    (h4 : their ≠ s.conv.theirTag ∨ (our ≠ 0 ∧ our ≠ s.conv.ourTag)) :
    runM (verifyInstanceTags their our) s =
      .ok (.error .otherInstance, { s with events := s.events ++ ["msg:15"] }) := by
  apply verifyInstanceTags_foreign
  · unfold tagsWellFormed; omega
  · unfold tagsForeign
    rcases h4 with h4 | h4
    · exact Or.inr ⟨h3, fun h => h4 h.symm⟩
    · exact Or.inl ⟨h4.1, fun h => h4.2 h.symm⟩

/-- B9d (exact): a malformed tag is refused with `invalidMessage`; `theirTag` (and everything but
    `injections`) is unchanged, the only event is Malformed -/
theorem verifyInstanceTags_malformed (their our : Nat) (s : MState)
    (h : their < 0x100 ∨ (0 < our ∧ our < 0x100)) :
    runM (verifyInstanceTags their our) s =
      .ok (.error .invalidMessage, { s with conv := afterMalformed s.conv, events := s.events ++ ["msg:9"] }) ∧
    (afterMalformed s.conv).theirTag = s.conv.theirTag := by
  rw [verifyInstanceTags_run]
  have : ¬ tagsWellFormed their our := by unfold tagsWellFormed; omega
  refine ⟨by simp [this], ?_⟩
  unfold afterMalformed
  split <;> rfl

/-- B9, success case (exact): well-formed tags addressed to us: the sender tag is adopted or confirmed -/
theorem verifyInstanceTags_ok (their our : Nat) (s : MState)
    (hwf : tagsWellFormed their our) (hf : ¬ tagsForeign s.conv their our) :
    runM (verifyInstanceTags their our) s = .ok (.ok (), { s with conv := { s.conv with theirTag := their } }) := by
  rw [verifyInstanceTags_run]
  simp [hwf, hf]


/-- B13 (repaired code, exact): a fragment that `receiveFragment` rejects does not bind the conversation to the
    peer instance its prefix names.  Whatever `receiveFragment` did before it gave up (state `s1`: it may have
    adopted the sender tag of the prefix), `receiveUnit` puts `theirTag` back to its value before the call,
    returns the error and nothing else, and hands out the pending injections. -/
theorem receiveUnit_invalid_fragment (K : Crypto) (fuel : Nat) (msg : Bytes) (fg : Bool) (s s1 : MState) (e : Err)
    (hp : isOTREnabled s.conv.policies = true) (hg : guessMessageType msg = .fragment)
    (hf : runM (receiveFragment s.conv.fragCtx msg) s = .ok (.error e, s1))
    (hnf : s1.conv.fragCtx.finished = false) :
    runM (receiveUnit K (fuel + 1) msg fg) s =
      .ok (.ok ⟨none, s1.conv.injections, some e⟩,
        { s1 with conv := { s1.conv with theirTag := s.conv.theirTag, injections := [] } }) := by
  rw [receiveUnit]
  simp only [runM_bind, runM_getc, bindM_ok, hp, Bool.not_true, Bool.false_eq_true, ↓reduceIte, hg,
    runM_tryCatch, hf, bindM_error, catchM_error, runM_pure, runM_modc, hnf, Bool.false_and,
    toSendEncoded, Option.isSome_some, withInjects, List.nil_append]

/-- in particular: after a rejected fragment the peer tag is what it was -/
theorem receiveUnit_invalid_fragment_theirTag (K : Crypto) (fuel : Nat) (msg : Bytes) (fg : Bool) (s s1 : MState)
    (e : Err) (r : Except Err RecvResult) (s' : MState)
    (hp : isOTREnabled s.conv.policies = true) (hg : guessMessageType msg = .fragment)
    (hf : runM (receiveFragment s.conv.fragCtx msg) s = .ok (.error e, s1))
    (hnf : s1.conv.fragCtx.finished = false)
    (hr : runM (receiveUnit K (fuel + 1) msg fg) s = .ok (r, s')) :
    s'.conv.theirTag = s.conv.theirTag := by
  rw [receiveUnit_invalid_fragment K fuel msg fg s s1 e hp hg hf hnf] at hr
  simp only [Res.ok.injEq, Prod.mk.injEq] at hr
  rw [← hr.2]

/-! ## C. version choice (C16) -/

/-- `chooseVersion` picks a version that the policy allows and the peer offers, and v3 whenever possible -/
theorem chooseVersion_sound (p : Policies) (vs : Nat) (v : Version) (h : chooseVersion p vs = some v) :
    (v = .v3 → polHas p allowV3 = true ∧ vs &&& 8 > 0) ∧ (v = .v2 → polHas p allowV2 = true ∧ vs &&& 4 > 0) := by
  unfold chooseVersion at h
  split at h
  · cases h; rename_i h3; exact ⟨fun _ => h3, fun h => by cases h⟩
  · split at h
    · cases h; rename_i h2; exact ⟨fun h => (by cases h), fun _ => h2⟩
    · cases h

theorem chooseVersion_highest (p : Policies) (vs : Nat) (h3 : polHas p allowV3 = true) (ho : vs &&& 8 > 0) :
    chooseVersion p vs = some .v3 := by
  unfold chooseVersion
  simp [h3, ho]

theorem chooseVersion_none (p : Policies) (vs : Nat) (h : chooseVersion p vs = none) :
    ¬ (polHas p allowV3 = true ∧ vs &&& 8 > 0) ∧ ¬ (polHas p allowV2 = true ∧ vs &&& 4 > 0) := by
  unfold chooseVersion at h
  split at h
  · cases h
  · split at h
    · cases h
    · constructor <;> assumption

/-- the conversation after a version has been chosen: the long-term key is selected too -/
theorem setKeyMatchingVersion_run (s : MState) :
    runM setKeyMatchingVersion s =
      match s.conv.ourKeys with
      | k :: _ => .ok (.ok (), { s with conv := { s.conv with ourCurrentKey := some k } })
      | [] => .ok (.error .noKeyForVersion, s) := by
  unfold setKeyMatchingVersion
  simp only [runM_bind, runM_getc, bindM_ok]
  split <;> simp [*]

/-- C11 (exact): the complete behaviour of `commitToVersionFrom` -/
theorem commitToVersionFrom_run (versions : Nat) (s : MState) :
    runM (commitToVersionFrom versions) s =
      match s.conv.version with
      | some _ => .ok (.ok (), s)
      | none =>
        match chooseVersion s.conv.policies versions with
        | none => .ok (.error .unsupportedVersion, s)
        | some v =>
          match s.conv.ourKeys with
          | k :: _ => .ok (.ok (), { s with conv := { s.conv with version := some v, ourCurrentKey := some k } })
          | [] => .ok (.error .noKeyForVersion, { s with conv := { s.conv with version := some v } }) := by
  unfold commitToVersionFrom
  simp only [runM_bind, runM_getc, bindM_ok]
  cases hv : s.conv.version with
  | some v => simp
  | none =>
    simp only [Option.isSome_none, Bool.false_eq_true, ↓reduceIte]
    cases hc : chooseVersion s.conv.policies versions with
    | none => simp
    | some v =>
      simp only [runM_bind, runM_modc, bindM_ok, setKeyMatchingVersion_run]

/-- C11a: a committed version is sticky -/
theorem commitToVersionFrom_sticky (versions : Nat) (s : MState) (v : Version) (h : s.conv.version = some v) :
    runM (commitToVersionFrom versions) s = .ok (.ok (), s) := by
  rw [commitToVersionFrom_run, h]

/-- C11b: no common version: `unsupportedVersion`, state unchanged -/
theorem commitToVersionFrom_unsupported (versions : Nat) (s : MState) (h : s.conv.version = none)
    (hc : chooseVersion s.conv.policies versions = none) :
    runM (commitToVersionFrom versions) s = .ok (.error .unsupportedVersion, s) := by
  rw [commitToVersionFrom_run, h]; simp only [hc]

/-- C11c: from no version, the version committed is allowed by the policy, offered by the peer, and the
    highest such; it is committed even when the call then fails for want of a long-term key -/
theorem commitToVersionFrom_choice (versions : Nat) (s : MState) (v : Version) (h : s.conv.version = none)
    (hc : chooseVersion s.conv.policies versions = some v) :
    ∃ r s', runM (commitToVersionFrom versions) s = .ok (r, s') ∧ s'.conv.version = some v ∧
      (r = .ok () ∨ (r = .error .noKeyForVersion ∧ s.conv.ourKeys = [])) ∧
      s'.conv = { s.conv with version := some v, ourCurrentKey := s'.conv.ourCurrentKey } ∧
      (v = .v3 → polHas s.conv.policies allowV3 = true ∧ versions &&& 8 > 0) ∧
      (v = .v2 → polHas s.conv.policies allowV2 = true ∧ versions &&& 4 > 0) ∧
      (polHas s.conv.policies allowV3 = true ∧ versions &&& 8 > 0 → v = .v3) := by
  have hs := chooseVersion_sound _ _ _ hc
  have hh : polHas s.conv.policies allowV3 = true ∧ versions &&& 8 > 0 → v = .v3 := by
    intro h3
    have := chooseVersion_highest _ _ h3.1 h3.2
    rw [hc] at this; cases this; rfl
  rw [commitToVersionFrom_run, h]
  simp only [hc]
  cases hk : s.conv.ourKeys with
  | nil => exact ⟨_, _, rfl, rfl, Or.inr ⟨rfl, rfl⟩, rfl, hs.1, hs.2, hh⟩
  | cons k ks => exact ⟨_, _, rfl, rfl, Or.inl rfl, rfl, hs.1, hs.2, hh⟩

/-- the committed version is one the policy allows -/
def VersionOK (c : Conv) : Prop :=
  ∀ v, c.version = some v →
    (v = .v3 → polHas c.policies allowV3 = true) ∧ (v = .v2 → polHas c.policies allowV2 = true)

/-- C11d: `commitToVersionFrom` never panics, never touches the policy, and preserves `VersionOK` -/
theorem commitToVersionFrom_versionOK (versions : Nat) (s : MState) :
    ∃ r s', runM (commitToVersionFrom versions) s = .ok (r, s') ∧ s'.conv.policies = s.conv.policies ∧
      (VersionOK s.conv → VersionOK s'.conv) := by
  cases hv : s.conv.version with
  | some v => exact ⟨_, _, commitToVersionFrom_sticky versions s v hv, rfl, id⟩
  | none =>
    cases hc : chooseVersion s.conv.policies versions with
    | none => exact ⟨_, _, commitToVersionFrom_unsupported versions s hv hc, rfl, id⟩
    | some v =>
      obtain ⟨r, s', hr, hv', -, hconv, h3, h2, -⟩ := commitToVersionFrom_choice versions s v hv hc
      have hp : s'.conv.policies = s.conv.policies := by rw [hconv]
      refine ⟨r, s', hr, hp, fun _ w hw => ?_⟩
      rw [hv'] at hw; cases hw
      rw [hp]
      exact ⟨fun h => (h3 h).1, fun h => (h2 h).1⟩


theorem versionBit_fin : ∀ n : Fin 63, ((2 ^ n.val &&& 8 > 0) ↔ n.val = 3) ∧ ((2 ^ n.val &&& 4 > 0) ↔ n.val = 2) := by
  decide

theorem versionBit_and (mv : Nat) :
    ((versionBit mv &&& 8 > 0) ↔ mv = 3) ∧ ((versionBit mv &&& 4 > 0) ↔ mv = 2) := by
  unfold versionBit
  split
  · rename_i h; exact versionBit_fin ⟨mv, h⟩
  · simp only [Nat.zero_and, Nat.lt_irrefl, false_iff]; omega

/-- the version chosen for a message whose version field is `mv` is the version `mv` -/
theorem chooseVersion_versionBit (p : Policies) (mv : Nat) (v : Version)
    (h : chooseVersion p (versionBit mv) = some v) : v.num = mv := by
  have hs := chooseVersion_sound _ _ _ h
  have hb := versionBit_and mv
  cases v with
  | v2 => exact (hb.2.mp (hs.2 rfl).2).symm
  | v3 => exact (hb.1.mp (hs.1 rfl).2).symm

/-- C12 (exact), committed version: a message of another version is rejected, state unchanged -/
theorem checkVersion_committed (a b : UInt8) (rest : Bytes) (s : MState) (v : Version)
    (h : s.conv.version = some v) :
    runM (checkVersion (a :: b :: rest)) s =
      if v.num = de16 a b then .ok (.ok (), s) else .ok (.error .wrongVersion, s) := by
  unfold checkVersion
  simp only [extractShort, runM_bind, commitToVersionFrom_sticky _ s v h, bindM_ok, runM_getc, h]
  by_cases hv : v.num = de16 a b <;> simp [hv]

/-- C12, no version committed, version of the message forbidden by the policy (or not 2/3 at all):
    `unsupportedVersion`, state unchanged -/
theorem checkVersion_unsupported (a b : UInt8) (rest : Bytes) (s : MState) (h : s.conv.version = none)
    (hc : chooseVersion s.conv.policies (versionBit (de16 a b)) = none) :
    runM (checkVersion (a :: b :: rest)) s = .ok (.error .unsupportedVersion, s) := by
  unfold checkVersion
  simp only [extractShort, runM_bind, commitToVersionFrom_unsupported _ s h hc, bindM_error]

theorem checkVersion_forbidden (a b : UInt8) (rest : Bytes) (s : MState) (h : s.conv.version = none)
    (h3 : de16 a b = 3 → polHas s.conv.policies allowV3 = false)
    (h2 : de16 a b = 2 → polHas s.conv.policies allowV2 = false) :
    runM (checkVersion (a :: b :: rest)) s = .ok (.error .unsupportedVersion, s) := by
  apply checkVersion_unsupported _ _ _ _ h
  cases hc : chooseVersion s.conv.policies (versionBit (de16 a b)) with
  | none => rfl
  | some v =>
    exfalso
    have hs := chooseVersion_sound _ _ _ hc
    have hn := chooseVersion_versionBit _ _ _ hc
    cases v with
    | v2 => have := (hs.2 rfl).1; rw [h2 hn.symm] at this; cases this
    | v3 => have := (hs.1 rfl).1; rw [h3 hn.symm] at this; cases this

theorem checkVersion_short (m : Bytes) (s : MState) (h : m.length < 2) :
    runM (checkVersion m) s = .ok (.error .invalidMessage, s) := by
  unfold checkVersion
  match m, h with
  | [], _ => simp [extractShort]
  | [_], _ => simp [extractShort]

/-- C12: `checkVersion` never panics; if it returns normally the conversation is committed to exactly the
    version in the message's 16-bit version field, which the policy allows if it was chosen by this call -/
theorem checkVersion_ok (m : Bytes) (s : MState) :
    ∃ r s', runM (checkVersion m) s = .ok (r, s') ∧
      (r = .ok () → ∃ a b rest v, m = a :: b :: rest ∧ s'.conv.version = some v ∧ v.num = de16 a b ∧
        (s.conv.version = none →
          (v = .v3 → polHas s.conv.policies allowV3 = true) ∧ (v = .v2 → polHas s.conv.policies allowV2 = true))) := by
  match m with
  | [] => exact ⟨_, _, checkVersion_short [] s (by simp), fun h => by cases h⟩
  | [x] => exact ⟨_, _, checkVersion_short [x] s (by simp), fun h => by cases h⟩
  | a :: b :: rest =>
    cases hv : s.conv.version with
    | some v =>
      rw [checkVersion_committed a b rest s v hv]
      by_cases hn : v.num = de16 a b
      · rw [if_pos hn]
        exact ⟨_, _, rfl, fun _ => ⟨a, b, rest, v, rfl, hv, hn, fun h => by cases h⟩⟩
      · rw [if_neg hn]
        exact ⟨_, _, rfl, fun h => by cases h⟩
    | none =>
      cases hc : chooseVersion s.conv.policies (versionBit (de16 a b)) with
      | none => exact ⟨_, _, checkVersion_unsupported a b rest s hv hc, fun h => by cases h⟩
      | some v =>
        have hn := chooseVersion_versionBit _ _ _ hc
        have hs := chooseVersion_sound _ _ _ hc
        unfold checkVersion
        simp only [extractShort, runM_bind, commitToVersionFrom_run, hv, hc]
        cases hk : s.conv.ourKeys with
        | nil => exact ⟨_, _, rfl, fun h => by cases h⟩
        | cons k ks =>
          simp only [bindM_ok, runM_getc, hn, ne_eq, not_true_eq_false, ↓reduceIte, runM_pure]
          exact ⟨_, _, rfl, fun _ => ⟨a, b, rest, v, rfl, rfl, hn, fun _ => ⟨fun h => (hs.1 h).1, fun h => (hs.2 h).1⟩⟩⟩


/-! ### B10: the v3 header carries the instance tags -/

/-- B10a (exact): on a v3 message of at least 11 bytes `parseMessageHeader` hands bytes 3..6 and 7..10 to
    `verifyInstanceTags` and, if that succeeds, splits the message after byte 11 -/
theorem parseMessageHeader_v3 (s : MState) (hv : s.conv.version = some .v3)
    (h0 h1 h2 a0 a1 a2 a3 b0 b1 b2 b3 : UInt8) (body : Bytes) :
    runM (parseMessageHeader (h0 :: h1 :: h2 :: a0 :: a1 :: a2 :: a3 :: b0 :: b1 :: b2 :: b3 :: body)) s =
      bindM (runM (verifyInstanceTags (de32 a0 a1 a2 a3) (de32 b0 b1 b2 b3)) s)
        (fun _ s' => .ok (.ok ([h0, h1, h2, a0, a1, a2, a3, b0, b1, b2, b3], body), s')) := by
  unfold parseMessageHeader
  have hl : ¬ body.length + 1 + 1 + 1 + 1 + 1 + 1 + 1 + 1 + 1 + 1 + 1 < 11 := by omega
  simp [hv, extractWord, hl]

/-- every message of length ≥ 11 has the shape used in `parseMessageHeader_v3`, with `take 11`/`drop 11` -/
theorem exists_header_of_length (msg : Bytes) (h : 11 ≤ msg.length) :
    ∃ h0 h1 h2 a0 a1 a2 a3 b0 b1 b2 b3 body,
      msg = h0 :: h1 :: h2 :: a0 :: a1 :: a2 :: a3 :: b0 :: b1 :: b2 :: b3 :: body ∧
      msg.take 11 = [h0, h1, h2, a0, a1, a2, a3, b0, b1, b2, b3] ∧ msg.drop 11 = body := by
  match msg, h with
  | h0 :: h1 :: h2 :: a0 :: a1 :: a2 :: a3 :: b0 :: b1 :: b2 :: b3 :: body, _ =>
    exact ⟨h0, h1, h2, a0, a1, a2, a3, b0, b1, b2, b3, body, rfl, rfl, rfl⟩

/-- B10a for an arbitrary message of length ≥ 11 -/
theorem parseMessageHeader_v3' (s : MState) (hv : s.conv.version = some .v3) (msg : Bytes) (h : 11 ≤ msg.length) :
    ∃ a0 a1 a2 a3 b0 b1 b2 b3, (msg.drop 3).take 8 = [a0, a1, a2, a3, b0, b1, b2, b3] ∧
      runM (parseMessageHeader msg) s =
        bindM (runM (verifyInstanceTags (de32 a0 a1 a2 a3) (de32 b0 b1 b2 b3)) s)
          (fun _ s' => .ok (.ok (msg.take 11, msg.drop 11), s')) := by
  obtain ⟨h0, h1, h2, a0, a1, a2, a3, b0, b1, b2, b3, body, hm, ht, hd⟩ := exists_header_of_length msg h
  refine ⟨a0, a1, a2, a3, b0, b1, b2, b3, by rw [hm]; rfl, ?_⟩
  rw [ht, hd, hm]
  exact parseMessageHeader_v3 s hv _ _ _ _ _ _ _ _ _ _ _ _

/-- a v3 message shorter than a header is malformed -/
theorem parseMessageHeader_v3_short (s : MState) (hv : s.conv.version = some .v3) (msg : Bytes)
    (h : msg.length < 11) :
    runM (parseMessageHeader msg) s =
      .ok (.error .invalidMessage, { s with conv := afterMalformed s.conv, events := s.events ++ ["msg:9"] }) := by
  unfold parseMessageHeader
  simp [hv, h, malformedMessage_run]

/-- B10b (exact): the v3 header written by a conversation that has its instance tag -/
theorem messageHeader_v3 (s : MState) (hv : s.conv.version = some .v3) (ht : s.conv.ourTag ≠ 0) (msgType : Nat) :
    runM (messageHeader msgType) s =
      .ok (.ok ([0, 3, b8 msgType] ++ be32 s.conv.ourTag ++ be32 s.conv.theirTag), s) := by
  unfold messageHeader
  simp only [runM_bind, runM_getc, bindM_ok, hv, generateInstanceTag_noop s ht, runM_pure]
  rfl

/-- B10c: round trip. The header a v3 sender writes makes the v3 receiver call `verifyInstanceTags` with
    exactly the sender's `(ourTag, theirTag)`, and the receiver gets back the header and the body -/
theorem header_roundtrip (snd rcv : MState) (hs : snd.conv.version = some .v3) (hr : rcv.conv.version = some .v3)
    (ht : snd.conv.ourTag ≠ 0) (ho : snd.conv.ourTag < 4294967296) (hh : snd.conv.theirTag < 4294967296)
    (msgType : Nat) (body : Bytes) :
    ∃ hdr, runM (messageHeader msgType) snd = .ok (.ok hdr, snd) ∧
      runM (parseMessageHeader (hdr ++ body)) rcv =
        bindM (runM (verifyInstanceTags snd.conv.ourTag snd.conv.theirTag) rcv)
          (fun _ s' => .ok (.ok (hdr, body), s')) := by
  refine ⟨_, messageHeader_v3 snd hs ht msgType, ?_⟩
  have h := parseMessageHeader_v3 rcv hr 0 3 (b8 msgType)
    (b8 (snd.conv.ourTag / 16777216)) (b8 (snd.conv.ourTag / 65536)) (b8 (snd.conv.ourTag / 256)) (b8 snd.conv.ourTag)
    (b8 (snd.conv.theirTag / 16777216)) (b8 (snd.conv.theirTag / 65536)) (b8 (snd.conv.theirTag / 256))
    (b8 snd.conv.theirTag) body
  rw [de32_be32 _ ho, de32_be32 _ hh] at h
  exact h


/-- `checkVersion` leaves the conversation exactly as its call of `commitToVersionFrom` left it (or untouched) -/
theorem checkVersion_state (m : Bytes) (s : MState) :
    ∃ r s', runM (checkVersion m) s = .ok (r, s') ∧
      (s' = s ∨ ∃ a b rest r0, m = a :: b :: rest ∧
        runM (commitToVersionFrom (versionBit (de16 a b))) s = .ok (r0, s')) := by
  match m with
  | [] => exact ⟨_, _, checkVersion_short [] s (by simp), Or.inl rfl⟩
  | [x] => exact ⟨_, _, checkVersion_short [x] s (by simp), Or.inl rfl⟩
  | a :: b :: rest =>
    cases hv : s.conv.version with
    | some v =>
      rw [checkVersion_committed a b rest s v hv]
      split <;> exact ⟨_, _, rfl, Or.inl rfl⟩
    | none =>
      cases hc : chooseVersion s.conv.policies (versionBit (de16 a b)) with
      | none => exact ⟨_, _, checkVersion_unsupported a b rest s hv hc, Or.inl rfl⟩
      | some v =>
        have hn := chooseVersion_versionBit _ _ _ hc
        have hcm := commitToVersionFrom_run (versionBit (de16 a b)) s
        simp only [hv, hc] at hcm
        unfold checkVersion
        simp only [extractShort, runM_bind]
        cases hk : s.conv.ourKeys with
        | nil =>
          simp only [hk] at hcm
          rw [hcm]
          exact ⟨_, _, rfl, Or.inr ⟨a, b, rest, _, rfl, hcm⟩⟩
        | cons k ks =>
          simp only [hk] at hcm
          rw [hcm]
          simp only [bindM_ok, runM_getc, hn, ne_eq, not_true_eq_false, ↓reduceIte, runM_pure]
          exact ⟨_, _, rfl, Or.inr ⟨a, b, rest, _, rfl, hcm⟩⟩

/-- C12, invariant: `checkVersion` never touches the policy and preserves `VersionOK` -/
theorem checkVersion_versionOK (m : Bytes) (s : MState) :
    ∃ r s', runM (checkVersion m) s = .ok (r, s') ∧ s'.conv.policies = s.conv.policies ∧
      (VersionOK s.conv → VersionOK s'.conv) := by
  obtain ⟨r, s', hr, hs⟩ := checkVersion_state m s
  refine ⟨r, s', hr, ?_⟩
  rcases hs with hs | ⟨a, b, rest, r0, -, h0⟩
  · subst hs; exact ⟨rfl, id⟩
  · obtain ⟨r1, s1, h1, hp, hok⟩ := commitToVersionFrom_versionOK (versionBit (de16 a b)) s
    rw [h0] at h1
    simp only [Res.ok.injEq, Prod.mk.injEq] at h1
    obtain ⟨-, h1⟩ := h1
    subst h1
    exact ⟨hp, hok⟩

end Otr
