/-
  Proofs.NoPanic — property C13 for the whole conversation model (Otr/Conv.lean): no API call panics from a
  state satisfying the invariant `Inv`, and every API call re-establishes `Inv` (whether it returns or throws).

  Modules:  Proofs.NoPanicBase (invariant `Inv`, `CryptoOK`, `inv_init`, exact-state wp rules, sending path,
            data-message path `receiveDataMessage_inv`),
            Proofs.NoPanicAke  (AKE path: `processAKE_inv`, `processAKE_no_panic`; `sendDHCommit_inv`),
            this file          (`receiveDecoded_inv`, query / whitespace tag / error / plaintext / fragments,
                                `receiveUnit_inv`, send / end / SMP API / extra key, sequences of API calls).

  Main theorems (for every `K : Crypto` with `CryptoOK K`; the only other hypothesis is `Inv K s.conv`):
    receive_no_panic, receive_preserves_inv,
    send_no_panic / send_preserves_inv, endSession_*, startAuthenticate_*, provideAuthenticationSecret_*,
    abortAuthentication_*, useExtraSymmetricKey_*,
    apiCall_inv, api_sequence_no_panic, api_sequence_no_panic_fresh (lists of `ApiStep`s, each with its own
    randomness / signing-oracle tapes and clock).

  Hypothesis on the abstract cryptography:
    `CryptoOK K`   — `GroupOK K` (arithmetic mod the prime p: ModInverse succeeds off the multiples of p, …) and
                     HMAC-SHA256 outputs of ≥ 20 bytes (`macSig[:20]` in revealSig/sig.serialize).
  (An earlier version needed a tape hypothesis `FirstExpOK` for the then reachable panic of `encrypt`; see the
  history note at the end of the sequence section.)
-/
import Proofs.NoPanicAke
import Proofs.Api
set_option linter.unusedSimpArgs false
set_option linter.unusedVariables false
namespace Otr
open ConvData

macro "triv" : tactic => `(tactic| first | trivial | rfl | assumption)

/-! ## small invariant lemmas -/

theorem Inv.setVersion {K : Crypto} {c : Conv} (h : Inv K c) (v : Version) : Inv K { c with version := some v } :=
  ⟨h.smpWF, h.smpNum, h.smpWait, fun he => ⟨by simp, (h.enc he).2⟩, h.ake, fun hv => (by cases hv)⟩

/-- the repaired `receiveDecoded` / `receiveFragment` take back the version (and the peer instance) a rejected
    message had committed the conversation to: harmless when the conversation had a version before, and when it
    had none provided the conversation is not encrypted and no key exchange is under way -/
theorem Inv.unbind {K : Crypto} {c : Conv} (h : Inv K c) (v0 : Option Version) (k0 : Option DsaPub) (t : Nat)
    (hx : v0 = none → c.msgState ≠ .encrypted ∧ ∀ a, c.ake = some a → a.state = .none) :
    Inv K { c with version := if v0.isNone then none else c.version,
                   ourCurrentKey := if v0.isNone then k0 else c.ourCurrentKey, theirTag := t } := by
  cases v0 with
  | none =>
    obtain ⟨hm, ha⟩ := hx rfl
    refine ⟨h.smpWF, h.smpNum, h.smpWait, fun he => absurd he hm, fun a ha' => ?_, fun _ => ha⟩
    have hs : a.state = .none := ha a ha'
    rw [hs]
    trivial
  | some v => exact h.congr rfl rfl rfl rfl rfl rfl rfl

theorem Inv.setOCK {K : Crypto} {c : Conv} (h : Inv K c) (k : DsaPub) : Inv K { c with ourCurrentKey := some k } :=
  ⟨h.smpWF, h.smpNum, h.smpWait, fun he => ⟨(h.enc he).1, (h.enc he).2.1, by simp, (h.enc he).2.2.2⟩,
    fun a ha => (h.ake a ha).mono (fun _ => by simp), h.akeVer⟩

/-! ## version commitment, headers -/

theorem commitToVersionFrom_inv (K : Crypto) (vs : Nat) (s : MState) (h : Inv K s.conv) :
    wp (commitToVersionFrom vs)
      (fun r s' => Inv K s'.conv ∧ s'.env = s.env ∧ (s.conv.version ≠ none → s'.conv.version ≠ none) ∧
        ((∃ a, r = .ok a) → s'.conv.version ≠ none)) NoP s := by
  unfold commitToVersionFrom setKeyMatchingVersion
  wpx
  all_goals
    refine ⟨?_, by first | trivial | rfl, ?_, ?_⟩
    · first | exact h | exact (h.setVersion _).setOCK _ | exact h.setVersion _
    · intro hv; first | exact hv | simp
    · intro hx
      first
        | (simp; done)
        | (rename_i hs; intro hn; rw [hn] at hs; exact absurd hs (by simp))
        | (obtain ⟨a, ha⟩ := hx; cases ha)

theorem malformedMessage_inv (K : Crypto) (s : MState) (h : Inv K s.conv) :
    wp malformedMessage (fun r s' => Inv K s'.conv ∧ s'.conv.version = s.conv.version ∧ s'.env = s.env ∧ r = .ok ())
      NoP s := by
  unfold malformedMessage generatePotentialErrorMessage msgEvent
  wpx
  all_goals
    refine ⟨?_, by first | trivial | rfl, by first | trivial | rfl, by first | trivial | rfl⟩
    first | exact h | exact h.congr rfl rfl rfl rfl rfl rfl rfl

theorem verifyInstanceTags_inv (K : Crypto) (their our : Nat) (s : MState) (h : Inv K s.conv) :
    wp (verifyInstanceTags their our)
      (fun _ s' => Inv K s'.conv ∧ s'.conv.version = s.conv.version ∧ s'.env = s.env) NoP s := by
  unfold verifyInstanceTags malformedMessage generatePotentialErrorMessage msgEvent
  wpx
  all_goals
    refine ⟨?_, by triv, by triv⟩
    first | exact h | exact h.congr rfl rfl rfl rfl rfl rfl rfl

theorem parseMessageHeader_inv (K : Crypto) (msg : Bytes) (s : MState) (h : Inv K s.conv)
    (hv : s.conv.version ≠ none) :
    wp (parseMessageHeader msg) (fun _ s' => Inv K s'.conv ∧ s'.conv.version = s.conv.version) NoP s := by
  unfold parseMessageHeader
  simp only [wp_bind, wp_getc]
  split
  · rename_i hn; exact absurd hn hv
  · wpx <;> exact ⟨h, by triv⟩
  · simp only [wp_ite', wp_bind, wp_throw, wp_pure]
    refine ⟨fun _ => ?_, fun _ => ?_⟩
    · refine wp_mono _ _ _ _ _ _ (malformedMessage_inv K s h) ?_ (fun _ hs => hs)
      rintro r s1 ⟨h1, hv1, -, rfl⟩
      exact ⟨h1, hv1⟩
    · split
      · exact ⟨h, rfl⟩
      · split
        · exact ⟨h, rfl⟩
        · simp only [wp_bind, wp_pure]
          refine wp_mono _ _ _ _ _ _ (verifyInstanceTags_inv K _ _ s h) ?_ (fun _ hs => hs)
          rintro r s1 ⟨h1, hv1, -⟩
          cases r <;> exact ⟨h1, hv1⟩

theorem checkVersion_inv (K : Crypto) (msg : Bytes) (s : MState) (h : Inv K s.conv) :
    wp (checkVersion msg)
      (fun r s' => Inv K s'.conv ∧ (s.conv.version ≠ none → s'.conv.version ≠ none) ∧
        ((∃ a, r = .ok a) → s'.conv.version ≠ none)) NoP s := by
  unfold checkVersion
  split
  · exact ⟨h, fun hv => hv, by rintro ⟨a, ha⟩; cases ha⟩
  · simp only [wp_bind]
    refine wp_mono _ _ _ _ _ _ (commitToVersionFrom_inv K _ s h) ?_ (fun _ hs => hs)
    rintro r s1 ⟨h1, -, hv1, hok1⟩
    cases r with
    | error e => exact ⟨h1, hv1, by rintro ⟨a, ha⟩; cases ha⟩
    | ok u =>
      have hv := hok1 ⟨_, rfl⟩
      simp only [wp_bind, wp_getc]
      split
      · rename_i hn; exact absurd hn hv
      · wpx <;> exact ⟨h1, fun _ => hv, fun _ => hv⟩

/-! ## `receiveDecoded` -/

/-- postcondition of the receive functions that return `(plain, toSend, err)`: the invariant, and a version is
    set whenever there is something to send (so that `fragEncode` can fragment) -/
def RecvPost (K : Crypto) (r : Except Err (Option Bytes × List Bytes × Option Err)) (s' : MState) : Prop :=
  Inv K s'.conv ∧ ∀ p ts e, r = .ok (p, ts, e) → ts = [] ∨ s'.conv.version ≠ none

/-! frames: parsing a header (committing to a version, adopting instance tags) leaves the message state and
    the AKE context alone -/

theorem malformedMessage_ctx : Stable AkeCtxFrame malformedMessage := by
  unfold malformedMessage generatePotentialErrorMessage msgEvent
  stable []

theorem verifyInstanceTags_ctx (their our : Nat) : Stable AkeCtxFrame (verifyInstanceTags their our) := by
  unfold verifyInstanceTags msgEvent
  stable [malformedMessage_ctx]

theorem commitToVersionFrom_ctx (vs : Nat) : Stable AkeCtxFrame (commitToVersionFrom vs) := by
  unfold commitToVersionFrom setKeyMatchingVersion
  stable []

theorem checkVersion_ctx (msg : Bytes) : Stable AkeCtxFrame (checkVersion msg) := by
  unfold checkVersion
  stable [commitToVersionFrom_ctx]

theorem parseMessageHeader_ctx (msg : Bytes) : Stable AkeCtxFrame (parseMessageHeader msg) := by
  unfold parseMessageHeader
  stable [malformedMessage_ctx, verifyInstanceTags_ctx]

theorem parseFragmentPrefix_ctx (data : Bytes) : Stable AkeCtxFrame (parseFragmentPrefix data) := by
  unfold parseFragmentPrefix
  stable [commitToVersionFrom_ctx, verifyInstanceTags_ctx]

/-- a `wp` fact together with the run it speaks about -/
theorem wp_with_run {α} (x : M α) (Q : Except Err α → MState → Prop) (S : String → Prop) (s : MState)
    (h : wp x Q S s) : wp x (fun r s' => Q r s' ∧ runM x s = .ok (r, s')) S s := by
  unfold wp at *
  rw [run'_eq_runM] at *
  cases hx : runM x s with
  | panic p => rw [hx] at h; exact h
  | ok v =>
    obtain ⟨r, s'⟩ := v
    rw [hx] at h
    exact ⟨h, rfl⟩

/-- postcondition of `receiveDecodedCore` from the state `s`: the invariant; a version is set whenever there is
    something to send; and when the conversation had no version and the message is rejected (an error, or a data
    message outside a private conversation) there is nothing to send, the conversation is not encrypted and no
    key exchange is under way — so that `receiveDecoded` may take the version back -/
def CorePost (K : Crypto) (s : MState)
    (r : Except Err (Option Bytes × List Bytes × Option Err × Bool)) (s' : MState) : Prop :=
  Inv K s'.conv ∧ ∀ p ts e rej, r = .ok (p, ts, e, rej) →
    (ts = [] ∨ s'.conv.version ≠ none) ∧
    (s.conv.version = none → (e.isSome || rej) = true →
      ts = [] ∧ s'.conv.msgState ≠ .encrypted ∧ ∀ a, s'.conv.ake = some a → a.state = .none)

theorem receiveDecodedCore_inv (K : Crypto) (hK : CryptoOK K) (msg : Bytes) (s : MState) (h : Inv K s.conv) :
    wp (receiveDecodedCore K msg) (CorePost K s) NoP s := by
  -- what a state with the message state and AKE context of `s` satisfies when `s` has no version
  have hkeep : ∀ s1 : MState, (s1.conv.msgState, s1.conv.ake) = (s.conv.msgState, s.conv.ake) →
      s.conv.version = none →
      s1.conv.msgState ≠ .encrypted ∧ ∀ a, s1.conv.ake = some a → a.state = .none := by
    intro s1 hk hv
    obtain ⟨hk1, hk2⟩ := Prod.mk.inj hk
    refine ⟨?_, ?_⟩
    · rw [hk1]; intro he; exact (h.enc he).1 hv
    · rw [hk2]; exact h.akeVer hv
  unfold receiveDecodedCore
  simp only [wp_bind, wp_getc, wp_tryCatch]
  refine wp_mono _ _ _ _ _ _ (wp_stable _ _ _ _ _ (checkVersion_inv K msg s h) (checkVersion_ctx msg)) ?_
    (fun _ hs => hs)
  rintro r s1 ⟨⟨h1, -, hok1⟩, hk1⟩
  cases r with
  | error e =>
    simp only [wp_pure]
    refine ⟨h1, fun p ts e rej he => ?_⟩
    cases he
    exact ⟨Or.inl rfl, fun hv _ => ⟨rfl, hkeep s1 hk1 hv⟩⟩
  | ok u =>
    have hv1 := hok1 ⟨_, rfl⟩
    simp only [wp_pure, wp_bind, wp_tryCatch]
    refine wp_mono _ _ _ _ _ _ (wp_stable _ _ _ _ _ (parseMessageHeader_inv K msg s1 h1 hv1)
      (parseMessageHeader_ctx msg)) ?_ (fun _ hs => hs)
    rintro r s2 ⟨⟨h2, hv2⟩, hk2⟩
    have hv2' : s2.conv.version ≠ none := by rw [hv2]; exact hv1
    have hk2' : (s2.conv.msgState, s2.conv.ake) = (s.conv.msgState, s.conv.ake) :=
      (show _ = _ from hk2).trans hk1
    cases r with
    | error e =>
      simp only [wp_pure]
      refine ⟨h2, fun p ts e rej he => ?_⟩
      cases he
      exact ⟨Or.inl rfl, fun hv _ => ⟨rfl, hkeep s2 hk2' hv⟩⟩
    | ok hb =>
      obtain ⟨header, body⟩ := hb
      simp only [wp_pure, wp_ite']
      refine ⟨fun _ => ?_, fun _ => ?_⟩
      · -- a data message
        simp only [wp_bind]
        by_cases hv : s.conv.version = none
        · obtain ⟨hm2, ha2⟩ := hkeep s2 hk2' hv
          refine wp_of_runM _ _ _ _ _ _ (c06_recv_not_encrypted K header body s2 hm2) ?_
          simp only [wp_pure]
          refine ⟨h2.congr rfl rfl rfl rfl rfl rfl rfl, fun p ts e rej he => ?_⟩
          simp only [Except.ok.injEq, Prod.mk.injEq] at he
          obtain ⟨-, hts, -, -⟩ := he
          exact ⟨Or.inl hts.symm, fun _ _ => ⟨hts.symm, hm2, ha2⟩⟩
        · refine wp_mono _ _ _ _ _ _ (receiveDataMessage_inv K hK.group header body s2 ⟨h2, hv2'⟩) ?_
            (fun _ hs => hs)
          rintro r s3 ⟨⟨h3, hv3⟩, x, rfl⟩
          simp only [wp_pure]
          exact ⟨h3, fun p ts e rej he => ⟨Or.inr hv3, fun hv' => absurd hv' hv⟩⟩
      · -- an AKE message
        simp only [wp_bind, wp_getc]
        refine wp_mono _ _ _ _ _ _ (wp_with_run _ _ _ _ (processAKE_inv K hK _ body s2 h2 hv2')) ?_ (fun _ hs => hs)
        rintro r s3 ⟨⟨h3, hv3⟩, hrun⟩
        cases r with
        | error e => exact ⟨h3, fun p ts e rej he => by cases he⟩
        | ok x =>
          obtain ⟨msgs, err⟩ := x
          -- without a version no exchange is under way: the message state stays, and the state stays `none`
          -- when the message is rejected or ignored
          have hquiet : s.conv.version = none → s3.conv.msgState ≠ .encrypted := by
            intro hv
            obtain ⟨hm2, ha2⟩ := hkeep s2 hk2' hv
            have hst : authStateOf s2.conv = .none := by
              unfold authStateOf
              cases hc : s2.conv.ake with
              | none => rfl
              | some a => exact ha2 a hc
            have hq := processAKE_quiet K _ body s2 _ s3 hrun (by
              rw [hst]
              rintro (⟨-, hx⟩ | ⟨-, rs, hx⟩) <;> cases hx)
            unfold quietKept at hq
            simp only [Prod.mk.injEq] at hq
            rw [hq.1]; exact hm2
          have hrej : s.conv.version = none → err.isSome = true →
              msgs = [] ∧ ∀ a, s3.conv.ake = some a → a.state = .none := by
            intro hv he
            obtain ⟨e, rfl⟩ := Option.isSome_iff_exists.1 he
            exact processAKE_none_rejected K _ body s2 s3 msgs e (hkeep s2 hk2' hv).2 hrun
          have hign : s.conv.version = none →
              ((match s3.conv.ake with | some a => a.state.toNat | none => 0) ==
                (match s2.conv.ake with | some a => a.state.toNat | none => 0)) = true →
              ∀ a, s3.conv.ake = some a → a.state = .none := by
            intro hv hk a ha3
            have h0 : (match s2.conv.ake with | some a => a.state.toNat | none => 0) = 0 := by
              cases hc : s2.conv.ake with
              | none => rfl
              | some a2 => simp only [(hkeep s2 hk2' hv).2 a2 hc]; rfl
            rw [h0, ha3] at hk
            have hz : a.state.toNat = 0 := by simpa using hk
            cases hs : a.state <;> rw [hs] at hz <;> first | rfl | cases hz
          simp only [msgEventErr, wp_bind, wp_ite', wp_ev, wp_pure, wp_getc]
          refine ⟨fun _ => ?_, fun _ => ?_⟩
          all_goals
            refine ⟨h3, fun p ts e rej he => ?_⟩
            simp only [Except.ok.injEq, Prod.mk.injEq] at he
            obtain ⟨-, rfl, rfl, rfl⟩ := he
            refine ⟨Or.inr hv3, fun hv hc => ?_⟩
            cases err with
            | some e =>
              obtain ⟨q1, q2⟩ := hrej hv rfl
              exact ⟨q1, hquiet hv, q2⟩
            | none =>
              simp only [Option.isSome_none, Option.isNone_none, Bool.false_or, Bool.true_and,
                Bool.and_eq_true] at hc
              exact ⟨List.isEmpty_iff.1 hc.1, hquiet hv, hign hv hc.2⟩

theorem receiveDecoded_inv (K : Crypto) (hK : CryptoOK K) (msg : Bytes) (s : MState) (h : Inv K s.conv) :
    wp (receiveDecoded K msg) (RecvPost K) NoP s := by
  unfold receiveDecoded
  simp only [wp_bind, wp_getc]
  refine wp_mono _ _ _ _ _ _ (receiveDecodedCore_inv K hK msg s h) ?_ (fun _ hs => hs)
  rintro r s1 ⟨h1, hpost⟩
  cases r with
  | error e => exact ⟨h1, fun p ts e he => by cases he⟩
  | ok x =>
    obtain ⟨p, ts, err, rej⟩ := x
    obtain ⟨hts, hextra⟩ := hpost p ts err rej rfl
    simp only [wp_ite', wp_bind, wp_modc, wp_pure]
    refine ⟨fun hc => ?_, fun _ => ⟨h1, fun p' ts' e' he => ?_⟩⟩
    · refine ⟨h1.unbind s.conv.version s.conv.ourCurrentKey s.conv.theirTag (fun hv => (hextra hv hc).2),
        fun p' ts' e' he => ?_⟩
      simp only [Except.ok.injEq, Prod.mk.injEq] at he
      obtain ⟨-, rfl, -⟩ := he
      cases hv : s.conv.version with
      | none => exact Or.inl (hextra hv hc).1
      | some v =>
        rcases hts with hts | hts
        · exact Or.inl hts
        · right
          show (if (some v).isNone = true then none else s1.conv.version) ≠ none
          simpa using hts
    · simp only [Except.ok.injEq, Prod.mk.injEq] at he
      obtain ⟨-, rfl, -⟩ := he
      exact hts

/-! ## query, whitespace tag, error, plaintext -/

/-- postcondition of the functions that return `(toSend, err)` -/
def SendPost (K : Crypto) (r : Except Err (List Bytes × Option Err)) (s' : MState) : Prop :=
  Inv K s'.conv ∧ ∀ ts e, r = .ok (ts, e) → ts = [] ∨ s'.conv.version ≠ none

/-- commit to a version, then start the AKE: the common part of the query and whitespace-tag paths -/
theorem startAKE_inv (K : Crypto) (s : MState) (h : Inv K s.conv) (hv : s.conv.version ≠ none) :
    wp (tryCatch (do let m ← sendDHCommit K; pure (Except.ok m)) (fun e => pure (Except.error e)))
      (fun _ s' => Inv K s'.conv ∧ s'.conv.version ≠ none) NoP s := by
  simp only [wp_tryCatch, wp_bind]
  refine wp_mono _ _ _ _ _ _ (sendDHCommit_inv K s h hv) ?_ (fun _ hs => hs)
  rintro r s1 ⟨h1, hv1⟩
  have hv1' : s1.conv.version ≠ none := by rw [hv1]; exact hv
  cases r <;> exact ⟨h1, hv1'⟩

theorem receiveQueryMessage_inv (K : Crypto) (msg : Bytes) (s : MState) (h : Inv K s.conv) :
    wp (receiveQueryMessage K msg) (SendPost K) NoP s := by
  unfold receiveQueryMessage
  simp only [wp_bind, wp_getc, wp_tryCatch]
  refine wp_mono _ _ _ _ _ _ (commitToVersionFrom_inv K _ s h) ?_ (fun _ hs => hs)
  rintro r s1 ⟨h1, he1, -, hok1⟩
  cases r with
  | error e =>
    simp only [wp_pure]
    exact ⟨h1, fun ts e he => by cases he; exact Or.inl rfl⟩
  | ok u =>
    have hv1 := hok1 ⟨_, rfl⟩
    simp only [wp_pure, wp_bind, wp_getc, wp_now, wp_ite']
    refine ⟨fun _ => ⟨h1, fun ts e he => Or.inr hv1⟩, fun _ => ?_⟩
    refine wp_mono _ _ _ _ _ _ (startAKE_inv K s1 h1 hv1) ?_ (fun _ hs => hs)
    rintro r s2 ⟨h2, hv2⟩
    cases r with
    | error e => exact ⟨h2, fun ts e he => by cases he⟩
    | ok x =>
      cases x with
      | ok m => exact ⟨h2, fun ts e he => Or.inr hv2⟩
      | error e =>
        simp only [msgEventErr, wp_bind, wp_ev, wp_pure]
        exact ⟨h2, fun ts e he => Or.inr hv2⟩

theorem checkPlaintextPolicies_inv (K : Crypto) (plain : Bytes) (s : MState) (h : Inv K s.conv) :
    wp (checkPlaintextPolicies plain)
      (fun _ s' => Inv K s'.conv ∧ s'.conv.version = s.conv.version) NoP s := by
  unfold checkPlaintextPolicies msgEventMsg
  wpx
  all_goals
    refine ⟨?_, by triv⟩
    first | exact h | exact h.congr rfl rfl rfl rfl rfl rfl rfl

theorem receiveTaggedPlaintext_inv (K : Crypto) (msg : Bytes) (s : MState) (h : Inv K s.conv) :
    wp (receiveTaggedPlaintext K msg) (RecvPost K) NoP s := by
  unfold receiveTaggedPlaintext
  simp only [wp_bind, wp_getc, wp_ite']
  have hfin : ∀ (ts : List Bytes) (err : Option Err) (s1 : MState), Inv K s1.conv →
      (ts = [] ∨ s1.conv.version ≠ none) →
      wp (do checkPlaintextPolicies (extractWhitespaceTag msg).1
             return (some (extractWhitespaceTag msg).1, ts, err)) (RecvPost K) NoP s1 := by
    intro ts err s1 h1 hts
    simp only [wp_bind, wp_pure]
    refine wp_mono _ _ _ _ _ _ (checkPlaintextPolicies_inv K _ s1 h1) ?_ (fun _ hs => hs)
    rintro r s2 ⟨h2, hv2⟩
    cases r with
    | error e => exact ⟨h2, fun p ts e he => by cases he⟩
    | ok u =>
      refine ⟨h2, fun p ts' e he => ?_⟩
      simp only [Except.ok.injEq, Prod.mk.injEq] at he
      rw [← he.2.1, hv2]; exact hts
  simp only [wp_bind, wp_pure] at hfin
  refine ⟨fun _ => ?_, fun _ => ?_⟩
  · simp only [wp_pure]
    exact hfin [] none s h (Or.inl rfl)
  · simp only [wp_bind, wp_tryCatch]
    refine wp_mono _ _ _ _ _ _ (commitToVersionFrom_inv K _ s h) ?_ (fun _ hs => hs)
    rintro r s1 ⟨h1, he1, -, hok1⟩
    cases r with
    | error e =>
      simp only [wp_pure, wp_bind]
      exact hfin [] _ s1 h1 (Or.inl rfl)
    | ok u =>
      have hv1 := hok1 ⟨_, rfl⟩
      simp only [wp_pure, wp_bind]
      refine wp_mono _ _ _ _ _ _ (startAKE_inv K s1 h1 hv1) ?_ (fun _ hs => hs)
      rintro r s2 ⟨h2, hv2⟩
      cases r with
      | error e => exact ⟨h2, fun p ts e he => by cases he⟩
      | ok x =>
        cases x with
        | ok m =>
          simp only [wp_bind, wp_pure]
          exact hfin _ _ s2 h2 (Or.inr hv2)
        | error e =>
          simp only [msgEventErr, wp_bind, wp_ev, wp_pure]
          exact hfin _ _ _ (by exact h2) (by exact Or.inr hv2)

theorem receiveErrorMessage_inv (K : Crypto) (msg : Bytes) (s : MState) (h : Inv K s.conv) :
    wp (receiveErrorMessage msg) (fun _ s' => Inv K s'.conv) NoP s := by
  unfold receiveErrorMessage msgEventMsg
  wpx
  all_goals first | exact h | exact h.congr rfl rfl rfl rfl rfl rfl rfl

theorem withInjects_inv (K : Crypto) (vms : List Bytes) (s : MState) (h : Inv K s.conv) :
    wp (withInjects vms) (fun _ s' => Inv K s'.conv) NoP s := by
  unfold withInjects
  wpx
  exact h.congr rfl rfl rfl rfl rfl rfl rfl

/-- `toSendEncoded` does not touch the state; it needs the version only when there is something to send -/
theorem toSendEncoded_inv (toSend : List Bytes) (err : Option Err) (s : MState)
    (hts : toSend = [] ∨ s.conv.version ≠ none) :
    wp (toSendEncoded toSend err) (fun _ s' => s' = s) NoP s := by
  unfold toSendEncoded
  simp only [wp_ite', wp_pure]
  refine ⟨fun _ => by triv, fun _ => ?_⟩
  split
  · triv
  · rename_i first rest
    have hv : s.conv.version ≠ none := by
      rcases hts with hts | hts
      · cases hts
      · exact hts
    simp only [wp_ite', wp_pure, wp_bind]
    refine ⟨fun _ => by triv, fun _ => ?_⟩
    refine wp_mono _ (fun _ s' => s' = s) _ _ _ _
      (wp_forIn _ _ (fun s' => s' = s) NoP ?_ _ _ rfl) ?_ (fun _ hs => hs)
    · intro ts _ g s1 hs1
      subst hs1
      simp only [wp_bind]
      refine wp_fragEncode _ _ _ hv ?_
      intro r
      rfl
    · intro r s1 hs1
      cases r with
      | error e => exact hs1
      | ok out => exact hs1

/-! ## fragments -/

theorem parseFragmentPrefix_inv (K : Crypto) (data : Bytes) (s : MState) (h : Inv K s.conv) :
    wp (parseFragmentPrefix data) (fun _ s' => Inv K s'.conv ∧ s'.env = s.env) NoP s := by
  unfold parseFragmentPrefix
  simp only [wp_bind, wp_tryCatch]
  refine wp_mono _ _ _ _ _ _ (commitToVersionFrom_inv K _ s h) ?_ (fun _ hs => hs)
  rintro r s1 ⟨h1, he1, -, hok1⟩
  cases r with
  | error e =>
    simp only [wp_pure, wp_bind, wp_ite']
    refine ⟨fun _ => ⟨h1, he1⟩, fun hx => ?_⟩
    exact absurd rfl hx
  | ok u =>
    have hv1 := hok1 ⟨_, rfl⟩
    simp only [wp_pure, wp_bind, wp_ite', wp_getc]
    refine ⟨fun hx => (by cases hx), fun _ => ?_⟩
    split
    · rename_i hn; exact absurd hn hv1
    · wpx <;> exact ⟨h1, he1⟩
    · simp only [wp_ite', wp_pure]
      refine ⟨fun _ => ⟨h1, he1⟩, fun _ => ?_⟩
      split
      · split
        · simp only [wp_bind, wp_tryCatch]
          refine wp_mono _ _ _ _ _ _ (verifyInstanceTags_inv K _ _ s1 h1) ?_ (fun _ hs => hs)
          rintro r s2 ⟨h2, -, he2⟩
          have he2' : s2.env = s.env := he2.trans he1
          cases r with
          | error e =>
            cases e <;> (simp only [wp_pure]; first | exact ⟨h2, he2'⟩ | (split <;> exact ⟨h2, he2'⟩))
          | ok u =>
            simp only [wp_pure]
            first | exact ⟨h2, he2'⟩ | (split <;> exact ⟨h2, he2'⟩)
        · exact ⟨h1, he1⟩
      · exact ⟨h1, he1⟩

theorem receiveFragment_inv (K : Crypto) (before : FragCtx) (data : Bytes) (s : MState) (h : Inv K s.conv) :
    wp (receiveFragment before data) (fun _ s' => Inv K s'.conv ∧ s'.env = s.env) NoP s := by
  unfold receiveFragment
  simp only [wp_bind, wp_getc]
  refine wp_mono _ _ _ _ _ _ (wp_stable _ _ _ _ _ (parseFragmentPrefix_inv K data s h) (parseFragmentPrefix_ctx data))
    ?_ (fun _ hs => hs)
  rintro r s1 ⟨⟨h1, he1⟩, hk1⟩
  have hun : Inv K { s1.conv with
      version := if s.conv.version.isNone then none else s1.conv.version,
      ourCurrentKey := if s.conv.version.isNone then s.conv.ourCurrentKey else s1.conv.ourCurrentKey,
      theirTag := s.conv.theirTag } := by
    refine h1.unbind s.conv.version s.conv.ourCurrentKey s.conv.theirTag (fun hv => ?_)
    obtain ⟨hk1, hk2⟩ := Prod.mk.inj (show (s1.conv.msgState, s1.conv.ake) = (s.conv.msgState, s.conv.ake) from hk1)
    refine ⟨?_, ?_⟩
    · rw [hk1]; intro he; exact (h.enc he).1 hv
    · rw [hk2]; exact h.akeVer hv
  cases r with
  | error e => exact ⟨h1, he1⟩
  | ok x =>
    obtain ⟨body, ignore, ok1⟩ := x
    simp only [msgEvent]
    cases hv0 : s.conv.version with
    | none =>
      simp only [hv0, Option.isNone_none, ↓reduceIte] at hun ⊢
      wpx <;> first | exact ⟨h1, he1⟩ | exact ⟨hun, he1⟩
    | some v0 =>
      simp only [hv0, Option.isNone_some, Bool.false_eq_true, ↓reduceIte] at hun ⊢
      wpx <;> first | exact ⟨h1, he1⟩ | exact ⟨hun, he1⟩

/-! ## `receiveUnit`, `receive` -/

theorem finishTail_inv (K : Crypto) (plain : Option Bytes) (toSend : List Bytes) (err : Option Err) (s : MState)
    (h : Inv K s.conv) (hts : toSend = [] ∨ s.conv.version ≠ none) :
    wp (do
        let enc ← toSendEncoded toSend err
        let l ← withInjects enc
        pure ({ plain := plain, toSend := l, err := err } : RecvResult)) (fun _ s' => Inv K s'.conv) NoP s := by
  simp only [wp_bind]
  refine wp_mono _ _ _ _ _ _ (toSendEncoded_inv toSend err s hts) ?_ (fun _ hs => hs)
  rintro r s1 rfl
  cases r with
  | error e => exact h
  | ok enc =>
    refine wp_mono _ _ _ _ _ _ (withInjects_inv K enc s1 h) ?_ (fun _ hs => hs)
    intro r s2 h2
    cases r <;> exact h2

/-- the local function `finish` of `receiveUnit` -/
theorem finish_inv (K : Crypto) (cond : Prop) [Decidable cond] (plain : Option Bytes) (toSend : List Bytes)
    (err : Option Err) (s : MState) (h : Inv K s.conv) (hts : toSend = [] ∨ s.conv.version ≠ none) :
    wp (if cond then do
          modc fun c => { c with fragCtx := FragCtx.empty }
          let enc ← toSendEncoded toSend err
          let l ← withInjects enc
          pure ({ plain := plain, toSend := l, err := err } : RecvResult)
        else do
          let enc ← toSendEncoded toSend err
          let l ← withInjects enc
          pure ({ plain := plain, toSend := l, err := err } : RecvResult)) (fun _ s' => Inv K s'.conv) NoP s := by
  rw [wp_ite']
  refine ⟨fun _ => ?_, fun _ => finishTail_inv K plain toSend err s h hts⟩
  rw [wp_bind, wp_modc]
  exact finishTail_inv K plain toSend err _ (h.congr rfl rfl rfl rfl rfl rfl rfl) hts

theorem receiveUnit_inv (K : Crypto) (hK : CryptoOK K) : ∀ (fuel : Nat) (msg : Bytes) (fg : Bool) (s : MState),
    Inv K s.conv →
    wp (receiveUnit K fuel msg fg) (fun _ s' => Inv K s'.conv) NoP s := by
  intro fuel
  induction fuel with
  | zero =>
    intro msg fg s h
    rw [receiveUnit]
    simp only [wp_bind, wp_mism, wp_pure]
    exact h
  | succ fuel ih =>
    intro msg fg s h
    have hdecoded : wp (match decodeEnvelope msg with
        | none => (if (true && fg) = true then do
              modc fun c => { c with fragCtx := FragCtx.empty }
              let enc ← toSendEncoded [] (some Err.invalidMessage)
              let l ← withInjects enc
              pure ({ plain := none, toSend := l, err := some Err.invalidMessage } : RecvResult)
            else do
              let enc ← toSendEncoded [] (some Err.invalidMessage)
              let l ← withInjects enc
              pure ({ plain := none, toSend := l, err := some Err.invalidMessage } : RecvResult))
        | some decoded => do
          let x ← receiveDecoded K decoded
          if (x.2.2 == some Err.otherInstance) = true then
            (if (false && fg) = true then do
              modc fun c => { c with fragCtx := FragCtx.empty }
              let enc ← toSendEncoded x.2.1 none
              let l ← withInjects enc
              pure ({ plain := x.1, toSend := l, err := none } : RecvResult)
            else do
              let enc ← toSendEncoded x.2.1 none
              let l ← withInjects enc
              pure ({ plain := x.1, toSend := l, err := none } : RecvResult))
          else
            (if (true && fg) = true then do
              modc fun c => { c with fragCtx := FragCtx.empty }
              let enc ← toSendEncoded x.2.1 x.2.2
              let l ← withInjects enc
              pure ({ plain := x.1, toSend := l, err := x.2.2 } : RecvResult)
            else do
              let enc ← toSendEncoded x.2.1 x.2.2
              let l ← withInjects enc
              pure ({ plain := x.1, toSend := l, err := x.2.2 } : RecvResult)))
        (fun _ s' => Inv K s'.conv) NoP s := by
      split
      · exact finish_inv K _ _ _ _ s h (Or.inl rfl)
      · rename_i decoded _
        rw [wp_bind]
        refine wp_mono _ _ _ _ _ _ (receiveDecoded_inv K hK decoded s h) ?_ (fun _ hs => hs)
        rintro r s1 ⟨h1, hts⟩
        cases r with
        | error e => exact h1
        | ok x =>
          obtain ⟨p, ts, e⟩ := x
          have hts' := hts p ts e rfl
          show wp _ _ _ _
          rw [wp_ite']
          exact ⟨fun _ => finish_inv K _ _ _ _ s1 h1 hts', fun _ => finish_inv K _ _ _ _ s1 h1 hts'⟩
    rw [receiveUnit]
    simp only [wp_bind, wp_getc, wp_ite', wp_pure]
    refine ⟨fun _ => h, fun _ => ?_⟩
    split
    · -- error message
      simp only [wp_bind, wp_pure]
      refine wp_mono _ _ _ _ _ _ (receiveErrorMessage_inv K msg s h) ?_ (fun _ hs => hs)
      intro r s1 h1
      cases r with
      | error e => exact h1
      | ok ts =>
        refine wp_mono _ _ _ _ _ _ (withInjects_inv K ts s1 h1) ?_ (fun _ hs => hs)
        intro r s2 h2
        cases r <;> exact h2
    · -- query
      rw [wp_bind]
      refine wp_mono _ _ _ _ _ _ (receiveQueryMessage_inv K msg s h) ?_ (fun _ hs => hs)
      rintro r s1 ⟨h1, hts⟩
      cases r with
      | error e => exact h1
      | ok x =>
        obtain ⟨ts, e⟩ := x
        exact finish_inv K _ _ _ _ s1 h1 (hts ts e rfl)
    · -- whitespace-tagged plaintext
      rw [wp_bind]
      refine wp_mono _ _ _ _ _ _ (receiveTaggedPlaintext_inv K msg s h) ?_ (fun _ hs => hs)
      rintro r s1 ⟨h1, hts⟩
      cases r with
      | error e => exact h1
      | ok x =>
        obtain ⟨p, ts, e⟩ := x
        exact finish_inv K _ _ _ _ s1 h1 (hts p ts e rfl)
    · -- not OTR
      rw [wp_bind]
      refine wp_mono _ _ _ _ _ _ (checkPlaintextPolicies_inv K msg s h) ?_ (fun _ hs => hs)
      rintro r s1 ⟨h1, -⟩
      cases r with
      | error e => exact h1
      | ok u => exact finish_inv K _ _ _ _ s1 h1 (Or.inl rfl)
    · -- v1 key exchange
      exact h
    · -- fragment
      rw [wp_bind, wp_tryCatch, wp_bind]
      refine wp_mono _ _ _ _ _ _ (receiveFragment_inv K _ msg s h) ?_ (fun _ hs => hs)
      rintro r s1 ⟨h1, he1⟩
      have hrec : ∀ (s2 : MState) (frag : Bytes), Inv K s2.conv → s2.env = s.env →
          wp (do
              let r ← receiveUnit K fuel frag false
              let l ← withInjects r.toSend
              pure ({ plain := r.plain, toSend := l, err := r.err } : RecvResult))
            (fun _ s' => Inv K s'.conv) NoP s2 := by
        intro s2 frag h2 he2
        rw [wp_bind]
        refine wp_mono _ _ _ _ _ _ (ih frag false s2 h2) ?_ (fun _ hs => hs)
        intro r s3 h3
        cases r with
        | error e => exact h3
        | ok rr =>
          show wp _ _ _ _
          rw [wp_bind]
          refine wp_mono _ _ _ _ _ _ (withInjects_inv K _ s3 h3) ?_ (fun _ hs => hs)
          intro r s4 h4
          cases r <;> exact h4
      have hfin : ∀ (s2 : MState) (err : Option Err), Inv K s2.conv →
          wp (if (false && fg) = true then do
                modc fun c => { c with fragCtx := FragCtx.empty }
                let enc ← toSendEncoded [] err
                let l ← withInjects enc
                pure ({ plain := none, toSend := l, err := err } : RecvResult)
              else do
                let enc ← toSendEncoded [] err
                let l ← withInjects enc
                pure ({ plain := none, toSend := l, err := err } : RecvResult))
            (fun _ s' => Inv K s'.conv) NoP s2 :=
        fun s2 err h2 => finish_inv K _ none [] err s2 h2 (Or.inl rfl)
      cases r with
      | error e =>
        simp only [wp_pure, wp_bind, wp_getc, wp_ite', wp_modc] at hrec hfin ⊢
        exact ⟨fun _ => hrec _ _ (by exact h1.congr rfl rfl rfl rfl rfl rfl rfl) (by exact he1),
          fun _ => hfin { s1 with conv := { s1.conv with theirTag := s.conv.theirTag } } _
            (by exact h1.congr rfl rfl rfl rfl rfl rfl rfl)⟩
      | ok ctx =>
        simp only [wp_pure, wp_bind, wp_getc, wp_ite', wp_modc] at hrec hfin ⊢
        exact ⟨fun _ => hrec _ _ (by exact h1.congr rfl rfl rfl rfl rfl rfl rfl) (by exact he1),
          fun _ => hfin { s1 with conv := { s1.conv with fragCtx := ctx } } _
            (by exact h1.congr rfl rfl rfl rfl rfl rfl rfl)⟩
    · -- unknown
      simp only [msgEvent, wp_bind, wp_ev]
      exact finish_inv K _ _ _ _ _ h (Or.inl rfl)
    all_goals exact hdecoded

/-- **`Conversation.Receive`** in wp form: no panic, and the invariant holds again whatever the result
    (normal return or thrown error) -/
theorem receive_inv (K : Crypto) (hK : CryptoOK K) (msg : Bytes) (s : MState) (h : Inv K s.conv) :
    wp (receive K msg) (fun _ s' => Inv K s'.conv) NoP s :=
  receiveUnit_inv K hK _ msg true s h

theorem receive_no_panic (K : Crypto) (hK : CryptoOK K) (s : MState) (msg : Bytes) (h : Inv K s.conv) :
    ∀ site, runM (receive K msg) s ≠ .panic site :=
  wp_no_panic _ _ _ (receive_inv K hK msg s h)

theorem receive_preserves_inv (K : Crypto) (hK : CryptoOK K) (s s' : MState) (msg : Bytes)
    (r : Except Err RecvResult) (h : Inv K s.conv)
    (hr : runM (receive K msg) s = .ok (r, s')) : Inv K s'.conv :=
  wp_post _ _ _ _ _ _ (receive_inv K hK msg s h) hr

/-! ## `send`, `endSession` -/

theorem send_inv (K : Crypto) (msg : Bytes) (s : MState) (h : Inv K s.conv) :
    wp (send K msg) (fun _ s' => Inv K s'.conv) NoP s := by
  unfold send
  simp only [wp_bind, wp_getc, wp_ite', wp_pure]
  refine ⟨fun _ => h, fun _ => ?_⟩
  split
  · simp only [appendWhitespaceTag, updateLastSent, resendLater, withInjects, msgEvent]
    wpx
    all_goals first | exact h | exact h.congr rfl rfl rfl rfl rfl rfl rfl
  · simp only [wp_bind, wp_tryCatch]
    refine wp_mono _ _ _ _ _ _ (createSDM_inv K msg _ _ s h) ?_ (fun _ hs => hs)
    rintro r s1 ⟨h1, -, -⟩
    cases r with
    | error e =>
      simp only [withInjects, generatePotentialErrorMessage, msgEvent]
      wpx
      all_goals first | exact h1 | exact h1.congr rfl rfl rfl rfl rfl rfl rfl
    | ok x =>
      simp only [withInjects]
      wpx
      all_goals first | exact h1 | exact h1.congr rfl rfl rfl rfl rfl rfl rfl
  · simp only [withInjects, msgEvent]
    wpx
    all_goals first | exact h | exact h.congr rfl rfl rfl rfl rfl rfl rfl

theorem Inv.endSession {K : Crypto} {c : Conv} (h : Inv K c) (k : Keys) (x : Option Nat) :
    Inv K { c with lastMessageStateChange := x, ake := none, msgState := .plainText, keys := k } :=
  ⟨h.smpWF, h.smpNum, h.smpWait, fun he => (by cases he), fun a ha => (by cases ha), fun _ a ha => (by cases ha)⟩

theorem Inv.smpWipe {K : Crypto} {c : Conv} (h : Inv K c) : Inv K { c with smp := {} } :=
  ⟨by simp [SmpWF], by simp [SmpNumWF], by simp [SmpWaitWF], h.enc, h.ake, h.akeVer⟩

/-- what `endSession` leaves: plaintext, no AKE context, and an SMP context satisfying the invariant -/
theorem Inv.endSession' {K : Crypto} {c c' : Conv} (h : Inv K c) (hm : c'.msgState = .plainText)
    (ha : c'.ake = none) (hs : c'.smp = c.smp) : Inv K c' := by
  refine ⟨?_, ?_, ?_, fun he => ?_, fun a ha' => ?_, fun _ a ha' => ?_⟩
  · have := h.smpWF; unfold SmpWF at *; rw [hs]; exact this
  · have := h.smpNum; unfold SmpNumWF at *; rw [hs]; exact this
  · have := h.smpWait; unfold SmpWaitWF at *; rw [hs]; exact this
  · rw [hm] at he; cases he
  · rw [ha] at ha'; cases ha'
  · rw [ha] at ha'; cases ha'

theorem endSession_inv (K : Crypto) (s : MState) (h : Inv K s.conv) :
    wp (endSession K) (fun _ s' => Inv K s'.conv) NoP s := by
  unfold endSession
  simp only [wp_bind, wp_getc, smpWipe, wp_modc]
  split
  · simp only [wp_bind, wp_tryCatch]
    refine wp_mono _ _ _ _ _ _ (createSDM_inv K _ _ _ _ h.smpWipe) ?_ (fun _ hs => hs)
    rintro r s1 ⟨h1, -, -⟩
    cases r with
    | error e =>
      simp only [secEvent]
      wpx
      all_goals (refine h1.endSession' rfl rfl ?_; first | rfl | (dsimp only; split <;> rfl))
    | ok x =>
      simp only [secEvent]
      wpx
      all_goals (refine h1.endSession' rfl rfl ?_; first | rfl | (dsimp only; split <;> rfl))
  · try simp only [secEvent]
    wpx
    all_goals (refine h.smpWipe.endSession' rfl rfl ?_; first | rfl | (dsimp only; split <;> rfl))

/-! ## the SMP API -/

theorem Inv.smpExpect1 {K : Crypto} {c : Conv} (h : Inv K c) :
    Inv K { c with smp := { c.smp with state := some .expect1 } } := by
  refine ⟨by simp [SmpWF], ?_, by simp [SmpWaitWF], h.enc, h.ake, h.akeVer⟩
  have := h.smpNum
  unfold SmpNumWF at *
  exact this

theorem smpSecretFor_np (K : Crypto) (ini : Bool) (secret : Bytes) (Q : Except Err Nat → MState → Prop) (s : MState)
    (hk : s.conv.theirKey ≠ none) (ho : s.conv.ourCurrentKey ≠ none) (h : ∀ v, Q (.ok v) s) :
    wp (smpSecretFor K ini secret) Q NoP s := by
  unfold smpSecretFor
  wpx
  all_goals first
    | exact h _
    | (rename_i hn; exact absurd hn hk)
    | (rename_i hn; exact absurd hn ho)

theorem startAuthenticateExpect1_np (K : Crypto) (question secret : Bytes) (s : MState) (h : Inv K s.conv) :
    wp (startAuthenticateExpect1 K question secret) (fun _ s' => SmpFrame s.conv s'.conv) NoP s := by
  unfold startAuthenticateExpect1
  simp only [wp_bind, wp_getc, wp_ite', wp_throw]
  refine ⟨fun _ => SmpFrame.refl _, fun he => ?_⟩
  have he : s.conv.msgState = .encrypted := by simpa using he
  obtain ⟨hv, -, ho, hk⟩ := h.enc he
  refine smpSecretFor_np K _ _ _ s hk ho ?_
  intro sec
  simp only [paramLen, wp_bind, wp_modc, wp_getc]
  split
  · simp only [wp_pure, wp_bind]
    apply wp_randMPIs
    intro v s1 hc _
    wpx
    all_goals simp only [SmpFrame, hc]
  · rename_i hn; exact absurd hn hv

theorem startAuthenticateExpect1_inv (K : Crypto) (question secret : Bytes) (s : MState) (h : Inv K s.conv) :
    wp (startAuthenticateExpect1 K question secret) (fun _ s' => Inv K s'.conv) NoP s := by
  have h1 := startAuthenticateExpect1_wf K question secret s h.smpWF
  have h2 := startAuthenticateExpect1_nw K question secret s ⟨h.smpNum, h.smpWait⟩
  have h3 := startAuthenticateExpect1_np K question secret s h
  refine wp_mono _ _ _ _ _ _ (wp_and _ _ _ _ _ _ (wp_and _ _ _ _ _ _ h1 h2) h3) ?_ (fun _ hs => hs.2)
  intro r s' ⟨⟨ha, hb⟩, hf⟩
  exact h.ofSmpFrame hf ha hb.1 hb.2

theorem startAuthenticate_inv (K : Crypto) (question secret : Bytes) (s : MState) (h : Inv K s.conv) :
    wp (startAuthenticate K question secret) (fun _ s' => Inv K s'.conv) NoP s := by
  have hrest : ∀ (s1 : MState) (f : List Tlv → List Tlv), Inv K s1.conv →
      wp (do
          let tlvs ← (do let ts ← startAuthenticateExpect1 K question secret; pure (f ts))
          let x ← createSerializedDataMessage K [] messageFlagIgnoreUnreadable tlvs
          pure x.1) (fun _ s' => Inv K s'.conv) NoP s1 := by
    intro s1 f h1
    simp only [wp_bind]
    refine wp_mono _ _ _ _ _ _ (startAuthenticateExpect1_inv K question secret s1 h1) ?_ (fun _ hs => hs)
    intro r s2 h2
    cases r with
    | error e => exact h2
    | ok ts =>
      simp only [wp_pure]
      refine wp_mono _ _ _ _ _ _ (createSDM_inv K _ _ _ s2 h2) ?_ (fun _ hs => hs)
      rintro r s3 ⟨h3, -, -⟩
      cases r <;> exact h3
  have hrest1 := fun s1 h1 => hrest s1 id h1
  have hrest2 := fun s1 h1 => hrest s1 (fun ts => smpAbortTlv :: ts) h1
  simp only [wp_bind, wp_pure, id] at hrest1 hrest2
  unfold startAuthenticate
  simp only [wp_bind, wp_getc, wp_ite', wp_pure, wp_modc, wp_throw]
  refine ⟨fun _ => h, fun _ => ?_⟩
  refine ⟨fun _ => h, fun _ => ?_⟩
  refine ⟨fun _ => ?_, fun _ => ?_⟩
  · first
      | exact hrest1 _ h.smpExpect1
      | (split
         · exact hrest1 _ h.smpExpect1
         · exact hrest2 _ h.smpExpect1)
  · split
    · simp only [wp_bind, wp_pure]
      exact hrest1 _ h
    · simp only [wp_bind, wp_pure]
      exact hrest2 _ h

theorem continueSMP_np (K : Crypto) (secret : Bytes) (s : MState) (h : Inv K s.conv) :
    wp (continueSMP K secret) (fun _ s' => SmpFrame s.conv s'.conv) NoP s := by
  unfold continueSMP
  simp only [wp_bind, wp_getc]
  split
  · simp only [wp_bind, wp_ite', wp_modc, wp_throw]
    refine ⟨fun _ => rfl, fun he => ?_⟩
    have he : s.conv.msgState = .encrypted := by simpa using he
    obtain ⟨hv, -, ho, hk⟩ := h.enc he
    refine smpSecretFor_np K _ _ _ s hk ho ?_
    intro sec
    simp only [paramLen, wp_bind, wp_modc, wp_getc]
    split
    · simp only [wp_pure, wp_bind]
      apply wp_randMPIs
      intro v s1 hc _
      simp only [smpEvent]
      wpx
      all_goals simp only [SmpFrame, hc]
    · rename_i hn; exact absurd hn hv
  · simp only [wp_bind, wp_modc, wp_throw]
    rfl

theorem continueSMP_inv (K : Crypto) (hK : CryptoOK K) (secret : Bytes) (s : MState) (h : Inv K s.conv) :
    wp (continueSMP K secret) (fun _ s' => Inv K s'.conv) NoP s := by
  have h1 := continueSMP_wf K secret s h.smpWF
  have h2 := continueSMP_num K hK.group secret s h.smpWait h.smpNum
  have h3 := continueSMP_np K secret s h
  refine wp_mono _ _ _ _ _ _ (wp_and _ _ _ _ _ _ (wp_and _ _ _ _ _ _ h1 h2) h3) ?_ (fun _ hs => hs.2)
  intro r s' ⟨⟨ha, hb⟩, hf⟩
  exact h.ofSmpFrame hf ha hb.1 hb.2

theorem provideAuthenticationSecret_inv (K : Crypto) (hK : CryptoOK K) (secret : Bytes) (s : MState)
    (h : Inv K s.conv) : wp (provideAuthenticationSecret K secret) (fun _ s' => Inv K s'.conv) NoP s := by
  unfold provideAuthenticationSecret
  simp only [wp_bind]
  refine wp_mono _ _ _ _ _ _ (continueSMP_inv K hK secret s h) ?_ (fun _ hs => hs)
  intro r s1 h1
  cases r with
  | error e => exact h1
  | ok t =>
    refine wp_mono _ _ _ _ _ _ (createSDM_inv K _ _ _ s1 h1) ?_ (fun _ hs => hs)
    rintro r s2 ⟨h2, -, -⟩
    cases r <;> exact h2

theorem abortAuthentication_inv (K : Crypto) (s : MState) (h : Inv K s.conv) :
    wp (abortAuthentication K) (fun _ s' => Inv K s'.conv) NoP s := by
  unfold abortAuthentication
  simp only [wp_bind, wp_modc]
  refine wp_mono _ _ _ _ _ _ (createSDM_inv K _ _ _ _ h.smpExpect1) ?_ (fun _ hs => hs)
  rintro r s2 ⟨h2, -, -⟩
  cases r <;> exact h2

theorem useExtraSymmetricKey_inv (K : Crypto) (usage : Nat) (usageData : Bytes) (s : MState) (h : Inv K s.conv) :
    wp (useExtraSymmetricKey K usage usageData) (fun _ s' => Inv K s'.conv) NoP s := by
  unfold useExtraSymmetricKey
  simp only [wp_bind, wp_getc, wp_ite', wp_pure, wp_tryCatch]
  refine ⟨fun _ => h, fun _ => ?_⟩
  refine ⟨fun _ => h, fun _ => ?_⟩
  refine wp_mono _ _ _ _ _ _ (createSDM_inv K _ _ _ s h) ?_ (fun _ hs => hs)
  rintro r s2 ⟨h2, -, -⟩
  cases r with
  | error e => exact h2
  | ok x => exact h2

/-! ## sequences of API calls -/

-- `ApiCall`, `ApiCall.run`, `ApiStep`, `runApi`: Proofs.Api (definitions only, shared with Proofs.Events)

theorem wp_drop {α} (x : M α) (Q : MState → Prop) (s : MState) (h : wp x (fun _ s' => Q s') NoP s) :
    wp (do let _ ← x) (fun _ s' => Q s') NoP s := by
  simp only [wp_bind]
  refine wp_mono _ _ _ _ _ _ h ?_ (fun _ hs => hs)
  intro r s' h'
  cases r <;> exact h'

/-- every API call, with any arguments and any environment (randomness tape, signing-oracle tape, clock): no
    panic, and the invariant holds afterwards whether the call returned or threw -/
theorem apiCall_inv (K : Crypto) (hK : CryptoOK K) (call : ApiCall) (s : MState) (h : Inv K s.conv) :
    wp (call.run K) (fun _ s' => Inv K s'.conv) NoP s := by
  cases call with
  | receive m => exact wp_drop _ _ _ (receive_inv K hK m s h)
  | send m => exact wp_drop _ _ _ (send_inv K m s h)
  | endSession => exact wp_drop _ _ _ (endSession_inv K s h)
  | smpStart q sec => exact wp_drop _ _ _ (startAuthenticate_inv K q sec s h)
  | smpSecret sec => exact wp_drop _ _ _ (provideAuthenticationSecret_inv K hK sec s h)
  | smpAbort => exact wp_drop _ _ _ (abortAuthentication_inv K s h)
  | extraKey u d => exact wp_drop _ _ _ (useExtraSymmetricKey_inv K u d s h)
  | sendTlvs text flag tlvs =>
    refine wp_drop _ _ _ ?_
    refine wp_mono _ _ _ _ _ _ (createSDM_inv K text flag tlvs s h) ?_ (fun _ hs => hs)
    rintro r s' ⟨h', -, -⟩
    exact h'
  | setFragmentSize n => exact h.congr rfl rfl rfl rfl rfl rfl rfl

/-- **C13 for the model.**  No sequence of API calls, with arbitrary arguments and arbitrary randomness and
    signing-oracle tapes (including failing and short reads, failing signatures), reaches a panic from a
    conversation satisfying the invariant; the invariant holds at the end. -/
theorem api_sequence_no_panic (K : Crypto) (hK : CryptoOK K) (steps : List ApiStep) :
    ∀ (c : Conv), Inv K c → ∃ c', runApi K c steps = .ok c' ∧ Inv K c' := by
  induction steps with
  | nil => intro c hc; exact ⟨c, rfl, hc⟩
  | cons st rest ih =>
    intro c hc
    have hw := apiCall_inv K hK st.call { conv := c, env := st.env } hc
    unfold runApi
    unfold wp at hw
    rw [run'_eq_runM] at hw
    cases hr : runM (st.call.run K) { conv := c, env := st.env } with
    | panic site => rw [hr] at hw; exact hw.elim
    | ok v =>
      obtain ⟨r, s'⟩ := v
      rw [hr] at hw
      exact ih s'.conv hw

/-- the same from a freshly created conversation (any version preset or none, any policies, any key list incl.
    empty, any fragment size, error handler, query text and instance tag) -/
theorem api_sequence_no_panic_fresh (K : Crypto) (hK : CryptoOK K) (version : Option Version) (policies : Policies)
    (keys : List DsaPub) (fragmentSize : Nat) (errHandler : Bool) (friendlyQuery : Bytes) (ourTag : Nat)
    (steps : List ApiStep) :
    ∃ c', runApi K (freshConv version policies keys fragmentSize errHandler friendlyQuery ourTag) steps = .ok c' ∧
      Inv K c' :=
  api_sequence_no_panic K hK steps _ (inv_init K _ _ _ _ _ _ _)

/-! ## history: the panic that used to be reachable

  Before the repair of `encrypt` (keys.go: `dst[:aes.BlockSize]` on a buffer of `len(data)` bytes), `dhCommitMessage`
  panicked when the 40 random bytes of the secret exponent encoded `x ≤ 87`: `g^x = 2^x < 2^88` has an MPI encoding
  shorter than one AES block.  It was reachable through the public API (a fresh conversation with ALLOW_V2 and one
  key receives `?OTRv2?`, the randomness source answers the 40-byte read with zeros) and was proved in an earlier
  version of this file (`sendDHCommit_panics`, `receive_query_panics`, `receive_query_panics_real`), with a tape
  hypothesis `FirstExpOK` excluding it from the theorems above.  The Go code was repaired (the IV is its own
  buffer) and the model follows (`akeEncrypt` has no panic branch), so the hypothesis is gone. -/

/-! ## the API functions one by one: no panic, invariant preserved -/

theorem send_no_panic (K : Crypto) (s : MState) (msg : Bytes) (h : Inv K s.conv) :
    ∀ site, runM (send K msg) s ≠ .panic site := wp_no_panic _ _ _ (send_inv K msg s h)
theorem send_preserves_inv (K : Crypto) (s s' : MState) (msg : Bytes) (r : Except Err (List Bytes × Option Err))
    (h : Inv K s.conv) (hr : runM (send K msg) s = .ok (r, s')) : Inv K s'.conv :=
  wp_post _ _ _ _ _ _ (send_inv K msg s h) hr

theorem endSession_no_panic (K : Crypto) (s : MState) (h : Inv K s.conv) :
    ∀ site, runM (endSession K) s ≠ .panic site := wp_no_panic _ _ _ (endSession_inv K s h)
theorem endSession_preserves_inv (K : Crypto) (s s' : MState) (r : Except Err (List Bytes × Option Err))
    (h : Inv K s.conv) (hr : runM (endSession K) s = .ok (r, s')) : Inv K s'.conv :=
  wp_post _ _ _ _ _ _ (endSession_inv K s h) hr

theorem startAuthenticate_no_panic (K : Crypto) (s : MState) (question secret : Bytes) (h : Inv K s.conv) :
    ∀ site, runM (startAuthenticate K question secret) s ≠ .panic site :=
  wp_no_panic _ _ _ (startAuthenticate_inv K question secret s h)
theorem startAuthenticate_preserves_inv (K : Crypto) (s s' : MState) (question secret : Bytes)
    (r : Except Err (List Bytes)) (h : Inv K s.conv)
    (hr : runM (startAuthenticate K question secret) s = .ok (r, s')) : Inv K s'.conv :=
  wp_post _ _ _ _ _ _ (startAuthenticate_inv K question secret s h) hr

theorem provideAuthenticationSecret_no_panic (K : Crypto) (hK : CryptoOK K) (s : MState) (secret : Bytes)
    (h : Inv K s.conv) : ∀ site, runM (provideAuthenticationSecret K secret) s ≠ .panic site :=
  wp_no_panic _ _ _ (provideAuthenticationSecret_inv K hK secret s h)
theorem provideAuthenticationSecret_preserves_inv (K : Crypto) (hK : CryptoOK K) (s s' : MState) (secret : Bytes)
    (r : Except Err (List Bytes)) (h : Inv K s.conv)
    (hr : runM (provideAuthenticationSecret K secret) s = .ok (r, s')) : Inv K s'.conv :=
  wp_post _ _ _ _ _ _ (provideAuthenticationSecret_inv K hK secret s h) hr

theorem abortAuthentication_no_panic (K : Crypto) (s : MState) (h : Inv K s.conv) :
    ∀ site, runM (abortAuthentication K) s ≠ .panic site := wp_no_panic _ _ _ (abortAuthentication_inv K s h)
theorem abortAuthentication_preserves_inv (K : Crypto) (s s' : MState) (r : Except Err (List Bytes))
    (h : Inv K s.conv) (hr : runM (abortAuthentication K) s = .ok (r, s')) : Inv K s'.conv :=
  wp_post _ _ _ _ _ _ (abortAuthentication_inv K s h) hr

theorem useExtraSymmetricKey_no_panic (K : Crypto) (s : MState) (usage : Nat) (usageData : Bytes)
    (h : Inv K s.conv) : ∀ site, runM (useExtraSymmetricKey K usage usageData) s ≠ .panic site :=
  wp_no_panic _ _ _ (useExtraSymmetricKey_inv K usage usageData s h)
theorem useExtraSymmetricKey_preserves_inv (K : Crypto) (s s' : MState) (usage : Nat) (usageData : Bytes)
    (r : Except Err (Bytes × List Bytes × Option Err)) (h : Inv K s.conv)
    (hr : runM (useExtraSymmetricKey K usage usageData) s = .ok (r, s')) : Inv K s'.conv :=
  wp_post _ _ _ _ _ _ (useExtraSymmetricKey_inv K usage usageData s h) hr

end Otr
