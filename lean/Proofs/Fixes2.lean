/-
  Proofs.Fixes2 — theorems about the second round of repairs mirrored in the model (Otr/Conv.lean):

  §1  every outcome of `genDataMsgWithFlag` as far as the reveal queue and the resend state are concerned
        (genDataMsgWithFlag_outcome), frames of the rest of the sending path (ResendFrame).
  §2  C19: MAC keys carried over a re-keying are revealed at once — `retransmitAfterCompletedExchange` in the
        completed case (reveal_carried_keys, reveal_carried_keys_outcome, reveal_carried_keys_ready (exact),
        with a concrete instance).
  §3  C08/C18: `End` and the last text of the session (endSession_forgets_last_text, endSession_keeps_waiting).
  §4  C06/C18: no AKE step other than the retransmission after a completed exchange touches what waits for
        retransmission (processAKE_pending_kept).
-/
import Proofs.SendShape
import Proofs.AkeGuard
namespace Otr

/-! ## 1. `genDataMsgWithFlag`: reveal queue and resend state, for every outcome -/

/-- every non-panicking run of `genDataMsgWithFlag`:
    * it throws — then the reveal queue `keys.oldMACKeys` and the resend state are what they were;
    * or it returns a data message — then the conversation was encrypted, the message carries the whole reveal
      queue (`dm.oldMACKeys`), the queue is empty afterwards, `mayRetransmit = no`, and the resend memory is the
      text just sent (if it is non-empty and we are not retransmitting) or unchanged -/
theorem genDataMsgWithFlag_outcome (K : Crypto) (m : Bytes) (flag : Nat) (tlvs : List Tlv) (s : MState)
    (r : Except Err (DataMsg × Bytes)) (s' : MState)
    (h : runM (genDataMsgWithFlag K m flag tlvs) s = .ok (r, s')) :
    (∃ e, r = .error e ∧ s'.conv.mayRetransmit = s.conv.mayRetransmit ∧ s'.conv.resendMsgs = s.conv.resendMsgs ∧
      s'.conv.retransmitting = s.conv.retransmitting ∧ s'.conv.keys.oldMACKeys = s.conv.keys.oldMACKeys) ∨
    (∃ dm x, r = .ok (dm, x) ∧ s.conv.msgState = .encrypted ∧
      dm.oldMACKeys = s.conv.keys.oldMACKeys ∧ s'.conv.keys.oldMACKeys = [] ∧
      s'.conv.mayRetransmit = .no ∧ s'.conv.retransmitting = s.conv.retransmitting ∧
      s'.conv.resendMsgs = if m.length > 0 ∧ s.conv.retransmitting = false then [m] else s.conv.resendMsgs) := by
  by_cases he : s.conv.msgState = .encrypted
  · cases hk : s.conv.keys.deriveSessionKeys K (s.conv.keys.ourKeyID - 1) s.conv.keys.theirKeyID with
    | error e =>
      left
      unfold genDataMsgWithFlag at h
      simp only [runM_bind, runM_getc, bindM_ok, he, ne_eq, not_true_eq_false, ↓reduceIte, hk,
        runM_throw, bindM_error, Res.ok.injEq, Prod.mk.injEq] at h
      obtain ⟨rfl, rfl⟩ := h
      exact ⟨e, rfl, rfl, rfl, rfl, rfl⟩
    | ok sk =>
      rw [genData_run K m flag tlvs s sk he hk] at h
      cases hh : runM (messageHeader msgTypeData) (preHdr K s) with
      | panic p => rw [hh] at h; cases h
      | ok w =>
        obtain ⟨w, s3⟩ := w
        obtain ⟨tg, hc3, -⟩ := messageHeader_conv _ _ _ _ hh
        rw [hh] at h
        cases w with
        | error e =>
          simp only [bindM_error, Res.ok.injEq, Prod.mk.injEq] at h
          obtain ⟨rfl, rfl⟩ := h
          left
          refine ⟨e, rfl, ?_, ?_, ?_, ?_⟩ <;> (rw [hc3]; rfl)
        | ok hdr =>
          simp only [bindM_ok] at h
          unfold genFinish at h
          cases hoc : s3.conv.keys.ourCur with
          | none => simp only [hoc] at h; cases h
          | some p =>
            simp only [hoc, Res.ok.injEq, Prod.mk.injEq] at h
            obtain ⟨rfl, rfl⟩ := h
            right
            refine ⟨_, _, rfl, he, ?_, rfl, rfl, ?_, ?_⟩
            · show s3.conv.keys.oldMACKeys = _
              rw [hc3]; rfl
            · show s3.conv.retransmitting = _
              rw [hc3]; rfl
            · show (if m.length > 0 ∧ s3.conv.retransmitting = false then [m] else s3.conv.resendMsgs) = _
              rw [hc3]; rfl
  · left
    unfold genDataMsgWithFlag at h
    simp only [runM_bind, runM_getc, bindM_ok, he, ne_eq, not_false_eq_true, ↓reduceIte, runM_throw, bindM_error,
      Res.ok.injEq, Prod.mk.injEq] at h
    obtain ⟨rfl, rfl⟩ := h
    exact ⟨_, rfl, rfl, rfl, rfl, rfl⟩

/-- the resend state, the reveal queue and the message state -/
def resendKept (s : MState) :=
  (s.conv.mayRetransmit, s.conv.resendMsgs, s.conv.retransmitting, s.conv.keys.oldMACKeys, s.conv.msgState)

/-- frame: resend state, reveal queue and message state unchanged -/
abbrev ResendFrame : MState → MState → Prop := Keeps resendKept

theorem messageHeader_resend (t : Nat) : Stable ResendFrame (messageHeader t) := by
  intro s r s' h
  obtain ⟨v, hc, -⟩ := messageHeader_conv t s r s' h
  show resendKept s' = resendKept s
  unfold resendKept
  rw [hc]

theorem wrapMessageHeader_resend (t : Nat) (m : Bytes) : Stable ResendFrame (wrapMessageHeader t m) := by
  unfold wrapMessageHeader
  stable [messageHeader_resend]

theorem updateLastSent_resend : Stable ResendFrame updateLastSent := by
  unfold updateLastSent
  stable []

theorem fragEncode_resend (msg : Bytes) : Stable ResendFrame (fragEncode msg) := by
  unfold fragEncode
  stable []

/-! ## 2. C19: MAC keys carried over a re-keying are revealed at once -/

/-- **C19 (repaired code).**  The completed case of `retransmitAfterCompletedExchange` (an exchange was under
    way, is over, no error): when nothing was retransmitted (`maybeRetransmit` returned `[]`), the reveal queue is
    not empty — it holds the MAC keys `akeHasFinished` carried over from the session this exchange has replaced —
    and the empty data message can be generated and given its header, then exactly that one message is returned,
    it carries the whole queue, and the queue is empty afterwards: the carried keys are revealed at once instead
    of waiting (and piling up with every further exchange) until the user says something. -/
theorem reveal_carried_keys (K : Crypto) (before : AuthState) (hb : before ≠ .none)
    (s s1 s2 s' : MState) (dm : DataMsg) (x m : Bytes)
    (h1 : runM (maybeRetransmit K) s = .ok (.ok [], s1))
    (h2 : s1.conv.keys.oldMACKeys ≠ [])
    (h3 : runM (genDataMsgWithFlag K [] messageFlagIgnoreUnreadable []) s1 = .ok (.ok (dm, x), s2))
    (h4 : runM (wrapMessageHeader msgTypeData dm.serialize) s2 = .ok (.ok m, s')) :
    runM (retransmitAfterCompletedExchange K before .none none) s = .ok (.ok [m], s') ∧
    dm.flag = messageFlagIgnoreUnreadable ∧
    dm.oldMACKeys = s1.conv.keys.oldMACKeys ∧ s'.conv.keys.oldMACKeys = [] := by
  have hne : s1.conv.keys.oldMACKeys.isEmpty = false := by
    cases hq : s1.conv.keys.oldMACKeys with
    | nil => exact absurd hq h2
    | cons a b => rfl
  refine ⟨?_, ?_, ?_, ?_⟩
  · rw [retransmitAfterCompletedExchange_completed K before hb]
    unfold retransmitOrReveal
    simp only [runM_bind, h1, bindM_ok, runM_getc, List.isEmpty_nil, hne, Bool.not_false, Bool.and_self,
      ↓reduceIte, runM_tryCatch, h3, h4, runM_pure, catchM_ok]
  · -- the flag is the one passed in
    rcases genDataMsgWithFlag_outcome K _ _ _ s1 _ s2 h3 with ⟨e, he, -⟩ | ⟨dm', x', hr, he, -⟩
    · cases he
    · obtain ⟨sk, hk⟩ : ∃ sk, s1.conv.keys.deriveSessionKeys K (s1.conv.keys.ourKeyID - 1) s1.conv.keys.theirKeyID
          = .ok sk := by
        cases hk : s1.conv.keys.deriveSessionKeys K (s1.conv.keys.ourKeyID - 1) s1.conv.keys.theirKeyID with
        | ok sk => exact ⟨sk, rfl⟩
        | error e =>
          exfalso
          unfold genDataMsgWithFlag at h3
          simp only [runM_bind, runM_getc, bindM_ok, he, ne_eq, not_true_eq_false, ↓reduceIte, hk,
            runM_throw, bindM_error, Res.ok.injEq, Prod.mk.injEq, reduceCtorEq, false_and] at h3
      rw [genData_run K _ _ _ s1 sk he hk] at h3
      obtain ⟨hdr, s3, -, h3⟩ := bindM_ok_inv h3
      unfold genFinish at h3
      cases hoc : s3.conv.keys.ourCur with
      | none => simp only [hoc] at h3; cases h3
      | some p =>
        simp only [hoc, Res.ok.injEq, Prod.mk.injEq, Except.ok.injEq] at h3
        rw [← h3.1.1]
  · rcases genDataMsgWithFlag_outcome K _ _ _ s1 _ s2 h3 with ⟨e, he, -⟩ | ⟨dm', x', hr, -, hq, -⟩
    · cases he
    · cases hr; exact hq
  · rcases genDataMsgWithFlag_outcome K _ _ _ s1 _ s2 h3 with ⟨e, he, -⟩ | ⟨dm', x', hr, -, -, hq, -⟩
    · cases he
    · have hk := wrapMessageHeader_resend _ _ s2 _ s' h4
      simp only [Keeps, resendKept, Prod.mk.injEq] at hk
      rw [hk.2.2.2.1]; exact hq

/-- the same read off the outcome alone: in the completed case with nothing retransmitted and a non-empty reveal
    queue, whenever anything at all is returned the reveal queue is empty afterwards (and if nothing is
    returned — the data message could not be generated, the error is swallowed — the queue is untouched) -/
theorem reveal_carried_keys_outcome (K : Crypto) (before : AuthState) (hb : before ≠ .none)
    (s s1 s' : MState) (msgs : List Bytes)
    (h1 : runM (maybeRetransmit K) s = .ok (.ok [], s1))
    (h2 : s1.conv.keys.oldMACKeys ≠ [])
    (h : runM (retransmitAfterCompletedExchange K before .none none) s = .ok (.ok msgs, s')) :
    (msgs ≠ [] → s'.conv.keys.oldMACKeys = []) ∧
    (msgs = [] → s'.conv.keys.oldMACKeys = s1.conv.keys.oldMACKeys) := by
  have hne : s1.conv.keys.oldMACKeys.isEmpty = false := by
    cases hq : s1.conv.keys.oldMACKeys with
    | nil => exact absurd hq h2
    | cons a b => rfl
  rw [retransmitAfterCompletedExchange_completed K before hb] at h
  unfold retransmitOrReveal at h
  simp only [runM_bind, h1, bindM_ok, runM_getc, List.isEmpty_nil, hne, Bool.not_false, Bool.and_self,
    ↓reduceIte, runM_tryCatch] at h
  cases h3 : runM (genDataMsgWithFlag K [] messageFlagIgnoreUnreadable []) s1 with
  | panic p => rw [h3] at h; cases h
  | ok v =>
    obtain ⟨v, s2⟩ := v
    rw [h3] at h
    rcases genDataMsgWithFlag_outcome K _ _ _ s1 _ s2 h3 with ⟨e, he, -, -, -, hq⟩ | ⟨dm, x, hr, -, -, hq, -⟩
    · subst he
      simp only [bindM_error, catchM_error, runM_pure, Res.ok.injEq, Prod.mk.injEq, Except.ok.injEq] at h
      obtain ⟨rfl, rfl⟩ := h
      exact ⟨fun hn => absurd rfl hn, fun _ => hq⟩
    · subst hr
      simp only [bindM_ok] at h
      cases h4 : runM (wrapMessageHeader msgTypeData dm.serialize) s2 with
      | panic p => rw [h4] at h; cases h
      | ok w =>
        obtain ⟨w, s3⟩ := w
        have hk := wrapMessageHeader_resend _ _ s2 _ s3 h4
        simp only [Keeps, resendKept, Prod.mk.injEq] at hk
        rw [h4] at h
        cases w with
        | error e =>
          simp only [bindM_error, catchM_error, runM_pure, Res.ok.injEq, Prod.mk.injEq, Except.ok.injEq] at h
          obtain ⟨rfl, rfl⟩ := h
          -- the header failed after the message was generated: the queue is already empty
          refine ⟨fun hn => absurd rfl hn, fun _ => ?_⟩
          exfalso
          -- cannot happen: the same header was computed inside `genDataMsgWithFlag` (tag set by then)
          obtain ⟨sk, hk'⟩ : ∃ sk, s1.conv.keys.deriveSessionKeys K (s1.conv.keys.ourKeyID - 1)
              s1.conv.keys.theirKeyID = .ok sk := by
            cases hk' : s1.conv.keys.deriveSessionKeys K (s1.conv.keys.ourKeyID - 1) s1.conv.keys.theirKeyID with
            | ok sk => exact ⟨sk, rfl⟩
            | error e' =>
              exfalso
              have he1 : s1.conv.msgState = .encrypted := by
                rcases genDataMsgWithFlag_outcome K _ _ _ s1 _ s2 h3 with ⟨_, he, -⟩ | ⟨_, _, _, he, -⟩
                · cases he
                · exact he
              unfold genDataMsgWithFlag at h3
              simp only [runM_bind, runM_getc, bindM_ok, he1, ne_eq, not_true_eq_false, ↓reduceIte, hk',
                runM_throw, bindM_error, Res.ok.injEq, Prod.mk.injEq, reduceCtorEq, false_and] at h3
          have he1 : s1.conv.msgState = .encrypted := by
            rcases genDataMsgWithFlag_outcome K _ _ _ s1 _ s2 h3 with ⟨_, he, -⟩ | ⟨_, _, _, he, -⟩
            · cases he
            · exact he
          rw [genData_run K _ _ _ s1 sk he1 hk'] at h3
          obtain ⟨hdr, s3', hh, h3⟩ := bindM_ok_inv h3
          obtain ⟨htag, -, -, -⟩ := messageHeader_ok _ _ _ _ hh
          unfold genFinish at h3
          cases hoc : s3'.conv.keys.ourCur with
          | none => simp only [hoc] at h3; cases h3
          | some p =>
            simp only [hoc, Res.ok.injEq, Prod.mk.injEq, Except.ok.injEq] at h3
            have htag2 : TagReady s2.conv := by rw [← h3.2]; exact htag
            rw [wrapMessageHeader_ready s2 htag2] at h4
            simp only [Res.ok.injEq, Prod.mk.injEq, reduceCtorEq, false_and] at h4
        | ok mm =>
          simp only [bindM_ok, runM_pure, catchM_ok, Res.ok.injEq, Prod.mk.injEq, Except.ok.injEq] at h
          obtain ⟨rfl, rfl⟩ := h
          refine ⟨fun _ => ?_, fun hn => by cases hn⟩
          rw [hk.2.2.2.1]; exact hq

/-- exact, from a ready state (encrypted, version and instance tag set, session keys derivable) with nothing to
    retransmit and a non-empty reveal queue: the completed case returns exactly one data message — flag
    IGNORE_UNREADABLE, empty text, no TLVs, the whole reveal queue in its `oldMACKeys` field (see `dataBody`) —
    and the state is the one after an ordinary send of an empty message: in particular the queue is empty -/
theorem reveal_carried_keys_ready (K : Crypto) (before : AuthState) (hb : before ≠ .none) (s : MState)
    (h : SendReady K s.conv)
    (hidle : ¬ (s.conv.resendMsgs.length > 0 ∧ s.conv.mayRetransmit ≠ .no))
    (hq : s.conv.keys.oldMACKeys ≠ []) :
    runM (retransmitAfterCompletedExchange K before .none none) s =
      .ok (.ok [rawDataWith K messageFlagIgnoreUnreadable s.conv (cipherOf K s.conv.keys (plainBytes [] []))],
        { s with conv := s.conv.afterData K [] }) ∧
    (s.conv.afterData K []).keys.oldMACKeys = [] := by
  have h1 : runM (maybeRetransmit K) s = .ok (.ok [], s) := by
    rw [maybeRetransmit_run, if_neg]
    rintro ⟨a, b, -⟩
    exact hidle ⟨a, b⟩
  have h3 := genData_ready K [] messageFlagIgnoreUnreadable [] s h
  have h4 := wrapMessageHeader_ready { s with conv := s.conv.afterData K [] } (h.afterData []).tag msgTypeData
    (dataMsgOf K messageFlagIgnoreUnreadable s.conv.keys (hdrOf s.conv msgTypeData)
      (cipherOf K s.conv.keys (plainBytes [] []))).serialize
  exact ⟨(reveal_carried_keys K before hb s s _ _ _ _ _ h1 hq h3 h4).1, rfl⟩

/-- a concrete instance (so the hypotheses above are satisfiable): an encrypted OTRv2 conversation some
    messages in, with one key waiting in the reveal queue and nothing to retransmit; a Signature message has just
    completed a re-keying.  One message goes out and the queue is empty. -/
def revealExample : MState :=
  ⟨{ version := some .v2, msgState := .encrypted, keys := Keys.example1 }, {}, [], []⟩

theorem revealExample_ready : SendReady Crypto.dummy revealExample.conv :=
  ⟨rfl, ⟨by simp [revealExample], fun _ => by simp [revealExample, Keys.example1]⟩, Or.inl rfl, ⟨_, rfl⟩⟩

example : revealExample.conv.keys.oldMACKeys = [[0xCC]] ∧
    ∃ m s', runM (retransmitAfterCompletedExchange Crypto.dummy (.awaitingSig []) .none none) revealExample =
        .ok (.ok [m], s') ∧ s'.conv.keys.oldMACKeys = [] :=
  ⟨rfl, _, _, (reveal_carried_keys_ready Crypto.dummy (.awaitingSig []) (by simp) revealExample revealExample_ready
      (by simp [revealExample]) (by simp [revealExample, Keys.example1])).1, rfl⟩

/-! ## 3. C08/C18: `End` and the text that was waiting for retransmission -/

/-- frame relation: a resend state that is not `exact` does not become `exact` -/
def NoNewExact (s s' : MState) : Prop := s.conv.mayRetransmit ≠ .exact → s'.conv.mayRetransmit ≠ .exact

instance : Frame NoNewExact where
  refl _ h := h
  trans h1 h2 h := h2 (h1 h)

theorem genDataMsgWithFlag_noNewExact (K : Crypto) (m : Bytes) (f : Nat) (tlvs : List Tlv) :
    Stable NoNewExact (genDataMsgWithFlag K m f tlvs) := by
  intro s r s' h hne
  rcases genDataMsgWithFlag_outcome K m f tlvs s r s' h with ⟨e, -, hm, -⟩ | ⟨dm, x, -, -, -, -, hm, -⟩
  · rw [hm]; exact hne
  · rw [hm]; simp

theorem ResendFrame.noNewExact {α} {x : M α} (h : Stable ResendFrame x) : Stable NoNewExact x :=
  Stable.mono (fun s s' hk hne => by
    have hk' : resendKept s' = resendKept s := hk
    simp only [resendKept, Prod.mk.injEq] at hk'
    rw [hk'.1]; exact hne) h

theorem createSerializedDataMessage_noNewExact (K : Crypto) (m : Bytes) (f : Nat) (tlvs : List Tlv) :
    Stable NoNewExact (createSerializedDataMessage K m f tlvs) := by
  unfold createSerializedDataMessage
  refine Stable.bind (genDataMsgWithFlag_noNewExact K m f tlvs) fun a => ?_
  refine ResendFrame.noNewExact ?_
  stable [wrapMessageHeader_resend, updateLastSent_resend, fragEncode_resend]

/-- when `createSerializedDataMessage` returns messages, the resend state is `no` and the reveal queue empty -/
theorem createSerializedDataMessage_ok_resend (K : Crypto) (m : Bytes) (f : Nat) (tlvs : List Tlv) (s s' : MState)
    (a : List Bytes × Bytes) (h : runM (createSerializedDataMessage K m f tlvs) s = .ok (.ok a, s')) :
    s'.conv.mayRetransmit = .no ∧ s'.conv.keys.oldMACKeys = [] ∧
    s'.conv.resendMsgs = if m.length > 0 ∧ s.conv.retransmitting = false then [m] else s.conv.resendMsgs := by
  unfold createSerializedDataMessage at h
  rw [runM_bind] at h
  obtain ⟨dmx, s1, h1, h⟩ := bindM_ok_inv h
  rcases genDataMsgWithFlag_outcome K m f tlvs s _ s1 h1 with ⟨e, he, -⟩ | ⟨dm, x, hr, -, -, hq, hm, -, hrs⟩
  · cases he
  · have hrest : Stable ResendFrame (do
        let res ← wrapMessageHeader msgTypeData dmx.1.serialize
        updateLastSent
        return (← fragEncode res, dmx.2)) := by
      stable [wrapMessageHeader_resend, updateLastSent_resend, fragEncode_resend]
    have hk := hrest s1 _ s' h
    simp only [Keeps, resendKept, Prod.mk.injEq] at hk
    exact ⟨by rw [hk.1]; exact hm, by rw [hk.2.2.2.1]; exact hq, by rw [hk.2.1]; exact hrs⟩

/-- **C08/C18 (repaired code), in terms of the state before `End`.**
    1. Unless texts were waiting for a session to start (`mayRetransmit = .exact` before the call), the resend
       state is empty afterwards: `resendMsgs = []`, `mayRetransmit = .no` — whatever the message state was and
       whether or not the disconnect message could be generated.  In particular the last text of the session that
       ends (kept for a possible "[resent]" retransmission, `mayRetransmit = .no` or `.withPrefix`) is gone.
    2. From an encrypted state, when the disconnect message was generated (no error returned), the resend state
       is empty afterwards in any case (generating a data message leaves the `.exact` branch).
    3. From a state that is not encrypted, texts waiting in the `.exact` branch are kept exactly as they were. -/
theorem endSession_resend_state (K : Crypto) (s : MState)
    (r : Except Err (List Bytes × Option Err)) (s' : MState) (hr : runM (endSession K) s = .ok (r, s')) :
    (s.conv.mayRetransmit ≠ .exact → s'.conv.resendMsgs = [] ∧ s'.conv.mayRetransmit = .no) ∧
    (s.conv.msgState = .encrypted → (∃ toSend, r = .ok (toSend, none)) →
      s'.conv.resendMsgs = [] ∧ s'.conv.mayRetransmit = .no) ∧
    (s.conv.msgState ≠ .encrypted → s.conv.mayRetransmit = .exact →
      s'.conv.resendMsgs = s.conv.resendMsgs ∧ s'.conv.mayRetransmit = .exact) := by
  have hended : ∀ c : Conv, c.mayRetransmit ≠ .exact →
      (endedConv c).resendMsgs = [] ∧ (endedConv c).mayRetransmit = .no := by
    intro c he
    simp [endedConv, he]
  by_cases h : s.conv.msgState = .encrypted
  · rw [endSession_encrypted_run K s h] at hr
    cases hx : runM (createSerializedDataMessage K [] messageFlagIgnoreUnreadable
        [{ typ := tlvTypeDisconnected, len := 0, value := [] }]) { s with conv := { s.conv with smp := {} } } with
    | panic p => rw [hx] at hr; cases hr
    | ok v =>
      obtain ⟨v, s2⟩ := v
      rw [hx] at hr
      simp only [Res.ok.injEq, Prod.mk.injEq] at hr
      obtain ⟨hr1, hr2⟩ := hr
      subst hr2
      refine ⟨fun hne => ?_, fun _ hts => ?_, fun hn => absurd h hn⟩
      · exact hended s2.conv (createSerializedDataMessage_noNewExact K _ _ _ _ _ _ hx hne)
      · obtain ⟨toSend, hts⟩ := hts
        cases v with
        | error e => rw [← hr1] at hts; simp at hts
        | ok a =>
          have := (createSerializedDataMessage_ok_resend K _ _ _ _ _ a hx).1
          exact hended s2.conv (by rw [this]; simp)
  · rw [endSession_notEncrypted_run K s h] at hr
    simp only [Res.ok.injEq, Prod.mk.injEq] at hr
    obtain ⟨-, hr2⟩ := hr
    subst hr2
    refine ⟨fun hne => hended _ hne, fun he => absurd he h, fun _ he => ?_⟩
    simp [endedConv, he]

/-- the three cases are inhabited: see the `example` after `endSession_forgets` in Proofs.ConvLife for 1 and 3;
    for 2, `revealExample` ends with its disconnect message sent -/
example : ∃ toSend s', runM (endSession Crypto.dummy)
      { revealExample with conv := { revealExample.conv with resendMsgs := [[104, 105]], mayRetransmit := .exact } } =
        .ok (.ok (toSend, none), s') ∧ s'.conv.resendMsgs = [] ∧ s'.conv.mayRetransmit = .no := by
  have hready : SendReady Crypto.dummy
      ({ revealExample with conv := { revealExample.conv with resendMsgs := [[104, 105]], mayRetransmit := .exact,
                                                              smp := {} } } : MState).conv :=
    ⟨rfl, ⟨by simp [revealExample], fun _ => by simp [revealExample, Keys.example1]⟩, Or.inl rfl, ⟨_, rfl⟩⟩
  have hrun := endSession_encrypted_run Crypto.dummy
    { revealExample with conv := { revealExample.conv with resendMsgs := [[104, 105]], mayRetransmit := .exact } } rfl
  rw [createSerializedDataMessage_ready Crypto.dummy _ _ _ _ hready] at hrun
  exact ⟨_, _, hrun, rfl, rfl⟩

/-! ## 4. C06/C18: what waits for retransmission survives every AKE message that does not complete an exchange -/

/-- what waits for retransmission: the queue, its mode, and the flag set while a retransmission runs -/
def pendingKept (s : MState) := (s.conv.mayRetransmit, s.conv.resendMsgs, s.conv.retransmitting)

abbrev PendingFrame : MState → MState → Prop := Keeps pendingKept

theorem ResendFrame.pending {α} {x : M α} (h : Stable ResendFrame x) : Stable PendingFrame x :=
  Stable.mono (Keeps.comp resendKept (fun p : Retx × List Bytes × Bool × List Bytes × MsgState =>
    (p.1, p.2.1, p.2.2.1))) h

theorem randRead_pending (n : Nat) : Stable PendingFrame (randRead n) :=
  randRead_stable (fun _ _ _ _ => rfl) n

theorem randomInto_pending (n : Nat) : Stable PendingFrame (randomInto n) := by
  unfold randomInto
  stable [randRead_pending]

theorem wrapMessageHeader_pending (t : Nat) (m : Bytes) : Stable PendingFrame (wrapMessageHeader t m) :=
  ResendFrame.pending (wrapMessageHeader_resend t m)

theorem getAke_pending : Stable PendingFrame getAke := by
  unfold getAke
  stable []

theorem optNat_pending (site : String) (v : Option Nat) : Stable PendingFrame (optNat site v) := by
  unfold optNat
  stable []

theorem akeEncrypt_pending (K : Crypto) (key data : Bytes) : Stable PendingFrame (akeEncrypt K key data) := by
  unfold akeEncrypt
  stable []

theorem resToM_pending {α} (r : Res α) : Stable PendingFrame (resToM r) := by
  unfold resToM
  stable []

theorem signOracle_pending (mb : Bytes) : Stable PendingFrame (signOracle mb) :=
  signOracle_stable (fun _ _ _ => rfl) mb

theorem generateEncryptedSignature_pending (K : Crypto) (key : AkeKeys) :
    Stable PendingFrame (generateEncryptedSignature K key) := by
  unfold generateEncryptedSignature
  refine Stable.bind Stable.getc fun c => ?_
  dsimp only
  have hjp : ∀ pk : DsaPub, Stable PendingFrame (do
      let a ← getAke
      let ours ← optNat "generateEncryptedSignature: nil ourPublicValue" a.ourPublicValue
      let theirs ← optNat "generateEncryptedSignature: nil theirPublicValue" a.theirPublicValue
      let r ← signOracle (K.mac2 key.m1 (appendAll ours theirs pk a.keys.ourKeyID))
      match r with
        | none => throw Err.shortRandom
        | some sigb => do
          let enc ← akeEncrypt K key.c (appendWord pk.serialize a.keys.ourKeyID ++ sigb)
          pure (appendData [] enc)) := by
    intro pk
    refine Stable.bind getAke_pending fun a => ?_
    refine Stable.bind (optNat_pending _ _) fun ours => ?_
    refine Stable.bind (optNat_pending _ _) fun theirs => ?_
    refine Stable.bind (signOracle_pending _) fun r => ?_
    cases r with
    | none => exact Stable.throw _
    | some sigb => exact Stable.bind (akeEncrypt_pending _ _ _) fun enc => Stable.pure _
  split
  · exact Stable.bind (Stable.pure _) hjp
  · exact Stable.bind (Stable.throw _) hjp

theorem sigMessage_pending (K : Crypto) : Stable PendingFrame (sigMessage K) := by
  unfold sigMessage modAke
  stable [getAke_pending, generateEncryptedSignature_pending, resToM_pending]

theorem akeSetTheirCurrent_pending : Stable PendingFrame akeSetTheirCurrent := by
  unfold akeSetTheirCurrent modAke
  stable [getAke_pending, optNat_pending]

theorem akeSetOurCurrent_pending : Stable PendingFrame akeSetOurCurrent := by
  unfold akeSetOurCurrent modAke
  stable [getAke_pending, optNat_pending]

theorem serializeDHKey_pending : Stable PendingFrame serializeDHKey := by
  unfold serializeDHKey
  stable [getAke_pending, optNat_pending]

theorem serializeDHCommit_pending (K : Crypto) : Stable PendingFrame (serializeDHCommit K) := by
  unfold serializeDHCommit
  stable [getAke_pending, optNat_pending]

theorem dhKeyMessage_pending (K : Crypto) : Stable PendingFrame (dhKeyMessage K) := by
  unfold dhKeyMessage initAKE setSecretExponent modAke
  stable [randomInto_pending, serializeDHKey_pending]

theorem processDHCommit_pending (msg : Bytes) : Stable PendingFrame (processDHCommit msg) := by
  unfold processDHCommit modAke
  stable []

theorem processDHKey_pending (msg : Bytes) : Stable PendingFrame (processDHKey msg) := by
  unfold processDHKey modAke
  stable [getAke_pending]

theorem recvDHCommitNone_pending (K : Crypto) (msg : Bytes) : Stable PendingFrame (recvDHCommitNone K msg) := by
  unfold recvDHCommitNone akeTry modAke
  stable [dhKeyMessage_pending, wrapMessageHeader_pending, processDHCommit_pending]

theorem recvDHCommit_pending (K : Crypto) (st : AuthState) (msg : Bytes) :
    Stable PendingFrame (recvDHCommit K st msg) := by
  unfold recvDHCommit akeTry modAke
  stable [recvDHCommitNone_pending, wrapMessageHeader_pending, processDHCommit_pending, serializeDHKey_pending,
    serializeDHCommit_pending, getAke_pending, optNat_pending]

theorem calcAKEKeys_pending (K : Crypto) : Stable PendingFrame (calcAKEKeys K) := by
  unfold calcAKEKeys modAke
  stable [getAke_pending, optNat_pending]
  all_goals exact Stable.modc _ (fun s => by
    show pendingKept _ = pendingKept _
    unfold pendingKept
    dsimp only
    split <;> rfl)

theorem revealSigMessage_pending (K : Crypto) : Stable PendingFrame (revealSigMessage K) := by
  unfold revealSigMessage modAke
  stable [calcAKEKeys_pending, getAke_pending, generateEncryptedSignature_pending, resToM_pending]

theorem markRole_pending :
    Stable PendingFrame (modc fun c => if c.msgState != .encrypted then { c with sentRevealSig := true } else c) :=
  Stable.modc _ (fun s => by
    show pendingKept _ = pendingKept _
    unfold pendingKept
    dsimp only
    split <;> rfl)

theorem recvDHKey_pending (K : Crypto) (st : AuthState) (msg : Bytes) :
    Stable PendingFrame (recvDHKey K st msg) := by
  unfold recvDHKey akeTry
  split
  · exact Stable.pure _
  · exact Stable.pure _
  · refine Stable.tryCatch ?_ (fun e => Stable.pure _)
    refine Stable.bind (processDHKey_pending msg) fun _ => ?_
    refine Stable.bind (revealSigMessage_pending K) fun m => ?_
    unfold modAke
    stable [wrapMessageHeader_pending, akeSetTheirCurrent_pending, akeSetOurCurrent_pending, markRole_pending]
  · stable [processDHKey_pending]

theorem processEncryptedSig_pending (K : Crypto) (encryptedSig theirMAC : Bytes) (keys : AkeKeys) :
    Stable PendingFrame (processEncryptedSig K encryptedSig theirMAC keys) := by
  unfold processEncryptedSig modAke
  stable [getAke_pending, optNat_pending]

theorem processRevealSig_pending (K : Crypto) (msg : Bytes) : Stable PendingFrame (processRevealSig K msg) := by
  unfold processRevealSig modAke
  stable [getAke_pending, calcAKEKeys_pending, processEncryptedSig_pending]

theorem processSig_pending (K : Crypto) (msg : Bytes) : Stable PendingFrame (processSig K msg) := by
  unfold processSig
  stable [getAke_pending, processEncryptedSig_pending]

/-- `akeHasFinished` replaces the key context and the message state, not what waits for retransmission -/
theorem akeHasFinished_pending (K : Crypto) : Stable PendingFrame (akeHasFinished K) := by
  intro s r s' h
  cases ha : s.conv.ake with
  | none => rw [akeHasFinished_none K s ha] at h; cases h
  | some a =>
    obtain ⟨r0, env', mm', -, h'⟩ := akeHasFinished_run K s a ha
    rw [h'] at h
    simp only [Res.ok.injEq, Prod.mk.injEq] at h
    rw [← h.2]
    rfl

theorem recvRevealSig_pending (K : Crypto) (st : AuthState) (msg : Bytes) :
    Stable PendingFrame (recvRevealSig K st msg) := by
  unfold recvRevealSig akeTry modAke
  stable [processRevealSig_pending, sigMessage_pending, wrapMessageHeader_pending, akeSetTheirCurrent_pending,
    akeSetOurCurrent_pending, akeHasFinished_pending]

theorem recvSig_pending (K : Crypto) (st : AuthState) (msg : Bytes) :
    Stable PendingFrame (recvSig K st msg) := by
  unfold recvSig akeTry
  stable [processSig_pending, akeSetTheirCurrent_pending, akeHasFinished_pending]

theorem akeStamp_pending (st : AuthState) (single : Option Bytes) (err : Option Err) :
    Stable PendingFrame (akeStamp st single err) := by
  unfold akeStamp modAke
  stable [getAke_pending]

/-- the tail of `processAKE` after a step that did not complete an exchange -/
theorem akeTail_pending (K : Crypto) (st : AuthState) (x : AuthState × Option Bytes × Option Err)
    (hx : st = .none ∨ x.1 ≠ .none ∨ x.2.2 ≠ none) : Stable PendingFrame (akeTail K st x) := by
  unfold akeTail modAke
  rw [retransmitAfterCompletedExchange_skip K st x.1 x.2.2 hx]
  stable [akeStamp_pending]

/-- the error `akeTail` returns is the one of the step -/
theorem akeTail_err (K : Crypto) (st : AuthState) (x : AuthState × Option Bytes × Option Err) (s s' : MState)
    (msgs : List Bytes) (err : Option Err) (h : runM (akeTail K st x) s = .ok (.ok (msgs, err), s')) :
    err = x.2.2 := by
  unfold akeTail at h
  rw [runM_bind] at h
  obtain ⟨_, s1, -, h⟩ := bindM_ok_inv h
  rw [runM_bind] at h
  obtain ⟨extra, s2, -, h⟩ := bindM_ok_inv h
  rw [runM_bind] at h
  obtain ⟨_, s3, -, h⟩ := bindM_ok_inv h
  simp only [runM_pure, Res.ok.injEq, Prod.mk.injEq, Except.ok.injEq] at h
  exact h.1.2.symm

theorem akeTailDH_pending (st : AuthState) (x : AuthState × Option Bytes × Option Err) :
    Stable PendingFrame (akeTailDH st x) := by
  unfold akeTailDH modAke
  stable [akeStamp_pending]

/-- **C06/C18 (repaired code), at the level of `processAKE`.**  An AKE message that is rejected (an error is
    returned next to the messages to send) or that is not one of the two finishing combinations (a
    Reveal-Signature message in `awaitingRevealSig`, a Signature message in `awaitingSig`) — so every DH-Commit,
    DH-Key, unknown, ignored or repeated message — leaves what waits for retransmission exactly as it was: the
    queue `resendMsgs`, its mode `mayRetransmit` and the flag `retransmitting`.  Nothing is dequeued, so the
    pending text still goes out when an exchange does complete. -/
theorem processAKE_pending_kept (K : Crypto) (t : Nat) (msg : Bytes) (s : MState)
    (r : Except Err (List Bytes × Option Err)) (s' : MState)
    (h : runM (processAKE K t msg) s = .ok (r, s'))
    (hc : (∃ msgs e, r = .ok (msgs, some e)) ∨ ¬ finishingCombination t (authStateOf s.conv)) :
    s'.conv.resendMsgs = s.conv.resendMsgs ∧ s'.conv.mayRetransmit = s.conv.mayRetransmit ∧
    s'.conv.retransmitting = s.conv.retransmitting := by
  suffices hp : pendingKept s' = pendingKept s by
    simp only [pendingKept, Prod.mk.injEq] at hp
    exact ⟨hp.2.1, hp.1, hp.2.2⟩
  -- reduce to `akeRest` from a state with an AKE context
  have key : ∀ (st : AuthState) (s0 : MState), pendingKept s0 = pendingKept s →
      ((∃ msgs e, r = .ok (msgs, some e)) ∨ ¬ finishingCombination t st) →
      runM (akeRest K t msg st) s0 = .ok (r, s') → pendingKept s' = pendingKept s := by
    intro st s0 h0 hc h
    rw [← h0]
    by_cases h3 : t = msgTypeRevealSig
    · subst h3
      rw [akeRest_revealSig] at h
      cases hx : runM (recvRevealSig K st msg) s0 with
      | panic p => rw [hx] at h; cases h
      | ok v =>
        obtain ⟨v, s1⟩ := v
        have h1 : pendingKept s1 = pendingKept s0 := recvRevealSig_pending K st msg s0 v s1 hx
        rw [hx] at h
        cases v with
        | error e =>
          simp only [bindM_error, Res.ok.injEq, Prod.mk.injEq] at h
          rw [← h.2]; exact h1
        | ok x =>
          simp only [bindM_ok] at h
          rw [← h1]
          refine akeTail_pending K st x ?_ s1 r s' h
          rcases hc with ⟨msgs, e, hr⟩ | hc
          · subst hr
            have := akeTail_err K st x s1 s' msgs (some e) h
            exact Or.inr (Or.inr (by rw [← this]; simp))
          · by_cases hst : st = .awaitingRevealSig
            · exact absurd (Or.inl ⟨rfl, hst⟩) hc
            · rw [recvRevealSig_other K st msg hst] at hx
              simp only [runM_pure, Res.ok.injEq, Prod.mk.injEq, Except.ok.injEq] at hx
              rw [← hx.1]
              cases st with
              | none => exact Or.inl rfl
              | awaitingDHKey => exact Or.inr (Or.inl (by simp))
              | awaitingRevealSig => exact absurd rfl hst
              | awaitingSig rs => exact Or.inr (Or.inl (by simp))
    · by_cases h4 : t = msgTypeSig
      · subst h4
        rw [akeRest_sig] at h
        cases hx : runM (recvSig K st msg) s0 with
        | panic p => rw [hx] at h; cases h
        | ok v =>
          obtain ⟨v, s1⟩ := v
          have h1 : pendingKept s1 = pendingKept s0 := recvSig_pending K st msg s0 v s1 hx
          rw [hx] at h
          cases v with
          | error e =>
            simp only [bindM_error, Res.ok.injEq, Prod.mk.injEq] at h
            rw [← h.2]; exact h1
          | ok x =>
            simp only [bindM_ok] at h
            rw [← h1]
            refine akeTail_pending K st x ?_ s1 r s' h
            rcases hc with ⟨msgs, e, hr⟩ | hc
            · subst hr
              have := akeTail_err K st x s1 s' msgs (some e) h
              exact Or.inr (Or.inr (by rw [← this]; simp))
            · by_cases hst : ∃ rs, st = .awaitingSig rs
              · exact absurd (Or.inr ⟨rfl, hst⟩) hc
              · rw [recvSig_other K st msg (fun rs hs => hst ⟨rs, hs⟩)] at hx
                simp only [runM_pure, Res.ok.injEq, Prod.mk.injEq, Except.ok.injEq] at hx
                rw [← hx.1]
                cases st with
                | none => exact Or.inl rfl
                | awaitingDHKey => exact Or.inr (Or.inl (by simp))
                | awaitingRevealSig => exact Or.inr (Or.inl (by simp))
                | awaitingSig rs => exact absurd ⟨rs, rfl⟩ hst
      · -- DH-Commit, DH-Key, unknown types: no retransmission on these paths at all
        have hd : Stable PendingFrame (akeDispatch K t msg st) := by
          unfold akeDispatch modAke
          rw [if_neg h3, if_neg h4]
          stable [recvDHCommit_pending, recvDHKey_pending]
        have hrest : Stable PendingFrame (akeRest K t msg st) := by
          unfold akeRest
          stable [hd, akeStamp_pending]
        exact hrest s0 r s' h
  cases ha : s.conv.ake with
  | none =>
    rw [processAKE_run_none K t msg s ha] at h
    rw [authStateOf_none ha] at hc
    exact key .none { s with conv := { s.conv with ake := some {} } } rfl hc h
  | some a =>
    rw [processAKE_run_some K t msg s a ha] at h
    rw [authStateOf_some ha] at hc
    exact key a.state s rfl hc h

/-- the hypothesis is satisfiable: a Signature message arriving when no exchange is under way is not a finishing
    combination (it is ignored), and before the repair it triggered the retransmission -/
example : ¬ finishingCombination msgTypeSig (authStateOf ({} : Conv)) := by
  rintro (⟨h, -⟩ | ⟨-, rs, h⟩)
  · exact absurd h (by decide)
  · cases h

end Otr
