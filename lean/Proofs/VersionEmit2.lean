/-
  Proofs.VersionEmit2 — property C16, emission, the rest: the replies of `processAKE`, the whitespace-tag start,
  the error restart and whole `Receive` calls / whole API histories.

  Built on (all new, same directory):
    Proofs.VersionEmitWalk   `VerMsg`, `Good`, the result logic `Yields ver Q x` (x runs in a conversation of
                             version `ver`, every normal result satisfies `Q`), the four handlers `recv*_yields`,
                             `TagOK`/`Est` (a header built once is built again: `wrapMessageHeader_no_throw`),
                             `retransmit_yields`, `retransmitAfterCompletedExchange_yields`, the frame `KI`
                             (injection queue untouched by the key exchange);
    Proofs.VersionEmitFrame  the frame `EB` (authentication state stays or falls back to `none`; message state does
                             not become `encrypted`; injections only grow by error replies) through every function
                             outside `processAKE`/`sendDHCommit`;
    Proofs.VersionEmitAke    `StoredVer`, `processAKE_emits` (2), data-message replies, `EmitInv`, `EmitInv.step`,
                             `processAKE_inv2`, `sendDHCommit_inv2`;
    Proofs.VersionEmitDec    `WireOf`, `fragEncode_wireOf`, `toSendEncoded_wire`, `processAKE_nt` (never throws),
                             the frame `Carry`, `receiveDecodedCore_emits`, `receiveDecoded_core` (the roll-back),
                             `receiveUnit_carry`, `receive_carry`.
  Here: §1 `Emitted`, `receiveUnit_emits`, `receive_emits` (3); §2 armoured items; §3 the other API calls
  (`send_emits`, `*_yields`); §4 `ApiCall.emit`, `ApiInv`, `apiCall_emitInv`, `apiCall_storedVer` (1),
  `apiCall_emits`, `api_emits_only_allowed_version` (4), `runApi_emits`; §5 examples.
-/
import Proofs.VersionEmitDec
set_option linter.unusedSimpArgs false
set_option linter.unusedVariables false
namespace Otr

/-! ## 1. what a `Receive` hands out -/

/-- **one item handed out by a call** that started with policies `pol` and injection queue `inj` and ended with
    the version `ver'`: an injection that was already waiting, an error reply `?OTR Error: E<n>`, a query message
    built from the policies (it offers exactly the allowed versions: `extractVersions_queryMessage`), or a wire
    form — armoured message or fragment of it — of a message `raw` that starts with the version field of the
    committed version `v`, which the policies allow -/
def Emitted (pol : Policies) (inj : List Bytes) (ver' : Option Version) (y : Bytes) : Prop :=
  y ∈ inj ∨ IsErrReply y ∨ (∃ fq, y = queryMessage pol fq) ∨
  ∃ v raw, ver' = some v ∧ allowsVersion pol v = true ∧ HasVer v raw ∧ WireOf v raw y

theorem encodeInject_emits (plain : Option Bytes) (toSend : List Bytes) (err : Option Err) (s0 s s' : MState)
    (r : RecvResult) (hi : EmitInv s.conv) (hpol : s.conv.policies = s0.conv.policies) (hinj : InjGrow s0 s)
    (hver : AllVer s.conv.version toSend)
    (hr : runM (do
        let enc ← toSendEncoded toSend err
        let l ← withInjects enc
        pure ({ plain := plain, toSend := l, err := err } : RecvResult)) s = .ok (.ok r, s')) :
    ∀ y ∈ r.toSend, Emitted s0.conv.policies s0.conv.injections s'.conv.version y := by
  rw [runM_bind] at hr
  obtain ⟨enc, s1, h1, h2⟩ := bindM_ok_inv hr
  obtain ⟨rfl, hl⟩ := toSendEncoded_wire toSend err s s1 enc hver h1
  simp only [withInjects, runM_bind, runM_getc, runM_modc, bindM_ok, runM_pure, Res.ok.injEq, Prod.mk.injEq,
    Except.ok.injEq] at h2
  obtain ⟨rfl, rfl⟩ := h2
  intro y hy
  dsimp only at hy ⊢
  rw [List.mem_append] at hy
  rcases hy with hy | hy
  · obtain ⟨v, raw, hv, hh, hw⟩ := hl y hy
    exact Or.inr (Or.inr (Or.inr ⟨v, raw, hv, by rw [← hpol]; exact hi.allowed v hv, hh, hw⟩))
  · rcases hinj y hy with h | h
    · exact Or.inl h
    · exact Or.inr (Or.inl h)

theorem finish_emits (cond : Prop) [Decidable cond] (plain : Option Bytes) (toSend : List Bytes) (err : Option Err)
    (s0 s s' : MState) (r : RecvResult) (hi : EmitInv s.conv) (hpol : s.conv.policies = s0.conv.policies)
    (hinj : InjGrow s0 s) (hver : AllVer s.conv.version toSend)
    (hr : runM (if cond then do
          modc fun c => { c with fragCtx := FragCtx.empty }
          let enc ← toSendEncoded toSend err
          let l ← withInjects enc
          pure ({ plain := plain, toSend := l, err := err } : RecvResult)
        else do
          let enc ← toSendEncoded toSend err
          let l ← withInjects enc
          pure ({ plain := plain, toSend := l, err := err } : RecvResult)) s = .ok (.ok r, s')) :
    ∀ y ∈ r.toSend, Emitted s0.conv.policies s0.conv.injections s'.conv.version y := by
  rcases runM_ite_cases hr with ⟨-, h⟩ | ⟨-, h⟩
  · rw [runM_bind, runM_modc, bindM_ok] at h
    refine encodeInject_emits plain toSend err s0 _ s' r ?_ ?_ ?_ ?_ h
    · exact EmitInv.congr (c := s.conv) rfl rfl rfl rfl hi
    · exact hpol
    · exact hinj
    · exact hver
  · exact encodeInject_emits plain toSend err s0 s s' r hi hpol hinj hver h

theorem receiveErrorMessage_ret (m : Bytes) (s s' : MState) (ts : List Bytes)
    (hr : runM (receiveErrorMessage m) s = .ok (.ok ts, s')) :
    ∀ y ∈ ts, ∃ fq, y = queryMessage s.conv.policies fq := by
  unfold receiveErrorMessage at hr
  simp only [runM_bind, runM_getc, bindM_ok] at hr
  have key : ts = (if polHas s.conv.policies errorStartAKE = true
      then [queryMessage s.conv.policies s.conv.friendlyQuery] else []) := by
    rcases runM_ite_cases hr with ⟨-, h⟩ | ⟨-, h⟩
    · simp only [runM_bind, runM_modc, bindM_ok, msgEventMsg, runM_ev, runM_pure, Res.ok.injEq, Prod.mk.injEq,
        Except.ok.injEq] at h
      exact h.1.symm
    · simp only [runM_bind, bindM_ok, msgEventMsg, runM_ev, runM_pure, Res.ok.injEq, Prod.mk.injEq,
        Except.ok.injEq] at h
      exact h.1.symm
  rw [key]
  intro y hy
  split at hy
  · rw [List.mem_singleton] at hy; exact ⟨_, hy⟩
  · cases hy

theorem tagged_tail (x : List Bytes × Option Err) (pl : Bytes) (s s' : MState) (p : Option Bytes) (ts : List Bytes)
    (err : Option Err)
    (h : runM (do let __x ← pure x; checkPlaintextPolicies pl; pure (some pl, __x.fst, __x.snd)) s =
      .ok (.ok (p, ts, err), s')) : ts = x.1 ∧ s'.conv.version = s.conv.version := by
  rw [runM_bind, runM_pure, bindM_ok, runM_bind] at h
  obtain ⟨_, s2, h3, h4⟩ := bindM_ok_inv h
  simp only [runM_pure, Res.ok.injEq, Prod.mk.injEq, Except.ok.injEq] at h4
  exact ⟨h4.1.2.1.symm, by rw [← h4.2]; exact vp_version (checkPlaintextPolicies_vp _) h3⟩

theorem receiveTaggedPlaintext_emits (K : Crypto) (m : Bytes) (s s' : MState) (p : Option Bytes) (ts : List Bytes)
    (err : Option Err) (hr : runM (receiveTaggedPlaintext K m) s = .ok (.ok (p, ts, err), s')) :
    AllVer s'.conv.version ts := by
  unfold receiveTaggedPlaintext at hr
  dsimp only at hr
  rw [runM_bind, runM_getc, bindM_ok] at hr
  rcases runM_ite_cases hr with ⟨-, h1⟩ | ⟨-, h1⟩
  · rw [(tagged_tail _ _ _ _ _ _ _ h1).1]; exact AllVer.nil _
  · rw [runM_bind] at h1
    obtain ⟨r, sA, hA, hB⟩ := bindM_ok_inv h1
    rcases attempt_inv hA with ⟨_, -, rfl⟩ | ⟨e, -, rfl⟩
    · dsimp only at hB
      rw [runM_bind] at hB
      obtain ⟨r2, sB, hC, hD⟩ := bindM_ok_inv hB
      rcases attempt_inv hC with ⟨x, hx, rfl⟩ | ⟨e, -, rfl⟩
      · dsimp only at hD
        obtain ⟨rfl, hv⟩ := tagged_tail _ _ _ _ _ _ _ hD
        obtain ⟨v, -, hv', hh⟩ := sendDHCommit_ver K sA sB x hx
        intro y hy
        rw [List.mem_singleton] at hy
        exact ⟨v, hv.trans hv', hy ▸ hh⟩
      · dsimp only at hD
        rw [runM_bind] at hD
        obtain ⟨_, sC, -, hE⟩ := bindM_ok_inv hD
        rw [(tagged_tail _ _ _ _ _ _ _ hE).1]; exact AllVer.nil _
    · dsimp only at hB
      rw [(tagged_tail _ _ _ _ _ _ _ hB).1]; exact AllVer.nil _

theorem Emitted.mono {pol : Policies} {inj0 inj1 : List Bytes} {ver : Option Version} {y : Bytes}
    (h : Emitted pol inj1 ver y) (hinj : ∀ y ∈ inj1, y ∈ inj0 ∨ IsErrReply y) : Emitted pol inj0 ver y := by
  rcases h with h | h | h | h
  · exact (hinj y h).elim Or.inl (fun h => Or.inr (Or.inl h))
  · exact Or.inr (Or.inl h)
  · exact Or.inr (Or.inr (Or.inl h))
  · exact Or.inr (Or.inr (Or.inr h))

/-- the end of the fragment branch of `receiveUnit`: deliver the reassembled message, or hand out the injections -/
theorem fragTail_emits (K : Crypto) (fuel : Nat) (fg : Bool) (err : Option Err)
    (ih : ∀ (m : Bytes) (fg : Bool) (s s' : MState) (r : RecvResult), EmitInv s.conv →
      runM (receiveUnit K fuel m fg) s = .ok (.ok r, s') →
      ∀ y ∈ r.toSend, Emitted s.conv.policies s.conv.injections s'.conv.version y)
    (s0 s2 s' : MState) (r : RecvResult) (hi2 : EmitInv s2.conv) (hpol : s2.conv.policies = s0.conv.policies)
    (hinj : InjGrow s0 s2)
    (h4 : runM (do
        let c ← getc
        if c.fragCtx.finished = true then do
          modc fun c => { c with fragCtx := FragCtx.empty }
          let r ← receiveUnit K fuel c.fragCtx.frag false
          let l ← withInjects r.toSend
          pure ({ plain := r.plain, toSend := l, err := r.err } : RecvResult)
        else if (false && fg) = true then do
          modc fun c => { c with fragCtx := FragCtx.empty }
          let enc ← toSendEncoded [] err
          let l ← withInjects enc
          pure ({ plain := none, toSend := l, err := err } : RecvResult)
        else do
          let enc ← toSendEncoded [] err
          let l ← withInjects enc
          pure ({ plain := none, toSend := l, err := err } : RecvResult)) s2 = .ok (.ok r, s')) :
    ∀ y ∈ r.toSend, Emitted s0.conv.policies s0.conv.injections s'.conv.version y := by
  rw [runM_bind, runM_getc, bindM_ok] at h4
  rcases runM_ite_cases h4 with ⟨-, h5⟩ | ⟨-, h5⟩
  · rw [runM_bind, runM_modc, bindM_ok, runM_bind] at h5
    obtain ⟨r', s4, h8, h9⟩ := bindM_ok_inv h5
    have hi3 : EmitInv ({ s2.conv with fragCtx := FragCtx.empty } : Conv) :=
      EmitInv.congr (c := s2.conv) rfl rfl rfl rfl hi2
    have hem := ih _ _ _ s4 r' hi3 h8
    have hc4 := receiveUnit_carry K fuel _ false _ _ s4 h8
    simp only [withInjects, runM_bind, runM_getc, runM_modc, bindM_ok, runM_pure, Res.ok.injEq, Prod.mk.injEq,
      Except.ok.injEq] at h9
    obtain ⟨rfl, rfl⟩ := h9
    intro y hy
    dsimp only at hy ⊢
    rw [List.mem_append] at hy
    rcases hy with hy | hy
    · have := hem y hy
      dsimp only at this
      rw [hpol] at this
      exact this.mono hinj
    · have h1 := hc4.2.2 y hy
      dsimp only at h1
      rcases h1 with h1 | h1
      · exact (hinj y h1).elim Or.inl (fun h => Or.inr (Or.inl h))
      · exact Or.inr (Or.inl h1)
  · exact finish_emits _ _ _ _ s0 s2 s' r hi2 hpol hinj (AllVer.nil _) h5

theorem receiveUnit_emits (K : Crypto) : ∀ (fuel : Nat) (m : Bytes) (fg : Bool) (s s' : MState) (r : RecvResult),
    EmitInv s.conv → runM (receiveUnit K fuel m fg) s = .ok (.ok r, s') →
    ∀ y ∈ r.toSend, Emitted s.conv.policies s.conv.injections s'.conv.version y := by
  intro fuel
  induction fuel with
  | zero =>
    intro m fg s s' r hi hr
    rw [receiveUnit] at hr
    simp only [runM_bind, runM_mism, bindM_ok, runM_pure, Res.ok.injEq, Prod.mk.injEq, Except.ok.injEq] at hr
    rw [← hr.1]; intro y hy; cases hy
  | succ fuel ih =>
    intro m fg s s' r hi hr
    rw [receiveUnit] at hr
    rw [runM_bind, runM_getc, bindM_ok] at hr
    split at hr
    · simp only [runM_pure, Res.ok.injEq, Prod.mk.injEq, Except.ok.injEq] at hr
      rw [← hr.1]; intro y hy; cases hy
    · dsimp only at hr
      split at hr
      · -- error message
        rw [runM_bind] at hr
        obtain ⟨ts, s1, h1, h2⟩ := bindM_ok_inv hr
        have hq := receiveErrorMessage_ret m s s1 ts h1
        have hc := receiveErrorMessage_carry m s _ s1 h1
        simp only [withInjects, runM_bind, runM_getc, runM_modc, bindM_ok, runM_pure, Res.ok.injEq, Prod.mk.injEq,
          Except.ok.injEq] at h2
        obtain ⟨rfl, rfl⟩ := h2
        intro y hy
        dsimp only at hy ⊢
        rw [List.mem_append] at hy
        rcases hy with hy | hy
        · exact Or.inr (Or.inr (Or.inl (hq y hy)))
        · exact (hc.2.2 y hy).elim Or.inl (fun h => Or.inr (Or.inl h))
      · -- query message
        rw [runM_bind] at hr
        obtain ⟨⟨ts, err⟩, s1, h1, h2⟩ := bindM_ok_inv hr
        have hc := receiveQueryMessage_carry K m s _ s1 h1
        have hv : AllVer s1.conv.version ts := fun y hy => by
          obtain ⟨v, hv, hh, -⟩ := receiveQueryMessage_emits K m s s1 ts err h1 y hy
          exact ⟨v, hv, hh⟩
        exact finish_emits _ _ _ _ s s1 s' r (hc.1 hi) hc.2.1 hc.2.2 hv h2
      · -- whitespace-tagged plaintext
        rw [runM_bind] at hr
        obtain ⟨⟨p, ts, err⟩, s1, h1, h2⟩ := bindM_ok_inv hr
        have hc := receiveTaggedPlaintext_carry K m s _ s1 h1
        exact finish_emits _ _ _ _ s s1 s' r (hc.1 hi) hc.2.1 hc.2.2
          (receiveTaggedPlaintext_emits K m s s1 p ts err h1) h2
      · -- plaintext
        rw [runM_bind] at hr
        obtain ⟨_, s1, h1, h2⟩ := bindM_ok_inv hr
        have hc := checkPlaintextPolicies_carry m s _ s1 h1
        exact finish_emits _ _ _ _ s s1 s' r (hc.1 hi) hc.2.1 hc.2.2 (AllVer.nil _) h2
      · -- version 1
        simp only [runM_pure, Res.ok.injEq, Prod.mk.injEq, Except.ok.injEq] at hr
        rw [← hr.1]; intro y hy; cases hy
      · -- fragment
        rw [runM_bind] at hr
        obtain ⟨r1, s1, h1, h2⟩ := bindM_ok_inv hr
        have hc1 : Carry s s1 := by
          refine (?_ : Stable Carry _) s _ s1 h1
          carry_walk [receiveFragment_carry]
        cases r1 with
        | ok ctx =>
          dsimp only at h2
          rw [runM_bind] at h2
          obtain ⟨_, s2, h3, h4⟩ := bindM_ok_inv h2
          have hc2 : Carry s1 s2 := by
            refine (?_ : Stable Carry _) s1 _ s2 h3
            carry_walk []
          have hc := Frame.trans hc1 hc2
          rw [runM_bind, runM_pure, bindM_ok] at h4
          exact fragTail_emits K fuel fg _ ih s s2 s' r (hc.1 hi) hc.2.1 hc.2.2 h4
        | error e =>
          dsimp only at h2
          rw [runM_bind] at h2
          obtain ⟨_, s2, h3, h4⟩ := bindM_ok_inv h2
          have hc2 : Carry s1 s2 := by
            refine (?_ : Stable Carry _) s1 _ s2 h3
            carry_walk []
          have hc := Frame.trans hc1 hc2
          rw [runM_bind, runM_pure, bindM_ok] at h4
          exact fragTail_emits K fuel fg _ ih s s2 s' r (hc.1 hi) hc.2.1 hc.2.2 h4
      · -- unknown
        rw [runM_bind] at hr
        obtain ⟨_, s1, h1, h2⟩ := bindM_ok_inv hr
        have hc := msgEvent_carry _ s _ s1 h1
        exact finish_emits _ _ _ _ s s1 s' r (hc.1 hi) hc.2.1 hc.2.2 (AllVer.nil _) h2
      all_goals
        split at hr
        · exact finish_emits _ _ _ _ s s s' r hi rfl (fun _ h => Or.inl h) (AllVer.nil _) hr
        · rw [runM_bind] at hr
          obtain ⟨⟨p, ts, err⟩, s1, h1, h2⟩ := bindM_ok_inv hr
          obtain ⟨hc, hv⟩ := receiveDecoded_core K _ s _ s1 h1
          have hv' := hv hi p ts err rfl
          dsimp only at h2
          rcases runM_ite_cases h2 with ⟨-, h3⟩ | ⟨-, h3⟩
          · exact finish_emits _ _ _ _ s s1 s' r (hc.1 hi) hc.2.1 hc.2.2 hv' h3
          · exact finish_emits _ _ _ _ s s1 s' r (hc.1 hi) hc.2.1 hc.2.2 hv' h3

/-- **(3) every `Receive`.**  From a state that satisfies the invariant `EmitInv` (it holds of fresh conversations
    and is kept by every API call: `apiCall_emitInv`), for every input: the invariant holds afterwards, the
    policies are the same, and every item of `toSend` is `Emitted`: an injection that was waiting, an error
    reply, a query message of the policies, or a wire form (armoured, or a fragment when fragmentation is on) of
    a message that starts with the version field of the version the conversation is committed to AFTER the call,
    which the policies allow -/
theorem receive_emits (K : Crypto) (m : Bytes) (s s' : MState) (r : RecvResult) (hi : EmitInv s.conv)
    (hr : runM (receive K m) s = .ok (.ok r, s')) :
    EmitInv s'.conv ∧ s'.conv.policies = s.conv.policies ∧
      ∀ y ∈ r.toSend, Emitted s.conv.policies s.conv.injections s'.conv.version y := by
  have hc := receive_carry K m s _ s' hr
  exact ⟨hc.1 hi, hc.2.1, receiveUnit_emits K _ m true s s' r hi hr⟩

/-! ## 2. armoured items -/

theorem errorMarker_eq : errorMarker = [63, 79, 84, 82, 32, 69, 114, 114, 111, 114, 58] := by decide

theorem IsErrReply.not_marker {y : Bytes} (h : IsErrReply y) : hasPrefix y msgMarker = false := by
  obtain ⟨code, rfl⟩ := h
  rw [errorMarker_eq, msgMarker_eq]
  simp [hasPrefix, List.isPrefixOf]

theorem queryMessage_not_marker (p : Policies) (fq : Bytes) : hasPrefix (queryMessage p fq) msgMarker = false := by
  rw [queryMessage_eq]
  unfold queryMessageB
  rw [strBytes_OTRv, msgMarker_eq]
  simp [hasPrefix, List.isPrefixOf]

theorem WireOf.armoured {v : Version} {raw y : Bytes} (h : WireOf v raw y) (hp : hasPrefix y msgMarker = true) :
    y = armour raw := by
  rcases h with h | ⟨j, num, its, itr, r, h⟩
  · exact h
  · rw [h, List.append_assoc, fragmentPrefix_not_marker] at hp; cases hp

/-- an item handed out that starts with "?OTR:" was waiting in the injection queue, or is the armour of a
    message carrying the committed, allowed version -/
theorem Emitted.armoured {pol : Policies} {inj : List Bytes} {ver : Option Version} {y : Bytes}
    (h : Emitted pol inj ver y) (hp : hasPrefix y msgMarker = true) :
    y ∈ inj ∨ ∃ v raw, ver = some v ∧ allowsVersion pol v = true ∧ HasVer v raw ∧ y = armour raw ∧
      decodeEnvelope y = some raw := by
  rcases h with h | h | ⟨fq, h⟩ | ⟨v, raw, hv, ha, hh, hw⟩
  · exact Or.inl h
  · rw [h.not_marker] at hp; cases hp
  · rw [h, queryMessage_not_marker] at hp; cases hp
  · have := hw.armoured hp
    exact Or.inr ⟨v, raw, hv, ha, hh, this, by rw [this, decodeEnvelope_armour]⟩

/-! ## 3. the other API calls -/

/-- a wire form of a message carrying the version `ver` -/
def WireV (ver : Option Version) (y : Bytes) : Prop := ∃ v raw, ver = some v ∧ HasVer v raw ∧ WireOf v raw y

def AllWire (ver : Option Version) (l : List Bytes) : Prop := ∀ y ∈ l, WireV ver y

theorem AllWire.nil (ver : Option Version) : AllWire ver [] := fun y hy => by cases hy

theorem createSerializedDataMessage_yields (K : Crypto) (m : Bytes) (flag : Nat) (tlvs : List Tlv)
    (ver : Option Version) :
    Yields ver (fun r => AllWire ver r.1) (createSerializedDataMessage K m flag tlvs) := by
  intro s r s' hs hr
  obtain ⟨l, x⟩ := r
  unfold createSerializedDataMessage at hr
  simp only [runM_bind] at hr
  obtain ⟨⟨dm, x0⟩, s1, h1, h2⟩ := bindM_ok_inv hr
  have hv1 : s1.conv.version = s.conv.version := vp_version (genDataMsgWithFlag_vp K m flag tlvs) h1
  obtain ⟨raw, s2, h3, h4⟩ := bindM_ok_inv h2
  obtain ⟨v, hv, hv2, hh⟩ := wrapMessageHeader_hasVer _ _ s1 s2 raw h3
  obtain ⟨_, s3, h5, h6⟩ := bindM_ok_inv h4
  have hv3 : s3.conv.version = s2.conv.version := vp_version updateLastSent_vp h5
  obtain ⟨l0, s4, h7, h8⟩ := bindM_ok_inv h6
  simp only [runM_pure, Res.ok.injEq, Prod.mk.injEq, Except.ok.injEq] at h8
  obtain ⟨-, hl0⟩ := fragEncode_wireOf raw s3 s4 l0 v (by rw [hv3]; exact hv2) h7
  intro y hy
  rw [← h8.1.1] at hy
  exact ⟨v, raw, by rw [← hs, ← hv1]; exact hv, hh, hl0 y hy⟩

macro "vp_api" : tactic => `(tactic| vp_walk [startAuthenticateExpect1_vp, continueSMP_vp, smpWipe_vp,
  createSerializedDataMessage_vp, secEvent_vp, msgEvent_vp])

macro "yields_api" : tactic => `(tactic| repeat' (first
    | exact Yields.throw _ | exact Yields.throw_bind _ _
    | exact Yields.bind (createSerializedDataMessage_yields _ _ _ _ _) (by vp_api) (fun r hr => Yields.pure hr)
    | ((with_reducible refine Yields.bind' ?_ (fun _ => ?_)) <;> try vp_api)
    | split | dsimp only))

theorem startAuthenticate_yields (K : Crypto) (q sec : Bytes) (ver : Option Version) :
    Yields ver (AllWire ver) (startAuthenticate K q sec) := by
  unfold startAuthenticate
  yields_api

theorem provideAuthenticationSecret_yields (K : Crypto) (sec : Bytes) (ver : Option Version) :
    Yields ver (AllWire ver) (provideAuthenticationSecret K sec) := by
  unfold provideAuthenticationSecret
  yields_api

theorem abortAuthentication_yields (K : Crypto) (ver : Option Version) :
    Yields ver (AllWire ver) (abortAuthentication K) := by
  unfold abortAuthentication
  yields_api

/-- the idiom "run `createSerializedDataMessage`, capture the error" -/
theorem attemptCreate_yields (K : Crypto) (m : Bytes) (flag : Nat) (tlvs : List Tlv) (ver : Option Version) :
    Yields ver (fun r : Except Err (List Bytes) => ∀ ms, r = Except.ok ms → AllWire ver ms)
      (tryCatch (do let (ms, _) ← createSerializedDataMessage K m flag tlvs; pure (Except.ok ms))
        (fun e => pure (Except.error e))) := by
  refine Yields.tryCatch ?_ (by vp_api) (fun e => Yields.pure (fun ms h => by cases h))
  refine Yields.bind (createSerializedDataMessage_yields K m flag tlvs ver) (by vp_api) (fun r hr => ?_)
  obtain ⟨ms, x⟩ := r
  exact Yields.pure (fun ms' h => by cases h; exact hr)

syntax "end_tail" term:max term:max : tactic
macro_rules
  | `(tactic| end_tail $v $h) => `(tactic|
    (refine Yields.bind (P := fun x : List Bytes × Option Err => AllWire $v x.1) (Yields.pure $h) (by vp_api)
       fun x hx => ?_
     obtain ⟨toSend, err⟩ := x
     dsimp only
     refine Yields.bind' (by vp_api) fun _ => ?_
     refine Yields.bind' (by vp_api) fun _ => ?_
     refine Yields.bind' (by vp_api) fun _ => ?_
     first
     | exact Yields.pure hx
     | (refine Yields.bind' (by vp_api) fun _ => ?_
        exact Yields.pure hx)
     | (split
        · refine Yields.bind' (by vp_api) fun _ => ?_
          exact Yields.pure hx
        · exact Yields.pure hx)))

theorem endSession_yields (K : Crypto) (ver : Option Version) :
    Yields ver (fun r => AllWire ver r.1) (endSession K) := by
  unfold endSession
  refine Yields.bind' (by vp_api) fun c => ?_
  refine Yields.bind' (by vp_api) fun _ => ?_
  dsimp only
  split
  · refine Yields.bind (attemptCreate_yields K _ _ _ ver) (by vp_api) fun r hr => ?_
    split
    · end_tail ver (hr _ rfl)
    · end_tail ver (AllWire.nil _)
  · end_tail ver (AllWire.nil _)

theorem useExtraSymmetricKey_yields (K : Crypto) (u : Nat) (d : Bytes) (ver : Option Version) :
    Yields ver (fun r => AllWire ver r.2.1) (useExtraSymmetricKey K u d) := by
  unfold useExtraSymmetricKey
  refine Yields.bind' (by vp_api) fun c => ?_
  split
  · exact Yields.pure (AllWire.nil _)
  · split
    · exact Yields.pure (AllWire.nil _)
    · dsimp only
      refine Yields.bind (P := fun r : Except Err (List Bytes × Bytes) =>
          ∀ ms key, r = Except.ok (ms, key) → AllWire ver ms) ?_ (by vp_api)
        fun r hr => ?_
      · refine Yields.tryCatch ?_ (by vp_api) (fun e => Yields.pure (fun ms key h => by cases h))
        refine Yields.bind (createSerializedDataMessage_yields K _ _ _ ver) (by vp_api) (fun r hr => ?_)
        exact Yields.pure (fun ms key h => by cases h; exact hr)
      · split
        · exact Yields.pure (hr _ _ rfl)
        · exact Yields.pure (AllWire.nil _)

theorem WireV.emitted {c : Conv} (hi : EmitInv c) {y : Bytes} (pol : Policies) (inj : List Bytes)
    (hp : c.policies = pol) (h : WireV c.version y) : Emitted pol inj c.version y := by
  obtain ⟨v, raw, hv, hh, hw⟩ := h
  exact Or.inr (Or.inr (Or.inr ⟨v, raw, hv, by rw [← hp]; exact hi.allowed v hv, hh, hw⟩))

theorem send_reqTail (m q : Bytes) (s s' : MState) (msgs : List Bytes) (err : Option Err)
    (hr : runM (do
        modc fun c => { c with mayRetransmit := .exact }
        resendLater m
        let l ← withInjects [q]
        pure (l, (none : Option Err))) s = .ok (.ok (msgs, err), s')) :
    ∀ y ∈ msgs, y = q ∨ y ∈ s.conv.injections ∨ IsErrReply y := by
  rw [runM_bind] at hr
  obtain ⟨_, s4, h4, hr⟩ := bindM_ok_inv hr
  rw [runM_bind] at hr
  obtain ⟨_, s5, h5, hr⟩ := bindM_ok_inv hr
  rw [runM_bind] at hr
  obtain ⟨l, s6, h6, hr⟩ := bindM_ok_inv hr
  simp only [runM_pure, Res.ok.injEq, Prod.mk.injEq, Except.ok.injEq] at hr
  obtain ⟨⟨rfl, -⟩, rfl⟩ := hr
  have e4 : EB s s4 := by
    refine (?_ : Stable EB _) s _ s4 h4
    eb_walk []
  have e := EB.trans e4 (resendLater_eb m s4 _ s5 h5)
  simp only [withInjects, runM_bind, runM_getc, runM_modc, bindM_ok, runM_pure, Res.ok.injEq, Prod.mk.injEq,
    Except.ok.injEq] at h6
  obtain ⟨rfl, rfl⟩ := h6
  intro y hy
  rw [List.cons_append, List.nil_append, List.mem_cons] at hy
  rcases hy with hy | hy
  · exact Or.inl hy
  · exact Or.inr (e.2.2 y hy)

/-- **`Send`, every state.**  Each returned item is the user's text (followed by the whitespace tag when the
    policy asks for it), or `Emitted` -/
theorem send_emits (K : Crypto) (m : Bytes) (s s' : MState) (msgs : List Bytes) (err : Option Err)
    (hi : EmitInv s.conv) (hr : runM (send K m) s = .ok (.ok (msgs, err), s')) :
    ∀ y ∈ msgs, (∃ t, y = m ++ t) ∨ Emitted s.conv.policies s.conv.injections s'.conv.version y := by
  have hc : Carry s s' := Stable.carry_vp (send_eb K m) (send_vp K m) s _ s' hr
  have hi' := hc.1 hi
  by_cases hen : isOTREnabled s.conv.policies = true
  · cases hms : s.conv.msgState with
    | plainText =>
      by_cases hreq : polHas s.conv.policies requireEncryption = true
      · unfold send at hr
        simp only [runM_bind, runM_getc, bindM_ok, hen, Bool.not_true, Bool.false_eq_true, if_false, hms, hreq,
          if_true] at hr
        obtain ⟨_, s1, h1, hr⟩ := bindM_ok_inv hr
        obtain ⟨_, s2, h2, hr⟩ := bindM_ok_inv hr
        have e12 := EB.trans (msgEvent_eb _ s _ s1 h1) (updateLastSent_eb s1 _ s2 h2)
        have fin : ∀ sx, EB s sx → (∀ y ∈ msgs, y = queryMessage s.conv.policies s.conv.friendlyQuery ∨
            y ∈ sx.conv.injections ∨ IsErrReply y) →
            ∀ y ∈ msgs, (∃ t, y = m ++ t) ∨ Emitted s.conv.policies s.conv.injections s'.conv.version y := by
          intro sx ex h y hy
          rcases h y hy with h | h | h
          · exact Or.inr (Or.inr (Or.inr (Or.inl ⟨_, h⟩)))
          · exact Or.inr ((ex.2.2 y h).elim Or.inl (fun h => Or.inr (Or.inl h)))
          · exact Or.inr (Or.inr (Or.inl h))
        rcases runM_ite_cases hr with ⟨-, hr⟩ | ⟨-, hr⟩
        · rw [runM_bind] at hr
          obtain ⟨_, s3, h3, hr⟩ := bindM_ok_inv hr
          have e3 : EB s2 s3 := by
            refine (?_ : Stable EB _) s2 _ s3 h3
            eb_walk []
          exact fin s3 (EB.trans e12 e3) (send_reqTail m _ s3 s' msgs err hr)
        · exact fin s2 e12 (send_reqTail m _ s2 s' msgs err hr)
      · have hreq' : polHas s.conv.policies requireEncryption = false := by
          cases h : polHas s.conv.policies requireEncryption
          · rfl
          · exact absurd h hreq
        rw [send_plain K m s hen hms hreq'] at hr
        simp only [Res.ok.injEq, Prod.mk.injEq, Except.ok.injEq] at hr
        obtain ⟨⟨rfl, -⟩, -⟩ := hr
        intro y hy
        rw [List.mem_cons] at hy
        rcases hy with hy | hy
        · exact Or.inl ⟨_, hy⟩
        · exact Or.inr (Or.inl hy)
    | finished =>
      rw [send_finished K m s hen hms] at hr
      simp only [Res.ok.injEq, Prod.mk.injEq, Except.ok.injEq] at hr
      obtain ⟨⟨rfl, -⟩, -⟩ := hr
      exact fun y hy => Or.inr (Or.inl hy)
    | encrypted =>
      unfold send at hr
      simp only [runM_bind, runM_getc, bindM_ok, hen, Bool.not_true, Bool.false_eq_true, if_false, hms,
        runM_tryCatch] at hr
      cases hcs : runM (createSerializedDataMessage K m messageFlagNormal []) s with
      | panic p => simp only [hcs, bindM_panic, catchM_panic] at hr; cases hr
      | ok o =>
        obtain ⟨r, s1⟩ := o
        have hinj : s1.conv.injections = s.conv.injections := by
          have := createSerializedDataMessage_sendFrame K m messageFlagNormal [] s r s1 hcs
          simp only [Keeps, sendKept, Prod.mk.injEq] at this
          exact this.2.2.2.2.2.2.2.2.2.2.2.2.2.2.2.2.1
        have hv1 : s1.conv.version = s.conv.version :=
          vp_version (createSerializedDataMessage_vp K m messageFlagNormal []) hcs
        cases r with
        | ok lx =>
          obtain ⟨l, x⟩ := lx
          have hl := createSerializedDataMessage_yields K m _ _ s.conv.version s _ s1 rfl hcs
          simp only [hcs, bindM_ok, runM_pure, catchM_ok, withInjects, runM_bind, runM_getc, runM_modc,
            Res.ok.injEq, Prod.mk.injEq, Except.ok.injEq] at hr
          obtain ⟨⟨rfl, -⟩, rfl⟩ := hr
          intro y hy
          rw [List.mem_append] at hy
          rcases hy with hy | hy
          · have hw := hl y hy
            dsimp only at hw ⊢
            rw [← hv1] at hw
            exact Or.inr (WireV.emitted (c := s1.conv)
              (EmitInv.congr (c := s.conv) hv1 (by rw [← hc.2.1]) (by
                have := createSerializedDataMessage_sendFrame K m messageFlagNormal [] s _ s1 hcs
                simp only [Keeps, sendKept, Prod.mk.injEq] at this
                exact this.2.2.2.2.2.2.2.2.2.2.2.2.1) (by
                have := createSerializedDataMessage_sendFrame K m messageFlagNormal [] s _ s1 hcs
                simp only [Keeps, sendKept, Prod.mk.injEq] at this
                exact this.2.2.2.2.1) hi) _ _ (by
                have := createSerializedDataMessage_sendFrame K m messageFlagNormal [] s _ s1 hcs
                simp only [Keeps, sendKept, Prod.mk.injEq] at this
                exact this.2.2.2.2.2.2.2.2.2.2.2.2.2.2.1) hw)
          · exact Or.inr (Or.inl (hinj ▸ hy))
        | error e =>
          simp only [hcs, bindM_error, catchM_error, runM_pure, bindM_ok, runM_bind, runM_evEncryptionError,
            generatePotentialErrorMessage, runM_getc, withInjects, runM_modc] at hr
          intro y hy
          split at hr
          · simp only [runM_modc, bindM_ok, runM_pure, runM_bind, runM_getc, List.nil_append, Res.ok.injEq,
              Prod.mk.injEq, Except.ok.injEq] at hr
            rw [← hr.1.1, List.mem_append, List.mem_singleton] at hy
            rcases hy with hy | hy
            · exact Or.inr (Or.inl (hinj ▸ hy))
            · exact Or.inr (Or.inr (Or.inl ⟨_, hy⟩))
          · simp only [runM_modc, bindM_ok, runM_pure, runM_bind, runM_getc, List.nil_append, Res.ok.injEq,
              Prod.mk.injEq, Except.ok.injEq] at hr
            rw [← hr.1.1] at hy
            exact Or.inr (Or.inl (hinj ▸ hy))
  · have hen' : isOTREnabled s.conv.policies = false := by
      cases h : isOTREnabled s.conv.policies
      · rfl
      · exact absurd h hen
    rw [send_disabled K m s hen'] at hr
    simp only [Res.ok.injEq, Prod.mk.injEq, Except.ok.injEq] at hr
    obtain ⟨⟨rfl, -⟩, -⟩ := hr
    intro y hy
    rw [List.mem_singleton] at hy
    exact Or.inl ⟨[], by rw [hy, List.append_nil]⟩

/-! ## 4. whole API calls and API histories -/

/-- the messages an API call hands out to be sent (`toSend` of `Receive`; the messages of `Send`, `End`, the SMP
    calls, the extra key and the harness hook `sendtlvs`; nothing for the fragment size) -/
def ApiCall.emit (K : Crypto) : ApiCall → M (List Bytes)
  | .receive m => do let r ← Otr.receive K m; pure r.toSend
  | .send m => do let r ← Otr.send K m; pure r.1
  | .endSession => do let r ← Otr.endSession K; pure r.1
  | .smpStart q sec => startAuthenticate K q sec
  | .smpSecret sec => provideAuthenticationSecret K sec
  | .smpAbort => abortAuthentication K
  | .extraKey u d => do let r ← useExtraSymmetricKey K u d; pure r.2.1
  | .sendTlvs text flag tlvs => do let r ← createSerializedDataMessage K text flag tlvs; pure r.1
  | .setFragmentSize n => do modc fun c => { c with fragmentSize := n }; pure []

/-- `emit` is `run` with the messages kept: same state, same thrown error, same panic -/
theorem ApiCall.run_eq_emit (K : Crypto) (call : ApiCall) (s : MState) :
    runM (call.run K) s = bindM (runM (call.emit K) s) (fun _ s' => .ok (.ok (), s')) := by
  cases call <;>
    simp only [ApiCall.run, ApiCall.emit, runM_bind, bindM_assoc, runM_pure, bindM_ok, runM_modc]

/-- every queued injection is an error reply -/
def InjOK (c : Conv) : Prop := ∀ y ∈ c.injections, IsErrReply y

/-- the invariant of API histories -/
def ApiInv (c : Conv) : Prop := EmitInv c ∧ InjOK c

theorem Carry.apiInv {s s' : MState} (h : Carry s s') (hi : ApiInv s.conv) : ApiInv s'.conv :=
  ⟨h.1 hi.1, fun y hy => (h.2.2 y hy).elim (hi.2 y) id⟩

theorem apiCall_carry (K : Crypto) (call : ApiCall) : Stable Carry (call.run K) := by
  cases call with
  | receive m => exact Stable.bind (receive_carry K m) (fun _ => Stable.pure _)
  | send m => exact Stable.bind (Stable.carry_vp (send_eb K m) (send_vp K m)) (fun _ => Stable.pure _)
  | endSession =>
    exact Stable.bind (Stable.carry_vp (endSession_eb K) (endSession_vp K)) (fun _ => Stable.pure _)
  | smpStart q sec =>
    exact Stable.bind (Stable.carry_vp (startAuthenticate_eb K q sec) (startAuthenticate_vp K q sec))
      (fun _ => Stable.pure _)
  | smpSecret sec =>
    exact Stable.bind (Stable.carry_vp (provideAuthenticationSecret_eb K sec) (provideAuthenticationSecret_vp K sec))
      (fun _ => Stable.pure _)
  | smpAbort =>
    exact Stable.bind (Stable.carry_vp (abortAuthentication_eb K) (abortAuthentication_vp K)) (fun _ => Stable.pure _)
  | extraKey u d =>
    exact Stable.bind (Stable.carry_vp (useExtraSymmetricKey_eb K u d) (useExtraSymmetricKey_vp K u d))
      (fun _ => Stable.pure _)
  | sendTlvs text flag tlvs =>
    exact Stable.bind (Stable.carry_vp (createSerializedDataMessage_eb K text flag tlvs)
      (createSerializedDataMessage_vp K text flag tlvs)) (fun _ => Stable.pure _)
  | setFragmentSize n =>
    show Stable Carry (modc fun c => { c with fragmentSize := n })
    exact Stable.carry_vp (by eb_leaf) (by vp_leaf)

/-- **(1) the invariant is preserved by every API call**, whatever its arguments, environment and outcome
    (normal return or thrown error) -/
theorem apiCall_emitInv (K : Crypto) (call : ApiCall) (s : MState) (r : Except Err Unit) (s' : MState)
    (hi : ApiInv s.conv) (h : runM (call.run K) s = .ok (r, s')) : ApiInv s'.conv :=
  (apiCall_carry K call s r s' h).apiInv hi

/-- (1) in the form asked: the stored Reveal-Signature message keeps starting with the committed version -/
theorem apiCall_storedVer (K : Crypto) (call : ApiCall) (s : MState) (r : Except Err Unit) (s' : MState)
    (hi : ApiInv s.conv) (h : runM (call.run K) s = .ok (r, s')) :
    StoredVer s'.conv ∧ ∀ rs, authStateOf s'.conv = .awaitingSig rs → ∃ v, s'.conv.version = some v ∧ HasVer v rs :=
  ⟨(apiCall_emitInv K call s r s' hi h).1.stored, (apiCall_emitInv K call s r s' hi h).1.stored.awaitingSig⟩

theorem runApi_apiInv (K : Crypto) (steps : List ApiStep) : ∀ (c c' : Conv), ApiInv c →
    runApi K c steps = .ok c' → ApiInv c' := by
  induction steps with
  | nil => intro c c' hi h; simp only [runApi, Res.ok.injEq] at h; rw [← h]; exact hi
  | cons st rest ih =>
    intro c c' hi h
    unfold runApi at h
    cases hr : runM (st.call.run K) { conv := c, env := st.env } with
    | panic site => rw [hr] at h; cases h
    | ok x =>
      obtain ⟨r, s'⟩ := x
      rw [hr] at h
      exact ih _ _ (apiCall_emitInv K st.call _ r s' hi hr) h

theorem ApiInv.fresh (version : Option Version) (policies : Policies) (keys : List DsaPub) (fragmentSize : Nat)
    (errHandler : Bool) (friendlyQuery : Bytes) (ourTag : Nat)
    (hpre : ∀ v, version = some v → allowsVersion policies v = true) :
    ApiInv (freshConv version policies keys fragmentSize errHandler friendlyQuery ourTag) :=
  ⟨EmitInv.fresh version policies keys fragmentSize errHandler friendlyQuery ourTag hpre, fun y hy => by cases hy⟩

/-- **one item an API call hands out**: for `Send`, the user's own text (followed by the whitespace tag when the
    policy asks for it); an error reply `?OTR Error: E<n>`; a query message built from the policies; or a wire
    form (armoured message, or a fragment of it) of a message that starts with the version field of the version
    `v` the conversation is committed to after the call — and the policies allow `v` -/
def Handed (call : ApiCall) (pol : Policies) (ver' : Option Version) (y : Bytes) : Prop :=
  (∃ m t, call = .send m ∧ y = m ++ t) ∨ IsErrReply y ∨ (∃ fq, y = queryMessage pol fq) ∨
  ∃ v raw, ver' = some v ∧ allowsVersion pol v = true ∧ HasVer v raw ∧ WireOf v raw y

theorem Emitted.handed {call : ApiCall} {pol : Policies} {inj : List Bytes} {ver : Option Version} {y : Bytes}
    (h : Emitted pol inj ver y) (hinj : ∀ y ∈ inj, IsErrReply y) : Handed call pol ver y := by
  rcases h with h | h | h | h
  · exact Or.inr (Or.inl (hinj y h))
  · exact Or.inr (Or.inl h)
  · exact Or.inr (Or.inr (Or.inl h))
  · exact Or.inr (Or.inr (Or.inr h))

/-- the calls that only build data messages -/
theorem AllWire.handed {α} {x : M α} {sel : α → List Bytes} (call : ApiCall) (hy : ∀ ver, Yields ver (fun r => AllWire ver (sel r)) x)
    (heb : Stable EB x) (hvp : Stable VPFrame x) {s s' : MState} {a : α} (hi : ApiInv s.conv)
    (hr : runM x s = .ok (.ok a, s')) : ∀ y ∈ sel a, Handed call s.conv.policies s'.conv.version y := by
  have hc := Stable.carry_vp heb hvp s _ s' hr
  have hv : s'.conv.version = s.conv.version := vp_version hvp hr
  intro y hy'
  obtain ⟨v, raw, hv0, hh, hw⟩ := hy s.conv.version s a s' rfl hr y hy'
  refine Or.inr (Or.inr (Or.inr ⟨v, raw, by rw [hv]; exact hv0, ?_, hh, hw⟩))
  exact hi.1.allowed v hv0

/-- **every API call**: from a state satisfying the invariant, every item the call hands out is `Handed` -/
theorem apiCall_emits (K : Crypto) (call : ApiCall) (s : MState) (l : List Bytes) (s' : MState)
    (hi : ApiInv s.conv) (hr : runM (call.emit K) s = .ok (.ok l, s')) :
    ∀ y ∈ l, Handed call s.conv.policies s'.conv.version y := by
  cases call with
  | receive m =>
    simp only [ApiCall.emit, runM_bind] at hr
    obtain ⟨r, s1, h1, h2⟩ := bindM_ok_inv hr
    simp only [runM_pure, Res.ok.injEq, Prod.mk.injEq, Except.ok.injEq] at h2
    obtain ⟨rfl, rfl⟩ := h2
    exact fun y hy => ((receive_emits K m s s1 r hi.1 h1).2.2 y hy).handed hi.2
  | send m =>
    simp only [ApiCall.emit, runM_bind] at hr
    obtain ⟨⟨msgs, err⟩, s1, h1, h2⟩ := bindM_ok_inv hr
    simp only [runM_pure, Res.ok.injEq, Prod.mk.injEq, Except.ok.injEq] at h2
    obtain ⟨rfl, rfl⟩ := h2
    intro y hy
    rcases send_emits K m s s1 msgs err hi.1 h1 y hy with ⟨t, h⟩ | h
    · exact Or.inl ⟨m, t, rfl, h⟩
    · exact h.handed hi.2
  | endSession =>
    simp only [ApiCall.emit, runM_bind] at hr
    obtain ⟨r, s1, h1, h2⟩ := bindM_ok_inv hr
    simp only [runM_pure, Res.ok.injEq, Prod.mk.injEq, Except.ok.injEq] at h2
    obtain ⟨rfl, rfl⟩ := h2
    exact AllWire.handed (sel := fun r => r.1) _ (endSession_yields K) (endSession_eb K) (endSession_vp K) hi h1
  | smpStart q sec =>
    exact AllWire.handed (sel := fun r => r) _ (startAuthenticate_yields K q sec) (startAuthenticate_eb K q sec)
      (startAuthenticate_vp K q sec) hi hr
  | smpSecret sec =>
    exact AllWire.handed (sel := fun r => r) _ (provideAuthenticationSecret_yields K sec)
      (provideAuthenticationSecret_eb K sec) (provideAuthenticationSecret_vp K sec) hi hr
  | smpAbort =>
    exact AllWire.handed (sel := fun r => r) _ (abortAuthentication_yields K) (abortAuthentication_eb K)
      (abortAuthentication_vp K) hi hr
  | extraKey u d =>
    simp only [ApiCall.emit, runM_bind] at hr
    obtain ⟨r, s1, h1, h2⟩ := bindM_ok_inv hr
    simp only [runM_pure, Res.ok.injEq, Prod.mk.injEq, Except.ok.injEq] at h2
    obtain ⟨rfl, rfl⟩ := h2
    exact AllWire.handed (sel := fun r => r.2.1) _ (useExtraSymmetricKey_yields K u d) (useExtraSymmetricKey_eb K u d)
      (useExtraSymmetricKey_vp K u d) hi h1
  | sendTlvs text flag tlvs =>
    simp only [ApiCall.emit, runM_bind] at hr
    obtain ⟨r, s1, h1, h2⟩ := bindM_ok_inv hr
    simp only [runM_pure, Res.ok.injEq, Prod.mk.injEq, Except.ok.injEq] at h2
    obtain ⟨rfl, rfl⟩ := h2
    exact AllWire.handed (sel := fun r => r.1) _ (createSerializedDataMessage_yields K text flag tlvs)
      (createSerializedDataMessage_eb K text flag tlvs) (createSerializedDataMessage_vp K text flag tlvs) hi h1
  | setFragmentSize n =>
    simp only [ApiCall.emit, runM_bind, runM_modc, bindM_ok, runM_pure, Res.ok.injEq, Prod.mk.injEq,
      Except.ok.injEq] at hr
    rw [← hr.1]; intro y hy; cases hy

theorem Handed.armoured {call : ApiCall} {pol : Policies} {ver : Option Version} {y : Bytes}
    (h : Handed call pol ver y) (hp : hasPrefix y msgMarker = true) :
    (∃ m t, call = .send m ∧ y = m ++ t) ∨
    ∃ v raw, ver = some v ∧ allowsVersion pol v = true ∧ HasVer v raw ∧ y = armour raw ∧
      decodeEnvelope y = some raw := by
  rcases h with h | h | ⟨fq, h⟩ | ⟨v, raw, hv, ha, hh, hw⟩
  · exact Or.inl h
  · rw [h.not_marker] at hp; cases hp
  · rw [h, queryMessage_not_marker] at hp; cases hp
  · have := hw.armoured hp
    exact Or.inr ⟨v, raw, hv, ha, hh, this, by rw [this, decodeEnvelope_armour]⟩

/-- **(4) whole API histories.**  From a fresh conversation (any policies; version unset or preset to an allowed
    one), after ANY sequence `pre` of API calls (which ends without panic), for ANY further call with any
    arguments and environment: every item the call hands out is `Handed`; in particular every item that is an
    armoured OTR message ("?OTR:"…) — other than a text the user passed to `Send` himself — is the armour of a
    message whose first two bytes are the version the conversation is committed to, and the policies the
    conversation was created with allow that version -/
theorem api_emits_only_allowed_version (K : Crypto) (hK : CryptoOK K) (version : Option Version)
    (policies : Policies) (keys : List DsaPub) (fragmentSize : Nat) (errHandler : Bool) (friendlyQuery : Bytes)
    (ourTag : Nat) (hpre : ∀ v, version = some v → allowsVersion policies v = true)
    (pre : List ApiStep) (call : ApiCall) (env : Env) :
    ∃ c1, runApi K (freshConv version policies keys fragmentSize errHandler friendlyQuery ourTag) pre = .ok c1 ∧
      c1.policies = policies ∧ ApiInv c1 ∧
      ∀ l s', runM (call.emit K) { conv := c1, env := env } = .ok (.ok l, s') →
        ∀ y ∈ l, Handed call policies s'.conv.version y ∧
          (hasPrefix y msgMarker = true →
            (∃ m t, call = .send m ∧ y = m ++ t) ∨
            ∃ v raw, s'.conv.version = some v ∧ allowsVersion policies v = true ∧ HasVer v raw ∧
              y = armour raw ∧ decodeEnvelope y = some raw) := by
  obtain ⟨c1, hr, -⟩ := api_sequence_no_panic_fresh K hK version policies keys fragmentSize errHandler
    friendlyQuery ourTag pre
  have hp : c1.policies = policies := (runApi_version K pre _ c1 hr).1
  have hi : ApiInv c1 := runApi_apiInv K pre _ c1
    (ApiInv.fresh version policies keys fragmentSize errHandler friendlyQuery ourTag hpre) hr
  refine ⟨c1, hr, hp, hi, fun l s' h y hy => ?_⟩
  have := apiCall_emits K call _ l s' hi h y hy
  dsimp only at this
  rw [hp] at this
  exact ⟨this, this.armoured⟩

/-- (4) from ANY conversation that satisfies the invariant (not only a fresh one): after any history that ends
    without panic the invariant holds, and every item any further call hands out is `Handed` -/
theorem runApi_emits (K : Crypto) (c c1 : Conv) (pre : List ApiStep) (call : ApiCall) (env : Env)
    (hi : ApiInv c) (h : runApi K c pre = .ok c1) :
    ApiInv c1 ∧ ∀ l s', runM (call.emit K) { conv := c1, env := env } = .ok (.ok l, s') →
      ∀ y ∈ l, Handed call c.policies s'.conv.version y := by
  have hi1 := runApi_apiInv K pre c c1 hi h
  refine ⟨hi1, fun l s' hr y hy => ?_⟩
  have := apiCall_emits K call _ l s' hi1 hr y hy
  dsimp only at this
  rw [(runApi_version K pre c c1 h).1] at this
  exact this

/-! ## 5. the hypotheses are satisfiable; concrete steps of a key exchange -/

/-- the invariant holds of the fresh conversations of Proofs.VersionInv -/
example : ApiInv vFresh23 ∧ ApiInv vFresh2 :=
  ⟨⟨⟨trivial, fun v hv => (by cases hv), fun h => (by cases h)⟩, fun y hy => (by cases hy)⟩,
   ⟨⟨trivial, fun v hv => (by cases hv), fun h => (by cases h)⟩, fun y hy => (by cases hy)⟩⟩

/-- `StoredVer` is not void: a stored Reveal-Signature message of version 3 in a conversation committed to OTRv2
    violates it, and so does an exchange in progress in a conversation without a version -/
example : ¬ StoredVer { version := some .v2, ake := some { state := .awaitingSig [0, 3, 0x11] } } := by
  rintro ⟨v, hv, hh⟩
  cases hv
  revert hh
  unfold HasVer
  decide
example : ¬ StoredVer { version := none, ake := some { state := .awaitingDHKey } } := by
  intro h; cases h
example : StoredVer { version := some .v3, ake := some { state := .awaitingSig [0, 3, 0x11] } } :=
  ⟨.v3, rfl, by unfold HasVer; decide⟩

/-- a v3 D-H Commit message from instance 0x100 with two one-byte DATA fields -/
def eCommitRaw : Bytes := [0, 3, 2, 0, 0, 1, 0, 0, 0, 0, 0, 0, 0, 0, 1, 1, 0, 0, 0, 1, 2]
/-- the randomness the D-H Key reply draws: the secret exponent and the instance tag -/
def eEnvKey : Env := { rand := [some (List.replicate 40 1), some [0, 0, 1, 0]] }

/-- **D-H Commit → D-H Key**: the fresh conversation `vFresh23` (policies allow 2 and 3, no version) answers the
    v3 D-H Commit message with exactly one item, an armoured message whose first bytes are 0x00 0x03 0x0a
    (version 3, D-H Key), commits to OTRv3 and awaits the Reveal Signature message -/
example : (match runM (receive vCrypto (armour eCommitRaw)) ⟨vFresh23, eEnvKey, [], []⟩ with
    | .ok (.ok ⟨_, [y], none⟩, s') =>
      hasPrefix y msgMarker && ((decodeEnvelope y).map (·.take 3) == some [0, 3, 0x0a]) &&
        (s'.conv.version == some .v3) && (authStateOf s'.conv == .awaitingRevealSig)
    | _ => false) = true := by
  decide +kernel

/-- constant cryptography whose MAC is long enough to be truncated to 20 bytes -/
def eCrypto : Crypto := { vCrypto with mac2 := fun _ _ => List.replicate 32 0 }

/-- a conversation committed to OTRv3 that has sent its D-H Commit message -/
def eAwaitingDHKey : Conv :=
  { version := some .v3, policies := allowV2 + allowV3, ourKeys := [⟨7, 3, 2, 4⟩], ourCurrentKey := some ⟨7, 3, 2, 4⟩,
    ourTag := 0x101, theirTag := 0x100,
    ake := some { state := .awaitingDHKey, secretExponent := some [1], ourPublicValue := some 1 } }
/-- a v3 D-H Key message from instance 0x100 to instance 0x101 with gy = 2 -/
def eKeyRaw : Bytes := [0, 3, 0x0a, 0, 0, 1, 0, 0, 0, 1, 1, 0, 0, 0, 1, 2]
/-- the signing oracle answers once -/
def eEnvSig : Env := { sigs := [(List.replicate 32 0, some (List.replicate 40 1))] }

example : ApiInv eAwaitingDHKey :=
  ⟨⟨rfl, fun v hv => (by cases hv; decide), fun h => (by cases h)⟩, fun y hy => (by cases hy)⟩

/-- **D-H Key → Reveal Signature, stored and retransmitted**: the answer is one armoured message starting
    0x00 0x03 0x11 (version 3, Reveal Signature); exactly these bytes are stored in the state AWAITING_SIG; and
    when the same D-H Key message arrives again, the very same item is handed out again -/
example : (match runM (receive eCrypto (armour eKeyRaw)) ⟨eAwaitingDHKey, eEnvSig, [], []⟩ with
    | .ok (.ok ⟨_, [y], none⟩, s') =>
      hasPrefix y msgMarker && ((decodeEnvelope y).map (·.take 3) == some [0, 3, 0x11]) &&
        (s'.conv.version == some .v3) &&
        (match authStateOf s'.conv with | .awaitingSig rs => decodeEnvelope y == some rs | _ => false) &&
        (match runM (receive eCrypto (armour eKeyRaw)) ⟨s'.conv, {}, [], []⟩ with
          | .ok (.ok ⟨_, [y2], none⟩, _) => y2 == y
          | _ => false)
    | _ => false) = true := by
  decide +kernel

/-- the error restart: an error message makes a conversation with ERROR_START_AKE hand out the query message of
    its policies, here "?OTRv23?" -/
example : (match runM (receive vCrypto (strBytes "?OTR Error: x"))
      ⟨{ vFresh23 with policies := allowV2 + allowV3 + errorStartAKE }, {}, [], []⟩ with
    | .ok (.ok ⟨_, [y], none⟩, _) => y == strBytes "?OTRv23?"
    | _ => false) = true := by
  decide +kernel

end Otr
