/-
  Proofs.ApiReal2 — as Proofs.ApiReal, for the emission theorem (its proof files and those of the reply-queue theorems
  define lemmas of the same name and cannot be imported together).
-/
import Proofs.CryptoRealOK
import Proofs.VersionEmit2
namespace Otr

theorem api_emits_only_allowed_version_real (hp : Nat.Prime dhP) :
    type_of% (api_emits_only_allowed_version Crypto.real (Crypto.real_cryptoOK hp)) :=
  api_emits_only_allowed_version Crypto.real (Crypto.real_cryptoOK hp)

end Otr
