/-
  Proofs.ResendInj — pending replies (`injections`), partial result: every API call other than `Receive` and
  `Send` leaves `injections` exactly as it was (only `Receive` and `Send` generate replies — through
  `generatePotentialErrorMessage` — and only they hand them out, through `withInjects`).
  NOT proved here (full statement): "after every `Receive` and every `Send` that returns, `injections = []`";
  it needs, in addition, that nothing between the generation of a reply and the final `withInjects` throws.
-/
import Proofs.ResendApi
set_option linter.unusedSimpArgs false
set_option linter.unusedVariables false
namespace Otr

/-- the frame "the pending replies are unchanged" -/
abbrev KeepInj : MState → MState → Prop := Keeps (fun s => s.conv.injections)

instance : OfBook KeepInj := ⟨fun {s s'} h => by
  simp only [Keeps, bookKept, Prod.mk.injEq] at h
  exact h.2.2.2.1⟩

macro "ki_leaf" : tactic => `(tactic| first
  | exact Stable.modc _ (fun _ => rfl)
  | (refine Stable.modc _ (fun s => ?_); show (_ : List Bytes) = _; dsimp only; split <;> rfl)
  | exact Stable.mism _ (fun _ => rfl)
  | exact Stable.ev _ (fun _ => rfl))

syntax "ki_walk" "[" term,* "]" : tactic
macro_rules
  | `(tactic| ki_walk [$ls,*]) => do
    let tacs ← ls.getElems.mapM fun l => `(tactic| with_reducible apply $l)
    `(tactic| repeat' (first
      | exact Stable.pure _ | exact Stable.throw _ | exact Stable.goPanic _
      | exact Stable.getc | exact Stable.get | exact Stable.now
      | ki_leaf
      | with_reducible apply Stable.bind | with_reducible apply Stable.tryCatch
      | with_reducible apply Stable.ite | with_reducible apply Stable.map
      | with_reducible apply Stable.forIn
      $[| $tacs:tactic]* | with_reducible intro _ | split | dsimp only))

theorem createSerializedDataMessage_ki (K : Crypto) (m : Bytes) (f : Nat) (tlvs : List Tlv) :
    Stable KeepInj (createSerializedDataMessage K m f tlvs) :=
  Stable.weaken (fun s s' h => by
    simp only [Keeps, sendKept, Prod.mk.injEq] at h
    exact h.2.2.2.2.2.2.2.2.2.2.2.2.2.2.2.2.1) (createSerializedDataMessage_sendFrame K m f tlvs)

theorem endSession_ki (K : Crypto) : Stable KeepInj (endSession K) := by
  unfold endSession
  ki_walk [Stable.ofBook smpWipe_book, createSerializedDataMessage_ki K _ _ _, Stable.ofBook (secEvent_book _)]

theorem startAuthenticate_ki (K : Crypto) (q sec : Bytes) : Stable KeepInj (startAuthenticate K q sec) := by
  unfold startAuthenticate
  ki_walk [Stable.ofBook (startAuthenticateExpect1_book _ _ _), createSerializedDataMessage_ki K _ _ _]

theorem provideAuthenticationSecret_ki (K : Crypto) (sec : Bytes) :
    Stable KeepInj (provideAuthenticationSecret K sec) := by
  unfold provideAuthenticationSecret
  ki_walk [Stable.ofBook (continueSMP_book _ _), createSerializedDataMessage_ki K _ _ _]

theorem abortAuthentication_ki (K : Crypto) : Stable KeepInj (abortAuthentication K) := by
  unfold abortAuthentication
  ki_walk [createSerializedDataMessage_ki K _ _ _]

theorem useExtraSymmetricKey_ki (K : Crypto) (u : Nat) (d : Bytes) :
    Stable KeepInj (useExtraSymmetricKey K u d) := by
  unfold useExtraSymmetricKey
  ki_walk [createSerializedDataMessage_ki K _ _ _]

/-- **(2, partial) pending replies.**  Every API call other than `Receive` and `Send`, with arbitrary arguments
    and environment, leaves `injections` unchanged — in particular empty if it was empty: `End`, the SMP calls,
    the extra-key call and TLV-only messages neither queue replies nor drop them.
    Full statement (not proved): after every `Receive` / `Send` that returns, `injections = []`. -/
theorem apiCall_injections_kept_partial (K : Crypto) (call : ApiCall) (s : MState) (r : Except Err Unit)
    (s' : MState) (h : runM (call.run K) s = .ok (r, s'))
    (hc : (∀ m, call ≠ .receive m) ∧ (∀ m, call ≠ .send m)) :
    s'.conv.injections = s.conv.injections := by
  cases call with
  | receive m => exact absurd rfl (hc.1 m)
  | send m => exact absurd rfl (hc.2 m)
  | endSession => obtain ⟨r0, h0⟩ := runM_drop _ _ _ _ h; exact endSession_ki K s _ s' h0
  | smpStart q sec => obtain ⟨r0, h0⟩ := runM_drop _ _ _ _ h; exact startAuthenticate_ki K q sec s _ s' h0
  | smpSecret sec => obtain ⟨r0, h0⟩ := runM_drop _ _ _ _ h; exact provideAuthenticationSecret_ki K sec s _ s' h0
  | smpAbort => obtain ⟨r0, h0⟩ := runM_drop _ _ _ _ h; exact abortAuthentication_ki K s _ s' h0
  | extraKey u d => obtain ⟨r0, h0⟩ := runM_drop _ _ _ _ h; exact useExtraSymmetricKey_ki K u d s _ s' h0
  | sendTlvs text flag tlvs =>
    obtain ⟨r0, h0⟩ := runM_drop _ _ _ _ h; exact createSerializedDataMessage_ki K text flag tlvs s _ s' h0
  | setFragmentSize n =>
    have : Stable KeepInj (modc fun c => { c with fragmentSize := n }) := by ki_walk []
    exact this s _ s' h

/-- non-vacuity: `End` in a plaintext conversation with a reply pending keeps it pending -/
example (K : Crypto) :
    ∃ r s', runM (ApiCall.endSession.run K) ⟨{ injections := [[1, 2]] }, {}, [], []⟩ = .ok (r, s') ∧
      s'.conv.injections = [[1, 2]] := by
  cases h : runM (ApiCall.endSession.run K) ⟨{ injections := [[1, 2]] }, {}, [], []⟩ with
  | panic p =>
    exfalso
    have := endSession_notEncrypted_run K ⟨{ injections := [[1, 2]] }, {}, [], []⟩ (by decide)
    simp only [ApiCall.run, runM_bind, this, bindM_ok, runM_pure] at h
    cases h
  | ok v =>
    obtain ⟨r, s'⟩ := v
    exact ⟨r, s', rfl, apiCall_injections_kept_partial K _ _ r s' h ⟨fun _ => by simp, fun _ => by simp⟩⟩

end Otr
