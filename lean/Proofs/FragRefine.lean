/-
  Proofs.FragRefine — property C14 at the level of the conversation: the abstract arrival machine of
  Proofs.Frag (`Arrival`, `acceptStep`, `deliverStep`) is what `receiveFragment` / the fragment branch of
  `receiveUnit` (Otr.Conv) do with the bytes of a fragment.

  1  pure form of the parsers   : commitPure, v3PrefixParse, prefixPure, parseFragmentPrefix_run (exact, never
                                  throws or panics), prefixPure_frame / _fragCtx / _committed / _version /
                                  _injections; verdict on the bytes: fragIgnored, fragParsed, fragArrival,
                                  fragStepOf (`FragStep`), fragRejected, `Arrival.outOfSeq`, fragOutOfSeq,
                                  fragDiscarded (= rejected or out of sequence); unbindConv, fragPostConv;
                                  receiveFragment_run (exact), receiveFragment_refines (link to `deliverStep`)
  2  receiveUnit                : recvFragmentWith (the fragment branch with the recursive call abstracted),
                                  receiveUnit_fragment_eq, recvFragmentWith_run, receiveUnit_fragment_refines,
                                  fragDeliver_cases, fragSettled_forgotten
  3  sequences                  : InnerReports, recvFragmentsWith, fragArrivals, receive_fragments_refine,
                                  c14_conv_only_complete, c14_conv_exactly_once,
                                  receiveUnit_fragment_only_complete (invariant form, the real `receiveUnit`)
  4  sender then receiver       : parseItag_fmt08x, v3PrefixParse_piece, RecvOK, prefixPure_piece,
                                  guessMessageType_fragTag, fragArrivals_pieces, deliver_fold_of_accept,
                                  fragment_isPiece, c14_conv_lossless
  5  rejected/discarded fragment: receiveUnit_invalid_fragment_frame_committed (every state; repaired code: the
                                  version, the long-term key choice and the peer tag are all put back),
                                  receiveUnit_invalid_fragment_frame / _unbound,
                                  receiveUnit_discarded_fragment_frame (every discarded fragment, out-of-sequence
                                  ones included: the context is the abstract machine's, everything else as before),
                                  receiveUnit_out_of_sequence_fragment_unbound,
                                  receiveUnit_invalid_fragment_frame_fresh (fresh conversation: the former
                                  witness against the frame, now an instance of it)
  6  settled conversation       : FragSettled, fragArrivals_settled, receive_fragments_refine_settled
  Core Lean only.
-/
import Proofs.ConvLife
import Proofs.Frag
import Proofs.Spec
namespace Otr

/-! ## 1. `parseFragmentPrefix` / `receiveFragment` as pure functions of the conversation -/

/-- the version commitment at the head of `parseFragmentPrefix`: did it succeed, and the conversation
    afterwards (a version already chosen is kept; otherwise the version the prefix names is committed,
    also when no long-term key is there for it) -/
def commitPure (c : Conv) (versions : Nat) : Bool × Conv :=
  match c.version with
  | some _ => (true, c)
  | none =>
    match chooseVersion c.policies versions with
    | none => (false, c)
    | some v =>
      match c.ourKeys with
      | k :: _ => (true, { c with version := some v, ourCurrentKey := some k })
      | [] => (false, { c with version := some v })

theorem commit_attempt_run (versions : Nat) (s : MState) :
    runM (tryCatch (do commitToVersionFrom versions; pure true) (fun _ => pure false)) s =
      .ok (.ok (commitPure s.conv versions).1, { s with conv := (commitPure s.conv versions).2 }) := by
  rw [runM_tryCatch, runM_bind, commitToVersionFrom_run]
  unfold commitPure
  cases hv : s.conv.version with
  | some v => simp only [bindM_ok, runM_pure, catchM_ok]
  | none =>
    simp only
    cases hc : chooseVersion s.conv.policies versions with
    | none => simp only [bindM_error, catchM_error, runM_pure]
    | some v =>
      simp only
      cases hk : s.conv.ourKeys with
      | nil => simp only [bindM_error, catchM_error, runM_pure]
      | cons k ks => simp only [bindM_ok, runM_pure, catchM_ok]


theorem commitPure_version (c : Conv) (versions : Nat) (h : (commitPure c versions).1 = true) :
    (commitPure c versions).2.version ≠ none := by
  unfold commitPure at *
  cases hv : c.version with
  | some v => simp only [hv]; exact fun e => by cases e
  | none =>
    rw [hv] at h
    simp only at h ⊢
    cases hc : chooseVersion c.policies versions with
    | none => rw [hc] at h; cases h
    | some v =>
      rw [hc] at h
      simp only at h ⊢
      cases hk : c.ourKeys with
      | nil => rw [hk] at h; cases h
      | cons k ks => simp

/-- the syntactic part of otrV3.parseFragmentPrefix: sender tag, receiver tag, length of the header
    up to and including the first comma -/
def v3PrefixParse (data : Bytes) : Option (Nat × Nat × Nat) :=
  if !data.contains 44 then none else
  match splitOn 124 ((splitOn 44 data).headD []) with
  | _ :: s :: r :: _ =>
    match parseItag s, parseItag r with
    | some sender, some receiver => some (sender, receiver, ((splitOn 44 data).headD []).length + 1)
    | _, _ => none
  | _ => none

/-- `parseFragmentPrefix` as a function of the conversation: the triple it returns, the conversation
    afterwards, the events it raises -/
def prefixPure (c : Conv) (data : Bytes) : (Bytes × Bool × Bool) × Conv × List String :=
  let c1 := (commitPure c (versionBit (versionFromFragment data))).2
  if (commitPure c (versionBit (versionFromFragment data))).1 = false then ((data, true, false), c1, [])
  else match c1.version with
  | none => ((data, true, false), c1, [])     -- not reachable (`commitPure_version`)
  | some .v2 => if data.length < 5 then ((data, false, false), c1, []) else ((data.drop 5, false, true), c1, [])
  | some .v3 =>
    match v3PrefixParse data with
    | none => ((data, false, false), c1, [])
    | some (sender, receiver, n) =>
      if ¬ tagsWellFormed sender receiver then ((data, false, false), afterMalformed c1, ["msg:9"])
      else if tagsForeign c1 sender receiver then ((data, true, true), c1, ["msg:15"])
      else ((data.drop n, false, true), { c1 with theirTag := sender }, [])

/-- exact behaviour of `parseFragmentPrefix`: it never throws and never panics -/
theorem parseFragmentPrefix_run (data : Bytes) (s : MState) :
    runM (parseFragmentPrefix data) s =
      .ok (.ok (prefixPure s.conv data).1,
        { s with conv := (prefixPure s.conv data).2.1, events := s.events ++ (prefixPure s.conv data).2.2 }) := by
  unfold parseFragmentPrefix
  rw [runM_bind, commit_attempt_run]
  unfold prefixPure
  have hv := commitPure_version s.conv (versionBit (versionFromFragment data))
  generalize commitPure s.conv (versionBit (versionFromFragment data)) = cp at hv
  obtain ⟨b, c1⟩ := cp
  cases b with
  | false => simp
  | true =>
    have hv := hv rfl
    simp only [bindM_ok, Bool.not_true, Bool.false_eq_true, ↓reduceIte, runM_bind, runM_getc]
    cases hv' : c1.version with
    | none => exact absurd hv' hv
    | some v =>
      cases v with
      | v2 =>
        simp only [runM_ite, runM_pure]
        split <;> simp
      | v3 =>
        simp only
        unfold v3PrefixParse
        cases hcm : data.contains 44 with
        | false => simp
        | true =>
          simp only [Bool.not_true, Bool.false_eq_true, ↓reduceIte]
          generalize (splitOn 44 data).headD [] = hp
          generalize splitOn 124 hp = parts
          rcases parts with _ | ⟨hd, _ | ⟨sd, _ | ⟨rc, tl⟩⟩⟩
          · simp
          · simp
          · simp
          · simp only
            generalize parseItag sd = ps
            generalize parseItag rc = pr
            cases ps with
            | none => simp
            | some sender =>
              cases pr with
              | none => simp
              | some receiver =>
                simp only [runM_bind, runM_tryCatch, verifyInstanceTags_run]
                by_cases hwf : tagsWellFormed sender receiver
                · by_cases hf : tagsForeign c1 sender receiver
                  · simp [hwf, hf]
                  · simp [hwf, hf, hv']
                · simp [hwf]

theorem commitPure_frame (c : Conv) (versions : Nat) :
    (commitPure c versions).2 =
      { c with version := (commitPure c versions).2.version,
               ourCurrentKey := (commitPure c versions).2.ourCurrentKey } := by
  unfold commitPure
  cases c.version with
  | some v => rfl
  | none =>
    simp only
    cases chooseVersion c.policies versions with
    | none => rfl
    | some v =>
      simp only
      cases c.ourKeys with
      | nil => rfl
      | cons k ks => rfl

/-- `parseFragmentPrefix` touches nothing but version, long-term key choice, peer tag and (error reply to a
    malformed tag, with a handler installed) the pending injections -/
theorem prefixPure_frame (c : Conv) (data : Bytes) :
    (prefixPure c data).2.1 =
      { c with version := (prefixPure c data).2.1.version,
               ourCurrentKey := (prefixPure c data).2.1.ourCurrentKey,
               theirTag := (prefixPure c data).2.1.theirTag,
               injections := (prefixPure c data).2.1.injections } := by
  have hc := commitPure_frame c (versionBit (versionFromFragment data))
  unfold prefixPure
  generalize commitPure c (versionBit (versionFromFragment data)) = cp at hc
  obtain ⟨b, c1⟩ := cp
  simp only at hc
  have h1 : c1 = ({ c with version := c1.version, ourCurrentKey := c1.ourCurrentKey, theirTag := c1.theirTag, injections := c1.injections } : Conv) := by
    rw [hc]
  cases b with
  | false => exact h1
  | true =>
    simp only [Bool.true_eq_false, ↓reduceIte]
    split
    · exact h1
    · split <;> exact h1
    · split
      · exact h1
      · split
        · simp only [afterMalformed]
          split
          · rw [hc]
          · exact h1
        · split
          · exact h1
          · rw [hc]

theorem prefixPure_fragCtx (c : Conv) (data : Bytes) : (prefixPure c data).2.1.fragCtx = c.fragCtx := by
  rw [prefixPure_frame]

/-! ### the receiver's verdict on the bytes of a fragment -/

/-- the arrival that stands for "nothing usable arrived": `fragAccept` ignores it -/
def noArrival : Arrival := ([], 0, 0)

theorem noArrival_invalid : noArrival.invalid := Or.inl rfl

theorem acceptStep_noArrival (ctx : FragCtx) : acceptStep ctx noArrival = ctx := by
  simp [acceptStep, fragAccept, noArrival]

/-- is the fragment for another instance (or of a version this conversation cannot commit to) -/
def fragIgnored (c : Conv) (msg : Bytes) : Bool := (prefixPure c msg).1.2.1

/-- `(piece, index, total)` of a fragment the conversation `c` accepts the prefix of and can parse -/
def fragParsed (c : Conv) (msg : Bytes) : Option Arrival :=
  if fragIgnored c msg then none
  else if (prefixPure c msg).1.2.2 then parseFragment (prefixPure c msg).1.1 else none

/-- the arrival the abstract machine of `Proofs.Frag` sees for these bytes -/
def fragArrival (c : Conv) (msg : Bytes) : Arrival := (fragParsed c msg).getD noArrival

/-- the three outcomes of `receiveFragment` (`Otr.FragStep`) -/
def fragStepOf (c : Conv) (before : FragCtx) (msg : Bytes) : FragStep :=
  if fragIgnored c msg then .ignore
  else match fragParsed c msg with
    | some (d, ix, l) => .ok (fragAccept before d ix l)
    | none => .invalid

/-- the context a `FragStep` leaves behind -/
def FragStep.ctxAfter (before : FragCtx) : FragStep → FragCtx
  | .ignore => before
  | .invalid => before
  | .ok ctx => ctx

instance (a : Arrival) : Decidable a.invalid :=
  inferInstanceAs (Decidable (a.2.1 = 0 ∨ a.2.2 = 0 ∨ a.2.1 > a.2.2))

/-- repaired code: what `receiveFragment` does to the conversation `c` (`c0`: the conversation before the call)
    when it ignores, rejects or discards a fragment — the version is uncommitted again if none was committed
    before (and with it the long-term key selected for that version), and the peer's instance tag is put back -/
def unbindConv (c0 c : Conv) : Conv :=
  { c with version := if c0.version.isNone then none else c.version,
           ourCurrentKey := if c0.version.isNone then c0.ourCurrentKey else c.ourCurrentKey,
           theirTag := c0.theirTag }

/-- the fragment is addressed to this conversation but useless: unparsable (rejected with an error), or parsed
    with an illegal numbering `ix = 0 ∨ l = 0 ∨ ix > l` (silently discarded); in both cases `fragAccept` keeps
    the context as it is -/
def fragRejected (c : Conv) (msg : Bytes) : Prop := fragIgnored c msg = false ∧ (fragArrival c msg).invalid

instance (c : Conv) (msg : Bytes) : Decidable (fragRejected c msg) :=
  inferInstanceAs (Decidable (fragIgnored c msg = false ∧ (fragArrival c msg).invalid))

/-- the arrival is out of sequence for the context `before`: neither a first piece nor the piece that follows
    the ones collected (same total) — for a legal numbering exactly the case in which `fragAccept` forgets the
    context -/
def Arrival.outOfSeq (before : FragCtx) (a : Arrival) : Prop :=
  a.2.1 ≠ 1 ∧ ¬ ((before.index + 1) % 65536 = a.2.1 ∧ before.len = a.2.2)

instance (before : FragCtx) (a : Arrival) : Decidable (a.outOfSeq before) :=
  inferInstanceAs (Decidable (a.2.1 ≠ 1 ∧ ¬ ((before.index + 1) % 65536 = a.2.1 ∧ before.len = a.2.2)))

/-- a legally numbered arrival that is out of sequence empties the context -/
theorem acceptStep_outOfSeq (before : FragCtx) (a : Arrival) (hv : ¬ a.invalid) (ho : a.outOfSeq before) :
    acceptStep before a = FragCtx.empty := by
  have hv' : ¬ (a.2.1 = 0 ∨ a.2.2 = 0 ∨ a.2.1 > a.2.2) := hv
  unfold acceptStep fragAccept
  rw [if_neg hv', if_neg ho.1, if_neg ho.2]

/-- a legally numbered arrival that is in sequence (a first piece, or the next piece of the stream being
    collected) is taken into the context -/
theorem acceptStep_inSeq (before : FragCtx) (a : Arrival) (hv : ¬ a.invalid) (ho : ¬ a.outOfSeq before) :
    acceptStep before a = if a.2.1 = 1 then ⟨a.1, a.2.1, a.2.2⟩ else ⟨before.frag ++ a.1, a.2.1, a.2.2⟩ := by
  have hv' : ¬ (a.2.1 = 0 ∨ a.2.2 = 0 ∨ a.2.1 > a.2.2) := hv
  unfold acceptStep fragAccept
  rw [if_neg hv']
  by_cases h1 : a.2.1 = 1
  · rw [if_pos h1, if_pos h1]
  · rw [if_neg h1, if_neg h1]
    have : (before.index + 1) % 65536 = a.2.1 ∧ before.len = a.2.2 := by
      apply Decidable.byContradiction
      intro hn
      exact ho ⟨h1, hn⟩
    rw [if_pos this]

/-- the fragment is addressed to this conversation and parsed with a legal numbering, but it is out of sequence
    for the context `before`: `fragAccept` forgets the context (repaired code: and the conversation is unbound) -/
def fragOutOfSeq (c : Conv) (before : FragCtx) (msg : Bytes) : Prop :=
  fragIgnored c msg = false ∧ ¬ (fragArrival c msg).invalid ∧ (fragArrival c msg).outOfSeq before

instance (c : Conv) (before : FragCtx) (msg : Bytes) : Decidable (fragOutOfSeq c before msg) :=
  inferInstanceAs (Decidable (fragIgnored c msg = false ∧ ¬ (fragArrival c msg).invalid ∧
    (fragArrival c msg).outOfSeq before))

/-- the fragment is addressed to this conversation but nothing of it is kept: rejected (unparsable), illegally
    numbered, or out of sequence for the context `before` — everything but a first piece or the next piece of
    the stream being collected -/
def fragDiscarded (c : Conv) (before : FragCtx) (msg : Bytes) : Prop :=
  fragRejected c msg ∨ fragOutOfSeq c before msg

instance (c : Conv) (before : FragCtx) (msg : Bytes) : Decidable (fragDiscarded c before msg) :=
  inferInstanceAs (Decidable (fragRejected c msg ∨ fragOutOfSeq c before msg))

theorem fragDiscarded_iff (c : Conv) (before : FragCtx) (msg : Bytes) :
    fragDiscarded c before msg ↔
      fragIgnored c msg = false ∧ ((fragArrival c msg).invalid ∨ (fragArrival c msg).outOfSeq before) := by
  unfold fragDiscarded fragRejected fragOutOfSeq
  constructor
  · rintro (⟨h1, h2⟩ | ⟨h1, _, h3⟩)
    · exact ⟨h1, Or.inl h2⟩
    · exact ⟨h1, Or.inr h3⟩
  · rintro ⟨h1, h2⟩
    by_cases hi : (fragArrival c msg).invalid
    · exact Or.inl ⟨h1, hi⟩
    · rcases h2 with h2 | h2
      · exact absurd h2 hi
      · exact Or.inr ⟨h1, hi, h2⟩

/-- the conversation after `receiveFragment before` (repaired code: a fragment for another instance is unbound as
    well, before the event is raised; and so is an out-of-sequence fragment) -/
def fragPostConv (c : Conv) (before : FragCtx) (msg : Bytes) : Conv :=
  if fragIgnored c msg = true ∨ fragDiscarded c before msg then unbindConv c (prefixPure c msg).2.1
  else (prefixPure c msg).2.1

/-- the state after `receiveFragment before` (up to the event for an ignored fragment) -/
def fragPostState (s : MState) (before : FragCtx) (msg : Bytes) : MState :=
  { s with conv := fragPostConv s.conv before msg, events := s.events ++ (prefixPure s.conv msg).2.2 }

def invalidFragmentErr : Err := .other "invalid OTR fragment"

/-- exact behaviour of `receiveFragment` -/
theorem receiveFragment_run (before : FragCtx) (msg : Bytes) (s : MState) :
    runM (receiveFragment before msg) s =
      match fragStepOf s.conv before msg with
      | .ignore => .ok (.ok before,
          { fragPostState s before msg with events := (fragPostState s before msg).events ++ ["msg:15"] })
      | .invalid => .ok (.error invalidFragmentErr, fragPostState s before msg)
      | .ok ctx => .ok (.ok ctx, fragPostState s before msg) := by
  unfold receiveFragment
  simp only [runM_bind, runM_getc, bindM_ok, parseFragmentPrefix_run]
  cases hig : (prefixPure s.conv msg).1.2.1 with
  | true =>
    have hig' : fragIgnored s.conv msg = true := hig
    have hst : fragStepOf s.conv before msg = .ignore := by simp [fragStepOf, hig']
    have hpc : fragPostConv s.conv before msg = unbindConv s.conv (prefixPure s.conv msg).2.1 := by
      simp [fragPostConv, hig']
    rw [hst]
    simp [fragPostState, hpc, runM_msgEvent, evOtherInstance, unbindConv]
    rfl
  | false =>
    have hig' : fragIgnored s.conv msg = false := hig
    simp only [Bool.false_eq_true, ↓reduceIte]
    cases hok : (prefixPure s.conv msg).1.2.2 with
    | false =>
      have hpa : fragParsed s.conv msg = none := by simp [fragParsed, hig', hok]
      have hst : fragStepOf s.conv before msg = .invalid := by simp [fragStepOf, hig', hpa]
      have hpc : fragPostConv s.conv before msg = unbindConv s.conv (prefixPure s.conv msg).2.1 := by
        simp [fragPostConv, fragDiscarded, fragRejected, hig', fragArrival, hpa, noArrival_invalid]
      rw [hst]
      simp [fragPostState, hpc, invalidFragmentErr, unbindConv]
    | true =>
      cases hpf : parseFragment (prefixPure s.conv msg).1.1 with
      | none =>
        have hpa : fragParsed s.conv msg = none := by simp [fragParsed, hig', hok, hpf]
        have hst : fragStepOf s.conv before msg = .invalid := by simp [fragStepOf, hig', hpa]
        have hpc : fragPostConv s.conv before msg = unbindConv s.conv (prefixPure s.conv msg).2.1 := by
          simp [fragPostConv, fragDiscarded, fragRejected, hig', fragArrival, hpa, noArrival_invalid]
        rw [hst]
        simp [fragPostState, hpc, invalidFragmentErr, unbindConv]
      | some a =>
        obtain ⟨d, ix, l⟩ := a
        have hpa : fragParsed s.conv msg = some (d, ix, l) := by simp [fragParsed, hig', hok, hpf]
        have harr : fragArrival s.conv msg = (d, ix, l) := by simp [fragArrival, hpa]
        have hst : fragStepOf s.conv before msg = .ok (fragAccept before d ix l) := by
          simp [fragStepOf, hig', hpa]
        rw [hst]
        by_cases hbad : (ix = 0 ∨ l = 0 ∨ ix > l) ∨ (ix ≠ 1 ∧ ¬((before.index + 1) % 65536 = ix ∧ before.len = l))
        · have hd : fragDiscarded s.conv before msg := by
            rw [fragDiscarded_iff, harr]
            exact ⟨hig', hbad⟩
          have hpc : fragPostConv s.conv before msg = unbindConv s.conv (prefixPure s.conv msg).2.1 := by
            unfold fragPostConv; rw [if_pos (Or.inr hd)]
          simp only [if_pos hbad]
          simp [fragPostState, hpc, unbindConv]
        · have hd : ¬ fragDiscarded s.conv before msg := by
            rw [fragDiscarded_iff, harr]
            exact fun h => hbad h.2
          have hpc : fragPostConv s.conv before msg = (prefixPure s.conv msg).2.1 := by
            unfold fragPostConv
            rw [if_neg (by rw [hig']; simp [hd])]
          simp only [if_neg hbad]
          simp [fragPostState, hpc]

/-! ## 2. the fragment branch of `receiveUnit` -/

/-- the fragment branch of `receiveUnit` with the recursive call abstracted: `inner` is what is done
    with a reassembled message -/
def recvFragmentWith (inner : Bytes → M RecvResult) (message : Bytes) : M RecvResult := do
  let c ← getc
  let r ← tryCatch (do let x ← receiveFragment c.fragCtx message; pure (Except.ok x)) (fun e => pure (Except.error e))
  let err ← match r with
    | .ok ctx => do modc (fun c => { c with fragCtx := ctx }); pure none
    | .error e => do
      modc (fun c' => { c' with theirTag := c.theirTag })
      pure (some e)
  let c ← getc
  if c.fragCtx.finished then do
    let assembled := c.fragCtx.frag
    modc fun c => { c with fragCtx := FragCtx.empty }
    let r ← inner assembled
    return ⟨r.plain, ← withInjects r.toSend, r.err⟩
  let enc ← toSendEncoded [] err
  return ⟨none, ← withInjects enc, err⟩

/-- `receiveUnit` on bytes classified as a fragment is `recvFragmentWith` with `receiveUnit` itself
    (one unit of fuel less, `forgetFragments = false`) as the inner call -/
theorem receiveUnit_fragment_eq (K : Crypto) (fuel : Nat) (msg : Bytes) (fg : Bool) (s : MState)
    (hp : isOTREnabled s.conv.policies = true) (hg : guessMessageType msg = .fragment) :
    runM (receiveUnit K (fuel + 1) msg fg) s =
      runM (recvFragmentWith (fun a => receiveUnit K fuel a false) msg) s := by
  rw [receiveUnit]
  unfold recvFragmentWith
  simp only [runM_bind, runM_getc, bindM_ok, hp, Bool.not_true, Bool.false_eq_true, ↓reduceIte, hg,
    Bool.false_and, runM_tryCatch]
  cases runM (receiveFragment s.conv.fragCtx msg) s with
  | panic site => rfl
  | ok v =>
    obtain ⟨r, s1⟩ := v
    cases r with
    | ok ctx =>
      simp only [bindM_ok, runM_pure, catchM_ok, runM_bind, runM_modc, runM_getc]
    | error e =>
      simp only [bindM_error, catchM_error, runM_pure, bindM_ok, runM_bind, runM_modc, runM_getc]

theorem fragParsed_of_ignored (c : Conv) (msg : Bytes) (h : fragIgnored c msg = true) :
    fragParsed c msg = none := by
  simp [fragParsed, h]

theorem fragStepOf_ctxAfter (c : Conv) (before : FragCtx) (msg : Bytes) :
    (fragStepOf c before msg).ctxAfter before = acceptStep before (fragArrival c msg) := by
  unfold fragStepOf fragArrival
  cases hig : fragIgnored c msg with
  | true => simp [fragParsed_of_ignored _ _ hig, FragStep.ctxAfter, acceptStep_noArrival]
  | false =>
    cases hpa : fragParsed c msg with
    | none => simp [FragStep.ctxAfter, acceptStep_noArrival]
    | some a => obtain ⟨d, ix, l⟩ := a; simp [FragStep.ctxAfter, acceptStep]

/-- the arrival is the parsed fragment exactly when `receiveFragment` accepts the bytes; otherwise (foreign
    instance, unparsable) it is the arrival `fragAccept` ignores -/
theorem fragArrival_cases (c : Conv) (before : FragCtx) (msg : Bytes) :
    (fragStepOf c before msg = .ignore ∧ fragArrival c msg = noArrival) ∨
    (fragStepOf c before msg = .invalid ∧ fragArrival c msg = noArrival) ∨
    (∃ d ix l, fragParsed c msg = some (d, ix, l) ∧ fragArrival c msg = (d, ix, l) ∧
      fragStepOf c before msg = .ok (fragAccept before d ix l)) := by
  unfold fragStepOf fragArrival
  cases hig : fragIgnored c msg with
  | true => left; simp [fragParsed_of_ignored _ _ hig]
  | false =>
    right
    cases hpa : fragParsed c msg with
    | none => left; simp
    | some a => right; obtain ⟨d, ix, l⟩ := a; exact ⟨d, ix, l, rfl, rfl, by simp⟩

/-- pending injections handed out -/
def clearInj (s : MState) : MState := { s with conv := { s.conv with injections := [] } }

/-- the error `receiveUnit` reports for these bytes (when nothing is delivered) -/
def fragErr (c : Conv) (msg : Bytes) : Option Err :=
  if fragStepOf c c.fragCtx msg = .invalid then some invalidFragmentErr else none

/-- one step of the abstract machine of `Proofs.Frag` (`deliverStep`) from the conversation's context,
    for the arrival these bytes stand for; `.2` is `[]` or `[reassembled message]` -/
def fragDeliver (c : Conv) (msg : Bytes) : FragCtx × List Bytes :=
  deliverStep (c.fragCtx, []) (fragArrival c msg)

theorem unbindConv_fragCtx (c0 c : Conv) : (unbindConv c0 c).fragCtx = c.fragCtx := rfl

theorem fragPostConv_fragCtx (c : Conv) (before : FragCtx) (msg : Bytes) :
    (fragPostConv c before msg).fragCtx = c.fragCtx := by
  unfold fragPostConv
  split
  · rw [unbindConv_fragCtx, prefixPure_fragCtx]
  · exact prefixPure_fragCtx c msg

/-- the conversation in which a reassembled message is processed, or, when nothing is delivered, in which the
    call ends (before the pending injections are handed out): the effects of `receiveFragment` (those of
    `parseFragmentPrefix`, undone as far as version and peer tag go if the fragment was rejected or discarded),
    and the context of the abstract machine -/
def fragSettledConv (c : Conv) (msg : Bytes) : Conv :=
  { fragPostConv c c.fragCtx msg with fragCtx := (fragDeliver c msg).1 }

/-- the same as a state: the events of `parseFragmentPrefix` and the event for an ignored fragment are added -/
def fragSettled (s : MState) (msg : Bytes) : MState :=
  { s with
    conv := fragSettledConv s.conv msg,
    events := s.events ++ (prefixPure s.conv msg).2.2 ++
      (if fragStepOf s.conv s.conv.fragCtx msg = .ignore then ["msg:15"] else []) }

theorem deliverStep_eq (ctx : FragCtx) (out : List Bytes) (a : Arrival) :
    deliverStep (ctx, out) a =
      if (acceptStep ctx a).finished then (FragCtx.empty, out ++ [(acceptStep ctx a).frag])
      else (acceptStep ctx a, out) := by
  unfold deliverStep acceptStep
  rfl

theorem deliverStep_nil (ctx : FragCtx) (a : Arrival) :
    deliverStep (ctx, []) a =
      if (acceptStep ctx a).finished then (FragCtx.empty, [(acceptStep ctx a).frag]) else (acceptStep ctx a, []) := by
  unfold deliverStep acceptStep
  rfl

/-- **`receiveUnit`'s fragment branch refines `deliverStep`** (any inner handler): the conversation's context
    becomes the abstract machine's context; `inner` runs iff the abstract machine delivers, on exactly the bytes
    it delivers, from the state `fragSettled s msg` whose context is already forgotten; otherwise the call returns
    the pending injections and, for an unparsable fragment, the error -/
theorem recvFragmentWith_run (inner : Bytes → M RecvResult) (msg : Bytes) (s : MState) :
    runM (recvFragmentWith inner msg) s =
      match (fragDeliver s.conv msg).2 with
      | [] => .ok (.ok ⟨none, (fragSettled s msg).conv.injections, fragErr s.conv msg⟩, clearInj (fragSettled s msg))
      | a :: _ => bindM (runM (inner a) (fragSettled s msg))
          (fun r s2 => .ok (.ok ⟨r.plain, r.toSend ++ s2.conv.injections, r.err⟩, clearInj s2)) := by
  unfold recvFragmentWith
  simp only [runM_bind, runM_getc, bindM_ok, runM_tryCatch, receiveFragment_run]
  have hctx := fragPostConv_fragCtx s.conv s.conv.fragCtx msg
  unfold fragSettled fragSettledConv fragErr fragDeliver
  rw [deliverStep_nil]
  rcases fragArrival_cases s.conv s.conv.fragCtx msg with ⟨hst, harr⟩ | ⟨hst, harr⟩ | ⟨d, ix, l, _, harr, hst⟩
  · rw [hst, harr, acceptStep_noArrival]
    by_cases hfin : s.conv.fragCtx.finished = true <;>
      simp [fragPostState, hfin, toSendEncoded, withInjects, clearInj]
  · have hrej : fragRejected s.conv msg := by
      refine ⟨?_, harr ▸ noArrival_invalid⟩
      unfold fragStepOf at hst
      cases hig : fragIgnored s.conv msg with
      | false => rfl
      | true => rw [hig] at hst; simp at hst
    have hpc : fragPostConv s.conv s.conv.fragCtx msg = unbindConv s.conv (prefixPure s.conv msg).2.1 := by
      have hd : fragDiscarded s.conv s.conv.fragCtx msg := Or.inl hrej
      unfold fragPostConv; rw [if_pos (Or.inr hd)]
    have htag : ({ fragPostConv s.conv s.conv.fragCtx msg with theirTag := s.conv.theirTag } : Conv) = fragPostConv s.conv s.conv.fragCtx msg := by
      rw [hpc]; rfl
    rw [hst, harr, acceptStep_noArrival]
    by_cases hfin : s.conv.fragCtx.finished = true
    · simp [fragPostState, hfin, hctx, toSendEncoded, withInjects, clearInj]
      rw [← htag]
    · simp [fragPostState, hfin, hctx, toSendEncoded, withInjects, clearInj]
      rw [← htag]
  · rw [hst, harr]
    simp only [acceptStep]
    by_cases hfin : (fragAccept s.conv.fragCtx d ix l).finished = true <;>
      simp [fragPostState, hfin, toSendEncoded, withInjects, clearInj]

/-! ### the link to `deliverStep`, made explicit -/

/-- **`receiveFragment` refines one `acceptStep`/`deliverStep` of the abstract machine**: it never panics; the
    context it returns (the old one, which the caller keeps, when it reports the error) is `fragAccept` applied
    to the arrival the bytes stand for; it reports an error exactly for unparsable bytes; and what the caller
    does next — deliver `ctx.frag` and forget, or keep `ctx` — is `deliverStep` -/
theorem receiveFragment_refines (before : FragCtx) (msg : Bytes) (s : MState) (out : List Bytes) :
    ∃ r s', runM (receiveFragment before msg) s = .ok (r, s') ∧
      s'.conv = fragPostConv s.conv before msg ∧ s'.env = s.env ∧ s'.mismatch = s.mismatch ∧
      (r = .error invalidFragmentErr ↔ fragStepOf s.conv before msg = .invalid) ∧
      (∀ e, r = .error e → e = invalidFragmentErr) ∧
      (match r with | .ok ctx => ctx | .error _ => before) = acceptStep before (fragArrival s.conv msg) ∧
      deliverStep (before, out) (fragArrival s.conv msg) =
        (let ctx := (match r with | .ok ctx => ctx | .error _ => before)
         if ctx.finished then (FragCtx.empty, out ++ [ctx.frag]) else (ctx, out)) := by
  have hc := fragStepOf_ctxAfter s.conv before msg
  rw [receiveFragment_run]
  cases hst : fragStepOf s.conv before msg with
  | ignore =>
    rw [hst] at hc
    refine ⟨_, _, rfl, rfl, rfl, rfl, by simp, by simp, hc, ?_⟩
    rw [deliverStep_eq, ← hc]; rfl
  | invalid =>
    rw [hst] at hc
    refine ⟨_, _, rfl, rfl, rfl, rfl, by simp, by simp, hc, ?_⟩
    rw [deliverStep_eq, ← hc]; rfl
  | ok ctx =>
    rw [hst] at hc
    refine ⟨_, _, rfl, rfl, rfl, rfl, by simp, by simp, hc, ?_⟩
    rw [deliverStep_eq, ← hc]; rfl

/-- the two shapes of one abstract step from the conversation's context -/
theorem fragDeliver_cases (c : Conv) (msg : Bytes) :
    ((acceptStep c.fragCtx (fragArrival c msg)).finished = false ∧
      fragDeliver c msg = (acceptStep c.fragCtx (fragArrival c msg), [])) ∨
    ((acceptStep c.fragCtx (fragArrival c msg)).finished = true ∧
      fragDeliver c msg = (FragCtx.empty, [(acceptStep c.fragCtx (fragArrival c msg)).frag])) := by
  unfold fragDeliver
  rw [deliverStep_nil]
  cases (acceptStep c.fragCtx (fragArrival c msg)).finished <;> simp

theorem fragSettled_fragCtx (s : MState) (msg : Bytes) :
    (fragSettled s msg).conv.fragCtx = (fragDeliver s.conv msg).1 := rfl

/-- when a message is delivered the context has already been forgotten -/
theorem fragSettled_forgotten (s : MState) (msg : Bytes) (a : Bytes) (rest : List Bytes)
    (h : (fragDeliver s.conv msg).2 = a :: rest) :
    (fragSettled s msg).conv.fragCtx = FragCtx.empty ∧ rest = [] ∧
      a = (acceptStep s.conv.fragCtx (fragArrival s.conv msg)).frag ∧
      (acceptStep s.conv.fragCtx (fragArrival s.conv msg)).finished = true := by
  rw [fragSettled_fragCtx]
  rcases fragDeliver_cases s.conv msg with ⟨_, h2⟩ | ⟨h1, h2⟩
  · rw [h2] at h; cases h
  · rw [h2] at h ⊢
    simp only [List.cons.injEq] at h
    exact ⟨rfl, h.2.symm, h.1.symm, h1⟩

/-- **the refinement for `receiveUnit` itself** (bytes classified as a fragment, OTR enabled): the recursive
    `receiveUnit` call happens iff `deliverStep` delivers, on exactly the delivered bytes, from the state
    `fragSettled s msg` whose context is the abstract machine's (empty: nothing is processed twice) -/
theorem receiveUnit_fragment_refines (K : Crypto) (fuel : Nat) (msg : Bytes) (fg : Bool) (s : MState)
    (hp : isOTREnabled s.conv.policies = true) (hg : guessMessageType msg = .fragment) :
    runM (receiveUnit K (fuel + 1) msg fg) s =
      match (deliverStep (s.conv.fragCtx, []) (fragArrival s.conv msg)).2 with
      | [] => .ok (.ok ⟨none, (fragSettled s msg).conv.injections, fragErr s.conv msg⟩, clearInj (fragSettled s msg))
      | a :: _ => bindM (runM (receiveUnit K fuel a false) (fragSettled s msg))
          (fun r s2 => .ok (.ok ⟨r.plain, r.toSend ++ s2.conv.injections, r.err⟩, clearInj s2)) := by
  rw [receiveUnit_fragment_eq K fuel msg fg s hp hg, recvFragmentWith_run]
  rfl

/-! ## 3. sequences of fragments -/

/-- an inner handler that reports the message it is given as its plaintext result and leaves conversation and
    environment alone (it may raise events and return messages to send or an error).  Used to observe which
    byte strings the fragment layer hands on while "the other state stays put". -/
def InnerReports (inner : Bytes → M RecvResult) : Prop :=
  ∀ a s, ∃ ts e evs, runM (inner a) s = .ok (.ok ⟨some a, ts, e⟩, { s with events := s.events ++ evs })

/-- the simplest such handler -/
def reportInner : Bytes → M RecvResult := fun a => pure ⟨some a, [], none⟩

theorem reportInner_reports : InnerReports reportInner := by
  intro a s
  exact ⟨[], none, [], by simp [reportInner]⟩

/-- receive the byte strings one after another through the fragment branch -/
def recvFragmentsWith (inner : Bytes → M RecvResult) : List Bytes → M (List RecvResult)
  | [] => pure []
  | m :: ms => do
    let r ← recvFragmentWith inner m
    let rs ← recvFragmentsWith inner ms
    pure (r :: rs)

/-- the conversation after one such call: `fragSettledConv` with the injections handed out -/
def fragConvAfter (c : Conv) (msg : Bytes) : Conv := { fragSettledConv c msg with injections := [] }

/-- the arrivals a list of byte strings stands for; each is classified in the conversation state the previous
    ones leave behind (version commitment, adoption of the peer's instance tag) -/
def fragArrivals : Conv → List Bytes → List Arrival
  | _, [] => []
  | c, m :: ms => fragArrival c m :: fragArrivals (fragConvAfter c m) ms

theorem foldl_deliverStep_out : ∀ (as : List Arrival) (ctx : FragCtx) (out : List Bytes),
    as.foldl deliverStep (ctx, out) =
      ((as.foldl deliverStep (ctx, [])).1, out ++ (as.foldl deliverStep (ctx, [])).2) := by
  intro as
  induction as with
  | nil => intro ctx out; simp
  | cons a as ih =>
    intro ctx out
    simp only [List.foldl_cons, deliverStep_eq]
    split
    · rw [ih, ih FragCtx.empty ([] ++ _)]
      simp
    · rw [ih]

theorem fragConvAfter_fragCtx (c : Conv) (msg : Bytes) :
    (fragConvAfter c msg).fragCtx = (fragDeliver c msg).1 := rfl

/-- one call with a reporting inner handler: total, the conversation becomes `fragConvAfter`, and the reported
    plaintext is what the abstract step delivers -/
theorem recvFragmentWith_reports (inner : Bytes → M RecvResult) (hin : InnerReports inner) (msg : Bytes)
    (s : MState) :
    ∃ r evs, runM (recvFragmentWith inner msg) s =
        .ok (.ok r, { s with conv := fragConvAfter s.conv msg, events := s.events ++ evs }) ∧
      r.plain.toList = (fragDeliver s.conv msg).2 := by
  rw [recvFragmentWith_run]
  rcases fragDeliver_cases s.conv msg with ⟨_, h2⟩ | ⟨_, h2⟩
  · rw [h2]
    refine ⟨⟨none, (fragSettled s msg).conv.injections, fragErr s.conv msg⟩,
      (prefixPure s.conv msg).2.2 ++
        (if fragStepOf s.conv s.conv.fragCtx msg = .ignore then ["msg:15"] else []), ?_, rfl⟩
    simp only [clearInj, fragSettled, fragConvAfter, List.append_assoc]
  · rw [h2]
    obtain ⟨ts, e, evs, hr⟩ := hin (acceptStep s.conv.fragCtx (fragArrival s.conv msg)).frag (fragSettled s msg)
    simp only [hr, bindM_ok]
    refine ⟨⟨some (acceptStep s.conv.fragCtx (fragArrival s.conv msg)).frag,
        ts ++ (fragSettled s msg).conv.injections, e⟩,
      (prefixPure s.conv msg).2.2 ++
        (if fragStepOf s.conv s.conv.fragCtx msg = .ignore then ["msg:15"] else []) ++ evs, ?_, rfl⟩
    simp only [clearInj, fragSettled, fragConvAfter, List.append_assoc]

/-- **the refinement for sequences**: received one after another (inner handler reporting, other state staying
    put), the byte strings handed to the inner handler — read off the results — are exactly the abstract
    machine's output for the arrivals the byte strings stand for, and the conversation's context at the end is
    the abstract machine's -/
theorem receive_fragments_refine (inner : Bytes → M RecvResult) (hin : InnerReports inner) :
    ∀ (msgs : List Bytes) (s : MState),
    ∃ rs s', runM (recvFragmentsWith inner msgs) s = .ok (.ok rs, s') ∧
      rs.length = msgs.length ∧ s'.env = s.env ∧ s'.mismatch = s.mismatch ∧
      rs.filterMap (·.plain) = (List.foldl deliverStep (s.conv.fragCtx, []) (fragArrivals s.conv msgs)).2 ∧
      s'.conv.fragCtx = (List.foldl deliverStep (s.conv.fragCtx, []) (fragArrivals s.conv msgs)).1 := by
  intro msgs
  induction msgs with
  | nil => intro s; exact ⟨[], s, rfl, rfl, rfl, rfl, rfl, rfl⟩
  | cons m ms ih =>
    intro s
    obtain ⟨r, evs, hr, hpl⟩ := recvFragmentWith_reports inner hin m s
    obtain ⟨rs, s', hrs, hlen, henv, hmm, hout, hctx⟩ :=
      ih { s with conv := fragConvAfter s.conv m, events := s.events ++ evs }
    refine ⟨r :: rs, s', ?_, by simp [hlen], henv, hmm, ?_, ?_⟩
    · simp only [recvFragmentsWith, runM_bind, hr, bindM_ok, hrs, runM_pure]
    · simp only [fragArrivals, List.foldl_cons]
      have hd : deliverStep (s.conv.fragCtx, []) (fragArrival s.conv m) = fragDeliver s.conv m := rfl
      rw [hd, show fragDeliver s.conv m = ((fragDeliver s.conv m).1, (fragDeliver s.conv m).2) from rfl,
        foldl_deliverStep_out]
      simp only [fragConvAfter_fragCtx] at hout
      rw [← hout, ← hpl]
      cases hp : r.plain <;> simp [hp]
    · simp only [fragArrivals, List.foldl_cons]
      have hd : deliverStep (s.conv.fragCtx, []) (fragArrival s.conv m) = fragDeliver s.conv m := rfl
      rw [hd, show fragDeliver s.conv m = ((fragDeliver s.conv m).1, (fragDeliver s.conv m).2) from rfl,
        foldl_deliverStep_out]
      simp only [fragConvAfter_fragCtx] at hctx
      exact hctx

/-! ### the abstract theorems, restated for the conversation -/

theorem Delivered.mem {hist : List Arrival} {out : List Bytes} (h : Delivered hist out) :
    ∀ p ∈ out, ∃ ds : List Bytes, ds ≠ [] ∧ p = ds.flatten ∧ (numbered ds.length ds 1).Sublist hist := by
  induction h with
  | nil => intro p hp; cases hp
  | snoc seg ds _ hne hsub ih =>
    intro p hp
    rcases List.mem_append.mp hp with hp | hp
    · obtain ⟨ds', h1, h2, h3⟩ := ih p hp
      exact ⟨ds', h1, h2, h3.trans (List.sublist_append_left _ _)⟩
    · rw [List.mem_singleton] at hp
      exact ⟨ds, hne, hp, hsub.trans (List.sublist_append_right _ _)⟩

/-- **only complete messages are processed** (conversation level, through the refinement): every byte string
    handed to the inner handler is the concatenation, in order, of pieces 1..n (n ≥ 1) of one stream with total
    n, all of which arrived, in this order, among the fragments received -/
theorem c14_conv_only_complete (inner : Bytes → M RecvResult) (hin : InnerReports inner) (msgs : List Bytes)
    (s : MState) (h0 : s.conv.fragCtx = FragCtx.empty) :
    ∃ rs s', runM (recvFragmentsWith inner msgs) s = .ok (.ok rs, s') ∧
      ∀ p ∈ rs.filterMap (·.plain), ∃ ds : List Bytes, ds ≠ [] ∧ p = ds.flatten ∧
        (numbered ds.length ds 1).Sublist (fragArrivals s.conv msgs) := by
  obtain ⟨rs, s', hr, -, -, -, hout, -⟩ := receive_fragments_refine inner hin msgs s
  refine ⟨rs, s', hr, ?_⟩
  obtain ⟨done, cur, hsplit, hdel, -⟩ := c14_exactly_once (fragArrivals s.conv msgs)
  rw [h0] at hout
  rw [← hout] at hdel
  intro p hp
  obtain ⟨ds, h1, h2, h3⟩ := hdel.mem p hp
  exact ⟨ds, h1, h2, hsplit ▸ h3.trans (List.sublist_append_left _ _)⟩

/-- **exactly once** (conversation level, through the refinement): the fragments received split into
    consecutive segments, one per processed message — each processed message is pieces 1..n of one stream that
    arrived in order inside its own segment — followed by the fragments since the last delivery, of which the
    conversation's context holds a run of pieces 1..index; and there are at most as many processed messages
    as final pieces (index = total) received -/
theorem c14_conv_exactly_once (inner : Bytes → M RecvResult) (hin : InnerReports inner) (msgs : List Bytes)
    (s : MState) (h0 : s.conv.fragCtx = FragCtx.empty) :
    ∃ rs s' done cur, runM (recvFragmentsWith inner msgs) s = .ok (.ok rs, s') ∧
      fragArrivals s.conv msgs = done ++ cur ∧
      Delivered done (rs.filterMap (·.plain)) ∧ CtxInv cur s'.conv.fragCtx ∧
      s'.conv.fragCtx.finished = false ∧
      (rs.filterMap (·.plain)).length ≤
        ((fragArrivals s.conv msgs).filter (fun a => a.2.1 == a.2.2)).length := by
  obtain ⟨rs, s', hr, -, -, -, hout, hctx⟩ := receive_fragments_refine inner hin msgs s
  obtain ⟨done, cur, hsplit, hdel, hinv⟩ := c14_exactly_once (fragArrivals s.conv msgs)
  have honce := c14_once (fragArrivals s.conv msgs)
  rw [h0] at hout hctx
  rw [← hout] at hdel honce
  rw [← hctx] at hinv
  refine ⟨rs, s', done, cur, hr, hsplit, hdel, hinv, ?_, honce⟩
  rw [hctx]
  -- the abstract machine never rests in a finished context
  generalize fragArrivals s.conv msgs = as
  have : ∀ (as : List Arrival) (st : FragCtx × List Bytes), st.1.finished = false →
      (as.foldl deliverStep st).1.finished = false := by
    intro as
    induction as with
    | nil => intro st h; exact h
    | cons a as ih => intro st _; exact ih _ (deliverStep_not_finished st a)
  exact this as _ rfl

/-- **only complete messages are processed, as an invariant of the real `receiveUnit`**: if the conversation's
    context consists of pieces 1..index of one stream that arrived in this order within `hist` (`CtxInv`; true of
    the empty context), then receiving bytes classified as a fragment either processes nothing and re-establishes
    the invariant for `hist ++ [arrival]`, or processes — by the recursive `receiveUnit` call, from a state whose
    context is empty — exactly `ds.flatten` for pieces `ds` = 1..n of one stream with total n that arrived in
    order within `hist ++ [arrival]` -/
theorem receiveUnit_fragment_only_complete (K : Crypto) (fuel : Nat) (msg : Bytes) (fg : Bool) (s : MState)
    (hist : List Arrival)
    (hp : isOTREnabled s.conv.policies = true) (hg : guessMessageType msg = .fragment)
    (hinv : CtxInv hist s.conv.fragCtx) :
    (∃ r s', runM (receiveUnit K (fuel + 1) msg fg) s = .ok (.ok r, s') ∧ r.plain = none ∧
        CtxInv (hist ++ [fragArrival s.conv msg]) s'.conv.fragCtx) ∨
    (∃ ds : List Bytes, ds ≠ [] ∧ (numbered ds.length ds 1).Sublist (hist ++ [fragArrival s.conv msg]) ∧
        (fragSettled s msg).conv.fragCtx = FragCtx.empty ∧
        runM (receiveUnit K (fuel + 1) msg fg) s =
          bindM (runM (receiveUnit K fuel ds.flatten false) (fragSettled s msg))
            (fun r s2 => .ok (.ok ⟨r.plain, r.toSend ++ s2.conv.injections, r.err⟩, clearInj s2))) := by
  have hstep := hinv.step (fragArrival s.conv msg)
  rw [receiveUnit_fragment_refines K fuel msg fg s hp hg]
  rcases fragDeliver_cases s.conv msg with ⟨h1, h2⟩ | ⟨h1, h2⟩
  · left
    unfold fragDeliver at h2
    rw [h2]
    refine ⟨_, _, rfl, rfl, ?_⟩
    show CtxInv _ (fragDeliver s.conv msg).1
    unfold fragDeliver
    rw [h2]
    exact hstep
  · right
    have hctx : (fragSettled s msg).conv.fragCtx = FragCtx.empty := by
      rw [fragSettled_fragCtx, h2]
    unfold fragDeliver at h2
    rw [h2]
    simp only [FragCtx.finished, Bool.and_eq_true, decide_eq_true_eq, beq_iff_eq] at h1
    rcases hstep with he | ⟨_, ds, d1, d2, _, _, d5⟩
    · rw [he] at h1; exact absurd h1.1 (by decide)
    · have hne : ds ≠ [] := by
        intro e; rw [e] at d1; simp only [List.length_nil] at d1; omega
      rw [← h1.2, ← d1] at d5
      exact ⟨ds, hne, d5, hctx, by rw [d2]⟩

/-! ## 4. sender side: `fragment`, then this receiver -/

theorem splitOn_no_sep (sep : UInt8) : ∀ a : Bytes, sep ∉ a → splitOn sep a = [a] := by
  intro a
  induction a with
  | nil => intro _; rfl
  | cons c a ih =>
    intro h
    have hc : c ≠ sep := fun e => h (by simp [e])
    have ha : sep ∉ a := fun e => h (List.mem_cons_of_mem _ e)
    rw [splitOn]
    simp only [hc, ↓reduceIte, ih ha]

theorem hexDigitVal_lower_fin : ∀ d : Fin 16, hexDigitVal (Spec.hexDigitLower d.val) = some d.val := by decide

theorem hexDigitVal_lower (d : Nat) (h : d < 16) : hexDigitVal (Spec.hexDigitLower d) = some d :=
  hexDigitVal_lower_fin ⟨d, h⟩

theorem hexDigitLower_ne_fin : ∀ d : Fin 16, Spec.hexDigitLower d.val ≠ 44 ∧ Spec.hexDigitLower d.val ≠ 124 := by
  decide

theorem hex8_no_sep (v : Nat) : (44 : UInt8) ∉ Spec.hex8 v ∧ (124 : UInt8) ∉ Spec.hex8 v := by
  have h : ∀ d, d % 16 < 16 := fun d => Nat.mod_lt _ (by omega)
  constructor <;> intro hm <;>
    simp only [Spec.hex8, List.mem_cons, List.not_mem_nil, or_false] at hm
  · rcases hm with e | e | e | e | e | e | e | e <;>
      exact (hexDigitLower_ne_fin ⟨_, h _⟩).1 e.symm
  · rcases hm with e | e | e | e | e | e | e | e <;>
      exact (hexDigitLower_ne_fin ⟨_, h _⟩).2 e.symm

/-- instance tag round trip: the receiver reads back what `%08x` wrote -/
theorem parseItag_fmt08x (v : Nat) (h : v < 4294967296) : parseItag (fmt08x v) = some v := by
  rw [fmt08x_spec v h, parseItag_eq_some_iff]
  refine ⟨by simp [Spec.hex8], ?_, by omega⟩
  have hm : ∀ d, d % 16 < 16 := fun d => Nat.mod_lt _ (by omega)
  simp only [Spec.hex8, hexVal', hexDigitVal_lower _ (hm _)]
  congr 1
  omega

theorem otrv3FragPrefix_eq : otrv3FragPrefix = [63, 79, 84, 82, 124] := by decide
theorem otrv2FragPrefix_eq : otrv2FragPrefix = [63, 79, 84, 82, 44] := by decide

/-- the v3 header written by `fragmentPrefix` is read back by otrV3.parseFragmentPrefix: both instance tags,
    and the header ends at the first comma (23 bytes) -/
theorem v3PrefixParse_piece (its itr : Nat) (rest : Bytes) (h1 : its < 4294967296) (h2 : itr < 4294967296) :
    v3PrefixParse (fragTag .v3 its itr ++ rest) = some (its, itr, 23) := by
  have p1 := parseItag_fmt08x its h1
  have p2 := parseItag_fmt08x itr h2
  have l1 := fmt08x_length its h1
  have l2 := fmt08x_length itr h2
  have n1 : (44 : UInt8) ∉ fmt08x its ∧ (124 : UInt8) ∉ fmt08x its := by
    rw [fmt08x_spec its h1]; exact hex8_no_sep its
  have n2 : (44 : UInt8) ∉ fmt08x itr ∧ (124 : UInt8) ∉ fmt08x itr := by
    rw [fmt08x_spec itr h2]; exact hex8_no_sep itr
  have e : fragTag .v3 its itr ++ rest =
      ([63, 79, 84, 82, 124] ++ fmt08x its ++ 124 :: fmt08x itr) ++ 44 :: rest := by
    simp [fragTag, otrv3FragPrefix_eq]
  generalize fragTag .v3 its itr ++ rest = data at *
  generalize fmt08x its = a at *
  generalize fmt08x itr = b at *
  have hno : (44 : UInt8) ∉ [63, 79, 84, 82, 124] ++ a ++ 124 :: b := by
    simp only [List.mem_append, List.mem_cons, List.not_mem_nil, or_false, not_or]
    exact ⟨⟨by decide, n1.1⟩, by decide, n2.1⟩
  have hs : splitOn 44 data = ([63, 79, 84, 82, 124] ++ a ++ 124 :: b) :: splitOn 44 rest := by
    rw [e, splitOn_append_sep _ _ _ hno]
  have hs2 : splitOn 124 ([63, 79, 84, 82, 124] ++ a ++ 124 :: b) = [[63, 79, 84, 82], a, b] := by
    have : ([63, 79, 84, 82, 124] : Bytes) ++ a ++ 124 :: b = [63, 79, 84, 82] ++ 124 :: (a ++ 124 :: b) := by simp
    rw [this, splitOn_append_sep _ _ _ (by decide), splitOn_append_sep _ _ _ n1.2, splitOn_no_sep _ _ n2.2]
  have hc : data.contains 44 = true := by
    rw [e]; simp
  unfold v3PrefixParse
  rw [hc, hs]
  simp only [Bool.not_true, Bool.false_eq_true, ↓reduceIte, List.headD_cons, hs2, p1, p2]
  simp [l1, l2]

/-- the receiving conversation is the one the pieces are addressed to: it speaks version `v`, and (v3) the
    sender's tags `its` (sender), `itr` (receiver) are well formed and not those of another instance — the
    receiver tag is 0 or ours, our idea of the peer's tag is 0 or the sender tag -/
def RecvOK (v : Version) (its itr : Nat) (c : Conv) : Prop :=
  c.version = some v ∧ (v = .v3 → tagsWellFormed its itr ∧ ¬ tagsForeign c its itr)

/-- the conversation after the prefix of such a piece: v3 adopts (or confirms) the sender's tag -/
def adoptTag (v : Version) (its : Nat) (c : Conv) : Conv :=
  match v with
  | .v2 => c
  | .v3 => { c with theirTag := its }

theorem fragTag_v2_length (its itr : Nat) : (fragTag .v2 its itr).length = 5 := rfl

/-- `parseFragmentPrefix` accepts the header `fragmentPrefix` writes, when the receiver's tags match -/
theorem prefixPure_piece (v : Version) (its itr : Nat) (c : Conv) (rest : Bytes)
    (h1 : its < 4294967296) (h2 : itr < 4294967296) (hok : RecvOK v its itr c) :
    prefixPure c (fragTag v its itr ++ rest) = ((rest, false, true), adoptTag v its c, []) := by
  obtain ⟨hv, ht⟩ := hok
  unfold prefixPure
  have hcp : ∀ vs, commitPure c vs = (true, c) := by
    intro vs; unfold commitPure; rw [hv]
  simp only [hcp, Bool.true_eq_false, ↓reduceIte, hv]
  cases v with
  | v2 =>
    have hl : ¬ (fragTag .v2 its itr ++ rest).length < 5 := by
      rw [List.length_append, fragTag_v2_length]; omega
    simp only [hl, ↓reduceIte, adoptTag]
    rw [← fragTag_v2_length its itr, List.drop_left]
  | v3 =>
    obtain ⟨hwf, hnf⟩ := ht rfl
    simp only [v3PrefixParse_piece its itr rest h1 h2, hwf, not_true_eq_false, ↓reduceIte, hnf, adoptTag]
    have hl : (fragTag .v3 its itr).length = 23 := fragTag_length .v3 its itr h1 h2
    rw [← hl, List.drop_left, hv]

theorem RecvOK.after {v : Version} {its itr : Nat} {c : Conv} (h : RecvOK v its itr c) (ctx : FragCtx) :
    RecvOK v its itr { adoptTag v its c with fragCtx := ctx, injections := [] } := by
  obtain ⟨hv, ht⟩ := h
  cases v with
  | v2 => exact ⟨hv, fun e => by cases e⟩
  | v3 =>
    refine ⟨hv, fun _ => ⟨(ht rfl).1, ?_⟩⟩
    have hnf := (ht rfl).2
    unfold tagsForeign at *
    simp only [adoptTag, ne_eq, not_true_eq_false, and_false, or_false]
    exact fun h => hnf (Or.inl h)

/-- what the receiver reads from a piece: the parse of the part after the header, whatever its context -/
theorem fragParsed_piece (v : Version) (its itr : Nat) (c : Conv) (rest : Bytes)
    (h1 : its < 4294967296) (h2 : itr < 4294967296) (hok : RecvOK v its itr c) :
    fragIgnored c (fragTag v its itr ++ rest) = false ∧
    fragParsed c (fragTag v its itr ++ rest) = parseFragment rest := by
  unfold fragParsed fragIgnored
  rw [prefixPure_piece v its itr c rest h1 h2 hok]
  simp

/-- … and the conversation it leaves behind (the numbering being legal and the piece in sequence: a first piece
    or the next piece of the stream being collected) still is the one the pieces are addressed to -/
theorem fragConvAfter_piece (v : Version) (its itr : Nat) (c : Conv) (rest : Bytes)
    (h1 : its < 4294967296) (h2 : itr < 4294967296) (hok : RecvOK v its itr c)
    (a : Arrival) (hparse : parseFragment rest = some a) (hvalid : ¬ a.invalid) (hseq : ¬ a.outOfSeq c.fragCtx) :
    fragConvAfter c (fragTag v its itr ++ rest) =
      { adoptTag v its c with fragCtx := (fragDeliver c (fragTag v its itr ++ rest)).1, injections := [] } := by
  obtain ⟨hig, hpa⟩ := fragParsed_piece v its itr c rest h1 h2 hok
  have harr : fragArrival c (fragTag v its itr ++ rest) = a := by rw [fragArrival, hpa, hparse]; rfl
  have hne : ¬ fragDiscarded c c.fragCtx (fragTag v its itr ++ rest) := by
    rw [fragDiscarded_iff, harr]
    rintro ⟨_, h | h⟩
    · exact hvalid h
    · exact hseq h
  unfold fragConvAfter fragSettledConv fragPostConv
  have hno : ¬ (fragIgnored c (fragTag v its itr ++ rest) = true ∨
      fragDiscarded c c.fragCtx (fragTag v its itr ++ rest)) := by
    rintro (h | h)
    · rw [hig] at h; cases h
    · exact hne h
  rw [if_neg hno, prefixPure_piece v its itr c rest h1 h2 hok]

/-- repaired code: an illegally numbered or out-of-sequence piece does not even bind the peer tag — the
    conversation it leaves behind is the old one (with the abstract machine's context) -/
theorem fragConvAfter_piece_discarded (v : Version) (its itr : Nat) (c : Conv) (rest : Bytes)
    (h1 : its < 4294967296) (h2 : itr < 4294967296) (hok : RecvOK v its itr c)
    (a : Arrival) (hparse : parseFragment rest = some a) (hdisc : a.invalid ∨ a.outOfSeq c.fragCtx) :
    fragConvAfter c (fragTag v its itr ++ rest) =
      { c with fragCtx := (fragDeliver c (fragTag v its itr ++ rest)).1, injections := [] } := by
  obtain ⟨hig, hpa⟩ := fragParsed_piece v its itr c rest h1 h2 hok
  have harr : fragArrival c (fragTag v its itr ++ rest) = a := by rw [fragArrival, hpa, hparse]; rfl
  have hd : fragDiscarded c c.fragCtx (fragTag v its itr ++ rest) := by
    rw [fragDiscarded_iff, harr]
    exact ⟨hig, hdisc⟩
  have hun : unbindConv c (adoptTag v its c) = c := by
    have hn : c.version.isNone = false := by rw [hok.1]; rfl
    unfold unbindConv
    cases v <;> simp only [adoptTag, hn, Bool.false_eq_true, if_false] <;> rfl
  unfold fragConvAfter fragSettledConv fragPostConv
  rw [if_pos (Or.inr hd), prefixPure_piece v its itr c rest h1 h2 hok]
  show ({ unbindConv c (adoptTag v its c) with
    fragCtx := (fragDeliver c (fragTag v its itr ++ rest)).1, injections := [] } : Conv) = _
  rw [hun]

/-- what `fragment` sends is classified as a fragment by the receiver's `guessMessageType` -/
theorem guessMessageType_fragTag (v : Version) (its itr : Nat) (rest : Bytes) :
    guessMessageType (fragTag v its itr ++ rest) = .fragment := by
  cases v <;>
    simp [fragTag, otrv2FragPrefix_eq, otrv3FragPrefix_eq, guessMessageType, hasPrefix, strBytes_OTR, strBytes_g0,
      strBytes_g1, strBytes_g2, strBytes_g3, strBytes_g4, strBytes_g5, strBytes_g6, strBytes_g7, strBytes_g8,
      strBytes_g9, strBytes_g10, strBytes_g11, strBytes_g12, strBytes_g13, strBytes_g14, strBytes_g15,
      strBytes_OTRv]

/-- the arrival a piece stands for once its header has been accepted -/
def pieceArrival (v : Version) (p : Bytes) : Arrival := (parseFragment (p.drop (tagLen v))).getD noArrival

theorem reassembleStep_eq_acceptStep (v : Version) (ctx : FragCtx) (p : Bytes) :
    reassembleStep v ctx p = acceptStep ctx (pieceArrival v p) := by
  unfold reassembleStep pieceArrival
  cases parseFragment (p.drop (tagLen v)) with
  | none => simp [acceptStep_noArrival]
  | some a => obtain ⟨d, ix, l⟩ := a; rfl

theorem foldl_reassembleStep_eq (v : Version) (ps : List Bytes) (ctx : FragCtx) :
    ps.foldl (reassembleStep v) ctx = (ps.map (pieceArrival v)).foldl acceptStep ctx := by
  rw [List.foldl_map]
  congr 1
  funext c p
  exact reassembleStep_eq_acceptStep v c p

/-- a byte string with the header `fragmentPrefix` writes and a parsable rest -/
def IsPiece (v : Version) (its itr : Nat) (p : Bytes) : Prop :=
  ∃ (rest : Bytes) (a : Arrival), p = fragTag v its itr ++ rest ∧ parseFragment rest = some a ∧ ¬ a.invalid

/-- for a receiver the pieces are addressed to, the arrivals are those of `Proofs.Frag`'s `reassembleStep` -/
theorem fragArrivals_pieces (v : Version) (its itr : Nat) (h1 : its < 4294967296) (h2 : itr < 4294967296) :
    ∀ (ps : List Bytes) (c : Conv), RecvOK v its itr c → (∀ p ∈ ps, IsPiece v its itr p) →
      fragArrivals c ps = ps.map (pieceArrival v) := by
  intro ps
  induction ps with
  | nil => intro c _ _; rfl
  | cons p ps ih =>
    intro c hok hps
    obtain ⟨rest, a, rfl, hparse, hvalid⟩ := hps p (by simp)
    obtain ⟨_, hpa⟩ := fragParsed_piece v its itr c rest h1 h2 hok
    have hdrop : (fragTag v its itr ++ rest).drop (tagLen v) = rest := by
      rw [← fragTag_length v its itr h1 h2, List.drop_left]
    simp only [fragArrivals, List.map_cons]
    by_cases hseq : a.outOfSeq c.fragCtx
    · have hok' : RecvOK v its itr
          { c with fragCtx := (fragDeliver c (fragTag v its itr ++ rest)).1, injections := [] } := hok
      rw [fragConvAfter_piece_discarded v its itr c rest h1 h2 hok a hparse (Or.inr hseq),
        ih _ hok' (fun q hq => hps q (List.mem_cons_of_mem _ hq))]
      simp only [fragArrival, hpa, pieceArrival, hdrop]
    · rw [fragConvAfter_piece v its itr c rest h1 h2 hok a hparse hvalid hseq,
        ih _ (hok.after _) (fun q hq => hps q (List.mem_cons_of_mem _ hq))]
      simp only [fragArrival, hpa, pieceArrival, hdrop]

/-- the abstract machine with delivery on a list of arrivals none of whose proper prefixes completes a
    message: it delivers at most at the very end -/
theorem deliver_fold_of_accept : ∀ (as : List Arrival) (ctx : FragCtx) (out : List Bytes),
    ctx.finished = false →
    (∀ k, 0 < k → k < as.length → ((as.take k).foldl acceptStep ctx).finished = false) →
    as.foldl deliverStep (ctx, out) =
      if (as.foldl acceptStep ctx).finished then (FragCtx.empty, out ++ [(as.foldl acceptStep ctx).frag])
      else (as.foldl acceptStep ctx, out) := by
  intro as
  induction as with
  | nil => intro ctx out hb _; simp [hb]
  | cons a as ih =>
    intro ctx out hb hpre
    simp only [List.foldl_cons]
    rw [deliverStep_eq]
    cases as with
    | nil => rfl
    | cons b bs =>
      have h1 := hpre 1 (by omega) (by simp)
      simp only [List.take_succ_cons, List.take_zero, List.foldl_cons, List.foldl_nil] at h1
      simp only [h1, Bool.false_eq_true, ↓reduceIte]
      refine ih _ out h1 ?_
      intro k hk hlt
      have := hpre (k + 1) (by omega) (by simp at hlt ⊢; omega)
      simpa using this

/-- every piece `fragment` produces has the header the receiver strips and a parsable rest -/
theorem fragment_isPiece (v : Version) (its itr : Nat) (data : Bytes) (size : Nat)
    (h1 : its < 4294967296) (h2 : itr < 4294967296)
    (hs : hdrLen v + 1 < size) (hl : size < data.length)
    (hn : numFrags data.length (size - hdrLen v - 1) ≤ 65535)
    (hd : (44 : UInt8) ∉ data) :
    ∀ p ∈ fragment v its itr data size, IsPiece v its itr p := by
  intro p hp
  rw [fragment_eq v its itr data size h1 h2 hs hl hn] at hp
  obtain ⟨j, _, hj, rfl⟩ := fragmentPieces_mem _ _ _ _ _ _ _ _ _ hp
  have hc : (44 : UInt8) ∉ chunk data (size - hdrLen v - 1) j := fun h =>
    hd (List.mem_of_mem_drop (List.mem_of_mem_take h))
  refine ⟨fmt05d (j + 1) ++ 44 :: (fmt05d (numFrags data.length (size - hdrLen v - 1)) ++ [44]) ++
      chunk data (size - hdrLen v - 1) j ++ [44],
    (chunk data (size - hdrLen v - 1) j, j + 1, numFrags data.length (size - hdrLen v - 1)), ?_, ?_, ?_⟩
  · rw [fragmentPrefix_eq]; simp only [List.append_assoc]
  · exact parseFragment_body (j + 1) _ _ (by omega) hn hc
  · show ¬ (j + 1 = 0 ∨ numFrags data.length (size - hdrLen v - 1) = 0 ∨
      j + 1 > numFrags data.length (size - hdrLen v - 1))
    omega

/-- **lossless, conversation level**: the pieces `fragment` makes of an encoded message, received in order by
    the conversation they are addressed to (version `v`; v3: instance tags of the header accepted by
    `parseFragmentPrefix`, `RecvOK`), are each classified as a fragment, and the receiver hands on exactly one
    message, the original `data`, after the last piece and nothing before; the context is then forgotten and the
    conversation still is the one the sender addresses -/
theorem c14_conv_lossless (inner : Bytes → M RecvResult) (hin : InnerReports inner)
    (v : Version) (its itr : Nat) (data : Bytes) (size : Nat) (s : MState)
    (h1 : its < 4294967296) (h2 : itr < 4294967296)
    (hs : hdrLen v + 1 < size) (hl : size < data.length)
    (hn : numFrags data.length (size - hdrLen v - 1) ≤ 65535)
    (hd : (44 : UInt8) ∉ data)
    (hok : RecvOK v its itr s.conv) (h0 : s.conv.fragCtx = FragCtx.empty) :
    (∀ p ∈ fragment v its itr data size, guessMessageType p = .fragment) ∧
    (∃ rs s', runM (recvFragmentsWith inner (fragment v its itr data size)) s = .ok (.ok rs, s') ∧
      rs.filterMap (·.plain) = [data] ∧ s'.conv.fragCtx = FragCtx.empty) ∧
    (∀ k, k < (fragment v its itr data size).length →
      ∃ rs s', runM (recvFragmentsWith inner ((fragment v its itr data size).take k)) s = .ok (.ok rs, s') ∧
        rs.filterMap (·.plain) = []) := by
  have hpieces := fragment_isPiece v its itr data size h1 h2 hs hl hn hd
  obtain ⟨hfin, hfrag, hpre⟩ := c14_lossless v its itr data size h1 h2 hs hl hn hd
  rw [foldl_reassembleStep_eq] at hfin hfrag
  have hpre' : ∀ k, 0 < k → k < ((fragment v its itr data size).map (pieceArrival v)).length →
      ((((fragment v its itr data size).map (pieceArrival v)).take k).foldl acceptStep FragCtx.empty).finished
        = false := by
    intro k hk hlt
    rw [List.length_map] at hlt
    have := hpre k hk hlt
    rw [foldl_reassembleStep_eq, List.map_take] at this
    exact this
  refine ⟨?_, ?_, ?_⟩
  · intro p hp
    obtain ⟨rest, _, rfl, _, _⟩ := hpieces p hp
    exact guessMessageType_fragTag v its itr rest
  · obtain ⟨rs, s', hr, -, -, -, hout, hctx⟩ :=
      receive_fragments_refine inner hin (fragment v its itr data size) s
    rw [fragArrivals_pieces v its itr h1 h2 _ _ hok hpieces, h0,
      deliver_fold_of_accept _ _ _ rfl hpre', hfin] at hout hctx
    simp only [↓reduceIte, List.nil_append, hfrag] at hout hctx
    exact ⟨rs, s', hr, hout, hctx⟩
  · intro k hk
    obtain ⟨rs, s', hr, -, -, -, hout, -⟩ :=
      receive_fragments_refine inner hin ((fragment v its itr data size).take k) s
    refine ⟨rs, s', hr, ?_⟩
    rw [fragArrivals_pieces v its itr h1 h2 _ _ hok (fun p hp => hpieces p (List.mem_of_mem_take hp)), h0,
      List.map_take] at hout
    by_cases hk0 : k = 0
    · subst hk0; simpa using hout
    · have hfk := hpre' k (by omega) (by rw [List.length_map]; exact hk)
      rw [deliver_fold_of_accept _ _ _ rfl ?_, hfk] at hout
      · simpa using hout
      · intro j hj hlt
        have hjk : j < k := by
          simp only [List.length_take, List.length_map] at hlt; omega
        have := hpre' j hj (by rw [List.length_map]; omega)
        rw [List.take_take, Nat.min_eq_left (Nat.le_of_lt hjk)]
        exact this

/-! ## 5. an invalid fragment: frame -/

/-- with a version already committed, `parseFragmentPrefix` leaves version and long-term key choice alone -/
theorem prefixPure_committed (c : Conv) (data : Bytes) (hv : c.version ≠ none) :
    (prefixPure c data).2.1.version = c.version ∧ (prefixPure c data).2.1.ourCurrentKey = c.ourCurrentKey := by
  have hcp : ∀ vs, commitPure c vs = (true, c) := by
    intro vs; unfold commitPure
    cases h : c.version with
    | none => exact absurd h hv
    | some v => rfl
  unfold prefixPure
  simp only [hcp, Bool.true_eq_false, ↓reduceIte]
  split
  · exact ⟨rfl, rfl⟩
  · split <;> exact ⟨rfl, rfl⟩
  · split
    · exact ⟨rfl, rfl⟩
    · split
      · simp only [afterMalformed]; split <;> exact ⟨rfl, rfl⟩
      · split <;> exact ⟨rfl, rfl⟩

/-- version and key choice after `parseFragmentPrefix` are those of the version commitment at its head -/
theorem prefixPure_version (c : Conv) (data : Bytes) :
    (prefixPure c data).2.1.version = (commitPure c (versionBit (versionFromFragment data))).2.version ∧
    (prefixPure c data).2.1.ourCurrentKey =
      (commitPure c (versionBit (versionFromFragment data))).2.ourCurrentKey := by
  unfold prefixPure
  generalize commitPure c (versionBit (versionFromFragment data)) = cp
  obtain ⟨b, c1⟩ := cp
  cases b with
  | false => exact ⟨rfl, rfl⟩
  | true =>
    simp only [Bool.true_eq_false, ↓reduceIte]
    split
    · exact ⟨rfl, rfl⟩
    · split <;> exact ⟨rfl, rfl⟩
    · split
      · exact ⟨rfl, rfl⟩
      · split
        · simp only [afterMalformed]; split <;> exact ⟨rfl, rfl⟩
        · split <;> exact ⟨rfl, rfl⟩

/-- the only injection `parseFragmentPrefix` queues is the error reply to a malformed instance tag -/
theorem prefixPure_injections (c : Conv) (data : Bytes) :
    ((prefixPure c data).2.1.injections = c.injections ∧
      ((prefixPure c data).2.2 = [] ∨ (prefixPure c data).2.2 = ["msg:15"])) ∨
    ((prefixPure c data).2.1.injections = c.injections ++ (if c.errHandler then [malformedReply] else []) ∧
      (prefixPure c data).2.2 = ["msg:9"]) := by
  have hc := commitPure_frame c (versionBit (versionFromFragment data))
  unfold prefixPure
  generalize commitPure c (versionBit (versionFromFragment data)) = cp at hc
  obtain ⟨b, c1⟩ := cp
  simp only at hc
  have hi : c1.injections = c.injections := by rw [hc]
  have he : c1.errHandler = c.errHandler := by rw [hc]
  cases b with
  | false => exact Or.inl ⟨hi, Or.inl rfl⟩
  | true =>
    simp only [Bool.true_eq_false, ↓reduceIte]
    split
    · exact Or.inl ⟨hi, Or.inl rfl⟩
    · split <;> exact Or.inl ⟨hi, Or.inl rfl⟩
    · split
      · exact Or.inl ⟨hi, Or.inl rfl⟩
      · split
        · right
          refine ⟨?_, rfl⟩
          simp only [afterMalformed, he]
          split <;> simp [hi]
        · split
          · exact Or.inl ⟨hi, Or.inr rfl⟩
          · exact Or.inl ⟨hi, Or.inl rfl⟩

/-- "msg:15" is only raised by `parseFragmentPrefix` when it tells the caller to ignore the fragment -/
theorem prefixPure_otherInstance (c : Conv) (data : Bytes) (h : (prefixPure c data).2.2 = ["msg:15"]) :
    fragIgnored c data = true := by
  unfold fragIgnored
  revert h
  unfold prefixPure
  generalize commitPure c (versionBit (versionFromFragment data)) = cp
  obtain ⟨b, c1⟩ := cp
  cases b with
  | false => intro h; simp at h
  | true =>
    simp only [Bool.true_eq_false, ↓reduceIte]
    split
    · intro h; simp at h
    · split <;> (intro h; simp at h)
    · split
      · intro h; simp at h
      · split
        · intro h; simp at h
        · split
          · intro _; rfl
          · intro h; simp at h

/-- the version commitment changes the long-term key choice only from "no version" and then to the first key -/
theorem commitPure_key (c : Conv) (vs : Nat) :
    (commitPure c vs).2.ourCurrentKey = c.ourCurrentKey ∨
    (c.version = none ∧ (commitPure c vs).2.ourCurrentKey = c.ourKeys.head?) := by
  unfold commitPure
  cases hv : c.version with
  | some v => exact Or.inl rfl
  | none =>
    simp only
    cases chooseVersion c.policies vs with
    | none => exact Or.inl rfl
    | some v =>
      simp only
      cases hk : c.ourKeys with
      | nil => exact Or.inl rfl
      | cons k ks => exact Or.inr ⟨by first | rfl | trivial, by simp⟩

/-- **a rejected or discarded fragment, every state** (repaired code: the frame now holds without exception).
    For bytes classified as a fragment that are addressed to this conversation but unparsable (`receiveFragment`
    reports the error) or parsed with an illegal numbering `ix = 0 ∨ l = 0 ∨ ix > l` (silently discarded):
    `receiveUnit` processes nothing, hands out the pending injections (plus the error reply to a malformed
    instance tag, if a handler is installed), and the conversation is unchanged — version, long-term key choice,
    peer tag and context included — except that the injections handed out are no longer pending.  Environment
    and diagnostics are untouched; the only possible event is "malformed message". -/
theorem receiveUnit_invalid_fragment_frame_committed (K : Crypto) (fuel : Nat) (msg : Bytes) (fg : Bool) (s : MState)
    (hp : isOTREnabled s.conv.policies = true) (hg : guessMessageType msg = .fragment)
    (hrej : fragRejected s.conv msg) (hnf : s.conv.fragCtx.finished = false) :
    ∃ evs reply,
      runM (receiveUnit K (fuel + 1) msg fg) s =
        .ok (.ok ⟨none, s.conv.injections ++ reply, fragErr s.conv msg⟩,
          { s with conv := { s.conv with injections := [] }, events := s.events ++ evs }) ∧
      ((evs = [] ∧ reply = []) ∨
        (evs = ["msg:9"] ∧ reply = (if s.conv.errHandler then [malformedReply] else []))) := by
  rw [receiveUnit_fragment_refines K fuel msg fg s hp hg]
  obtain ⟨hig, hinvalid⟩ := hrej
  have hacc : acceptStep s.conv.fragCtx (fragArrival s.conv msg) = s.conv.fragCtx := by
    have h' : (fragArrival s.conv msg).2.1 = 0 ∨ (fragArrival s.conv msg).2.2 = 0 ∨
        (fragArrival s.conv msg).2.1 > (fragArrival s.conv msg).2.2 := hinvalid
    unfold acceptStep fragAccept
    rw [if_pos h']
  have hdel : deliverStep (s.conv.fragCtx, []) (fragArrival s.conv msg) = (s.conv.fragCtx, []) := by
    rw [deliverStep_eq, hacc, hnf]; rfl
  rw [hdel]
  simp only
  have hframe := prefixPure_frame s.conv msg
  have hpc : fragPostConv s.conv s.conv.fragCtx msg = unbindConv s.conv (prefixPure s.conv msg).2.1 := by
    have hd : fragDiscarded s.conv s.conv.fragCtx msg := Or.inl ⟨hig, hinvalid⟩
    unfold fragPostConv; rw [if_pos (Or.inr hd)]
  have hversion : (if s.conv.version.isNone then none else (prefixPure s.conv msg).2.1.version) = s.conv.version := by
    cases hv : s.conv.version with
    | none => rfl
    | some v =>
      have := (prefixPure_committed s.conv msg (by rw [hv]; exact fun e => by cases e)).1
      rw [this, hv]; rfl
  have hkey : (if s.conv.version.isNone then s.conv.ourCurrentKey
      else (prefixPure s.conv msg).2.1.ourCurrentKey) = s.conv.ourCurrentKey := by
    cases hv : s.conv.version with
    | none => rfl
    | some v =>
      have := (prefixPure_committed s.conv msg (by rw [hv]; exact fun e => by cases e)).2
      rw [this]; rfl
  have hconv : (clearInj (fragSettled s msg)).conv = { s.conv with injections := [] } := by
    simp only [clearInj, fragSettled, fragSettledConv, hpc]
    unfold fragDeliver
    rw [hdel]
    unfold unbindConv
    rw [hversion, hkey, hframe]
  have hinj : (fragSettled s msg).conv.injections = (prefixPure s.conv msg).2.1.injections := by
    simp only [fragSettled, fragSettledConv, hpc, unbindConv]
  have hnotign : fragStepOf s.conv s.conv.fragCtx msg ≠ .ignore := by
    unfold fragStepOf
    rw [hig]
    simp only [Bool.false_eq_true, ↓reduceIte]
    split <;> exact fun e => by cases e
  have hst : clearInj (fragSettled s msg) =
      { s with conv := (clearInj (fragSettled s msg)).conv, events := s.events ++ (prefixPure s.conv msg).2.2 } := by
    simp only [clearInj, fragSettled, hnotign]
    simp
  rw [hst, hconv, hinj]
  rcases prefixPure_injections s.conv msg with ⟨h1, h2 | h2⟩ | ⟨h1, h2⟩
  · refine ⟨[], [], ?_, Or.inl ⟨rfl, rfl⟩⟩
    rw [h1, h2]
    simp
  · rw [prefixPure_otherInstance s.conv msg h2] at hig; cases hig
  · refine ⟨["msg:9"], _, ?_, Or.inr ⟨rfl, rfl⟩⟩
    rw [h1, h2]

/-- an unparsable fragment is reported with the error, an illegally numbered one silently -/
theorem fragErr_eq (c : Conv) (msg : Bytes) :
    fragErr c msg = if fragIgnored c msg = false ∧ fragParsed c msg = none then some invalidFragmentErr else none := by
  unfold fragErr fragStepOf
  cases hig : fragIgnored c msg with
  | true => simp
  | false =>
    cases hpa : fragParsed c msg with
    | none => simp
    | some a => obtain ⟨d, ix, l⟩ := a; simp

/-- **a rejected or discarded fragment changes nothing in the conversation but the event/error log** — for a
    conversation with no injections pending: conversation (version, long-term key choice, peer tag, context, …),
    environment and diagnostics are exactly as before; the error is returned for an unparsable fragment; possibly
    the "malformed message" event is raised and its error reply returned -/
theorem receiveUnit_invalid_fragment_frame (K : Crypto) (fuel : Nat) (msg : Bytes) (fg : Bool) (s : MState)
    (hp : isOTREnabled s.conv.policies = true) (hg : guessMessageType msg = .fragment)
    (hrej : fragRejected s.conv msg) (hnf : s.conv.fragCtx.finished = false) (hi : s.conv.injections = []) :
    ∃ evs reply,
      runM (receiveUnit K (fuel + 1) msg fg) s =
        .ok (.ok ⟨none, reply, fragErr s.conv msg⟩, { s with events := s.events ++ evs }) ∧
      ((evs = [] ∧ reply = []) ∨
        (evs = ["msg:9"] ∧ reply = (if s.conv.errHandler then [malformedReply] else []))) := by
  obtain ⟨evs, reply, hr, hc⟩ := receiveUnit_invalid_fragment_frame_committed K fuel msg fg s hp hg hrej hnf
  refine ⟨evs, reply, ?_, hc⟩
  rw [hr, hi]
  simp only [List.nil_append]
  have : ({ s.conv with injections := [] } : Conv) = s.conv := by
    rw [← hi]
  rw [this]

/-- the version is never committed, the long-term key never selected, and the peer tag never bound, by a rejected
    or discarded fragment (every state) -/
theorem receiveUnit_invalid_fragment_unbound (K : Crypto) (fuel : Nat) (msg : Bytes) (fg : Bool) (s : MState)
    (hp : isOTREnabled s.conv.policies = true) (hg : guessMessageType msg = .fragment)
    (hrej : fragRejected s.conv msg) (hnf : s.conv.fragCtx.finished = false) :
    ∃ r s', runM (receiveUnit K (fuel + 1) msg fg) s = .ok (.ok r, s') ∧ r.plain = none ∧
      s'.conv.version = s.conv.version ∧ s'.conv.ourCurrentKey = s.conv.ourCurrentKey ∧
      s'.conv.theirTag = s.conv.theirTag ∧ s'.conv.fragCtx = s.conv.fragCtx ∧ s'.env = s.env := by
  obtain ⟨evs, reply, hr, -⟩ := receiveUnit_invalid_fragment_frame_committed K fuel msg fg s hp hg hrej hnf
  exact ⟨_, _, hr, rfl, rfl, rfl, rfl, rfl, rfl⟩

/-- **a discarded fragment of any kind, every state** (repaired code): for bytes classified as a fragment that
    are addressed to this conversation but of which nothing is kept — unparsable, illegally numbered, or (legal
    numbering) out of sequence for the context, i.e. everything but a first piece or the next piece of the stream
    being collected — `receiveUnit` processes nothing, hands out the pending injections (plus the error reply to a
    malformed instance tag), and the conversation is unchanged — version, long-term key choice and peer tag
    included — except for the injections handed out and the context, which is the abstract machine's: kept for a
    rejected / illegally numbered fragment, forgotten for an out-of-sequence one -/
theorem receiveUnit_discarded_fragment_frame (K : Crypto) (fuel : Nat) (msg : Bytes) (fg : Bool) (s : MState)
    (hp : isOTREnabled s.conv.policies = true) (hg : guessMessageType msg = .fragment)
    (hd : fragDiscarded s.conv s.conv.fragCtx msg) (hnf : s.conv.fragCtx.finished = false) :
    ∃ evs reply,
      runM (receiveUnit K (fuel + 1) msg fg) s =
        .ok (.ok ⟨none, s.conv.injections ++ reply, fragErr s.conv msg⟩,
          { s with conv := { s.conv with injections := [],
                                         fragCtx := acceptStep s.conv.fragCtx (fragArrival s.conv msg) },
                   events := s.events ++ evs }) ∧
      ((evs = [] ∧ reply = []) ∨
        (evs = ["msg:9"] ∧ reply = (if s.conv.errHandler then [malformedReply] else []))) ∧
      (fragRejected s.conv msg → acceptStep s.conv.fragCtx (fragArrival s.conv msg) = s.conv.fragCtx) ∧
      (fragOutOfSeq s.conv s.conv.fragCtx msg →
        acceptStep s.conv.fragCtx (fragArrival s.conv msg) = FragCtx.empty) := by
  rw [receiveUnit_fragment_refines K fuel msg fg s hp hg]
  have hig : fragIgnored s.conv msg = false := by
    rcases hd with h | h
    · exact h.1
    · exact h.1
  have hrejacc : fragRejected s.conv msg → acceptStep s.conv.fragCtx (fragArrival s.conv msg) = s.conv.fragCtx := by
    rintro ⟨_, hinvalid⟩
    have h' : (fragArrival s.conv msg).2.1 = 0 ∨ (fragArrival s.conv msg).2.2 = 0 ∨
        (fragArrival s.conv msg).2.1 > (fragArrival s.conv msg).2.2 := hinvalid
    unfold acceptStep fragAccept
    rw [if_pos h']
  have hoosacc : fragOutOfSeq s.conv s.conv.fragCtx msg →
      acceptStep s.conv.fragCtx (fragArrival s.conv msg) = FragCtx.empty :=
    fun h => acceptStep_outOfSeq _ _ h.2.1 h.2.2
  have hfin : (acceptStep s.conv.fragCtx (fragArrival s.conv msg)).finished = false := by
    rcases hd with h | h
    · rw [hrejacc h]; exact hnf
    · rw [hoosacc h]; rfl
  have hdel : deliverStep (s.conv.fragCtx, []) (fragArrival s.conv msg) =
      (acceptStep s.conv.fragCtx (fragArrival s.conv msg), []) := by
    rw [deliverStep_eq, hfin]; rfl
  rw [hdel]
  simp only
  have hframe := prefixPure_frame s.conv msg
  have hpc : fragPostConv s.conv s.conv.fragCtx msg = unbindConv s.conv (prefixPure s.conv msg).2.1 := by
    unfold fragPostConv; rw [if_pos (Or.inr hd)]
  have hversion : (if s.conv.version.isNone then none else (prefixPure s.conv msg).2.1.version) = s.conv.version := by
    cases hv : s.conv.version with
    | none => rfl
    | some v =>
      have := (prefixPure_committed s.conv msg (by rw [hv]; exact fun e => by cases e)).1
      rw [this, hv]; rfl
  have hkey : (if s.conv.version.isNone then s.conv.ourCurrentKey
      else (prefixPure s.conv msg).2.1.ourCurrentKey) = s.conv.ourCurrentKey := by
    cases hv : s.conv.version with
    | none => rfl
    | some v =>
      have := (prefixPure_committed s.conv msg (by rw [hv]; exact fun e => by cases e)).2
      rw [this]; rfl
  have hconv : (clearInj (fragSettled s msg)).conv =
      { s.conv with injections := [], fragCtx := acceptStep s.conv.fragCtx (fragArrival s.conv msg) } := by
    simp only [clearInj, fragSettled, fragSettledConv, hpc]
    unfold fragDeliver
    rw [hdel]
    unfold unbindConv
    rw [hversion, hkey, hframe]
  have hinj : (fragSettled s msg).conv.injections = (prefixPure s.conv msg).2.1.injections := by
    simp only [fragSettled, fragSettledConv, hpc, unbindConv]
  have hnotign : fragStepOf s.conv s.conv.fragCtx msg ≠ .ignore := by
    unfold fragStepOf
    rw [hig]
    simp only [Bool.false_eq_true, ↓reduceIte]
    split <;> exact fun e => by cases e
  have hst : clearInj (fragSettled s msg) =
      { s with conv := (clearInj (fragSettled s msg)).conv, events := s.events ++ (prefixPure s.conv msg).2.2 } := by
    simp only [clearInj, fragSettled, hnotign]
    simp
  rw [hst, hconv, hinj]
  rcases prefixPure_injections s.conv msg with ⟨h1, h2 | h2⟩ | ⟨h1, h2⟩
  · refine ⟨[], [], ?_, Or.inl ⟨rfl, rfl⟩, hrejacc, hoosacc⟩
    rw [h1, h2]
    simp
  · rw [prefixPure_otherInstance s.conv msg h2] at hig; cases hig
  · refine ⟨["msg:9"], _, ?_, Or.inr ⟨rfl, rfl⟩, hrejacc, hoosacc⟩
    rw [h1, h2]

/-- **an out-of-sequence fragment binds nothing** (repaired code, every state): a fragment addressed to this
    conversation, parsed, legally numbered, that is neither a first piece nor the next piece of the stream being
    collected: `receiveUnit` processes nothing and reports no error; version, long-term key choice and peer tag
    are those before the call; the context is forgotten -/
theorem receiveUnit_out_of_sequence_fragment_unbound (K : Crypto) (fuel : Nat) (msg : Bytes) (fg : Bool) (s : MState)
    (hp : isOTREnabled s.conv.policies = true) (hg : guessMessageType msg = .fragment)
    (ho : fragOutOfSeq s.conv s.conv.fragCtx msg) (hnf : s.conv.fragCtx.finished = false) :
    ∃ r s', runM (receiveUnit K (fuel + 1) msg fg) s = .ok (.ok r, s') ∧ r.plain = none ∧ r.err = none ∧
      s'.conv.version = s.conv.version ∧ s'.conv.ourCurrentKey = s.conv.ourCurrentKey ∧
      s'.conv.theirTag = s.conv.theirTag ∧ s'.conv.fragCtx = FragCtx.empty ∧ s'.env = s.env := by
  obtain ⟨evs, reply, hr, -, -, hacc⟩ :=
    receiveUnit_discarded_fragment_frame K fuel msg fg s hp hg (Or.inr ho) hnf
  have herr : fragErr s.conv msg = none := by
    rw [fragErr_eq]
    have hne : fragParsed s.conv msg ≠ none := by
      intro hn
      have : fragArrival s.conv msg = noArrival := by rw [fragArrival, hn]; rfl
      exact ho.2.1 (this ▸ noArrival_invalid)
    simp [hne]
  exact ⟨_, _, hr, rfl, herr, rfl, rfl, rfl, hacc ho, rfl⟩

/-- a fresh conversation (no version yet) that allows both versions and has a long-term key -/
def cexConv : Conv := { policies := 6, ourKeys := [⟨0, 0, 0, 0⟩] }
def cexState : MState := ⟨cexConv, {}, [], []⟩
/-- "?OTR,x": a v2 fragment prefix followed by an unparsable body -/
def cexMsg : Bytes := strBytes "?OTR,x"
/-- "?OTR,00003,00002,x,": parsable, but piece 3 of 2 -/
def cexMsg2 : Bytes := strBytes "?OTR,00003,00002,x,"

/-- **the frame on a fresh conversation** (the former witness against it — before the last repair the long-term
    key selected by the version commitment stayed selected): the invalid fragment "?OTR,x" and the illegally
    numbered "?OTR,00003,00002,x," received by a conversation that has no version yet are rejected / discarded
    and leave the whole state as it was: no version, no long-term key selected -/
theorem receiveUnit_invalid_fragment_frame_fresh (K : Crypto) :
    isOTREnabled cexState.conv.policies = true ∧ guessMessageType cexMsg = .fragment ∧
    guessMessageType cexMsg2 = .fragment ∧
    fragRejected cexState.conv cexMsg ∧ fragRejected cexState.conv cexMsg2 ∧
    fragStepOf cexState.conv cexState.conv.fragCtx cexMsg = .invalid ∧
    fragStepOf cexState.conv cexState.conv.fragCtx cexMsg2 = .ok FragCtx.empty ∧
    cexState.conv.version = none ∧ cexState.conv.ourCurrentKey = none ∧
    runM (receiveUnit K 1 cexMsg true) cexState = .ok (.ok ⟨none, [], some invalidFragmentErr⟩, cexState) ∧
    runM (receiveUnit K 1 cexMsg2 true) cexState = .ok (.ok ⟨none, [], none⟩, cexState) := by
  have hp : isOTREnabled cexState.conv.policies = true := by decide
  have hg : guessMessageType cexMsg = .fragment := by decide
  have hg2 : guessMessageType cexMsg2 = .fragment := by decide
  have hrej : fragRejected cexState.conv cexMsg := by decide
  have hrej2 : fragRejected cexState.conv cexMsg2 := by decide
  have hinv : fragStepOf cexState.conv cexState.conv.fragCtx cexMsg = .invalid := by decide
  have hinv2 : fragStepOf cexState.conv cexState.conv.fragCtx cexMsg2 = .ok FragCtx.empty := by decide
  have hnf : cexState.conv.fragCtx.finished = false := by decide
  have he : fragErr cexState.conv cexMsg = some invalidFragmentErr := by decide
  have he2 : fragErr cexState.conv cexMsg2 = none := by decide
  refine ⟨hp, hg, hg2, hrej, hrej2, hinv, hinv2, rfl, rfl, ?_, ?_⟩
  · rw [receiveUnit_fragment_refines K 0 cexMsg true cexState hp hg]
    have hd : (deliverStep (cexState.conv.fragCtx, []) (fragArrival cexState.conv cexMsg)).2 = [] := by decide
    rw [hd]
    rfl
  · rw [receiveUnit_fragment_refines K 0 cexMsg2 true cexState hp hg2]
    have hd : (deliverStep (cexState.conv.fragCtx, []) (fragArrival cexState.conv cexMsg2)).2 = [] := by decide
    rw [hd]
    rfl

/-! ## 6. a settled conversation: the arrivals do not depend on what was received before -/

/-- version committed and (v3) the peer's instance tag bound: nothing `parseFragmentPrefix` could still change -/
def FragSettled (c : Conv) : Prop := c.version ≠ none ∧ (c.version = some .v3 → c.theirTag ≠ 0)

theorem commitPure_of_version (c : Conv) (vs : Nat) (hv : c.version ≠ none) : commitPure c vs = (true, c) := by
  unfold commitPure
  cases h : c.version with
  | none => exact absurd h hv
  | some v => rfl

/-- the triple `parseFragmentPrefix` returns does not depend on context and pending injections -/
theorem prefixPure_congr (c : Conv) (x : FragCtx) (y : List Bytes) (data : Bytes) (hv : c.version ≠ none) :
    (prefixPure { c with fragCtx := x, injections := y } data).1 = (prefixPure c data).1 := by
  have hv' : ({ c with fragCtx := x, injections := y } : Conv).version ≠ none := hv
  unfold prefixPure
  simp only [commitPure_of_version _ _ hv, commitPure_of_version _ _ hv', Bool.true_eq_false, ↓reduceIte]
  cases hcv : c.version with
  | none => exact absurd hcv hv
  | some v =>
    cases v with
    | v2 => simp only; split <;> rfl
    | v3 =>
      simp only
      cases v3PrefixParse data with
      | none => rfl
      | some t =>
        obtain ⟨sender, receiver, n⟩ := t
        simp only
        by_cases hwf : tagsWellFormed sender receiver
        · simp only [hwf, not_true_eq_false, ↓reduceIte, tagsForeign]
          by_cases hfo : (receiver ≠ 0 ∧ c.ourTag ≠ receiver ∨ c.theirTag ≠ 0 ∧ c.theirTag ≠ sender)
          · simp [hfo]
          · simp [hfo]
        · simp [hwf]

theorem fragArrival_congr (c : Conv) (x : FragCtx) (y : List Bytes) (msg : Bytes) (hv : c.version ≠ none) :
    fragArrival { c with fragCtx := x, injections := y } msg = fragArrival c msg := by
  unfold fragArrival fragParsed fragIgnored
  rw [prefixPure_congr c x y msg hv]

/-- in a settled conversation `parseFragmentPrefix` leaves the peer tag alone -/
theorem prefixPure_theirTag (c : Conv) (data : Bytes) (h : FragSettled c) :
    (prefixPure c data).2.1.theirTag = c.theirTag := by
  obtain ⟨hv, ht⟩ := h
  unfold prefixPure
  simp only [commitPure_of_version _ _ hv, Bool.true_eq_false, ↓reduceIte]
  split
  · rfl
  · split <;> rfl
  · rename_i hv3
    cases v3PrefixParse data with
    | none => rfl
    | some t =>
      obtain ⟨sender, receiver, n⟩ := t
      simp only
      split
      · simp only [afterMalformed]; split <;> rfl
      · split
        · rfl
        · rename_i hnf
          show sender = c.theirTag
          unfold tagsForeign at hnf
          have h0 := ht hv3
          apply Decidable.byContradiction
          intro hne
          exact hnf (Or.inr ⟨h0, fun e => hne e.symm⟩)

theorem fragConvAfter_settled (c : Conv) (msg : Bytes) (h : FragSettled c) :
    fragConvAfter c msg = { c with fragCtx := (fragDeliver c msg).1, injections := [] } := by
  have hf := prefixPure_frame c msg
  obtain ⟨h1, h2⟩ := prefixPure_committed c msg h.1
  have h3 := prefixPure_theirTag c msg h
  have hvn : c.version.isNone = false := by
    cases hv : c.version with
    | none => exact absurd hv h.1
    | some v => rfl
  unfold fragConvAfter fragSettledConv fragPostConv
  split
  · unfold unbindConv
    rw [hvn, hf, h1, h2]
    rfl
  · rw [hf, h1, h2, h3]

/-- **"the other state stays put"**: in a settled conversation each byte string is classified independently of
    the fragments received before it -/
theorem fragArrivals_settled : ∀ (msgs : List Bytes) (c : Conv), FragSettled c →
    fragArrivals c msgs = msgs.map (fragArrival c) := by
  intro msgs
  induction msgs with
  | nil => intro c _; rfl
  | cons m ms ih =>
    intro c h
    have hs : FragSettled { c with fragCtx := (fragDeliver c m).1, injections := [] } := h
    simp only [fragArrivals, List.map_cons, fragConvAfter_settled c m h, ih _ hs]
    congr 1
    apply List.map_congr_left
    intro a _
    exact fragArrival_congr c _ _ a h.1

/-- `receive_fragments_refine` for a settled conversation: the abstract machine runs on `msgs.map (fragArrival c)` -/
theorem receive_fragments_refine_settled (inner : Bytes → M RecvResult) (hin : InnerReports inner)
    (msgs : List Bytes) (s : MState) (h : FragSettled s.conv) :
    ∃ rs s', runM (recvFragmentsWith inner msgs) s = .ok (.ok rs, s') ∧
      rs.filterMap (·.plain) =
        (List.foldl deliverStep (s.conv.fragCtx, []) (msgs.map (fragArrival s.conv))).2 ∧
      s'.conv.fragCtx = (List.foldl deliverStep (s.conv.fragCtx, []) (msgs.map (fragArrival s.conv))).1 := by
  obtain ⟨rs, s', hr, -, -, -, hout, hctx⟩ := receive_fragments_refine inner hin msgs s
  rw [fragArrivals_settled msgs s.conv h] at hout hctx
  exact ⟨rs, s', hr, hout, hctx⟩

/-! ## the hypotheses are satisfiable: concrete instances -/

/-- a v3 receiver with instance tag 0x202 that has not heard from the peer yet -/
def exRecvV3 : MState := ⟨{ version := some .v3, policies := 6, ourTag := 514 }, {}, [], []⟩
/-- a v2 receiver -/
def exRecvV2 : MState := ⟨{ version := some .v2, policies := 6 }, {}, [], []⟩

-- `receiveUnit_fragment_refines` / `receiveUnit_fragment_only_complete`: OTR enabled, bytes classified as a fragment
example : isOTREnabled exRecvV3.conv.policies = true ∧
    guessMessageType (strBytes "?OTR|00000101|00000202,00001,00002,ab,") = .fragment ∧
    CtxInv [] exRecvV3.conv.fragCtx := ⟨by decide, by decide, Or.inl rfl⟩
-- the three verdicts: accepted, unparsable, foreign instance
example : fragStepOf exRecvV3.conv FragCtx.empty (strBytes "?OTR|00000101|00000202,00001,00002,ab,") =
    .ok ⟨strBytes "ab", 1, 2⟩ := by decide
example : fragArrival exRecvV3.conv (strBytes "?OTR|00000101|00000202,00001,00002,ab,") = (strBytes "ab", 1, 2) := by
  decide
example : fragStepOf exRecvV3.conv FragCtx.empty (strBytes "?OTR|00000101|00000202,00001,00002,ab,x") = .invalid := by
  decide
example : fragStepOf exRecvV3.conv FragCtx.empty (strBytes "?OTR|00000101|00000303,00001,00002,ab,") = .ignore := by
  decide
-- a malformed sender tag (< 0x100) is an invalid fragment too (event "malformed message")
example : fragStepOf exRecvV3.conv FragCtx.empty (strBytes "?OTR|00000001|00000202,00001,00002,ab,") = .invalid ∧
    (prefixPure exRecvV3.conv (strBytes "?OTR|00000001|00000202,00001,00002,ab,")).2.2 = ["msg:9"] := by decide
-- one abstract step: the second of two pieces completes the message
example : fragDeliver { exRecvV3.conv with fragCtx := ⟨strBytes "ab", 1, 2⟩ }
    (strBytes "?OTR|00000101|00000202,00002,00002,cd,") = (FragCtx.empty, [strBytes "abcd"]) := by decide
-- `receiveUnit_invalid_fragment_frame`: all six hypotheses at once, for an unparsable and for an illegally
-- numbered fragment, with a committed version and (fresh conversation) with the first key selected already
example : isOTREnabled exRecvV2.conv.policies = true ∧ guessMessageType (strBytes "?OTR,x") = .fragment ∧
    fragRejected exRecvV2.conv (strBytes "?OTR,x") ∧
    exRecvV2.conv.fragCtx.finished = false ∧
    exRecvV2.conv.injections = [] := by
  decide
example (K : Crypto) := receiveUnit_invalid_fragment_frame K 0 (strBytes "?OTR,x") true exRecvV2
  (by decide) (by decide) (by decide) (by decide) rfl
example (K : Crypto) := receiveUnit_invalid_fragment_frame K 0 (strBytes "?OTR,00003,00002,x,") true exRecvV2
  (by decide) (by decide) (by decide) (by decide) rfl
example (K : Crypto) := receiveUnit_invalid_fragment_frame K 0 (strBytes "?OTR,00003,00002,x,") true
  ⟨{ policies := 6, ourKeys := [⟨0, 0, 0, 0⟩] }, {}, [], []⟩
  (by decide) (by decide) (by decide) (by decide) rfl
-- discarded, not rejected: parsed, illegal numbering, no error
example : fragStepOf exRecvV2.conv FragCtx.empty (strBytes "?OTR,00003,00002,x,") = .ok FragCtx.empty ∧
    fragRejected exRecvV2.conv (strBytes "?OTR,00003,00002,x,") ∧
    fragErr exRecvV2.conv (strBytes "?OTR,00003,00002,x,") = none := by decide
-- `receiveUnit_discarded_fragment_frame` / `receiveUnit_out_of_sequence_fragment_unbound`: piece 3 of 3 while the
-- context holds piece 1 of 3 — parsed, legally numbered, out of sequence: no error, the context is forgotten;
-- on a fresh conversation the version the prefix committed to is taken back
example : fragOutOfSeq { exRecvV2.conv with fragCtx := ⟨strBytes "a", 1, 3⟩ } ⟨strBytes "a", 1, 3⟩
      (strBytes "?OTR,00003,00003,x,") ∧
    ¬ fragRejected { exRecvV2.conv with fragCtx := ⟨strBytes "a", 1, 3⟩ } (strBytes "?OTR,00003,00003,x,") ∧
    fragStepOf { exRecvV2.conv with fragCtx := ⟨strBytes "a", 1, 3⟩ } ⟨strBytes "a", 1, 3⟩
      (strBytes "?OTR,00003,00003,x,") = .ok FragCtx.empty := by decide
example (K : Crypto) := receiveUnit_out_of_sequence_fragment_unbound K 0 (strBytes "?OTR,00003,00003,x,") true
  ⟨{ exRecvV2.conv with fragCtx := ⟨strBytes "a", 1, 3⟩ }, {}, [], []⟩ (by decide) (by decide) (by decide) (by decide)
example : (fragPostConv { policies := 6, ourKeys := [⟨0, 0, 0, 0⟩], fragCtx := ⟨strBytes "a", 1, 3⟩ }
      ⟨strBytes "a", 1, 3⟩ (strBytes "?OTR,00003,00003,x,")).version = none ∧
    (prefixPure { policies := 6, ourKeys := [⟨0, 0, 0, 0⟩], fragCtx := ⟨strBytes "a", 1, 3⟩ }
      (strBytes "?OTR,00003,00003,x,")).2.1.version = some .v2 ∧
    -- … whereas the next piece (2 of 3) binds
    (fragPostConv { policies := 6, ourKeys := [⟨0, 0, 0, 0⟩], fragCtx := ⟨strBytes "a", 1, 3⟩ }
      ⟨strBytes "a", 1, 3⟩ (strBytes "?OTR,00002,00003,x,")).version = some .v2 := by decide
-- `RecvOK`, `FragSettled`
example : RecvOK .v3 257 514 exRecvV3.conv := ⟨rfl, fun _ => ⟨by decide, by decide⟩⟩
example : RecvOK .v2 0 0 exRecvV2.conv := ⟨rfl, fun h => by cases h⟩
example : FragSettled exRecvV2.conv := ⟨by decide, fun h => by cases h⟩
example : FragSettled { exRecvV3.conv with theirTag := 257 } := ⟨by decide, fun _ => by decide⟩
-- `c14_conv_lossless` instantiated for both versions (data of `Proofs.Frag`)
example := c14_conv_lossless reportInner reportInner_reports .v3 257 514 exData60 50 exRecvV3
  (by decide) (by decide) (by decide) (by decide) (by decide) (by decide)
  ⟨rfl, fun _ => ⟨by decide, by decide⟩⟩ rfl
example := c14_conv_lossless reportInner reportInner_reports .v2 0 0 exData 25 exRecvV2
  (by decide) (by decide) (by decide) (by decide) (by decide) (by decide) ⟨rfl, fun h => by cases h⟩ rfl
-- … and executed: the model's fragment branch on the five v3 pieces
example : (match runM (recvFragmentsWith reportInner (fragment .v3 257 514 exData60 50)) exRecvV3 with
    | .ok (.ok rs, s') => (rs.filterMap (·.plain), s'.conv.fragCtx, s'.conv.theirTag)
    | _ => ([], FragCtx.empty, 0)) = ([exData60], FragCtx.empty, 257) := by decide
-- observations on the model (= Go code), by evaluation:
-- (a) a conversation without a long-term key ignores the fragment ("other instance" event); `commitToVersionFrom`
--     sets the version before `setKeyMatchingVersion` fails, and (repaired code) the version is taken back
example : fragStepOf { policies := 6 } FragCtx.empty (strBytes "?OTR,00001,00001,x,") = .ignore ∧
    (prefixPure { policies := 6 } (strBytes "?OTR,00001,00001,x,")).2.1.version = some .v2 ∧
    (fragPostConv { policies := 6 } FragCtx.empty (strBytes "?OTR,00001,00001,x,")).version = none := by decide
-- (b) a v2 conversation strips five bytes whatever they are: "?OTR|" followed by a v2 body is accepted
example : fragStepOf exRecvV2.conv FragCtx.empty (strBytes "?OTR|00001,00001,x,") = .ok ⟨strBytes "x", 1, 1⟩ := by
  decide
-- the arrivals of the five v3 pieces, computed
example : fragArrivals exRecvV3.conv (fragment .v3 257 514 exData60 50) =
    numbered 5 [exData60.take 14, (exData60.drop 14).take 14, (exData60.drop 28).take 14,
      (exData60.drop 42).take 14, exData60.drop 56] 1 := by decide

end Otr
