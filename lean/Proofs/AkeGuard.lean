/-
  Proofs.AkeGuard — property C01 "the key exchange authenticates the peer": the decision logic of the AKE of
  the conversation model `Otr.Conv`, for every `K : Crypto`, every state and every byte string.

  §2  processEncryptedSig: encSigParse / encSigVerify / EncSigOK, processEncryptedSig_run (exact, incl. panics),
        c01_guard_encsig (normal return ⇒ all checks + exact final state), processEncryptedSig_accepts (⇐),
        c01_guard_encsig_throw (any throw ⇒ state unchanged), c01_guard_encsig_rejects (checks fail ⇒ throw).
  §3  calcAKEKeys_run / _nil, processRevealSig_run (exact), c01_guard_responder, processRevealSig_accepts,
        c01_guard_responder_throw.
  §4  processSig_run, c01_guard_initiator, processSig_accepts, c01_guard_initiator_throw,
        processDHKey_run, c01_guard_dhkey, processDHKey_throw.
  §1  frames BaseFrame ⊂ StrictFrame ⊂ QuietFrame and *_base / *_strict / *_quiet lemmas for every function on the
        AKE paths; processAKE_run_some / _none (decomposition into akeRest / akeDispatch / akeTail; repaired
        code: the conditional time stamp at the end is akeStamp / akeStampCond, with akeStamp_run and stampAke);
        processAKE_quiet, processAKE_strict, processAKE_strict_nonfinishing (repaired code: no
        retransmission after an ignored message; retransmitOrReveal_quiet,
        retransmitAfterCompletedExchange_quiet), processAKE_strict_idle, c01_paths, c01_paths_keys_any,
        c01_paths_keys.
  §5  c01_finish_responder, c01_finish_initiator, c01_dhkey_step, recvSig_awaiting_cases,
        recvRevealSig_awaiting_cases, c01_processAKE_sig, c01_processAKE_revealSig.
  §6  the role flag `sentRevealSig` (repaired code): c01_role_kept_while_encrypted, c01_role_kept_processAKE,
        c01_role_pending_processAKE, c01_role_on_finish.
-/
import Proofs.ConvLife
set_option linter.unusedSimpArgs false
set_option linter.unusedVariables false
namespace Otr

/-! ## 2. processEncryptedSig -/

/-- the AES-CTR zero IV used by the AKE -/
abbrev zeroIV : Bytes := List.replicate 16 0

/-- first half of `processEncryptedSig` (before the AKE context is consulted): MAC check, decryption,
    parsing of the public key, the key id and the signature bytes -/
def encSigParse (K : Crypto) (encSig theirMAC : Bytes) (keys : AkeKeys) : Except Err (DsaPub × Nat × Bytes) :=
  if (K.mac2 keys.m2 (appendData [] encSig)).take 20 ≠ theirMAC then
    .error (.other "bad signature MAC in encrypted signature")
  else match K.ctr keys.c zeroIV encSig with
    | none => .error (.other "aes")
    | some dec =>
      match parsePublicKey dec with
      | none => .error .corruptEncSig
      | some (pk, rest) =>
        match extractWord rest with
        | none => .error .corruptEncSig
        | some (keyID, sig) => .ok (pk, keyID, sig)

/-- second half: length and DSA verification of the signature over the MAC'd transcript -/
def encSigVerify (K : Crypto) (keys : AkeKeys) (theirs ours : Nat) (pk : DsaPub) (keyID : Nat) (sig : Bytes) :
    Option Err :=
  if sig.length < 40 then some (.other "bad signature in encrypted signature")
  else if K.dsaVerify pk (K.mac2 keys.m1 (appendAll theirs ours pk keyID))
      (bytesToNat (sig.take 20)) (bytesToNat ((sig.drop 20).take 20)) = false then
    some (.other "bad signature in encrypted signature")
  else if sig.length > 40 then some .corruptEncSig
  else none

/-- the state after a successful `processEncryptedSig` -/
def encSigDone (s : MState) (a : Ake) (pk : DsaPub) (keyID : Nat) : MState :=
  { s with conv := { s.conv with theirKey := some pk,
                                 ake := some { a with keys := { a.keys with theirKeyID := keyID } } } }

theorem processEncryptedSig_run (K : Crypto) (encSig theirMAC : Bytes) (keys : AkeKeys) (s : MState) (a : Ake)
    (ha : s.conv.ake = some a) :
    runM (processEncryptedSig K encSig theirMAC keys) s =
      match encSigParse K encSig theirMAC keys with
      | .error e => .ok (.error e, s)
      | .ok (pk, keyID, sig) =>
        match a.theirPublicValue with
        | none => .panic "expectedMessageHMAC: nil theirPublicValue"
        | some theirs =>
          match a.ourPublicValue with
          | none => .panic "expectedMessageHMAC: nil ourPublicValue"
          | some ours =>
            match encSigVerify K keys theirs ours pk keyID sig with
            | some e => .ok (.error e, s)
            | none => .ok (.ok (), encSigDone s a pk keyID) := by
  unfold processEncryptedSig encSigParse
  by_cases hmac : (K.mac2 keys.m2 (appendData [] encSig)).take 20 = theirMAC
  · simp only [truncateLength, hmac, ne_eq, not_true_eq_false, ↓reduceIte, runM_bind, runM_pure, bindM_ok]
    cases hctr : K.ctr keys.c (List.replicate 16 0) encSig with
    | none => simp only [runM_bind, runM_throw, bindM_error]
    | some dec =>
      simp only [runM_bind, runM_pure, bindM_ok]
      cases hpk : parsePublicKey dec with
      | none => simp only [runM_bind, runM_throw, bindM_error]
      | some pr =>
        obtain ⟨pk, rest⟩ := pr
        simp only [runM_bind, runM_pure, bindM_ok]
        cases hw : extractWord rest with
        | none => simp only [runM_bind, runM_throw, bindM_error]
        | some wr =>
          obtain ⟨keyID, sig⟩ := wr
          simp only [runM_pure, bindM_ok, getAke, runM_bind, runM_getc, ha]
          cases ht : a.theirPublicValue with
          | none => simp only [optNat, runM_bind, runM_goPanic, bindM_panic]
          | some theirs =>
            simp only [optNat, runM_bind, runM_pure, bindM_ok]
            cases ho : a.ourPublicValue with
            | none => simp only [runM_bind, runM_goPanic, bindM_panic]
            | some ours =>
              simp only [runM_bind, runM_pure, bindM_ok]
              unfold encSigVerify
              by_cases h1 : sig.length < 40
              · simp only [h1, ↓reduceIte, runM_bind, runM_throw, bindM_error]
              · simp only [h1, ↓reduceIte]
                cases hv : K.dsaVerify pk (K.mac2 keys.m1 (appendAll theirs ours pk keyID))
                    (bytesToNat (sig.take 20)) (bytesToNat ((sig.drop 20).take 20)) with
                | false => simp only [Bool.not_false, ↓reduceIte, runM_bind, runM_throw, bindM_error]
                | true =>
                  simp only [Bool.not_true, Bool.false_eq_true, ↓reduceIte]
                  by_cases h2 : sig.length > 40
                  · simp [h2]
                  · simp [h2, modAke, ha, encSigDone]
  · simp only [truncateLength, hmac, ne_eq, not_false_eq_true, ↓reduceIte, runM_bind, runM_throw, bindM_error]

/-- without an AKE context the call throws on a parse failure and otherwise panics (nil `c.ake`) -/
theorem processEncryptedSig_none (K : Crypto) (encSig theirMAC : Bytes) (keys : AkeKeys) (s : MState)
    (ha : s.conv.ake = none) :
    runM (processEncryptedSig K encSig theirMAC keys) s =
      match encSigParse K encSig theirMAC keys with
      | .error e => .ok (.error e, s)
      | .ok _ => .panic "nil c.ake" := by
  unfold processEncryptedSig encSigParse
  by_cases hmac : (K.mac2 keys.m2 (appendData [] encSig)).take 20 = theirMAC
  · simp only [truncateLength, hmac, ne_eq, not_true_eq_false, ↓reduceIte, runM_bind, runM_pure, bindM_ok]
    cases hctr : K.ctr keys.c (List.replicate 16 0) encSig with
    | none => simp only [runM_bind, runM_throw, bindM_error]
    | some dec =>
      simp only [runM_bind, runM_pure, bindM_ok]
      cases hpk : parsePublicKey dec with
      | none => simp only [runM_bind, runM_throw, bindM_error]
      | some pr =>
        obtain ⟨pk, rest⟩ := pr
        simp only [runM_bind, runM_pure, bindM_ok]
        cases hw : extractWord rest with
        | none => simp only [runM_bind, runM_throw, bindM_error]
        | some wr =>
          obtain ⟨keyID, sig⟩ := wr
          simp only [runM_pure, bindM_ok, getAke, runM_bind, runM_getc, ha, runM_goPanic, bindM_panic]
  · simp only [truncateLength, hmac, ne_eq, not_false_eq_true, ↓reduceIte, runM_bind, runM_throw, bindM_error]

/-- the complete acceptance condition of `processEncryptedSig`: the MAC over the (length-prefixed) encrypted
    signature matches, it decrypts to `pubkey ‖ keyID ‖ sig` with a 40-byte `sig`, and `sig = (r, s)` is a valid
    DSA signature by `pk` over `MAC_m1(theirPub ‖ ourPub ‖ pk ‖ keyID)` -/
def EncSigOK (K : Crypto) (encSig theirMAC : Bytes) (keys : AkeKeys) (theirs ours : Nat) (pk : DsaPub) (keyID : Nat) :
    Prop :=
  (K.mac2 keys.m2 (appendData [] encSig)).take 20 = theirMAC ∧
  ∃ dec rest sig, K.ctr keys.c zeroIV encSig = some dec ∧ parsePublicKey dec = some (pk, rest) ∧
    extractWord rest = some (keyID, sig) ∧ sig.length = 40 ∧
    K.dsaVerify pk (K.mac2 keys.m1 (appendAll theirs ours pk keyID))
      (bytesToNat (sig.take 20)) (bytesToNat ((sig.drop 20).take 20)) = true

theorem encSigParse_ok_iff (K : Crypto) (encSig theirMAC : Bytes) (keys : AkeKeys) (pk : DsaPub) (keyID : Nat)
    (sig : Bytes) :
    encSigParse K encSig theirMAC keys = .ok (pk, keyID, sig) ↔
      (K.mac2 keys.m2 (appendData [] encSig)).take 20 = theirMAC ∧
      ∃ dec rest, K.ctr keys.c zeroIV encSig = some dec ∧ parsePublicKey dec = some (pk, rest) ∧
        extractWord rest = some (keyID, sig) := by
  unfold encSigParse
  by_cases hmac : (K.mac2 keys.m2 (appendData [] encSig)).take 20 = theirMAC
  · simp only [hmac, ne_eq, not_true_eq_false, ↓reduceIte, true_and]
    cases hctr : K.ctr keys.c zeroIV encSig with
    | none => simp
    | some dec =>
      simp only
      cases hpk : parsePublicKey dec with
      | none =>
        simp only
        constructor
        · intro h; cases h
        · rintro ⟨d, r, hd, hp, -⟩
          cases hd
          rw [hpk] at hp
          cases hp
      | some pr =>
        obtain ⟨pk', rest⟩ := pr
        simp only
        cases hw : extractWord rest with
        | none =>
          simp only
          constructor
          · intro h; cases h
          · rintro ⟨d, r, hd, hp, he⟩
            cases hd
            rw [hpk] at hp
            cases hp
            rw [hw] at he
            cases he
        | some wr =>
          obtain ⟨k', sg'⟩ := wr
          simp only
          constructor
          · intro h
            simp only [Except.ok.injEq, Prod.mk.injEq] at h
            obtain ⟨rfl, rfl, rfl⟩ := h
            exact ⟨dec, rest, rfl, hpk, hw⟩
          · rintro ⟨d, r, hd, hp, he⟩
            cases hd
            rw [hpk] at hp
            cases hp
            rw [hw] at he
            cases he
            rfl
  · simp [hmac]

theorem encSigVerify_none_iff (K : Crypto) (keys : AkeKeys) (theirs ours : Nat) (pk : DsaPub) (keyID : Nat)
    (sig : Bytes) :
    encSigVerify K keys theirs ours pk keyID sig = none ↔
      sig.length = 40 ∧ K.dsaVerify pk (K.mac2 keys.m1 (appendAll theirs ours pk keyID))
        (bytesToNat (sig.take 20)) (bytesToNat ((sig.drop 20).take 20)) = true := by
  unfold encSigVerify
  by_cases h1 : sig.length < 40
  · simp only [h1, ↓reduceIte, reduceCtorEq, false_iff, not_and]
    intro h; omega
  · simp only [h1, ↓reduceIte]
    cases hv : K.dsaVerify pk (K.mac2 keys.m1 (appendAll theirs ours pk keyID))
        (bytesToNat (sig.take 20)) (bytesToNat ((sig.drop 20).take 20)) with
    | false => simp
    | true =>
      by_cases h2 : sig.length > 40
      · simp only [h2, ↓reduceIte, Bool.true_eq_false, reduceCtorEq, false_iff, not_and]
        intro h; omega
      · simp only [h2, ↓reduceIte, Bool.true_eq_false, true_iff, and_true]
        omega

/-- C01/2 (soundness): a normal return of `processEncryptedSig` means every check passed, and the only state
    change is `conv.theirKey := pk`, `ake.keys.theirKeyID := keyID` -/
theorem c01_guard_encsig (K : Crypto) (encSig theirMAC : Bytes) (keys : AkeKeys) (s s' : MState) (a : Ake)
    (ha : s.conv.ake = some a)
    (hr : runM (processEncryptedSig K encSig theirMAC keys) s = .ok (.ok (), s')) :
    ∃ pk keyID theirs ours, a.theirPublicValue = some theirs ∧ a.ourPublicValue = some ours ∧
      EncSigOK K encSig theirMAC keys theirs ours pk keyID ∧
      s' = encSigDone s a pk keyID := by
  rw [processEncryptedSig_run K encSig theirMAC keys s a ha] at hr
  cases hp : encSigParse K encSig theirMAC keys with
  | error e => rw [hp] at hr; cases hr
  | ok v =>
    obtain ⟨pk, keyID, sig⟩ := v
    rw [hp] at hr
    simp only at hr
    cases ht : a.theirPublicValue with
    | none => rw [ht] at hr; cases hr
    | some theirs =>
      cases ho : a.ourPublicValue with
      | none => rw [ht, ho] at hr; cases hr
      | some ours =>
        rw [ht, ho] at hr
        simp only at hr
        cases hv : encSigVerify K keys theirs ours pk keyID sig with
        | some e => rw [hv] at hr; cases hr
        | none =>
          rw [hv] at hr
          simp only [Res.ok.injEq, Prod.mk.injEq, true_and] at hr
          obtain ⟨hm, dec, rest, hd, hpk, hw⟩ := (encSigParse_ok_iff ..).1 hp
          obtain ⟨hl, hvf⟩ := (encSigVerify_none_iff ..).1 hv
          exact ⟨pk, keyID, theirs, ours, rfl, rfl, ⟨hm, dec, rest, sig, hd, hpk, hw, hl, hvf⟩, hr.symm⟩

/-- C01/2 (completeness): if every check passes the call returns normally with exactly that state -/
theorem processEncryptedSig_accepts (K : Crypto) (encSig theirMAC : Bytes) (keys : AkeKeys) (s : MState) (a : Ake)
    (ha : s.conv.ake = some a) (theirs ours : Nat) (ht : a.theirPublicValue = some theirs)
    (ho : a.ourPublicValue = some ours) (pk : DsaPub) (keyID : Nat)
    (hok : EncSigOK K encSig theirMAC keys theirs ours pk keyID) :
    runM (processEncryptedSig K encSig theirMAC keys) s = .ok (.ok (), encSigDone s a pk keyID) := by
  obtain ⟨hm, dec, rest, sig, hd, hpk, hw, hl, hvf⟩ := hok
  rw [processEncryptedSig_run K encSig theirMAC keys s a ha,
    (encSigParse_ok_iff K encSig theirMAC keys pk keyID sig).2 ⟨hm, dec, rest, hd, hpk, hw⟩]
  simp only [ht, ho, (encSigVerify_none_iff K keys theirs ours pk keyID sig).2 ⟨hl, hvf⟩]

/-- C01/2 (rejection leaves no trace): whenever `processEncryptedSig` throws, the whole state — in particular
    `conv.theirKey` — is exactly what it was -/
theorem c01_guard_encsig_throw (K : Crypto) (encSig theirMAC : Bytes) (keys : AkeKeys) (s s' : MState) (e : Err)
    (hr : runM (processEncryptedSig K encSig theirMAC keys) s = .ok (.error e, s')) : s' = s := by
  cases ha : s.conv.ake with
  | none =>
    rw [processEncryptedSig_none K encSig theirMAC keys s ha] at hr
    cases hp : encSigParse K encSig theirMAC keys with
    | error e' =>
      rw [hp] at hr
      simp only [Res.ok.injEq, Prod.mk.injEq] at hr
      exact hr.2.symm
    | ok v => rw [hp] at hr; cases hr
  | some a =>
    rw [processEncryptedSig_run K encSig theirMAC keys s a ha] at hr
    cases hp : encSigParse K encSig theirMAC keys with
    | error e' =>
      rw [hp] at hr
      simp only [Res.ok.injEq, Prod.mk.injEq] at hr
      exact hr.2.symm
    | ok v =>
      obtain ⟨pk, keyID, sig⟩ := v
      rw [hp] at hr
      simp only at hr
      cases ht : a.theirPublicValue with
      | none => rw [ht] at hr; cases hr
      | some theirs =>
        cases ho : a.ourPublicValue with
        | none => rw [ht, ho] at hr; cases hr
        | some ours =>
          rw [ht, ho] at hr
          simp only at hr
          cases hv : encSigVerify K keys theirs ours pk keyID sig with
          | some e' =>
            rw [hv] at hr
            simp only [Res.ok.injEq, Prod.mk.injEq] at hr
            exact hr.2.symm
          | none => rw [hv] at hr; cases hr

/-- C01/2 (converse): with both DH values present, if the acceptance condition fails for every `(pk, keyID)`
    the call throws and the state is unchanged -/
theorem c01_guard_encsig_rejects (K : Crypto) (encSig theirMAC : Bytes) (keys : AkeKeys) (s : MState) (a : Ake)
    (ha : s.conv.ake = some a) (theirs ours : Nat) (ht : a.theirPublicValue = some theirs)
    (ho : a.ourPublicValue = some ours)
    (hbad : ¬ ∃ pk keyID, EncSigOK K encSig theirMAC keys theirs ours pk keyID) :
    ∃ e, runM (processEncryptedSig K encSig theirMAC keys) s = .ok (.error e, s) := by
  rw [processEncryptedSig_run K encSig theirMAC keys s a ha]
  cases hp : encSigParse K encSig theirMAC keys with
  | error e => exact ⟨e, rfl⟩
  | ok v =>
    obtain ⟨pk, keyID, sig⟩ := v
    simp only [ht, ho]
    cases hv : encSigVerify K keys theirs ours pk keyID sig with
    | some e => exact ⟨e, rfl⟩
    | none =>
      exfalso
      obtain ⟨hm, dec, rest, hd, hpk, hw⟩ := (encSigParse_ok_iff ..).1 hp
      obtain ⟨hl, hvf⟩ := (encSigVerify_none_iff ..).1 hv
      exact hbad ⟨pk, keyID, hm, dec, rest, sig, hd, hpk, hw, hl, hvf⟩

/-! ## 3. calcAKEKeys, processRevealSig -/

/-- the DH shared secret computed by `calcDHSharedSecret`: `theirs ^ secretExponent mod p`
    (a nil exponent is the empty exponent) -/
def akeSecret (K : Crypto) (a : Ake) (theirs : Nat) : Nat :=
  K.gexp theirs (bytesToNat (a.secretExponent.getD []))

/-- the state after `calcAKEKeys`: the AKE context gets `(ssid, revealKey, sigKey)`; `conv.ssid` is written
    at once unless the conversation is already encrypted (then `ake.ssid` stays pending) -/
def afterCalc (K : Crypto) (s : MState) (a : Ake) (theirs : Nat) : MState :=
  { s with conv := { s.conv with
      ake := some { a with revealKey := (calculateAKEKeys K (akeSecret K a theirs)).2.1
                           sigKey := (calculateAKEKeys K (akeSecret K a theirs)).2.2
                           ssid := (calculateAKEKeys K (akeSecret K a theirs)).1 }
      ssid := if s.conv.msgState = .encrypted then s.conv.ssid
              else (calculateAKEKeys K (akeSecret K a theirs)).1 } }

theorem calcAKEKeys_run (K : Crypto) (s : MState) (a : Ake) (ha : s.conv.ake = some a) (theirs : Nat)
    (ht : a.theirPublicValue = some theirs) :
    runM (calcAKEKeys K) s = .ok (.ok (), afterCalc K s a theirs) := by
  unfold calcAKEKeys afterCalc akeSecret
  cases hx : a.secretExponent <;> cases hm : s.conv.msgState <;>
    simp [getAke, ha, ht, optNat, modAke, hx, hm]

theorem calcAKEKeys_nil (K : Crypto) (s : MState) (a : Ake) (ha : s.conv.ake = some a)
    (ht : a.theirPublicValue = none) :
    runM (calcAKEKeys K) s = .panic "calcDHSharedSecret: nil theirPublicValue" := by
  unfold calcAKEKeys
  simp [getAke, ha, ht, optNat]

/-- the state with `ake.theirPublicValue` overwritten (extractGx assigns before validating) -/
def setTheirPub (s : MState) (a : Ake) (v : Option Nat) : MState :=
  { s with conv := { s.conv with ake := some { a with theirPublicValue := v } } }

/-- the state in which `processRevealSig` calls `processEncryptedSig`: `gx` stored, AKE keys computed from it -/
def revealState (K : Crypto) (s : MState) (a : Ake) (gx : Nat) : MState :=
  afterCalc K (setTheirPub s a (some gx)) { a with theirPublicValue := some gx } gx

/-- the reveal-signature keys `(c, m1, m2)` derived from `gx` and our secret exponent -/
def revealKeysFor (K : Crypto) (a : Ake) (gx : Nat) : AkeKeys := (calculateAKEKeys K (akeSecret K a gx)).2.1
/-- the signature keys `(c', m1', m2')` derived from `gx` and our secret exponent -/
def sigKeysFor (K : Crypto) (a : Ake) (gx : Nat) : AkeKeys := (calculateAKEKeys K (akeSecret K a gx)).2.2
/-- the session id derived from `gx` and our secret exponent -/
def ssidFor (K : Crypto) (a : Ake) (gx : Nat) : Bytes := (calculateAKEKeys K (akeSecret K a gx)).1

theorem ssidFor_eq (K : Crypto) (a : Ake) (gx : Nat) :
    ssidFor K a gx = (K.hash2 (0x00 :: appendMPI [] (K.gexp gx (bytesToNat (a.secretExponent.getD []))))).take 8 := rfl

/-- C01/3 (exact): `processRevealSig` from a state with an AKE context -/
theorem processRevealSig_run (K : Crypto) (msg : Bytes) (s : MState) (a : Ake) (ha : s.conv.ake = some a) :
    runM (processRevealSig K msg) s =
      match RevealSig.deserialize msg with
      | none => .ok (.error (.other "corrupt reveal signature message"), s)
      | some m =>
        match K.ctr m.r zeroIV a.encryptedGx with
        | none => .ok (.error (.other "aes"), s)
        | some gxBytes =>
          if K.hash2 gxBytes ≠ a.xhashedGx then
            .ok (.error (.other "bad commit MAC in reveal signature message"), s)
          else match extractMPI gxBytes with
            | none => .ok (.error (.other "gx corrupt after decryption"), setTheirPub s a none)
            | some (gx, rest) =>
              if rest.length > 0 then .ok (.error (.other "gx corrupt after decryption"), setTheirPub s a (some gx))
              else if isGroupElement gx = false then
                .ok (.error (.other "DH value out of range"), setTheirPub s a (some gx))
              else
                catchM (runM (processEncryptedSig K m.encryptedSig m.macSig (revealKeysFor K a gx))
                    (revealState K s a gx))
                  (fun _ s' => .ok (.error (.other "in reveal signature message"), s')) := by
  unfold processRevealSig
  cases hd : RevealSig.deserialize msg with
  | none => simp only [runM_throw]
  | some m =>
    simp only [getAke, runM_bind, runM_getc, bindM_ok, ha, runM_pure]
    cases hc : K.ctr m.r (List.replicate 16 0) a.encryptedGx with
    | none => simp only [runM_bind, runM_throw, bindM_error]
    | some gxBytes =>
      simp only [runM_bind, runM_pure, bindM_ok]
      by_cases hh : K.hash2 gxBytes = a.xhashedGx
      · simp only [hh, ne_eq, not_true_eq_false, ↓reduceIte, runM_bind, runM_pure, bindM_ok]
        cases hx : extractMPI gxBytes with
        | none =>
          simp only [modAke, runM_bind, runM_modc, bindM_ok, runM_throw, ha, Option.map, setTheirPub]
        | some pr =>
          obtain ⟨gx, rest⟩ := pr
          simp only [modAke, runM_bind, runM_modc, bindM_ok, ha, Option.map]
          by_cases hr : rest.length > 0
          · simp only [hr, ↓reduceIte, runM_bind, runM_throw, bindM_error, setTheirPub]
          · simp only [hr, ↓reduceIte]
            cases hg : isGroupElement gx with
            | false => simp only [Bool.not_false, ↓reduceIte, runM_bind, runM_throw, bindM_error, setTheirPub]
            | true =>
              simp only [Bool.not_true, Bool.false_eq_true, ↓reduceIte, runM_bind, runM_pure, bindM_ok]
              rw [calcAKEKeys_run K _ { a with theirPublicValue := some gx } rfl gx rfl]
              simp only [bindM_ok, runM_getc, runM_tryCatch, runM_throw]
              rfl
      · simp only [hh, ne_eq, not_false_eq_true, ↓reduceIte, runM_bind, runM_throw, bindM_error]

/-- the AKE context in which the encrypted signature of a Reveal-Signature message is checked -/
def revealAke (K : Crypto) (a : Ake) (gx : Nat) : Ake :=
  { a with theirPublicValue := some gx, revealKey := revealKeysFor K a gx, sigKey := sigKeysFor K a gx,
           ssid := ssidFor K a gx }

theorem revealState_ake (K : Crypto) (s : MState) (a : Ake) (gx : Nat) :
    (revealState K s a gx).conv.ake = some (revealAke K a gx) := rfl

/-- the state after an accepted Reveal-Signature message -/
def revealDone (K : Crypto) (s : MState) (a : Ake) (gx : Nat) (pk : DsaPub) (keyID : Nat) : MState :=
  { s with conv := { s.conv with
      theirKey := some pk
      ake := some { revealAke K a gx with keys := { a.keys with theirKeyID := keyID } }
      ssid := if s.conv.msgState = .encrypted then s.conv.ssid else ssidFor K a gx } }

theorem isGroupElement_iff (n : Nat) : isGroupElement n = true ↔ 2 ≤ n ∧ n ≤ dhP - 2 := by
  unfold isGroupElement
  simp only [Bool.and_eq_true, decide_eq_true_eq]

/-- C01/3: a normal return of `processRevealSig` means: the message parses; the AES key `r` it reveals opens the
    commitment (`encryptedGx`) to bytes whose SHA-256 is the `hashedGx` received in the DH-Commit; those bytes are
    exactly one MPI `gx` with `2 ≤ gx ≤ p − 2`; and with the keys derived from `gx ^ secretExponent` the
    encrypted signature passes every check of `processEncryptedSig` for `theirPub = gx`.
    The final state is exact. -/
theorem c01_guard_responder (K : Crypto) (msg : Bytes) (s s' : MState) (a : Ake) (ha : s.conv.ake = some a)
    (hr : runM (processRevealSig K msg) s = .ok (.ok (), s')) :
    ∃ m gxBytes gx pk keyID ours,
      RevealSig.deserialize msg = some m ∧
      K.ctr m.r zeroIV a.encryptedGx = some gxBytes ∧
      K.hash2 gxBytes = a.xhashedGx ∧
      extractMPI gxBytes = some (gx, []) ∧
      isGroupElement gx = true ∧ 2 ≤ gx ∧ gx ≤ dhP - 2 ∧
      a.ourPublicValue = some ours ∧
      EncSigOK K m.encryptedSig m.macSig (revealKeysFor K a gx) gx ours pk keyID ∧
      s' = revealDone K s a gx pk keyID := by
  rw [processRevealSig_run K msg s a ha] at hr
  cases hd : RevealSig.deserialize msg with
  | none => rw [hd] at hr; cases hr
  | some m =>
    rw [hd] at hr
    simp only at hr
    cases hc : K.ctr m.r zeroIV a.encryptedGx with
    | none => rw [hc] at hr; cases hr
    | some gxBytes =>
      rw [hc] at hr
      simp only at hr
      by_cases hh : K.hash2 gxBytes = a.xhashedGx
      · simp only [hh, ne_eq, not_true_eq_false, ↓reduceIte] at hr
        cases hx : extractMPI gxBytes with
        | none => rw [hx] at hr; cases hr
        | some pr =>
          obtain ⟨gx, rest⟩ := pr
          rw [hx] at hr
          simp only at hr
          by_cases hl : rest.length > 0
          · simp only [hl, ↓reduceIte] at hr; cases hr
          · simp only [hl, ↓reduceIte] at hr
            cases hg : isGroupElement gx with
            | false => simp only [hg, ↓reduceIte] at hr; cases hr
            | true =>
              simp only [hg, Bool.true_eq_false, ↓reduceIte] at hr
              have hrest : rest = [] := by
                cases rest with
                | nil => rfl
                | cons x xs => simp at hl
              subst hrest
              cases hp : runM (processEncryptedSig K m.encryptedSig m.macSig (revealKeysFor K a gx))
                  (revealState K s a gx) with
              | panic p => rw [hp] at hr; cases hr
              | ok v =>
                obtain ⟨v, s2⟩ := v
                rw [hp] at hr
                cases v with
                | error e => simp only [catchM_error] at hr; cases hr
                | ok u =>
                  simp only [catchM_ok, Res.ok.injEq, Prod.mk.injEq, true_and] at hr
                  subst hr
                  obtain ⟨pk, keyID, theirs, ours, ht, ho, hok, hs⟩ :=
                    c01_guard_encsig K _ _ _ _ _ (revealAke K a gx) (revealState_ake K s a gx) hp
                  cases ht
                  have hge := (isGroupElement_iff gx).1 hg
                  exact ⟨m, gxBytes, gx, pk, keyID, ours, rfl, hc, hh, hx, hg, hge.1, hge.2, ho, hok, hs⟩
      · simp only [hh, ne_eq, not_false_eq_true, ↓reduceIte] at hr; cases hr

/-- C01/3 (completeness): if all the conditions hold, `processRevealSig` accepts with exactly that state -/
theorem processRevealSig_accepts (K : Crypto) (msg : Bytes) (s : MState) (a : Ake) (ha : s.conv.ake = some a)
    (m : RevealSig) (gxBytes : Bytes) (gx : Nat) (pk : DsaPub) (keyID ours : Nat)
    (hd : RevealSig.deserialize msg = some m) (hc : K.ctr m.r zeroIV a.encryptedGx = some gxBytes)
    (hh : K.hash2 gxBytes = a.xhashedGx) (hx : extractMPI gxBytes = some (gx, []))
    (hg : isGroupElement gx = true) (ho : a.ourPublicValue = some ours)
    (hok : EncSigOK K m.encryptedSig m.macSig (revealKeysFor K a gx) gx ours pk keyID) :
    runM (processRevealSig K msg) s = .ok (.ok (), revealDone K s a gx pk keyID) := by
  rw [processRevealSig_run K msg s a ha, hd]
  simp only [hc, hh, ne_eq, not_true_eq_false, ↓reduceIte, hx, List.length_nil, Nat.lt_irrefl, hg,
    Bool.true_eq_false, gt_iff_lt]
  rw [processEncryptedSig_accepts K _ _ _ _ (revealAke K a gx) (revealState_ake K s a gx) gx ours rfl ho pk keyID hok]
  rfl

/-- C01/3 (rejection): when `processRevealSig` throws, nothing of the conversation changes except the AKE
    context (`theirPublicValue` and the derived keys may already have been written) and — only if the
    conversation is not encrypted — `conv.ssid`.  In particular `theirKey`, `msgState` and `keys` are untouched. -/
theorem c01_guard_responder_throw (K : Crypto) (msg : Bytes) (s s' : MState) (a : Ake) (ha : s.conv.ake = some a)
    (e : Err) (hr : runM (processRevealSig K msg) s = .ok (.error e, s')) :
    s' = { s with conv := { s.conv with ake := s'.conv.ake, ssid := s'.conv.ssid } } ∧
    (s.conv.msgState = .encrypted → s'.conv.ssid = s.conv.ssid) := by
  rw [processRevealSig_run K msg s a ha] at hr
  cases hd : RevealSig.deserialize msg with
  | none =>
    rw [hd] at hr
    simp only [Res.ok.injEq, Prod.mk.injEq] at hr
    obtain ⟨-, rfl⟩ := hr
    exact ⟨rfl, fun _ => rfl⟩
  | some m =>
    rw [hd] at hr
    simp only at hr
    cases hc : K.ctr m.r zeroIV a.encryptedGx with
    | none =>
      rw [hc] at hr
      simp only [Res.ok.injEq, Prod.mk.injEq] at hr
      obtain ⟨-, rfl⟩ := hr
      exact ⟨rfl, fun _ => rfl⟩
    | some gxBytes =>
      rw [hc] at hr
      simp only at hr
      by_cases hh : K.hash2 gxBytes = a.xhashedGx
      · simp only [hh, ne_eq, not_true_eq_false, ↓reduceIte] at hr
        cases hx : extractMPI gxBytes with
        | none =>
          rw [hx] at hr
          simp only [Res.ok.injEq, Prod.mk.injEq] at hr
          obtain ⟨-, rfl⟩ := hr
          exact ⟨rfl, fun _ => rfl⟩
        | some pr =>
          obtain ⟨gx, rest⟩ := pr
          rw [hx] at hr
          simp only at hr
          by_cases hl : rest.length > 0
          · simp only [hl, ↓reduceIte, Res.ok.injEq, Prod.mk.injEq] at hr
            obtain ⟨-, rfl⟩ := hr
            exact ⟨rfl, fun _ => rfl⟩
          · simp only [hl, ↓reduceIte] at hr
            cases hg : isGroupElement gx with
            | false =>
              simp only [hg, ↓reduceIte, Res.ok.injEq, Prod.mk.injEq] at hr
              obtain ⟨-, rfl⟩ := hr
              exact ⟨rfl, fun _ => rfl⟩
            | true =>
              simp only [hg, Bool.true_eq_false, ↓reduceIte] at hr
              cases hp : runM (processEncryptedSig K m.encryptedSig m.macSig (revealKeysFor K a gx))
                  (revealState K s a gx) with
              | panic p => rw [hp] at hr; cases hr
              | ok v =>
                obtain ⟨v, s2⟩ := v
                rw [hp] at hr
                cases v with
                | ok u => simp only [catchM_ok] at hr; cases hr
                | error e' =>
                  simp only [catchM_error, Res.ok.injEq, Prod.mk.injEq] at hr
                  obtain ⟨-, rfl⟩ := hr
                  have := c01_guard_encsig_throw K _ _ _ _ _ _ hp
                  subst this
                  refine ⟨rfl, fun he => ?_⟩
                  show (if s.conv.msgState = .encrypted then _ else _) = _
                  rw [if_pos he]
                  rfl
      · simp only [hh, ne_eq, not_false_eq_true, ↓reduceIte, Res.ok.injEq, Prod.mk.injEq] at hr
        obtain ⟨-, rfl⟩ := hr
        exact ⟨rfl, fun _ => rfl⟩

/-! ## 4. processSig, processDHKey -/

/-- C01/4 (exact): `processSig` from a state with an AKE context -/
theorem processSig_run (K : Crypto) (msg : Bytes) (s : MState) (a : Ake) (ha : s.conv.ake = some a) :
    runM (processSig K msg) s =
      match Sig.deserialize msg with
      | none => .ok (.error (.other "corrupt signature message"), s)
      | some m =>
        catchM (runM (processEncryptedSig K m.encryptedSig m.macSig a.sigKey) s)
          (fun _ s' => .ok (.error (.other "in signature message"), s')) := by
  unfold processSig
  cases hd : Sig.deserialize msg with
  | none => simp only [runM_throw]
  | some m => simp only [getAke, runM_bind, runM_getc, bindM_ok, ha, runM_pure, runM_tryCatch, runM_throw]

/-- C01/4: a normal return of `processSig` means the message parses and its encrypted signature passes every
    check of `processEncryptedSig` under the stored signature keys `(c', m1', m2') = ake.sigKey`, for the DH
    value `ake.theirPublicValue` stored when the DH-Key message was accepted -/
theorem c01_guard_initiator (K : Crypto) (msg : Bytes) (s s' : MState) (a : Ake) (ha : s.conv.ake = some a)
    (hr : runM (processSig K msg) s = .ok (.ok (), s')) :
    ∃ m pk keyID theirs ours,
      Sig.deserialize msg = some m ∧ a.theirPublicValue = some theirs ∧ a.ourPublicValue = some ours ∧
      EncSigOK K m.encryptedSig m.macSig a.sigKey theirs ours pk keyID ∧
      s' = encSigDone s a pk keyID := by
  rw [processSig_run K msg s a ha] at hr
  cases hd : Sig.deserialize msg with
  | none => rw [hd] at hr; cases hr
  | some m =>
    rw [hd] at hr
    simp only at hr
    cases hp : runM (processEncryptedSig K m.encryptedSig m.macSig a.sigKey) s with
    | panic p => rw [hp] at hr; cases hr
    | ok v =>
      obtain ⟨v, s2⟩ := v
      rw [hp] at hr
      cases v with
      | error e => simp only [catchM_error] at hr; cases hr
      | ok u =>
        simp only [catchM_ok, Res.ok.injEq, Prod.mk.injEq, true_and] at hr
        subst hr
        obtain ⟨pk, keyID, theirs, ours, ht, ho, hok, hs⟩ := c01_guard_encsig K _ _ _ _ _ a ha hp
        exact ⟨m, pk, keyID, theirs, ours, rfl, ht, ho, hok, hs⟩

/-- C01/4 (completeness) -/
theorem processSig_accepts (K : Crypto) (msg : Bytes) (s : MState) (a : Ake) (ha : s.conv.ake = some a)
    (m : Sig) (pk : DsaPub) (keyID theirs ours : Nat) (hd : Sig.deserialize msg = some m)
    (ht : a.theirPublicValue = some theirs) (ho : a.ourPublicValue = some ours)
    (hok : EncSigOK K m.encryptedSig m.macSig a.sigKey theirs ours pk keyID) :
    runM (processSig K msg) s = .ok (.ok (), encSigDone s a pk keyID) := by
  rw [processSig_run K msg s a ha, hd]
  simp only
  rw [processEncryptedSig_accepts K _ _ _ _ a ha theirs ours ht ho pk keyID hok]
  rfl

/-- C01/4 (rejection leaves no trace): when `processSig` throws the state is unchanged -/
theorem c01_guard_initiator_throw (K : Crypto) (msg : Bytes) (s s' : MState) (a : Ake) (ha : s.conv.ake = some a)
    (e : Err) (hr : runM (processSig K msg) s = .ok (.error e, s')) : s' = s := by
  rw [processSig_run K msg s a ha] at hr
  cases hd : Sig.deserialize msg with
  | none =>
    rw [hd] at hr
    simp only [Res.ok.injEq, Prod.mk.injEq] at hr
    exact hr.2.symm
  | some m =>
    rw [hd] at hr
    simp only at hr
    cases hp : runM (processEncryptedSig K m.encryptedSig m.macSig a.sigKey) s with
    | panic p => rw [hp] at hr; cases hr
    | ok v =>
      obtain ⟨v, s2⟩ := v
      rw [hp] at hr
      cases v with
      | ok u => simp only [catchM_ok] at hr; cases hr
      | error e' =>
        simp only [catchM_error, Res.ok.injEq, Prod.mk.injEq] at hr
        obtain ⟨-, rfl⟩ := hr
        exact c01_guard_encsig_throw K _ _ _ _ _ _ hp

/-- C01/4 (exact): `processDHKey` from a state with an AKE context -/
theorem processDHKey_run (msg : Bytes) (s : MState) (a : Ake) (ha : s.conv.ake = some a) :
    runM (processDHKey msg) s =
      match DhKey.deserialize msg with
      | none => .ok (.error (.other "corrupt DH key message"), s)
      | some m =>
        if isGroupElement m.gy = false then .ok (.error (.other "DH value out of range"), s)
        else match a.theirPublicValue with
          | some t => .ok (.ok (t == m.gy), s)
          | none => .ok (.ok false, setTheirPub s a (some m.gy)) := by
  unfold processDHKey
  cases hd : DhKey.deserialize msg with
  | none => simp only [runM_throw]
  | some m =>
    cases hg : isGroupElement m.gy with
    | false => simp only [hg, Bool.not_false, ↓reduceIte, runM_bind, runM_throw, bindM_error]
    | true =>
      cases ht : a.theirPublicValue <;>
        simp [hg, getAke, ha, ht, modAke, setTheirPub]

/-- C01/4: a normal return of `processDHKey` means the message parses and its DH value is a group element
    (`2 ≤ gy ≤ p − 2`); it is stored only if none was stored before (otherwise only compared) -/
theorem c01_guard_dhkey (msg : Bytes) (s s' : MState) (a : Ake) (ha : s.conv.ake = some a) (same : Bool)
    (hr : runM (processDHKey msg) s = .ok (.ok same, s')) :
    ∃ m, DhKey.deserialize msg = some m ∧ isGroupElement m.gy = true ∧ 2 ≤ m.gy ∧ m.gy ≤ dhP - 2 ∧
      (a.theirPublicValue = none → same = false ∧ s' = setTheirPub s a (some m.gy)) ∧
      (∀ t, a.theirPublicValue = some t → same = (t == m.gy) ∧ s' = s) := by
  rw [processDHKey_run msg s a ha] at hr
  cases hd : DhKey.deserialize msg with
  | none => rw [hd] at hr; cases hr
  | some m =>
    rw [hd] at hr
    simp only at hr
    cases hg : isGroupElement m.gy with
    | false => simp only [hg, ↓reduceIte] at hr; cases hr
    | true =>
      simp only [hg, Bool.true_eq_false, ↓reduceIte] at hr
      have hge := (isGroupElement_iff m.gy).1 hg
      refine ⟨m, rfl, hg, hge.1, hge.2, ?_, ?_⟩
      · intro ht
        rw [ht] at hr
        simp only [Res.ok.injEq, Prod.mk.injEq, Except.ok.injEq] at hr
        exact ⟨hr.1.symm, hr.2.symm⟩
      · intro t ht
        rw [ht] at hr
        simp only [Res.ok.injEq, Prod.mk.injEq, Except.ok.injEq] at hr
        exact ⟨hr.1.symm, hr.2.symm⟩

/-- when `processDHKey` throws the state is unchanged -/
theorem processDHKey_throw (msg : Bytes) (s s' : MState) (a : Ake) (ha : s.conv.ake = some a) (e : Err)
    (hr : runM (processDHKey msg) s = .ok (.error e, s')) : s' = s := by
  rw [processDHKey_run msg s a ha] at hr
  cases hd : DhKey.deserialize msg with
  | none =>
    rw [hd] at hr
    simp only [Res.ok.injEq, Prod.mk.injEq] at hr
    exact hr.2.symm
  | some m =>
    rw [hd] at hr
    simp only at hr
    cases hg : isGroupElement m.gy with
    | false =>
      simp only [hg, ↓reduceIte, Res.ok.injEq, Prod.mk.injEq] at hr
      exact hr.2.symm
    | true =>
      simp only [hg, Bool.true_eq_false, ↓reduceIte] at hr
      cases ht : a.theirPublicValue <;> rw [ht] at hr <;> cases hr

/-! ## 1. which paths of `processAKE` can establish (or re-establish) the encrypted state -/

section Frames

theorem Stable.mono {α} {R Q : MState → MState → Prop} (h : ∀ s s', R s s' → Q s s') {x : M α}
    (hx : Stable R x) : Stable Q x := fun s r s' hr => h s s' (hx s r s' hr)

theorem Keeps.comp {β γ} (π : MState → β) (g : β → γ) (s s' : MState) (h : Keeps π s s') :
    Keeps (fun s => g (π s)) s s' := by
  show g (π s') = g (π s)
  rw [show π s' = π s from h]

/-- what every AKE step short of `akeHasFinished`/`calcAKEKeys`/retransmission leaves alone:
    the events, the message state, the peer's long-term key, the session id, the whole key context and the
    role flag `sentRevealSig` (which half of the session id is highlighted) -/
def baseKept (s : MState) :=
  (s.events, s.conv.msgState, s.conv.theirKey, s.conv.ssid, s.conv.keys, s.conv.sentRevealSig)
abbrev BaseFrame : MState → MState → Prop := Keeps baseKept

theorem signOracle_run (mb : Bytes) (s : MState) :
    ∃ r env' mm', runM (signOracle mb) s = .ok (.ok r, { s with env := env', mismatch := mm' }) := by
  unfold signOracle
  simp only [runM_bind, runM_get, bindM_ok]
  split
  · exact ⟨none, s.env, _, by simp only [runM_bind, runM_mism, bindM_ok, runM_pure]; rfl⟩
  · rename_i d sg rest h
    simp only [runM_bind, runM_set, bindM_ok]
    by_cases hd : d = mb
    · exact ⟨sg, { s.env with sigs := rest }, s.mismatch, by simp [hd]⟩
    · exact ⟨sg, _, _, by simp only [ne_eq, hd, not_false_eq_true, ↓reduceIte, runM_bind, runM_mism, bindM_ok, runM_pure]; rfl⟩

theorem signOracle_stable {R : MState → MState → Prop}
    (hR : ∀ (s : MState) env' mm', R s { s with env := env', mismatch := mm' }) (mb : Bytes) :
    Stable R (signOracle mb) := by
  intro s r s' h
  obtain ⟨r0, env', mm', hr⟩ := signOracle_run mb s
  rw [hr] at h
  simp only [Res.ok.injEq, Prod.mk.injEq] at h
  rw [← h.2]; exact hR s env' mm'

theorem randRead_base (n : Nat) : Stable BaseFrame (randRead n) :=
  randRead_stable (fun s env' mm' h => rfl) n

theorem randomInto_base (n : Nat) : Stable BaseFrame (randomInto n) := by
  unfold randomInto
  stable [randRead_base]

theorem generateInstanceTagAux_base (fuel : Nat) : Stable BaseFrame (generateInstanceTagAux fuel) := by
  induction fuel with
  | zero => unfold generateInstanceTagAux; stable []
  | succ n ih => unfold generateInstanceTagAux; stable [randomInto_base, ih]

theorem generateInstanceTag_base : Stable BaseFrame generateInstanceTag := by
  unfold generateInstanceTag
  stable [generateInstanceTagAux_base]

theorem messageHeader_base (t : Nat) : Stable BaseFrame (messageHeader t) := by
  unfold messageHeader
  stable [generateInstanceTag_base]

theorem wrapMessageHeader_base (t : Nat) (m : Bytes) : Stable BaseFrame (wrapMessageHeader t m) := by
  unfold wrapMessageHeader
  stable [messageHeader_base]

theorem getAke_base : Stable BaseFrame getAke := by
  unfold getAke
  stable []

theorem optNat_base (site : String) (v : Option Nat) : Stable BaseFrame (optNat site v) := by
  unfold optNat
  stable []

theorem akeEncrypt_base (K : Crypto) (key data : Bytes) : Stable BaseFrame (akeEncrypt K key data) := by
  unfold akeEncrypt
  stable []

theorem resToM_base {α} (r : Res α) : Stable BaseFrame (resToM r) := by
  unfold resToM
  stable []

theorem signOracle_base (mb : Bytes) : Stable BaseFrame (signOracle mb) :=
  signOracle_stable (fun s env' mm' => rfl) mb

theorem generateEncryptedSignature_base (K : Crypto) (key : AkeKeys) :
    Stable BaseFrame (generateEncryptedSignature K key) := by
  unfold generateEncryptedSignature
  refine Stable.bind Stable.getc fun c => ?_
  dsimp only
  have hjp : ∀ pk : DsaPub, Stable BaseFrame (do
      let a ← getAke
      let ours ← optNat "generateEncryptedSignature: nil ourPublicValue" a.ourPublicValue
      let theirs ← optNat "generateEncryptedSignature: nil theirPublicValue" a.theirPublicValue
      let r ← signOracle (K.mac2 key.m1 (appendAll ours theirs pk a.keys.ourKeyID))
      match r with
        | none => throw Err.shortRandom
        | some sigb => do
          let enc ← akeEncrypt K key.c (appendWord pk.serialize a.keys.ourKeyID ++ sigb)
          pure (appendData [] enc)) := by
    intro pk
    refine Stable.bind getAke_base fun a => ?_
    refine Stable.bind (optNat_base _ _) fun ours => ?_
    refine Stable.bind (optNat_base _ _) fun theirs => ?_
    refine Stable.bind (signOracle_base _) fun r => ?_
    cases r with
    | none => exact Stable.throw _
    | some sigb => exact Stable.bind (akeEncrypt_base _ _ _) fun enc => Stable.pure _
  split
  · exact Stable.bind (Stable.pure _) hjp
  · exact Stable.bind (Stable.throw _) hjp

theorem sigMessage_base (K : Crypto) : Stable BaseFrame (sigMessage K) := by
  unfold sigMessage modAke
  stable [getAke_base, generateEncryptedSignature_base, resToM_base]

theorem akeSetTheirCurrent_base : Stable BaseFrame akeSetTheirCurrent := by
  unfold akeSetTheirCurrent modAke
  stable [getAke_base, optNat_base]

theorem akeSetOurCurrent_base : Stable BaseFrame akeSetOurCurrent := by
  unfold akeSetOurCurrent modAke
  stable [getAke_base, optNat_base]

theorem serializeDHKey_base : Stable BaseFrame serializeDHKey := by
  unfold serializeDHKey
  stable [getAke_base, optNat_base]

theorem serializeDHCommit_base (K : Crypto) : Stable BaseFrame (serializeDHCommit K) := by
  unfold serializeDHCommit
  stable [getAke_base, optNat_base]

theorem dhKeyMessage_base (K : Crypto) : Stable BaseFrame (dhKeyMessage K) := by
  unfold dhKeyMessage initAKE setSecretExponent modAke
  stable [randomInto_base, serializeDHKey_base]

theorem processDHCommit_base (msg : Bytes) : Stable BaseFrame (processDHCommit msg) := by
  unfold processDHCommit modAke
  stable []

theorem processDHKey_base (msg : Bytes) : Stable BaseFrame (processDHKey msg) := by
  unfold processDHKey modAke
  stable [getAke_base]

theorem recvDHCommitNone_base (K : Crypto) (msg : Bytes) : Stable BaseFrame (recvDHCommitNone K msg) := by
  unfold recvDHCommitNone akeTry modAke
  stable [dhKeyMessage_base, wrapMessageHeader_base, processDHCommit_base]

theorem recvDHCommit_base (K : Crypto) (st : AuthState) (msg : Bytes) :
    Stable BaseFrame (recvDHCommit K st msg) := by
  unfold recvDHCommit akeTry modAke
  stable [recvDHCommitNone_base, wrapMessageHeader_base, processDHCommit_base, serializeDHKey_base,
    serializeDHCommit_base, getAke_base, optNat_base]

/-- the key material of a key-management context: the key ids and the four DH generations (everything except
    the per-message bookkeeping `counters`, `macHistory`, `oldMACKeys`) -/
def Keys.material (k : Keys) := (k.ourKeyID, k.theirKeyID, k.ourCur, k.ourPrev, k.theirCur, k.theirPrev)

/-- security events: GoneInsecure, GoneSecure, StillSecure -/
def isSecEvent (e : String) : Bool := e == "sec:0" || e == "sec:1" || e == "sec:2"

/-- strict frame: message state, peer's long-term key, the whole key context, the session id and the role flag
    (`sentRevealSig`) of an encrypted conversation, and the security events emitted so far -/
def strictKept (s : MState) :=
  (s.conv.msgState, s.conv.theirKey, s.conv.keys,
   (if s.conv.msgState = .encrypted then some (s.conv.ssid, s.conv.sentRevealSig) else none),
   s.events.filter isSecEvent)
abbrev StrictFrame : MState → MState → Prop := Keeps strictKept

/-- quiet frame: as the strict frame, but of the key context only the key material -/
def quietKept (s : MState) :=
  (s.conv.msgState, s.conv.theirKey, s.conv.keys.material,
   (if s.conv.msgState = .encrypted then some (s.conv.ssid, s.conv.sentRevealSig) else none),
   s.events.filter isSecEvent)
abbrev QuietFrame : MState → MState → Prop := Keeps quietKept

theorem Stable.base_strict {α} {x : M α} (h : Stable BaseFrame x) : Stable StrictFrame x :=
  Stable.mono (Keeps.comp baseKept (fun p : List String × MsgState × Option DsaPub × Bytes × Keys × Bool =>
    (p.2.1, p.2.2.1, p.2.2.2.2.1, (if p.2.1 = .encrypted then some (p.2.2.2.1, p.2.2.2.2.2) else none),
      p.1.filter isSecEvent))) h

theorem Stable.strict_quiet {α} {x : M α} (h : Stable StrictFrame x) : Stable QuietFrame x :=
  Stable.mono (Keeps.comp strictKept
    (fun p : MsgState × Option DsaPub × Keys × Option (Bytes × Bool) × List String =>
      (p.1, p.2.1, p.2.2.1.material, p.2.2.2.1, p.2.2.2.2))) h

theorem calcAKEKeys_strict (K : Crypto) : Stable StrictFrame (calcAKEKeys K) := by
  intro s r s' h
  cases ha : s.conv.ake with
  | none => simp [calcAKEKeys, getAke, ha] at h
  | some a =>
    cases ht : a.theirPublicValue with
    | none => rw [calcAKEKeys_nil K s a ha ht] at h; cases h
    | some theirs =>
      rw [calcAKEKeys_run K s a ha theirs ht] at h
      simp only [Res.ok.injEq, Prod.mk.injEq] at h
      rw [← h.2]
      show strictKept _ = strictKept _
      unfold strictKept afterCalc
      by_cases hm : s.conv.msgState = .encrypted <;> simp [hm]

theorem revealSigMessage_strict (K : Crypto) : Stable StrictFrame (revealSigMessage K) := by
  unfold revealSigMessage
  refine Stable.bind (calcAKEKeys_strict K) fun _ => ?_
  refine Stable.base_strict ?_
  unfold modAke
  stable [getAke_base, generateEncryptedSignature_base, resToM_base]

/-- the conditional write of the role flag in the DH-Key step: the flag of an encrypted conversation is not
    touched (repaired code; the value is recorded in `ake.sentRevealSig` and committed by `akeHasFinished`) -/
theorem markRole_strict :
    Stable StrictFrame (modc fun c => if c.msgState != .encrypted then { c with sentRevealSig := true } else c) :=
  Stable.modc _ (fun s => by
    show strictKept _ = strictKept _
    unfold strictKept
    cases hm : s.conv.msgState <;> simp [hm])

theorem recvDHKey_strict (K : Crypto) (st : AuthState) (msg : Bytes) : Stable StrictFrame (recvDHKey K st msg) := by
  unfold recvDHKey akeTry
  split
  · exact Stable.pure _
  · exact Stable.pure _
  · refine Stable.tryCatch ?_ (fun e => Stable.pure _)
    refine Stable.bind (processDHKey_base msg).base_strict fun _ => ?_
    refine Stable.bind (revealSigMessage_strict K) fun m => ?_
    unfold modAke
    stable [(wrapMessageHeader_base _ _).base_strict, akeSetTheirCurrent_base.base_strict,
      akeSetOurCurrent_base.base_strict, markRole_strict]
  · refine Stable.base_strict ?_
    stable [processDHKey_base]

theorem messageHeader_quiet (t : Nat) : Stable QuietFrame (messageHeader t) :=
  (messageHeader_base t).base_strict.strict_quiet

theorem encryptPlain_returns (K : Crypto) (key ctr : Bytes) (p : PlainDataMsg) (s : MState) :
    ∃ v, runM (encryptPlain K key ctr p) s = .ok (.ok v, s) := by
  unfold encryptPlain
  split
  · exact ⟨_, rfl⟩
  · exact ⟨_, rfl⟩

/-- `messageHeader` changes nothing of the conversation except (v3, first use) `ourTag`; no event -/
theorem messageHeader_conv (t : Nat) (s : MState) (r : Except Err Bytes) (s' : MState)
    (h : runM (messageHeader t) s = .ok (r, s')) :
    ∃ v, s'.conv = { s.conv with ourTag := v } ∧ s'.events = s.events := by
  unfold messageHeader at h
  simp only [runM_bind, runM_getc, bindM_ok] at h
  cases hv : s.conv.version with
  | none => rw [hv] at h; simp only [runM_goPanic] at h; cases h
  | some v =>
    rw [hv] at h
    cases v with
    | v2 =>
      simp only [runM_pure, Res.ok.injEq, Prod.mk.injEq] at h
      obtain ⟨-, rfl⟩ := h
      exact ⟨s.conv.ourTag, rfl, rfl⟩
    | v3 =>
      simp only [runM_bind] at h
      by_cases h0 : s.conv.ourTag = 0
      · obtain ⟨env', mm', -, hh⟩ := generateInstanceTag_run s h0
        rcases hh with ⟨v, -, -, hh⟩ | hh
        · rw [hh] at h
          simp only [bindM_ok, runM_getc, runM_pure, Res.ok.injEq, Prod.mk.injEq] at h
          obtain ⟨-, rfl⟩ := h
          exact ⟨v, rfl, rfl⟩
        · rw [hh] at h
          simp only [bindM_error, Res.ok.injEq, Prod.mk.injEq] at h
          obtain ⟨-, rfl⟩ := h
          exact ⟨s.conv.ourTag, rfl, rfl⟩
      · rw [generateInstanceTag_noop s h0] at h
        simp only [bindM_ok, runM_getc, runM_pure, Res.ok.injEq, Prod.mk.injEq] at h
        obtain ⟨-, rfl⟩ := h
        exact ⟨s.conv.ourTag, rfl, rfl⟩

theorem genDataMsgWithFlag_quiet (K : Crypto) (m : Bytes) (f : Nat) (tlvs : List Tlv) :
    Stable QuietFrame (genDataMsgWithFlag K m f tlvs) := by
  intro s r s' h
  unfold genDataMsgWithFlag at h
  simp only [runM_bind, runM_getc, bindM_ok] at h
  by_cases hm : s.conv.msgState = .encrypted
  · simp only [hm, ne_eq, not_true_eq_false, ↓reduceIte, runM_pure, bindM_ok] at h
    cases hk : s.conv.keys.deriveSessionKeys K (s.conv.keys.ourKeyID - 1) s.conv.keys.theirKeyID with
    | error e =>
      rw [hk] at h
      simp only [runM_bind, runM_throw, bindM_error, Res.ok.injEq, Prod.mk.injEq] at h
      rw [← h.2]; exact rfl
    | ok sk =>
      rw [hk] at h
      simp only [runM_pure, bindM_ok, runM_bind, runM_modc, runM_getc] at h
      generalize hs1 : MState.mk _ s.env s.events s.mismatch = s1 at h
      have hq1 : quietKept s1 = quietKept s := by subst hs1; rfl
      have hm1 : s1.conv.msgState = .encrypted := by subst hs1; exact hm
      obtain ⟨v, hv⟩ := encryptPlain_returns K sk.sendAES
        (be64 (if (findCounter s.conv.keys.counters (s.conv.keys.ourKeyID - 1) s.conv.keys.theirKeyID).fst.ourCounter = 0
          then 1 else (findCounter s.conv.keys.counters (s.conv.keys.ourKeyID - 1) s.conv.keys.theirKeyID).fst.ourCounter))
        { message := m, tlvs := tlvs } s1
      rw [hv] at h
      simp only [bindM_ok] at h
      cases hh : runM (messageHeader msgTypeData) s1 with
      | panic p => rw [hh] at h; cases h
      | ok w =>
        obtain ⟨w, s2⟩ := w
        obtain ⟨tg, hc2, he2⟩ := messageHeader_conv _ _ _ _ hh
        have hq2 : quietKept s2 = quietKept s1 := by
          unfold quietKept; rw [hc2, he2]
        rw [hh] at h
        cases w with
        | error e =>
          simp only [bindM_error, Res.ok.injEq, Prod.mk.injEq] at h
          rw [← h.2]; exact hq2.trans hq1
        | ok hdr =>
          simp only [bindM_ok] at h
          show quietKept s' = quietKept s
          rw [← hq1, ← hq2]
          cases hoc : s2.conv.keys.ourCur with
          | none => rw [hoc] at h; simp only [runM_bind, runM_goPanic, bindM_panic] at h; cases h
          | some pr =>
            rw [hoc] at h
            by_cases hl : m.length > 0
            · simp only [hl, ↓reduceIte, runM_bind, runM_pure, bindM_ok, runM_modc, resendLast, runM_getc] at h
              cases hrt : s2.conv.retransmitting with
              | true =>
                simp only [hrt, ↓reduceIte, runM_pure, bindM_ok, Res.ok.injEq, Prod.mk.injEq] at h
                rw [← h.2]; rfl
              | false =>
                simp only [hrt, Bool.false_eq_true, ↓reduceIte, runM_pure, bindM_ok, runM_bind, runM_modc,
                  Res.ok.injEq, Prod.mk.injEq] at h
                rw [← h.2]; rfl
            · simp only [hl, ↓reduceIte, runM_bind, runM_pure, bindM_ok, runM_modc, Res.ok.injEq, Prod.mk.injEq] at h
              rw [← h.2]; rfl
  · simp only [hm, ne_eq, not_false_eq_true, ↓reduceIte, runM_bind, runM_throw, bindM_error, Res.ok.injEq,
      Prod.mk.injEq] at h
    rw [← h.2]; exact rfl

theorem wrapMessageHeader_quiet (t : Nat) (m : Bytes) : Stable QuietFrame (wrapMessageHeader t m) :=
  (wrapMessageHeader_base t m).base_strict.strict_quiet

theorem ev_quiet (e : String) (he : isSecEvent e = false) : Stable QuietFrame (ev e) :=
  Stable.ev _ (fun s => by
    show quietKept _ = quietKept _
    unfold quietKept
    simp only [List.filter_append, List.filter_cons, he, List.filter_nil, List.append_nil, Bool.false_eq_true,
      ↓reduceIte])

theorem msgEvent_resent_quiet : Stable QuietFrame (msgEvent evMessageResent) :=
  ev_quiet "msg:6" (by decide)

theorem msgEvent_sent_quiet : Stable QuietFrame (msgEvent evMessageSent) :=
  ev_quiet "msg:5" (by decide)

theorem retransmit_quiet (K : Crypto) : Stable QuietFrame (retransmit K) := by
  unfold retransmit updateLastSent
  stable [genDataMsgWithFlag_quiet, wrapMessageHeader_quiet, msgEvent_resent_quiet, msgEvent_sent_quiet]

theorem maybeRetransmit_quiet (K : Crypto) : Stable QuietFrame (maybeRetransmit K) := by
  unfold maybeRetransmit
  stable [retransmit_quiet]

/-- with nothing to retransmit (`resendMsgs` empty, or `mayRetransmit = no`, or not encrypted) `maybeRetransmit`
    does nothing at all -/
theorem maybeRetransmit_idle (K : Crypto) (s : MState)
    (h : ¬ (s.conv.resendMsgs.length > 0 ∧ s.conv.mayRetransmit ≠ .no ∧ s.conv.msgState = .encrypted)) :
    runM (maybeRetransmit K) s = .ok (.ok [], s) := by
  unfold maybeRetransmit
  simp only [runM_bind, runM_getc, bindM_ok, h, ↓reduceIte, runM_pure]

theorem retransmitOrReveal_quiet (K : Crypto) : Stable QuietFrame (retransmitOrReveal K) := by
  unfold retransmitOrReveal
  stable [maybeRetransmit_quiet, genDataMsgWithFlag_quiet, wrapMessageHeader_quiet]

theorem retransmitAfterCompletedExchange_quiet (K : Crypto) (before after : AuthState) (e : Option Err) :
    Stable QuietFrame (retransmitAfterCompletedExchange K before after e) := by
  by_cases h : before = .none ∨ after ≠ .none ∨ e ≠ none
  · rw [retransmitAfterCompletedExchange_skip K before after e h]; exact Stable.pure _
  · have hb : before ≠ .none := fun hb => h (Or.inl hb)
    have ha : after = .none := Classical.byContradiction fun ha => h (Or.inr (Or.inl ha))
    have he : e = none := Classical.byContradiction fun he => h (Or.inr (Or.inr he))
    subst ha he
    rw [retransmitAfterCompletedExchange_completed K before hb]
    exact retransmitOrReveal_quiet K

end Frames

/-- the message-type dispatch of `processAKE`, from the authentication state `st` -/
def akeDispatch (K : Crypto) (msgType : Nat) (msg : Bytes) (s : AuthState) :
    M (Option Bytes × List Bytes × Option Err) :=
  if msgType = msgTypeDHCommit then do
    let (s', m, e) ← recvDHCommit K s msg
    modAke fun a => { a with state := s' }
    pure (m, [], e)
  else if msgType = msgTypeDHKey then do
    let (s', m, e) ← recvDHKey K s msg
    modAke fun a => { a with state := s' }
    pure (m, [], e)
  else if msgType = msgTypeRevealSig then do
    let (s', m, e) ← recvRevealSig K s msg
    modAke fun a => { a with state := s' }
    let extra ← retransmitAfterCompletedExchange K s s' e
    pure (m, extra, e)
  else if msgType = msgTypeSig then do
    let (s', m, e) ← recvSig K s msg
    modAke fun a => { a with state := s' }
    let extra ← retransmitAfterCompletedExchange K s s' e
    pure (m, extra, e)
  else pure (none, [], some (.other "unknown message type"))

/-- whether `processAKE` stamps `lastStateChange` (repaired code): the message was not rejected, and it moved
    the authentication state (from kind `st` to kind `s2`) or produced a non-empty reply -/
def akeStampCond (st s2 : AuthState) (single : Option Bytes) (err : Option Err) : Bool :=
  err.isNone && (s2.toNat != st.toNat || (match single with | some m => !m.isEmpty | none => false))

/-- the end of `processAKE` (repaired code): `lastStateChange` is stamped only for a message that was a step of
    a key exchange -/
def akeStamp (st : AuthState) (single : Option Bytes) (err : Option Err) : M Unit := do
  let s2 := (← getAke).state
  if akeStampCond st s2 single err then do
    let t ← now
    modAke fun a => { a with lastStateChange := some t }

/-- `processAKE` after the authentication state has been read -/
def akeRest (K : Crypto) (msgType : Nat) (msg : Bytes) (s : AuthState) : M (List Bytes × Option Err) := do
  let (single, extra, err) ← akeDispatch K msgType msg s
  akeStamp s single err
  let msgs := (match single with | some m => [m] | none => []) ++ extra
  return (msgs, err)

theorem akeStamp_base (st : AuthState) (single : Option Bytes) (err : Option Err) :
    Stable BaseFrame (akeStamp st single err) := by
  unfold akeStamp modAke
  stable [getAke_base]

/-- the AKE context after the conditional time stamp at time `t` -/
def stampAke (st : AuthState) (single : Option Bytes) (err : Option Err) (t : Nat) (a : Ake) : Ake :=
  if akeStampCond st a.state single err then { a with lastStateChange := some t } else a

theorem stampAke_eq (st : AuthState) (single : Option Bytes) (err : Option Err) (t : Nat) (a : Ake) :
    stampAke st single err t a =
      { a with lastStateChange := if akeStampCond st a.state single err then some t else a.lastStateChange } := by
  unfold stampAke; split <;> rfl

@[simp] theorem stampAke_state (st : AuthState) (single : Option Bytes) (err : Option Err) (t : Nat) (a : Ake) :
    (stampAke st single err t a).state = a.state := by rw [stampAke_eq]

@[simp] theorem stampAke_sentRevealSig (st : AuthState) (single : Option Bytes) (err : Option Err) (t : Nat)
    (a : Ake) : (stampAke st single err t a).sentRevealSig = a.sentRevealSig := by rw [stampAke_eq]

theorem akeStamp_run (st : AuthState) (single : Option Bytes) (err : Option Err) (s : MState) (a : Ake)
    (ha : s.conv.ake = some a) :
    runM (akeStamp st single err) s =
      .ok (.ok (), { s with conv := { s.conv with ake := some (stampAke st single err s.env.now a) } }) := by
  unfold akeStamp stampAke
  simp only [runM_bind, getAke, runM_getc, bindM_ok, ha, runM_pure, runM_ite, modAke, runM_now, runM_modc, Option.map]
  split
  · rfl
  · cases s with
    | mk c e ev mm =>
      cases c
      simp only at ha
      subst ha
      rfl

theorem akeStamp_run_none (st : AuthState) (single : Option Bytes) (err : Option Err) (s : MState)
    (ha : s.conv.ake = none) : runM (akeStamp st single err) s = .panic "nil c.ake" := by
  unfold akeStamp
  simp only [runM_bind, getAke, runM_getc, bindM_ok, ha, runM_goPanic, bindM_panic]

theorem bindM_assoc {α β γ} (r : Out α) (f : α → MState → Out β) (g : β → MState → Out γ) :
    bindM (bindM r f) g = bindM r (fun a s => bindM (f a s) g) := by
  cases r with
  | panic p => rfl
  | ok v =>
    obtain ⟨v, s⟩ := v
    cases v <;> rfl

theorem bindM_ite {α β} (c : Prop) [Decidable c] (x y : Out α) (f : α → MState → Out β) :
    bindM (if c then x else y) f = if c then bindM x f else bindM y f := by
  split <;> rfl

theorem processAKE_run_at (K : Crypto) (msgType : Nat) (msg : Bytes) (st : AuthState) (s : MState) :
    runM (do
      let (single, extra, err) ←
        if msgType = msgTypeDHCommit then do
          let (s', m, e) ← recvDHCommit K st msg
          modAke fun a => { a with state := s' }
          pure (m, [], e)
        else if msgType = msgTypeDHKey then do
          let (s', m, e) ← recvDHKey K st msg
          modAke fun a => { a with state := s' }
          pure (m, [], e)
        else if msgType = msgTypeRevealSig then do
          let (s', m, e) ← recvRevealSig K st msg
          modAke fun a => { a with state := s' }
          let extra ← retransmitAfterCompletedExchange K st s' e
          pure (m, extra, e)
        else if msgType = msgTypeSig then do
          let (s', m, e) ← recvSig K st msg
          modAke fun a => { a with state := s' }
          let extra ← retransmitAfterCompletedExchange K st s' e
          pure (m, extra, e)
        else pure (none, [], some (.other "unknown message type"))
      let s2 := (← getAke).state
      if err.isNone && (s2.toNat != st.toNat || (match single with | some m => !m.isEmpty | none => false)) then do
        let t ← now
        modAke fun a => { a with lastStateChange := some t }
      let msgs := (match single with | some m => [m] | none => []) ++ extra
      return (msgs, err)) s = runM (akeRest K msgType msg st) s := by
  unfold akeRest akeDispatch akeStamp akeStampCond
  by_cases h1 : msgType = msgTypeDHCommit
  · simp only [if_pos h1, runM_bind, bindM_assoc, runM_pure, bindM_ok, runM_ite, bindM_ite]
  · by_cases h2 : msgType = msgTypeDHKey
    · simp only [if_neg h1, if_pos h2, runM_bind, bindM_assoc, runM_pure, bindM_ok, runM_ite, bindM_ite]
    · by_cases h3 : msgType = msgTypeRevealSig
      · simp only [if_neg h1, if_neg h2, if_pos h3, runM_bind, bindM_assoc, runM_pure, bindM_ok, runM_ite, bindM_ite]
      · by_cases h4 : msgType = msgTypeSig
        · simp only [if_neg h1, if_neg h2, if_neg h3, if_pos h4, runM_bind, bindM_assoc, runM_pure, bindM_ok, runM_ite, bindM_ite]
        · simp only [if_neg h1, if_neg h2, if_neg h3, if_neg h4, runM_bind, bindM_assoc, runM_pure, bindM_ok, runM_ite, bindM_ite]

theorem processAKE_run_some (K : Crypto) (msgType : Nat) (msg : Bytes) (s : MState) (a : Ake)
    (ha : s.conv.ake = some a) :
    runM (processAKE K msgType msg) s = runM (akeRest K msgType msg a.state) s := by
  rw [← processAKE_run_at]
  unfold processAKE
  simp only [runM_bind, runM_getc, bindM_ok, ha, Option.isNone_some, Bool.false_eq_true, ↓reduceIte, runM_pure,
    getAke]
  rfl

theorem processAKE_run_none (K : Crypto) (msgType : Nat) (msg : Bytes) (s : MState)
    (ha : s.conv.ake = none) :
    runM (processAKE K msgType msg) s =
      runM (akeRest K msgType msg .none) { s with conv := { s.conv with ake := some {} } } := by
  rw [← processAKE_run_at]
  unfold processAKE
  simp only [runM_bind, runM_getc, bindM_ok, ha, Option.isNone_none, ↓reduceIte, runM_pure,
    getAke, initAKE, runM_modc]
  rfl

/-- the authentication state `processAKE` dispatches on (a missing AKE context is created in state `none`) -/
def authStateOf (c : Conv) : AuthState :=
  match c.ake with
  | some a => a.state
  | none => .none

/-- the two (message type, authentication state) combinations that reach `akeHasFinished` -/
def finishingCombination (msgType : Nat) (st : AuthState) : Prop :=
  (msgType = msgTypeRevealSig ∧ st = .awaitingRevealSig) ∨ (msgType = msgTypeSig ∧ ∃ rs, st = .awaitingSig rs)

theorem recvRevealSig_other (K : Crypto) (st : AuthState) (msg : Bytes) (h : st ≠ .awaitingRevealSig) :
    recvRevealSig K st msg = pure (st, none, none) := by
  unfold recvRevealSig
  cases st <;> first | rfl | exact absurd rfl h

theorem recvSig_other (K : Crypto) (st : AuthState) (msg : Bytes) (h : ∀ rs, st ≠ .awaitingSig rs) :
    recvSig K st msg = pure (st, none, none) := by
  unfold recvSig
  cases st <;> first | rfl | exact absurd rfl (h _)

theorem akeDispatch_quiet (K : Crypto) (t : Nat) (msg : Bytes) (st : AuthState)
    (h : ¬ finishingCombination t st) : Stable QuietFrame (akeDispatch K t msg st) := by
  unfold akeDispatch modAke
  split
  · stable [(recvDHCommit_base K st msg).base_strict.strict_quiet]
  · split
    · stable [(recvDHKey_strict K st msg).strict_quiet]
    · split
      · rename_i ht
        rw [recvRevealSig_other K st msg (fun hs => h (Or.inl ⟨ht, hs⟩))]
        stable [retransmitAfterCompletedExchange_quiet]
      · split
        · rename_i ht
          rw [recvSig_other K st msg (fun rs hs => h (Or.inr ⟨ht, rs, hs⟩))]
          stable [retransmitAfterCompletedExchange_quiet]
        · exact Stable.pure _

theorem akeRest_quiet (K : Crypto) (t : Nat) (msg : Bytes) (st : AuthState)
    (h : ¬ finishingCombination t st) : Stable QuietFrame (akeRest K t msg st) := by
  unfold akeRest
  stable [akeDispatch_quiet K t msg st h, (akeStamp_base _ _ _).base_strict.strict_quiet]

theorem akeDispatch_strict (K : Crypto) (t : Nat) (msg : Bytes) (st : AuthState)
    (h3 : t ≠ msgTypeRevealSig) (h4 : t ≠ msgTypeSig) : Stable StrictFrame (akeDispatch K t msg st) := by
  unfold akeDispatch modAke
  split
  · stable [(recvDHCommit_base K st msg).base_strict]
  · split
    · stable [recvDHKey_strict K st msg]
    · exact Stable.pure _

theorem akeRest_strict (K : Crypto) (t : Nat) (msg : Bytes) (st : AuthState)
    (h3 : t ≠ msgTypeRevealSig) (h4 : t ≠ msgTypeSig) : Stable StrictFrame (akeRest K t msg st) := by
  unfold akeRest
  stable [akeDispatch_strict K t msg st h3 h4, (akeStamp_base _ _ _).base_strict]

theorem authStateOf_some {c : Conv} {a : Ake} (h : c.ake = some a) : authStateOf c = a.state := by
  unfold authStateOf; rw [h]

theorem authStateOf_none {c : Conv} (h : c.ake = none) : authStateOf c = .none := by
  unfold authStateOf; rw [h]

/-- C01/1 (frame): outside the two finishing combinations, `processAKE` — whatever it returns or throws —
    leaves alone: the message state, the peer's long-term key, the key material (key ids and all DH
    generations), the session id of an encrypted conversation, and emits no security event. -/
theorem processAKE_quiet (K : Crypto) (t : Nat) (msg : Bytes) (s : MState)
    (r : Except Err (List Bytes × Option Err)) (s' : MState)
    (h : runM (processAKE K t msg) s = .ok (r, s'))
    (hc : ¬ finishingCombination t (authStateOf s.conv)) : quietKept s' = quietKept s := by
  cases ha : s.conv.ake with
  | none =>
    rw [processAKE_run_none K t msg s ha] at h
    rw [authStateOf_none ha] at hc
    have h0 := akeRest_quiet K t msg .none hc _ _ _ h
    exact h0
  | some a =>
    rw [processAKE_run_some K t msg s a ha] at h
    rw [authStateOf_some ha] at hc
    exact akeRest_quiet K t msg a.state hc _ _ _ h

/-- C01/1 (frame, strict): for DH-Commit, DH-Key and unknown message types the whole key context is
    unchanged as well (no retransmission happens on these paths) -/
theorem processAKE_strict (K : Crypto) (t : Nat) (msg : Bytes) (s : MState)
    (r : Except Err (List Bytes × Option Err)) (s' : MState)
    (h : runM (processAKE K t msg) s = .ok (r, s'))
    (h3 : t ≠ msgTypeRevealSig) (h4 : t ≠ msgTypeSig) : strictKept s' = strictKept s := by
  cases ha : s.conv.ake with
  | none =>
    rw [processAKE_run_none K t msg s ha] at h
    have h0 := akeRest_strict K t msg .none h3 h4 _ _ _ h
    exact h0
  | some a =>
    rw [processAKE_run_some K t msg s a ha] at h
    exact akeRest_strict K t msg a.state h3 h4 _ _ _ h

/-- C01/1: if `processAKE` ends in the encrypted state and anything security-relevant happened — the
    conversation was not encrypted before, or the key material, the peer's long-term key, the session id or the
    role flag `sentRevealSig` changed, or a security event (GoneSecure / StillSecure / GoneInsecure) was emitted — then the call was a
    Reveal-Signature message received in `awaitingRevealSig`, or a Signature message received in `awaitingSig`. -/
theorem c01_paths (K : Crypto) (t : Nat) (msg : Bytes) (s : MState)
    (r : Except Err (List Bytes × Option Err)) (s' : MState)
    (h : runM (processAKE K t msg) s = .ok (r, s'))
    (henc : s'.conv.msgState = .encrypted)
    (hchg : s.conv.msgState ≠ .encrypted ∨ s'.conv.keys.material ≠ s.conv.keys.material ∨
      s'.conv.theirKey ≠ s.conv.theirKey ∨ s'.conv.ssid ≠ s.conv.ssid ∨
      s'.conv.sentRevealSig ≠ s.conv.sentRevealSig ∨
      ∃ evs, s'.events = s.events ++ evs ∧ ∃ e ∈ evs, isSecEvent e = true) :
    (t = msgTypeRevealSig ∧ ∃ a, s.conv.ake = some a ∧ a.state = .awaitingRevealSig) ∨
    (t = msgTypeSig ∧ ∃ a rs, s.conv.ake = some a ∧ a.state = .awaitingSig rs) := by
  by_cases hc : finishingCombination t (authStateOf s.conv)
  · cases ha : s.conv.ake with
    | none =>
      rw [authStateOf_none ha] at hc
      rcases hc with ⟨-, h2⟩ | ⟨-, rs, h2⟩ <;> cases h2
    | some a =>
      rw [authStateOf_some ha] at hc
      rcases hc with ⟨h1, h2⟩ | ⟨h1, rs, h2⟩
      · exact Or.inl ⟨h1, a, rfl, h2⟩
      · exact Or.inr ⟨h1, a, rs, rfl, h2⟩
  · exfalso
    have hq := processAKE_quiet K t msg s r s' h hc
    unfold quietKept at hq
    simp only [Prod.mk.injEq] at hq
    obtain ⟨hms, htk, hmat, hss, hev⟩ := hq
    have hse : s.conv.msgState = .encrypted := by rw [← hms]; exact henc
    rw [if_pos henc, if_pos hse] at hss
    have hp := Prod.mk.inj (Option.some.inj hss)
    rcases hchg with h1 | h1 | h1 | h1 | h1 | ⟨evs, he, e, hmem, hsec⟩
    · exact h1 hse
    · exact h1 hmat
    · exact h1 htk
    · exact h1 hp.1
    · exact h1 hp.2
    · rw [he, List.filter_append] at hev
      have hnil : evs.filter isSecEvent = [] := List.append_right_eq_self.mp hev
      have : e ∈ evs.filter isSecEvent := List.mem_filter.2 ⟨hmem, hsec⟩
      rw [hnil] at this
      cases this

/-! ## 5. the values installed by a finishing step -/

section Finish

theorem bindM_ok_inv {α β} {r : Out α} {f : α → MState → Out β} {b : β} {s' : MState}
    (h : bindM r f = .ok (.ok b, s')) : ∃ a s1, r = .ok (.ok a, s1) ∧ f a s1 = .ok (.ok b, s') := by
  cases r with
  | panic p => cases h
  | ok v =>
    obtain ⟨v, s1⟩ := v
    cases v with
    | error e => simp only [bindM_error, Res.ok.injEq, Prod.mk.injEq, reduceCtorEq, false_and] at h
    | ok a => exact ⟨a, s1, rfl, h⟩

/-- frame: the whole conversation and the events (only the environment and diagnostics may change) -/
abbrev ConvFrame : MState → MState → Prop := Keeps (fun s => (s.conv, s.events))

theorem getAke_conv : Stable ConvFrame getAke := by
  unfold getAke
  stable []

theorem optNat_conv (site : String) (v : Option Nat) : Stable ConvFrame (optNat site v) := by
  unfold optNat
  stable []

theorem akeEncrypt_conv (K : Crypto) (key data : Bytes) : Stable ConvFrame (akeEncrypt K key data) := by
  unfold akeEncrypt
  stable []

theorem resToM_conv {α} (r : Res α) : Stable ConvFrame (resToM r) := by
  unfold resToM
  stable []

theorem signOracle_conv (mb : Bytes) : Stable ConvFrame (signOracle mb) :=
  signOracle_stable (fun s env' mm' => rfl) mb

theorem generateEncryptedSignature_conv (K : Crypto) (key : AkeKeys) :
    Stable ConvFrame (generateEncryptedSignature K key) := by
  unfold generateEncryptedSignature
  refine Stable.bind Stable.getc fun c => ?_
  dsimp only
  have hjp : ∀ pk : DsaPub, Stable ConvFrame (do
      let a ← getAke
      let ours ← optNat "generateEncryptedSignature: nil ourPublicValue" a.ourPublicValue
      let theirs ← optNat "generateEncryptedSignature: nil theirPublicValue" a.theirPublicValue
      let r ← signOracle (K.mac2 key.m1 (appendAll ours theirs pk a.keys.ourKeyID))
      match r with
        | none => throw Err.shortRandom
        | some sigb => do
          let enc ← akeEncrypt K key.c (appendWord pk.serialize a.keys.ourKeyID ++ sigb)
          pure (appendData [] enc)) := by
    intro pk
    refine Stable.bind getAke_conv fun a => ?_
    refine Stable.bind (optNat_conv _ _) fun ours => ?_
    refine Stable.bind (optNat_conv _ _) fun theirs => ?_
    refine Stable.bind (signOracle_conv _) fun r => ?_
    cases r with
    | none => exact Stable.throw _
    | some sigb => exact Stable.bind (akeEncrypt_conv _ _ _) fun enc => Stable.pure _
  split
  · exact Stable.bind (Stable.pure _) hjp
  · exact Stable.bind (Stable.throw _) hjp

/-- `sigMessage`: whatever happens (normal return or throw), the only change to the conversation is
    `ake.keys.ourKeyID + 1`; no event -/
theorem sigMessage_conv (K : Crypto) (s : MState) (a : Ake) (ha : s.conv.ake = some a)
    (r : Except Err Bytes) (s' : MState) (h : runM (sigMessage K) s = .ok (r, s')) :
    s'.conv = { s.conv with ake := some { a with keys := { a.keys with ourKeyID := a.keys.ourKeyID + 1 } } } ∧
    s'.events = s.events := by
  unfold sigMessage at h
  rw [runM_bind] at h
  simp only [modAke, runM_modc, bindM_ok, ha, Option.map] at h
  have hst : Stable ConvFrame (do
      let a ← getAke
      let encSig ← generateEncryptedSignature K a.sigKey
      let macSig := K.mac2 a.sigKey.m2 encSig
      resToM (Sig.serialize ⟨encSig, macSig⟩)) := by
    stable [getAke_conv, generateEncryptedSignature_conv, resToM_conv]
  have := hst _ _ _ h
  simp only [Keeps, Prod.mk.injEq] at this
  exact this

theorem wrapMessageHeader_conv (t : Nat) (m : Bytes) (s : MState) (r : Except Err Bytes) (s' : MState)
    (h : runM (wrapMessageHeader t m) s = .ok (r, s')) :
    ∃ v, s'.conv = { s.conv with ourTag := v } ∧ s'.events = s.events := by
  unfold wrapMessageHeader at h
  simp only [runM_bind] at h
  cases hh : runM (messageHeader t) s with
  | panic p => rw [hh] at h; cases h
  | ok w =>
    obtain ⟨w, s2⟩ := w
    rw [hh] at h
    obtain ⟨v, hc, he⟩ := messageHeader_conv t s w s2 hh
    cases w with
    | error e =>
      simp only [bindM_error, Res.ok.injEq, Prod.mk.injEq] at h
      rw [← h.2]; exact ⟨v, hc, he⟩
    | ok hd =>
      simp only [bindM_ok, runM_pure, Res.ok.injEq, Prod.mk.injEq] at h
      rw [← h.2]; exact ⟨v, hc, he⟩

theorem akeSetTheirCurrent_run (s : MState) (a : Ake) (ha : s.conv.ake = some a) :
    runM akeSetTheirCurrent s =
      match a.theirPublicValue with
      | none => .panic "setTheirCurrentDHPubKey: nil"
      | some t => .ok (.ok (), { s with conv := { s.conv with
          ake := some { a with keys := { a.keys with theirCur := some t } } } }) := by
  unfold akeSetTheirCurrent
  cases ht : a.theirPublicValue <;> simp [getAke, ha, ht, optNat, modAke]

theorem akeSetOurCurrent_run (s : MState) (a : Ake) (ha : s.conv.ake = some a) :
    runM akeSetOurCurrent s =
      match a.ourPublicValue with
      | none => .panic "setOurCurrentDHKeys: nil pub"
      | some pub => .ok (.ok (), { s with conv := { s.conv with
          ake := some { a with keys := { a.keys with ourCur := some ⟨pub, a.secretExponent.getD []⟩ } } } }) := by
  unfold akeSetOurCurrent
  cases ht : a.ourPublicValue <;> simp [getAke, ha, ht, optNat, modAke]

theorem generateNewDHKeyPair_their (K : Crypto) (k : Keys) (r : Option Bytes) :
    (k.generateNewDHKeyPair K r).1.theirCur = k.theirCur ∧
    (k.generateNewDHKeyPair K r).1.theirKeyID = k.theirKeyID ∧
    (k.generateNewDHKeyPair K r).1.theirPrev = k.theirPrev := by
  unfold Keys.generateNewDHKeyPair
  cases r <;> exact ⟨rfl, rfl, rfl⟩

/-- a `tryCatch` whose handler repairs the conversation and rethrows: the value is the body's; on a throw the
    final state is the body's final state with the repair applied -/
theorem tryCatch_restore_cases {α} {x : M α} {f : Conv → Conv} {s s' : MState} {r : Except Err α}
    (h : runM (tryCatch x (fun e => do modc f; throw e)) s = .ok (r, s')) :
    (∃ v, r = .ok v ∧ runM x s = .ok (.ok v, s')) ∨
    (∃ er s1, r = .error er ∧ runM x s = .ok (.error er, s1) ∧ s' = { s1 with conv := f s1.conv }) := by
  rw [runM_tryCatch] at h
  cases hx : runM x s with
  | panic p => rw [hx] at h; cases h
  | ok v =>
    obtain ⟨v, s2⟩ := v
    rw [hx] at h
    cases v with
    | ok u =>
      simp only [catchM_ok, Res.ok.injEq, Prod.mk.injEq] at h
      left; exact ⟨u, h.1.symm, by rw [h.2]⟩
    | error er =>
      simp only [catchM_error, runM_bind, runM_modc, bindM_ok, runM_throw, Res.ok.injEq, Prod.mk.injEq] at h
      right; exact ⟨er, s2, h.1.symm, rfl, h.2.symm⟩

theorem akeTry_ok_inv {onErr st : AuthState} {x : M (AuthState × Option Bytes × Option Err)} {s s' : MState}
    {om : Option Bytes} {e : Option Err} (hne : onErr ≠ st)
    (h : runM (akeTry onErr x) s = .ok (.ok (st, om, e), s')) : runM x s = .ok (.ok (st, om, e), s') := by
  unfold akeTry at h
  rw [runM_tryCatch] at h
  cases hx : runM x s with
  | panic p => rw [hx] at h; cases h
  | ok v =>
    obtain ⟨v, s2⟩ := v
    rw [hx] at h
    cases v with
    | ok u => simpa using h
    | error er =>
      simp only [catchM_error, runM_pure, Res.ok.injEq, Prod.mk.injEq, Except.ok.injEq] at h
      exact absurd h.1.1 hne

/-- the AKE context with which a responder reaches `akeHasFinished` -/
def respAke (K : Crypto) (a : Ake) (gx : Nat) (keyID ours : Nat) : Ake :=
  { revealAke K a gx with
    sentRevealSig := false
    keys := { a.keys with theirKeyID := keyID, ourKeyID := a.keys.ourKeyID + 1, theirCur := some gx,
                          ourCur := some ⟨ours, a.secretExponent.getD []⟩ } }

/-- C01/5, responder: a `recvRevealSig` step from `awaitingRevealSig` that returns the state `none` (the only
    way it reaches `akeHasFinished`) has checked everything of `c01_guard_responder`, and installs exactly the
    verified values: `theirKey` is the key whose signature was verified in this step, `keys.theirCur` the
    opened, in-range `gx`, `keys.theirKeyID` the signed key id, and `ssid` the session id derived from
    `gx ^ secretExponent` (also on a refresh: the pending `ake.ssid` that is committed is that same value) -/
theorem c01_finish_responder (K : Crypto) (msg : Bytes) (s s' : MState) (a : Ake) (ha : s.conv.ake = some a)
    (om : Option Bytes) (e : Option Err)
    (h : runM (recvRevealSig K .awaitingRevealSig msg) s = .ok (.ok (.none, om, e), s')) :
    ∃ m gxBytes gx pk keyID ours,
      RevealSig.deserialize msg = some m ∧
      K.ctr m.r zeroIV a.encryptedGx = some gxBytes ∧
      K.hash2 gxBytes = a.xhashedGx ∧
      extractMPI gxBytes = some (gx, []) ∧
      2 ≤ gx ∧ gx ≤ dhP - 2 ∧
      a.ourPublicValue = some ours ∧
      EncSigOK K m.encryptedSig m.macSig (revealKeysFor K a gx) gx ours pk keyID ∧
      s'.conv.msgState = .encrypted ∧
      s'.conv.theirKey = some pk ∧
      s'.conv.keys.theirCur = some gx ∧
      s'.conv.keys.theirKeyID = keyID ∧
      s'.conv.keys.theirPrev = a.keys.theirPrev ∧
      s'.conv.ssid = (K.hash2 (0x00 :: appendMPI [] (K.gexp gx (bytesToNat (a.secretExponent.getD []))))).take 8 ∧
      s'.conv.sentRevealSig = false ∧
      s'.conv.ake = some (respAke K a gx keyID ours).wiped ∧
      s'.events = s.events ++ [if s.conv.msgState = .encrypted then "sec:2" else "sec:1"] := by
  unfold recvRevealSig at h
  simp only at h
  have hx := akeTry_ok_inv (by decide) h
  clear h
  rw [runM_bind, runM_getc, bindM_ok] at hx
  rw [runM_bind] at hx
  obtain ⟨u, s1, h1, hx⟩ := bindM_ok_inv hx
  obtain ⟨m, gxBytes, gx, pk, keyID, ours, hd, hc, hh, hmpi, hg, hge1, hge2, ho, hok, hs1⟩ :=
    c01_guard_responder K msg s s1 a ha h1
  subst hs1
  rw [runM_bind] at hx
  obtain ⟨b3, s3, h23, hx⟩ := bindM_ok_inv hx
  have h23' : runM (do let m ← sigMessage K; wrapMessageHeader msgTypeSig m) (revealDone K s a gx pk keyID) =
      .ok (.ok b3, s3) := by
    rcases tryCatch_restore_cases h23 with ⟨_, hb, h⟩ | ⟨_, _, hb, -, -⟩
    · cases hb; exact h
    · cases hb
  clear h23
  rw [runM_bind] at h23'
  obtain ⟨b2, s2, h2, h3⟩ := bindM_ok_inv h23'
  obtain ⟨hc2, he2⟩ := sigMessage_conv K _ _ rfl _ _ h2
  obtain ⟨tg, hc3, he3⟩ := wrapMessageHeader_conv _ _ _ _ _ h3
  rw [hc2] at hc3
  rw [he2] at he3
  rw [runM_bind, akeSetTheirCurrent_run s3 _ (by rw [hc3])] at hx
  simp only [revealAke, bindM_ok] at hx
  rw [runM_bind, akeSetOurCurrent_run _ _ rfl] at hx
  simp only [ho, bindM_ok, runM_bind, runM_modc, modAke, Option.map] at hx
  obtain ⟨e5, s5, h5, hx⟩ := bindM_ok_inv hx
  generalize hs6 : MState.mk _ s3.env s3.events s3.mismatch = s6 at h5
  have ha6 : s6.conv.ake = some (respAke K a gx keyID ours) := by
    subst hs6; simp only [respAke, revealAke, ho]
  have hm6 : s6.conv.msgState = s.conv.msgState := by subst hs6; show s3.conv.msgState = _; rw [hc3]; rfl
  have htk6 : s6.conv.theirKey = some pk := by subst hs6; show s3.conv.theirKey = _; rw [hc3]; rfl
  have hss6 : s6.conv.ssid = if s.conv.msgState = .encrypted then s.conv.ssid else ssidFor K a gx := by
    subst hs6; show s3.conv.ssid = _; rw [hc3]; rfl
  have hrs6 : s6.conv.sentRevealSig = false := by subst hs6; rfl
  have hev6 : s6.events = s.events := by subst hs6; show s3.events = _; rw [he3]; rfl
  obtain ⟨rr, env', mm', -, hfin⟩ := akeHasFinished_run K s6 _ ha6
  rw [hfin] at h5
  simp only [runM_pure, Res.ok.injEq, Prod.mk.injEq] at hx h5
  obtain ⟨-, rfl⟩ := hx
  obtain ⟨-, rfl⟩ := h5
  have hk := generateNewDHKeyPair_their K
    { (respAke K a gx keyID ours).keys with oldMACKeys := (respAke K a gx keyID ours).keys.oldMACKeys ++
        (s6.conv.keys.oldMACKeys ++ s6.conv.keys.macHistory.map (fun u : MacUse => u.key)) } rr
  refine ⟨m, gxBytes, gx, pk, keyID, ours, hd, hc, hh, hmpi, hge1, hge2, ho, hok, rfl, htk6, hk.1, hk.2.1, hk.2.2,
    ?_, ?_, rfl, ?_⟩
  · show (if s6.conv.msgState = .encrypted then (respAke K a gx keyID ours).ssid else s6.conv.ssid) = _
    rw [hm6, hss6, ← ssidFor_eq]
    by_cases hme : s.conv.msgState = .encrypted
    · rw [if_pos hme]; rfl
    · rw [if_neg hme, if_neg hme]
  · show (if s6.conv.msgState = .encrypted then (respAke K a gx keyID ours).sentRevealSig
        else s6.conv.sentRevealSig) = _
    rw [hrs6]; split <;> rfl
  · show s6.events ++ _ = _
    rw [hev6, hm6]

/-- the AKE context with which an initiator reaches `akeHasFinished` -/
def initAkeDone (a : Ake) (theirs keyID : Nat) : Ake :=
  { a with keys := { a.keys with theirKeyID := keyID, theirCur := some theirs } }

/-- C01/5, initiator: a `recvSig` step from `awaitingSig` that returns the state `none` (the only way it reaches
    `akeHasFinished`) has checked everything of `c01_guard_initiator`, and installs exactly the verified values:
    `theirKey` is the key whose signature was verified in this step under the stored `ake.sigKey`, `keys.theirCur`
    is the stored `ake.theirPublicValue` that the signature covers, `keys.theirKeyID` the signed key id.
    The session id is not computed in this step: `conv.ssid` keeps the value written by `calcAKEKeys` when the
    DH-Key message was processed, or — on a refresh — the pending `ake.ssid` is committed. -/
theorem c01_finish_initiator (K : Crypto) (msg rs : Bytes) (s s' : MState) (a : Ake) (ha : s.conv.ake = some a)
    (om : Option Bytes) (e : Option Err)
    (h : runM (recvSig K (.awaitingSig rs) msg) s = .ok (.ok (.none, om, e), s')) :
    ∃ m pk keyID theirs ours,
      Sig.deserialize msg = some m ∧ a.theirPublicValue = some theirs ∧ a.ourPublicValue = some ours ∧
      EncSigOK K m.encryptedSig m.macSig a.sigKey theirs ours pk keyID ∧
      s'.conv.msgState = .encrypted ∧
      s'.conv.theirKey = some pk ∧
      s'.conv.keys.theirCur = some theirs ∧
      s'.conv.keys.theirKeyID = keyID ∧
      s'.conv.keys.theirPrev = a.keys.theirPrev ∧
      s'.conv.ssid = (if s.conv.msgState = .encrypted then a.ssid else s.conv.ssid) ∧
      s'.conv.sentRevealSig = (if s.conv.msgState = .encrypted then a.sentRevealSig else s.conv.sentRevealSig) ∧
      s'.conv.ake = some (initAkeDone a theirs keyID).wiped ∧
      s'.events = s.events ++ [if s.conv.msgState = .encrypted then "sec:2" else "sec:1"] := by
  unfold recvSig at h
  simp only at h
  have hx := akeTry_ok_inv (by simp) h
  clear h
  rw [runM_bind] at hx
  obtain ⟨u, s1, h1, hx⟩ := bindM_ok_inv hx
  obtain ⟨m, pk, keyID, theirs, ours, hd, ht, ho, hok, hs1⟩ := c01_guard_initiator K msg s s1 a ha h1
  subst hs1
  rw [runM_bind, akeSetTheirCurrent_run _ _ rfl] at hx
  simp only [ht, bindM_ok, runM_bind] at hx
  obtain ⟨e5, s5, h5, hx⟩ := bindM_ok_inv hx
  generalize hs6 : MState.mk _ _ _ _ = s6 at h5
  have ha6 : s6.conv.ake = some (initAkeDone a theirs keyID) := by
    subst hs6; simp only [initAkeDone, ht]
  have hm6 : s6.conv.msgState = s.conv.msgState := by subst hs6; rfl
  have htk6 : s6.conv.theirKey = some pk := by subst hs6; rfl
  have hss6 : s6.conv.ssid = s.conv.ssid := by subst hs6; rfl
  have hrs6 : s6.conv.sentRevealSig = s.conv.sentRevealSig := by subst hs6; rfl
  have hev6 : s6.events = s.events := by subst hs6; rfl
  obtain ⟨rr, env', mm', -, hfin⟩ := akeHasFinished_run K s6 _ ha6
  rw [hfin] at h5
  simp only [runM_pure, Res.ok.injEq, Prod.mk.injEq] at hx h5
  obtain ⟨-, rfl⟩ := hx
  obtain ⟨-, rfl⟩ := h5
  have hk := generateNewDHKeyPair_their K
    { (initAkeDone a theirs keyID).keys with oldMACKeys := (initAkeDone a theirs keyID).keys.oldMACKeys ++
        (s6.conv.keys.oldMACKeys ++ s6.conv.keys.macHistory.map (fun u : MacUse => u.key)) } rr
  refine ⟨m, pk, keyID, theirs, ours, hd, ht, ho, hok, rfl, htk6, hk.1, hk.2.1, hk.2.2, ?_, ?_, rfl, ?_⟩
  · show (if s6.conv.msgState = .encrypted then (initAkeDone a theirs keyID).ssid else s6.conv.ssid) = _
    rw [hm6, hss6]; rfl
  · show (if s6.conv.msgState = .encrypted then (initAkeDone a theirs keyID).sentRevealSig
        else s6.conv.sentRevealSig) = _
    rw [hm6, hrs6]; rfl
  · show s6.events ++ _ = _
    rw [hev6, hm6]

/-- what `processAKE` does after `recvRevealSig` / `recvSig`, called in the authentication state `st`, returned
    the triple `x` -/
def akeTail (K : Crypto) (st : AuthState) (x : AuthState × Option Bytes × Option Err) :
    M (List Bytes × Option Err) := do
  modAke fun a => { a with state := x.1 }
  let extra ← retransmitAfterCompletedExchange K st x.1 x.2.2
  akeStamp st x.2.1 x.2.2
  return ((match x.2.1 with | some m => [m] | none => []) ++ extra, x.2.2)

theorem akeTail_quiet (K : Crypto) (st : AuthState) (x : AuthState × Option Bytes × Option Err) :
    Stable QuietFrame (akeTail K st x) := by
  unfold akeTail modAke
  stable [retransmitAfterCompletedExchange_quiet, (akeStamp_base _ _ _).base_strict.strict_quiet]

theorem akeRest_revealSig (K : Crypto) (msg : Bytes) (st : AuthState) (s : MState) :
    runM (akeRest K msgTypeRevealSig msg st) s =
      bindM (runM (recvRevealSig K st msg) s) (fun x s1 => runM (akeTail K st x) s1) := by
  unfold akeRest akeDispatch akeTail
  simp only [if_neg (by decide : msgTypeRevealSig ≠ msgTypeDHCommit),
    if_neg (by decide : msgTypeRevealSig ≠ msgTypeDHKey), if_pos, runM_bind, bindM_assoc, runM_pure, bindM_ok, runM_ite, bindM_ite]

theorem akeRest_sig (K : Crypto) (msg : Bytes) (st : AuthState) (s : MState) :
    runM (akeRest K msgTypeSig msg st) s =
      bindM (runM (recvSig K st msg) s) (fun x s1 => runM (akeTail K st x) s1) := by
  unfold akeRest akeDispatch akeTail
  simp only [if_neg (by decide : msgTypeSig ≠ msgTypeDHCommit),
    if_neg (by decide : msgTypeSig ≠ msgTypeDHKey), if_neg (by decide : msgTypeSig ≠ msgTypeRevealSig),
    if_pos, runM_bind, bindM_assoc, runM_pure, bindM_ok, runM_ite, bindM_ite]

theorem bindM_error_inv {α β} {r : Out α} {f : α → MState → Out β} {er : Err} {s' : MState}
    (h : bindM r f = .ok (.error er, s')) :
    r = .ok (.error er, s') ∨ ∃ a s1, r = .ok (.ok a, s1) ∧ f a s1 = .ok (.error er, s') := by
  cases r with
  | panic p => cases h
  | ok v =>
    obtain ⟨v, s1⟩ := v
    cases v with
    | error e =>
      simp only [bindM_error, Res.ok.injEq, Prod.mk.injEq, Except.error.injEq] at h
      left; rw [h.1, h.2]
    | ok a => exact Or.inr ⟨a, s1, rfl, h⟩

theorem akeTry_cases {onErr : AuthState} {x : M (AuthState × Option Bytes × Option Err)} {s s' : MState}
    {r : Except Err (AuthState × Option Bytes × Option Err)}
    (h : runM (akeTry onErr x) s = .ok (r, s')) :
    (∃ u, r = .ok u ∧ runM x s = .ok (.ok u, s')) ∨
    (∃ er, r = .ok (onErr, none, some er) ∧ runM x s = .ok (.error er, s')) := by
  unfold akeTry at h
  rw [runM_tryCatch] at h
  cases hx : runM x s with
  | panic p => rw [hx] at h; cases h
  | ok v =>
    obtain ⟨v, s2⟩ := v
    rw [hx] at h
    cases v with
    | ok u =>
      simp only [catchM_ok, Res.ok.injEq, Prod.mk.injEq] at h
      left; exact ⟨u, h.1.symm, by rw [h.2]⟩
    | error er =>
      simp only [catchM_error, runM_pure, Res.ok.injEq, Prod.mk.injEq] at h
      right; exact ⟨er, h.1.symm, by rw [h.2]⟩

theorem akeHasFinished_no_throw (K : Crypto) (s s' : MState) (er : Err)
    (h : runM (akeHasFinished K) s = .ok (.error er, s')) : False := by
  cases ha : s.conv.ake with
  | none => rw [akeHasFinished_none K s ha] at h; cases h
  | some a =>
    obtain ⟨r0, env', mm', -, h'⟩ := akeHasFinished_run K s a ha
    rw [h'] at h
    simp only [Res.ok.injEq, Prod.mk.injEq, reduceCtorEq, false_and] at h

/-- every outcome of `recvSig` in `awaitingSig`: it finished (returned state `none`), or `processSig` rejected the
    message and the state is exactly what it was -/
theorem recvSig_awaiting_cases (K : Crypto) (msg rs : Bytes) (s s1 : MState) (a : Ake) (ha : s.conv.ake = some a)
    (r : Except Err (AuthState × Option Bytes × Option Err))
    (h : runM (recvSig K (.awaitingSig rs) msg) s = .ok (r, s1)) :
    (∃ om e, r = .ok (.none, om, e)) ∨ (∃ er, r = .ok (.awaitingSig rs, none, some er) ∧ s1 = s) := by
  unfold recvSig at h
  simp only at h
  rcases akeTry_cases h with ⟨u, hr, hx⟩ | ⟨er, hr, hx⟩
  · left
    rw [runM_bind] at hx
    obtain ⟨_, s2, -, hx⟩ := bindM_ok_inv hx
    rw [runM_bind] at hx
    obtain ⟨_, s3, -, hx⟩ := bindM_ok_inv hx
    rw [runM_bind] at hx
    obtain ⟨e5, s4, -, hx⟩ := bindM_ok_inv hx
    simp only [runM_pure, Res.ok.injEq, Prod.mk.injEq, Except.ok.injEq] at hx
    exact ⟨none, e5, by rw [hr, ← hx.1]⟩
  · right
    refine ⟨er, hr, ?_⟩
    rw [runM_bind] at hx
    rcases bindM_error_inv hx with h1 | ⟨u, s2, h1, hx⟩
    · exact c01_guard_initiator_throw K msg s s1 a ha er h1
    · exfalso
      obtain ⟨m, pk, keyID, theirs, ours, -, ht, -, -, hs2⟩ := c01_guard_initiator K msg s s2 a ha h1
      subst hs2
      rw [runM_bind, akeSetTheirCurrent_run _ _ rfl] at hx
      simp only [ht, bindM_ok, runM_bind] at hx
      rcases bindM_error_inv hx with h2 | ⟨e5, s3, -, hx⟩
      · exact akeHasFinished_no_throw K _ _ _ h2
      · simp only [runM_pure, Res.ok.injEq, Prod.mk.injEq, reduceCtorEq, false_and] at hx

theorem quietKept_encrypted {s1 s' : MState} (h : quietKept s' = quietKept s1)
    (he : s1.conv.msgState = .encrypted) :
    s'.conv.msgState = .encrypted ∧ s'.conv.theirKey = s1.conv.theirKey ∧
    s'.conv.keys.theirCur = s1.conv.keys.theirCur ∧ s'.conv.keys.theirKeyID = s1.conv.keys.theirKeyID ∧
    s'.conv.keys.theirPrev = s1.conv.keys.theirPrev ∧ s'.conv.ssid = s1.conv.ssid ∧
    s'.conv.sentRevealSig = s1.conv.sentRevealSig := by
  unfold quietKept Keys.material at h
  simp only [Prod.mk.injEq] at h
  obtain ⟨hm, htk, ⟨-, h2, -, -, h5, h6⟩, hss, -⟩ := h
  have hm' : s'.conv.msgState = .encrypted := by rw [hm]; exact he
  rw [if_pos hm', if_pos he] at hss
  have hp := Prod.mk.inj (Option.some.inj hss)
  exact ⟨hm', htk, h5, h2, h6, hp.1, hp.2⟩

/-- C01, initiator side, at the level of `processAKE`: a Signature message received in `awaitingSig` either
    passes every check and installs exactly the verified values, or is rejected without any security-relevant
    change (the quiet frame holds) -/
theorem c01_processAKE_sig (K : Crypto) (msg rs : Bytes) (s s' : MState) (a : Ake) (ha : s.conv.ake = some a)
    (hst : a.state = .awaitingSig rs) (r : Except Err (List Bytes × Option Err))
    (h : runM (processAKE K msgTypeSig msg) s = .ok (r, s')) :
    (∃ m pk keyID theirs ours,
      Sig.deserialize msg = some m ∧ a.theirPublicValue = some theirs ∧ a.ourPublicValue = some ours ∧
      EncSigOK K m.encryptedSig m.macSig a.sigKey theirs ours pk keyID ∧
      s'.conv.msgState = .encrypted ∧ s'.conv.theirKey = some pk ∧
      s'.conv.keys.theirCur = some theirs ∧ s'.conv.keys.theirKeyID = keyID ∧
      s'.conv.ssid = (if s.conv.msgState = .encrypted then a.ssid else s.conv.ssid) ∧
      s'.conv.sentRevealSig = (if s.conv.msgState = .encrypted then a.sentRevealSig else s.conv.sentRevealSig)) ∨
    quietKept s' = quietKept s := by
  rw [processAKE_run_some K _ msg s a ha, hst, akeRest_sig] at h
  cases hx : runM (recvSig K (.awaitingSig rs) msg) s with
  | panic p => rw [hx] at h; cases h
  | ok v =>
    obtain ⟨v, s1⟩ := v
    rw [hx] at h
    rcases recvSig_awaiting_cases K msg rs s s1 a ha v hx with ⟨om, e, hv⟩ | ⟨er, hv, hs1⟩
    · left
      subst hv
      simp only [bindM_ok] at h
      have hq := akeTail_quiet K _ _ _ _ _ h
      obtain ⟨m, pk, keyID, theirs, ours, hd, ht, ho, hok, hme, htk, htc, hid, -, hss, hrs, -, -⟩ :=
        c01_finish_initiator K msg rs s s1 a ha om e hx
      obtain ⟨q1, q2, q3, q4, -, q6, q7⟩ := quietKept_encrypted hq hme
      exact ⟨m, pk, keyID, theirs, ours, hd, ht, ho, hok, q1, by rw [q2, htk], by rw [q3, htc], by rw [q4, hid],
        by rw [q6, hss], by rw [q7, hrs]⟩
    · right
      subst hv hs1
      simp only [bindM_ok] at h
      exact akeTail_quiet K _ _ _ _ _ h

/-- all the checks a Reveal-Signature message passes before the peer's key `pk` is accepted (C01/3) -/
def RespGuards (K : Crypto) (msg : Bytes) (a : Ake) (gx : Nat) (pk : DsaPub) (keyID : Nat) : Prop :=
  ∃ m gxBytes ours,
    RevealSig.deserialize msg = some m ∧
    K.ctr m.r zeroIV a.encryptedGx = some gxBytes ∧
    K.hash2 gxBytes = a.xhashedGx ∧
    extractMPI gxBytes = some (gx, []) ∧
    2 ≤ gx ∧ gx ≤ dhP - 2 ∧
    a.ourPublicValue = some ours ∧
    EncSigOK K m.encryptedSig m.macSig (revealKeysFor K a gx) gx ours pk keyID

/-- every outcome of `recvRevealSig` in `awaitingRevealSig`: it finished (returned state `none`), or it failed
    and then: no event, `msgState`, the key context and the role flag `sentRevealSig` unchanged, the session id
    of an encrypted conversation unchanged; and (repaired code) `theirKey` is unchanged — also when the message
    itself was accepted but building the Signature reply failed (signing oracle / header) -/
theorem recvRevealSig_awaiting_cases (K : Crypto) (msg : Bytes) (s s1 : MState) (a : Ake) (ha : s.conv.ake = some a)
    (r : Except Err (AuthState × Option Bytes × Option Err))
    (h : runM (recvRevealSig K .awaitingRevealSig msg) s = .ok (r, s1)) :
    (∃ om e, r = .ok (.none, om, e)) ∨
    (∃ er, r = .ok (.awaitingRevealSig, none, some er) ∧
      s1.events = s.events ∧ s1.conv.msgState = s.conv.msgState ∧ s1.conv.keys = s.conv.keys ∧
      (s.conv.msgState = .encrypted → s1.conv.ssid = s.conv.ssid) ∧
      s1.conv.sentRevealSig = s.conv.sentRevealSig ∧
      s1.conv.theirKey = s.conv.theirKey) := by
  unfold recvRevealSig at h
  simp only at h
  rcases akeTry_cases h with ⟨u, hr, hx⟩ | ⟨er, hr, hx⟩
  · left
    rw [runM_bind, runM_getc, bindM_ok] at hx
    rw [runM_bind] at hx
    obtain ⟨_, s2, -, hx⟩ := bindM_ok_inv hx
    rw [runM_bind] at hx
    obtain ⟨b3, s4, -, hx⟩ := bindM_ok_inv hx
    rw [runM_bind] at hx
    obtain ⟨_, s5, -, hx⟩ := bindM_ok_inv hx
    rw [runM_bind] at hx
    obtain ⟨_, s6, -, hx⟩ := bindM_ok_inv hx
    rw [runM_bind] at hx
    obtain ⟨_, s7, -, hx⟩ := bindM_ok_inv hx
    rw [runM_bind] at hx
    obtain ⟨_, s7', -, hx⟩ := bindM_ok_inv hx
    rw [runM_bind] at hx
    obtain ⟨e5, s8, -, hx⟩ := bindM_ok_inv hx
    simp only [runM_pure, Res.ok.injEq, Prod.mk.injEq, Except.ok.injEq] at hx
    exact ⟨some b3, e5, by rw [hr, ← hx.1]⟩
  · right
    refine ⟨er, hr, ?_⟩
    rw [runM_bind, runM_getc, bindM_ok] at hx
    rw [runM_bind] at hx
    rcases bindM_error_inv hx with h1 | ⟨u, s2, h1, hx⟩
    · obtain ⟨heq, hss⟩ := c01_guard_responder_throw K msg s s1 a ha er h1
      exact ⟨congrArg (·.events) heq, congrArg (·.conv.msgState) heq, congrArg (·.conv.keys) heq, hss,
        congrArg (·.conv.sentRevealSig) heq, congrArg (·.conv.theirKey) heq⟩
    · obtain ⟨m, gxBytes, gx, pk, keyID, ours, hd, hc, hh, hmpi, hg, hge1, hge2, ho, hok, hs2⟩ :=
        c01_guard_responder K msg s s2 a ha h1
      subst hs2
      have hssid : s.conv.msgState = .encrypted → (revealDone K s a gx pk keyID).conv.ssid = s.conv.ssid := by
        intro he
        show (if s.conv.msgState = .encrypted then _ else _) = _
        rw [if_pos he]
      rw [runM_bind] at hx
      rcases bindM_error_inv hx with h23 | ⟨b3, s4, h23, hx⟩
      · rcases tryCatch_restore_cases h23 with ⟨_, hb, -⟩ | ⟨er', s3, -, h23', hs1⟩
        · cases hb
        · subst hs1
          rw [runM_bind] at h23'
          rcases bindM_error_inv h23' with h2 | ⟨b2, s3', h2, h3⟩
          · obtain ⟨hc2, he2⟩ := sigMessage_conv K _ _ rfl _ _ h2
            refine ⟨he2, ?_, ?_, fun he => ?_, ?_, rfl⟩
            · show s3.conv.msgState = _; rw [hc2]; rfl
            · show s3.conv.keys = _; rw [hc2]; rfl
            · show s3.conv.ssid = _; rw [hc2]; exact hssid he
            · show s3.conv.sentRevealSig = _; rw [hc2]; rfl
          · obtain ⟨hc2, he2⟩ := sigMessage_conv K _ _ rfl _ _ h2
            obtain ⟨tg, hc3, he3⟩ := wrapMessageHeader_conv _ _ _ _ _ h3
            rw [hc2] at hc3
            rw [he2] at he3
            refine ⟨he3, ?_, ?_, fun he => ?_, ?_, rfl⟩
            · show s3.conv.msgState = _; rw [hc3]; rfl
            · show s3.conv.keys = _; rw [hc3]; rfl
            · show s3.conv.ssid = _; rw [hc3]; exact hssid he
            · show s3.conv.sentRevealSig = _; rw [hc3]; rfl
      · exfalso
        have h23' : runM (do let m ← sigMessage K; wrapMessageHeader msgTypeSig m) (revealDone K s a gx pk keyID) =
            .ok (.ok b3, s4) := by
          rcases tryCatch_restore_cases h23 with ⟨_, hb, h⟩ | ⟨_, _, hb, -, -⟩
          · cases hb; exact h
          · cases hb
        clear h23
        rw [runM_bind] at h23'
        obtain ⟨b2, s3, h2, h3⟩ := bindM_ok_inv h23'
        obtain ⟨hc2, he2⟩ := sigMessage_conv K _ _ rfl _ _ h2
        obtain ⟨tg, hc3, he3⟩ := wrapMessageHeader_conv _ _ _ _ _ h3
        rw [hc2] at hc3
        rw [runM_bind, akeSetTheirCurrent_run s4 _ (by rw [hc3])] at hx
        simp only [revealAke, bindM_ok] at hx
        rw [runM_bind, akeSetOurCurrent_run _ _ rfl] at hx
        simp only [ho, bindM_ok, runM_bind, runM_modc, modAke, Option.map] at hx
        rcases bindM_error_inv hx with h4 | ⟨e5, s5, -, hx⟩
        · exact akeHasFinished_no_throw K _ _ _ h4
        · simp only [runM_pure, Res.ok.injEq, Prod.mk.injEq, reduceCtorEq, false_and] at hx

/-- C01, responder side, at the level of `processAKE`: a Reveal-Signature message received in
    `awaitingRevealSig` either passes every check and installs exactly the verified values, or the step fails
    without touching `msgState`, the key material, the session id and role flag of an encrypted conversation or
    emitting a security event; in the failing case (repaired code) `theirKey` is unchanged as well, also when
    the reply could not be built -/
theorem c01_processAKE_revealSig (K : Crypto) (msg : Bytes) (s s' : MState) (a : Ake) (ha : s.conv.ake = some a)
    (hst : a.state = .awaitingRevealSig) (r : Except Err (List Bytes × Option Err))
    (h : runM (processAKE K msgTypeRevealSig msg) s = .ok (r, s')) :
    (∃ gx pk keyID, RespGuards K msg a gx pk keyID ∧
      s'.conv.msgState = .encrypted ∧ s'.conv.theirKey = some pk ∧
      s'.conv.keys.theirCur = some gx ∧ s'.conv.keys.theirKeyID = keyID ∧
      s'.conv.ssid = (K.hash2 (0x00 :: appendMPI [] (K.gexp gx (bytesToNat (a.secretExponent.getD []))))).take 8 ∧
      s'.conv.sentRevealSig = false) ∨
    (s'.conv.msgState = s.conv.msgState ∧ s'.conv.keys.material = s.conv.keys.material ∧
      (s.conv.msgState = .encrypted → s'.conv.ssid = s.conv.ssid) ∧
      (s.conv.msgState = .encrypted → s'.conv.sentRevealSig = s.conv.sentRevealSig) ∧
      s'.events.filter isSecEvent = s.events.filter isSecEvent ∧
      s'.conv.theirKey = s.conv.theirKey) := by
  rw [processAKE_run_some K _ msg s a ha, hst, akeRest_revealSig] at h
  cases hx : runM (recvRevealSig K .awaitingRevealSig msg) s with
  | panic p => rw [hx] at h; cases h
  | ok v =>
    obtain ⟨v, s1⟩ := v
    rw [hx] at h
    rcases recvRevealSig_awaiting_cases K msg s s1 a ha v hx with ⟨om, e, hv⟩ | ⟨er, hv, hev, hms, hks, hss, hrs, htk⟩
    · left
      subst hv
      simp only [bindM_ok] at h
      have hq := akeTail_quiet K _ _ _ _ _ h
      obtain ⟨m, gxBytes, gx, pk, keyID, ours, hd, hc, hh, hmpi, hge1, hge2, ho, hok, hme, htk, htc, hid, -, hss,
        hrs, -, -⟩ := c01_finish_responder K msg s s1 a ha om e hx
      obtain ⟨q1, q2, q3, q4, -, q6, q7⟩ := quietKept_encrypted hq hme
      exact ⟨gx, pk, keyID, ⟨m, gxBytes, ours, hd, hc, hh, hmpi, hge1, hge2, ho, hok⟩, q1, by rw [q2, htk],
        by rw [q3, htc], by rw [q4, hid], by rw [q6, hss], by rw [q7, hrs]⟩
    · right
      subst hv
      simp only [bindM_ok] at h
      have hq : quietKept s' = quietKept s1 := akeTail_quiet K _ _ _ _ _ h
      unfold quietKept at hq
      simp only [Prod.mk.injEq] at hq
      obtain ⟨q1, q2, q3, q4, q5⟩ := hq
      have hpair : s.conv.msgState = .encrypted →
          s'.conv.ssid = s1.conv.ssid ∧ s'.conv.sentRevealSig = s1.conv.sentRevealSig := by
        intro he
        have he1 : s1.conv.msgState = .encrypted := by rw [hms]; exact he
        have he' : s'.conv.msgState = .encrypted := by rw [q1]; exact he1
        rw [if_pos he', if_pos he1] at q4
        exact Prod.mk.inj (Option.some.inj q4)
      refine ⟨by rw [q1, hms], by rw [q3, hks], fun he => ?_, fun he => ?_, by rw [q5, hev], by rw [q2, htk]⟩
      · rw [(hpair he).1, hss he]
      · rw [(hpair he).2, hrs]

/-- `revealSigMessage` (whatever it returns or throws): the AKE keys are computed from the stored DH value
    (`afterCalc`), `ake.keys.ourKeyID` is incremented, nothing else of the conversation changes; no event -/
theorem revealSigMessage_conv (K : Crypto) (s : MState) (a : Ake) (ha : s.conv.ake = some a) (theirs : Nat)
    (ht : a.theirPublicValue = some theirs) (r : Except Err Bytes) (s' : MState)
    (h : runM (revealSigMessage K) s = .ok (r, s')) :
    s'.conv = { (afterCalc K s a theirs).conv with
      ake := some { a with revealKey := revealKeysFor K a theirs, sigKey := sigKeysFor K a theirs,
                           ssid := ssidFor K a theirs,
                           keys := { a.keys with ourKeyID := a.keys.ourKeyID + 1 } } } ∧
    s'.events = s.events := by
  unfold revealSigMessage at h
  rw [runM_bind, calcAKEKeys_run K s a ha theirs ht, bindM_ok, runM_bind] at h
  simp only [modAke, runM_modc, bindM_ok, afterCalc, Option.map] at h
  have hst : Stable ConvFrame (do
      let a ← getAke
      let encSig ← generateEncryptedSignature K a.revealKey
      let macSig := K.mac2 a.revealKey.m2 encSig
      resToM (RevealSig.serialize ⟨a.r, encSig, macSig⟩)) := by
    stable [getAke_conv, generateEncryptedSignature_conv, resToM_conv]
  have := hst _ _ _ h
  simp only [Keeps, Prod.mk.injEq] at this
  exact this

/-- the AKE context an initiator holds after accepting a DH-Key message -/
def dhKeyAke (K : Crypto) (a : Ake) (gy ours : Nat) : Ake :=
  { a with theirPublicValue := some gy, revealKey := revealKeysFor K a gy, sigKey := sigKeysFor K a gy,
           ssid := ssidFor K a gy,
           sentRevealSig := true,
           keys := { a.keys with ourKeyID := a.keys.ourKeyID + 1, theirCur := some gy,
                                 ourCur := some ⟨ours, a.secretExponent.getD []⟩ } }

/-- C01/4–5, the initiator's DH-Key step: `recvDHKey` in `awaitingDHKey` that moves on to `awaitingSig` (with no
    DH value stored before) has parsed `gy`, checked `2 ≤ gy ≤ p − 2`, stored it, and derived from
    `gy ^ secretExponent` the signature keys and the session id that `recvSig` / `akeHasFinished` will use:
    `ake.sigKey`, `ake.ssid` (pending) and — unless the conversation is encrypted — `conv.ssid`.
    Likewise the role of this exchange is recorded as pending (`ake.sentRevealSig = true`) and written to
    `conv.sentRevealSig` only if the conversation is not encrypted (repaired code).
    `theirKey`, `msgState` and the key context are untouched. -/
theorem c01_dhkey_step (K : Crypto) (msg rsm : Bytes) (s s' : MState) (a : Ake) (ha : s.conv.ake = some a)
    (hnone : a.theirPublicValue = none) (om : Option Bytes) (e : Option Err)
    (h : runM (recvDHKey K .awaitingDHKey msg) s = .ok (.ok (.awaitingSig rsm, om, e), s')) :
    ∃ m ours, DhKey.deserialize msg = some m ∧ 2 ≤ m.gy ∧ m.gy ≤ dhP - 2 ∧ a.ourPublicValue = some ours ∧
      s'.conv.ake = some (dhKeyAke K a m.gy ours) ∧
      s'.conv.ssid = (if s.conv.msgState = .encrypted then s.conv.ssid else
        (K.hash2 (0x00 :: appendMPI [] (K.gexp m.gy (bytesToNat (a.secretExponent.getD []))))).take 8) ∧
      s'.conv.sentRevealSig = (if s.conv.msgState = .encrypted then s.conv.sentRevealSig else true) ∧
      s'.conv.theirKey = s.conv.theirKey ∧ s'.conv.keys = s.conv.keys ∧ s'.conv.msgState = s.conv.msgState ∧
      s'.events = s.events := by
  unfold recvDHKey at h
  simp only at h
  have hx := akeTry_ok_inv (by simp) h
  clear h
  rw [runM_bind] at hx
  obtain ⟨same, s1, h1, hx⟩ := bindM_ok_inv hx
  obtain ⟨m, hd, -, hge1, hge2, hn, -⟩ := c01_guard_dhkey msg s s1 a ha same h1
  obtain ⟨-, hs1⟩ := hn hnone
  subst hs1
  rw [runM_bind] at hx
  obtain ⟨b2, s2, h2, hx⟩ := bindM_ok_inv hx
  obtain ⟨hc2, he2⟩ := revealSigMessage_conv K _ _ rfl m.gy rfl _ _ h2
  rw [runM_bind] at hx
  obtain ⟨b3, s3, h3, hx⟩ := bindM_ok_inv hx
  obtain ⟨tg, hc3, he3⟩ := wrapMessageHeader_conv _ _ _ _ _ h3
  rw [hc2] at hc3
  rw [he2] at he3
  rw [runM_bind, akeSetTheirCurrent_run s3 _ (by rw [hc3])] at hx
  simp only [bindM_ok] at hx
  rw [runM_bind, akeSetOurCurrent_run _ _ rfl] at hx
  cases ho : a.ourPublicValue with
  | none => simp only [ho, bindM_panic] at hx; cases hx
  | some ours =>
    have hm3 : s3.conv.msgState = s.conv.msgState := by rw [hc3]; rfl
    by_cases he : s.conv.msgState = .encrypted
    · have hb : (s3.conv.msgState != .encrypted) = false := by rw [hm3, he]; rfl
      simp only [ho, bindM_ok, runM_bind, runM_modc, modAke, Option.map, hb, Bool.false_eq_true, ↓reduceIte,
        runM_pure, Res.ok.injEq, Prod.mk.injEq] at hx
      obtain ⟨-, rfl⟩ := hx
      refine ⟨m, ours, hd, hge1, hge2, rfl, ?_, ?_, ?_, ?_, ?_, ?_, ?_⟩
      · simp only [dhKeyAke, ho]
        rfl
      · show s3.conv.ssid = _
        rw [hc3, ← ssidFor_eq]; rfl
      · show s3.conv.sentRevealSig = _
        rw [if_pos he, hc3]; rfl
      · show s3.conv.theirKey = _
        rw [hc3]; rfl
      · show s3.conv.keys = _
        rw [hc3]; rfl
      · show s3.conv.msgState = _
        rw [hc3]; rfl
      · show s3.events = _
        rw [he3]; rfl
    · have hb : (s3.conv.msgState != .encrypted) = true := by
        rw [hm3]; cases hmm : s.conv.msgState <;> first | rfl | exact absurd hmm he
      simp only [ho, bindM_ok, runM_bind, runM_modc, modAke, Option.map, hb, ↓reduceIte,
        runM_pure, Res.ok.injEq, Prod.mk.injEq] at hx
      obtain ⟨-, rfl⟩ := hx
      refine ⟨m, ours, hd, hge1, hge2, rfl, ?_, ?_, ?_, ?_, ?_, ?_, ?_⟩
      · simp only [dhKeyAke, ho]
        rfl
      · show s3.conv.ssid = _
        rw [hc3, ← ssidFor_eq]; rfl
      · rw [if_neg he]
      · show s3.conv.theirKey = _
        rw [hc3]; rfl
      · show s3.conv.keys = _
        rw [hc3]; rfl
      · show s3.conv.msgState = _
        rw [hc3]; rfl
      · show s3.events = _
        rw [he3]; rfl

/-- nothing queued for retransmission -/
def retransmitIdle (c : Conv) : Prop := c.resendMsgs = [] ∨ c.mayRetransmit = .no

/-- repaired code: after a Reveal-Signature / Signature message that was ignored (the authentication state
    `st` did not fit, so the step returned `(st, none, none)`) nothing is retransmitted, whatever is queued:
    the whole key context is unchanged -/
theorem akeTail_ignored_strict (K : Crypto) (st : AuthState) (s : MState)
    (r : Except Err (List Bytes × Option Err)) (s' : MState)
    (h : runM (akeTail K st (st, none, none)) s = .ok (r, s')) : strictKept s' = strictKept s := by
  have hst : Stable StrictFrame (akeTail K st (st, none, none)) := by
    unfold akeTail modAke
    simp only [retransmitAfterCompletedExchange_same]
    stable [(akeStamp_base _ _ _).base_strict]
  exact hst _ _ _ h

/-- C01/1 (frame, strict, also for Reveal-Signature / Signature messages; repaired code): outside the two
    finishing combinations the whole key context is unchanged — an ignored Reveal-Signature or Signature message
    no longer triggers a retransmission, whatever is queued -/
theorem processAKE_strict_nonfinishing (K : Crypto) (t : Nat) (msg : Bytes) (s : MState)
    (r : Except Err (List Bytes × Option Err)) (s' : MState)
    (h : runM (processAKE K t msg) s = .ok (r, s'))
    (hc : ¬ finishingCombination t (authStateOf s.conv)) :
    strictKept s' = strictKept s := by
  by_cases h3 : t = msgTypeRevealSig
  · subst h3
    cases ha : s.conv.ake with
    | none =>
      rw [processAKE_run_none K _ msg s ha, akeRest_revealSig,
        recvRevealSig_other K .none msg (by simp), runM_pure, bindM_ok] at h
      have h0 := akeTail_ignored_strict K _ _ _ _ h
      exact h0
    | some a =>
      rw [authStateOf_some ha] at hc
      rw [processAKE_run_some K _ msg s a ha, akeRest_revealSig,
        recvRevealSig_other K a.state msg (fun hs => hc (Or.inl ⟨rfl, hs⟩)), runM_pure, bindM_ok] at h
      exact akeTail_ignored_strict K _ _ _ _ h
  · by_cases h4 : t = msgTypeSig
    · subst h4
      cases ha : s.conv.ake with
      | none =>
        rw [processAKE_run_none K _ msg s ha, akeRest_sig,
          recvSig_other K .none msg (by simp), runM_pure, bindM_ok] at h
        have h0 := akeTail_ignored_strict K _ _ _ _ h
        exact h0
      | some a =>
        rw [authStateOf_some ha] at hc
        rw [processAKE_run_some K _ msg s a ha, akeRest_sig,
          recvSig_other K a.state msg (fun rs hs => hc (Or.inr ⟨rfl, rs, hs⟩)), runM_pure, bindM_ok] at h
        exact akeTail_ignored_strict K _ _ _ _ h
    · exact processAKE_strict K t msg s r s' h h3 h4

/-- the earlier form, with the (now superfluous) hypothesis that nothing is queued for retransmission -/
theorem processAKE_strict_idle (K : Crypto) (t : Nat) (msg : Bytes) (s : MState)
    (r : Except Err (List Bytes × Option Err)) (s' : MState)
    (h : runM (processAKE K t msg) s = .ok (r, s'))
    (hc : ¬ finishingCombination t (authStateOf s.conv)) (_hi : retransmitIdle s.conv) :
    strictKept s' = strictKept s :=
  processAKE_strict_nonfinishing K t msg s r s' h hc

/-- C01/1 with the whole key context (repaired code): as `c01_paths`, for any change of `conv.keys` — counters
    and MAC-key bookkeeping included, whatever is queued for retransmission: only the two finishing
    combinations change the key context (an ignored message no longer triggers a retransmission) -/
theorem c01_paths_keys_any (K : Crypto) (t : Nat) (msg : Bytes) (s : MState)
    (r : Except Err (List Bytes × Option Err)) (s' : MState)
    (h : runM (processAKE K t msg) s = .ok (r, s'))
    (hchg : s'.conv.keys ≠ s.conv.keys) :
    (t = msgTypeRevealSig ∧ ∃ a, s.conv.ake = some a ∧ a.state = .awaitingRevealSig) ∨
    (t = msgTypeSig ∧ ∃ a rs, s.conv.ake = some a ∧ a.state = .awaitingSig rs) := by
  by_cases hc : finishingCombination t (authStateOf s.conv)
  · cases ha : s.conv.ake with
    | none =>
      rw [authStateOf_none ha] at hc
      rcases hc with ⟨-, h2⟩ | ⟨-, rs, h2⟩ <;> cases h2
    | some a =>
      rw [authStateOf_some ha] at hc
      rcases hc with ⟨h1, h2⟩ | ⟨h1, rs, h2⟩
      · exact Or.inl ⟨h1, a, rfl, h2⟩
      · exact Or.inr ⟨h1, a, rs, rfl, h2⟩
  · exfalso
    have hq := processAKE_strict_nonfinishing K t msg s r s' h hc
    unfold strictKept at hq
    simp only [Prod.mk.injEq] at hq
    exact hchg hq.2.2.1

/-- the earlier form of `c01_paths_keys_any`, with the (now superfluous) hypothesis that nothing is queued for
    retransmission -/
theorem c01_paths_keys (K : Crypto) (t : Nat) (msg : Bytes) (s : MState)
    (r : Except Err (List Bytes × Option Err)) (s' : MState)
    (h : runM (processAKE K t msg) s = .ok (r, s'))
    (_hi : retransmitIdle s.conv) (hchg : s'.conv.keys ≠ s.conv.keys) :
    (t = msgTypeRevealSig ∧ ∃ a, s.conv.ake = some a ∧ a.state = .awaitingRevealSig) ∨
    (t = msgTypeSig ∧ ∃ a rs, s.conv.ake = some a ∧ a.state = .awaitingSig rs) :=
  c01_paths_keys_any K t msg s r s' h hchg

/-! ## 6. the role flag (`sentRevealSig`: which half of the session id is highlighted) — repaired behaviour -/

/-- C01/6: the DH-Key step of a key exchange started while the conversation is encrypted (a refresh) does not
    touch what the established session reports: whatever `recvDHKey` in `awaitingDHKey` returns (it moves on, or
    an error was thrown on the way and is returned in the triple), the conversation is still encrypted and
    `conv.sentRevealSig` and `conv.ssid` are exactly what they were — the values of the exchange the session is
    encrypted from.  When the step moves on to `awaitingSig`, the role of the new exchange is recorded as pending
    in the AKE context (`ake.sentRevealSig = true`), to be committed by `akeHasFinished` (`c01_role_on_finish`). -/
theorem c01_role_kept_while_encrypted (K : Crypto) (msg : Bytes) (s s' : MState)
    (he : s.conv.msgState = .encrypted) (r : Except Err (AuthState × Option Bytes × Option Err))
    (h : runM (recvDHKey K .awaitingDHKey msg) s = .ok (r, s')) :
    s'.conv.msgState = .encrypted ∧
    s'.conv.sentRevealSig = s.conv.sentRevealSig ∧ s'.conv.ssid = s.conv.ssid ∧
    (∀ rsm om e, r = .ok (.awaitingSig rsm, om, e) → ∃ a', s'.conv.ake = some a' ∧ a'.sentRevealSig = true) := by
  have hk : strictKept s' = strictKept s := recvDHKey_strict K .awaitingDHKey msg s r s' h
  unfold strictKept at hk
  simp only [Prod.mk.injEq] at hk
  obtain ⟨hms, -, -, hss, -⟩ := hk
  have he' : s'.conv.msgState = .encrypted := by rw [hms]; exact he
  rw [if_pos he', if_pos he] at hss
  have hp := Prod.mk.inj (Option.some.inj hss)
  refine ⟨he', hp.2, hp.1, ?_⟩
  intro rsm om e hr
  subst hr
  unfold recvDHKey at h
  simp only at h
  have hx := akeTry_ok_inv (by simp) h
  clear h
  rw [runM_bind] at hx
  obtain ⟨_, s1, -, hx⟩ := bindM_ok_inv hx
  rw [runM_bind] at hx
  obtain ⟨b2, s2, -, hx⟩ := bindM_ok_inv hx
  rw [runM_bind] at hx
  obtain ⟨b3, s3, -, hx⟩ := bindM_ok_inv hx
  rw [runM_bind] at hx
  obtain ⟨_, s4, -, hx⟩ := bindM_ok_inv hx
  rw [runM_bind] at hx
  obtain ⟨_, s5, h5, hx⟩ := bindM_ok_inv hx
  cases ha4 : s4.conv.ake with
  | none => simp [akeSetOurCurrent, getAke, ha4] at h5
  | some a4 =>
    rw [akeSetOurCurrent_run s4 a4 ha4] at h5
    cases ho : a4.ourPublicValue with
    | none => rw [ho] at h5; cases h5
    | some ours =>
      rw [ho] at h5
      simp only [Res.ok.injEq, Prod.mk.injEq, true_and] at h5
      subst h5
      by_cases hb : (s4.conv.msgState != MsgState.encrypted) = true <;>
        simp only [runM_bind, modAke, runM_modc, bindM_ok, Option.map, hb, ↓reduceIte, runM_pure, Res.ok.injEq,
          Prod.mk.injEq] at hx <;>
        (obtain ⟨-, rfl⟩ := hx; exact ⟨_, rfl, rfl⟩)

/-- C01/6, at the level of `processAKE`: no AKE message other than the two finishing ones (a Reveal-Signature
    message in `awaitingRevealSig`, a Signature message in `awaitingSig`) changes the role flag or the session id
    of an encrypted conversation — in particular an exchange that is started and never finished leaves both as
    they were -/
theorem c01_role_kept_processAKE (K : Crypto) (t : Nat) (msg : Bytes) (s : MState)
    (r : Except Err (List Bytes × Option Err)) (s' : MState)
    (h : runM (processAKE K t msg) s = .ok (r, s'))
    (hc : ¬ finishingCombination t (authStateOf s.conv)) (he : s.conv.msgState = .encrypted) :
    s'.conv.msgState = .encrypted ∧
    s'.conv.sentRevealSig = s.conv.sentRevealSig ∧ s'.conv.ssid = s.conv.ssid := by
  obtain ⟨h1, -, -, -, -, h6, h7⟩ := quietKept_encrypted (processAKE_quiet K t msg s r s' h hc) he
  exact ⟨h1, h7, h6⟩

/-- what `processAKE` does after `recvDHKey` returned the triple `x` (no retransmission on this path) -/
def akeTailDH (st : AuthState) (x : AuthState × Option Bytes × Option Err) : M (List Bytes × Option Err) := do
  modAke fun a => { a with state := x.1 }
  akeStamp st x.2.1 x.2.2
  return ((match x.2.1 with | some m => [m] | none => []) ++ [], x.2.2)

theorem akeRest_dhKey (K : Crypto) (msg : Bytes) (st : AuthState) (s : MState) :
    runM (akeRest K msgTypeDHKey msg st) s =
      bindM (runM (recvDHKey K st msg) s) (fun x s1 => runM (akeTailDH st x) s1) := by
  unfold akeRest akeDispatch akeTailDH
  simp only [if_neg (by decide : msgTypeDHKey ≠ msgTypeDHCommit), if_pos, runM_bind, bindM_assoc, runM_pure,
    bindM_ok]

/-- C01/6, the DH-Key step at the level of `processAKE`: a DH-Key message processed in `awaitingDHKey` while the
    conversation is encrypted leaves the conversation encrypted with the same role flag and session id; and if
    the exchange moved on to `awaitingSig`, the AKE context carries the pending role `ake.sentRevealSig = true` -/
theorem c01_role_pending_processAKE (K : Crypto) (msg : Bytes) (s s' : MState) (a : Ake) (ha : s.conv.ake = some a)
    (hst : a.state = .awaitingDHKey) (he : s.conv.msgState = .encrypted)
    (r : Except Err (List Bytes × Option Err))
    (h : runM (processAKE K msgTypeDHKey msg) s = .ok (r, s')) :
    s'.conv.msgState = .encrypted ∧
    s'.conv.sentRevealSig = s.conv.sentRevealSig ∧ s'.conv.ssid = s.conv.ssid ∧
    (∀ a' rsm, s'.conv.ake = some a' → a'.state = .awaitingSig rsm → a'.sentRevealSig = true) := by
  have hc : ¬ finishingCombination msgTypeDHKey (authStateOf s.conv) := by
    rw [authStateOf_some ha, hst]
    rintro (⟨h1, -⟩ | ⟨h1, -⟩) <;> exact absurd h1 (by decide)
  obtain ⟨k1, k2, k3⟩ := c01_role_kept_processAKE K _ msg s r s' h hc he
  refine ⟨k1, k2, k3, ?_⟩
  clear k1 k2 k3
  intro a' rsm ha' hst'
  rw [processAKE_run_some K _ msg s a ha, hst, akeRest_dhKey] at h
  cases hx : runM (recvDHKey K .awaitingDHKey msg) s with
  | panic p => rw [hx] at h; cases h
  | ok v =>
    obtain ⟨v, s1⟩ := v
    rw [hx] at h
    obtain ⟨-, -, -, hpend⟩ := c01_role_kept_while_encrypted K msg s s1 he v hx
    have hx' := hx
    unfold recvDHKey at hx'
    simp only at hx'
    rcases akeTry_cases hx' with ⟨u, hv, -⟩ | ⟨er, hv, -⟩
    · subst hv
      obtain ⟨st1, om, e⟩ := u
      unfold akeTailDH at h
      simp only [bindM_ok, runM_bind, modAke, runM_modc] at h
      cases ha1 : s1.conv.ake with
      | none =>
        rw [akeStamp_run_none _ _ _ _ (by show Option.map _ s1.conv.ake = none; rw [ha1]; rfl)] at h
        cases h
      | some a1 =>
        rw [akeStamp_run _ _ _ _ _ (by show Option.map _ s1.conv.ake = some _; rw [ha1]; rfl)] at h
        simp only [bindM_ok, runM_pure, Res.ok.injEq, Prod.mk.injEq] at h
        obtain ⟨-, rfl⟩ := h
        simp only [Option.some.injEq] at ha'
        subst ha'
        rw [stampAke_state] at hst'
        have hs1 : st1 = .awaitingSig rsm := hst'
        subst hs1
        obtain ⟨a1', h1, h2⟩ := hpend rsm om e rfl
        rw [ha1] at h1
        cases h1
        rw [stampAke_sentRevealSig]
        exact h2
    · subst hv
      unfold akeTailDH at h
      simp only [bindM_ok, runM_bind, modAke, runM_modc] at h
      cases ha1 : s1.conv.ake with
      | none =>
        rw [akeStamp_run_none _ _ _ _ (by show Option.map _ s1.conv.ake = none; rw [ha1]; rfl)] at h
        cases h
      | some a1 =>
        rw [akeStamp_run _ _ _ _ _ (by show Option.map _ s1.conv.ake = some _; rw [ha1]; rfl)] at h
        simp only [bindM_ok, runM_pure, Res.ok.injEq, Prod.mk.injEq] at h
        obtain ⟨-, rfl⟩ := h
        simp only [Option.some.injEq] at ha'
        subst ha'
        rw [stampAke_state] at hst'
        cases hst'

/-- C01/6: `akeHasFinished` commits the role flag together with the session id.  From an encrypted conversation
    (a refresh) both become the pending values of the AKE context (`ake.sentRevealSig`, `ake.ssid`, recorded by
    the DH-Key / Reveal-Signature step of this exchange); from a non-encrypted conversation both are what the
    conversation already had (the steps wrote them directly).  The AKE context is reset (`Ake.wiped`, which clears
    the pending flag). -/
theorem c01_role_on_finish (K : Crypto) (s s' : MState) (a : Ake) (ha : s.conv.ake = some a)
    (r : Except Err (Option Err)) (h : runM (akeHasFinished K) s = .ok (r, s')) :
    s'.conv.sentRevealSig = (if s.conv.msgState = .encrypted then a.sentRevealSig else s.conv.sentRevealSig) ∧
    s'.conv.ssid = (if s.conv.msgState = .encrypted then a.ssid else s.conv.ssid) ∧
    s'.conv.msgState = .encrypted ∧ s'.conv.ake = some a.wiped ∧ a.wiped.sentRevealSig = false := by
  obtain ⟨r0, env', mm', -, h'⟩ := akeHasFinished_run K s a ha
  rw [h'] at h
  simp only [Res.ok.injEq, Prod.mk.injEq] at h
  obtain ⟨-, rfl⟩ := h
  exact ⟨rfl, rfl, rfl, rfl, rfl⟩

end Finish

end Otr
