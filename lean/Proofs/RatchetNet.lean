/-
  Proofs.RatchetNet — the TWO-PARTY statement of property C05 over an UNRELIABLE, HOSTILE network:
  "under arbitrary duplication, reordering and loss each text sent in an encrypted session is
   delivered at most once" — and, stronger, the texts one side accepts are a SUBSEQUENCE of the texts
  the other side sent: the network can lose messages, it can neither duplicate nor permute them.

  System    : `Net` = two `Keys` (the model's key-management contexts, as in Proofs.Ratchet) and, per
              direction, the LOG of every data message ever sent (nothing is ever removed; the position
              in the log is the ghost unique *send index*: two sends of the same text are two events),
              the ghost list of the texts handed to `send`, and the ghost list of ACCEPTED deliveries
              (send index, wire), oldest first.
  Steps     : `NStep` (labelled by `Ev`): sendA / sendB (as `Step2.sendA/B`: needs `Keys.canSend`,
              appends `Keys.wire t` to the log), deliverAB / deliverBA of ANY logged wire — any index,
              any order, any number of times — which takes effect only if the receiver
              `Keys.acceptsWire` it; otherwise it is a rejectAB / rejectBA that leaves the state as it
              is (`reject_unchanged` shows that this is what the model's `checkMessageCounter` does for
              every wire a party can have sent); and `drop` (nothing happens: a lost message, or a
              delivery the receiver refuses for a reason outside this model, e.g. a MAC that does not
              verify — an accept step is never forced).  `NRun`: schedules of unbounded length.
  ASSUMPTION (C02, MAC unforgeability): only logged wires can be delivered, with their fields
              (sender key id, recipient key id, counter, next DH key, text) unchanged.  The attacker
              controls which, when, how often and in which order.  Forged or altered messages are the
              subject of C02 (`c02_guard`, `receive_plaintext_authentic`), not of this file.
  Not modelled (as in Proofs.Ratchet): a rotation that fails for lack of randomness and a send that
              stops at the message header (`KStep'` of Proofs.KeysRefine); see §7.
  Sender    : `SStep`/`SSteps` one party's history with its send log (sends interleaved with
              arbitrary accepts), `SentOK`, `SentInv`, `sent_wires_sorted`, `sent_triples_distinct`,
              `sent_index_determined`  (3)
  Receiver  : `Done` (the pair of an accepted wire: both key ids are now the OLDER generation or
              retired, and the stored counter is ≥ its counter), `Done.blocks`, `RecvInv`
  Invariant : `NetInv`, `netInv_init`, `NetInv.step`, `NRun.inv`; `NRun.ksteps` (link to `KSteps`)
  C05       : `c05_net_at_most_once` (1), `c05_net_delivered_were_sent` (2),
              `c05_net_delivered_after_sent` (2, on the timeline of events),
              `c05_net_sent_triples_distinct` (3), `c05_net_in_order_per_pair_partial` (4),
              `c05_net_no_reorder`, `c05_net_subsequence` (the full order statement),
              `c05_net_events_at_most_once`, `c05_net_events_subsequence` (on the event labels),
              `reject_unchanged`, `c05_net_logged_counter_pos` (a refused delivery changes nothing)
  No hypothesis on `K : Crypto`, none on the DH pairs, none on the initial key contexts: the theorems
  hold from `Net.init a b` for ALL `a b : Keys` (in particular from `Net.start a1 a2 b1 b2`, the
  state of `Sys2.init` right after the key exchange); the FIFO invariant `Inv` of Proofs.Ratchet is
  NOT used (it is false here).  Senders may become unable to send on a lossy network; these are
  safety statements.
  Tests     : concrete schedules under `Crypto.dummy` (duplicate refused, overtaken message lost).
  Core Lean only.
-/
import Proofs.Ratchet
namespace Otr
open List

/-! ## 0. list helpers -/

theorem pairwise_getElem? {α} {R : α → α → Prop} {l : List α} (h : l.Pairwise R) {i j : Nat} {x y : α}
    (hi : l[i]? = some x) (hj : l[j]? = some y) (hij : i < j) : R x y := by
  obtain ⟨hi', rfl⟩ := List.getElem?_eq_some_iff.mp hi
  obtain ⟨hj', rfl⟩ := List.getElem?_eq_some_iff.mp hj
  exact pairwise_iff_getElem.mp h i j hi' hj' hij

theorem getElem?_append_of_some {α} {l : List α} {i : Nat} {x : α} (h : l[i]? = some x) (l' : List α) :
    (l ++ l')[i]? = some x := by
  obtain ⟨hi, rfl⟩ := List.getElem?_eq_some_iff.mp h
  rw [getElem?_append_left hi, getElem?_eq_getElem hi]

/-- entries picked from `log` at strictly increasing positions form a sublist of `log` -/
theorem sublist_of_increasing {α} : ∀ (acc : List (Nat × α)) (log : List α) (d : Nat),
    (∀ e ∈ acc, log[e.1]? = some e.2 ∧ d ≤ e.1) → (acc.map Prod.fst).Pairwise (· < ·) →
    (acc.map Prod.snd).Sublist (log.drop d)
  | [], _, _, _, _ => nil_sublist _
  | e :: rest, log, d, hm, hp => by
    simp only [map_cons, pairwise_cons, mem_map, forall_exists_index, and_imp,
      forall_apply_eq_imp_iff₂] at hp
    have he := hm e mem_cons_self
    have ih := sublist_of_increasing rest log (e.1 + 1)
      (fun e' he' => ⟨(hm e' (mem_cons_of_mem _ he')).1, hp.1 e' he'⟩) hp.2
    obtain ⟨hlt, heq⟩ := List.getElem?_eq_some_iff.mp he.1
    have h1 : log.drop e.1 = e.2 :: log.drop (e.1 + 1) := by
      rw [drop_eq_getElem_cons hlt, heq]
    have h2 : (log.drop e.1).Sublist (log.drop d) := drop_sublist_drop_left log he.2
    rw [map_cons]
    exact (h1 ▸ (Sublist.cons_cons e.2 ih) : (e.2 :: rest.map Prod.snd).Sublist (log.drop e.1)).trans h2

/-! ## 1. One party's sending history: the triples (s, r, n) it puts on the wire are all different -/

/-- what the receiver's replay check looks at: (sender key id, recipient key id, counter) -/
def Wire.triple (m : Wire) : Nat × Nat × Nat := (m.s, m.r, m.n)

theorem WireLe.triple_ne {m m' : Wire} (h : WireLe m m') : m.triple ≠ m'.triple := by
  intro he
  simp only [Wire.triple, Prod.mk.injEq] at he
  have := h.2.2 he.1 he.2.1
  omega

/-- one step of one party together with the log of the data messages it has sent: a send (logged),
    an accepted incoming data message `(r, s, n, y)` — ANY one the party accepts, the peer's
    behaviour and the network are unconstrained —, or nothing -/
inductive SStep (K : Crypto) : Keys × List Wire → Keys × List Wire → Prop
  | send (k : Keys) (log : List Wire) (t : Nat) : k.canSend K →
      SStep K (k, log) (k.afterSend K, log ++ [k.wire t])
  | recv (k : Keys) (log : List Wire) (r s n y : Nat) (p : Bytes) : k.accepts K r s n →
      SStep K (k, log) (k.afterAccept K r s n y p, log)
  | idle (k : Keys) (log : List Wire) : SStep K (k, log) (k, log)

inductive SSteps (K : Crypto) : Keys × List Wire → Keys × List Wire → Prop
  | refl (c : Keys × List Wire) : SSteps K c c
  | tail {c c1 c2 : Keys × List Wire} : SSteps K c c1 → SStep K c1 c2 → SSteps K c c2

/-- what the sender remembers about a wire `m` it has sent: its key ids are not ahead of the
    sender's, and its pair is retired or the sender's counter of the pair is beyond `m.n` -/
structure SentOK (k : Keys) (m : Wire) : Prop where
  s_hi : m.s + 1 ≤ k.ourKeyID
  r_hi : m.r ≤ k.theirKeyID
  s_pos : 1 ≤ m.s
  r_pos : 1 ≤ m.r
  n_pos : 1 ≤ m.n
  sent : k.Stored Counter.ourCounter m.s m.r (m.n + 1)

theorem SentOK.kstep {K} {k k' : Keys} {m : Wire} (h : SentOK k m) (hs : KStep K k k') : SentOK k' m := by
  have hm := hs.ids_mono
  have h1 := h.s_hi
  have h2 := h.r_hi
  have h3 := h.r_pos
  exact ⟨by omega, by omega, h.s_pos, h.r_pos, h.n_pos,
    h.sent.step monoProj_our (by omega) (by omega) hs⟩

theorem sentOK_wire {K} {k : Keys} (hc : k.canSend K) (t : Nat) : SentOK (k.afterSend K) (k.wire t) := by
  obtain ⟨sk, hsk⟩ := hc
  have hw := derive_ok_inWin hsk
  refine ⟨?_, Nat.le_refl _, hw.2.1, hw.2.2.1, sendCtr_pos k, afterSend_stored k⟩
  show k.ourKeyID - 1 + 1 ≤ k.ourKeyID
  omega

/-- every wire sent so far is below the next one in the order `WireLe` (key ids never decrease,
    and under the current pair the next counter is beyond every counter used) -/
theorem SentOK.le_wire {k : Keys} {m : Wire} (h : SentOK k m) (t : Nat) : WireLe m (k.wire t) := by
  have h1 := h.s_hi
  refine ⟨?_, h.r_hi, ?_⟩
  · show m.s ≤ k.ourKeyID - 1
    omega
  · intro e1 e2
    have e1' : m.s = k.ourKeyID - 1 := e1
    have e2' : m.r = k.theirKeyID := e2
    have h3 := h.sent
    rw [e1', e2'] at h3
    exact stored_sendCtr h3 (by omega)

/-- the sender's invariant -/
structure SentInv (k : Keys) (log : List Wire) : Prop where
  msgs : ∀ m ∈ log, SentOK k m
  sorted : log.Pairwise WireLe

theorem SentInv.nil (k : Keys) : SentInv k [] := ⟨fun _ h => (nomatch h), Pairwise.nil⟩

theorem SentInv.kstep {K} {k k' : Keys} {log : List Wire} (h : SentInv k log) (hs : KStep K k k') :
    SentInv k' log := ⟨fun m hm => (h.msgs m hm).kstep hs, h.sorted⟩

theorem SentInv.send {K} {k : Keys} {log : List Wire} (h : SentInv k log) (hc : k.canSend K) (t : Nat) :
    SentInv (k.afterSend K) (log ++ [k.wire t]) := by
  refine ⟨?_, ?_⟩
  · intro m hm
    rcases mem_append.mp hm with hm | hm
    · exact (h.msgs m hm).kstep (.send k hc)
    · rw [mem_singleton] at hm; subst hm; exact sentOK_wire hc t
  · rw [pairwise_append]
    refine ⟨h.sorted, pairwise_singleton _ _, ?_⟩
    intro m hm m' hm'
    rw [mem_singleton] at hm'; subst hm'
    exact (h.msgs m hm).le_wire t

theorem SentInv.step {K} {c c' : Keys × List Wire} (h : SentInv c.1 c.2) (hs : SStep K c c') :
    SentInv c'.1 c'.2 := by
  cases hs with
  | send k log t hc => exact h.send hc t
  | recv k log r s n y p hacc => exact h.kstep (.recv k r s n y p hacc)
  | idle => exact h

theorem SentInv.steps {K} {c c' : Keys × List Wire} (h : SentInv c.1 c.2) (hs : SSteps K c c') :
    SentInv c'.1 c'.2 := by
  induction hs with
  | refl => exact h
  | tail _ hs ih => exact ih.step hs

/-- over every history of one party — sends interleaved with arbitrary accepted messages, any
    number of rotations — the wires it has sent are strictly increasing in the order `WireLe`:
    key ids never decrease and the counters under one pair strictly increase -/
theorem sent_wires_sorted {K} {k0 k : Keys} {log : List Wire} (h : SSteps K (k0, []) (k, log)) :
    log.Pairwise WireLe :=
  (SentInv.steps (c := (k0, [])) (SentInv.nil k0) h).sorted

/-- **(3)** two different sends of one party never produce wires with the same triple
    (sender key id, recipient key id, counter) -/
theorem sent_triples_distinct {K} {k0 k : Keys} {log : List Wire} (h : SSteps K (k0, []) (k, log)) :
    log.Pairwise (fun m m' => m.triple ≠ m'.triple) :=
  (sent_wires_sorted h).imp WireLe.triple_ne

theorem index_determined {log : List Wire} (h : log.Pairwise WireLe) {i j : Nat} {m m' : Wire}
    (hi : log[i]? = some m) (hj : log[j]? = some m') (he : m.triple = m'.triple) : i = j := by
  rcases Nat.lt_trichotomy i j with hlt | heq | hgt
  · exact absurd he (pairwise_getElem? h hi hj hlt).triple_ne
  · exact heq
  · exact absurd he.symm (pairwise_getElem? h hj hi hgt).triple_ne

/-- (3), index form: the triple of a wire determines WHICH send produced it -/
theorem sent_index_determined {K} {k0 k : Keys} {log : List Wire} (h : SSteps K (k0, []) (k, log))
    {i j : Nat} {m m' : Wire} (hi : log[i]? = some m) (hj : log[j]? = some m')
    (he : m.triple = m'.triple) : i = j :=
  index_determined (sent_wires_sorted h) hi hj he

/-! ## 2. The receiver: what accepting a wire leaves behind -/

/-- after `m` was accepted: its recipient key id is at most the receiver's PREVIOUS own key, its
    sender key id at most the PREVIOUS peer key, and its pair is retired or the stored counter of the
    pair is at least `m.n` -/
structure Done (k : Keys) (m : Wire) : Prop where
  r_lt : m.r + 1 ≤ k.ourKeyID
  s_lt : m.s + 1 ≤ k.theirKeyID
  stored : k.Stored Counter.theirCounter m.r m.s m.n

theorem Done.kstep {K} {k k' : Keys} {m : Wire} (h : Done k m) (hs : KStep K k k') : Done k' m := by
  have hm := hs.ids_mono
  have h1 := h.r_lt
  have h2 := h.s_lt
  exact ⟨by omega, by omega, h.stored.step monoProj_their (by omega) (by omega) hs⟩

theorem done_deliver {K} {k : Keys} {m : Wire} (hacc : k.acceptsWire K m) (p : Bytes) :
    Done (k.deliver K m p) m := by
  have hw := derive_ok_inWin hacc.1.choose_spec
  unfold InWin at hw
  refine ⟨?_, ?_, accepts_stored hacc m.y p⟩
  · show m.r + 1 ≤ (k.afterAccept K m.r m.s m.n m.y p).ourKeyID
    rw [afterAccept_ourKeyID]; split <;> omega
  · show m.s + 1 ≤ (k.afterAccept K m.r m.s m.n m.y p).theirKeyID
    rw [afterAccept_theirKeyID]; split <;> omega

/-- once `m` has been accepted, nothing that is not above `m` in the sender's order is accepted:
    a lower key id on either axis has left the window (or is out of it already), and under the same
    pair the counter is not fresh -/
theorem Done.blocks {K} {k : Keys} {m m' : Wire} (h : Done k m) (hs : m'.s ≤ m.s) (hr : m'.r ≤ m.r)
    (hn : m'.s = m.s → m'.r = m.r → m'.n ≤ m.n) : ¬ k.acceptsWire K m' := by
  intro hacc
  have hw := (derive_ok_inWin hacc.1.choose_spec).1
  unfold InWin at hw
  have h1 : m'.r = m.r := by have := h.r_lt; omega
  have h2 : m'.s = m.s := by have := h.s_lt; omega
  have h3 := hn h2 h1
  have hst := h.stored
  rw [← h1, ← h2] at hst
  exact hst.not_accepts ⟨hacc.1, Nat.lt_of_lt_of_le hacc.2 h3⟩

/-- the receiver's invariant for one direction: `log` = everything the peer sent, `acc` = the
    accepted deliveries (send index, wire), oldest first -/
structure RecvInv (k : Keys) (log : List Wire) (acc : List (Nat × Wire)) : Prop where
  mem : ∀ e ∈ acc, log[e.1]? = some e.2
  done : ∀ e ∈ acc, Done k e.2
  incr : (acc.map Prod.fst).Pairwise (· < ·)

theorem RecvInv.nil (k : Keys) (log : List Wire) : RecvInv k log [] :=
  ⟨fun _ h => (nomatch h), fun _ h => (nomatch h), Pairwise.nil⟩

theorem RecvInv.kstep {K} {k k' : Keys} {log : List Wire} {acc : List (Nat × Wire)}
    (h : RecvInv k log acc) (hs : KStep K k k') : RecvInv k' log acc :=
  ⟨h.mem, fun e he => (h.done e he).kstep hs, h.incr⟩

theorem RecvInv.grow {k : Keys} {log : List Wire} {acc : List (Nat × Wire)}
    (h : RecvInv k log acc) (w : Wire) : RecvInv k (log ++ [w]) acc :=
  ⟨fun e he => getElem?_append_of_some (h.mem e he) _, h.done, h.incr⟩

/-- the step that matters: a wire the receiver accepts was sent AFTER everything it accepted before -/
theorem RecvInv.newer {K} {k : Keys} {log : List Wire} {acc : List (Nat × Wire)}
    (h : RecvInv k log acc) (hsorted : log.Pairwise WireLe) {i : Nat} {m : Wire}
    (hi : log[i]? = some m) (hacc : k.acceptsWire K m) : ∀ e ∈ acc, e.1 < i := by
  intro e he
  apply Nat.lt_of_not_le
  intro hle
  rcases Nat.eq_or_lt_of_le hle with heq | hlt
  · have : some m = some e.2 := by rw [← hi, heq, h.mem e he]
    have hm : m = e.2 := Option.some.inj this
    exact (h.done e he).blocks (by rw [hm]; exact Nat.le_refl _) (by rw [hm]; exact Nat.le_refl _)
      (fun _ _ => by rw [hm]; exact Nat.le_refl _) hacc
  · have hle' := pairwise_getElem? hsorted hi (h.mem e he) hlt
    exact (h.done e he).blocks hle'.1 hle'.2.1 (fun e1 e2 => Nat.le_of_lt (hle'.2.2 e1 e2)) hacc

theorem RecvInv.accept {K} {k : Keys} {log : List Wire} {acc : List (Nat × Wire)}
    (h : RecvInv k log acc) (hsorted : log.Pairwise WireLe) {i : Nat} {m : Wire}
    (hi : log[i]? = some m) (hacc : k.acceptsWire K m) (p : Bytes) :
    RecvInv (k.deliver K m p) log (acc ++ [(i, m)]) := by
  have hstep : KStep K k (k.deliver K m p) := .recv k m.r m.s m.n m.y p hacc
  refine ⟨?_, ?_, ?_⟩
  · intro e he
    rcases mem_append.mp he with he | he
    · exact h.mem e he
    · rw [mem_singleton] at he; subst he; exact hi
  · intro e he
    rcases mem_append.mp he with he | he
    · exact (h.done e he).kstep hstep
    · rw [mem_singleton] at he; subst he; exact done_deliver hacc p
  · rw [map_append, pairwise_append]
    refine ⟨h.incr, pairwise_singleton _ _, ?_⟩
    intro x hx y hy
    rw [map_cons, map_nil, mem_singleton] at hy; subst hy
    obtain ⟨e, he, rfl⟩ := mem_map.mp hx
    exact h.newer hsorted hi hacc e he

/-! ## 3. The two-party system over a hostile network -/

structure Net where
  a : Keys
  b : Keys
  /-- every data message A ever sent to B, oldest first; the position is the send index -/
  logAB : List Wire
  logBA : List Wire
  /-- ghost: the texts handed to A's / B's `send`, oldest first -/
  sentA : List Nat
  sentB : List Nat
  /-- ghost: (send index, wire) of every delivery B accepted, oldest first -/
  accAB : List (Nat × Wire)
  /-- ghost: the same for the deliveries A accepted -/
  accBA : List (Nat × Wire)

/-- observable events (labels of the steps) -/
inductive Ev where
  | sendA (t : Nat)
  | sendB (t : Nat)
  /-- B accepted the wire with send index `i` and handed the text `t` to the application -/
  | accAB (i t : Nat)
  | accBA (i t : Nat)
  /-- B refused the wire with send index `i` -/
  | rejAB (i : Nat)
  | rejBA (i : Nat)
  | drop
  deriving Repr, DecidableEq

/-- one step of the two-party system over a network that keeps, and may deliver at any time and any
    number of times, every message ever sent -/
inductive NStep (K : Crypto) : Net → Ev → Net → Prop
  | sendA (s : Net) (t : Nat) : s.a.canSend K →
      NStep K s (.sendA t)
        { s with a := s.a.afterSend K, logAB := s.logAB ++ [s.a.wire t], sentA := s.sentA ++ [t] }
  | sendB (s : Net) (t : Nat) : s.b.canSend K →
      NStep K s (.sendB t)
        { s with b := s.b.afterSend K, logBA := s.logBA ++ [s.b.wire t], sentB := s.sentB ++ [t] }
  | deliverAB (s : Net) (i : Nat) (m : Wire) (newPriv : Bytes) :
      s.logAB[i]? = some m → s.b.acceptsWire K m →
      NStep K s (.accAB i m.txt) { s with b := s.b.deliver K m newPriv, accAB := s.accAB ++ [(i, m)] }
  | deliverBA (s : Net) (i : Nat) (m : Wire) (newPriv : Bytes) :
      s.logBA[i]? = some m → s.a.acceptsWire K m →
      NStep K s (.accBA i m.txt) { s with a := s.a.deliver K m newPriv, accBA := s.accBA ++ [(i, m)] }
  | rejectAB (s : Net) (i : Nat) (m : Wire) :
      s.logAB[i]? = some m → ¬ s.b.acceptsWire K m → NStep K s (.rejAB i) s
  | rejectBA (s : Net) (i : Nat) (m : Wire) :
      s.logBA[i]? = some m → ¬ s.a.acceptsWire K m → NStep K s (.rejBA i) s
  | drop (s : Net) : NStep K s .drop s

/-- a schedule: the list of events, oldest first, and the state it leads to -/
inductive NRun (K : Crypto) (s0 : Net) : List Ev → Net → Prop
  | nil : NRun K s0 [] s0
  | snoc {L : List Ev} {s s' : Net} {e : Ev} : NRun K s0 L s → NStep K s e s' → NRun K s0 (L ++ [e]) s'

/-- nothing sent yet -/
def Net.init (a b : Keys) : Net := ⟨a, b, [], [], [], [], [], []⟩

/-- the state right after the key exchange (the two key contexts of `Sys2.init`) -/
def Net.start (a1 a2 b1 b2 : DhPair) : Net :=
  Net.init (Sys2.init a1 a2 b1 b2).a (Sys2.init a1 a2 b1 b2).b

/-- each step is a `KStep` of A and a `KStep` of B: everything proved about `KSteps` applies -/
theorem NStep.ksteps {K s e s'} (h : NStep K s e s') : KStep K s.a s'.a ∧ KStep K s.b s'.b := by
  cases h with
  | sendA t hc => exact ⟨.send _ hc, .reject _⟩
  | sendB t hc => exact ⟨.reject _, .send _ hc⟩
  | deliverAB i m p hi hacc => exact ⟨.reject _, .recv _ m.r m.s m.n m.y p hacc⟩
  | deliverBA i m p hi hacc => exact ⟨.recv _ m.r m.s m.n m.y p hacc, .reject _⟩
  | rejectAB i m hi hn => exact ⟨.reject _, .reject _⟩
  | rejectBA i m hi hn => exact ⟨.reject _, .reject _⟩
  | drop => exact ⟨.reject _, .reject _⟩

/-- each step is an `SStep` of A with its log and of B with its log -/
theorem NStep.ssteps {K s e s'} (h : NStep K s e s') :
    SStep K (s.a, s.logAB) (s'.a, s'.logAB) ∧ SStep K (s.b, s.logBA) (s'.b, s'.logBA) := by
  cases h with
  | sendA t hc => exact ⟨.send _ _ t hc, .idle _ _⟩
  | sendB t hc => exact ⟨.idle _ _, .send _ _ t hc⟩
  | deliverAB i m p hi hacc => exact ⟨.idle _ _, .recv _ _ m.r m.s m.n m.y p hacc⟩
  | deliverBA i m p hi hacc => exact ⟨.recv _ _ m.r m.s m.n m.y p hacc, .idle _ _⟩
  | rejectAB i m hi hn => exact ⟨.idle _ _, .idle _ _⟩
  | rejectBA i m hi hn => exact ⟨.idle _ _, .idle _ _⟩
  | drop => exact ⟨.idle _ _, .idle _ _⟩

theorem NRun.ssteps {K s0 L s} (h : NRun K s0 L s) :
    SSteps K (s0.a, s0.logAB) (s.a, s.logAB) ∧ SSteps K (s0.b, s0.logBA) (s.b, s.logBA) := by
  induction h with
  | nil => exact ⟨.refl _, .refl _⟩
  | snoc _ hs ih => exact ⟨.tail ih.1 hs.ssteps.1, .tail ih.2 hs.ssteps.2⟩

/-- every schedule is a `KSteps` history of each party: C05 (`c05_no_replay`), C09, C19 of
    Proofs.Keys apply to both parties of every schedule of the hostile network -/
theorem NRun.ksteps {K s0 L s} (h : NRun K s0 L s) : KSteps K s0.a s.a ∧ KSteps K s0.b s.b := by
  induction h with
  | nil => exact ⟨.refl _, .refl _⟩
  | snoc _ hs ih => exact ⟨.tail ih.1 hs.ksteps.1, .tail ih.2 hs.ksteps.2⟩

/-! ## 4. The invariant -/

structure NetInv (s : Net) : Prop where
  sa : SentInv s.a s.logAB
  sb : SentInv s.b s.logBA
  rb : RecvInv s.b s.logAB s.accAB
  ra : RecvInv s.a s.logBA s.accBA
  ta : s.logAB.map Wire.txt = s.sentA
  tb : s.logBA.map Wire.txt = s.sentB

theorem netInv_init (a b : Keys) : NetInv (Net.init a b) :=
  ⟨SentInv.nil a, SentInv.nil b, RecvInv.nil b [], RecvInv.nil a [], rfl, rfl⟩

theorem NetInv.step {K s e s'} (h : NetInv s) (hs : NStep K s e s') : NetInv s' := by
  cases hs with
  | sendA t hc =>
    refine ⟨h.sa.send hc t, h.sb, h.rb.grow _, h.ra.kstep (.send _ hc), ?_, h.tb⟩
    show (s.logAB ++ [s.a.wire t]).map Wire.txt = s.sentA ++ [t]
    rw [map_append, h.ta]; rfl
  | sendB t hc =>
    refine ⟨h.sa, h.sb.send hc t, h.rb.kstep (.send _ hc), h.ra.grow _, h.ta, ?_⟩
    show (s.logBA ++ [s.b.wire t]).map Wire.txt = s.sentB ++ [t]
    rw [map_append, h.tb]; rfl
  | deliverAB i m p hi hacc =>
    exact ⟨h.sa, h.sb.kstep (.recv _ m.r m.s m.n m.y p hacc), h.rb.accept h.sa.sorted hi hacc p, h.ra,
      h.ta, h.tb⟩
  | deliverBA i m p hi hacc =>
    exact ⟨h.sa.kstep (.recv _ m.r m.s m.n m.y p hacc), h.sb, h.rb, h.ra.accept h.sb.sorted hi hacc p,
      h.ta, h.tb⟩
  | rejectAB i m hi hn => exact h
  | rejectBA i m hi hn => exact h
  | drop => exact h

theorem NRun.inv {K s0 L s} (h0 : NetInv s0) (h : NRun K s0 L s) : NetInv s := by
  induction h with
  | nil => exact h0
  | snoc _ hs ih => exact ih.step hs

/-! ## 5. The event labels and the ghost lists tell the same story -/

def Ev.sentAText : Ev → Option Nat
  | .sendA t => some t
  | _ => none

def Ev.sentBText : Ev → Option Nat
  | .sendB t => some t
  | _ => none

def Ev.accABOf : Ev → Option (Nat × Nat)
  | .accAB i t => some (i, t)
  | _ => none

def Ev.accBAOf : Ev → Option (Nat × Nat)
  | .accBA i t => some (i, t)
  | _ => none

/-- the texts A sent during the events `L`, oldest first (the position is the send index) -/
def sendsA (L : List Ev) : List Nat := L.filterMap Ev.sentAText
def sendsB (L : List Ev) : List Nat := L.filterMap Ev.sentBText
/-- (send index, text) of the deliveries B accepted during `L`, oldest first -/
def acceptsAB (L : List Ev) : List (Nat × Nat) := L.filterMap Ev.accABOf
def acceptsBA (L : List Ev) : List (Nat × Nat) := L.filterMap Ev.accBAOf

def accView (acc : List (Nat × Wire)) : List (Nat × Nat) := acc.map (fun e => (e.1, e.2.txt))

structure Agree (L : List Ev) (s0 s : Net) : Prop where
  sa : s.sentA = s0.sentA ++ sendsA L
  sb : s.sentB = s0.sentB ++ sendsB L
  ab : accView s.accAB = accView s0.accAB ++ acceptsAB L
  ba : accView s.accBA = accView s0.accBA ++ acceptsBA L

theorem filterMap_snoc' {α β} (f : α → Option β) (L : List α) (e : α) :
    (L ++ [e]).filterMap f = L.filterMap f ++ (f e).toList := by
  rw [filterMap_append]
  cases h : f e with
  | none => simp only [filterMap_cons, h, filterMap_nil, Option.toList]
  | some x => simp only [filterMap_cons, h, filterMap_nil, Option.toList]

theorem sendsA_snoc (L : List Ev) (e : Ev) : sendsA (L ++ [e]) = sendsA L ++ e.sentAText.toList :=
  filterMap_snoc' _ L e
theorem sendsB_snoc (L : List Ev) (e : Ev) : sendsB (L ++ [e]) = sendsB L ++ e.sentBText.toList :=
  filterMap_snoc' _ L e
theorem acceptsAB_snoc (L : List Ev) (e : Ev) : acceptsAB (L ++ [e]) = acceptsAB L ++ e.accABOf.toList :=
  filterMap_snoc' _ L e
theorem acceptsBA_snoc (L : List Ev) (e : Ev) : acceptsBA (L ++ [e]) = acceptsBA L ++ e.accBAOf.toList :=
  filterMap_snoc' _ L e

theorem accView_snoc (acc : List (Nat × Wire)) (i : Nat) (m : Wire) :
    accView (acc ++ [(i, m)]) = accView acc ++ [(i, m.txt)] := by
  unfold accView; rw [map_append]; rfl

/-- an event that is irrelevant for the projection: the projection of `L ++ [e]` is that of `L` -/
local macro "agree_skip " h:term : tactic =>
  `(tactic| (simp only [sendsA_snoc, sendsB_snoc, acceptsAB_snoc, acceptsBA_snoc, Ev.sentAText,
      Ev.sentBText, Ev.accABOf, Ev.accBAOf, Option.toList, append_nil]; exact $h))

theorem NRun.agree {K s0 L s} (h : NRun K s0 L s) : Agree L s0 s := by
  induction h with
  | nil => exact ⟨(append_nil _).symm, (append_nil _).symm, (append_nil _).symm, (append_nil _).symm⟩
  | snoc _ hs ih =>
    obtain ⟨i1, i2, i3, i4⟩ := ih
    cases hs with
    | sendA t hc =>
      refine ⟨?_, ?_, ?_, ?_⟩
      · show _ ++ [t] = _
        rw [i1, sendsA_snoc, append_assoc]; rfl
      · agree_skip i2
      · agree_skip i3
      · agree_skip i4
    | sendB t hc =>
      refine ⟨?_, ?_, ?_, ?_⟩
      · agree_skip i1
      · show _ ++ [t] = _
        rw [i2, sendsB_snoc, append_assoc]; rfl
      · agree_skip i3
      · agree_skip i4
    | deliverAB i m p hi hacc =>
      refine ⟨?_, ?_, ?_, ?_⟩
      · agree_skip i1
      · agree_skip i2
      · show accView (_ ++ [(i, m)]) = _
        rw [accView_snoc, i3, acceptsAB_snoc, append_assoc]; rfl
      · agree_skip i4
    | deliverBA i m p hi hacc =>
      refine ⟨?_, ?_, ?_, ?_⟩
      · agree_skip i1
      · agree_skip i2
      · agree_skip i3
      · show accView (_ ++ [(i, m)]) = _
        rw [accView_snoc, i4, acceptsBA_snoc, append_assoc]; rfl
    | rejectAB i m hi hn => exact ⟨by agree_skip i1, by agree_skip i2, by agree_skip i3, by agree_skip i4⟩
    | rejectBA i m hi hn => exact ⟨by agree_skip i1, by agree_skip i2, by agree_skip i3, by agree_skip i4⟩
    | drop => exact ⟨by agree_skip i1, by agree_skip i2, by agree_skip i3, by agree_skip i4⟩

/-! ## 6. C05 over the hostile network — the theorems -/

/-- **no reordering**: the send indices of the deliveries each side accepted, in the order of
    acceptance, are STRICTLY INCREASING — whatever the network duplicates, delays or permutes, a
    wire is accepted only if it was sent after everything accepted before it -/
theorem c05_net_no_reorder {K a b L s} (h : NRun K (Net.init a b) L s) :
    (s.accAB.map Prod.fst).Pairwise (· < ·) ∧ (s.accBA.map Prod.fst).Pairwise (· < ·) :=
  have hi := h.inv (netInv_init a b)
  ⟨hi.rb.incr, hi.ra.incr⟩

/-- **(1) at most once**: no send index occurs twice among the accepted deliveries of a direction:
    every sent message is delivered at most once, whatever the network does -/
theorem c05_net_at_most_once {K a b L s} (h : NRun K (Net.init a b) L s) :
    (s.accAB.map Prod.fst).Nodup ∧ (s.accBA.map Prod.fst).Nodup :=
  have hr := c05_net_no_reorder h
  ⟨hr.1.imp Nat.ne_of_lt, hr.2.imp Nat.ne_of_lt⟩

theorem RecvInv.sent_text {k : Keys} {log : List Wire} {acc : List (Nat × Wire)} {sent : List Nat}
    (h : RecvInv k log acc) (ht : log.map Wire.txt = sent) :
    ∀ e ∈ acc, log[e.1]? = some e.2 ∧ sent[e.1]? = some e.2.txt := by
  intro e he
  refine ⟨h.mem e he, ?_⟩
  rw [← ht, getElem?_map, h.mem e he]; rfl

/-- **(2) delivered = sent**: every accepted delivery carries the index of a send of that direction,
    the wire is the one that send produced and its text is the text handed to that send -/
theorem c05_net_delivered_were_sent {K a b L s} (h : NRun K (Net.init a b) L s) :
    (∀ e ∈ s.accAB, s.logAB[e.1]? = some e.2 ∧ s.sentA[e.1]? = some e.2.txt) ∧
    (∀ e ∈ s.accBA, s.logBA[e.1]? = some e.2 ∧ s.sentB[e.1]? = some e.2.txt) :=
  have hi := h.inv (netInv_init a b)
  ⟨hi.rb.sent_text hi.ta, hi.ra.sent_text hi.tb⟩

/-- **(3) in the two-party system**: both logs are strictly increasing in the sender's order … -/
theorem c05_net_logs_sorted {K a b L s} (h : NRun K (Net.init a b) L s) :
    s.logAB.Pairwise WireLe ∧ s.logBA.Pairwise WireLe :=
  have hi := h.inv (netInv_init a b)
  ⟨hi.sa.sorted, hi.sb.sorted⟩

/-- … so no two sends of a party carry the same (sender key id, recipient key id, counter) … -/
theorem c05_net_sent_triples_distinct {K a b L s} (h : NRun K (Net.init a b) L s) :
    s.logAB.Pairwise (fun m m' => m.triple ≠ m'.triple) ∧
    s.logBA.Pairwise (fun m m' => m.triple ≠ m'.triple) :=
  have hs := c05_net_logs_sorted h
  ⟨hs.1.imp WireLe.triple_ne, hs.2.imp WireLe.triple_ne⟩

/-- … and the send index the ghost lists record is determined by the bytes on the wire: it is not
    a choice of the scheduler -/
theorem c05_net_index_determined {K a b L s} (h : NRun K (Net.init a b) L s) :
    (∀ (i j : Nat) (m m' : Wire), s.logAB[i]? = some m → s.logAB[j]? = some m' → m.triple = m'.triple → i = j) ∧
    (∀ (i j : Nat) (m m' : Wire), s.logBA[i]? = some m → s.logBA[j]? = some m' → m.triple = m'.triple → i = j) :=
  have hs := c05_net_logs_sorted h
  ⟨fun _ _ _ _ hi hj he => index_determined hs.1 hi hj he,
   fun _ _ _ _ hi hj he => index_determined hs.2 hi hj he⟩

theorem RecvInv.sorted {k : Keys} {log : List Wire} {acc : List (Nat × Wire)}
    (h : RecvInv k log acc) (hs : log.Pairwise WireLe) : (acc.map Prod.snd).Pairwise WireLe := by
  rw [pairwise_map]
  have h1 := pairwise_map.mp h.incr
  exact h1.imp_of_mem (fun {e e'} he he' hlt => pairwise_getElem? hs (h.mem e he) (h.mem e' he') hlt)

/-- the wires each side accepted, in the order of acceptance, are strictly increasing in the
    sender's order `WireLe` (key ids never decrease; counters of one pair increase) -/
theorem c05_net_accepted_sorted {K a b L s} (h : NRun K (Net.init a b) L s) :
    (s.accAB.map Prod.snd).Pairwise WireLe ∧ (s.accBA.map Prod.snd).Pairwise WireLe :=
  have hi := h.inv (netInv_init a b)
  ⟨hi.rb.sorted hi.sa.sorted, hi.ra.sorted hi.sb.sorted⟩

/-- **(4) in order per pair**: the accepted deliveries of one (sender key id, recipient key id)
    pair happen in strictly increasing counter order.  ("partial" in the name: this is the per-pair
    part; the statement across pairs is `c05_net_no_reorder` / `c05_net_subsequence`.) -/
theorem c05_net_in_order_per_pair_partial {K a b L s} (h : NRun K (Net.init a b) L s) :
    (s.accAB.map Prod.snd).Pairwise (fun m m' => m.s = m'.s → m.r = m'.r → m.n < m'.n) ∧
    (s.accBA.map Prod.snd).Pairwise (fun m m' => m.s = m'.s → m.r = m'.r → m.n < m'.n) :=
  have hs := c05_net_accepted_sorted h
  ⟨hs.1.imp (fun hw => hw.2.2), hs.2.imp (fun hw => hw.2.2)⟩

theorem RecvInv.sublist {k : Keys} {log : List Wire} {acc : List (Nat × Wire)} {sent : List Nat}
    (h : RecvInv k log acc) (ht : log.map Wire.txt = sent) :
    (acc.map (fun e => e.2.txt)).Sublist sent := by
  have h1 : (acc.map Prod.snd).Sublist (log.drop 0) :=
    sublist_of_increasing acc log 0 (fun e he => ⟨h.mem e he, Nat.zero_le _⟩) h.incr
  rw [drop_zero] at h1
  have h2 := h1.map Wire.txt
  rw [map_map, ht] at h2
  exact h2

/-- **loss only**: the texts each side accepted, in the order of acceptance, are a SUBSEQUENCE
    of the texts the other side sent, in the order of sending: a hostile network can lose
    messages, it can neither duplicate nor permute them -/
theorem c05_net_subsequence {K a b L s} (h : NRun K (Net.init a b) L s) :
    (s.accAB.map (fun e => e.2.txt)).Sublist s.sentA ∧
    (s.accBA.map (fun e => e.2.txt)).Sublist s.sentB :=
  have hi := h.inv (netInv_init a b)
  ⟨hi.rb.sublist hi.ta, hi.ra.sublist hi.tb⟩

/-! ### the same on the timeline of events (no ghost state in the statements) -/

theorem accView_fst (acc : List (Nat × Wire)) : (accView acc).map Prod.fst = acc.map Prod.fst := by
  unfold accView; rw [map_map]; rfl

theorem accView_snd (acc : List (Nat × Wire)) :
    (accView acc).map Prod.snd = acc.map (fun e => e.2.txt) := by
  unfold accView; rw [map_map]; rfl

theorem NRun.agree_init {K a b L s} (h : NRun K (Net.init a b) L s) :
    s.sentA = sendsA L ∧ s.sentB = sendsB L ∧ accView s.accAB = acceptsAB L ∧
    accView s.accBA = acceptsBA L := by
  have hg := h.agree
  exact ⟨hg.sa.trans (nil_append _), hg.sb.trans (nil_append _), hg.ab.trans (nil_append _),
    hg.ba.trans (nil_append _)⟩

/-- (1) on the events: in every schedule no send index is accepted twice in a direction -/
theorem c05_net_events_at_most_once {K a b L s} (h : NRun K (Net.init a b) L s) :
    ((acceptsAB L).map Prod.fst).Nodup ∧ ((acceptsBA L).map Prod.fst).Nodup := by
  have hg := h.agree_init
  have h1 := c05_net_at_most_once h
  rw [← hg.2.2.1, ← hg.2.2.2, accView_fst, accView_fst]
  exact h1

/-- loss only, on the events: the texts B accepted during the schedule are a subsequence of the
    texts A sent during it, and vice versa -/
theorem c05_net_events_subsequence {K a b L s} (h : NRun K (Net.init a b) L s) :
    ((acceptsAB L).map Prod.snd).Sublist (sendsA L) ∧
    ((acceptsBA L).map Prod.snd).Sublist (sendsB L) := by
  have hg := h.agree_init
  have h1 := c05_net_subsequence h
  rw [← hg.1, ← hg.2.1, ← hg.2.2.1, ← hg.2.2.2, accView_snd, accView_snd]
  exact h1

/-- **(2) on the timeline**: an accept event with send index `i` and text `t` is preceded by the
    `i`-th send event of that direction, and that send was given the text `t` -/
theorem c05_net_delivered_after_sent {K a b L s} (h : NRun K (Net.init a b) L s) :
    (∀ pre post i t, L = pre ++ Ev.accAB i t :: post → (sendsA pre)[i]? = some t) ∧
    (∀ pre post i t, L = pre ++ Ev.accBA i t :: post → (sendsB pre)[i]? = some t) := by
  induction h with
  | nil =>
    constructor <;> intro pre post i t he <;> cases pre <;> cases he
  | @snoc L s s' e hrun hs ih =>
    have hi := hrun.inv (netInv_init a b)
    have hg := hrun.agree_init
    constructor
    · intro pre post i t he
      rcases eq_nil_or_concat post with rfl | ⟨ini, last, rfl⟩
      · obtain ⟨h1, h2⟩ := append_inj' he rfl
        subst h1
        have h3 : e = Ev.accAB i t := by cases h2; rfl
        subst h3
        cases hs with
        | deliverAB _ m p hlog hacc =>
          rw [← hg.1, ← hi.ta, getElem?_map, hlog]; rfl
      · rw [concat_eq_append, ← cons_append, ← append_assoc] at he
        exact ih.1 pre ini i t (append_inj' he rfl).1
    · intro pre post i t he
      rcases eq_nil_or_concat post with rfl | ⟨ini, last, rfl⟩
      · obtain ⟨h1, h2⟩ := append_inj' he rfl
        subst h1
        have h3 : e = Ev.accBA i t := by cases h2; rfl
        subst h3
        cases hs with
        | deliverBA _ m p hlog hacc =>
          rw [← hg.2.1, ← hi.tb, getElem?_map, hlog]; rfl
      · rw [concat_eq_append, ← cons_append, ← append_assoc] at he
        exact ih.2 pre ini i t (append_inj' he rfl).1

/-! ## 7. Scope: a refused delivery leaves the key context as it is -/

/-- `rejectAB`/`rejectBA` leave the state unchanged.  In the model (`processDataMessageRaw`) a refused
    data message either fails `deriveSessionKeys` (nothing is written) or fails the counter check;
    `checkMessageCounter` then writes back the counter history `findCounter` returns, which differs
    from the old one only if the pair had no entry — impossible for a wire with counter ≥ 1 (every
    wire a party sends: `SentOK.n_pos`), because then the stored counter 0 is below it. -/
theorem reject_unchanged {K} {k : Keys} {m : Wire} (hd : ∃ sk, k.deriveSessionKeys K m.r m.s = .ok sk)
    (hn : ¬ k.acceptsWire K m) (hpos : 1 ≤ m.n) :
    (k.checkMessageCounter m.r m.s m.n).1 = k ∧ (k.checkMessageCounter m.r m.s m.n).2 ≠ none := by
  have hle : m.n ≤ (findCounter k.counters m.r m.s).1.theirCounter :=
    Nat.le_of_not_lt (fun hlt => hn ⟨hd, hlt⟩)
  rcases findCounter_cases k.counters m.r m.s with ⟨c, _, h2⟩ | ⟨_, h2⟩
  · unfold Keys.checkMessageCounter
    rw [h2] at hle ⊢
    simp only at hle ⊢
    rw [if_pos hle]
    exact ⟨rfl, fun h => nomatch h⟩
  · rw [h2] at hle
    simp only at hle
    omega

theorem c05_net_logged_counter_pos {K a b L s} (h : NRun K (Net.init a b) L s) :
    (∀ m ∈ s.logAB, 1 ≤ m.n) ∧ (∀ m ∈ s.logBA, 1 ≤ m.n) :=
  have hi := h.inv (netInv_init a b)
  ⟨fun m hm => (hi.sa.msgs m hm).n_pos, fun m hm => (hi.sb.msgs m hm).n_pos⟩

/-! ## 8. TESTS (not the theorems): an executable simulator of `NStep`, sound by `nexec_sound`, and
    concrete schedules evaluated by the kernel under the constant crypto `Crypto.dummy`.  They show
    that the hypotheses of the theorems are satisfiable by schedules in which messages really are
    sent, accepted, refused as duplicates, and lost by overtaking. -/

inductive NAct where
  | sA (t : Nat) | sB (t : Nat)
  /-- the network hands the wire with send index `i` to B / to A (`p`: fresh exponent if it rotates) -/
  | dAB (i : Nat) (p : Bytes) | dBA (i : Nat) (p : Bytes)
  | lose
  deriving Repr, DecidableEq

/-- one action; `none`: the action is not possible (cannot send, or no such send index) -/
def nexec (K : Crypto) (s : Net) : NAct → Option (Ev × Net)
  | .sA t =>
    if s.a.canSendB K then
      some (.sendA t, { s with a := s.a.afterSend K, logAB := s.logAB ++ [s.a.wire t], sentA := s.sentA ++ [t] })
    else none
  | .sB t =>
    if s.b.canSendB K then
      some (.sendB t, { s with b := s.b.afterSend K, logBA := s.logBA ++ [s.b.wire t], sentB := s.sentB ++ [t] })
    else none
  | .dAB i p =>
    match s.logAB[i]? with
    | none => none
    | some m =>
      if s.b.acceptsB K m then
        some (.accAB i m.txt, { s with b := s.b.deliver K m p, accAB := s.accAB ++ [(i, m)] })
      else some (.rejAB i, s)
  | .dBA i p =>
    match s.logBA[i]? with
    | none => none
    | some m =>
      if s.a.acceptsB K m then
        some (.accBA i m.txt, { s with a := s.a.deliver K m p, accBA := s.accBA ++ [(i, m)] })
      else some (.rejBA i, s)
  | .lose => some (.drop, s)

theorem nexec_sound {K s act e s'} (h : nexec K s act = some (e, s')) : NStep K s e s' := by
  cases act with
  | sA t =>
    simp only [nexec] at h
    split at h
    · rename_i hc; cases h; exact .sendA s t (Keys.canSendB_iff.mp hc)
    · cases h
  | sB t =>
    simp only [nexec] at h
    split at h
    · rename_i hc; cases h; exact .sendB s t (Keys.canSendB_iff.mp hc)
    · cases h
  | dAB i p =>
    simp only [nexec] at h
    split at h
    · cases h
    · rename_i m hm
      split at h
      · rename_i hc; cases h; exact .deliverAB s i m p hm (Keys.acceptsB_iff.mp hc)
      · rename_i hc; cases h
        exact .rejectAB s i m hm (fun hacc => hc (Keys.acceptsB_iff.mpr hacc))
  | dBA i p =>
    simp only [nexec] at h
    split at h
    · cases h
    · rename_i m hm
      split at h
      · rename_i hc; cases h; exact .deliverBA s i m p hm (Keys.acceptsB_iff.mp hc)
      · rename_i hc; cases h
        exact .rejectBA s i m hm (fun hacc => hc (Keys.acceptsB_iff.mpr hacc))
  | lose => simp only [nexec] at h; cases h; exact .drop s

/-- run a list of actions, collecting the events -/
def nrun (K : Crypto) : List NAct → List Ev → Net → Option (List Ev × Net)
  | [], L, s => some (L, s)
  | act :: rest, L, s =>
    match nexec K s act with
    | some (e, s') => nrun K rest (L ++ [e]) s'
    | none => none

theorem nrun_sound {K s0} : ∀ (acts : List NAct) (L : List Ev) (s : Net) (L' : List Ev) (s' : Net),
    NRun K s0 L s → nrun K acts L s = some (L', s') → NRun K s0 L' s'
  | [], L, s, L', s', hr, h => by
    simp only [nrun, Option.some.injEq, Prod.mk.injEq] at h
    obtain ⟨rfl, rfl⟩ := h; exact hr
  | act :: rest, L, s, L', s', hr, h => by
    simp only [nrun] at h
    split at h
    · rename_i e s1 he
      exact nrun_sound rest _ s1 L' s' (.snoc hr (nexec_sound he)) h
    · cases h

/-- what the tests look at: the events, and a projection `f` of the final state -/
theorem nrun_view {K acts s0 L} {β} [DecidableEq β] (f : Net → β) {v : β}
    (h : (nrun K acts [] s0).any (fun r => decide (r.1 = L ∧ f r.2 = v)) = true) :
    ∃ s, NRun K s0 L s ∧ f s = v := by
  cases hr : nrun K acts [] s0 with
  | none => rw [hr] at h; cases h
  | some r =>
    obtain ⟨L', s'⟩ := r
    rw [hr] at h
    simp only [Option.any_some, decide_eq_true_eq] at h
    obtain ⟨rfl, rfl⟩ := h
    exact ⟨s', nrun_sound acts [] s0 _ s' .nil hr, rfl⟩

/-- the ghost lists of a state: accepted (index, text) A→B and B→A, texts sent by A and by B -/
def Net.view (s : Net) : List (Nat × Nat) × List (Nat × Nat) × List Nat × List Nat :=
  (accView s.accAB, accView s.accBA, s.sentA, s.sentB)

/-- the state right after the key exchange, small DH pairs (as `testInit` of Proofs.Ratchet) -/
def netTest : Net := Net.start ⟨1, [1]⟩ ⟨1, [2]⟩ ⟨1, [3]⟩ ⟨1, [4]⟩

/-- TEST (duplicate): A sends text 7, the network delivers the message twice: accepted, then refused -/
theorem test_duplicate :
    ∃ s, NRun Crypto.dummy netTest [.sendA 7, .accAB 0 7, .rejAB 0] s ∧
      s.view = ([(0, 7)], [], [7], []) :=
  nrun_view (acts := [.sA 7, .dAB 0 [5], .dAB 0 [6]]) Net.view (by decide +kernel)

/-- TEST (the same text twice = two events): both are accepted once, every further copy is refused -/
theorem test_same_text_twice :
    ∃ s, NRun Crypto.dummy netTest
        [.sendA 7, .sendA 7, .accAB 0 7, .accAB 1 7, .rejAB 0, .rejAB 1] s ∧
      s.view = ([(0, 7), (1, 7)], [], [7, 7], []) :=
  nrun_view (acts := [.sA 7, .sA 7, .dAB 0 [5], .dAB 1 [6], .dAB 0 [7], .dAB 1 [8]]) Net.view
    (by decide +kernel)

/-- TEST (overtaking = loss): the second message is delivered first; the first one is then refused -/
theorem test_overtaken_is_lost :
    ∃ s, NRun Crypto.dummy netTest [.sendA 1, .sendA 2, .accAB 1 2, .rejAB 0, .drop] s ∧
      s.view = ([(1, 2)], [], [1, 2], []) :=
  nrun_view (acts := [.sA 1, .sA 2, .dAB 1 [5], .dAB 0 [6], .lose]) Net.view (by decide +kernel)

/-- TEST (across rotations, both directions, with replays of everything after the ratchets moved):
    A sends 1 and 2; B gets 1, answers 3; A gets it (both of A's key ids advance) and sends 4 under
    the new pair; 4 overtakes 2; then every message ever sent is delivered again, in both directions:
    all refused -/
theorem test_rotation_replays :
    ∃ s, NRun Crypto.dummy netTest
        [.sendA 1, .sendA 2, .accAB 0 1, .sendB 3, .accBA 0 3, .sendA 4, .accAB 2 4,
         .rejAB 1, .rejAB 0, .rejAB 2, .rejBA 0, .sendB 5, .accBA 1 5, .rejBA 1, .rejBA 0] s ∧
      s.view = ([(0, 1), (2, 4)], [(0, 3), (1, 5)], [1, 2, 4], [3, 5]) :=
  nrun_view (acts := [.sA 1, .sA 2, .dAB 0 [5], .sB 3, .dBA 0 [6], .sA 4, .dAB 2 [7],
    .dAB 1 [8], .dAB 0 [9], .dAB 2 [10], .dBA 0 [11], .sB 5, .dBA 1 [12], .dBA 1 [13], .dBA 0 [14]])
    Net.view (by decide +kernel)

/-- TEST: the wires of that schedule: three different pairs/counters on A's side -/
example :
    (nrun Crypto.dummy [.sA 1, .sA 2, .dAB 0 [5], .sB 3, .dBA 0 [6], .sA 4] [] netTest).map
      (fun r => r.2.logAB.map Wire.triple) = some [(1, 1, 1), (1, 1, 2), (2, 2, 1)] := by
  decide +kernel

/-- an instance of the hypothesis of `sent_triples_distinct`: a one-party history with two sends
    around an accepted message -/
example : ∃ k log, SSteps Crypto.dummy (netTest.a, []) (k, log) ∧ log.length = 3 := by
  obtain ⟨s, hr, hv⟩ := nrun_view (K := Crypto.dummy) (s0 := netTest)
    (acts := [.sA 1, .sA 2, .dAB 0 [5], .sB 3, .dBA 0 [6], .sA 4]) (fun s => s.logAB.length)
    (L := [.sendA 1, .sendA 2, .accAB 0 1, .sendB 3, .accBA 0 3, .sendA 4]) (v := 3) (by decide +kernel)
  exact ⟨s.a, s.logAB, hr.ssteps.1, hv⟩

end Otr
