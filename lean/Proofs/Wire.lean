/-
  Proofs.Wire — query message, whitespace tag, message classification, version choice.

  Main results (all for arbitrary `Nat` policy sets, no bound on the policy bits needed):
    parse_queryMessage, extractVersions_queryMessage, guessMessageType_queryMessage,
    chooseVersion_queryMessage                                   (query.go / version.go)
    genWhitespaceTag_versions, c16_plain_exact, indexOf_tag_of_none, indexOf_tag_of_no_space,
    c16_plain_exact_of_none / _of_no_space / _of_no_white        (whitespace.go)
    indexOf_eq_some_iff, indexOf_eq_none_iff                     (bytes.Index)
    guessMessageType_notOTR(_iff), guessMessageType_tagged(_iff), guessMessageType_colon,
    guessMessageType_encoded, guessMessageType_b64, guessMessageType_b64_v3 / _v2,
    guessMessageType_append_tag                                  (message_type.go)

  Not proved here:
    * the converse of `indexOf_tag_of_none` (that the condition is also necessary for exact recovery);
      the `example` at the end shows the one way it fails without it: the header has period 15, so a text
      ending with the first 15 header bytes shifts the first occurrence one byte to the left.
    * nothing is said about `extractWhitespaceTag` on messages not produced by `genWhitespaceTag`
      (tags in the middle of a text, unknown 8-byte groups).
-/
import Otr.Wire
import Proofs.B64
namespace Otr

/-! ### string constants as explicit byte lists -/

theorem strBytes_OTR : strBytes "?OTR" = [63, 79, 84, 82] := by decide
theorem strBytes_OTRv : strBytes "?OTRv" = [63, 79, 84, 82, 118] := by decide

theorem strBytes_g0 : strBytes "?OTR:AAMC" = [63, 79, 84, 82, 58, 65, 65, 77, 67] := by decide
theorem strBytes_g1 : strBytes "?OTR:AAIC" = [63, 79, 84, 82, 58, 65, 65, 73, 67] := by decide
theorem strBytes_g2 : strBytes "?OTR:AAMK" = [63, 79, 84, 82, 58, 65, 65, 77, 75] := by decide
theorem strBytes_g3 : strBytes "?OTR:AAIK" = [63, 79, 84, 82, 58, 65, 65, 73, 75] := by decide
theorem strBytes_g4 : strBytes "?OTR:AAMR" = [63, 79, 84, 82, 58, 65, 65, 77, 82] := by decide
theorem strBytes_g5 : strBytes "?OTR:AAIR" = [63, 79, 84, 82, 58, 65, 65, 73, 82] := by decide
theorem strBytes_g6 : strBytes "?OTR:AAMS" = [63, 79, 84, 82, 58, 65, 65, 77, 83] := by decide
theorem strBytes_g7 : strBytes "?OTR:AAIS" = [63, 79, 84, 82, 58, 65, 65, 73, 83] := by decide
theorem strBytes_g8 : strBytes "?OTR:AAED" = [63, 79, 84, 82, 58, 65, 65, 69, 68] := by decide
theorem strBytes_g9 : strBytes "?OTR:AAID" = [63, 79, 84, 82, 58, 65, 65, 73, 68] := by decide
theorem strBytes_g10 : strBytes "?OTR:AAMD" = [63, 79, 84, 82, 58, 65, 65, 77, 68] := by decide
theorem strBytes_g11 : strBytes "?OTR?" = [63, 79, 84, 82, 63] := by decide
theorem strBytes_g12 : strBytes "?OTR:AAEK" = [63, 79, 84, 82, 58, 65, 65, 69, 75] := by decide
theorem strBytes_g13 : strBytes "?OTR Error:" = [63, 79, 84, 82, 32, 69, 114, 114, 111, 114, 58] := by decide
theorem strBytes_g14 : strBytes "?OTR|" = [63, 79, 84, 82, 124] := by decide
theorem strBytes_g15 : strBytes "?OTR," = [63, 79, 84, 82, 44] := by decide
theorem strBytes_g16 : strBytes "?OTR:" = [63, 79, 84, 82, 58] := by decide

/-! ### query message -/

/-- `queryMessage` with the policy abstracted to the two booleans it depends on -/
def queryMessageB (b2 b3 : Bool) (friendly : Bytes) : Bytes :=
  strBytes "?OTRv" ++ (if b2 then [50] else []) ++ (if b3 then [51] else []) ++
    (if friendly.isEmpty then [63] else [63, 32] ++ friendly)

theorem queryMessage_eq (p : Policies) (friendly : Bytes) :
    queryMessage p friendly = queryMessageB (polHas p allowV2) (polHas p allowV3) friendly := rfl

theorem parse_queryMessageB (b2 b3 : Bool) (friendly : Bytes) :
    parseOTRQueryMessage (queryMessageB b2 b3 friendly) =
      (if b2 then [2] else []) ++ (if b3 then [3] else []) := by
  cases b2 <;> cases b3 <;> cases friendly <;>
    simp [parseOTRQueryMessage, queryMessageB, strBytes_OTR, strBytes_OTRv, hasPrefix, queryDigits, isDigit]

/-- the versions a query message offers are exactly those its sender's policy allows -/
theorem parse_queryMessage (p : Policies) (friendly : Bytes) :
    parseOTRQueryMessage (queryMessage p friendly) =
      (if polHas p allowV2 then [2] else []) ++ (if polHas p allowV3 then [3] else []) := by
  rw [queryMessage_eq, parse_queryMessageB]

theorem extractVersions_queryMessageB (b2 b3 c2 c3 : Bool) :
    ((if b2 then [2] else []) ++ (if b3 then [3] else [])).foldl (fun acc v =>
      if v = 3 ∧ c3 = true then acc ||| 8
      else if v = 2 ∧ c2 = true then acc ||| 4
      else acc) 0 =
    (if b2 && c2 then 4 else 0) ||| (if b3 && c3 then 8 else 0) := by
  revert b2 b3 c2 c3; decide

/-- goal 4: the receiver (policy `q`) of `queryMessage p friendly` extracts exactly the common versions -/
theorem extractVersions_queryMessage (p q : Policies) (friendly : Bytes) :
    extractVersionsFromQueryMessage q (queryMessage p friendly) =
      (if polHas p allowV2 && polHas q allowV2 then 4 else 0) |||
      (if polHas p allowV3 && polHas q allowV3 then 8 else 0) := by
  unfold extractVersionsFromQueryMessage
  rw [parse_queryMessage]
  exact extractVersions_queryMessageB _ _ _ _

theorem guessMessageType_queryMessageB (b2 b3 : Bool) (friendly : Bytes) :
    guessMessageType (queryMessageB b2 b3 friendly) = .query := by
  cases b2 <;> cases b3 <;> cases friendly <;>
    simp [guessMessageType, queryMessageB, hasPrefix, strBytes_OTRv, strBytes_OTR, strBytes_g0, strBytes_g1, strBytes_g2, strBytes_g3, strBytes_g4, strBytes_g5, strBytes_g6, strBytes_g7, strBytes_g8, strBytes_g9, strBytes_g10, strBytes_g11]

theorem guessMessageType_queryMessage (p : Policies) (friendly : Bytes) :
    guessMessageType (queryMessage p friendly) = .query := by
  rw [queryMessage_eq, guessMessageType_queryMessageB]

theorem chooseVersionB (c2 c3 b2 b3 : Bool) :
    (if c3 = true ∧ ((if b2 && c2 then 4 else 0) ||| (if b3 && c3 then 8 else 0)) &&& 8 > 0 then some Version.v3
     else if c2 = true ∧ ((if b2 && c2 then 4 else 0) ||| (if b3 && c3 then 8 else 0)) &&& 4 > 0 then some Version.v2
     else none) =
    (if b3 && c3 then some Version.v3 else if b2 && c2 then some Version.v2 else none) := by
  revert b2 b3 c2 c3; decide

/-- goal 5: the version chosen on receipt of a query message is the highest common one -/
theorem chooseVersion_queryMessage (p q : Policies) (f : Bytes) :
    chooseVersion q (extractVersionsFromQueryMessage q (queryMessage p f)) =
      (if polHas p allowV3 && polHas q allowV3 then some .v3
       else if polHas p allowV2 && polHas q allowV2 then some .v2 else none) := by
  rw [extractVersions_queryMessage]
  unfold chooseVersion
  exact chooseVersionB _ _ _ _

/-! ### whitespace tag -/

theorem whitespaceTagHeader_eq : whitespaceTagHeader = [32,9,32,32,9,9,9,9,32,9,32,9,32,9,32,32] := by decide
theorem whitespaceTagV2_eq : whitespaceTagV2 = [32,32,9,9,32,32,9,32] := by decide
theorem whitespaceTagV3_eq : whitespaceTagV3 = [32,32,9,9,32,32,9,9] := by decide

def whitespaceTagsB (b2 b3 : Bool) : Bytes :=
  (if b2 then whitespaceTagV2 else []) ++ (if b3 then whitespaceTagV3 else [])

theorem genWhitespaceTag_eq (p : Policies) :
    genWhitespaceTag p = whitespaceTagHeader ++ whitespaceTagsB (polHas p allowV2) (polHas p allowV3) := by
  simp only [genWhitespaceTag, whitespaceTagsB, List.append_assoc]

theorem whiteGroups_tagsB (b2 b3 : Bool) (k : Nat) :
    whiteGroups (k + 3) (whitespaceTagsB b2 b3) 0 =
      ((if b2 then 4 else 0) ||| (if b3 then 8 else 0), []) := by
  cases b2 <;> cases b3 <;> rfl

theorem extractWhitespaceTag_tagsB (b2 b3 : Bool) :
    extractWhitespaceTag (whitespaceTagHeader ++ whitespaceTagsB b2 b3) =
      ([], (if b2 then 4 else 0) ||| (if b3 then 8 else 0)) := by
  revert b2 b3; decide

/-- goal 6 -/
theorem genWhitespaceTag_versions (p : Policies) :
    extractWhitespaceTag (genWhitespaceTag p) =
      ([], (if polHas p allowV2 then 4 else 0) ||| (if polHas p allowV3 then 8 else 0)) := by
  rw [genWhitespaceTag_eq, extractWhitespaceTag_tagsB]

/-! ### `indexOf` (bytes.Index) -/

theorem indexOf_cons (pat : Bytes) (c : UInt8) (r : Bytes) :
    indexOf pat (c :: r) =
      if pat.isPrefixOf (c :: r) then some 0
      else match indexOf pat r with
        | none => none
        | some i => some (i + 1) := rfl

/-- characterisation of a hit: `pat` occurs at `i` and at no earlier position -/
theorem indexOf_eq_some_iff (pat b : Bytes) (i : Nat) :
    indexOf pat b = some i ↔
      i ≤ b.length ∧ pat <+: b.drop i ∧ ∀ j, j < i → ¬ pat <+: b.drop j := by
  induction b generalizing i with
  | nil =>
    cases pat with
    | nil => (simp [indexOf]; constructor; (intro h; subst h; exact ⟨rfl, fun _ => Nat.zero_le _⟩); (intro h; exact h.1.symm))
    | cons x xs => simp [indexOf]
  | cons c r ih =>
    rw [indexOf_cons]
    by_cases hp : pat.isPrefixOf (c :: r) = true
    · rw [if_pos hp]
      have hp' := List.isPrefixOf_iff_prefix.mp hp
      constructor
      · intro h; injection h with h; subst h
        exact ⟨Nat.zero_le _, hp', fun j hj => absurd hj (Nat.not_lt_zero _)⟩
      · rintro ⟨_, _, h3⟩
        cases i with
        | zero => rfl
        | succ i => exact absurd hp' (h3 0 (Nat.succ_pos _))
    · rw [if_neg hp]
      have hp' : ¬ pat <+: c :: r := fun h => hp (List.isPrefixOf_iff_prefix.mpr h)
      cases i with
      | zero =>
        constructor
        · intro h; split at h <;> cases h
        · rintro ⟨_, h2, _⟩; exact absurd h2 hp'
      | succ i =>
        have := ih i
        constructor
        · intro h
          split at h
          · cases h
          · rename_i k hk
            injection h with h
            have hk' : k = i := by omega
            subst hk'
            obtain ⟨h1, h2, h3⟩ := (ih k).mp hk
            refine ⟨by simp; omega, by simpa using h2, ?_⟩
            intro j hj
            cases j with
            | zero => exact hp'
            | succ j => simpa using h3 j (by omega)
        · rintro ⟨h1, h2, h3⟩
          have : indexOf pat r = some i := (ih i).mpr ⟨by simp at h1; omega, by simpa using h2,
            fun j hj => by simpa using h3 (j + 1) (by omega)⟩
          rw [this]

theorem indexOf_eq_none_iff (pat b : Bytes) :
    indexOf pat b = none ↔ ∀ j, j ≤ b.length → ¬ pat <+: b.drop j := by
  induction b with
  | nil =>
    cases pat with
    | nil => simp [indexOf]
    | cons x xs => simp [indexOf]
  | cons c r ih =>
    rw [indexOf_cons]
    by_cases hp : pat.isPrefixOf (c :: r) = true
    · rw [if_pos hp]
      have hp' := List.isPrefixOf_iff_prefix.mp hp
      constructor
      · intro h; cases h
      · intro h; exact absurd hp' (h 0 (Nat.zero_le _))
    · rw [if_neg hp]
      have hp' : ¬ pat <+: c :: r := fun h => hp (List.isPrefixOf_iff_prefix.mpr h)
      constructor
      · intro h j hj
        have hn : indexOf pat r = none := by
          split at h
          · assumption
          · cases h
        cases j with
        | zero => exact hp'
        | succ j => simpa using ih.mp hn j (by simp at hj; omega)
      · intro h
        have : indexOf pat r = none := ih.mpr (fun j hj => by simpa using h (j + 1) (by simp; omega))
        rw [this]

/-! ### plaintext with a whitespace tag appended -/

theorem whitespaceTagHeader_length : whitespaceTagHeader.length = 16 := by decide

theorem extractWhitespaceTag_append_B (text : Bytes) (b2 b3 : Bool)
    (h : indexOf whitespaceTagHeader (text ++ (whitespaceTagHeader ++ whitespaceTagsB b2 b3)) = some text.length) :
    extractWhitespaceTag (text ++ (whitespaceTagHeader ++ whitespaceTagsB b2 b3)) =
      (text, (if b2 then 4 else 0) ||| (if b3 then 8 else 0)) := by
  unfold extractWhitespaceTag
  rw [h]
  have hd : (text ++ (whitespaceTagHeader ++ whitespaceTagsB b2 b3)).drop (text.length + 16) =
      whitespaceTagsB b2 b3 := by
    rw [← List.append_assoc, ← whitespaceTagHeader_length, ← List.length_append]
    exact List.drop_left
  have hl : (text ++ (whitespaceTagHeader ++ whitespaceTagsB b2 b3)).length =
      (text.length + (whitespaceTagsB b2 b3).length + 13) + 3 := by
    simp only [List.length_append, whitespaceTagHeader_length]; omega
  simp only [hd, hl, whiteGroups_tagsB, List.take_left', List.append_nil]

/-- goal 7 (C16, plaintext side): a text to which `genWhitespaceTag p` has been appended is recovered exactly,
    together with the offered versions, provided the first occurrence of the tag header is the appended one. -/
theorem c16_plain_exact (p : Policies) (text : Bytes)
    (h : indexOf whitespaceTagHeader (text ++ genWhitespaceTag p) = some text.length) :
    extractWhitespaceTag (text ++ genWhitespaceTag p) =
      (text, (if polHas p allowV2 then 4 else 0) ||| (if polHas p allowV3 then 8 else 0)) := by
  rw [genWhitespaceTag_eq] at h ⊢
  exact extractWhitespaceTag_append_B text _ _ h

/-- whether `pat` is a prefix of `t ++ s` for non-empty `t` depends only on the first `pat.length - 1` bytes of `s` -/
theorem prefix_append_take (pat t s : Bytes) (ht : 1 ≤ t.length) (h : pat <+: t ++ s) :
    pat <+: t ++ s.take (pat.length - 1) := by
  rw [List.prefix_iff_eq_take] at h ⊢
  rw [List.take_append] at h ⊢
  rw [List.take_take]
  have : min (pat.length - t.length) (pat.length - 1) = pat.length - t.length := by omega
  rw [this]; exact h

/-- sufficient condition for the hypothesis of `c16_plain_exact`: the header does not occur in `text`
    followed by the first 15 bytes of the header, i.e. it neither occurs inside `text` nor straddles the
    boundary between `text` and the appended tag -/
theorem indexOf_tag_of_none (p : Policies) (text : Bytes)
    (h : indexOf whitespaceTagHeader (text ++ whitespaceTagHeader.take 15) = none) :
    indexOf whitespaceTagHeader (text ++ genWhitespaceTag p) = some text.length := by
  rw [indexOf_eq_none_iff] at h
  rw [indexOf_eq_some_iff]
  refine ⟨by simp, ?_, ?_⟩
  · rw [List.drop_left, genWhitespaceTag_eq]; exact List.prefix_append _ _
  · intro j hj hp
    apply h j (by simp; omega)
    rw [List.drop_append_of_le_length (by omega)] at hp ⊢
    have := prefix_append_take _ _ _ (by simp; omega) hp
    rw [whitespaceTagHeader_length, genWhitespaceTag_eq, List.take_append_of_le_length (by rw [whitespaceTagHeader_length]; omega)] at this
    exact this

/-- simple sufficient condition: `text` contains no space (the header starts with one) -/
theorem indexOf_tag_of_no_space (p : Policies) (text : Bytes) (h : ∀ c ∈ text, c ≠ 32) :
    indexOf whitespaceTagHeader (text ++ genWhitespaceTag p) = some text.length := by
  rw [indexOf_eq_some_iff]
  refine ⟨by simp, ?_, ?_⟩
  · rw [List.drop_left, genWhitespaceTag_eq]; exact List.prefix_append _ _
  · intro j hj hp
    rw [List.drop_append_of_le_length (by omega)] at hp
    have hc : text[j] ∈ text := List.getElem_mem hj
    rw [List.drop_eq_getElem_cons hj, whitespaceTagHeader_eq] at hp
    simp only [List.cons_append, List.cons_prefix_cons] at hp
    exact h _ hc hp.1.symm

theorem c16_plain_exact_of_none (p : Policies) (text : Bytes)
    (h : indexOf whitespaceTagHeader (text ++ whitespaceTagHeader.take 15) = none) :
    extractWhitespaceTag (text ++ genWhitespaceTag p) =
      (text, (if polHas p allowV2 then 4 else 0) ||| (if polHas p allowV3 then 8 else 0)) :=
  c16_plain_exact p text (indexOf_tag_of_none p text h)

theorem c16_plain_exact_of_no_space (p : Policies) (text : Bytes) (h : ∀ c ∈ text, c ≠ 32) :
    extractWhitespaceTag (text ++ genWhitespaceTag p) =
      (text, (if polHas p allowV2 then 4 else 0) ||| (if polHas p allowV3 then 8 else 0)) :=
  c16_plain_exact p text (indexOf_tag_of_no_space p text h)

theorem c16_plain_exact_of_no_white (p : Policies) (text : Bytes) (h : ∀ c ∈ text, c ≠ 32 ∧ c ≠ 9) :
    extractWhitespaceTag (text ++ genWhitespaceTag p) =
      (text, (if polHas p allowV2 then 4 else 0) ||| (if polHas p allowV3 then 8 else 0)) :=
  c16_plain_exact_of_no_space p text (fun c hc => (h c hc).1)


/-! ### `guessMessageType` classification facts -/

theorem ite_ne_of {α} (x : α) {c : Prop} [Decidable c] {a b : α} (ha : a ≠ x) (hb : b ≠ x) :
    ite c a b ≠ x := by
  split <;> assumption

theorem ite_pred {α} (P : α → Prop) {c : Prop} {_ : Decidable c} {a b : α} (ha : P a) (hb : P b) :
    P (ite c a b) := by
  split <;> assumption

/-- 8(a) -/
theorem guessMessageType_notOTR (msg : Bytes) (h1 : hasPrefix msg (strBytes "?OTR") = false)
    (h2 : indexOf whitespaceTagHeader msg = none) : guessMessageType msg = .notOTR := by
  simp [guessMessageType, h1, containsSub, h2]

/-- 8(b) -/
theorem guessMessageType_tagged (msg : Bytes) (h1 : hasPrefix msg (strBytes "?OTR") = false)
    (h2 : (indexOf whitespaceTagHeader msg).isSome = true) : guessMessageType msg = .taggedPlaintext := by
  simp [guessMessageType, h1, containsSub, h2]

theorem guessMessageType_tagged_iff (msg : Bytes) :
    guessMessageType msg = .taggedPlaintext ↔
      (hasPrefix msg (strBytes "?OTR") = false ∧ (indexOf whitespaceTagHeader msg).isSome = true) := by
  cases h1 : hasPrefix msg (strBytes "?OTR")
  · cases h2 : (indexOf whitespaceTagHeader msg).isSome <;> simp [guessMessageType, h1, containsSub, h2]
  · simp only [guessMessageType, h1, if_true]
    constructor
    · intro h
      exfalso
      revert h
      repeat (refine ite_ne_of _ (by decide) ?_)
      decide
    · rintro ⟨h, _⟩; cases h

theorem guessMessageType_notOTR_iff (msg : Bytes) :
    guessMessageType msg = .notOTR ↔
      (hasPrefix msg (strBytes "?OTR") = false ∧ indexOf whitespaceTagHeader msg = none) := by
  cases h1 : hasPrefix msg (strBytes "?OTR")
  · cases h2 : indexOf whitespaceTagHeader msg <;> simp [guessMessageType, h1, containsSub, h2]
  · simp only [guessMessageType, h1, if_true]
    constructor
    · intro h
      exfalso
      revert h
      repeat (refine ite_ne_of _ (by decide) ?_)
      decide
    · rintro ⟨h, _⟩; cases h

/-- normal form of `guessMessageType` on "?OTR:"-messages: only the four bytes after the colon matter -/
theorem guessMessageType_colon (body : Bytes) :
    guessMessageType (strBytes "?OTR:" ++ body) =
      if strBytes "AAMC" <+: body then .dhCommit
      else if strBytes "AAIC" <+: body then .dhCommit
      else if strBytes "AAMK" <+: body then .dhKey
      else if strBytes "AAIK" <+: body then .dhKey
      else if strBytes "AAMR" <+: body then .revealSig
      else if strBytes "AAIR" <+: body then .revealSig
      else if strBytes "AAMS" <+: body then .signature
      else if strBytes "AAIS" <+: body then .signature
      else if strBytes "AAED" <+: body then .data
      else if strBytes "AAID" <+: body then .data
      else if strBytes "AAMD" <+: body then .data
      else if strBytes "AAEK" <+: body then .v1KeyExch
      else .unknown := by
  simp only [guessMessageType, hasPrefix, strBytes_OTR, strBytes_g0, strBytes_g1,
    strBytes_g2, strBytes_g3, strBytes_g4, strBytes_g5, strBytes_g6, strBytes_g7, strBytes_g8, strBytes_g9,
    strBytes_g10, strBytes_g11, strBytes_g12, strBytes_g13, strBytes_g14, strBytes_g15, strBytes_g16, strBytes_OTRv,
    show strBytes "AAMC" = [65, 65, 77, 67] by decide, show strBytes "AAIC" = [65, 65, 73, 67] by decide,
    show strBytes "AAMK" = [65, 65, 77, 75] by decide, show strBytes "AAIK" = [65, 65, 73, 75] by decide,
    show strBytes "AAMR" = [65, 65, 77, 82] by decide, show strBytes "AAIR" = [65, 65, 73, 82] by decide,
    show strBytes "AAMS" = [65, 65, 77, 83] by decide, show strBytes "AAIS" = [65, 65, 73, 83] by decide,
    show strBytes "AAED" = [65, 65, 69, 68] by decide, show strBytes "AAID" = [65, 65, 73, 68] by decide,
    show strBytes "AAMD" = [65, 65, 77, 68] by decide, show strBytes "AAEK" = [65, 65, 69, 75] by decide]
  simp

/-- the classifications of an encoded message -/
def Guess.isEncoded : Guess → Bool
  | .dhCommit | .dhKey | .revealSig | .signature | .data | .v1KeyExch | .unknown => true
  | _ => false

theorem guessMessageType_colon_isEncoded (body : Bytes) :
    (guessMessageType (strBytes "?OTR:" ++ body)).isEncoded = true := by
  rw [guessMessageType_colon]
  repeat (refine ite_pred (fun g : Guess => g.isEncoded = true) rfl ?_)
  rfl

/-- anything that starts with "?OTR:" is classified as an encoded message (or unknown) -/
theorem guessMessageType_encoded (body : Bytes) :
    guessMessageType (strBytes "?OTR:" ++ body) = .dhCommit ∨
    guessMessageType (strBytes "?OTR:" ++ body) = .dhKey ∨
    guessMessageType (strBytes "?OTR:" ++ body) = .revealSig ∨
    guessMessageType (strBytes "?OTR:" ++ body) = .signature ∨
    guessMessageType (strBytes "?OTR:" ++ body) = .data ∨
    guessMessageType (strBytes "?OTR:" ++ body) = .v1KeyExch ∨
    guessMessageType (strBytes "?OTR:" ++ body) = .unknown := by
  have h := guessMessageType_colon_isEncoded body
  revert h
  generalize guessMessageType (strBytes "?OTR:" ++ body) = g
  cases g <;> simp [Guess.isEncoded]

/-- 8(c): an encoded message "?OTR:" ++ base64 ++ "." is never classified as query, error, fragment,
    tagged plaintext or plaintext -/
theorem guessMessageType_b64 (x : Bytes) :
    guessMessageType (strBytes "?OTR:" ++ b64encode x ++ [46]) = .dhCommit ∨
    guessMessageType (strBytes "?OTR:" ++ b64encode x ++ [46]) = .dhKey ∨
    guessMessageType (strBytes "?OTR:" ++ b64encode x ++ [46]) = .revealSig ∨
    guessMessageType (strBytes "?OTR:" ++ b64encode x ++ [46]) = .signature ∨
    guessMessageType (strBytes "?OTR:" ++ b64encode x ++ [46]) = .data ∨
    guessMessageType (strBytes "?OTR:" ++ b64encode x ++ [46]) = .v1KeyExch ∨
    guessMessageType (strBytes "?OTR:" ++ b64encode x ++ [46]) = .unknown := by
  rw [List.append_assoc]; exact guessMessageType_encoded _

/-- `guessMessageType` on "?OTR:" followed by at least four bytes, as a function of those bytes -/
def guessQuad (c1 c2 c3 c4 : UInt8) : Guess :=
  let q : Bytes := [c1, c2, c3, c4]
  if q = [65, 65, 77, 67] then .dhCommit
  else if q = [65, 65, 73, 67] then .dhCommit
  else if q = [65, 65, 77, 75] then .dhKey
  else if q = [65, 65, 73, 75] then .dhKey
  else if q = [65, 65, 77, 82] then .revealSig
  else if q = [65, 65, 73, 82] then .revealSig
  else if q = [65, 65, 77, 83] then .signature
  else if q = [65, 65, 73, 83] then .signature
  else if q = [65, 65, 69, 68] then .data
  else if q = [65, 65, 73, 68] then .data
  else if q = [65, 65, 77, 68] then .data
  else if q = [65, 65, 69, 75] then .v1KeyExch
  else .unknown

theorem prefix_quad (p1 p2 p3 p4 c1 c2 c3 c4 : UInt8) (tail : Bytes) :
    ([p1, p2, p3, p4] <+: c1 :: c2 :: c3 :: c4 :: tail) ↔ [c1, c2, c3, c4] = [p1, p2, p3, p4] := by
  simp only [List.cons_prefix_cons, List.nil_prefix, and_true, List.cons.injEq]
  constructor
  · rintro ⟨h1, h2, h3, h4⟩; exact ⟨h1.symm, h2.symm, h3.symm, h4.symm⟩
  · rintro ⟨h1, h2, h3, h4⟩; exact ⟨h1.symm, h2.symm, h3.symm, h4.symm⟩

theorem guessMessageType_quad (c1 c2 c3 c4 : UInt8) (tail : Bytes) :
    guessMessageType (strBytes "?OTR:" ++ c1 :: c2 :: c3 :: c4 :: tail) = guessQuad c1 c2 c3 c4 := by
  rw [guessMessageType_colon]
  simp only [guessQuad,
    show strBytes "AAMC" = [65, 65, 77, 67] by decide, show strBytes "AAIC" = [65, 65, 73, 67] by decide,
    show strBytes "AAMK" = [65, 65, 77, 75] by decide, show strBytes "AAIK" = [65, 65, 73, 75] by decide,
    show strBytes "AAMR" = [65, 65, 77, 82] by decide, show strBytes "AAIR" = [65, 65, 73, 82] by decide,
    show strBytes "AAMS" = [65, 65, 77, 83] by decide, show strBytes "AAIS" = [65, 65, 73, 83] by decide,
    show strBytes "AAED" = [65, 65, 69, 68] by decide, show strBytes "AAID" = [65, 65, 73, 68] by decide,
    show strBytes "AAMD" = [65, 65, 77, 68] by decide, show strBytes "AAEK" = [65, 65, 69, 75] by decide,
    prefix_quad]

/-- message type byte → classification (messageHeader: 0x02 DH commit, 0x0a DH key, 0x11 reveal signature,
    0x12 signature, 0x03 data) -/
def guessOfType (t : UInt8) : Guess :=
  if t = 2 then .dhCommit else if t = 10 then .dhKey else if t = 17 then .revealSig
  else if t = 18 then .signature else if t = 3 then .data else .unknown

theorem guessQuad_lo_fin : ∀ n : Fin 64,
    guessQuad 65 65 77 (b64Char n.val) = guessOfType (UInt8.ofNat n.val) ∧
    guessQuad 65 65 73 (b64Char n.val) = guessOfType (UInt8.ofNat n.val) := by decide

theorem guessQuad_unknown (c1 c2 c3 c4 : UInt8) (h1 : c3 ≠ 77) (h2 : c3 ≠ 73) (h3 : c3 ≠ 69) :
    guessQuad c1 c2 c3 c4 = .unknown := by
  simp [guessQuad, h1, h2, h3]

theorem guessOfType_hi (t : UInt8) (h : 64 ≤ t.toNat) : guessOfType t = .unknown := by
  have ne : ∀ k : UInt8, k.toNat < 64 → t ≠ k := fun k hk e => by subst e; omega
  simp [guessOfType, ne 2 (by decide), ne 10 (by decide), ne 17 (by decide), ne 18 (by decide), ne 3 (by decide)]

theorem b64Char_hi_fin : ∀ k : Fin 3,
    (b64Char (13 + k.val) ≠ 77 ∧ b64Char (13 + k.val) ≠ 73 ∧ b64Char (13 + k.val) ≠ 69) ∧
    (b64Char (9 + k.val) ≠ 77 ∧ b64Char (9 + k.val) ≠ 73 ∧ b64Char (9 + k.val) ≠ 69) := by decide

theorem guessQuad_b64 (v t : UInt8) (hv : v = 3 ∨ v = 2) :
    guessQuad (b64Char ((UInt8.toNat 0 * 65536 + v.toNat * 256 + t.toNat) / 262144))
      (b64Char ((UInt8.toNat 0 * 65536 + v.toNat * 256 + t.toNat) / 4096 % 64))
      (b64Char ((UInt8.toNat 0 * 65536 + v.toNat * 256 + t.toNat) / 64 % 64))
      (b64Char ((UInt8.toNat 0 * 65536 + v.toNat * 256 + t.toNat) % 64)) = guessOfType t := by
  have ht := t.toNat_lt
  have e0 : (0 : UInt8).toNat = 0 := rfl
  have e3 : (3 : UInt8).toNat = 3 := rfl
  have e2 : (2 : UInt8).toNat = 2 := rfl
  have c65 : b64Char 0 = 65 := by decide
  have c77 : b64Char 12 = 77 := by decide
  have c73 : b64Char 8 = 73 := by decide
  by_cases hlo : t.toNat < 64
  · have h := guessQuad_lo_fin ⟨t.toNat, hlo⟩
    simp only [UInt8.ofNat_toNat] at h
    rcases hv with hv | hv <;> subst hv
    · rw [← h.1, e0, e3, ← c65, ← c77]; congr 2 <;> omega
    · rw [← h.2, e0, e2, ← c65, ← c73]; congr 2 <;> omega
  · rw [guessOfType_hi t (by omega)]
    have hk : t.toNat / 64 - 1 < 3 := by omega
    have h := b64Char_hi_fin ⟨t.toNat / 64 - 1, hk⟩
    simp only at h
    rcases hv with hv | hv <;> subst hv
    · have e : (UInt8.toNat 0 * 65536 + UInt8.toNat 3 * 256 + t.toNat) / 64 % 64 = 13 + (t.toNat / 64 - 1) := by
        rw [e0, e3]; omega
      rw [e]; exact guessQuad_unknown _ _ _ _ h.1.1 h.1.2.1 h.1.2.2
    · have e : (UInt8.toNat 0 * 65536 + UInt8.toNat 2 * 256 + t.toNat) / 64 % 64 = 9 + (t.toNat / 64 - 1) := by
        rw [e0, e2]; omega
      rw [e]; exact guessQuad_unknown _ _ _ _ h.2.1 h.2.2.1 h.2.2.2

/-- the classification of an encoded version-3 message is decided by its message type byte -/
theorem guessMessageType_b64_v3 (t : UInt8) (rest : Bytes) :
    guessMessageType (strBytes "?OTR:" ++ b64encode (0 :: 3 :: t :: rest) ++ [46]) = guessOfType t := by
  simp only [b64encode, List.append_assoc, List.cons_append]
  rw [guessMessageType_quad, guessQuad_b64 3 t (Or.inl rfl)]

/-- the classification of an encoded version-2 message is decided by its message type byte -/
theorem guessMessageType_b64_v2 (t : UInt8) (rest : Bytes) :
    guessMessageType (strBytes "?OTR:" ++ b64encode (0 :: 2 :: t :: rest) ++ [46]) = guessOfType t := by
  simp only [b64encode, List.append_assoc, List.cons_append]
  rw [guessMessageType_quad, guessQuad_b64 2 t (Or.inr rfl)]

/-- a message with an appended whitespace tag always contains the header … -/
theorem indexOf_append_tag_isSome (p : Policies) (text : Bytes) :
    (indexOf whitespaceTagHeader (text ++ genWhitespaceTag p)).isSome = true := by
  cases h : indexOf whitespaceTagHeader (text ++ genWhitespaceTag p) with
  | some i => rfl
  | none =>
    exfalso
    rw [indexOf_eq_none_iff] at h
    apply h text.length (by simp)
    rw [List.drop_left, genWhitespaceTag_eq]; exact List.prefix_append _ _

/-- … so it is classified as tagged plaintext unless it starts with "?OTR" -/
theorem guessMessageType_append_tag (p : Policies) (text : Bytes)
    (h : hasPrefix (text ++ genWhitespaceTag p) (strBytes "?OTR") = false) :
    guessMessageType (text ++ genWhitespaceTag p) = .taggedPlaintext :=
  guessMessageType_tagged _ h (indexOf_append_tag_isSome p text)

/-! ### concrete instances -/

example : queryMessage (allowV2 ||| allowV3) [] = strBytes "?OTRv23?" := by decide
example : queryMessage allowV3 (strBytes "hi") = strBytes "?OTRv3? hi" := by decide
example : extractVersionsFromQueryMessage 6 (queryMessage 6 (strBytes "v2? 23")) = 12 := by decide
example : extractVersionsFromQueryMessage 4 (queryMessage 6 (strBytes "v2? 23")) = 8 := by decide
example : chooseVersion 6 (extractVersionsFromQueryMessage 6 (queryMessage 2 [])) = some .v2 := by decide
example : chooseVersion 4 (extractVersionsFromQueryMessage 4 (queryMessage 2 [])) = none := by decide
example : parseOTRQueryMessage (strBytes "?OTR?v2?") = [1, 2] := by decide
example : extractWhitespaceTag (strBytes "hi there" ++ genWhitespaceTag 6) = (strBytes "hi there", 12) := by decide
example : extractWhitespaceTag (genWhitespaceTag 2) = ([], 4) := by decide
/-- the hypothesis of `c16_plain_exact` is needed: the header has period 15, so a text ending with the first
    15 bytes of the header makes the header occur one byte early and the text is not recovered -/
example : extractWhitespaceTag (whitespaceTagHeader.take 15 ++ genWhitespaceTag 4) ≠
    (whitespaceTagHeader.take 15, 8) := by decide
example : indexOf whitespaceTagHeader (whitespaceTagHeader.take 15 ++ genWhitespaceTag 4) = some 0 := by decide
example : guessMessageType (strBytes "hello") = .notOTR := by decide
example : guessMessageType (strBytes "hello" ++ genWhitespaceTag 6) = .taggedPlaintext := by decide
example : guessMessageType (strBytes "?OTR:" ++ b64encode [0, 3, 2, 1, 2, 3, 4] ++ [46]) = .dhCommit := by decide
example : guessMessageType (strBytes "?OTR:" ++ b64encode [0, 2, 3, 0] ++ [46]) = .data := by decide
example : guessMessageType (strBytes "?OTR Error: x") = .error := by decide
example : guessMessageType (strBytes "?OTR|1234") = .fragment := by decide

end Otr
