/-
  Proofs.RecvGuards — the guard theorems of C01 (key exchange) and C02 (data messages), lifted from the inner
  functions (`processAKE`, `processDataMessageRaw`) to the whole of `Conversation.Receive`: every state, every byte
  string, fragments included.

  1  frames            : `MsgOnly` (only `msg:` events appended), `coreKept` / `preKept`, the frames `Post` (what
                         the steps after the leaf message, and every call without an `?OTR:` leaf, leave alone:
                         message state, key context, peer key, SMP state, role flag, session id of an encrypted
                         conversation) and `Pre` (the steps before the leaf: the AKE context and the session id as
                         well); walks `nwalk` over version check, header, fragments, plaintext, query, error message
  2  fragment layer    : `fragSettled_pre` (Proofs.FragRefine's state in which a reassembled message is processed)
  3  the leaf message  : `recvLeaf` / `receiveLeaf` (the byte string a call finally classifies and processes),
                         `Guess.isOtrMsg`, `recvEncoded`, `HeaderOf`, `CoreStep`, `EncShape`, `Shape`,
                         `receiveUnit_shape` (induction over the fragment recursion; uses
                         `receiveUnit_fragment_refines`)
  4  data step         : `receiveDataMessage_core` (accepted with all five guards, or a `Post` step without plaintext)
  5  key exchange step : `SigAccepted`, `RevealSigAccepted`, `AkeQuiet`, `processAKE_core` (lifts
                         `c01_processAKE_sig` / `c01_processAKE_revealSig` / `processAKE_quiet` and adds `Fin` of
                         Proofs.Events: a guarded step is exactly one `akeHasFinished`)
  6  `receiveDataMessage_tk` : the data path never writes `theirKey`
  7  `guess_type_byte` : the classification of the leaf and the message type byte of the decoded message agree
  8  `receive_kind`    : every call is `Post`, or `Pre`; `receiveDataMessage` | `processAKE`; `Post`
  9  C02               : `receive_plaintext_authentic` (+ `_unfragmented`), `receive_acts_only_on_authentic`
  10 C01               : `receive_cases`, `receive_gone_secure_guard_partial`, `receive_msgState_change_guard`,
                         `receive_theirKey_frame`, `receive_completed_iff`
  11 witnesses         : accepted data message (plain, as a fragment, with a disconnect TLV), completing Signature and
                         Reveal-Signature messages; `receive_gone_secure_guard_counterexample`
  None of the theorems needs an invariant or `CryptoOK`; the only hypothesis on the run is that it does not panic.
-/
import Proofs.Events
import Proofs.AkeGuard
import Proofs.Fixes3
import Proofs.RejectFrame
import Proofs.FragRefine
set_option linter.unusedSimpArgs false
set_option linter.unusedVariables false
namespace Otr
open ConvData

/-! ## 1. frames: what the steps around the leaf message leave alone -/

/-- a log entry of the message-event family (`msg:…`): not a security, SMP or extra-key event -/
def isMsgTag (e : String) : Bool := e.toList.take 4 == ['m', 's', 'g', ':']

theorem isMsgTag_msg (x : String) : isMsgTag ("msg:" ++ x) = true := by
  unfold isMsgTag
  rw [String.toList_append]
  rfl

theorem isMsgTag_not_tlv {e : String} (h : isMsgTag e = true) : ¬ tlvEvent e := by
  unfold isMsgTag at h
  rw [beq_iff_eq] at h
  unfold tlvEvent
  rw [h]
  decide

theorem isMsgTag_not_sec {e : String} (h : isMsgTag e = true) : isSecTag e = false := by
  apply isSecTag_false_of_take
  unfold isMsgTag at h
  rw [beq_iff_eq] at h
  intro h2
  have : (e.toList.take 4).take 2 = ['s', 'e'] := by rw [List.take_take]; exact h2
  rw [h] at this
  exact absurd this (by decide)

/-- only message events are appended to the log -/
def MsgOnly (s s' : MState) : Prop := ∃ evs, s'.events = s.events ++ evs ∧ ∀ e ∈ evs, isMsgTag e = true

theorem MsgOnly.refl (s : MState) : MsgOnly s s := ⟨[], by simp, by simp⟩

theorem MsgOnly.trans {a b c : MState} (h1 : MsgOnly a b) (h2 : MsgOnly b c) : MsgOnly a c := by
  obtain ⟨e1, he1, hf1⟩ := h1
  obtain ⟨e2, he2, hf2⟩ := h2
  refine ⟨e1 ++ e2, by rw [he2, he1, List.append_assoc], ?_⟩
  intro e he
  rcases List.mem_append.1 he with h | h
  · exact hf1 e h
  · exact hf2 e h

theorem MsgOnly.of_events_eq {s s' : MState} (h : s'.events = s.events) : MsgOnly s s' := ⟨[], by simp [h], by simp⟩

/-- the components of the conversation the guards of both properties read and their conclusions speak about;
    the session id counts only while the conversation is encrypted -/
def coreKept (s : MState) :=
  (s.conv.msgState, s.conv.keys, s.conv.theirKey, s.conv.smp, s.conv.sentRevealSig,
   (if s.conv.msgState = .encrypted then some s.conv.ssid else none))

/-- the same and the AKE context and the session id in every message state -/
def preKept (s : MState) :=
  (s.conv.msgState, s.conv.keys, s.conv.theirKey, s.conv.smp, s.conv.sentRevealSig, s.conv.ake, s.conv.ssid)

/-- a step after the leaf message was processed (or a step of a call that processes no `?OTR:` message) -/
def Post (s s' : MState) : Prop := coreKept s' = coreKept s ∧ MsgOnly s s'

/-- a step before the leaf message is processed: the AKE context and the session id are untouched as well -/
def Pre (s s' : MState) : Prop := preKept s' = preKept s ∧ MsgOnly s s'

instance : Frame Post where
  refl s := ⟨rfl, MsgOnly.refl s⟩
  trans h1 h2 := ⟨h2.1.trans h1.1, MsgOnly.trans h1.2 h2.2⟩

instance : Frame Pre where
  refl s := ⟨rfl, MsgOnly.refl s⟩
  trans h1 h2 := ⟨h2.1.trans h1.1, MsgOnly.trans h1.2 h2.2⟩

theorem Pre.post {s s' : MState} (h : Pre s s') : Post s s' := by
  refine ⟨?_, h.2⟩
  have h1 := h.1
  simp only [preKept, Prod.mk.injEq] at h1
  obtain ⟨a, b, c, d, e, f, g⟩ := h1
  simp only [coreKept, a, b, c, d, e, g]

theorem Stable.pre_post {α} {x : M α} (h : Stable Pre x) : Stable Post x :=
  Stable.weaken (fun _ _ => Pre.post) h

theorem Pre.conv {s : MState} {c : Conv} (h : preKept { s with conv := c } = preKept s) :
    Pre s { s with conv := c } := ⟨h, MsgOnly.of_events_eq rfl⟩
theorem Pre.mism (s : MState) (e : String) : Pre s { s with mismatch := s.mismatch ++ [e] } :=
  ⟨rfl, MsgOnly.of_events_eq rfl⟩
theorem Pre.ev (s : MState) (e : String) (he : isMsgTag e = true) : Pre s { s with events := s.events ++ [e] } :=
  ⟨rfl, [e], rfl, by simpa using he⟩
theorem Post.conv {s : MState} {c : Conv} (h : coreKept { s with conv := c } = coreKept s) :
    Post s { s with conv := c } := ⟨h, MsgOnly.of_events_eq rfl⟩
theorem Post.mism (s : MState) (e : String) : Post s { s with mismatch := s.mismatch ++ [e] } :=
  ⟨rfl, MsgOnly.of_events_eq rfl⟩
theorem Post.ev (s : MState) (e : String) (he : isMsgTag e = true) : Post s { s with events := s.events ++ [e] } :=
  ⟨rfl, [e], rfl, by simpa using he⟩
theorem Post.env {s : MState} {env' : Env} {mm' : List String} : Post s { s with env := env', mismatch := mm' } :=
  ⟨rfl, MsgOnly.of_events_eq rfl⟩

/-- side condition of an `ev`: the entry is a message event -/
macro "msg_tag" : tactic => `(tactic| first
  | decide
  | (simp only [toString, String.append_assoc, isMsgTag_msg]; done)
  | (simp only [msgEvent, msgEventMsg, msgEventErr, toString, String.append_assoc, isMsgTag_msg]; done))

macro "pre_leaf" : tactic => `(tactic| first
  | exact Stable.modc _ (fun _ => Pre.conv rfl)
  | (refine Stable.modc _ (fun s => Pre.conv ?_) <;> ((try dsimp only); split <;> rfl))
  | exact Stable.mism _ (fun s => Pre.mism s _)
  | exact Stable.ev _ (fun s => Pre.ev s _ (by msg_tag)))

macro "post_leaf" : tactic => `(tactic| first
  | exact Stable.modc _ (fun _ => Post.conv rfl)
  | (refine Stable.modc _ (fun s => Post.conv ?_) <;> ((try dsimp only); split <;> rfl))
  | exact Stable.mism _ (fun s => Post.mism s _)
  | exact Stable.ev _ (fun s => Post.ev s _ (by msg_tag)))

macro "walk_core" : tactic => `(tactic| first
  | exact Stable.pure _ | exact Stable.throw _ | exact Stable.goPanic _
  | exact Stable.getc | exact Stable.get | exact Stable.now
  | pre_leaf | post_leaf
  | with_reducible apply Stable.bind | with_reducible apply Stable.tryCatch
  | with_reducible apply Stable.ite | with_reducible apply Stable.map
  | with_reducible apply Stable.forIn)

/-- `nwalk [lemmas]`: as `stable [lemmas]`, for the frames `Pre` and `Post` -/
syntax "nwalk" "[" term,* "]" : tactic
macro_rules
  | `(tactic| nwalk [$ls,*]) => do
    let tacs ← ls.getElems.mapM fun l => `(tactic| with_reducible apply $l)
    `(tactic| repeat' (first | walk_core $[| $tacs:tactic]* | with_reducible intro _ | split | dsimp only))

/-! ### version, instance tags, header: `Pre` -/

theorem msgEvent_pre (n : Nat) : Stable Pre (msgEvent n) := by
  unfold msgEvent; nwalk []
theorem generatePotentialErrorMessage_pre (code : Nat) : Stable Pre (generatePotentialErrorMessage code) := by
  unfold generatePotentialErrorMessage; nwalk []
theorem malformedMessage_pre : Stable Pre malformedMessage := by
  unfold malformedMessage; nwalk [msgEvent_pre, generatePotentialErrorMessage_pre]
theorem setKeyMatchingVersion_pre : Stable Pre setKeyMatchingVersion := by
  unfold setKeyMatchingVersion; nwalk []
theorem commitToVersionFrom_pre (vs : Nat) : Stable Pre (commitToVersionFrom vs) := by
  unfold commitToVersionFrom; nwalk [setKeyMatchingVersion_pre]
theorem checkVersion_pre (m : Bytes) : Stable Pre (checkVersion m) := by
  unfold checkVersion; nwalk [commitToVersionFrom_pre]
theorem verifyInstanceTags_pre (their our : Nat) : Stable Pre (verifyInstanceTags their our) := by
  unfold verifyInstanceTags; nwalk [malformedMessage_pre, msgEvent_pre]
theorem parseMessageHeader_pre (m : Bytes) : Stable Pre (parseMessageHeader m) := by
  unfold parseMessageHeader; nwalk [malformedMessage_pre, verifyInstanceTags_pre]

/-! ### the tail of `receiveUnit`, plaintext, error and query messages, starting an AKE: `Post` -/

theorem msgEvent_post (n : Nat) : Stable Post (msgEvent n) := (msgEvent_pre n).pre_post
theorem msgEventMsg_post (n : Nat) (m : Bytes) : Stable Post (msgEventMsg n m) := by
  unfold msgEventMsg; nwalk []
theorem msgEventErr_post (n : Nat) : Stable Post (msgEventErr n) := by
  unfold msgEventErr; nwalk []
theorem fragEncode_post (msg : Bytes) : Stable Post (fragEncode msg) := by
  unfold fragEncode; nwalk []
theorem toSendEncoded_post (ts : List Bytes) (e : Option Err) : Stable Post (toSendEncoded ts e) := by
  unfold toSendEncoded; nwalk [fragEncode_post]
theorem withInjects_post (vms : List Bytes) : Stable Post (withInjects vms) := by
  unfold withInjects; nwalk []
theorem checkPlaintextPolicies_post (p : Bytes) : Stable Post (checkPlaintextPolicies p) := by
  unfold checkPlaintextPolicies; nwalk [msgEventMsg_post]
theorem receiveErrorMessage_post (m : Bytes) : Stable Post (receiveErrorMessage m) := by
  unfold receiveErrorMessage; nwalk [msgEventMsg_post]

theorem randRead_post (n : Nat) : Stable Post (randRead n) :=
  randRead_stable (fun s env' mm' h => Post.env) n
theorem randomInto_post (n : Nat) : Stable Post (randomInto n) := by
  unfold randomInto; nwalk [randRead_post]
theorem getAke_post : Stable Post getAke := by
  unfold getAke; nwalk []
theorem modAke_post (f : Ake → Ake) : Stable Post (modAke f) := by
  unfold modAke; nwalk []
theorem optNat_post (site : String) (v : Option Nat) : Stable Post (optNat site v) := by
  unfold optNat; nwalk []
theorem akeEncrypt_post (K : Crypto) (key data : Bytes) : Stable Post (akeEncrypt K key data) := by
  unfold akeEncrypt; nwalk []
theorem initAKE_post : Stable Post initAKE := by
  unfold initAKE; nwalk []
theorem setSecretExponent_post (K : Crypto) (x : Bytes) : Stable Post (setSecretExponent K x) := by
  unfold setSecretExponent; nwalk [modAke_post]
theorem serializeDHCommit_post (K : Crypto) : Stable Post (serializeDHCommit K) := by
  unfold serializeDHCommit; nwalk [getAke_post, optNat_post]
theorem dhCommitMessage_post (K : Crypto) : Stable Post (dhCommitMessage K) := by
  unfold dhCommitMessage
  nwalk [initAKE_post, randomInto_post, setSecretExponent_post, modAke_post, getAke_post, optNat_post,
    akeEncrypt_post, serializeDHCommit_post]

theorem generateInstanceTagAux_post (fuel : Nat) : Stable Post (generateInstanceTagAux fuel) := by
  induction fuel with
  | zero => unfold generateInstanceTagAux; nwalk []
  | succ n ih => unfold generateInstanceTagAux; nwalk [randomInto_post, ih]
theorem generateInstanceTag_post : Stable Post generateInstanceTag := by
  unfold generateInstanceTag; nwalk [generateInstanceTagAux_post]
theorem messageHeader_post (t : Nat) : Stable Post (messageHeader t) := by
  unfold messageHeader; nwalk [generateInstanceTag_post]
theorem wrapMessageHeader_post (t : Nat) (m : Bytes) : Stable Post (wrapMessageHeader t m) := by
  unfold wrapMessageHeader; nwalk [messageHeader_post]
theorem sendDHCommit_post (K : Crypto) : Stable Post (sendDHCommit K) := by
  unfold sendDHCommit; nwalk [dhCommitMessage_post, wrapMessageHeader_post, modAke_post]
theorem receiveQueryMessage_post (K : Crypto) (m : Bytes) : Stable Post (receiveQueryMessage K m) := by
  unfold receiveQueryMessage
  nwalk [(commitToVersionFrom_pre _).pre_post, sendDHCommit_post, msgEventErr_post]
theorem receiveTaggedPlaintext_post (K : Crypto) (m : Bytes) : Stable Post (receiveTaggedPlaintext K m) := by
  unfold receiveTaggedPlaintext
  nwalk [(commitToVersionFrom_pre _).pre_post, sendDHCommit_post, msgEventErr_post, checkPlaintextPolicies_post]

/-! ## 2. the fragment layer -/

theorem prefixPure_events (c : Conv) (data : Bytes) : ∀ e ∈ (prefixPure c data).2.2, isMsgTag e = true := by
  unfold prefixPure
  dsimp only
  repeat' split
  all_goals (intro e he; simp only [List.mem_cons, List.not_mem_nil, or_false] at he; try (subst he; decide))

/-- `parseFragmentPrefix` leaves everything the guards read alone -/
theorem prefixPure_kept (c : Conv) (data : Bytes) :
    (prefixPure c data).2.1.msgState = c.msgState ∧ (prefixPure c data).2.1.keys = c.keys ∧
    (prefixPure c data).2.1.theirKey = c.theirKey ∧ (prefixPure c data).2.1.smp = c.smp ∧
    (prefixPure c data).2.1.sentRevealSig = c.sentRevealSig ∧ (prefixPure c data).2.1.ake = c.ake ∧
    (prefixPure c data).2.1.ssid = c.ssid ∧ (prefixPure c data).2.1.policies = c.policies := by
  rw [prefixPure_frame]
  exact ⟨rfl, rfl, rfl, rfl, rfl, rfl, rfl, rfl⟩

theorem fragSettledConv_kept (c : Conv) (msg : Bytes) :
    (fragSettledConv c msg).msgState = c.msgState ∧ (fragSettledConv c msg).keys = c.keys ∧
    (fragSettledConv c msg).theirKey = c.theirKey ∧ (fragSettledConv c msg).smp = c.smp ∧
    (fragSettledConv c msg).sentRevealSig = c.sentRevealSig ∧ (fragSettledConv c msg).ake = c.ake ∧
    (fragSettledConv c msg).ssid = c.ssid ∧ (fragSettledConv c msg).policies = c.policies := by
  obtain ⟨h1, h2, h3, h4, h5, h6, h7, h8⟩ := prefixPure_kept c msg
  unfold fragSettledConv fragPostConv
  split
  · exact ⟨h1, h2, h3, h4, h5, h6, h7, h8⟩
  · exact ⟨h1, h2, h3, h4, h5, h6, h7, h8⟩

/-- the state in which a reassembled message is processed differs from the start state by steps that come before
    the leaf message -/
theorem fragSettled_pre (s : MState) (msg : Bytes) : Pre s (fragSettled s msg) := by
  obtain ⟨h1, h2, h3, h4, h5, h6, h7, -⟩ := fragSettledConv_kept s.conv msg
  refine ⟨?_, _, List.append_assoc _ _ _, ?_⟩
  · show preKept (fragSettled s msg) = preKept s
    simp only [preKept, fragSettled, h1, h2, h3, h4, h5, h6, h7]
  · intro e he
    rcases List.mem_append.1 he with h | h
    · exact prefixPure_events _ _ e h
    · split at h
      · simp only [List.mem_singleton] at h; subst h; decide
      · cases h

theorem clearInj_post (s : MState) : Post s (clearInj s) := ⟨rfl, MsgOnly.of_events_eq rfl⟩

/-! ## 3. the leaf message of a `Receive` call -/

/-- the classifications `receiveUnit` decodes and hands to `receiveDecoded` -/
def Guess.isOtrMsg : Guess → Bool
  | .dhCommit | .dhKey | .revealSig | .signature | .data => true
  | _ => false

/-- **the leaf message**: the byte string a `receiveUnit` call finally classifies and processes — the input itself
    unless it is a fragment; for a fragment that completes a message (under the conversation's fragmentation
    context, `fragDeliver` of Proofs.FragRefine) the leaf of the reassembled message, looked for in the
    conversation `fragSettledConv` the reassembled message is processed in; nothing for a fragment that does not
    complete a message, and nothing when OTR is disabled by the policies (the input is then handed on as it is) -/
def recvLeaf : Nat → Conv → Bytes → Option Bytes
  | 0, _, _ => none
  | fuel + 1, c, msg =>
    if isOTREnabled c.policies = false then none
    else if guessMessageType msg = .fragment then
      match (fragDeliver c msg).2 with
      | [] => none
      | a :: _ => recvLeaf fuel (fragSettledConv c msg) a
    else some msg

/-- the leaf of `Receive msg` (`receive` gives `receiveUnit` the fuel `msg.length + 2`) -/
def receiveLeaf (c : Conv) (msg : Bytes) : Option Bytes := recvLeaf (msg.length + 2) c msg

/-- an unfragmented input is its own leaf -/
theorem receiveLeaf_unfragmented (c : Conv) (msg : Bytes) (hp : isOTREnabled c.policies = true)
    (hg : guessMessageType msg ≠ .fragment) : receiveLeaf c msg = some msg := by
  unfold receiveLeaf recvLeaf
  simp [hp, hg]

/-- the local function `finish` of `receiveUnit` -/
def finishR (fg : Bool) (plain : Option Bytes) (toSend : List Bytes) (err : Option Err) (shouldForget : Bool) :
    M RecvResult := do
  if shouldForget && fg then modc fun c => { c with fragCtx := FragCtx.empty }
  let enc ← toSendEncoded toSend err
  return ⟨plain, ← withInjects enc, err⟩

/-- the branch of `receiveUnit` for the five `?OTR:` message types -/
def recvEncoded (K : Crypto) (msg : Bytes) (fg : Bool) : M RecvResult :=
  match decodeEnvelope msg with
  | none => finishR fg none [] (some .invalidMessage) true
  | some decoded => do
    let (p, ts, err) ← receiveDecoded K decoded
    if err == some .otherInstance then finishR fg p ts none false
    else finishR fg p ts err true

theorem receiveUnit_encoded_eq (K : Crypto) (fuel : Nat) (msg : Bytes) (fg : Bool) (s : MState)
    (hp : isOTREnabled s.conv.policies = true) (hg : (guessMessageType msg).isOtrMsg = true) :
    runM (receiveUnit K (fuel + 1) msg fg) s = runM (recvEncoded K msg fg) s := by
  rw [receiveUnit]
  simp only [runM_bind, runM_getc, bindM_ok, hp, Bool.not_true, Bool.false_eq_true, ↓reduceIte]
  cases hgm : guessMessageType msg <;> rw [hgm] at hg <;> first | (exact absurd hg (by decide)) | rfl

theorem extractWord_drop (d r : Bytes) (w : Nat) (h : extractWord d = some (w, r)) : r = d.drop 4 := by
  unfold extractWord at h
  split at h
  · simp only [Option.some.injEq, Prod.mk.injEq] at h
    rw [← h.2]; rfl
  · cases h

/-- `header ‖ body` is the decoded message, the header being its first 3 (OTRv2) or 11 (OTRv3) bytes -/
def HeaderOf (decoded header body : Bytes) : Prop :=
  header ++ body = decoded ∧ (header = decoded.take 3 ∨ header = decoded.take 11)

theorem parseMessageHeader_headerOf (msg : Bytes) (s s' : MState) (header body : Bytes)
    (h : runM (parseMessageHeader msg) s = .ok (.ok (header, body), s')) : HeaderOf msg header body := by
  unfold parseMessageHeader at h
  simp only [runM_bind, runM_getc, bindM_ok] at h
  split at h
  · simp at h
  · simp only [runM_ite, runM_throw, runM_pure, runM_bind] at h
    split at h
    · simp at h
    · simp only [Res.ok.injEq, Prod.mk.injEq, Except.ok.injEq] at h
      obtain ⟨⟨h1, h2⟩, -⟩ := h
      subst h1 h2
      exact ⟨List.take_append_drop 3 msg, Or.inl rfl⟩
  · simp only [runM_ite, runM_throw, runM_pure, runM_bind] at h
    split at h
    · cases hm : runM malformedMessage s with
      | panic p => rw [hm] at h; simp at h
      | ok v => obtain ⟨v, s1⟩ := v; rw [hm] at h; cases v <;> simp at h
    · split at h
      · simp at h
      · rename_i sender r1 hw1
        split at h
        · simp at h
        · rename_i receiver body' hw2
          rw [runM_bind] at h
          cases hv : runM (verifyInstanceTags sender receiver) s with
          | panic p => rw [hv] at h; simp at h
          | ok v =>
            obtain ⟨v, s1⟩ := v
            rw [hv] at h
            cases v with
            | error e => simp at h
            | ok u =>
              simp only [bindM_ok, runM_pure, Res.ok.injEq, Prod.mk.injEq, Except.ok.injEq] at h
              obtain ⟨⟨h1, h2⟩, -⟩ := h
              subst h1 h2
              have e1 := extractWord_drop _ _ _ hw1
              have e2 := extractWord_drop _ _ _ hw2
              refine ⟨?_, Or.inr rfl⟩
              rw [e2, e1, List.drop_drop, List.drop_drop]
              exact List.take_append_drop 11 msg

/-- the step that processes the leaf message: `receiveDataMessage` for a data message, `processAKE` for every other
    message type; `pc` is the plaintext the step hands back -/
def CoreStep (K : Crypto) (s1 : MState) (header body : Bytes) (s2 : MState) (pc : Option Bytes) : Prop :=
  ((header.getD 2 0).toNat = msgTypeData ∧
    ∃ r, runM (receiveDataMessage K header body) s1 = .ok (r, s2) ∧ (∀ p ts e, r = .ok (p, ts, e) → pc = p) ∧
      (∀ e, r = .error e → pc = none)) ∨
  ((header.getD 2 0).toNat ≠ msgTypeData ∧ pc = none ∧
    ∃ r, runM (processAKE K (header.getD 2 0).toNat body) s1 = .ok (r, s2))

theorem receiveDecodedCore_shape (K : Crypto) (decoded : Bytes) (s s' : MState)
    (r : Except Err (Option Bytes × List Bytes × Option Err × Bool))
    (h : runM (receiveDecodedCore K decoded) s = .ok (r, s')) :
    (Post s s' ∧ ∀ x, r = .ok x → x.1 = none) ∨
    ∃ header body s1 s2 pc, HeaderOf decoded header body ∧ Pre s s1 ∧ CoreStep K s1 header body s2 pc ∧
      Post s2 s' ∧ ∀ x, r = .ok x → x.1 = pc := by
  unfold receiveDecodedCore at h
  simp only [runM_bind, runM_getc, bindM_ok, runM_tryCatch] at h
  cases h1 : runM (checkVersion decoded) s with
  | panic p => rw [h1] at h; simp at h
  | ok v1 =>
    obtain ⟨v1, sA⟩ := v1
    have hpre1 : Pre s sA := checkVersion_pre decoded s v1 sA h1
    rw [h1] at h
    cases v1 with
    | error e =>
      simp only [bindM_ok, bindM_error, catchM_ok, catchM_error, runM_pure, Res.ok.injEq, Prod.mk.injEq] at h
      obtain ⟨hr, hs⟩ := h
      subst hr hs
      exact Or.inl ⟨hpre1.post, fun x hx => by cases hx; rfl⟩
    | ok u =>
      simp only [bindM_ok, bindM_error, catchM_ok, catchM_error, runM_pure, runM_bind, runM_tryCatch] at h
      cases h2 : runM (parseMessageHeader decoded) sA with
      | panic p => rw [h2] at h; simp only [bindM_panic, catchM_panic] at h; cases h
      | ok v2 =>
        obtain ⟨v2, sB⟩ := v2
        have hpre2 : Pre s sB := Frame.trans hpre1 (parseMessageHeader_pre decoded sA v2 sB h2)
        rw [h2] at h
        cases v2 with
        | error e =>
          simp only [bindM_ok, bindM_error, catchM_ok, catchM_error, runM_pure, Res.ok.injEq, Prod.mk.injEq] at h
          obtain ⟨hr, hs⟩ := h
          subst hr hs
          exact Or.inl ⟨hpre2.post, fun x hx => by cases hx; rfl⟩
        | ok hb =>
          obtain ⟨header, body⟩ := hb
          have hho := parseMessageHeader_headerOf decoded sA sB header body h2
          simp only [bindM_ok, bindM_error, catchM_ok, catchM_error, runM_pure] at h
          by_cases ht : (header.getD 2 0).toNat = msgTypeData
          · rw [if_pos ht, runM_bind] at h
            cases h3 : runM (receiveDataMessage K header body) sB with
            | panic p => rw [h3] at h; cases h
            | ok v3 =>
              obtain ⟨v3, sC⟩ := v3
              rw [h3] at h
              right
              cases v3 with
              | error e =>
                simp only [bindM_error, Res.ok.injEq, Prod.mk.injEq] at h
                obtain ⟨hr, hs⟩ := h
                subst hr hs
                exact ⟨header, body, sB, sC, none, hho, hpre2, Or.inl ⟨ht, _, h3, (fun _ _ _ hx => by cases hx), fun _ _ => rfl⟩,
                  Frame.refl _, fun x hx => by cases hx⟩
              | ok x3 =>
                simp only [bindM_ok, runM_pure, Res.ok.injEq, Prod.mk.injEq] at h
                obtain ⟨hr, hs⟩ := h
                subst hr hs
                exact ⟨header, body, sB, sC, x3.1, hho, hpre2,
                  Or.inl ⟨ht, _, h3, (fun p ts e hx => by cases hx; rfl), fun _ hx => by cases hx⟩, Frame.refl _, fun x hx => by cases hx; rfl⟩
          · rw [if_neg ht] at h
            simp only [runM_bind, runM_getc, bindM_ok] at h
            cases h3 : runM (processAKE K (header.getD 2 0).toNat body) sB with
            | panic p => rw [h3] at h; cases h
            | ok v3 =>
              obtain ⟨v3, sC⟩ := v3
              rw [h3] at h
              right
              cases v3 with
              | error e =>
                simp only [bindM_error, Res.ok.injEq, Prod.mk.injEq] at h
                obtain ⟨hr, hs⟩ := h
                subst hr hs
                exact ⟨header, body, sB, sC, none, hho, hpre2, Or.inr ⟨ht, rfl, _, h3⟩,
                  Frame.refl _, fun x hx => by cases hx⟩
              | ok x3 =>
                simp only [bindM_ok] at h
                have hpost : Post sC s' := (by nwalk [msgEventErr_post] : Stable Post _) _ _ _ h
                have hres : ∀ x, r = .ok x → x.1 = none := by
                  intro x hx; subst hx
                  exact (by repeat' (first | exact ResultOnly.pure rfl | refine ResultOnly.bind fun _ => ?_ | split) :
                    ResultOnly (fun x : Option Bytes × List Bytes × Option Err × Bool => x.1 = none) _) _ _ _ h
                exact ⟨header, body, sB, sC, none, hho, hpre2, Or.inr ⟨ht, rfl, _, h3⟩, hpost, hres⟩

theorem receiveDecoded_shape (K : Crypto) (decoded : Bytes) (s s' : MState)
    (r : Except Err (Option Bytes × List Bytes × Option Err))
    (h : runM (receiveDecoded K decoded) s = .ok (r, s')) :
    (Post s s' ∧ ∀ x, r = .ok x → x.1 = none) ∨
    ∃ header body s1 s2 pc, HeaderOf decoded header body ∧ Pre s s1 ∧ CoreStep K s1 header body s2 pc ∧
      Post s2 s' ∧ ∀ x, r = .ok x → x.1 = pc := by
  unfold receiveDecoded at h
  simp only [runM_bind, runM_getc, bindM_ok] at h
  cases h1 : runM (receiveDecodedCore K decoded) s with
  | panic p => rw [h1] at h; cases h
  | ok v1 =>
    obtain ⟨v1, sA⟩ := v1
    have hsh := receiveDecodedCore_shape K decoded s sA v1 h1
    rw [h1] at h
    cases v1 with
    | error e =>
      simp only [bindM_error, Res.ok.injEq, Prod.mk.injEq] at h
      obtain ⟨hr, hs⟩ := h
      subst hr hs
      rcases hsh with ⟨hp, -⟩ | ⟨header, body, s1, s2, pc, h1, h2, h3, h4, -⟩
      · exact Or.inl ⟨hp, fun x hx => by cases hx⟩
      · exact Or.inr ⟨header, body, s1, s2, pc, h1, h2, h3, h4, fun x hx => by cases hx⟩
    | ok x1 =>
      obtain ⟨p, ts, err, rd⟩ := x1
      simp only [bindM_ok] at h
      have hpost : Post sA s' := (by nwalk [] : Stable Post _) _ _ _ h
      have hres : ∀ x, r = .ok x → x.1 = p := by
        intro x hx; subst hx
        exact (by repeat' (first | exact ResultOnly.pure rfl | refine ResultOnly.bind fun _ => ?_ | split) :
          ResultOnly (fun x : Option Bytes × List Bytes × Option Err => x.1 = p) _) _ _ _ h
      rcases hsh with ⟨hp, hn⟩ | ⟨header, body, s1, s2, pc, h1, h2, h3, h4, hn⟩
      · exact Or.inl ⟨Frame.trans hp hpost, fun x hx => by rw [hres x hx]; exact hn _ rfl⟩
      · exact Or.inr ⟨header, body, s1, s2, pc, h1, h2, h3, Frame.trans h4 hpost,
          fun x hx => by rw [hres x hx]; exact hn _ rfl⟩

theorem finishR_post (fg : Bool) (plain : Option Bytes) (toSend : List Bytes) (err : Option Err) (sf : Bool) :
    Stable Post (finishR fg plain toSend err sf) := by
  unfold finishR; nwalk [toSendEncoded_post, withInjects_post]

theorem finishR_plain (fg : Bool) (plain : Option Bytes) (toSend : List Bytes) (err : Option Err) (sf : Bool) :
    ResultOnly (fun rr : RecvResult => rr.plain = plain) (finishR fg plain toSend err sf) := by
  unfold finishR
  repeat' (first | exact ResultOnly.pure rfl | refine ResultOnly.bind fun _ => ?_ | split)

/-- what an `?OTR:` leaf message does -/
def EncShape (K : Crypto) (s : MState) (leaf : Bytes) (r : Except Err RecvResult) (s' : MState) : Prop :=
  (Post s s' ∧ ∀ rr, r = .ok rr → rr.plain = none) ∨
  ∃ decoded header body s1 s2 pc, decodeEnvelope leaf = some decoded ∧ HeaderOf decoded header body ∧
    Pre s s1 ∧ CoreStep K s1 header body s2 pc ∧ Post s2 s' ∧ ∀ rr, r = .ok rr → rr.plain = pc

theorem recvEncoded_shape (K : Crypto) (msg : Bytes) (fg : Bool) (s s' : MState) (r : Except Err RecvResult)
    (h : runM (recvEncoded K msg fg) s = .ok (r, s')) : EncShape K s msg r s' := by
  unfold recvEncoded at h
  split at h
  · exact Or.inl ⟨finishR_post _ _ _ _ _ _ _ _ h, fun rr hr => by subst hr; exact finishR_plain _ _ _ _ _ _ _ _ h⟩
  · rename_i decoded hdec
    rw [runM_bind] at h
    cases h1 : runM (receiveDecoded K decoded) s with
    | panic p => rw [h1] at h; cases h
    | ok v1 =>
      obtain ⟨v1, sA⟩ := v1
      have hsh := receiveDecoded_shape K decoded s sA v1 h1
      rw [h1] at h
      cases v1 with
      | error e =>
        simp only [bindM_error, Res.ok.injEq, Prod.mk.injEq] at h
        obtain ⟨hr, hs⟩ := h
        subst hr hs
        rcases hsh with ⟨hp, -⟩ | ⟨header, body, s1, s2, pc, h1, h2, h3, h4, -⟩
        · exact Or.inl ⟨hp, fun x hx => by cases hx⟩
        · exact Or.inr ⟨decoded, header, body, s1, s2, pc, hdec, h1, h2, h3, h4, fun x hx => by cases hx⟩
      | ok x1 =>
        obtain ⟨p, ts, err⟩ := x1
        simp only [bindM_ok] at h
        have hpost : Post sA s' := by
          split at h
          · exact finishR_post _ _ _ _ _ _ _ _ h
          · exact finishR_post _ _ _ _ _ _ _ _ h
        have hres : ∀ rr, r = .ok rr → rr.plain = p := by
          intro rr hr; subst hr
          split at h
          · exact finishR_plain _ _ _ _ _ _ _ _ h
          · exact finishR_plain _ _ _ _ _ _ _ _ h
        rcases hsh with ⟨hp, hn⟩ | ⟨header, body, s1, s2, pc, h1, h2, h3, h4, hn⟩
        · exact Or.inl ⟨Frame.trans hp hpost, fun x hx => by rw [hres x hx]; exact hn _ rfl⟩
        · exact Or.inr ⟨decoded, header, body, s1, s2, pc, hdec, h1, h2, h3, Frame.trans h4 hpost,
            fun x hx => by rw [hres x hx]; exact hn _ rfl⟩


theorem receiveUnit_other_post (K : Crypto) (fuel : Nat) (msg : Bytes) (fg : Bool)
    (hg : guessMessageType msg ≠ .fragment) (hg2 : (guessMessageType msg).isOtrMsg = false) :
    Stable Post (receiveUnit K (fuel + 1) msg fg) := by
  rw [receiveUnit]
  refine Stable.bind Stable.getc fun c => ?_
  split
  · exact Stable.pure _
  · dsimp only
    split
    all_goals first
      | (rename_i heq; exact absurd heq hg)
      | (rename_i heq; rw [heq] at hg2; exact absurd hg2 (by decide))
      | (nwalk [receiveErrorMessage_post, withInjects_post, receiveQueryMessage_post, receiveTaggedPlaintext_post,
          checkPlaintextPolicies_post, toSendEncoded_post, msgEvent_post]; done)

/-- **what a call of `receiveUnit` does, in terms of its leaf message**: if the leaf is one of the five `?OTR:`
    message types, `EncShape`; in every other case only steps of the kind `Post` -/
def Shape (K : Crypto) (fuel : Nat) (s : MState) (msg : Bytes) (r : Except Err RecvResult) (s' : MState) : Prop :=
  match recvLeaf fuel s.conv msg with
  | some leaf => if (guessMessageType leaf).isOtrMsg = true then EncShape K s leaf r s' else Post s s'
  | none => Post s s'


theorem EncShape.wrap {K : Crypto} {a b c d : MState} {leaf : Bytes} {r r' : Except Err RecvResult}
    (h1 : Pre a b) (h : EncShape K b leaf r c) (h2 : Post c d)
    (hr : ∀ rr', r' = .ok rr' → ∃ rr, r = .ok rr ∧ rr'.plain = rr.plain) : EncShape K a leaf r' d := by
  rcases h with ⟨hp, hn⟩ | ⟨decoded, header, body, s1, s2, pc, g1, g2, g3, g4, g5, hn⟩
  · refine Or.inl ⟨Frame.trans h1.post (Frame.trans hp h2), fun rr' hx => ?_⟩
    obtain ⟨rr, hrr, hpl⟩ := hr rr' hx
    rw [hpl]; exact hn rr hrr
  · refine Or.inr ⟨decoded, header, body, s1, s2, pc, g1, g2, Frame.trans h1 g3, g4, Frame.trans g5 h2, fun rr' hx => ?_⟩
    obtain ⟨rr, hrr, hpl⟩ := hr rr' hx
    rw [hpl]; exact hn rr hrr

theorem receiveUnit_shape (K : Crypto) : ∀ (fuel : Nat) (msg : Bytes) (fg : Bool) (s : MState)
    (r : Except Err RecvResult) (s' : MState),
    runM (receiveUnit K fuel msg fg) s = .ok (r, s') → Shape K fuel s msg r s' := by
  intro fuel
  induction fuel with
  | zero =>
    intro msg fg s r s' h
    rw [receiveUnit] at h
    simp only [runM_bind, runM_mism, bindM_ok, runM_pure, Res.ok.injEq, Prod.mk.injEq] at h
    simp only [Shape, recvLeaf]
    rw [← h.2]
    exact Post.mism s _
  | succ fuel ih =>
    intro msg fg s r s' h
    by_cases hp : isOTREnabled s.conv.policies = true
    · by_cases hg : guessMessageType msg = .fragment
      · rw [receiveUnit_fragment_refines K fuel msg fg s hp hg] at h
        change (match (fragDeliver s.conv msg).2 with
          | [] => _
          | a :: _ => _) = _ at h
        cases hd : (fragDeliver s.conv msg).2 with
        | nil =>
          rw [hd] at h
          simp only [Res.ok.injEq, Prod.mk.injEq] at h
          simp only [Shape, recvLeaf, hp, hg, hd, Bool.true_eq_false, ↓reduceIte]
          rw [← h.2]
          exact Frame.trans (fragSettled_pre s msg).post (clearInj_post _)
        | cons a rest =>
          rw [hd] at h
          simp only at h
          cases hin : runM (receiveUnit K fuel a false) (fragSettled s msg) with
          | panic p => rw [hin] at h; cases h
          | ok v =>
            obtain ⟨v, s2⟩ := v
            have hsh := ih a false (fragSettled s msg) v s2 hin
            rw [hin] at h
            have hpost : Post s2 s' ∧ ∀ rr', r = .ok rr' → ∃ rr, v = .ok rr ∧ rr'.plain = rr.plain := by
              cases v with
              | error e =>
                simp only [bindM_error, Res.ok.injEq, Prod.mk.injEq] at h
                rw [← h.2, ← h.1]
                exact ⟨Frame.refl _, fun rr' hx => by cases hx⟩
              | ok rr =>
                simp only [bindM_ok, Res.ok.injEq, Prod.mk.injEq] at h
                rw [← h.2, ← h.1]
                exact ⟨clearInj_post _, fun rr' hx => ⟨rr, rfl, by cases hx; rfl⟩⟩
            simp only [Shape, recvLeaf, hp, hg, hd, Bool.true_eq_false, ↓reduceIte]
            simp only [Shape] at hsh
            change (match recvLeaf fuel (fragSettledConv s.conv msg) a with
              | some leaf => _
              | none => _) at hsh
            cases hl : recvLeaf fuel (fragSettledConv s.conv msg) a with
            | none =>
              rw [hl] at hsh
              exact Frame.trans (fragSettled_pre s msg).post (Frame.trans hsh hpost.1)
            | some leaf =>
              rw [hl] at hsh
              simp only at hsh ⊢
              split
              · rename_i ho
                rw [if_pos ho] at hsh
                exact EncShape.wrap (fragSettled_pre s msg) hsh hpost.1 hpost.2
              · rename_i ho
                rw [if_neg ho] at hsh
                exact Frame.trans (fragSettled_pre s msg).post (Frame.trans hsh hpost.1)
      · by_cases ho : (guessMessageType msg).isOtrMsg = true
        · rw [receiveUnit_encoded_eq K fuel msg fg s hp ho] at h
          simp only [Shape, recvLeaf, hp, hg, ho, Bool.true_eq_false, ↓reduceIte]
          exact recvEncoded_shape K msg fg s s' r h
        · simp only [Shape, recvLeaf, hp, hg, ho, Bool.true_eq_false, Bool.false_eq_true, ↓reduceIte]
          exact receiveUnit_other_post K fuel msg fg hg (by simpa using ho) s r s' h
    · have hp' : isOTREnabled s.conv.policies = false := by simpa using hp
      rw [receiveUnit] at h
      simp only [runM_bind, runM_getc, bindM_ok, hp', Bool.not_false, ↓reduceIte, runM_pure, Res.ok.injEq,
        Prod.mk.injEq] at h
      simp only [Shape, recvLeaf, hp', ↓reduceIte]
      rw [← h.2]
      exact Frame.refl _

/-! ## 4. the data step -/

/-- **the data step, classified**: `receiveDataMessage` on header and body either finds all five guards of
    `processDataMessageRaw` passed (`Accepts`; what it then hands back as plaintext is nothing or the NUL-terminated
    prefix of the decryption), or it is a `Post` step that delivers nothing -/
theorem receiveDataMessage_core (K : Crypto) (header body : Bytes) (s1 s2 : MState)
    (r : Except Err (Option Bytes × List Bytes × Option Err))
    (h : runM (receiveDataMessage K header body) s1 = .ok (r, s2)) :
    (∃ dm sk, Accepts K header body s1 dm sk ∧
      ∀ p ts e, r = .ok (p, ts, e) → p = none ∨ p = some ((plainBytesOf K sk dm).takeWhile (· != 0))) ∨
    (Post s1 s2 ∧ ∀ p ts e, r = .ok (p, ts, e) → p = none) := by
  by_cases hA : ∃ dm sk, Accepts K header body s1 dm sk
  · left
    obtain ⟨dm, sk, hA⟩ := hA
    refine ⟨dm, sk, hA, ?_⟩
    have hraw : runM (processDataMessageRaw K header body) s1 = runM (acceptCont K dm sk) (acceptState s1 dm sk) :=
      raw_of_accepts K header body s1 dm sk hA
    unfold receiveDataMessage at h
    rw [runM_bind, hraw] at h
    cases hac : runM (acceptCont K dm sk) (acceptState s1 dm sk) with
    | panic p => rw [hac] at h; cases h
    | ok v =>
      obtain ⟨v, t⟩ := v
      rw [hac] at h
      cases v with
      | error e =>
        simp only [bindM_error, Res.ok.injEq, Prod.mk.injEq] at h
        intro p ts e' hx; rw [← h.1] at hx; cases hx
      | ok x =>
        obtain ⟨plain, toSend, err⟩ := x
        have hpl := acceptCont_plain K dm sk _ _ plain toSend err hac
        simp only [bindM_ok] at h
        intro p ts e' hx
        subst hx
        have : p = none ∨ p = plain :=
          (by
            repeat' (first
              | exact ResultOnly.pure (Or.inl rfl)
              | exact ResultOnly.pure (Or.inr rfl)
              | refine ResultOnly.bind fun _ => ?_
              | split) :
            ResultOnly (fun x : Option Bytes × List Bytes × Option Err => x.1 = none ∨ x.1 = plain) _) _ _ _ h
        rcases this with h0 | h0
        · exact Or.inl h0
        · rw [h0]; exact hpl
  · right
    obtain ⟨e, t, hr, hc⟩ := raw_reject_rejAll K header body s1 hA
    obtain ⟨e', t', hr', -, -, hev, -⟩ := raw_of_not_accepts K header body s1 hA
    rw [hr] at hr'
    simp only [Res.ok.injEq, Prod.mk.injEq, Except.ok.injEq, Option.some.injEq] at hr'
    obtain ⟨⟨-, -, -⟩, ht⟩ := hr'
    subst ht
    have hst : Post s1 t := by
      refine ⟨by simp only [coreKept, hc], ?_⟩
      rcases hev with hev | hev
      · exact MsgOnly.of_events_eq hev
      · exact ⟨["msg:7"], hev, by intro x hx; simp only [List.mem_singleton] at hx; subst hx; decide⟩
    have h' : run' (receiveDataMessage K header body) s1 = .ok (r, s2) := h
    rw [recvData_of_raw_reject K header body s1 t e hr] at h'
    split at h'
    · simp only [Res.ok.injEq, Prod.mk.injEq] at h'
      rw [← h'.2, ← h'.1]
      exact ⟨hst, fun p ts e hx => by cases hx; rfl⟩
    · simp only [Res.ok.injEq, Prod.mk.injEq] at h'
      rw [← h'.2, ← h'.1]
      refine ⟨Frame.trans hst ?_, fun p ts e hx => by cases hx; rfl⟩
      exact (by unfold notifyDataMessageError; nwalk [msgEvent_post, (generatePotentialErrorMessage_pre _).pre_post] :
        Stable Post (notifyDataMessageError e)) t _ _ (run'_notify e t)

/-! ## 5. the key exchange step -/

theorem isSecEvent_eq_isSecTag : isSecEvent = isSecTag := rfl

theorem akeStamp_life (st : AuthState) (single : Option Bytes) (err : Option Err) :
    Stable Life (akeStamp st single err) := by
  unfold akeStamp; life_walk [getAke_life, modAke_life]

theorem akeTail_life (K : Crypto) (st : AuthState) (x : AuthState × Option Bytes × Option Err) :
    Stable Life (akeTail K st x) := by
  unfold akeTail; life_walk [modAke_life, retransmitAfterCompletedExchange_life, akeStamp_life]

/-- a Signature message received in `awaitingSig` passed every check of `c01_guard_initiator` /
    `c01_guard_encsig` (`EncSigOK`: MAC over the encrypted signature under the keys of this exchange, well-formed
    `pubkey ‖ keyid ‖ signature`, DSA signature by `pk` over both DH values, the key and the key id), and the
    conversation `c'` reports exactly the verified values (`c01_finish_initiator`) -/
def SigAccepted (K : Crypto) (c : Conv) (body : Bytes) (c' : Conv) : Prop :=
  ∃ a rs m pk keyID theirs ours, c.ake = some a ∧ a.state = .awaitingSig rs ∧
    Sig.deserialize body = some m ∧ a.theirPublicValue = some theirs ∧ a.ourPublicValue = some ours ∧
    EncSigOK K m.encryptedSig m.macSig a.sigKey theirs ours pk keyID ∧
    c'.msgState = .encrypted ∧ c'.theirKey = some pk ∧
    c'.keys.theirCur = some theirs ∧ c'.keys.theirKeyID = keyID ∧
    c'.ssid = (if c.msgState = .encrypted then a.ssid else c.ssid) ∧
    c'.sentRevealSig = (if c.msgState = .encrypted then a.sentRevealSig else c.sentRevealSig)

/-- a Reveal-Signature message received in `awaitingRevealSig` passed every check of `c01_guard_responder`
    (`RespGuards`: the revealed key opens the commitment, `2 ≤ g^x ≤ p − 2`, `EncSigOK` under the keys derived from
    this exchange's secret), and the conversation `c'` reports exactly the verified values, with the session id
    derived from this exchange's secret (`c01_finish_responder`) -/
def RevealSigAccepted (K : Crypto) (c : Conv) (body : Bytes) (c' : Conv) : Prop :=
  ∃ a gx pk keyID, c.ake = some a ∧ a.state = .awaitingRevealSig ∧ RespGuards K body a gx pk keyID ∧
    c'.msgState = .encrypted ∧ c'.theirKey = some pk ∧
    c'.keys.theirCur = some gx ∧ c'.keys.theirKeyID = keyID ∧
    c'.ssid = (K.hash2 (0x00 :: appendMPI [] (K.gexp gx (bytesToNat (a.secretExponent.getD []))))).take 8 ∧
    c'.sentRevealSig = false

/-- a key exchange message that did not complete an exchange -/
def AkeQuiet (s s' : MState) : Prop :=
  s'.conv.msgState = s.conv.msgState ∧ s'.conv.theirKey = s.conv.theirKey ∧
  s'.conv.keys.material = s.conv.keys.material ∧
  (s.conv.msgState = .encrypted → s'.conv.ssid = s.conv.ssid ∧ s'.conv.sentRevealSig = s.conv.sentRevealSig) ∧
  Life s s'

theorem life_of_up {s s' : MState} (h : Up s s') (hf : s'.events.filter isSecTag = s.events.filter isSecTag) :
    Life s s' := by
  rcases h with h | ⟨-, -, -, evs, he, hx⟩
  · exact h
  · exfalso
    rw [he, List.filter_append, hx] at hf
    have := List.append_right_eq_self.mp hf
    cases this

theorem AkeQuiet.of_quietKept {s s' : MState} (hq : quietKept s' = quietKept s) (hu : Up s s') : AkeQuiet s s' := by
  unfold quietKept at hq
  simp only [Prod.mk.injEq] at hq
  obtain ⟨q1, q2, q3, q4, q5⟩ := hq
  refine ⟨q1, q2, q3, fun he => ?_, life_of_up hu q5⟩
  have he' : s'.conv.msgState = .encrypted := by rw [q1]; exact he
  rw [if_pos he', if_pos he] at q4
  exact Prod.mk.inj (Option.some.inj q4)

theorem processAKE_sig_core (K : Crypto) (msg rs : Bytes) (s s' : MState) (a : Ake) (ha : s.conv.ake = some a)
    (hst : a.state = .awaitingSig rs) (r : Except Err (List Bytes × Option Err))
    (h : runM (processAKE K msgTypeSig msg) s = .ok (r, s')) :
    (SigAccepted K s.conv msg s'.conv ∧ Fin s s') ∨ AkeQuiet s s' := by
  have hup := processAKE_up K msgTypeSig msg s r s' h
  rcases c01_processAKE_sig K msg rs s s' a ha hst r h with hleft | hq
  · rw [processAKE_run_some K _ msg s a ha, hst, akeRest_sig] at h
    cases hx : runM (recvSig K (.awaitingSig rs) msg) s with
    | panic p => rw [hx] at h; cases h
    | ok v =>
      obtain ⟨v, s1⟩ := v
      rw [hx] at h
      rcases recvSig_awaiting_cases K msg rs s s1 a ha v hx with ⟨om, e, hv⟩ | ⟨er, hv, hs1⟩
      · left
        subst hv
        simp only [bindM_ok] at h
        have hl : Life s1 s' := akeTail_life K _ _ _ _ _ h
        have hfin : Fin s s1 := by
          rcases recvSig_completes K rs msg s s1 .none om e hx with ⟨-, hf⟩ | ⟨hne, -⟩
          · exact hf
          · cases hne
        obtain ⟨m, pk, keyID, theirs, ours, g1, g2, g3, g4, g5, g6, g7, g8, g9, g10⟩ := hleft
        exact ⟨⟨a, rs, m, pk, keyID, theirs, ours, ha, hst, g1, g2, g3, g4, g5, g6, g7, g8, g9, g10⟩, Fin.post hfin hl⟩
      · right
        subst hv hs1
        simp only [bindM_ok] at h
        exact AkeQuiet.of_quietKept (akeTail_quiet K _ _ _ _ _ h) hup
  · exact Or.inr (AkeQuiet.of_quietKept hq hup)


theorem processAKE_revealSig_core (K : Crypto) (msg : Bytes) (s s' : MState) (a : Ake) (ha : s.conv.ake = some a)
    (hst : a.state = .awaitingRevealSig) (r : Except Err (List Bytes × Option Err))
    (h : runM (processAKE K msgTypeRevealSig msg) s = .ok (r, s')) :
    (RevealSigAccepted K s.conv msg s'.conv ∧ Fin s s') ∨ AkeQuiet s s' := by
  have hup := processAKE_up K msgTypeRevealSig msg s r s' h
  rcases c01_processAKE_revealSig K msg s s' a ha hst r h with hleft | ⟨g1, g2, g3, g4, g5, g6⟩
  · rw [processAKE_run_some K _ msg s a ha, hst, akeRest_revealSig] at h
    cases hx : runM (recvRevealSig K .awaitingRevealSig msg) s with
    | panic p => rw [hx] at h; cases h
    | ok v =>
      obtain ⟨v, s1⟩ := v
      rw [hx] at h
      rcases recvRevealSig_awaiting_cases K msg s s1 a ha v hx with ⟨om, e, hv⟩ | ⟨er, hv, hev, hms, hks, hss, hrs, htk⟩
      · left
        subst hv
        simp only [bindM_ok] at h
        have hl : Life s1 s' := akeTail_life K _ _ _ _ _ h
        have hfin : Fin s s1 := by
          rcases recvRevealSig_completes K msg s s1 .none om e hx with ⟨-, hf⟩ | ⟨hne, -⟩
          · exact hf
          · cases hne
        obtain ⟨gx, pk, keyID, k1, k2, k3, k4, k5, k6, k7⟩ := hleft
        exact ⟨⟨a, gx, pk, keyID, ha, hst, k1, k2, k3, k4, k5, k6, k7⟩, Fin.post hfin hl⟩
      · right
        subst hv
        simp only [bindM_ok] at h
        have hq : quietKept s' = quietKept s1 := akeTail_quiet K _ _ _ _ _ h
        unfold quietKept at hq
        simp only [Prod.mk.injEq] at hq
        obtain ⟨q1, q2, q3, q4, q5⟩ := hq
        refine ⟨q1.trans hms, q2.trans htk, by rw [q3, hks], fun he => ?_, life_of_up hup ?_⟩
        · have he1 : s1.conv.msgState = .encrypted := by rw [hms]; exact he
          have he' : s'.conv.msgState = .encrypted := by rw [q1]; exact he1
          rw [if_pos he', if_pos he1] at q4
          have hp := Prod.mk.inj (Option.some.inj q4)
          exact ⟨hp.1.trans (hss he), hp.2.trans hrs⟩
        · rw [← isSecEvent_eq_isSecTag, q5, hev]
  · right
    refine ⟨g1, g6, g2, fun he => ⟨g3 he, g4 he⟩, life_of_up hup ?_⟩
    rw [← isSecEvent_eq_isSecTag]; exact g5

/-- **the key exchange step, classified**: `processAKE` either completed an exchange — on a Signature message
    in `awaitingSig` or a Reveal-Signature message in `awaitingRevealSig`, every guard passed, the verified values
    installed, exactly one `akeHasFinished` (`Fin`) — or it was quiet -/
theorem processAKE_core (K : Crypto) (t : Nat) (msg : Bytes) (s s' : MState)
    (r : Except Err (List Bytes × Option Err)) (h : runM (processAKE K t msg) s = .ok (r, s')) :
    (t = msgTypeSig ∧ SigAccepted K s.conv msg s'.conv ∧ Fin s s') ∨
    (t = msgTypeRevealSig ∧ RevealSigAccepted K s.conv msg s'.conv ∧ Fin s s') ∨
    AkeQuiet s s' := by
  by_cases hc : finishingCombination t (authStateOf s.conv)
  · cases ha : s.conv.ake with
    | none =>
      rw [authStateOf_none ha] at hc
      rcases hc with ⟨-, h2⟩ | ⟨-, rs, h2⟩ <;> cases h2
    | some a =>
      rw [authStateOf_some ha] at hc
      rcases hc with ⟨h1, h2⟩ | ⟨h1, rs, h2⟩
      · subst h1
        rcases processAKE_revealSig_core K msg s s' a ha h2 r h with ⟨x, y⟩ | x
        · exact Or.inr (Or.inl ⟨rfl, x, y⟩)
        · exact Or.inr (Or.inr x)
      · subst h1
        rcases processAKE_sig_core K msg rs s s' a ha h2 r h with ⟨x, y⟩ | x
        · exact Or.inl ⟨rfl, x, y⟩
        · exact Or.inr (Or.inr x)
  · exact Or.inr (Or.inr (AkeQuiet.of_quietKept (processAKE_quiet K t msg s r s' h hc) (processAKE_up K t msg s r s' h)))

/-! ## 6. the data path never touches the peer's long-term key -/

/-- the peer's long-term key is unchanged -/
abbrev TK : MState → MState → Prop := Keeps (fun s => s.conv.theirKey)

theorem Stable.send_tk {α} {x : M α} (h : Stable SendFrame x) : Stable TK x :=
  Stable.mono (Keeps.comp sendKept (fun p => p.2.2.2.2.2.2.2.2.2.2.2.1)) h

theorem randRead_tk (n : Nat) : Stable TK (randRead n) := randRead_stable (fun _ _ _ _ => rfl) n
theorem optNat_tk (site : String) (v : Option Nat) : Stable TK (optNat site v) := by
  unfold optNat; stable []
theorem msgEvent_tk (n : Nat) : Stable TK (msgEvent n) := by
  unfold msgEvent; stable []
theorem smpEvent_tk (n p : Nat) : Stable TK (smpEvent n p) := by
  unfold smpEvent; stable []
theorem smpEventQ_tk (n p : Nat) (q : Bytes) : Stable TK (smpEventQ n p q) := by
  unfold smpEventQ; stable []
theorem setSmpState_tk (st : SmpState) : Stable TK (setSmpState st) := by
  unfold setSmpState; stable []
theorem smpAbortWith_tk (n : Nat) : Stable TK (smpAbortWith n) := by
  unfold smpAbortWith; stable [smpEvent_tk, setSmpState_tk]
theorem paramLen_tk : Stable TK paramLen := by
  unfold paramLen; stable []
theorem randMPIs_tk (k len : Nat) : Stable TK (randMPIs k len) := by
  induction k with
  | zero => unfold randMPIs; stable []
  | succ k ih => unfold randMPIs; stable [randRead_tk, ih]
theorem smpIsGroupElement_tk : Stable TK smpIsGroupElement := by
  unfold smpIsGroupElement; stable []
theorem smpWipe_tk : Stable TK smpWipe := by
  unfold smpWipe; stable []
theorem smpBody_tk (K : Crypto) (t : Tlv) (st : SmpState) (isGE : Nat → Bool) : Stable TK (smpBody K t st isGE) := by
  unfold smpBody
  stable [setSmpState_tk, smpEvent_tk, smpEventQ_tk, smpAbortWith_tk, paramLen_tk, randMPIs_tk, randRead_tk,
    optNat_tk, smpWipe_tk]
theorem processSMPTLV_tk (K : Crypto) (t : Tlv) : Stable TK (processSMPTLV K t) := by
  rw [processSMPTLV_eq]
  stable [setSmpState_tk, smpIsGroupElement_tk, smpBody_tk]
theorem processDisconnectedTLV_tk : Stable TK processDisconnectedTLV := by
  unfold processDisconnectedTLV secEvent; stable []
theorem processExtraSymmetricKeyTLV_tk (t : Tlv) (x : Bytes) : Stable TK (processExtraSymmetricKeyTLV t x) := by
  unfold processExtraSymmetricKeyTLV; stable []
theorem processTLVs_tk (K : Crypto) (tlvs : List Tlv) (x : Bytes) : Stable TK (processTLVs K tlvs x) := by
  unfold processTLVs
  stable [processDisconnectedTLV_tk, processExtraSymmetricKeyTLV_tk, processSMPTLV_tk]
theorem wrapMessageHeader_tk (t : Nat) (m : Bytes) : Stable TK (wrapMessageHeader t m) := by
  unfold wrapMessageHeader; stable [(messageHeader_sendFrame _).send_tk]
theorem processDataMessageTail_tk (K : Crypto) (dm : DataMsg) (tlvs : List Tlv) (x : Bytes) :
    Stable TK (processDataMessageTail K dm tlvs x) := by
  unfold processDataMessageTail
  stable [processTLVs_tk, randRead_tk, (genDataMsgWithFlag_sendFrame _ _ _ _).send_tk, wrapMessageHeader_tk]
theorem processDataMessageRaw_tk (K : Crypto) (h m : Bytes) : Stable TK (processDataMessageRaw K h m) := by
  unfold processDataMessageRaw
  stable [processDataMessageTail_tk, msgEvent_tk]
theorem updateLastSent_tk : Stable TK updateLastSent := by
  unfold updateLastSent; stable []
theorem potentialHeartbeat_tk (K : Crypto) (p : Option Bytes) : Stable TK (potentialHeartbeat K p) := by
  unfold potentialHeartbeat
  stable [(genDataMsgWithFlag_sendFrame _ _ _ _).send_tk, wrapMessageHeader_tk, updateLastSent_tk, msgEvent_tk]
theorem generatePotentialErrorMessage_tk (code : Nat) : Stable TK (generatePotentialErrorMessage code) := by
  unfold generatePotentialErrorMessage; stable []
theorem notifyDataMessageError_tk (e : Err) : Stable TK (notifyDataMessageError e) := by
  unfold notifyDataMessageError
  stable [msgEvent_tk, generatePotentialErrorMessage_tk]
/-- **a data message — accepted or not — never changes the peer's long-term key** -/
theorem receiveDataMessage_tk (K : Crypto) (h b : Bytes) : Stable TK (receiveDataMessage K h b) := by
  unfold receiveDataMessage
  stable [processDataMessageRaw_tk, potentialHeartbeat_tk, notifyDataMessageError_tk]

/-! ## 7. the classification of the leaf and the message type byte -/

/-- the message type byte that goes with a classification -/
def typeOfGuess : Guess → Nat
  | .dhCommit => msgTypeDHCommit | .dhKey => msgTypeDHKey | .revealSig => msgTypeRevealSig
  | .signature => msgTypeSig | .data => msgTypeData | _ => 0

theorem otrMsg_shape (msg : Bytes) (ho : (guessMessageType msg).isOtrMsg = true) :
    ∃ c1 c2 c3 c4 tail, msg = strBytes "?OTR:" ++ c1 :: c2 :: c3 :: c4 :: tail := by
  have pfx : ∀ (p : Bytes) (c1 c2 c3 c4 : UInt8), p = strBytes "?OTR:" ++ [c1, c2, c3, c4] → hasPrefix msg p = true →
      ∃ c1 c2 c3 c4 tail, msg = strBytes "?OTR:" ++ c1 :: c2 :: c3 :: c4 :: tail := by
    intro p c1 c2 c3 c4 hp h
    unfold hasPrefix at h
    rw [List.isPrefixOf_iff_prefix] at h
    obtain ⟨tail, ht⟩ := h
    exact ⟨c1, c2, c3, c4, tail, by rw [← ht, hp]; simp⟩
  generalize hg : guessMessageType msg = g at ho
  unfold guessMessageType at hg
  dsimp only at hg
  by_cases h0 : hasPrefix msg (strBytes "?OTR") = true
  · rw [if_pos h0] at hg
    by_cases h1 : hasPrefix msg (strBytes "?OTR:AAMC") = true
    · exact pfx _ 65 65 77 67 (by decide) h1
    rw [if_neg h1] at hg
    by_cases h2 : hasPrefix msg (strBytes "?OTR:AAIC") = true
    · exact pfx _ 65 65 73 67 (by decide) h2
    rw [if_neg h2] at hg
    by_cases h3 : hasPrefix msg (strBytes "?OTR:AAMK") = true
    · exact pfx _ 65 65 77 75 (by decide) h3
    rw [if_neg h3] at hg
    by_cases h4 : hasPrefix msg (strBytes "?OTR:AAIK") = true
    · exact pfx _ 65 65 73 75 (by decide) h4
    rw [if_neg h4] at hg
    by_cases h5 : hasPrefix msg (strBytes "?OTR:AAMR") = true
    · exact pfx _ 65 65 77 82 (by decide) h5
    rw [if_neg h5] at hg
    by_cases h6 : hasPrefix msg (strBytes "?OTR:AAIR") = true
    · exact pfx _ 65 65 73 82 (by decide) h6
    rw [if_neg h6] at hg
    by_cases h7 : hasPrefix msg (strBytes "?OTR:AAMS") = true
    · exact pfx _ 65 65 77 83 (by decide) h7
    rw [if_neg h7] at hg
    by_cases h8 : hasPrefix msg (strBytes "?OTR:AAIS") = true
    · exact pfx _ 65 65 73 83 (by decide) h8
    rw [if_neg h8] at hg
    by_cases h9 : hasPrefix msg (strBytes "?OTR:AAED") = true
    · exact pfx _ 65 65 69 68 (by decide) h9
    rw [if_neg h9] at hg
    by_cases h10 : hasPrefix msg (strBytes "?OTR:AAID") = true
    · exact pfx _ 65 65 73 68 (by decide) h10
    rw [if_neg h10] at hg
    by_cases h11 : hasPrefix msg (strBytes "?OTR:AAMD") = true
    · exact pfx _ 65 65 77 68 (by decide) h11
    rw [if_neg h11] at hg
    exfalso
    rw [← hg] at ho
    revert ho
    repeat (refine ite_pred (fun g : Guess => ¬ g.isOtrMsg = true) (by decide) ?_)
    decide
  · rw [if_neg h0] at hg
    exfalso
    have : (if containsSub msg whitespaceTagHeader = true then Guess.taggedPlaintext else Guess.notOTR).isOtrMsg = false :=
      ite_pred (fun g : Guess => g.isOtrMsg = false) rfl rfl
    rw [hg, ho] at this
    cases this


theorem b64Val_some_ne {c : UInt8} {x : Nat} (h : b64Val c = some x) : c ≠ 61 ∧ c ≠ 10 ∧ c ≠ 13 := by
  have := isB64Alpha_ne c (by unfold isB64Alpha; rw [h]; rfl)
  exact ⟨this.1, this.2.1, this.2.2.1⟩

theorem decodeEnvelope_quad (c1 c2 c3 c4 : UInt8) (tail d : Bytes) (x y z w : Nat)
    (h1 : b64Val c1 = some x) (h2 : b64Val c2 = some y) (h3 : b64Val c3 = some z) (h4 : b64Val c4 = some w)
    (hd : decodeEnvelope (strBytes "?OTR:" ++ c1 :: c2 :: c3 :: c4 :: tail) = some d) :
    d.getD 2 0 = b8 (((x * 64 + y) * 64 + z) * 64 + w) := by
  obtain ⟨-, a1, b1⟩ := b64Val_some_ne h1
  obtain ⟨-, a2, b2⟩ := b64Val_some_ne h2
  obtain ⟨-, a3, b3⟩ := b64Val_some_ne h3
  obtain ⟨n4, a4, b4⟩ := b64Val_some_ne h4
  have f : ∀ c : UInt8, c ≠ 10 → c ≠ 13 → (c != 10 && c != 13) = true := by
    intro c h10 h13; simp [h10, h13]
  unfold decodeEnvelope at hd
  rw [strBytes_g16] at hd
  simp only [List.cons_append, List.nil_append, List.length_cons, List.drop_succ_cons, List.drop_zero] at hd
  rw [if_neg (by omega)] at hd
  unfold b64decode at hd
  cases tail with
  | nil =>
    simp only [List.dropLast, List.filter_cons, f c1 a1 b1, f c2 a2 b2, f c3 a3 b3, ↓reduceIte, List.filter_nil] at hd
    simp [b64decodeClean] at hd
  | cons t ts =>
    simp only [List.dropLast_cons_cons, List.filter_cons, f c1 a1 b1, f c2 a2 b2, f c3 a3 b3, f c4 a4 b4, ↓reduceIte] at hd
    rw [b64decodeClean_quad _ _ _ _ _ n4, h1, h2, h3, h4] at hd
    simp only at hd
    split at hd
    · simp only [Option.some.injEq] at hd
      rw [← hd]
      rfl
    · cases hd

theorem b64Val_consts : b64Val 65 = some 0 ∧ b64Val 77 = some 12 ∧ b64Val 73 = some 8 ∧ b64Val 69 = some 4 ∧
    b64Val 67 = some 2 ∧ b64Val 75 = some 10 ∧ b64Val 82 = some 17 ∧ b64Val 83 = some 18 ∧ b64Val 68 = some 3 := by
  decide

/-- **the classification agrees with the message type byte**: if the leaf is classified as one of the five `?OTR:`
    message types and decodes, the type byte of the decoded message (the byte `receiveDecoded` dispatches on) is the
    one of that type -/
theorem guess_type_byte (msg d : Bytes) (ho : (guessMessageType msg).isOtrMsg = true)
    (hd : decodeEnvelope msg = some d) : (d.getD 2 0).toNat = typeOfGuess (guessMessageType msg) := by
  obtain ⟨c1, c2, c3, c4, tail, hm⟩ := otrMsg_shape msg ho
  subst hm
  obtain ⟨v65, v77, v73, v69, v67, v75, v82, v83, v68⟩ := b64Val_consts
  rw [guessMessageType_quad] at ho ⊢
  unfold guessQuad at ho ⊢
  dsimp only at ho ⊢
  by_cases k0 : [c1, c2, c3, c4] = [65, 65, 77, 67]
  · simp only [List.cons.injEq, and_true] at k0
    obtain ⟨q1, q2, q3, q4⟩ := k0
    subst q1 q2 q3 q4
    rw [decodeEnvelope_quad _ _ _ _ tail d _ _ _ _ v65 v65 v77 v67 hd]
    decide
  rw [if_neg k0] at ho ⊢
  by_cases k1 : [c1, c2, c3, c4] = [65, 65, 73, 67]
  · simp only [List.cons.injEq, and_true] at k1
    obtain ⟨q1, q2, q3, q4⟩ := k1
    subst q1 q2 q3 q4
    rw [decodeEnvelope_quad _ _ _ _ tail d _ _ _ _ v65 v65 v73 v67 hd]
    decide
  rw [if_neg k1] at ho ⊢
  by_cases k2 : [c1, c2, c3, c4] = [65, 65, 77, 75]
  · simp only [List.cons.injEq, and_true] at k2
    obtain ⟨q1, q2, q3, q4⟩ := k2
    subst q1 q2 q3 q4
    rw [decodeEnvelope_quad _ _ _ _ tail d _ _ _ _ v65 v65 v77 v75 hd]
    decide
  rw [if_neg k2] at ho ⊢
  by_cases k3 : [c1, c2, c3, c4] = [65, 65, 73, 75]
  · simp only [List.cons.injEq, and_true] at k3
    obtain ⟨q1, q2, q3, q4⟩ := k3
    subst q1 q2 q3 q4
    rw [decodeEnvelope_quad _ _ _ _ tail d _ _ _ _ v65 v65 v73 v75 hd]
    decide
  rw [if_neg k3] at ho ⊢
  by_cases k4 : [c1, c2, c3, c4] = [65, 65, 77, 82]
  · simp only [List.cons.injEq, and_true] at k4
    obtain ⟨q1, q2, q3, q4⟩ := k4
    subst q1 q2 q3 q4
    rw [decodeEnvelope_quad _ _ _ _ tail d _ _ _ _ v65 v65 v77 v82 hd]
    decide
  rw [if_neg k4] at ho ⊢
  by_cases k5 : [c1, c2, c3, c4] = [65, 65, 73, 82]
  · simp only [List.cons.injEq, and_true] at k5
    obtain ⟨q1, q2, q3, q4⟩ := k5
    subst q1 q2 q3 q4
    rw [decodeEnvelope_quad _ _ _ _ tail d _ _ _ _ v65 v65 v73 v82 hd]
    decide
  rw [if_neg k5] at ho ⊢
  by_cases k6 : [c1, c2, c3, c4] = [65, 65, 77, 83]
  · simp only [List.cons.injEq, and_true] at k6
    obtain ⟨q1, q2, q3, q4⟩ := k6
    subst q1 q2 q3 q4
    rw [decodeEnvelope_quad _ _ _ _ tail d _ _ _ _ v65 v65 v77 v83 hd]
    decide
  rw [if_neg k6] at ho ⊢
  by_cases k7 : [c1, c2, c3, c4] = [65, 65, 73, 83]
  · simp only [List.cons.injEq, and_true] at k7
    obtain ⟨q1, q2, q3, q4⟩ := k7
    subst q1 q2 q3 q4
    rw [decodeEnvelope_quad _ _ _ _ tail d _ _ _ _ v65 v65 v73 v83 hd]
    decide
  rw [if_neg k7] at ho ⊢
  by_cases k8 : [c1, c2, c3, c4] = [65, 65, 69, 68]
  · simp only [List.cons.injEq, and_true] at k8
    obtain ⟨q1, q2, q3, q4⟩ := k8
    subst q1 q2 q3 q4
    rw [decodeEnvelope_quad _ _ _ _ tail d _ _ _ _ v65 v65 v69 v68 hd]
    decide
  rw [if_neg k8] at ho ⊢
  by_cases k9 : [c1, c2, c3, c4] = [65, 65, 73, 68]
  · simp only [List.cons.injEq, and_true] at k9
    obtain ⟨q1, q2, q3, q4⟩ := k9
    subst q1 q2 q3 q4
    rw [decodeEnvelope_quad _ _ _ _ tail d _ _ _ _ v65 v65 v73 v68 hd]
    decide
  rw [if_neg k9] at ho ⊢
  by_cases k10 : [c1, c2, c3, c4] = [65, 65, 77, 68]
  · simp only [List.cons.injEq, and_true] at k10
    obtain ⟨q1, q2, q3, q4⟩ := k10
    subst q1 q2 q3 q4
    rw [decodeEnvelope_quad _ _ _ _ tail d _ _ _ _ v65 v65 v77 v68 hd]
    decide
  rw [if_neg k10] at ho ⊢
  exfalso
  revert ho
  exact ite_pred (fun g : Guess => ¬ g.isOtrMsg = true) (by decide) (by decide)

/-! ## 8. whole `Receive` calls, classified by their leaf message -/

/-- the log entries a call appended -/
def newEvents (s s' : MState) : List String := s'.events.drop s.events.length

theorem newEvents_of_append {s s' : MState} {evs : List String} (h : s'.events = s.events ++ evs) :
    newEvents s s' = evs := by
  unfold newEvents; rw [h, List.drop_left]

/-- a key exchange completed in the call: GoneSecure or StillSecure was raised (`completed` of
    `apiCall_security_events`) -/
def completedIn (s s' : MState) : Prop := "sec:1" ∈ newEvents s s' ∨ "sec:2" ∈ newEvents s s'

/-- the guards of `c02_guard`, for header and body of a decoded message, under the message state and the key
    context of the conversation `c`: encrypted, the body parses, the key ids are inside the window, the MAC over
    exactly `header ‖ authenticated bytes` under the receiving MAC key equals the authenticator, the counter is
    above the stored one -/
def DataGuards (K : Crypto) (c : Conv) (header body : Bytes) (dm : DataMsg) (sk : SessionKeys) : Prop :=
  c.msgState = .encrypted ∧ DataMsg.deserialize body = some dm ∧
  c.keys.deriveSessionKeys K dm.recipientKeyID dm.senderKeyID = .ok sk ∧
  K.mac1 sk.recvMAC (header ++ dm.unsignedRaw) = dm.authenticator ∧
  (findCounter c.keys.counters dm.recipientKeyID dm.senderKeyID).1.theirCounter < bytesToNat dm.topHalfCtr

theorem DataGuards.of_accepts {K : Crypto} {header body : Bytes} {s1 : MState} {dm : DataMsg} {sk : SessionKeys}
    (h : Accepts K header body s1 dm sk) {c : Conv} (hm : s1.conv.msgState = c.msgState)
    (hk : s1.conv.keys = c.keys) : DataGuards K c header body dm sk := by
  obtain ⟨a, b, c', d, e⟩ := h
  exact ⟨hm ▸ a, b, hk ▸ c', d, hk ▸ e⟩

/-- the leaf decodes (`decodeEnvelope`: strip `?OTR:` and the final byte, base64) to `header ‖ body`, the header
    being the first 3 (OTRv2) or 11 (OTRv3) bytes, with message type byte `t` -/
def LeafDecoded (leaf header body : Bytes) (t : Nat) : Prop :=
  ∃ decoded, decodeEnvelope leaf = some decoded ∧ HeaderOf decoded header body ∧ (header.getD 2 0).toNat = t

theorem HeaderOf.type {decoded header body : Bytes} (h : HeaderOf decoded header body) :
    header.getD 2 0 = decoded.getD 2 0 := by
  rcases h.2 with h | h
  · rw [h]; exact getD_take _ _ (by omega)
  · rw [h]; exact getD_take _ _ (by omega)

theorem Pre.fields {s s1 : MState} (h : Pre s s1) :
    s1.conv.msgState = s.conv.msgState ∧ s1.conv.keys = s.conv.keys ∧ s1.conv.theirKey = s.conv.theirKey ∧
    s1.conv.smp = s.conv.smp ∧ s1.conv.sentRevealSig = s.conv.sentRevealSig ∧ s1.conv.ake = s.conv.ake ∧
    s1.conv.ssid = s.conv.ssid := by
  have h1 := h.1
  simp only [preKept, Prod.mk.injEq] at h1
  exact h1

theorem Post.fields {s s' : MState} (h : Post s s') :
    s'.conv.msgState = s.conv.msgState ∧ s'.conv.keys = s.conv.keys ∧ s'.conv.theirKey = s.conv.theirKey ∧
    s'.conv.smp = s.conv.smp ∧ s'.conv.sentRevealSig = s.conv.sentRevealSig ∧
    (s.conv.msgState = .encrypted → s'.conv.ssid = s.conv.ssid) := by
  have h1 := h.1
  simp only [coreKept, Prod.mk.injEq] at h1
  obtain ⟨a, b, c, d, e, f⟩ := h1
  refine ⟨a, b, c, d, e, fun he => ?_⟩
  rw [a, if_pos he, if_pos he] at f
  exact Option.some.inj f

/-- **every `Receive` call, by its leaf message.**  Either the call consists of steps of the kind `Post` only
    (no `?OTR:` message was processed: plaintext, query, error message, incomplete or rejected fragment, undecodable
    or misaddressed message …), or its leaf is a data message handed to `receiveDataMessage`, or a key exchange
    message handed to `processAKE` — between steps that leave message state, keys, peer key, SMP state, the AKE
    context and the session id alone and raise message events only -/
theorem receive_kind (K : Crypto) (msg : Bytes) (s s' : MState) (r : Except Err RecvResult)
    (h : runM (receive K msg) s = .ok (r, s')) :
    Post s s' ∨
    ∃ leaf header body s1 s2, receiveLeaf s.conv msg = some leaf ∧ (guessMessageType leaf).isOtrMsg = true ∧
      LeafDecoded leaf header body (typeOfGuess (guessMessageType leaf)) ∧ Pre s s1 ∧ Post s2 s' ∧
      ((guessMessageType leaf = .data ∧ ∃ rc, runM (receiveDataMessage K header body) s1 = .ok (rc, s2)) ∨
       (guessMessageType leaf ≠ .data ∧
         ∃ rc, runM (processAKE K (typeOfGuess (guessMessageType leaf)) body) s1 = .ok (rc, s2))) := by
  have hsh := receiveUnit_shape K _ msg true s r s' h
  unfold Shape at hsh
  change (match receiveLeaf s.conv msg with
    | some leaf => _
    | none => _) at hsh
  cases hl : receiveLeaf s.conv msg with
  | none => rw [hl] at hsh; exact Or.inl hsh
  | some leaf =>
    rw [hl] at hsh
    simp only at hsh
    by_cases ho : (guessMessageType leaf).isOtrMsg = true
    · rw [if_pos ho] at hsh
      rcases hsh with ⟨hp, -⟩ | ⟨decoded, header, body, s1, s2, pc, g1, g2, g3, g4, g5, -⟩
      · exact Or.inl hp
      · right
        have hty : (header.getD 2 0).toNat = typeOfGuess (guessMessageType leaf) := by
          rw [g2.type]; exact guess_type_byte leaf decoded ho g1
        refine ⟨leaf, header, body, s1, s2, rfl, ho, ⟨decoded, g1, g2, hty⟩, g3, g5, ?_⟩
        rcases g4 with ⟨ht, rc, hrun, -, -⟩ | ⟨ht, -, rc, hrun⟩
        · left
          refine ⟨?_, rc, hrun⟩
          rw [hty] at ht
          revert ht ho
          cases guessMessageType leaf <;> decide
        · right
          rw [hty] at ht hrun
          refine ⟨?_, rc, hrun⟩
          intro hd
          rw [hd] at ht
          exact ht rfl
    · rw [if_neg ho] at hsh
      exact Or.inl hsh


/-! ## 9. C02 for whole `Receive` -/

/-- **C02 lifted (`c02_guard`, plaintext part).**  For every state and every byte string: if `Receive` delivers a
    plaintext `p` and the leaf message of the call — the input itself, or what the fragment layer reassembled —
    is classified as one of the five `?OTR:` message types (in particular: as a data message), then the leaf
    decodes to a data message `header ‖ body` that passes the five guards of `c02_guard` under the message
    state and key context of the conversation *before the call* (so the conversation was encrypted), and `p` is the
    NUL-terminated prefix of its decryption.  (Plaintext, whitespace-tagged and — with OTR disabled by the
    policies — arbitrary inputs deliver their text by design; they have no such leaf.) -/
theorem receive_plaintext_authentic (K : Crypto) (msg : Bytes) (s s' : MState) (rr : RecvResult) (p leaf : Bytes)
    (h : runM (receive K msg) s = .ok (.ok rr, s')) (hp : rr.plain = some p)
    (hl : receiveLeaf s.conv msg = some leaf) (ho : (guessMessageType leaf).isOtrMsg = true) :
    ∃ header body dm sk, LeafDecoded leaf header body msgTypeData ∧ DataGuards K s.conv header body dm sk ∧
      p = (plainBytesOf K sk dm).takeWhile (· != 0) := by
  have hsh := receiveUnit_shape K _ msg true s _ s' h
  unfold Shape at hsh
  change (match receiveLeaf s.conv msg with
    | some leaf => _
    | none => _) at hsh
  rw [hl] at hsh
  simp only at hsh
  rw [if_pos ho] at hsh
  rcases hsh with ⟨-, hn⟩ | ⟨decoded, header, body, s1, s2, pc, g1, g2, g3, g4, g5, hn⟩
  · rw [hn rr rfl] at hp; cases hp
  · have hpc : pc = some p := by rw [← hn rr rfl]; exact hp
    obtain ⟨f1, f2, -⟩ := g3.fields
    rcases g4 with ⟨ht, rc, hrun, hok, herr⟩ | ⟨-, hnone, -⟩
    · rcases receiveDataMessage_core K header body s1 s2 rc hrun with ⟨dm, sk, hA, hpl⟩ | ⟨-, hpl⟩
      · refine ⟨header, body, dm, sk, ⟨decoded, g1, g2, ht⟩, DataGuards.of_accepts hA f1 f2, ?_⟩
        cases rc with
        | error e => rw [herr e rfl] at hpc; cases hpc
        | ok x =>
          obtain ⟨p', ts, e⟩ := x
          have := hok p' ts e rfl
          rcases hpl p' ts e rfl with h0 | h0
          · rw [this, h0] at hpc; cases hpc
          · rw [this, h0] at hpc; exact (Option.some.inj hpc).symm
      · exfalso
        cases rc with
        | error e => rw [herr e rfl] at hpc; cases hpc
        | ok x =>
          obtain ⟨p', ts, e⟩ := x
          rw [hok p' ts e rfl, hpl p' ts e rfl] at hpc; cases hpc
    · rw [hnone] at hpc; cases hpc

/-- the unfragmented case, stated on the input itself: OTR enabled, the input classified as a data message -/
theorem receive_plaintext_authentic_unfragmented (K : Crypto) (msg : Bytes) (s s' : MState) (rr : RecvResult)
    (p : Bytes) (h : runM (receive K msg) s = .ok (.ok rr, s')) (hp : rr.plain = some p)
    (hen : isOTREnabled s.conv.policies = true) (hg : guessMessageType msg = .data) :
    ∃ header body dm sk, LeafDecoded msg header body msgTypeData ∧ DataGuards K s.conv header body dm sk ∧
      p = (plainBytesOf K sk dm).takeWhile (· != 0) :=
  receive_plaintext_authentic K msg s s' rr p msg h hp
    (receiveLeaf_unfragmented _ _ hen (by rw [hg]; decide)) (by rw [hg]; rfl)

/-- what TLV processing (and nothing else on the data path) does: the SMP state, the key context or the message
    state changed, or an SMP, extra-key or security event was raised -/
def Acted (s s' : MState) : Prop :=
  s'.conv.smp ≠ s.conv.smp ∨ s'.conv.keys ≠ s.conv.keys ∨ s'.conv.msgState ≠ s.conv.msgState ∨
  ∃ e ∈ newEvents s s', tlvEvent e

theorem Post.not_acted {s s' : MState} (h : Post s s') : ¬ Acted s s' := by
  obtain ⟨a, b, -, d, -, -⟩ := h.fields
  obtain ⟨evs, he, hm⟩ := h.2
  rintro (h1 | h1 | h1 | ⟨e, he', ht⟩)
  · exact h1 d
  · exact h1 b
  · exact h1 a
  · rw [newEvents_of_append he] at he'
    exact isMsgTag_not_tlv (hm e he') ht

/-- **C02 lifted (`c02_guard`, TLV part).**  For every state and every byte string whose leaf is classified as a
    data message: if the call changed the SMP state, the key context or the message state (a peer's disconnect
    makes it `finished`), or raised an SMP, extra-key or security event — whether it returned or threw — then the
    leaf decodes to a data message that passes the five guards under the message state and key context before the
    call -/
theorem receive_acts_only_on_authentic (K : Crypto) (msg : Bytes) (s s' : MState) (r : Except Err RecvResult)
    (leaf : Bytes) (h : runM (receive K msg) s = .ok (r, s'))
    (hl : receiveLeaf s.conv msg = some leaf) (hg : guessMessageType leaf = .data) (hact : Acted s s') :
    ∃ header body dm sk, LeafDecoded leaf header body msgTypeData ∧ DataGuards K s.conv header body dm sk := by
  rcases receive_kind K msg s s' r h with hp | ⟨leaf', header, body, s1, s2, hl', ho, hdec, hpre, hpost, hcore⟩
  · exact absurd hact hp.not_acted
  · rw [hl] at hl'
    cases hl'
    rw [hg] at hdec
    obtain ⟨f1, f2, -⟩ := hpre.fields
    rcases hcore with ⟨-, rc, hrun⟩ | ⟨hne, -⟩
    · rcases receiveDataMessage_core K header body s1 s2 rc hrun with ⟨dm, sk, hA, -⟩ | ⟨hq, -⟩
      · exact ⟨header, body, dm, sk, hdec, DataGuards.of_accepts hA f1 f2⟩
      · exact absurd hact (Frame.trans hpre.post (Frame.trans hq hpost)).not_acted
    · exact absurd hg hne


/-! ## 10. C01 for whole `Receive` -/

theorem not_msgTag_sec1 : isMsgTag "sec:1" = false := by decide
theorem not_msgTag_sec2 : isMsgTag "sec:2" = false := by decide

/-- the new events of a call that runs `Pre`-steps, a core step appending `ec`, and `Post`-steps -/
theorem chain_newEvents {s s1 s2 s' : MState} (h1 : MsgOnly s s1) {ec : List String}
    (hc : s2.events = s1.events ++ ec) (h3 : MsgOnly s2 s') :
    ∃ e1 e3, newEvents s s' = e1 ++ ec ++ e3 ∧ (∀ e ∈ e1, isMsgTag e = true) ∧ (∀ e ∈ e3, isMsgTag e = true) := by
  obtain ⟨e1, he1, hm1⟩ := h1
  obtain ⟨e3, he3, hm3⟩ := h3
  refine ⟨e1, e3, newEvents_of_append ?_, hm1, hm3⟩
  rw [he3, hc, he1, List.append_assoc, List.append_assoc, List.append_assoc]

theorem chain_completed {s s1 s2 s' : MState} (h1 : MsgOnly s s1) {ec : List String}
    (hc : s2.events = s1.events ++ ec) (h3 : MsgOnly s2 s') :
    completedIn s s' ↔ ("sec:1" ∈ ec ∨ "sec:2" ∈ ec) := by
  obtain ⟨e1, e3, hn, hm1, hm3⟩ := chain_newEvents h1 hc h3
  unfold completedIn
  rw [hn]
  have key : ∀ x, isMsgTag x = false → (x ∈ e1 ++ ec ++ e3 ↔ x ∈ ec) := by
    intro x hx
    simp only [List.mem_append]
    constructor
    · rintro ((h | h) | h)
      · rw [hm1 x h] at hx; cases hx
      · exact h
      · rw [hm3 x h] at hx; cases hx
    · exact fun h => Or.inl (Or.inr h)
  rw [key _ not_msgTag_sec1, key _ not_msgTag_sec2]

theorem Post.not_completed {s s' : MState} (h : Post s s') : ¬ completedIn s s' := by
  obtain ⟨evs, he, hm⟩ := h.2
  unfold completedIn
  rw [newEvents_of_append he]
  rintro (h1 | h1)
  · have := hm _ h1; rw [not_msgTag_sec1] at this; cases this
  · have := hm _ h1; rw [not_msgTag_sec2] at this; cases this

theorem sec_not_mem {ec : List String} (h : ec.filter isSecTag = [] ∨ ec.filter isSecTag = ["sec:0"]) :
    ¬ ("sec:1" ∈ ec ∨ "sec:2" ∈ ec) := by
  rintro (h1 | h1)
  · have : "sec:1" ∈ ec.filter isSecTag := List.mem_filter.2 ⟨h1, by decide⟩
    rcases h with h | h <;> rw [h] at this <;> revert this <;> decide
  · have : "sec:2" ∈ ec.filter isSecTag := List.mem_filter.2 ⟨h1, by decide⟩
    rcases h with h | h <;> rw [h] at this <;> revert this <;> decide

theorem Fin.sec_mem {s s' : MState} (h : Fin s s') :
    ∃ ec, s'.events = s.events ++ ec ∧ ("sec:1" ∈ ec ∨ "sec:2" ∈ ec) := by
  obtain ⟨-, -, -, ec, he, hf⟩ := h
  refine ⟨ec, he, ?_⟩
  have hmem : (if s.conv.msgState = .encrypted then "sec:2" else "sec:1") ∈ ec.filter isSecTag := by
    rw [hf]; exact List.mem_singleton.2 rfl
  have := (List.mem_filter.1 hmem).1
  split at this
  · exact Or.inr this
  · exact Or.inl this

theorem SigAccepted.transport {K : Crypto} {s s1 s2 s' : MState} {body : Bytes} (hpre : Pre s s1)
    (hpost : Post s2 s') (h : SigAccepted K s1.conv body s2.conv) : SigAccepted K s.conv body s'.conv := by
  obtain ⟨a1, -, -, -, -, a6, a7⟩ := hpre.fields
  obtain ⟨b1, b2, b3, -, b5, b6⟩ := hpost.fields
  obtain ⟨a, rs, m, pk, keyID, theirs, ours, g1, g2, g3, g4, g5, g6, g7, g8, g9, g10, g11, g12⟩ := h
  refine ⟨a, rs, m, pk, keyID, theirs, ours, by rw [← a6]; exact g1, g2, g3, g4, g5, g6, by rw [b1]; exact g7,
    by rw [b3]; exact g8, by rw [b2]; exact g9, by rw [b2]; exact g10, ?_, ?_⟩
  · rw [b6 g7, g11, a1, a7]
  · rw [b5, g12, a1]
    have := hpre.fields.2.2.2.2.1
    rw [this]

theorem RevealSigAccepted.transport {K : Crypto} {s s1 s2 s' : MState} {body : Bytes} (hpre : Pre s s1)
    (hpost : Post s2 s') (h : RevealSigAccepted K s1.conv body s2.conv) :
    RevealSigAccepted K s.conv body s'.conv := by
  obtain ⟨-, -, -, -, -, a6, -⟩ := hpre.fields
  obtain ⟨b1, b2, b3, -, b5, b6⟩ := hpost.fields
  obtain ⟨a, gx, pk, keyID, g1, g2, g3, g4, g5, g6, g7, g8, g9⟩ := h
  exact ⟨a, gx, pk, keyID, by rw [← a6]; exact g1, g2, g3, by rw [b1]; exact g4, by rw [b3]; exact g5,
    by rw [b2]; exact g6, by rw [b2]; exact g7, by rw [b6 g4]; exact g8, by rw [b5]; exact g9⟩

/-- the leaf of the call is a Signature message received in `awaitingSig`, or a Reveal-Signature message received
    in `awaitingRevealSig`, that passed every guard of `c01_guard_*`; `c` is the conversation before the call, `c'`
    after it: `c'.theirKey` is the key whose DSA signature was verified, `c'.ssid` the session id of this exchange -/
def AkeLeafAccepted (K : Crypto) (c : Conv) (msg : Bytes) (c' : Conv) : Prop :=
  ∃ leaf header body, receiveLeaf c msg = some leaf ∧
    ((guessMessageType leaf = .signature ∧ LeafDecoded leaf header body msgTypeSig ∧ SigAccepted K c body c') ∨
     (guessMessageType leaf = .revealSig ∧ LeafDecoded leaf header body msgTypeRevealSig ∧
       RevealSigAccepted K c body c'))

/-- the leaf of the call is a data message that passed the five guards of `c02_guard` -/
def DataLeafAccepted (K : Crypto) (c : Conv) (msg : Bytes) : Prop :=
  ∃ leaf header body dm sk, receiveLeaf c msg = some leaf ∧ guessMessageType leaf = .data ∧
    LeafDecoded leaf header body msgTypeData ∧ DataGuards K c header body dm sk

theorem guess_of_typeSig {g : Guess} (ho : g.isOtrMsg = true) (h : typeOfGuess g = msgTypeSig) : g = .signature := by
  revert ho h; cases g <;> decide
theorem guess_of_typeRevealSig {g : Guess} (ho : g.isOtrMsg = true) (h : typeOfGuess g = msgTypeRevealSig) :
    g = .revealSig := by
  revert ho h; cases g <;> decide

/-- **every `Receive` call, by what it did to the session**: nothing (`Post`-steps only); a data message, accepted
    (all guards passed) or not (again `Post`); a key exchange message that completed an exchange (all guards
    passed, `completedIn`) or did not (`AkeQuiet` between `Pre` and `Post`) -/
theorem receive_cases (K : Crypto) (msg : Bytes) (s s' : MState) (r : Except Err RecvResult)
    (h : runM (receive K msg) s = .ok (r, s')) :
    Post s s' ∨
    (DataLeafAccepted K s.conv msg ∧ ¬ completedIn s s' ∧ s'.conv.theirKey = s.conv.theirKey ∧
      (s'.conv.msgState = s.conv.msgState ∨ (s.conv.msgState = .encrypted ∧ s'.conv.msgState = .finished))) ∨
    (AkeLeafAccepted K s.conv msg s'.conv ∧ completedIn s s') ∨
    (¬ completedIn s s' ∧ s'.conv.theirKey = s.conv.theirKey ∧ s'.conv.msgState = s.conv.msgState) := by
  rcases receive_kind K msg s s' r h with hp | ⟨leaf, header, body, s1, s2, hl, ho, hdec, hpre, hpost, hcore⟩
  · exact Or.inl hp
  · obtain ⟨a1, a2, a3, a4, a5, a6, a7⟩ := hpre.fields
    obtain ⟨b1, b2, b3, b4, b5, b6⟩ := hpost.fields
    rcases hcore with ⟨hg, rc, hrun⟩ | ⟨hne, rc, hrun⟩
    · rcases receiveDataMessage_core K header body s1 s2 rc hrun with ⟨dm, sk, hA, -⟩ | ⟨hq, -⟩
      · right; left
        have hd := receiveDataMessage_downE K header body s1 rc s2 hrun
        obtain ⟨⟨hm, -, -, ec, hec, hf⟩, hedge⟩ := hd
        have htk := receiveDataMessage_tk K header body s1 rc s2 hrun
        rw [hg] at hdec
        refine ⟨⟨leaf, header, body, dm, sk, hl, hg, hdec, DataGuards.of_accepts hA a1 a2⟩, ?_, ?_, ?_⟩
        · rw [chain_completed hpre.2 hec hpost.2]
          apply sec_not_mem
          rw [hf]
          split
          · exact Or.inr rfl
          · exact Or.inl rfl
        · rw [b3, ← a3]; exact htk
        · rw [b1, ← a1]
          rcases hm with hm | hm
          · exact Or.inl hm
          · rcases hedge with he | he
            · exact Or.inl he
            · exact Or.inr ⟨he, hm⟩
      · exact Or.inl (Frame.trans hpre.post (Frame.trans hq hpost))
    · right; right
      rcases processAKE_core K _ body s1 s2 rc hrun with ⟨ht, hacc, hfin⟩ | ⟨ht, hacc, hfin⟩ | hq
      · left
        obtain ⟨ec, hec, hmem⟩ := hfin.sec_mem
        refine ⟨⟨leaf, header, body, hl, Or.inl ⟨guess_of_typeSig ho ht, ?_, hacc.transport hpre hpost⟩⟩, ?_⟩
        · rw [ht] at hdec; exact hdec
        · rw [chain_completed hpre.2 hec hpost.2]; exact hmem
      · left
        obtain ⟨ec, hec, hmem⟩ := hfin.sec_mem
        refine ⟨⟨leaf, header, body, hl, Or.inr ⟨guess_of_typeRevealSig ho ht, ?_, hacc.transport hpre hpost⟩⟩, ?_⟩
        · rw [ht] at hdec; exact hdec
        · rw [chain_completed hpre.2 hec hpost.2]; exact hmem
      · right
        obtain ⟨q1, q2, -, -, -, -, -, ec, hec, hf⟩ := hq
        refine ⟨?_, by rw [b3, q2, a3], by rw [b1, q1, a1]⟩
        rw [chain_completed hpre.2 hec hpost.2]
        exact sec_not_mem (Or.inl hf)


/-- **C01 lifted (`c01_paths`, `c01_guard_*`, `c01_finish_*`).**  For every state and every byte string: if the
    call made the conversation encrypted, or completed a key exchange (GoneSecure or StillSecure was raised), then
    the leaf message was a Signature message received in `awaitingSig` or a Reveal-Signature message received in
    `awaitingRevealSig` (authentication state of the conversation before the call), it passed every guard —
    commitment opened, DH value in range, MAC over the encrypted signature under the keys of this exchange, DSA
    signature over both DH values verified — and after the call `theirKey` is the key whose signature was verified
    in this very call, the peer's current DH key and key id are the verified ones, and `ssid` is the session id
    of this exchange.
    (The statement with "`msgState` after ≠ before" as hypothesis is false: a peer's disconnect TLV makes an
    encrypted conversation `finished` — `receive_gone_secure_guard_counterexample`; `receive_msgState_change_guard`
    is the statement for every change of the message state.) -/
theorem receive_gone_secure_guard_partial (K : Crypto) (msg : Bytes) (s s' : MState) (r : Except Err RecvResult)
    (h : runM (receive K msg) s = .ok (r, s'))
    (hsec : (s'.conv.msgState = .encrypted ∧ s.conv.msgState ≠ .encrypted) ∨ completedIn s s') :
    AkeLeafAccepted K s.conv msg s'.conv := by
  rcases receive_cases K msg s s' r h with hp | ⟨-, hnc, -, hm⟩ | ⟨hacc, -⟩ | ⟨hnc, -, hm⟩
  · rcases hsec with ⟨h1, h2⟩ | h1
    · rw [hp.fields.1] at h1; exact absurd h1 h2
    · exact absurd h1 hp.not_completed
  · rcases hsec with ⟨h1, h2⟩ | h1
    · rcases hm with hm | ⟨he, -⟩
      · rw [hm] at h1; exact absurd h1 h2
      · exact absurd he h2
    · exact absurd h1 hnc
  · exact hacc
  · rcases hsec with ⟨h1, h2⟩ | h1
    · rw [hm] at h1; exact absurd h1 h2
    · exact absurd h1 hnc

/-- **every change of the message state in `Receive` is guarded**: the leaf was a key exchange message that
    passed all guards of C01, or the conversation was encrypted, is finished now, and the leaf was a data message
    that passed all guards of C02 (it carried the peer's disconnect) -/
theorem receive_msgState_change_guard (K : Crypto) (msg : Bytes) (s s' : MState) (r : Except Err RecvResult)
    (h : runM (receive K msg) s = .ok (r, s')) (hch : s'.conv.msgState ≠ s.conv.msgState) :
    AkeLeafAccepted K s.conv msg s'.conv ∨
    (s.conv.msgState = .encrypted ∧ s'.conv.msgState = .finished ∧ DataLeafAccepted K s.conv msg) := by
  rcases receive_cases K msg s s' r h with hp | ⟨hd, -, -, hm⟩ | ⟨hacc, -⟩ | ⟨-, -, hm⟩
  · exact absurd hp.fields.1 hch
  · rcases hm with hm | ⟨he, hf⟩
    · exact absurd hm hch
    · exact Or.inr ⟨he, hf, hd⟩
  · exact Or.inl hacc
  · exact absurd hm hch

/-- **the peer's long-term key changes only with a completed exchange.**  For every state and every byte string
    — accepted, rejected, ignored, fragment or not —: if no key exchange completed in the call, `theirKey` is what
    it was (repaired code: also when a Reveal-Signature message passed every check but the Signature reply could
    not be built, `recvRevealSig_answer_fails_keeps_theirKey`) -/
theorem receive_theirKey_frame (K : Crypto) (msg : Bytes) (s s' : MState) (r : Except Err RecvResult)
    (h : runM (receive K msg) s = .ok (r, s')) (hnc : ¬ completedIn s s') :
    s'.conv.theirKey = s.conv.theirKey := by
  rcases receive_cases K msg s s' r h with hp | ⟨-, -, htk, -⟩ | ⟨-, hc⟩ | ⟨-, htk, -⟩
  · exact hp.fields.2.2.1
  · exact htk
  · exact absurd hc hnc
  · exact htk

/-- conversely: a completed exchange is exactly a guarded one -/
theorem receive_completed_iff (K : Crypto) (msg : Bytes) (s s' : MState) (r : Except Err RecvResult)
    (h : runM (receive K msg) s = .ok (r, s')) :
    completedIn s s' → AkeLeafAccepted K s.conv msg s'.conv ∧ s'.conv.msgState = .encrypted := by
  intro hc
  have hacc := receive_gone_secure_guard_partial K msg s s' r h (Or.inr hc)
  refine ⟨hacc, ?_⟩
  obtain ⟨leaf, header, body, -, ⟨-, -, hs⟩ | ⟨-, -, hs⟩⟩ := hacc
  · obtain ⟨a, rs, m, pk, keyID, theirs, ours, -, -, -, -, -, -, g7, -⟩ := hs
    exact g7
  · obtain ⟨a, gx, pk, keyID, -, -, -, g4, -⟩ := hs
    exact g4

/-! ## 11. the hypotheses are satisfiable; the literal statement that is false -/

/-- an authentic data message (cryptography `wCryptoMac`: every HMAC-SHA1 is twenty zero bytes; key ids 2/2,
    counter 9) with the text `A` and nothing else -/
def gDataText : Bytes :=
  msgMarker ++ b64encode ([0, 2, 3] ++ [0] ++ [0, 0, 0, 2] ++ [0, 0, 0, 2] ++ [0, 0, 0, 1, 5] ++
    [0, 0, 0, 0, 0, 0, 0, 9] ++ [0, 0, 0, 1, 65] ++ List.replicate 20 0 ++ [0, 0, 0, 0]) ++ [46]

/-- the same with the peer's disconnect TLV (type 1, empty) after the text -/
def gDataDisconnect : Bytes :=
  msgMarker ++ b64encode ([0, 2, 3] ++ [0] ++ [0, 0, 0, 2] ++ [0, 0, 0, 2] ++ [0, 0, 0, 1, 5] ++
    [0, 0, 0, 0, 0, 0, 0, 9] ++ [0, 0, 0, 6, 65, 0, 0, 1, 0, 0] ++ List.replicate 20 0 ++ [0, 0, 0, 0]) ++ [46]

/-- `gDataText` as the only piece of an OTRv2 fragment stream -/
def gFragText : Bytes := strBytes "?OTR,1,1," ++ gDataText ++ [44]

theorem gDataText_leaf : receiveLeaf wEncrypted.conv gDataText = some gDataText ∧
    guessMessageType gDataText = .data := by decide +kernel

theorem gFragText_leaf : receiveLeaf wEncrypted.conv gFragText = some gDataText ∧
    guessMessageType gFragText = .fragment := by decide +kernel

/-- the hypotheses of `receive_plaintext_authentic` hold together (unfragmented input): the message is delivered -/
theorem gDataText_delivered :
    ∃ rr s', runM (receive wCryptoMac gDataText) wEncrypted = .ok (.ok rr, s') ∧ rr.plain = some [65] :=
  run_witness (by decide +kernel)

/-- … and for an input that is a fragment: the reassembled leaf is the data message -/
theorem gFragText_delivered :
    ∃ rr s', runM (receive wCryptoMac gFragText) wEncrypted = .ok (.ok rr, s') ∧ rr.plain = some [65] :=
  run_witness (by decide +kernel)

/-- the conclusion of `receive_plaintext_authentic` for these two inputs: the delivered text passed the guards -/
example : ∃ header body dm sk, LeafDecoded gDataText header body msgTypeData ∧
    DataGuards wCryptoMac wEncrypted.conv header body dm sk ∧ [65] = (plainBytesOf wCryptoMac sk dm).takeWhile (· != 0) := by
  obtain ⟨rr, s', h, hp⟩ := gDataText_delivered
  exact receive_plaintext_authentic _ _ _ _ rr [65] _ h hp gDataText_leaf.1 (by rw [gDataText_leaf.2]; rfl)

example : ∃ header body dm sk, LeafDecoded gDataText header body msgTypeData ∧
    DataGuards wCryptoMac wEncrypted.conv header body dm sk ∧ [65] = (plainBytesOf wCryptoMac sk dm).takeWhile (· != 0) := by
  obtain ⟨rr, s', h, hp⟩ := gFragText_delivered
  exact receive_plaintext_authentic _ _ _ _ rr [65] _ h hp gFragText_leaf.1 (by rw [gDataText_leaf.2]; rfl)

theorem gDataDisconnect_leaf : receiveLeaf wEncrypted.conv gDataDisconnect = some gDataDisconnect ∧
    guessMessageType gDataDisconnect = .data := by decide +kernel

/-- the hypotheses of `receive_acts_only_on_authentic` hold together: the peer's disconnect in an authentic data
    message ends the session (encrypted → finished, GoneInsecure) -/
theorem gDataDisconnect_acts :
    ∃ rr s', runM (receive wCryptoMac gDataDisconnect) wEncrypted = .ok (.ok rr, s') ∧
      (wEncrypted.conv.msgState = .encrypted ∧ s'.conv.msgState = .finished ∧ s'.events = ["sec:0"]) :=
  run_witness (by decide +kernel)

example : ∃ header body dm sk, LeafDecoded gDataDisconnect header body msgTypeData ∧
    DataGuards wCryptoMac wEncrypted.conv header body dm sk := by
  obtain ⟨rr, s', h, h1, h2, -⟩ := gDataDisconnect_acts
  refine receive_acts_only_on_authentic _ _ _ _ _ _ h gDataDisconnect_leaf.1 gDataDisconnect_leaf.2 ?_
  exact Or.inr (Or.inr (Or.inl (by rw [h1, h2]; decide)))

/-- **why `receive_gone_secure_guard` is stated for "became encrypted or completed an exchange"**: with
    "`msgState` after ≠ before" as the hypothesis the statement is false — this authentic data message changes the
    message state (encrypted → finished) and its leaf is no key exchange message -/
theorem receive_gone_secure_guard_counterexample :
    ∃ (K : Crypto) (s : MState) (msg : Bytes) (r : Except Err RecvResult) (s' : MState),
      runM (receive K msg) s = .ok (r, s') ∧ s'.conv.msgState ≠ s.conv.msgState ∧
      ¬ AkeLeafAccepted K s.conv msg s'.conv := by
  obtain ⟨rr, s', h, h1, h2, -⟩ := gDataDisconnect_acts
  refine ⟨wCryptoMac, wEncrypted, gDataDisconnect, .ok rr, s', h, by rw [h1, h2]; decide, ?_⟩
  rintro ⟨leaf, header, body, hl, hk⟩
  rw [gDataDisconnect_leaf.1] at hl
  cases hl
  rcases hk with ⟨hg, -⟩ | ⟨hg, -⟩ <;> rw [gDataDisconnect_leaf.2] at hg <;> cases hg

/-- the hypotheses of `receive_gone_secure_guard_partial` hold together (cryptography `wCryptoSig`, which accepts
    every signature): a Signature message in `awaitingSig` makes the conversation encrypted and raises GoneSecure -/
theorem wSigMsg_completes :
    ∃ rr s', runM (receive wCryptoSig wSigMsg) wAwaitSig = .ok (.ok rr, s') ∧
      (s'.conv.msgState = .encrypted ∧ wAwaitSig.conv.msgState ≠ .encrypted ∧ "sec:1" ∈ newEvents wAwaitSig s' ∧
       s'.conv.theirKey = some wKey) :=
  run_witness (by decide +kernel)

example : ∃ s' : MState, AkeLeafAccepted wCryptoSig wAwaitSig.conv wSigMsg s'.conv ∧ s'.conv.theirKey = some wKey := by
  obtain ⟨rr, s', h, h1, h2, h3, h4⟩ := wSigMsg_completes
  exact ⟨s', receive_gone_secure_guard_partial _ _ _ _ _ h (Or.inl ⟨h1, h2⟩), h4⟩

/-- the hypothesis of `receive_theirKey_frame` is satisfiable: the accepted data message completes no exchange -/
example : ∃ rr s', runM (receive wCryptoMac gDataText) wEncrypted = .ok (.ok rr, s') ∧
    ¬ ("sec:1" ∈ newEvents wEncrypted s' ∨ "sec:2" ∈ newEvents wEncrypted s') :=
  run_witness (by decide +kernel)


/-- a responder in `awaitingRevealSig` (the AKE context `laxAke` of Proofs.Fixes3) that knows a peer key
    `(7,7,7,7)` from before, has a long-term key, a signing oracle and randomness for the next DH key -/
def gRevealState : MState :=
  { conv := { version := some .v2, policies := allowV2, theirKey := some ⟨7, 7, 7, 7⟩, ourCurrentKey := some wKey,
              ake := some laxAke },
    env := { sigs := [(List.replicate 20 0, some (List.replicate 40 0))], rand := [some (List.replicate 40 1)] } }

/-- the Reveal-Signature message `laxRevealSig` of Proofs.Fixes3 as an encoded OTRv2 message -/
def gRevealMsg : Bytes := msgMarker ++ b64encode ([0, 2, 0x11] ++ laxRevealSig) ++ [46]

/-- … and for a Reveal-Signature message in `awaitingRevealSig` (cryptography `Crypto.lax`): the exchange
    completes, and the peer key is replaced by the key `(1,1,1,1)` whose signature was verified -/
theorem gRevealMsg_completes :
    ∃ rr s', runM (receive Crypto.lax gRevealMsg) gRevealState = .ok (.ok rr, s') ∧
      (rr.err = none ∧ s'.conv.msgState = .encrypted ∧ "sec:1" ∈ newEvents gRevealState s' ∧
       gRevealState.conv.theirKey = some ⟨7, 7, 7, 7⟩ ∧ s'.conv.theirKey = some ⟨1, 1, 1, 1⟩) :=
  run_witness (by decide +kernel)

example : ∃ s' : MState, AkeLeafAccepted Crypto.lax gRevealState.conv gRevealMsg s'.conv := by
  obtain ⟨rr, s', h, -, -, h3, -⟩ := gRevealMsg_completes
  exact ⟨s', receive_gone_secure_guard_partial _ _ _ _ _ h (Or.inr (Or.inl h3))⟩

end Otr
