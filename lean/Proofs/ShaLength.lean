/-
  Proofs.ShaLength — output lengths of the executable hash functions (`Otr/CryptoReal/Sha.lean`, `Hmac.lean`):
  SHA-256 gives 32 bytes, SHA-1 20 bytes, HMAC the length of its hash, for EVERY input.

  Nothing is assumed and the round functions are never unfolded: a compression step (`sha256Block`, `sha1Block`)
  ends in an array literal of 8 (5) words whatever its loops computed (`…Block_size`, by `rfl`); the block loop of
  `sha256Words` / `sha1Words` is a left fold of the compression step over the block indices (`…Words_eq`, the `for`
  loop over a range rewritten by `Std.Legacy.Range.forIn_eq_forIn_range'`), so the state has 8 (5) words at the
  end (`foldl_inv`); the digest is the concatenation of the 4 big-endian bytes of each word.

  Imports the executable cryptography only (core Lean), so it can be used from either side of the `Otr.Inv` split.
-/
import Otr.Crypto
namespace Otr.CryptoReal

/-- 4 bytes per word -/
theorem be32_foldr_length (l : List UInt32) :
    (l.foldr (fun w acc => be32Bytes w ++ acc) []).length = 4 * l.length := by
  induction l with
  | nil => rfl
  | cons w t ih =>
    rw [List.foldr_cons, List.length_append, ih, List.length_cons]
    simp only [be32Bytes, List.length_cons, List.length_nil]
    omega

theorem be32_array_foldr_length (h : Array UInt32) :
    (h.foldr (fun w acc => be32Bytes w ++ acc) []).length = 4 * h.size := by
  rw [← Array.foldr_toList, be32_foldr_length, Array.length_toList]

/-- a SHA-256 compression step returns 8 words, whatever the state (even one of the wrong size), data, offset -/
theorem sha256Block_size (h : Array UInt32) (data : ByteArray) (off : Nat) :
    (sha256Block h data off).size = 8 := by
  unfold sha256Block
  rfl

/-- a SHA-1 compression step returns 5 words -/
theorem sha1Block_size (h : Array UInt32) (data : ByteArray) (off : Nat) :
    (sha1Block h data off).size = 5 := by
  unfold sha1Block
  rfl

/-- a left fold has at the end what its initial value has and every step establishes -/
theorem foldl_inv {α β : Type} (P : β → Prop) (f : β → α → β) (hf : ∀ b a, P (f b a)) :
    ∀ (l : List α) (init : β), P init → P (l.foldl f init) := by
  intro l
  induction l with
  | nil => intro init h; exact h
  | cons a t ih => intro init _; exact ih _ (hf init a)

/-- the block loop of SHA-256 as a fold over the block indices of the padded message -/
theorem sha256Words_eq (msg : ByteArray) :
    sha256Words msg =
      (List.range' 0 ((shaPad msg).size / 64)).foldl
        (fun h blk => sha256Block h (shaPad msg) (64 * blk)) sha256Init := by
  unfold sha256Words
  simp only [Id.run]
  rw [Std.Legacy.Range.forIn_eq_forIn_range', List.forIn_pure_yield_eq_foldl]
  simp only [Std.Legacy.Range.size, Nat.sub_zero, Nat.add_sub_cancel, Nat.div_one]
  rfl

/-- the block loop of SHA-1 as a fold over the block indices of the padded message -/
theorem sha1Words_eq (msg : ByteArray) :
    sha1Words msg =
      (List.range' 0 ((shaPad msg).size / 64)).foldl
        (fun h blk => sha1Block h (shaPad msg) (64 * blk)) sha1Init := by
  unfold sha1Words
  simp only [Id.run]
  rw [Std.Legacy.Range.forIn_eq_forIn_range', List.forIn_pure_yield_eq_foldl]
  simp only [Std.Legacy.Range.size, Nat.sub_zero, Nat.add_sub_cancel, Nat.div_one]
  rfl

theorem sha256Words_size (msg : ByteArray) : (sha256Words msg).size = 8 := by
  rw [sha256Words_eq]
  exact foldl_inv (fun h : Array UInt32 => h.size = 8) _
    (fun h blk => sha256Block_size h (shaPad msg) (64 * blk)) _ _ rfl

theorem sha1Words_size (msg : ByteArray) : (sha1Words msg).size = 5 := by
  rw [sha1Words_eq]
  exact foldl_inv (fun h : Array UInt32 => h.size = 5) _
    (fun h blk => sha1Block_size h (shaPad msg) (64 * blk)) _ _ rfl

/-- **SHA-256 returns 32 bytes for every input** -/
theorem sha256_length (d : Bytes) : (sha256 d).length = 32 := by
  unfold sha256
  simp only []
  rw [be32_array_foldr_length, sha256Words_size]

/-- **SHA-1 returns 20 bytes for every input** -/
theorem sha1_length (d : Bytes) : (sha1 d).length = 20 := by
  unfold sha1
  simp only []
  rw [be32_array_foldr_length, sha1Words_size]

/-- HMAC has the length of its hash (any key length: short, one block, longer than a block) -/
theorem hmacWith_length (hash : Bytes → Bytes) (n : Nat) (hh : ∀ d, (hash d).length = n) (k d : Bytes) :
    (hmacWith hash k d).length = n := by
  unfold hmacWith
  exact hh _

/-- **HMAC-SHA256 returns 32 bytes for every key and message** -/
theorem hmacSha256_length (k d : Bytes) : (hmacSha256 k d).length = 32 :=
  hmacWith_length sha256 32 sha256_length k d

/-- **HMAC-SHA1 returns 20 bytes for every key and message** -/
theorem hmacSha1_length (k d : Bytes) : (hmacSha1 k d).length = 20 :=
  hmacWith_length sha1 20 sha1_length k d

end Otr.CryptoReal
