/-
  Proofs.B64 — base64.StdEncoding: decode ∘ encode = id, alphabet, length.
-/
import Otr.B64
namespace Otr

theorem b64Val_b64Char_fin : ∀ n : Fin 64, b64Val (b64Char n.val) = some n.val := by decide

theorem b64Val_b64Char (n : Nat) (h : n < 64) : b64Val (b64Char n) = some n :=
  b64Val_b64Char_fin ⟨n, h⟩

theorem b64Char_mod (n : Nat) : b64Char n = b64Char (if n < 64 then n else 63) := by
  split
  · rfl
  · unfold b64Char
    have h1 : ¬ n < 26 := by omega
    have h2 : ¬ n < 52 := by omega
    have h3 : ¬ n < 62 := by omega
    have h4 : ¬ n = 62 := by omega
    simp only [h1, h2, h3, h4, if_false]
    decide

/-- a byte of the base64 alphabet proper (no padding) -/
def isB64Alpha (c : UInt8) : Bool := (b64Val c).isSome

theorem isB64Alpha_b64Char_fin : ∀ n : Fin 64, isB64Alpha (b64Char n.val) = true := by decide

theorem isB64Alpha_b64Char (n : Nat) : isB64Alpha (b64Char n) = true := by
  rw [b64Char_mod]
  exact isB64Alpha_b64Char_fin ⟨if n < 64 then n else 63, by split <;> omega⟩

/-- what an alphabet byte cannot be -/
theorem isB64Alpha_ne : ∀ c : UInt8, isB64Alpha c = true →
    c ≠ 61 ∧ c ≠ 10 ∧ c ≠ 13 ∧ c ≠ 44 ∧ c ≠ 46 ∧ c ≠ 0 ∧ c ≠ 32 ∧ c ≠ 9 ∧ c ≠ 63 := by
  intro c h
  refine ⟨?_, ?_, ?_, ?_, ?_, ?_, ?_, ?_, ?_⟩ <;> (intro hc; subst hc; revert h; decide)

/-! ### alphabet and length of the encoding -/

theorem b64encode_alphabet' (x : Bytes) : ∀ c ∈ b64encode x, isB64Alpha c = true ∨ c = 61 := by
  induction x using b64encode.induct with
  | case1 a b c rest ih =>
    intro ch h
    simp only [b64encode, List.mem_cons] at h
    rcases h with h | h | h | h | h
    · subst h; exact Or.inl (isB64Alpha_b64Char _)
    · subst h; exact Or.inl (isB64Alpha_b64Char _)
    · subst h; exact Or.inl (isB64Alpha_b64Char _)
    · subst h; exact Or.inl (isB64Alpha_b64Char _)
    · exact ih ch h
  | case2 a b =>
    intro ch h
    simp only [b64encode, List.mem_cons, List.not_mem_nil, or_false] at h
    rcases h with h | h | h | h
    · subst h; exact Or.inl (isB64Alpha_b64Char _)
    · subst h; exact Or.inl (isB64Alpha_b64Char _)
    · subst h; exact Or.inl (isB64Alpha_b64Char _)
    · exact Or.inr h
  | case3 a =>
    intro ch h
    simp only [b64encode, List.mem_cons, List.not_mem_nil, or_false] at h
    rcases h with h | h | h | h
    · subst h; exact Or.inl (isB64Alpha_b64Char _)
    · subst h; exact Or.inl (isB64Alpha_b64Char _)
    · exact Or.inr h
    · exact Or.inr h
  | case4 => intro c h; simp [b64encode] at h

/-- every byte of an encoding is in the base64 alphabet or is the padding '=' -/
theorem b64encode_alphabet (x : Bytes) : ∀ c ∈ b64encode x, (b64Val c).isSome ∨ c = 61 :=
  b64encode_alphabet' x

/-- bytes that never occur in an encoding: ',' '.' NUL LF CR ' ' TAB '?' -/
theorem b64encode_ne (x : Bytes) : ∀ c ∈ b64encode x,
    c ≠ 44 ∧ c ≠ 46 ∧ c ≠ 0 ∧ c ≠ 10 ∧ c ≠ 13 ∧ c ≠ 32 ∧ c ≠ 9 ∧ c ≠ 63 := by
  intro c h
  rcases b64encode_alphabet' x c h with h | h
  · have := isB64Alpha_ne c h
    exact ⟨this.2.2.2.1, this.2.2.2.2.1, this.2.2.2.2.2.1, this.2.1, this.2.2.1, this.2.2.2.2.2.2.1,
      this.2.2.2.2.2.2.2.1, this.2.2.2.2.2.2.2.2⟩
  · subst h; decide

theorem b64encode_not_mem (x : Bytes) :
    (44 : UInt8) ∉ b64encode x ∧ (46 : UInt8) ∉ b64encode x ∧ (0 : UInt8) ∉ b64encode x ∧
    (10 : UInt8) ∉ b64encode x ∧ (13 : UInt8) ∉ b64encode x ∧ (32 : UInt8) ∉ b64encode x ∧
    (9 : UInt8) ∉ b64encode x ∧ (63 : UInt8) ∉ b64encode x := by
  refine ⟨?_, ?_, ?_, ?_, ?_, ?_, ?_, ?_⟩ <;> intro h <;> have := b64encode_ne x _ h <;> simp at this

theorem b64encode_length (x : Bytes) : (b64encode x).length = 4 * ((x.length + 2) / 3) := by
  induction x using b64encode.induct with
  | case1 a b c rest ih => simp only [b64encode, List.length_cons, ih]; omega
  | case2 a b => simp [b64encode]
  | case3 a => simp [b64encode]
  | case4 => simp [b64encode]

/-! ### decode ∘ encode -/

theorem b64decodeClean_quad (a b c d : UInt8) (rest : Bytes) (hd : d ≠ 61) :
    b64decodeClean (a :: b :: c :: d :: rest) =
      match b64Val a, b64Val b, b64Val c, b64Val d with
      | some x, some y, some z, some w =>
        match b64decodeClean rest with
        | some r => some (b8 ((((x * 64 + y) * 64 + z) * 64 + w) / 65536) :: b8 ((((x * 64 + y) * 64 + z) * 64 + w) / 256) :: b8 (((x * 64 + y) * 64 + z) * 64 + w) :: r)
        | none => none
      | _, _, _, _ => none := by
  rw [b64decodeClean.eq_def]
  split
  · rename_i h; cases h
  · rename_i h; injection h with _ h; injection h with _ h; injection h with _ h; injection h with h _; exact absurd h hd
  · rename_i h; injection h with _ h; injection h with _ h; injection h with _ h; injection h with h _; exact absurd h hd
  · rename_i h; injection h with h1 h; injection h with h2 h; injection h with h3 h; injection h with h4 h5
    subst h1 h2 h3 h4 h5; rfl
  · rename_i h; exact absurd rfl (h a b c d rest)

theorem b64decodeClean_pad1 (a b c : UInt8) (hc : c ≠ 61) :
    b64decodeClean [a, b, c, 61] =
      match b64Val a, b64Val b, b64Val c with
      | some x, some y, some z => some [b8 (((x * 64 + y) * 64 + z) / 1024), b8 (((x * 64 + y) * 64 + z) / 4)]
      | _, _, _ => none := by
  rw [b64decodeClean.eq_def]
  split
  · rename_i h; cases h
  · rename_i h; injection h with _ h; injection h with _ h; injection h with h _; exact absurd h hc
  · rename_i h; injection h with h1 h; injection h with h2 h; injection h with h3 h
    subst h1 h2 h3; rfl
  · rename_i h1 h2 h; injection h with _ h; injection h with _ h; injection h with _ h; injection h with h4 h5
    exact absurd h5.symm (h2 h4.symm)
  · rename_i h _; exact absurd rfl (h a b c)

theorem b64decodeClean_pad2 (a b : UInt8) :
    b64decodeClean [a, b, 61, 61] =
      match b64Val a, b64Val b with
      | some x, some y => some [b8 ((x * 64 + y) / 16)]
      | _, _ => none := by
  rfl

theorem b64Char_ne_61 (n : Nat) : b64Char n ≠ 61 := (isB64Alpha_ne _ (isB64Alpha_b64Char n)).1

theorem b64decodeClean_encode (x : Bytes) : b64decodeClean (b64encode x) = some x := by
  induction x using b64encode.induct with
  | case1 a b c rest ih =>
    have ha := a.toNat_lt; have hb := b.toNat_lt; have hc := c.toNat_lt
    simp only [b64encode]
    rw [b64decodeClean_quad _ _ _ _ _ (b64Char_ne_61 _)]
    rw [b64Val_b64Char _ (by omega), b64Val_b64Char _ (by omega), b64Val_b64Char _ (by omega),
      b64Val_b64Char _ (by omega), ih]
    simp only
    rw [b8_eq_of_mod _ a (by omega), b8_eq_of_mod _ b (by omega), b8_eq_of_mod _ c (by omega)]
  | case2 a b =>
    have ha := a.toNat_lt; have hb := b.toNat_lt
    simp only [b64encode]
    rw [b64decodeClean_pad1 _ _ _ (b64Char_ne_61 _)]
    rw [b64Val_b64Char _ (by omega), b64Val_b64Char _ (by omega), b64Val_b64Char _ (by omega)]
    simp only
    rw [b8_eq_of_mod _ a (by omega), b8_eq_of_mod _ b (by omega)]
  | case3 a =>
    have ha := a.toNat_lt
    simp only [b64encode]
    rw [b64decodeClean_pad2]
    rw [b64Val_b64Char _ (by omega), b64Val_b64Char _ (by omega)]
    simp only
    rw [b8_eq_of_mod _ a (by omega)]
  | case4 => rfl

theorem b64encode_filter (x : Bytes) :
    (b64encode x).filter (fun c => c != 10 && c != 13) = b64encode x := by
  rw [List.filter_eq_self]
  intro c h
  have := b64encode_ne x c h
  simp [this.2.2.2.1, this.2.2.2.2.1]

/-- decoding an encoding gives back the input (b64.go: b64decode ∘ b64encode) -/
theorem b64decode_encode (x : Bytes) : b64decode (b64encode x) = some x := by
  unfold b64decode
  rw [b64encode_filter, b64decodeClean_encode]

/-! ### concrete instances -/

example : b64encode (strBytes "Man") = strBytes "TWFu" := by decide
example : b64encode (strBytes "Ma") = strBytes "TWE=" := by decide
example : b64encode (strBytes "M") = strBytes "TQ==" := by decide
example : b64decode (strBytes "TWFu\r\nTQ==") = some (strBytes "ManM") := by decide
example : b64decode (strBytes "TQ==TWFu") = none := by decide
example : b64decode (b64encode [0, 2, 2, 255, 254]) = some [0, 2, 2, 255, 254] := by decide
example : (b64encode [1, 2, 3, 4]).length = 8 := by decide

end Otr
