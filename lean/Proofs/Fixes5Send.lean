/-
  Proofs.Fixes5Send — the repair of `processDisconnectedTLV` (Proofs.Fixes5) combined with the sending path
  (Proofs.Fixes2): the MAC keys kept across the peer's disconnect and carried over by the next completed key
  exchange are in the reveal field of the next data message.
  (Separate from Proofs.Fixes5 because Proofs.Fixes2 — through Proofs.Ratchet — can not be imported together
  with Proofs.NoPanic, which Props.C09 needs.)
-/
import Proofs.Fixes2
import Proofs.Fixes5
namespace Otr

/-- **repaired code (C09/C19): peer disconnect, completed key exchange, next data message.**  With the states of
    `disconnect_then_ake_reveals`: the next data message, generated in a state `s4` that still holds the queue of
    `s3`, carries in its reveal field every key that waited in the reveal queue before the disconnect and the key of
    every entry of the MAC history before the disconnect, and empties the queue -/
theorem disconnect_then_ake_next_message_reveals (K : Crypto) (s s1 s2 s3 s4 s5 : MState) (r1 : Except Err Unit)
    (a : Ake) (r3 : Except Err (Option Err)) (m : Bytes) (flag : Nat) (tlvs : List Tlv) (dm : DataMsg) (x : Bytes)
    (h1 : runM processDisconnectedTLV s = .ok (r1, s1))
    (hq : ∀ b ∈ s1.conv.keys.oldMACKeys, b ∈ s2.conv.keys.oldMACKeys)
    (ha : s2.conv.ake = some a)
    (h3 : runM (akeHasFinished K) s2 = .ok (r3, s3))
    (hq' : ∀ b ∈ s3.conv.keys.oldMACKeys, b ∈ s4.conv.keys.oldMACKeys)
    (h5 : runM (genDataMsgWithFlag K m flag tlvs) s4 = .ok (.ok (dm, x), s5)) :
    (∀ k ∈ s.conv.keys.oldMACKeys, k ∈ dm.oldMACKeys) ∧
    (∀ u ∈ s.conv.keys.macHistory, u.key ∈ dm.oldMACKeys) ∧
    s5.conv.keys.oldMACKeys = [] := by
  obtain ⟨c1, c2⟩ := disconnect_then_ake_reveals K s s1 s2 s3 r1 a r3 h1 hq ha h3
  rcases genDataMsgWithFlag_outcome K m flag tlvs s4 _ s5 h5 with ⟨e, he, -⟩ | ⟨dm', x', hr, -, hd, he, -⟩
  · cases he
  · cases hr
    rw [hd]
    exact ⟨fun k hk => hq' _ (c1 k hk), fun u hu => hq' _ (c2 u hu), he⟩

/-- the hypotheses are satisfiable up to the sending step: `discExample_run` and the example after it in
    Proofs.Fixes5 give `h1`, `hq` (with `s2` = `s1` plus an AKE context), `ha`, `h3`; a data message is generated from
    an encrypted conversation with usable keys (`revealExample` of Proofs.Fixes2) -/
example : ∃ dm x s5, runM (genDataMsgWithFlag Crypto.dummy [] messageFlagIgnoreUnreadable []) revealExample =
    .ok (.ok (dm, x), s5) :=
  ⟨_, _, _, genData_ready Crypto.dummy [] messageFlagIgnoreUnreadable [] revealExample revealExample_ready⟩

end Otr
