/-
  Proofs.FragBound — the fragment context (`fragCtx`) over whole API calls and histories.
  1  pieces are not longer than the bytes they were cut from: splitOn_sum_le, parseFragment_length,
     prefixPure_body_length, fragArrival_length, fragAccept_length
  2  one `Receive`: NonInc, receiveUnit_fragCtx_bound (induction over the nesting of reassembled messages, through
     `receiveUnit_fragment_eq` / `recvFragmentWith_run` of Proofs.FragRefine), receive_fragCtx_bound
  3  calls and histories: apiCall_fragCtx_kept (every call but `Receive`), apiCall_fragCtx_bound,
     runApi_fragCtx_bound, api_fragCtx_bounded
  That the context holds pieces of ONE stream only is the content of Proofs.FragRefine (the context is the state
  of the abstract arrival machine `deliverStep`: `receiveUnit_fragment_refines`); it is not restated here.
-/
import Proofs.FragKeep
set_option linter.unusedSimpArgs false
set_option linter.unusedVariables false
namespace Otr

/-! ## 1. a piece is not longer than the bytes it was cut from -/

theorem splitOn_sum_le (sep : UInt8) : ∀ s : Bytes, ((splitOn sep s).map List.length).sum ≤ s.length := by
  intro s
  induction s with
  | nil => simp [splitOn]
  | cons c r ih =>
    rw [splitOn]
    split
    · simp only [List.map_cons, List.sum_cons, List.length_nil, Nat.zero_add, List.length_cons]
      omega
    · split
      · simp
      · rename_i p ps heq
        rw [heq] at ih
        simp only [List.map_cons, List.sum_cons, List.length_cons] at ih ⊢
        omega

theorem parseFragment_length (body d : Bytes) (ix l : Nat) (h : parseFragment body = some (d, ix, l)) :
    d.length ≤ body.length := by
  unfold parseFragment at h
  have hs := splitOn_sum_le 44 body
  split at h
  · rename_i p0 p1 p2 p3 heq
    rw [heq] at hs
    simp only [List.map_cons, List.sum_cons, List.map_nil, List.sum_nil] at hs
    split at h
    · cases h
    · split at h
      · simp only [Option.some.injEq, Prod.mk.injEq] at h
        rw [← h.1]; omega
      · cases h
  · cases h

theorem prefixPure_body_length (c : Conv) (data : Bytes) : (prefixPure c data).1.1.length ≤ data.length := by
  unfold prefixPure
  dsimp only
  repeat' split
  all_goals simp only [List.length_drop, Nat.le_refl, Nat.sub_le]

theorem fragArrival_length (c : Conv) (msg : Bytes) : (fragArrival c msg).1.length ≤ msg.length := by
  unfold fragArrival
  cases hp : fragParsed c msg with
  | none => simp [noArrival]
  | some a =>
    obtain ⟨d, ix, l⟩ := a
    simp only [Option.getD_some]
    unfold fragParsed at hp
    split at hp
    · cases hp
    · split at hp
      · exact Nat.le_trans (parseFragment_length _ _ _ _ hp) (prefixPure_body_length c msg)
      · cases hp

theorem fragAccept_length (before : FragCtx) (d : Bytes) (ix l : Nat) :
    (fragAccept before d ix l).frag.length ≤ before.frag.length + d.length := by
  unfold fragAccept
  repeat' split
  all_goals simp [FragCtx.empty]

/-! ## 2. one `Receive` -/

/-- the accumulated bytes do not get more -/
def NonInc (s s' : MState) : Prop := s'.conv.fragCtx.frag.length ≤ s.conv.fragCtx.frag.length

instance : Frame NonInc where
  refl _ := Nat.le_refl _
  trans := fun h1 h2 => Nat.le_trans h2 h1

instance : OfBook NonInc := ⟨fun {s s'} h => by
  have := (OfBook.ofBook (R := KeepFrag) h)
  simp only [Keeps] at this
  show _ ≤ _
  rw [this]; exact Nat.le_refl _⟩

theorem Stable.kf_ni {α} {x : M α} (h : Stable KeepFrag x) : Stable NonInc x :=
  Stable.weaken (fun s s' h => by simp only [Keeps] at h; show _ ≤ _; rw [h]; exact Nat.le_refl _) h

theorem fragForget_ni : Stable NonInc (modc fun c => { c with fragCtx := FragCtx.empty }) :=
  Stable.modc _ (fun _ => Nat.zero_le _)

theorem fragDeliver_none (c : Conv) (m : Bytes) (h : (fragDeliver c m).2 = []) :
    (fragDeliver c m).1.frag.length ≤ c.fragCtx.frag.length + m.length := by
  unfold fragDeliver at h ⊢
  rw [deliverStep_nil] at h ⊢
  split at h
  · cases h
  · rename_i hf
    rw [if_neg hf]
    exact Nat.le_trans (fragAccept_length _ _ _ _) (Nat.add_le_add_left (fragArrival_length c m) _)

theorem fragDeliver_some (c : Conv) (m a : Bytes) (rest : List Bytes) (h : (fragDeliver c m).2 = a :: rest) :
    (fragDeliver c m).1 = FragCtx.empty ∧ a.length ≤ c.fragCtx.frag.length + m.length := by
  unfold fragDeliver at h ⊢
  rw [deliverStep_nil] at h ⊢
  split at h
  · rename_i hf
    rw [if_pos hf]
    simp only [List.cons.injEq] at h
    refine ⟨rfl, ?_⟩
    rw [← h.1]
    exact Nat.le_trans (fragAccept_length _ _ _ _) (Nat.add_le_add_left (fragArrival_length c m) _)
  · cases h

/-- **one `Receive`, every state, every input, every outcome that is not a panic**: the bytes accumulated in the
    fragment context grow by at most the length of the input (through nested reassembled messages as well) -/
theorem receiveUnit_fragCtx_bound (K : Crypto) : ∀ (fuel : Nat) (m : Bytes) (fg : Bool) (s : MState)
    (r : Except Err RecvResult) (s' : MState), runM (receiveUnit K fuel m fg) s = .ok (r, s') →
    s'.conv.fragCtx.frag.length ≤ s.conv.fragCtx.frag.length + m.length := by
  intro fuel
  induction fuel with
  | zero =>
    intro m fg s r s' h
    rw [receiveUnit] at h
    simp only [runM_bind, runM_mism, bindM_ok, runM_pure, Res.ok.injEq, Prod.mk.injEq] at h
    rw [← h.2]; exact Nat.le_add_right _ _
  | succ fuel ih =>
    intro m fg s r s' h
    by_cases hfr : isOTREnabled s.conv.policies = true ∧ guessMessageType m = .fragment
    · rw [receiveUnit_fragment_eq K fuel m fg s hfr.1 hfr.2, recvFragmentWith_run] at h
      split at h
      · rename_i hd
        simp only [Res.ok.injEq, Prod.mk.injEq] at h
        rw [← h.2]
        exact fragDeliver_none s.conv m hd
      · rename_i a rest hd
        obtain ⟨he, hl⟩ := fragDeliver_some s.conv m a rest hd
        cases hx : runM (receiveUnit K fuel a false) (fragSettled s m) with
        | panic p => rw [hx] at h; cases h
        | ok v =>
          obtain ⟨v, s2⟩ := v
          rw [hx] at h
          have h2 := ih a false _ v s2 hx
          have h0 : (fragSettled s m).conv.fragCtx.frag.length = 0 := by
            show (fragDeliver s.conv m).1.frag.length = 0
            rw [he]; rfl
          have hs' : s'.conv.fragCtx = s2.conv.fragCtx := by
            cases v with
            | error e => simp only [bindM_error, Res.ok.injEq, Prod.mk.injEq] at h; rw [← h.2]
            | ok w => simp only [bindM_ok, Res.ok.injEq, Prod.mk.injEq] at h; rw [← h.2]; rfl
          rw [hs']; omega
    · refine Nat.le_trans ?_ (Nat.le_add_right _ _)
      rw [receiveUnit] at h
      rw [runM_bind, runM_getc, bindM_ok] at h
      split at h
      · simp only [runM_pure, Res.ok.injEq, Prod.mk.injEq] at h
        rw [← h.2]; exact Nat.le_refl _
      · rename_i hd
        have hen : isOTREnabled s.conv.policies = true := by
          cases hx : isOTREnabled s.conv.policies with
          | true => rfl
          | false => rw [hx] at hd; exact absurd rfl hd
        dsimp only at h
        split at h
        all_goals rename_i hg
        all_goals simp only [hg, hen, true_and, reduceCtorEq, not_false_eq_true, not_true_eq_false, eq_self] at hfr
        all_goals
          refine (?_ : Stable NonInc _) s _ s' h
          repeat' (first
            | with_reducible exact Stable.pure _
            | with_reducible exact fragForget_ni
            | with_reducible exact (receiveErrorMessage_kf _).kf_ni
            | with_reducible exact (withInjects_book2 _).book2_kf.kf_ni
            | with_reducible exact Stable.ofBook (receiveQueryMessage_book _ _)
            | with_reducible exact Stable.ofBook (receiveTaggedPlaintext_book _ _)
            | with_reducible exact Stable.ofBook (checkPlaintextPolicies_book _)
            | with_reducible exact Stable.ofBook (toSendEncoded_book _ _)
            | with_reducible exact Stable.ofBook (msgEvent_book _)
            | with_reducible exact (receiveDecoded_kf K _).kf_ni
            | with_reducible apply Stable.bind
            | with_reducible intro _ | split | dsimp only)

/-- **B (one `Receive`).** -/
theorem receive_fragCtx_bound (K : Crypto) (m : Bytes) (s : MState) (r : Except Err RecvResult) (s' : MState)
    (h : runM (receive K m) s = .ok (r, s')) :
    s'.conv.fragCtx.frag.length ≤ s.conv.fragCtx.frag.length + m.length :=
  receiveUnit_fragCtx_bound K _ m true s r s' h

/-! ## 3. whole API calls and histories -/

/-- **every API call other than `Receive`** (with arbitrary arguments and environment, returning or throwing)
    leaves the fragment context exactly as it was: `Send`, `End`, the SMP calls, the extra-key call, TLV-only
    messages and the fragment-size setter neither add to a message under reassembly nor drop it -/
theorem apiCall_fragCtx_kept (K : Crypto) (call : ApiCall) (s : MState) (r : Except Err Unit)
    (s' : MState) (h : runM (call.run K) s = .ok (r, s')) (hc : ∀ m, call ≠ .receive m) :
    s'.conv.fragCtx = s.conv.fragCtx := by
  cases call with
  | receive m => exact absurd rfl (hc m)
  | send m => obtain ⟨r0, h0⟩ := runM_drop _ _ _ _ h; exact send_kf K m s _ s' h0
  | endSession => obtain ⟨r0, h0⟩ := runM_drop _ _ _ _ h; exact endSession_kf K s _ s' h0
  | smpStart q sec => obtain ⟨r0, h0⟩ := runM_drop _ _ _ _ h; exact startAuthenticate_kf K q sec s _ s' h0
  | smpSecret sec => obtain ⟨r0, h0⟩ := runM_drop _ _ _ _ h; exact provideAuthenticationSecret_kf K sec s _ s' h0
  | smpAbort => obtain ⟨r0, h0⟩ := runM_drop _ _ _ _ h; exact abortAuthentication_kf K s _ s' h0
  | extraKey u d => obtain ⟨r0, h0⟩ := runM_drop _ _ _ _ h; exact useExtraSymmetricKey_kf K u d s _ s' h0
  | sendTlvs text flag tlvs =>
    obtain ⟨r0, h0⟩ := runM_drop _ _ _ _ h; exact createSerializedDataMessage_kf K text flag tlvs s _ s' h0
  | setFragmentSize n =>
    have : Stable KeepFrag (modc fun c => { c with fragmentSize := n }) := by kf_walk []
    exact this s _ s' h

/-- the number of bytes a call hands to `Receive` -/
def ApiCall.recvLen : ApiCall → Nat
  | .receive m => m.length
  | _ => 0

/-- the bytes handed to `Receive` along a history -/
def recvTotal (steps : List ApiStep) : Nat := (steps.map fun st => st.call.recvLen).sum

/-- **one API call**: the accumulated bytes grow by at most the bytes handed to `Receive` by this call -/
theorem apiCall_fragCtx_bound (K : Crypto) (call : ApiCall) (s : MState) (r : Except Err Unit) (s' : MState)
    (h : runM (call.run K) s = .ok (r, s')) :
    s'.conv.fragCtx.frag.length ≤ s.conv.fragCtx.frag.length + call.recvLen := by
  by_cases hc : ∀ m, call ≠ .receive m
  · rw [apiCall_fragCtx_kept K call s r s' h hc]; exact Nat.le_add_right _ _
  · cases call with
    | receive m =>
      obtain ⟨r0, h0⟩ := runM_drop _ _ _ _ h
      exact receive_fragCtx_bound K m s r0 s' h0
    | _ => exact absurd (fun _ => by simp) hc

/-- **every history from every conversation**: what the fragment context holds at the end is bounded by what it
    held at the start plus the bytes handed to `Receive` in between.  In particular (`c.fragCtx.frag = []`):
    from a state in which the context is empty, it is bounded by the `Receive` arguments since then. -/
theorem runApi_fragCtx_bound (K : Crypto) (steps : List ApiStep) : ∀ (c c' : Conv),
    runApi K c steps = .ok c' → c'.fragCtx.frag.length ≤ c.fragCtx.frag.length + recvTotal steps := by
  induction steps with
  | nil =>
    intro c c' h
    simp only [runApi, Res.ok.injEq] at h
    subst h; exact Nat.le_add_right _ _
  | cons st rest ih =>
    intro c c' h
    simp only [runApi] at h
    cases hr : runM (st.call.run K) { conv := c, env := st.env } with
    | panic p => rw [hr] at h; cases h
    | ok v =>
      obtain ⟨r, s'⟩ := v
      rw [hr] at h
      have h1 : s'.conv.fragCtx.frag.length ≤ c.fragCtx.frag.length + st.call.recvLen :=
        apiCall_fragCtx_bound K st.call _ r s' hr
      have h2 := ih s'.conv c' h
      have h3 : recvTotal (st :: rest) = st.call.recvLen + recvTotal rest := by
        simp only [recvTotal, List.map_cons, List.sum_cons]
      omega

/-- **B (whole histories).**  For every crypto record (with `CryptoOK`, only to know that no call panics), every
    fresh conversation and every sequence of API calls: the run ends, and the bytes the fragment context holds —
    the single message under reassembly, the only input-dependent storage besides the bounded queues — are at
    most the bytes handed to `Receive` along the history; after any prefix that leaves the context empty, at
    most the bytes handed to `Receive` since then (`runApi_fragCtx_bound` from that state). -/
theorem api_fragCtx_bounded (K : Crypto) (hK : CryptoOK K) (version : Option Version) (policies : Policies)
    (keys : List DsaPub) (fragmentSize : Nat) (errHandler : Bool) (friendlyQuery : Bytes) (ourTag : Nat)
    (steps : List ApiStep) :
    ∃ c, runApi K (freshConv version policies keys fragmentSize errHandler friendlyQuery ourTag) steps = .ok c ∧
      c.fragCtx.frag.length ≤ recvTotal steps := by
  obtain ⟨c, hr, -⟩ := api_sequence_no_panic_fresh K hK version policies keys fragmentSize errHandler
    friendlyQuery ourTag steps
  have h := runApi_fragCtx_bound K steps _ c hr
  refine ⟨c, hr, ?_⟩
  have h0 : (freshConv version policies keys fragmentSize errHandler friendlyQuery ourTag).fragCtx.frag.length = 0 := rfl
  omega

/-! ## 4. non-vacuity -/

set_option maxRecDepth 20000 in
/-- a first piece of two arrives (13 bytes): the context holds its 3 bytes of data — within the bound -/
example (K : Crypto) :
    ∃ r s', runM (receive K (strBytes "?OTR,1,2,abc,"))
        ⟨{ policies := allowV2, ourKeys := [⟨1, 1, 1, 1⟩] }, {}, [], []⟩ = .ok (r, s') ∧
      s'.conv.fragCtx = ⟨[97, 98, 99], 1, 2⟩ ∧ (strBytes "?OTR,1,2,abc,").length = 13 :=
  ⟨_, _, rfl, by decide, by decide⟩

/-- `Send` (here: in a finished conversation) while a message is under reassembly: the context is kept -/
example (K : Crypto) :
    ∃ r s', runM ((ApiCall.send [104, 105]).run K)
        ⟨{ policies := allowV3, msgState := .finished, fragCtx := ⟨[97, 98, 99], 1, 2⟩ }, {}, [], []⟩ = .ok (r, s') ∧
      s'.conv.fragCtx = ⟨[97, 98, 99], 1, 2⟩ :=
  ⟨_, _, rfl, rfl⟩

end Otr
