/-
  Proofs.Spec — conformance of the executable model (Otr.Msg / Keys / Conv / Frag / Wire / Smp, transcribed
  from the Go code) with the declarative protocol specification `Otr.Spec`.

  Sections
    A  data types            appendData/appendMPI/appendMPIs/appendWord/appendShort  vs  DATA/MPI/INT/SHORT
    B  AKE messages          DhCommit / DhKey / RevealSig / Sig serialisers, M_B, X_B, PUBKEY, fingerprint
    C  key derivation        calculateAKEKeys, sessionKeysOf
    D  data message          serializeUnsignedFields, DataMsg.serialize, MAC input, counter, key ids
    E  plaintext / TLV / SMP Tlv.serialize, PlainDataMsg.serialize / pad, genSMPTLV, Smp*Msg.tlv, hashMPIsBN
    F  text level            header, armour (base64), query message, whitespace tag, fragments, instance tags
    DEVIATIONS               `deviation_*` theorems: places where the library does not do what the
                             specification says (each is stated as a proved difference).
  Core Lean only.
-/
import Otr.Conv
import Otr.Spec
import Proofs.Bytes
import Proofs.Codec
import Proofs.Msg
import Proofs.Frag
import Proofs.Wire
import Proofs.ConvLife
namespace Otr

/-! ## A. data types -/

theorem spec_SHORT (v : Nat) : Spec.SHORT v = be16 v := rfl
theorem spec_INT (v : Nat) : Spec.INT v = be32 v := rfl
theorem spec_BYTE (v : Nat) : Spec.BYTE v = [b8 v] := rfl

theorem appendShort_spec (l : Bytes) (v : Nat) : appendShort l v = l ++ Spec.SHORT v := rfl
theorem appendWord_spec (l : Bytes) (v : Nat) : appendWord l v = l ++ Spec.INT v := rfl

theorem appendData_spec (l d : Bytes) : appendData l d = l ++ Spec.DATA d := by
  simp only [appendData, Spec.DATA, spec_INT, List.append_assoc]

theorem appendMPI_spec (l : Bytes) (n : Nat) : appendMPI l n = l ++ Spec.MPI n := by
  simp only [appendMPI, appendData_spec, Spec.MPI, Spec.magnitude]

theorem appendMPIs_spec (l : Bytes) (ns : List Nat) :
    appendMPIs l ns = l ++ (ns.map Spec.MPI).flatten := by
  induction ns generalizing l with
  | nil => simp only [appendMPIs, List.foldl_nil, List.map_nil, List.flatten_nil, List.append_nil]
  | cons n ns ih =>
    have : appendMPIs l (n :: ns) = appendMPIs (appendMPI l n) ns := rfl
    rw [this, ih, appendMPI_spec]
    simp only [List.map_cons, List.flatten_cons, List.append_assoc]

/-! ## B. AKE messages -/

/-- D-H Commit: `DATA(encrypted g^x) ‖ DATA(hashed g^x)` -/
theorem dhCommit_serialize_spec (c : DhCommit) :
    c.serialize = Spec.dhCommitFields c.encryptedGx c.hashedGx := by
  simp only [DhCommit.serialize, appendData_spec, Spec.dhCommitFields, List.nil_append]

/-- the pure expressions of `dhCommitMessage` / `serializeDHCommit`: the ciphertext is AES-CTR under `r`
    with a zero counter of `MPI g^x`, the hash is SHA256 of `MPI g^x`; together they are the spec body -/
theorem dhCommit_body_spec (K : Crypto) (r : Bytes) (gx : Nat) (enc : Bytes)
    (h : K.ctr r (List.replicate 16 0) (appendMPI [] gx) = some enc) :
    Spec.dhCommitBody K r gx = some (DhCommit.serialize ⟨enc, K.hash2 (appendMPI [] gx)⟩) := by
  simp only [appendMPI_spec, List.nil_append] at h
  simp only [Spec.dhCommitBody, Spec.zeroCounter, h, dhCommit_serialize_spec, Spec.dhCommitFields,
    appendMPI_spec, List.nil_append]

/-- D-H Key: `MPI g^y` -/
theorem dhKey_serialize_spec (c : DhKey) : c.serialize = Spec.dhKeyBody c.gy := by
  simp only [DhKey.serialize, appendMPI_spec, Spec.dhKeyBody, List.nil_append]

/-- Reveal Signature as `revealSigMessage` builds it (`encSig = AppendData(nil, enc)`, `macSig = HMAC-SHA256_m2(encSig)`):
    `DATA(r) ‖ DATA(enc) ‖ first 160 bits of HMAC-SHA256_m2(DATA(enc))` -/
theorem revealSig_serialize_spec (K : Crypto) (r enc m2 : Bytes)
    (hlen : 20 ≤ (K.mac2 m2 (Spec.DATA enc)).length) :
    RevealSig.serialize ⟨r, appendData [] enc, K.mac2 m2 (appendData [] enc)⟩ =
      .ok (Spec.revealSigBody K r enc m2) := by
  have hn : ¬ (K.mac2 m2 (Spec.DATA enc)).length < 20 := by omega
  simp only [RevealSig.serialize, appendData_spec, List.nil_append, hn, ↓reduceIte, Spec.revealSigBody,
    Spec.macdSignature, truncateLength, List.append_assoc]

/-- Signature as `sigMessage` builds it: `DATA(enc) ‖ first 160 bits of HMAC-SHA256_m2'(DATA(enc))` -/
theorem sig_serialize_spec (K : Crypto) (enc m2 : Bytes)
    (hlen : 20 ≤ (K.mac2 m2 (Spec.DATA enc)).length) :
    Sig.serialize ⟨appendData [] enc, K.mac2 m2 (appendData [] enc)⟩ =
      .ok (Spec.signatureBody K enc m2) := by
  have hn : ¬ (K.mac2 m2 (Spec.DATA enc)).length < 20 := by omega
  simp only [Sig.serialize, appendData_spec, List.nil_append, hn, ↓reduceIte, Spec.signatureBody,
    Spec.macdSignature, truncateLength]

/-- receiving side (`processEncryptedSig`): the MAC that is compared is the spec's MAC'd signature -/
theorem processEncryptedSig_mac_spec (K : Crypto) (m2 enc : Bytes) :
    (K.mac2 m2 (appendData [] enc)).take truncateLength = Spec.macdSignature K m2 enc := by
  simp only [appendData_spec, List.nil_append, Spec.macdSignature, truncateLength]

/-- PUBKEY: type 0x0000 then p, q, g, y as MPIs -/
theorem dsaPub_serialize_spec (k : DsaPub) : k.serialize = Spec.PUBKEY k := by
  simp only [DsaPub.serialize, appendMPI_spec, Spec.PUBKEY, List.append_assoc]
  rfl

/-- fingerprint: SHA-1 of the PUBKEY without its two type bytes -/
theorem dsaPub_fingerprint_spec (K : Crypto) (k : DsaPub) : k.fingerprint K = Spec.fingerprint K k := by
  simp only [DsaPub.fingerprint, DsaPub.serialize, appendMPI_spec, Spec.fingerprint, List.append_assoc]
  rfl

/-- `appendAll` is the MAC'd data of M_B / M_A: own D-H key, peer's D-H key, PUBKEY, keyid -/
theorem appendAll_spec (one two : Nat) (pk : DsaPub) (keyID : Nat) :
    appendAll one two pk keyID = Spec.akeMInput one two pk keyID := by
  simp only [appendAll, appendWord_spec, appendMPI_spec, dsaPub_serialize_spec, Spec.akeMInput,
    List.nil_append, List.append_assoc]

/-- `mb` in `generateEncryptedSignature` is M_B (resp. M_A) -/
theorem generateEncryptedSignature_mb_spec (K : Crypto) (m1 : Bytes) (ours theirs : Nat) (pk : DsaPub) (keyID : Nat) :
    K.mac2 m1 (appendAll ours theirs pk keyID) = Spec.akeM K m1 ours theirs pk keyID := by
  simp only [appendAll_spec, Spec.akeM]

/-- `mb` in `processEncryptedSig`: the peer's M, with the peer's own D-H key first -/
theorem processEncryptedSig_mb_spec (K : Crypto) (m1 : Bytes) (theirs ours : Nat) (pk : DsaPub) (keyID : Nat) :
    K.mac2 m1 (appendAll theirs ours pk keyID) = Spec.akeM K m1 theirs ours pk keyID := by
  simp only [appendAll_spec, Spec.akeM]

/-- `xb ++ sigb` in `generateEncryptedSignature` is X_B when the signature oracle returns a SIG -/
theorem generateEncryptedSignature_xb_spec (pk : DsaPub) (keyID r s : Nat) :
    appendWord pk.serialize keyID ++ Spec.SIG r s = Spec.akeX pk keyID r s := by
  simp only [appendWord_spec, dsaPub_serialize_spec, Spec.akeX]

/-- the cipher call of `akeEncrypt` is "AES128-CTR with key c and initial counter value 0" -/
theorem akeEncrypt_ctr_spec (K : Crypto) (key data : Bytes) :
    K.ctr key (List.replicate 16 0) data = Spec.akeEncryptX K key data := rfl

/-! ### SIG: two 20-byte big-endian integers -/

theorem bytesToNat_zeros (k : Nat) (l : Bytes) : bytesToNat (List.replicate k 0 ++ l) = bytesToNat l := by
  induction k with
  | zero => rfl
  | succ k ih =>
    have : bytesToNat (List.replicate (k + 1) 0 ++ l) = bytesToNat (List.replicate k 0 ++ l) := by
      simp only [bytesToNat, List.replicate_succ, List.cons_append, List.foldl_cons]
      rfl
    rw [this, ih]

theorem fixedBE_value (len n : Nat) : bytesToNat (Spec.fixedBE len n) = n := by
  simp only [Spec.fixedBE, bytesToNat_zeros, Spec.magnitude, bytesToNat_natToBytes]

theorem fixedBE_length (len n : Nat) (h : n < 256 ^ len) : (Spec.fixedBE len n).length = len := by
  have := natToBytesLE_length_le len n h
  simp only [Spec.fixedBE, Spec.magnitude, natToBytes, List.length_append, List.length_replicate,
    List.length_reverse]
  omega

/-- `processEncryptedSig` reads `r` and `s` back from a spec SIG (`sig[:20]`, `sig[20:40]`) -/
theorem sig_parse_spec (r s : Nat) (hr : r < 256 ^ 20) (hs : s < 256 ^ 20) :
    (Spec.SIG r s).length = 40 ∧
    bytesToNat ((Spec.SIG r s).take 20) = r ∧
    bytesToNat (((Spec.SIG r s).drop 20).take 20) = s := by
  have lr := fixedBE_length 20 r hr
  have ls := fixedBE_length 20 s hs
  refine ⟨?_, ?_, ?_⟩
  · simp only [Spec.SIG, List.length_append, lr, ls]
  · have : (Spec.SIG r s).take 20 = Spec.fixedBE 20 r := by
      simp only [Spec.SIG]; exact List.take_left' lr
    rw [this, fixedBE_value]
  · have : ((Spec.SIG r s).drop 20).take 20 = Spec.fixedBE 20 s := by
      have hd : (Spec.SIG r s).drop 20 = Spec.fixedBE 20 s := by
        simp only [Spec.SIG]; exact List.drop_left' lr
      rw [hd]; exact List.take_of_length_le (by omega)
    rw [this, fixedBE_value]

/-- the library (Go's `dsa.Verify`, which does not truncate the hash) uses M_B "taken modulo q", as the
    spec prescribes, not the FIPS-186 truncation -/
theorem dsaVerify_mod_q (p q g y : Nat) (M : Bytes) (r s : Nat) :
    CryptoReal.dsaVerify p q g y M r s = CryptoReal.dsaVerifyZ p q g y (Spec.akeSignedValue q M) r s := by
  have e : CryptoReal.bytesToNat M = bytesToNat M := rfl
  simp only [CryptoReal.dsaVerify, CryptoReal.dsaVerifyZ, Spec.akeSignedValue, Nat.mod_mul_mod, e]

/-! ## C. key derivation -/

theorem cons_byte_spec (b : Nat) (x : Bytes) : b8 b :: x = Spec.BYTE b ++ x := rfl

/-- the model's `secbytes` is the spec's -/
theorem secbytes_spec (s : Nat) : appendMPI [] s = Spec.secbytes s := by
  simp only [appendMPI_spec, Spec.secbytes, List.nil_append]

def AkeKeys.revealOfSpec (k : Spec.AkeKeys) : AkeKeys := ⟨k.c, k.m1, k.m2⟩
def AkeKeys.sigOfSpec (k : Spec.AkeKeys) : AkeKeys := ⟨k.c', k.m1', k.m2'⟩

/-- `calculateAKEKeys` without any assumption on the hash: everything is the spec value, except that the
    library takes c' as *all* of h2(0x01) after the first 16 bytes, the spec "the second 128 bits". -/
theorem calculateAKEKeys_spec_raw (K : Crypto) (s : Nat) :
    calculateAKEKeys K s =
      ((Spec.akeKeys K s).ssid,
       ⟨(Spec.akeKeys K s).c, (Spec.akeKeys K s).m1, (Spec.akeKeys K s).m2⟩,
       ⟨(Spec.h2 K 1 s).drop 16, (Spec.akeKeys K s).m1', (Spec.akeKeys K s).m2'⟩) := by
  simp only [calculateAKEKeys, secbytes_spec, Spec.akeKeys, Spec.h2]
  rfl

/-- `calculateAKEKeys` = the spec's ssid, (c, m1, m2), (c', m1', m2') for a 256-bit hash -/
theorem calculateAKEKeys_spec (K : Crypto) (s : Nat) (h32 : (Spec.h2 K 1 s).length = 32) :
    calculateAKEKeys K s =
      ((Spec.akeKeys K s).ssid, AkeKeys.revealOfSpec (Spec.akeKeys K s), AkeKeys.sigOfSpec (Spec.akeKeys K s)) := by
  rw [calculateAKEKeys_spec_raw]
  have : ((Spec.h2 K 1 s).drop 16).take 16 = (Spec.h2 K 1 s).drop 16 :=
    List.take_of_length_le (by simp only [List.length_drop]; omega)
  simp only [AkeKeys.revealOfSpec, AkeKeys.sigOfSpec, Spec.akeKeys, this]

/-- the shared secret of `calcAKEKeys`: s = (g^y)^x -/
theorem calcAKEKeys_secret_spec (K : Crypto) (theirs : Nat) (x : Bytes) :
    K.gexp theirs (bytesToNat x) = Spec.sharedSecret K theirs (bytesToNat x) := rfl

def SessionKeys.ofSpec (k : Spec.DataKeys) : SessionKeys :=
  ⟨k.sendAES, k.recvAES, k.sendMAC, k.recvMAC, k.extraKey⟩

/-- `calculateDHSessionKeys` = the spec's sending/receiving AES and MAC keys and extra symmetric key -/
theorem sessionKeysOf_spec (K : Crypto) (ourPriv : Bytes) (ourPub theirPub : Nat) :
    sessionKeysOf K ourPriv ourPub theirPub =
      SessionKeys.ofSpec (Spec.dataKeys K ourPub theirPub (Spec.sharedSecret K theirPub (bytesToNat ourPriv))) := by
  by_cases h : ourPub > theirPub
  · simp only [sessionKeysOf, h, ↓reduceIte, secbytes_spec, SessionKeys.ofSpec, Spec.dataKeys, Spec.sendByte,
      Spec.recvByte, Spec.isHighEnd, decide_true, Spec.h1, Spec.sharedSecret, keyLength]
    rfl
  · simp only [sessionKeysOf, h, ↓reduceIte, secbytes_spec, SessionKeys.ofSpec, Spec.dataKeys, Spec.sendByte,
      Spec.recvByte, Spec.isHighEnd, decide_false, Spec.h1, Spec.sharedSecret, keyLength, Bool.false_eq_true]
    rfl

/-! ## D. data message -/

def DataMsg.toSpec (m : DataMsg) : Spec.DataMessage :=
  ⟨m.flag, m.senderKeyID, m.recipientKeyID, m.y, m.topHalfCtr, m.encryptedMsg, m.oldMACKeys.flatten⟩

/-- flags ‖ sender keyid ‖ recipient keyid ‖ MPI next_dh ‖ CTR ‖ DATA encrypted message -/
theorem serializeUnsignedFields_spec (flag skid rkid y : Nat) (ctr enc old : Bytes) :
    serializeUnsignedFields flag skid rkid y ctr enc =
      Spec.dataMessageFields ⟨flag, skid, rkid, y, ctr, enc, old⟩ := by
  simp only [serializeUnsignedFields, appendData_spec, appendMPI_spec, appendWord_spec,
    Spec.dataMessageFields, Spec.dataMessageAuthenticated, spec_BYTE, List.nil_append, List.append_assoc]

theorem dataMsg_serializeUnsigned_spec (m : DataMsg) : m.serializeUnsigned = Spec.dataMessageFields m.toSpec :=
  serializeUnsignedFields_spec _ _ _ _ _ _ _

theorem dataMessageAuthenticated_eq (hdr : Bytes) (d : Spec.DataMessage) :
    Spec.dataMessageAuthenticated hdr d = hdr ++ Spec.dataMessageFields d := by
  simp only [Spec.dataMessageFields, Spec.dataMessageAuthenticated, List.nil_append, List.append_assoc]

/-- the MAC input in `genDataMsgWithFlag` (`header ++ raw`): "everything from the Protocol version to the
    end of the encrypted message" -/
theorem genDataMsg_macInput_spec (hdr : Bytes) (flag skid rkid y : Nat) (ctr enc old : Bytes) :
    hdr ++ serializeUnsignedFields flag skid rkid y ctr enc =
      Spec.dataMessageAuthenticated hdr ⟨flag, skid, rkid, y, ctr, enc, old⟩ := by
  rw [dataMessageAuthenticated_eq, serializeUnsignedFields_spec (old := old)]

/-- `dataMsg.serialize` behind its header, for a message whose cache is its own unsigned part and whose
    authenticator was computed as in `genDataMsgWithFlag` -/
theorem dataMsg_serialize_spec (K : Crypto) (mk hdr : Bytes) (m : DataMsg)
    (hraw : m.unsignedRaw = m.serializeUnsigned)
    (hauth : m.authenticator = K.mac1 mk (hdr ++ m.unsignedRaw)) :
    hdr ++ m.serialize = Spec.dataMessage K mk hdr m.toSpec := by
  have e : hdr ++ m.serializeUnsigned = Spec.dataMessageAuthenticated hdr m.toSpec := by
    rw [dataMessageAuthenticated_eq, dataMsg_serializeUnsigned_spec]
  simp only [DataMsg.serialize, appendData_spec, hauth, hraw, Spec.dataMessage, Spec.dataMessageAuthenticator,
    e, List.append_assoc]
  rw [← List.append_assoc hdr, e]
  rfl

/-- the record returned by `genDataMsgWithFlag`, serialised behind the header as `createSerializedDataMessage`
    does, is the spec's Data Message -/
theorem genDataMsg_result_spec (K : Crypto) (mk hdr : Bytes) (flag skid rkid y : Nat) (top enc : Bytes)
    (old : List Bytes) :
    hdr ++ DataMsg.serialize ⟨flag, skid, rkid, y, top, enc,
        K.mac1 mk (hdr ++ serializeUnsignedFields flag skid rkid y top enc), old,
        serializeUnsignedFields flag skid rkid y top enc⟩ =
      Spec.dataMessage K mk hdr ⟨flag, skid, rkid, y, top, enc, old.flatten⟩ :=
  dataMsg_serialize_spec K mk hdr _ rfl rfl

/-- the MAC input in `processDataMessageRaw` (`header ++ dm.unsignedRaw`) for a well-formed message on the
    wire is again the spec's authenticated stretch -/
theorem processDataMessage_macInput_spec (hdr : Bytes) (m : DataMsg) (rest : Bytes) (h : m.WF) :
    ∃ dm, deserializeUnsigned (m.serializeUnsigned ++ rest) = some (dm, rest) ∧
      hdr ++ dm.unsignedRaw = Spec.dataMessageAuthenticated hdr m.toSpec := by
  refine ⟨_, deserializeUnsigned_roundtrip m rest h, ?_⟩
  rw [dataMessageAuthenticated_eq, dataMsg_serializeUnsigned_spec]

/-- the counter block handed to AES in `encryptPlain` and in `processDataMessageRaw` -/
theorem dataCounter_spec (topHalf : Bytes) : topHalf ++ List.replicate 8 0 = Spec.dataCounter topHalf := rfl

theorem encryptPlain_ctr_spec (K : Crypto) (key ctr plain : Bytes) :
    K.ctr key (ctr ++ List.replicate 8 0) plain = Spec.encryptData K key ctr plain := rfl

/-- the top half sent by `genDataMsgWithFlag` is a CTR (8 bytes) … -/
theorem topHalf_isCTR (n : Nat) : Spec.IsCTR (be64 n) := rfl

/-- … and "must not be all 0x00": the library starts counting at 1 -/
theorem topHalf_nonzero (n : Nat) (h1 : 1 ≤ n) (h2 : n < 18446744073709551616) :
    be64 n ≠ List.replicate 8 0 := by
  intro e
  have e' : be64 n = [0, 0, 0, 0, 0, 0, 0, 0] := e
  simp only [be64, List.cons.injEq, and_true] at e'
  obtain ⟨a, b, c, d, e1, f, g, i⟩ := e'
  have ha := congrArg UInt8.toNat a
  have hb := congrArg UInt8.toNat b
  have hc := congrArg UInt8.toNat c
  have hd := congrArg UInt8.toNat d
  have he := congrArg UInt8.toNat e1
  have hf := congrArg UInt8.toNat f
  have hg := congrArg UInt8.toNat g
  have hi := congrArg UInt8.toNat i
  simp only [b8_toNat] at ha hb hc hd he hf hg hi
  have z : (0 : UInt8).toNat = 0 := rfl
  rw [z] at ha hb hc hd he hf hg hi
  omega

/-- key ids used by `genDataMsgWithFlag`: sender keyid = our_keyid − 1, recipient keyid = their_keyid -/
theorem genDataMsg_keyIds_spec (ourKeyID theirKeyID : Nat) :
    (ourKeyID - 1, theirKeyID) = Spec.sendKeyIds ourKeyID theirKeyID := rfl

/-! ## E. plaintext, TLVs, SMP -/

theorem tlv_serialize_spec (t : Tlv) (h : t.len = t.value.length) : t.serialize = Spec.TLV t.typ t.value := by
  simp only [Tlv.serialize, appendShort_spec, Spec.TLV, h, List.nil_append]

def Tlv.toSpec (t : Tlv) : Nat × Bytes := (t.typ, t.value)

theorem tlvs_flatMap_spec (ts : List Tlv) (h : ∀ t ∈ ts, t.len = t.value.length) :
    ts.flatMap Tlv.serialize = ((ts.map Tlv.toSpec).map fun t => Spec.TLV t.1 t.2).flatten := by
  induction ts with
  | nil => rfl
  | cons t ts ih =>
    simp only [List.flatMap_cons, List.map_cons, List.flatten_cons]
    rw [ih (fun t ht => h t (List.mem_cons_of_mem _ ht)), tlv_serialize_spec t (h t List.mem_cons_self)]
    rfl

/-- `plainDataMsg.serialize`: message, NUL, TLVs.  The library always writes the NUL (also without
    TLVs), which the spec allows ("optionally followed by a NUL and zero or more TLVs"). -/
theorem plainDataMsg_serialize_spec (p : PlainDataMsg) (h : ∀ t ∈ p.tlvs, t.len = t.value.length) :
    Spec.IsPlaintext p.message (p.tlvs.map Tlv.toSpec) p.serialize := by
  right
  simp only [PlainDataMsg.serialize, tlvs_flatMap_spec p.tlvs h]

/-- … and it is the spec's minimal form as soon as there is a TLV (after `pad` there always is) -/
theorem plainDataMsg_serialize_spec' (p : PlainDataMsg) (h : ∀ t ∈ p.tlvs, t.len = t.value.length)
    (hne : p.tlvs ≠ []) :
    p.serialize = Spec.plaintext p.message (p.tlvs.map Tlv.toSpec) := by
  cases hp : p.tlvs with
  | nil => exact absurd hp hne
  | cons t ts =>
    rw [hp] at h
    simp only [PlainDataMsg.serialize, hp, tlvs_flatMap_spec _ h, Spec.plaintext, List.map_cons]

/-- number of padding bytes chosen by `plainDataMsg.pad` -/
def padLen (p : PlainDataMsg) : Nat := paddingGranularity - ((p.message.length + 4 + 1) % paddingGranularity)

/-- `pad` appends one spec padding TLV (type 0) of `padLen` zero bytes -/
theorem pad_serialize_spec (p : PlainDataMsg) :
    p.pad.serialize = p.serialize ++ Spec.paddingTLV (List.replicate (padLen p) 0) := by
  have e : (⟨tlvTypePadding, padLen p, List.replicate (padLen p) 0⟩ : Tlv).serialize =
      Spec.paddingTLV (List.replicate (padLen p) 0) := by
    rw [tlv_serialize_spec _ (by simp only [List.length_replicate])]
    rfl
  simp only [PlainDataMsg.pad, PlainDataMsg.serialize, List.flatMap_append, List.flatMap_cons, List.flatMap_nil,
    List.append_nil, List.append_assoc]
  rw [← e]
  rfl

theorem pad_length (p : PlainDataMsg) :
    p.pad.serialize.length = p.message.length + 1 + (p.tlvs.flatMap Tlv.serialize).length + 4 + padLen p := by
  rw [pad_serialize_spec]
  simp only [PlainDataMsg.serialize, Spec.paddingTLV, Spec.TLV, Spec.SHORT, List.length_append, List.length_cons,
    List.length_nil, List.length_replicate]
  omega

/-- the padded plaintext is a multiple of 256 bytes when the message carries no other TLV … -/
theorem pad_multiple_of_256 (p : PlainDataMsg) (h : p.tlvs = []) : p.pad.serialize.length % 256 = 0 := by
  rw [pad_length, h]
  simp only [padLen, paddingGranularity, List.flatMap_nil, List.length_nil]
  omega

/-- … in general its length is congruent to the total length of the other TLVs (the padding is computed
    from the message length only) -/
theorem pad_length_mod (p : PlainDataMsg) :
    p.pad.serialize.length % 256 = (p.tlvs.flatMap Tlv.serialize).length % 256 := by
  rw [pad_length]
  simp only [padLen, paddingGranularity]
  omega

/-- SMP payload: MPI count (INT) then the MPIs -/
theorem genSMPTLV_value_spec (tp : Nat) (mpis : List Nat) : (genSMPTLV tp mpis).value = Spec.smpPayload mpis := by
  simp only [genSMPTLV, appendMPIs_spec, appendWord_spec, Spec.smpPayload, List.nil_append]

theorem genSMPTLV_serialize_spec (tp : Nat) (mpis : List Nat) (h : (Spec.smpPayload mpis).length < 65536) :
    (genSMPTLV tp mpis).serialize = Spec.TLV tp (Spec.smpPayload mpis) := by
  have hv := genSMPTLV_value_spec tp mpis
  have hl : (genSMPTLV tp mpis).len = (genSMPTLV tp mpis).value.length := by
    rw [hv]
    show (appendMPIs (appendWord [] mpis.length) mpis).length % 65536 = _
    have : appendMPIs (appendWord [] mpis.length) mpis = Spec.smpPayload mpis := hv
    rw [this]; omega
  rw [tlv_serialize_spec _ hl, hv]
  rfl

theorem smp1_tlv_spec (m : Smp1Msg) (hq : m.hasQuestion = false)
    (h : (Spec.smpPayload [m.g2a, m.c2, m.d2, m.g3a, m.c3, m.d3]).length < 65536) :
    m.tlv.serialize = Spec.smp1 m.g2a m.c2 m.d2 m.g3a m.c3 m.d3 := by
  simp only [Smp1Msg.tlv, hq, Bool.false_eq_true, ↓reduceIte, genSMPTLV_serialize_spec _ _ h, Spec.smp1]
  rfl

theorem smp1q_tlv_spec (m : Smp1Msg) (hq : m.hasQuestion = true)
    (h : (m.question ++ [0] ++ Spec.smpPayload [m.g2a, m.c2, m.d2, m.g3a, m.c3, m.d3]).length < 65536) :
    m.tlv.serialize = Spec.smp1Q m.question m.g2a m.c2 m.d2 m.g3a m.c3 m.d3 := by
  simp only [Smp1Msg.tlv, hq, ↓reduceIte, genSMPTLV_value_spec, Spec.smp1Q]
  rw [tlv_serialize_spec _ (Nat.mod_eq_of_lt h)]
  rfl

theorem smp2_tlv_spec (m : Smp2Msg)
    (h : (Spec.smpPayload [m.g2b, m.c2, m.d2, m.g3b, m.c3, m.d3, m.pb, m.qb, m.cp, m.d5, m.d6]).length < 65536) :
    m.tlv.serialize = Spec.smp2 m.g2b m.c2 m.d2 m.g3b m.c3 m.d3 m.pb m.qb m.cp m.d5 m.d6 := by
  simp only [Smp2Msg.tlv, genSMPTLV_serialize_spec _ _ h, Spec.smp2]
  rfl

theorem smp3_tlv_spec (m : Smp3Msg)
    (h : (Spec.smpPayload [m.pa, m.qa, m.cp, m.d5, m.d6, m.ra, m.cr, m.d7]).length < 65536) :
    m.tlv.serialize = Spec.smp3 m.pa m.qa m.cp m.d5 m.d6 m.ra m.cr m.d7 := by
  simp only [Smp3Msg.tlv, genSMPTLV_serialize_spec _ _ h, Spec.smp3]
  rfl

theorem smp4_tlv_spec (m : Smp4Msg) (h : (Spec.smpPayload [m.rb, m.cr, m.d7]).length < 65536) :
    m.tlv.serialize = Spec.smp4 m.rb m.cr m.d7 := by
  simp only [Smp4Msg.tlv, genSMPTLV_serialize_spec _ _ h, Spec.smp4]
  rfl

/-- DEVIATION (SMP abort).  Spec, TLV type 6: "The associated length should be zero and the associated
    value should be empty."  The library builds the abort TLV with `genSMPTLV(tlvTypeSMPAbort)`, i.e. with
    an MPI count of zero as value: type 6, length 4, value 00 00 00 00. -/
theorem deviation_smpAbort_value : smpAbortTlv.serialize = Spec.TLV Spec.tlvSMPAbort [0, 0, 0, 0] := by decide

theorem deviation_smpAbort : smpAbortTlv.serialize ≠ Spec.smpAbort := by decide

/-- the SMP hash function: SHA256(version ‖ MPI … ) read as an integer -/
theorem hashMPIsBN_spec (K : Crypto) (magic : Nat) (mpis : List Nat) :
    hashMPIsBN K magic mpis = Spec.smpHash K magic mpis := by
  have : (mpis.flatMap fun m => appendMPI [] m) = (mpis.map Spec.MPI).flatten := by
    induction mpis with
    | nil => rfl
    | cons m ms ih =>
      rw [List.flatMap_cons, ih]
      simp only [List.map_cons, List.flatten_cons, appendMPI_spec, List.nil_append]
  simp only [hashMPIsBN, this, Spec.smpHash, Spec.smpHashInput]
  rfl

/-- the hash input and result of `smpSecretFor` -/
theorem smpSecretFor_input_spec (i r ssid secret : Bytes) :
    [1] ++ i ++ r ++ ssid ++ secret = Spec.smpSecretInput i r ssid secret := rfl

theorem smpSecretFor_spec (K : Crypto) (i r ssid secret : Bytes) :
    bytesToNat (K.hash2 ([1] ++ i ++ r ++ ssid ++ secret)) = Spec.smpSecret K i r ssid secret := rfl

/-- the group element check used for D-H public keys (and for SMP in version 3) is the spec's range -/
theorem isGroupElement_spec (n : Nat) : isGroupElement n = true ↔ Spec.validDHPublic n := by
  simp only [isGroupElement, Bool.and_eq_true, decide_eq_true_eq, Spec.validDHPublic]

/-! ## F. text level: header, armour, query, whitespace tag, fragments, instance tags -/

/-- the 3-byte version 2 header -/
theorem header_v2_spec (msgType sender receiver : Nat) :
    appendShort [] 2 ++ [b8 msgType] = Spec.header .v2 msgType sender receiver := rfl

/-- the 11-byte version 3 header -/
theorem header_v3_spec (msgType sender receiver : Nat) :
    appendWord (appendWord (appendShort [] 3 ++ [b8 msgType]) sender) receiver =
      Spec.header .v3 msgType sender receiver := rfl

theorem header_length (v : Spec.Version) (t s r : Nat) :
    (Spec.header v t s r).length = match v with | .v2 => 3 | .v3 => 11 := by
  cases v <;> rfl

/-- `messageHeader` of a version 3 conversation (cf. `messageHeader_v3`) writes the spec header with our
    instance tag as sender and the peer's (0 while unknown) as receiver -/
theorem messageHeader_v3_spec (s : MState) (hv : s.conv.version = some .v3) (ht : s.conv.ourTag ≠ 0)
    (msgType : Nat) :
    runM (messageHeader msgType) s =
      .ok (.ok (Spec.header .v3 msgType s.conv.ourTag s.conv.theirTag), s) :=
  messageHeader_v3 s hv ht msgType

theorem messageHeader_v2_spec (s : MState) (hv : s.conv.version = some .v2) (msgType : Nat) :
    runM (messageHeader msgType) s = .ok (.ok (Spec.header .v2 msgType 0 0), s) := by
  unfold messageHeader
  simp only [runM_bind, runM_getc, bindM_ok, hv, runM_pure]
  rfl

/-! ### base64 and the armour -/

theorem b64Char_spec (n : Nat) : b64Char n = Spec.b64Char n := rfl

/-- Go's `base64.StdEncoding` (as modelled) is RFC 4648 base64 as written in the spec file -/
theorem b64encode_spec : ∀ l : Bytes, b64encode l = Spec.base64 l
  | [] => by simp only [b64encode, Spec.base64]
  | [a] => by
    have := a.toNat_lt
    have e1 : a.toNat * 65536 / 262144 = a.toNat / 4 := by omega
    have e2 : a.toNat * 65536 / 4096 % 64 = a.toNat % 4 * 16 := by omega
    simp only [b64encode, Spec.base64, b64Char_spec, e1, e2]
  | [a, b] => by
    have := a.toNat_lt
    have := b.toNat_lt
    have e1 : (a.toNat * 65536 + b.toNat * 256) / 262144 = a.toNat / 4 := by omega
    have e2 : (a.toNat * 65536 + b.toNat * 256) / 4096 % 64 = a.toNat % 4 * 16 + b.toNat / 16 := by omega
    have e3 : (a.toNat * 65536 + b.toNat * 256) / 64 % 64 = b.toNat % 16 * 4 := by omega
    simp only [b64encode, Spec.base64, b64Char_spec, e1, e2, e3]
  | a :: b :: c :: rest => by
    have := a.toNat_lt
    have := b.toNat_lt
    have := c.toNat_lt
    have e1 : (a.toNat * 65536 + b.toNat * 256 + c.toNat) / 262144 = a.toNat / 4 := by omega
    have e2 : (a.toNat * 65536 + b.toNat * 256 + c.toNat) / 4096 % 64 = a.toNat % 4 * 16 + b.toNat / 16 := by omega
    have e3 : (a.toNat * 65536 + b.toNat * 256 + c.toNat) / 64 % 64 = b.toNat % 16 * 4 + c.toNat / 64 := by omega
    have e4 : (a.toNat * 65536 + b.toNat * 256 + c.toNat) % 64 = c.toNat % 64 := by omega
    simp only [b64encode, Spec.base64, b64Char_spec, e1, e2, e3, e4, b64encode_spec rest]

/-- the envelope built in `fragEncode`: "?OTR:" ‖ base64 ‖ "." -/
theorem fragEncode_envelope_spec (msg : Bytes) : msgMarker ++ b64encode msg ++ [46] = Spec.armor msg := by
  rw [b64encode_spec]
  rfl

theorem errorMarker_spec (text : Bytes) : errorMarker ++ text = Spec.errorMessage text := rfl

/-! ### query message and whitespace tag -/

/-- the version string the library offers under policy `p` -/
def offeredVersions (p : Policies) : String :=
  (if polHas p allowV2 then "2" else "") ++ (if polHas p allowV3 then "3" else "")

/-- `QueryMessage`: "?OTRv" versions "?" — never offers version 1 — followed (the spec allows any trailing
    text) by a space and the application's friendly text -/
theorem queryMessage_spec (p : Policies) (friendly : Bytes) :
    queryMessage p friendly =
      Spec.queryMessage false (some (offeredVersions p)) ++ (if friendly.isEmpty then [] else [32] ++ friendly) := by
  unfold queryMessage offeredVersions Spec.queryMessage
  have a1 : strBytes "v" = [118] := by decide
  have a2 : strBytes "?" = [63] := by decide
  have a3 : strBytes ("" ++ "") = [] := by decide
  have a4 : strBytes ("2" ++ "") = [50] := by decide
  have a5 : strBytes ("" ++ "3") = [51] := by decide
  have a6 : strBytes ("2" ++ "3") = [50, 51] := by decide
  cases polHas p allowV2 <;> cases polHas p allowV3 <;> cases hf : friendly.isEmpty <;>
    simp only [Bool.false_eq_true, ↓reduceIte, strBytes_OTR, strBytes_OTRv, a1, a2, a3, a4, a5, a6,
      List.append_nil, List.cons_append, List.nil_append]

/-- with both versions allowed and no friendly text the query is exactly "?OTRv23?" -/
theorem queryMessage_v23 (p : Policies) (h2 : polHas p allowV2 = true) (h3 : polHas p allowV3 = true) :
    queryMessage p [] = strBytes "?OTRv23?" := by
  simp only [queryMessage, h2, h3, ↓reduceIte, List.isEmpty_nil]
  decide

theorem whitespaceTagHeader_spec : whitespaceTagHeader = Spec.whitespaceTagBase := by decide
theorem whitespaceTagV2_spec : whitespaceTagV2 = Spec.whitespaceTagV2 := by decide
theorem whitespaceTagV3_spec : whitespaceTagV3 = Spec.whitespaceTagV3 := by decide

/-- `genWhitespaceTag`: the 16-byte base followed by the version 2 and/or version 3 tag -/
theorem genWhitespaceTag_spec (p : Policies) :
    genWhitespaceTag p = Spec.whitespaceTag (polHas p allowV2) (polHas p allowV3) := by
  simp only [genWhitespaceTag, Spec.whitespaceTag, whitespaceTagHeader_spec, whitespaceTagV2_spec,
    whitespaceTagV3_spec]

/-! ### fragments -/

/-- `k` lower-case hex digits of `n`, most significant first -/
def hexFixed : Nat → Nat → Bytes
  | 0, _ => []
  | k + 1, n => hexFixed k (n / 16) ++ [Spec.hexDigitLower (n % 16)]

theorem hexDigits_succ (f n : Nat) :
    hexDigits (f + 1) n =
      if n < 16 then [Spec.hexDigitLower (n % 16)] else hexDigits f (n / 16) ++ [Spec.hexDigitLower (n % 16)] := rfl

theorem hexFixed_zero (k : Nat) : hexFixed k 0 = List.replicate k 48 := by
  induction k with
  | zero => rfl
  | succ k ih =>
    show hexFixed k (0 / 16) ++ [Spec.hexDigitLower (0 % 16)] = _
    rw [Nat.zero_div, ih, List.replicate_succ']
    rfl

theorem hexDigits_pad : ∀ k f n, 1 ≤ k → k ≤ f → n < 16 ^ k →
    List.replicate (k - (hexDigits f n).length) 48 ++ hexDigits f n = hexFixed k n := by
  intro k
  induction k with
  | zero => intro f n h; omega
  | succ k ih =>
    intro f n _ hf hn
    cases f with
    | zero => omega
    | succ f =>
      rw [hexDigits_succ]
      by_cases h16 : n < 16
      · simp only [h16, ↓reduceIte, List.length_cons, List.length_nil, Nat.zero_add, Nat.add_sub_cancel]
        have : n / 16 = 0 := by omega
        show _ = hexFixed k (n / 16) ++ [Spec.hexDigitLower (n % 16)]
        rw [this, hexFixed_zero]
      · simp only [h16, ↓reduceIte, List.length_append, List.length_cons, List.length_nil, Nat.zero_add,
          Nat.add_sub_add_right]
        cases k with
        | zero => simp only [Nat.zero_add, Nat.pow_one] at hn; omega
        | succ k =>
          have hlt : n / 16 < 16 ^ (k + 1) := by
            rw [Nat.pow_succ] at hn
            exact Nat.div_lt_of_lt_mul (by rw [Nat.mul_comm]; exact hn)
          show _ = hexFixed (k + 1) (n / 16) ++ [Spec.hexDigitLower (n % 16)]
          rw [← ih f (n / 16) (by omega) (by omega) hlt, List.append_assoc]

/-- `%08x` of a 32-bit value: eight lower-case hex digits -/
theorem fmt08x_spec (v : Nat) (h : v < 4294967296) : fmt08x v = Spec.hex8 v := by
  have := hexDigits_pad 8 16 v (by omega) (by omega) (by simpa using h)
  show List.replicate (8 - (hexDigits 16 v).length) 48 ++ hexDigits 16 v = _
  rw [this]
  simp only [hexFixed, List.nil_append, List.cons_append, Nat.div_div_eq_div_mul, Nat.reduceMul, Spec.hex8]

/-- `%05d` of a value below 100000: five decimal digits -/
theorem fmt05d_spec (k : Nat) (h : k < 100000) : fmt05d k = Spec.dec5 k := by
  rw [fmt05d_explicit k h]
  have e : k / 10000 % 10 = k / 10000 := by omega
  simp only [Spec.dec5, e]
  rfl

theorem strBytes_bar : strBytes "|" = [124] := by decide
theorem strBytes_comma : strBytes "," = [44] := by decide

/-- a version 3 fragment as the library writes it is the canonical (libotr) form
    "?OTR|%08x|%08x,%05hu,%05hu,%s," of the spec -/
theorem fragment_v3_spec (n total its itr : Nat) (piece : Bytes)
    (h1 : its < 4294967296) (h2 : itr < 4294967296) (hn : n + 1 < 100000) (ht : total < 100000) :
    fragmentPrefix .v3 n total its itr ++ piece ++ [44] = Spec.fragmentV3 its itr (n + 1) total piece := by
  simp only [fragmentPrefix, otrv3FragPrefix, fmt08x_spec _ h1, fmt08x_spec _ h2, fmt05d_spec _ hn,
    fmt05d_spec _ ht, Spec.fragmentV3, strBytes_bar, strBytes_comma, List.append_assoc]

theorem fragment_v2_spec (n total its itr : Nat) (piece : Bytes) (hn : n + 1 < 100000) (ht : total < 100000) :
    fragmentPrefix .v2 n total its itr ++ piece ++ [44] = Spec.fragmentV2 (n + 1) total piece := by
  simp only [fragmentPrefix, otrv2FragPrefix, fmt05d_spec _ hn, fmt05d_spec _ ht, Spec.fragmentV2,
    strBytes_comma, List.append_assoc]

/-- the spec's canonical fragment for either version -/
def specFragment (v : Version) (its itr k n : Nat) (piece : Bytes) : Bytes :=
  match v with
  | .v2 => Spec.fragmentV2 k n piece
  | .v3 => Spec.fragmentV3 its itr k n piece

/-- everything `fragment` emits when it fragments is a canonical spec fragment carrying the `j`-th chunk,
    numbered `j+1` of `num` -/
theorem fragment_spec (v : Version) (its itr : Nat) (data : Bytes) (size : Nat)
    (h1 : its < 4294967296) (h2 : itr < 4294967296)
    (hs : hdrLen v + 1 < size) (hl : size < data.length)
    (hn : numFrags data.length (size - hdrLen v - 1) ≤ 65535) :
    ∀ p ∈ fragment v its itr data size, ∃ j, j < numFrags data.length (size - hdrLen v - 1) ∧
      p = specFragment v its itr (j + 1) (numFrags data.length (size - hdrLen v - 1))
            (chunk data (size - hdrLen v - 1) j) := by
  intro p hp
  rw [fragment_eq v its itr data size h1 h2 hs hl hn] at hp
  obtain ⟨j, _, hj, rfl⟩ := fragmentPieces_mem _ _ _ _ _ _ _ _ _ hp
  refine ⟨j, by omega, ?_⟩
  cases v
  · exact fragment_v2_spec j _ its itr _ (by omega) (by omega)
  · exact fragment_v3_spec j _ its itr _ h1 h2 (by omega) (by omega)

/-! #### the canonical form is one of the forms the spec allows -/

def hexStep (acc : Option Nat) (c : UInt8) : Option Nat :=
  match acc with
  | none => none
  | some v =>
    if 48 ≤ c.toNat ∧ c.toNat ≤ 57 then some (v * 16 + (c.toNat - 48))
    else if 97 ≤ c.toNat ∧ c.toNat ≤ 102 then some (v * 16 + (c.toNat - 87))
    else none

def decStep (acc : Option Nat) (c : UInt8) : Option Nat :=
  match acc with
  | none => none
  | some v => if 48 ≤ c.toNat ∧ c.toNat ≤ 57 then some (v * 10 + (c.toNat - 48)) else none

theorem hexValue_eq (s : Bytes) : Spec.hexValue s = s.foldl hexStep (some 0) := rfl
theorem decValue_eq (s : Bytes) : Spec.decValue s = s.foldl decStep (some 0) := rfl

theorem hexDigitLower_toNat_fin : ∀ d : Fin 16,
    (Spec.hexDigitLower d.val).toNat = if d.val < 10 then 48 + d.val else 87 + d.val := by decide

theorem hexStep_digit (a d : Nat) (h : d < 16) : hexStep (some a) (Spec.hexDigitLower d) = some (a * 16 + d) := by
  have key := hexDigitLower_toNat_fin ⟨d, h⟩
  simp only at key
  unfold hexStep
  simp only [key]
  by_cases h10 : d < 10
  · have c1 : 48 ≤ 48 + d ∧ 48 + d ≤ 57 := by omega
    simp only [h10, ↓reduceIte, c1, and_self, Nat.add_sub_cancel_left]
  · have c1 : ¬ (48 ≤ 87 + d ∧ 87 + d ≤ 57) := by omega
    have c2 : 97 ≤ 87 + d ∧ 87 + d ≤ 102 := by omega
    simp only [h10, ↓reduceIte, c1, c2, and_self, Nat.add_sub_cancel_left]

theorem decStep_digit (a d : Nat) (h : d < 10) : decStep (some a) (Spec.decDigit d) = some (a * 10 + d) := by
  have key : (Spec.decDigit d).toNat = 48 + d := dig_toNat d h
  unfold decStep
  have c1 : 48 ≤ 48 + d ∧ 48 + d ≤ 57 := by omega
  simp only [key, c1, and_self, ↓reduceIte, Nat.add_sub_cancel_left]

theorem hexValue_hex8 (v : Nat) (h : v < 4294967296) : Spec.hexValue (Spec.hex8 v) = some v := by
  simp only [hexValue_eq, Spec.hex8, List.foldl_cons, List.foldl_nil]
  rw [hexStep_digit _ _ (Nat.mod_lt _ (by omega)), hexStep_digit _ _ (Nat.mod_lt _ (by omega)),
    hexStep_digit _ _ (Nat.mod_lt _ (by omega)), hexStep_digit _ _ (Nat.mod_lt _ (by omega)),
    hexStep_digit _ _ (Nat.mod_lt _ (by omega)), hexStep_digit _ _ (Nat.mod_lt _ (by omega)),
    hexStep_digit _ _ (Nat.mod_lt _ (by omega)), hexStep_digit _ _ (Nat.mod_lt _ (by omega))]
  congr 1
  omega

theorem decValue_dec5 (v : Nat) (h : v < 100000) : Spec.decValue (Spec.dec5 v) = some v := by
  simp only [decValue_eq, Spec.dec5, List.foldl_cons, List.foldl_nil]
  rw [decStep_digit _ _ (Nat.mod_lt _ (by omega)), decStep_digit _ _ (Nat.mod_lt _ (by omega)),
    decStep_digit _ _ (Nat.mod_lt _ (by omega)), decStep_digit _ _ (Nat.mod_lt _ (by omega)),
    decStep_digit _ _ (Nat.mod_lt _ (by omega))]
  congr 1
  omega

/-- the canonical version 3 fragment is allowed by the spec — provided the piece is non-empty -/
theorem fragmentV3_allowed (its itr k n : Nat) (piece : Bytes)
    (h1 : its < 4294967296) (h2 : itr < 4294967296) (hk : 1 ≤ k) (hkn : k ≤ n) (hn : n ≤ 65535)
    (hp : piece ≠ []) :
    Spec.IsFragmentV3 its itr k n piece (Spec.fragmentV3 its itr k n piece) :=
  ⟨Spec.hex8 its, Spec.hex8 itr, Spec.dec5 k, Spec.dec5 n,
    List.cons_ne_nil _ _, List.cons_ne_nil _ _, List.cons_ne_nil _ _, List.cons_ne_nil _ _,
    hexValue_hex8 _ h1, hexValue_hex8 _ h2, decValue_dec5 _ (by omega), decValue_dec5 _ (by omega),
    hk, hkn, hn, hp, rfl⟩

theorem fragmentV2_allowed (k n : Nat) (piece : Bytes) (hk : 1 ≤ k) (hkn : k ≤ n) (hn : n ≤ 65535)
    (hp : piece ≠ []) :
    Spec.IsFragmentV2 k n piece (Spec.fragmentV2 k n piece) :=
  ⟨Spec.dec5 k, Spec.dec5 n, List.cons_ne_nil _ _, List.cons_ne_nil _ _,
    decValue_dec5 _ (by omega), decValue_dec5 _ (by omega), hk, hkn, hn, hp, rfl⟩

/-- the `j`-th chunk of a message is non-empty as long as it starts inside the data -/
theorem chunk_ne_nil (data : Bytes) (r j : Nat) (hr : 0 < r) (h : j * r < data.length) :
    chunk data r j ≠ [] := by
  intro e
  have hl := congrArg List.length e
  simp only [chunk, List.length_take, List.length_drop, List.length_nil, Nat.succ_mul] at hl
  omega

/-- the allowed-fragment relation of the spec for either version -/
def SpecIsFragment (v : Version) (its itr k n : Nat) (piece frag : Bytes) : Prop :=
  match v with
  | .v2 => Spec.IsFragmentV2 k n piece frag
  | .v3 => Spec.IsFragmentV3 its itr k n piece frag

/-- **every fragment the library emits is a fragment the specification allows** (repaired code: the
    count rounds up, so that also the last piece is non-empty; before the repair a message whose
    armoured length was a multiple of the payload size ended in "?OTR,00004,00004,,") -/
theorem fragment_allowed (v : Version) (its itr : Nat) (data : Bytes) (size : Nat)
    (h1 : its < 4294967296) (h2 : itr < 4294967296)
    (hs : hdrLen v + 1 < size) (hl : size < data.length)
    (hn : numFrags data.length (size - hdrLen v - 1) ≤ 65535) :
    ∀ p ∈ fragment v its itr data size, ∃ j, j < numFrags data.length (size - hdrLen v - 1) ∧
      SpecIsFragment v its itr (j + 1) (numFrags data.length (size - hdrLen v - 1))
        (chunk data (size - hdrLen v - 1) j) p := by
  intro p hp
  obtain ⟨j, hj, rfl⟩ := fragment_spec v its itr data size h1 h2 hs hl hn p hp
  refine ⟨j, hj, ?_⟩
  have hne := chunk_ne_nil data (size - hdrLen v - 1) j (by omega)
    (mul_lt_of_lt_numFrags _ _ _ (by omega) hj)
  cases v
  · exact fragmentV2_allowed _ _ _ (by omega) (by omega) hn hne
  · exact fragmentV3_allowed _ _ _ _ _ h1 h2 (by omega) (by omega) hn hne

/-- the former counter-example (30 bytes, fragment size 28: 10 bytes per piece) now gives three pieces -/
theorem fragment_example_repaired :
    (fragment .v2 0 0 (List.replicate 30 65) 28).getLast? =
      some (Spec.fragmentV2 3 3 (List.replicate 10 65)) := by decide

/-! ### instance tags -/

/-- the two range checks of `verifyInstanceTags` (receiver tag `our`, sender tag `their`, both read from
    4-byte fields) accept exactly the tags the spec calls valid -/
theorem verifyInstanceTags_guards_spec (their our : Nat) (ht : their < 4294967296) (ho : our < 4294967296) :
    (¬ (our > 0 ∧ our < 0x100) ∧ ¬ (their < 0x100)) ↔
      (Spec.validReceiverTag our ∧ Spec.validInstanceTag their) := by
  simp only [Spec.validReceiverTag, Spec.validInstanceTag]
  omega

/-! ## G. further factor lemmas -/

/-- the TLV built by `useExtraSymmetricKey`: type 8, 4-byte use context, use-specific data -/
theorem extraKeyTlv_spec (usage : Nat) (data : Bytes) (h : 4 + data.length < 65536) :
    (⟨tlvTypeExtraSymmetricKey, (4 + data.length % 65536) % 65536, appendWord [] usage ++ data⟩ : Tlv).serialize =
      Spec.extraKeyTLV usage data := by
  rw [tlv_serialize_spec _ (by
    simp only [appendWord_spec, List.nil_append, List.length_append, Spec.INT, List.length_cons, List.length_nil]
    omega)]
  rfl

/-- the zero-knowledge proofs use the hash "version" bytes the spec assigns: 1, 2 in message 1 … -/
theorem smp1Gen_c2_spec (K : Crypto) (a2 a3 r2 r3 : Nat) :
    (smp1Gen K a2 a3 r2 r3).msg.c2 = Spec.smpHash K 1 [K.gexp 2 r2] := by
  simp only [smp1Gen, generateZKP, hashMPIsBN_spec, gexp1, dhG]

theorem smp1Gen_c3_spec (K : Crypto) (a2 a3 r2 r3 : Nat) :
    (smp1Gen K a2 a3 r2 r3).msg.c3 = Spec.smpHash K 2 [K.gexp 2 r3] := by
  simp only [smp1Gen, generateZKP, hashMPIsBN_spec, gexp1, dhG]

/-- … 3, 4, 5 in message 2 (cP = SHA256(5, g3^r5, g1^r5 g2^r6)) … -/
theorem smp2Gen_c2_spec (K : Crypto) (y : Nat) (m1 : Smp1Msg) (b2 b3 r2 r3 r4 r5 r6 : Nat) :
    (smp2Gen K y m1 b2 b3 r2 r3 r4 r5 r6).msg.c2 = Spec.smpHash K 3 [K.gexp 2 r2] := by
  simp only [smp2Gen, generateZKP, hashMPIsBN_spec, gexp1, dhG]

theorem smp2Gen_c3_spec (K : Crypto) (y : Nat) (m1 : Smp1Msg) (b2 b3 r2 r3 r4 r5 r6 : Nat) :
    (smp2Gen K y m1 b2 b3 r2 r3 r4 r5 r6).msg.c3 = Spec.smpHash K 4 [K.gexp 2 r3] := by
  simp only [smp2Gen, generateZKP, hashMPIsBN_spec, gexp1, dhG]

theorem smp2Gen_cp_spec (K : Crypto) (y : Nat) (m1 : Smp1Msg) (b2 b3 r2 r3 r4 r5 r6 : Nat) :
    (smp2Gen K y m1 b2 b3 r2 r3 r4 r5 r6).msg.cp =
      Spec.smpHash K 5 [K.gexp (K.gexp m1.g3a b3) r5,
        K.gexp 2 r5 * K.gexp (K.gexp m1.g2a b2) r6 % dhP] := by
  simp only [smp2Gen, generateZKP, hashMPIsBN_spec, gexp1, dhG, mulModP]

/-- … and 8 in message 4 (cR = SHA256(8, g1^r7, (Qa/Qb)^r7)); 6 and 7 in message 3 are inside the `Res` monad
    of `smp3Gen` and are read off its definition (`hashMPIsBN K 6`, `hashMPIsBN K 7`). -/
theorem smp_cr_spec (K : Crypto) (v r7 qaqb : Nat) :
    hashMPIsBN K v [gexp1 K r7, K.gexp qaqb r7] = Spec.smpHash K v [K.gexp 2 r7, K.gexp qaqb r7] := by
  simp only [hashMPIsBN_spec, gexp1, dhG]

/-! ### receive-side deviations in SMP (not wire format, recorded because the spec states them as checks) -/

/-- SMP exponent range (repaired code).  Spec, SMP message 2/3/4 processing: "Check that ... D2, D3
    (D5, D6, D7) are >= 1 and < order".  `verifySMP*` now call `isExponent`, which is exactly that range;
    before the repair `d + q` was accepted in place of `d` (g1 has order q). -/
theorem isExponent_spec (d : Nat) : isExponent d = true ↔ Spec.smpValidExponent d := by
  simp only [isExponent, Spec.smpValidExponent, Bool.and_eq_true, decide_eq_true_eq]

theorem exponent_plus_order_invalid (d : Nat) : isExponent (d + dhQ) = false := by
  simp only [isExponent, Bool.and_eq_false_imp, decide_eq_true_eq, decide_eq_false_iff_not]
  omega

/-- DEVIATION (known, property C12): in version 2 conversations the SMP group element check is
    `n mod p ≠ 0` instead of `2 ≤ n ≤ p − 2`; e.g. 1 is accepted. -/
theorem deviation_smp_v2_group_element :
    (fun n : Nat => n % dhP != 0) 1 = true ∧ ¬ Spec.smpValidGroupElement 1 := by
  refine ⟨by decide, ?_⟩
  simp only [Spec.smpValidGroupElement]; omega

/-! ## H. kernel-checked small vectors (the hash-based vectors are in `test/SpecVectorsMain.lean`) -/

example : Spec.queryMessage false (some "23") = strBytes "?OTRv23?" := by decide
example : Spec.queryMessage true (some "2") = strBytes "?OTR?v2?" := by decide
example : Spec.queryMessage true none = strBytes "?OTR?" := by decide
example : Spec.whitespaceTag true true =
    strBytes " \t  \t\t\t\t \t \t \t  " ++ strBytes "  \t\t  \t " ++ strBytes "  \t\t  \t\t" := by decide
example : Spec.base64 (strBytes "foobar") = strBytes "Zm9vYmFy" := by decide
example : Spec.base64 (strBytes "foob") = strBytes "Zm9vYg==" := by decide
example : Spec.fragmentV3 0x100 0x102 1 11 (strBytes "one ") =
    strBytes "?OTR|00000100|00000102,00001,00011,one ," := by decide
example : Spec.header .v3 Spec.msgTypeDHCommit 0x100 0 = [0, 3, 2, 0, 0, 1, 0, 0, 0, 0, 0] := by decide
example : Spec.header .v2 Spec.msgTypeData 0 0 = [0, 2, 3] := by decide
example : Spec.TLV 1 [] = [0, 1, 0, 0] := by decide

end Otr
