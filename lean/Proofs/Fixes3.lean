/-
  Proofs.Fixes3 — theorems about the third round of repairs mirrored in the model (Otr/Conv.lean):

  §1  C01: a Reveal-Signature message whose answer cannot be built leaves the peer key of the conversation what it
        was (recvRevealSig_answer_fails_keeps_theirKey, with a concrete instance).
  §2  frames for the whole AKE path: the protocol version and the time stamp `ake.lastStateChange`
        (MetaFrame; only `initAKE` — reached through a DH-Commit message — clears the stamp: NoStampFrame).
  §3  C06: a message that `processAKE` rejects or ignores does not stamp `lastStateChange`
        (processAKE_rejected_no_stamp_partial, processAKE_rejected_no_stamp (not a DH-Commit),
        processAKE_rejected_clears_stamp (the witness against the unrestricted form),
        processAKE_ignored_no_stamp).
  §4  C06/C15: what is rejected, ignored or discarded binds neither the protocol version (nor the long-term key
        selected for it) nor the peer instance: frames VerFrame / VSet over the whole receive path,
        unbindState, receiveDecoded_of_core, receiveDecoded_rejected_unbinds, receiveDecoded_unbinds_of_core,
        receiveDecoded_ignored_unbinds; receiveFragment_run_of_prefix, receiveFragment_discarded_unbinds,
        receiveFragment_rejected_unbinds, receiveUnit_rejected_fragment_unbinds.
-/
import Proofs.Fixes2
namespace Otr

/-! ## 1. C01: the peer key is kept when the answer to a Reveal-Signature message cannot be built -/

/-- **C01 (repaired code).**  `recvRevealSig` in `awaitingRevealSig`: if the message itself passes every check
    (`processRevealSig` returns, in state `s1` — which already holds the peer key the message has proved) but the
    Signature reply cannot be built (`sigMessage` or the header throw `e`: no long-term key, signing fails, no
    instance tag), then the step returns the error with the authentication state unchanged, and the peer key of
    the conversation is what it was before the message (it is not the key of an exchange that did not complete);
    everything else is as the failed reply left it -/
theorem recvRevealSig_answer_fails_keeps_theirKey (K : Crypto) (msg : Bytes) (s s1 s2 : MState) (e : Err)
    (hp : runM (processRevealSig K msg) s = .ok (.ok (), s1))
    (hans : runM (do let m ← sigMessage K; wrapMessageHeader msgTypeSig m) s1 = .ok (.error e, s2)) :
    runM (recvRevealSig K .awaitingRevealSig msg) s =
      .ok (.ok (.awaitingRevealSig, none, some e),
        { s2 with conv := { s2.conv with theirKey := s.conv.theirKey } }) := by
  unfold recvRevealSig akeTry
  simp only []
  rw [runM_tryCatch, runM_bind, runM_getc, bindM_ok, runM_bind, hp, bindM_ok, runM_bind, runM_tryCatch, hans,
    catchM_error, runM_bind, runM_modc, bindM_ok, runM_throw, bindM_error, catchM_error, runM_pure]

/-- in particular -/
theorem recvRevealSig_answer_fails_theirKey (K : Crypto) (msg : Bytes) (s s1 s2 s' : MState) (e : Err)
    (r : Except Err (AuthState × Option Bytes × Option Err))
    (hp : runM (processRevealSig K msg) s = .ok (.ok (), s1))
    (hans : runM (do let m ← sigMessage K; wrapMessageHeader msgTypeSig m) s1 = .ok (.error e, s2))
    (h : runM (recvRevealSig K .awaitingRevealSig msg) s = .ok (r, s')) :
    r = .ok (.awaitingRevealSig, none, some e) ∧ s'.conv.theirKey = s.conv.theirKey := by
  rw [recvRevealSig_answer_fails_keeps_theirKey K msg s s1 s2 e hp hans] at h
  simp only [Res.ok.injEq, Prod.mk.injEq] at h
  exact ⟨h.1.symm, by rw [← h.2]⟩

/-! ### the hypotheses are satisfiable (§1) -/

/-- a crypto record that accepts everything (for satisfiability examples only) -/
def Crypto.lax : Crypto where
  hash1 := fun _ => []
  hash2 := fun _ => []
  mac1 := fun _ _ => []
  mac2 := fun _ _ => List.replicate 20 0
  ctr := fun _ _ d => some d
  gexp := fun _ _ => 2
  modInv := fun _ _ => none
  dsaVerify := fun _ _ _ _ => true

/-- the AKE context of a responder that has answered a DH-Commit message carrying the commitment to `g^x = 2` -/
def laxAke : Ake :=
  { state := .awaitingRevealSig, encryptedGx := [0, 0, 0, 1, 2], xhashedGx := [], ourPublicValue := some 2 }

/-- a conversation in `awaitingRevealSig` that has no long-term key to sign with (so the reply cannot be built)
    and knows a peer key from before -/
def laxState : MState :=
  { conv := { version := some .v2, theirKey := some ⟨7, 7, 7, 7⟩, ake := some laxAke }, env := {} }

/-- public key `(1,1,1,1)`, key id 1, a 40-byte signature -/
def laxEncSig : Bytes :=
  [0, 0] ++ [0, 0, 0, 1, 1] ++ [0, 0, 0, 1, 1] ++ [0, 0, 0, 1, 1] ++ [0, 0, 0, 1, 1] ++ [0, 0, 0, 1] ++
    List.replicate 40 0

/-- a Reveal-Signature message: `r` (16 bytes), the encrypted signature, its 20-byte MAC -/
def laxRevealSig : Bytes :=
  [0, 0, 0, 16] ++ List.replicate 16 0 ++ ([0, 0, 0, 66] ++ laxEncSig) ++ List.replicate 20 0

theorem laxRevealSig_accepted :
    runM (processRevealSig Crypto.lax laxRevealSig) laxState =
      .ok (.ok (), revealDone Crypto.lax laxState laxAke 2 ⟨1, 1, 1, 1⟩ 1) := by
  refine processRevealSig_accepts Crypto.lax laxRevealSig laxState laxAke rfl
    ⟨List.replicate 16 0, laxEncSig, List.replicate 20 0⟩ [0, 0, 0, 1, 2] 2 ⟨1, 1, 1, 1⟩ 1 2
    (by decide) rfl rfl (by decide) (by decide) rfl ?_
  refine ⟨by decide, laxEncSig, [0, 0, 0, 1] ++ List.replicate 40 0, List.replicate 40 0, rfl, by decide, by decide,
    by decide, rfl⟩

/-- the message is accepted, the reply cannot be built, and the peer key `(7,7,7,7)` known before is still the
    peer key afterwards (the hypotheses of `recvRevealSig_answer_fails_keeps_theirKey` hold together) -/
example : ∃ e s2,
    runM (do let m ← sigMessage Crypto.lax; wrapMessageHeader msgTypeSig m)
      (revealDone Crypto.lax laxState laxAke 2 ⟨1, 1, 1, 1⟩ 1) = .ok (.error e, s2) ∧
    runM (recvRevealSig Crypto.lax .awaitingRevealSig laxRevealSig) laxState =
      .ok (.ok (.awaitingRevealSig, none, some e),
        { s2 with conv := { s2.conv with theirKey := some ⟨7, 7, 7, 7⟩ } }) := by
  have hans : runM (do let m ← sigMessage Crypto.lax; wrapMessageHeader msgTypeSig m)
      (revealDone Crypto.lax laxState laxAke 2 ⟨1, 1, 1, 1⟩ 1) =
      .ok (.error (.other "no private key to sign the key exchange with"),
        { revealDone Crypto.lax laxState laxAke 2 ⟨1, 1, 1, 1⟩ 1 with
          conv := { (revealDone Crypto.lax laxState laxAke 2 ⟨1, 1, 1, 1⟩ 1).conv with
            ake := (revealDone Crypto.lax laxState laxAke 2 ⟨1, 1, 1, 1⟩ 1).conv.ake.map fun a =>
              { a with keys := { a.keys with ourKeyID := a.keys.ourKeyID + 1 } } } }) := by
    simp only [runM_bind, sigMessage, modAke, runM_modc, bindM_ok, getAke, runM_getc, revealDone, laxState,
      Option.map, runM_pure, generateEncryptedSignature, runM_throw, bindM_error]
  exact ⟨_, _, hans, recvRevealSig_answer_fails_keeps_theirKey _ _ _ _ _ _ laxRevealSig_accepted hans⟩

/-! ## 2. frames for the AKE path: protocol version and time stamp -/

/-- the time of the last step of a key exchange, if any (what `receiveQueryMessage` looks at) -/
def stampOf (s : MState) : Option Nat := s.conv.ake.bind (·.lastStateChange)

/-- the protocol version, the long-term key selected for it, and the time stamp of the AKE context -/
def metaKept (s : MState) := (s.conv.version, s.conv.ourCurrentKey, stampOf s)

/-- frame: protocol version, long-term key choice and time stamp unchanged -/
abbrev MetaFrame : MState → MState → Prop := Keeps metaKept

theorem modAke_meta (f : Ake → Ake) (hf : ∀ a, (f a).lastStateChange = a.lastStateChange) :
    Stable MetaFrame (modAke f) :=
  Stable.modc _ (fun s => by
    show metaKept _ = metaKept _
    unfold metaKept stampOf
    cases h : s.conv.ake with
    | none => simp [h]
    | some a => simp [h, hf])

/-- whatever keeps the conversation keeps version and stamp -/
theorem Stable.conv_meta {α} {x : M α} (h : Stable ConvFrame x) : Stable MetaFrame x :=
  Stable.mono (fun s s' hs => by
    have h2 : (s'.conv, s'.events) = (s.conv, s.events) := hs
    show metaKept _ = metaKept _
    unfold metaKept stampOf
    rw [(Prod.mk.inj h2).1]) h

/-- generating and serialising a data message keeps version and stamp -/
theorem Stable.send_meta {α} {x : M α} (h : Stable SendFrame x) : Stable MetaFrame x :=
  Stable.mono (fun s s' hs => by
    have h2 : sendKept s' = sendKept s := hs
    simp only [sendKept, Prod.mk.injEq] at h2
    show metaKept _ = metaKept _
    unfold metaKept stampOf
    rw [h2.2.2.2.1, h2.2.2.2.2.2.2.2.2.2.2.1, h2.2.2.2.2.2.2.2.2.2.2.2.2.1]) h

theorem randRead_meta (n : Nat) : Stable MetaFrame (randRead n) :=
  randRead_stable (fun _ _ _ _ => rfl) n

theorem randomInto_meta (n : Nat) : Stable MetaFrame (randomInto n) := by
  unfold randomInto
  stable [randRead_meta]

theorem wrapMessageHeader_meta (t : Nat) (m : Bytes) : Stable MetaFrame (wrapMessageHeader t m) := by
  unfold wrapMessageHeader
  stable [(messageHeader_sendFrame _).send_meta]

theorem getAke_meta : Stable MetaFrame getAke := getAke_conv.conv_meta

theorem optNat_meta (site : String) (v : Option Nat) : Stable MetaFrame (optNat site v) :=
  (optNat_conv site v).conv_meta

theorem resToM_meta {α} (r : Res α) : Stable MetaFrame (resToM r) := (resToM_conv r).conv_meta

theorem generateEncryptedSignature_meta (K : Crypto) (key : AkeKeys) :
    Stable MetaFrame (generateEncryptedSignature K key) := (generateEncryptedSignature_conv K key).conv_meta

theorem sigMessage_meta (K : Crypto) : Stable MetaFrame (sigMessage K) := by
  unfold sigMessage
  stable [modAke_meta, getAke_meta, generateEncryptedSignature_meta, resToM_meta]

theorem akeSetTheirCurrent_meta : Stable MetaFrame akeSetTheirCurrent := by
  unfold akeSetTheirCurrent
  stable [modAke_meta, getAke_meta, optNat_meta]

theorem akeSetOurCurrent_meta : Stable MetaFrame akeSetOurCurrent := by
  unfold akeSetOurCurrent
  stable [modAke_meta, getAke_meta, optNat_meta]

theorem serializeDHKey_meta : Stable MetaFrame serializeDHKey := by
  unfold serializeDHKey
  stable [getAke_meta, optNat_meta]

theorem serializeDHCommit_meta (K : Crypto) : Stable MetaFrame (serializeDHCommit K) := by
  unfold serializeDHCommit
  stable [getAke_meta, optNat_meta]

theorem processDHCommit_meta (msg : Bytes) : Stable MetaFrame (processDHCommit msg) := by
  unfold processDHCommit
  stable [modAke_meta]

theorem processDHKey_meta (msg : Bytes) : Stable MetaFrame (processDHKey msg) := by
  unfold processDHKey
  stable [modAke_meta, getAke_meta]

/-- a conditional write of a field other than the version and the AKE context -/
theorem modc_ite_meta (p : Conv → Prop) [DecidablePred p] (f : Conv → Conv)
    (hf : ∀ c, (f c).version = c.version ∧ (f c).ourCurrentKey = c.ourCurrentKey ∧ (f c).ake = c.ake) :
    Stable MetaFrame (modc fun c => if p c then f c else c) :=
  Stable.modc _ (fun s => by
    show metaKept _ = metaKept _
    unfold metaKept stampOf
    dsimp only
    split
    · rw [(hf s.conv).1, (hf s.conv).2.1, (hf s.conv).2.2]
    · rfl)

theorem calcAKEKeys_meta (K : Crypto) : Stable MetaFrame (calcAKEKeys K) := by
  unfold calcAKEKeys
  stable [modAke_meta, getAke_meta, optNat_meta]
  all_goals exact modc_ite_meta _ _ (fun _ => ⟨rfl, rfl, rfl⟩)

theorem revealSigMessage_meta (K : Crypto) : Stable MetaFrame (revealSigMessage K) := by
  unfold revealSigMessage
  stable [calcAKEKeys_meta, modAke_meta, getAke_meta, generateEncryptedSignature_meta, resToM_meta]

theorem recvDHKey_meta (K : Crypto) (st : AuthState) (msg : Bytes) : Stable MetaFrame (recvDHKey K st msg) := by
  unfold recvDHKey akeTry
  split
  · exact Stable.pure _
  · exact Stable.pure _
  · refine Stable.tryCatch ?_ (fun e => Stable.pure _)
    refine Stable.bind (processDHKey_meta msg) fun _ => ?_
    refine Stable.bind (revealSigMessage_meta K) fun m => ?_
    stable [wrapMessageHeader_meta, akeSetTheirCurrent_meta, akeSetOurCurrent_meta, modAke_meta]
    all_goals exact modc_ite_meta _ _ (fun _ => ⟨rfl, rfl, rfl⟩)
  · stable [processDHKey_meta]

theorem processEncryptedSig_meta (K : Crypto) (encryptedSig theirMAC : Bytes) (keys : AkeKeys) :
    Stable MetaFrame (processEncryptedSig K encryptedSig theirMAC keys) := by
  unfold processEncryptedSig
  stable [modAke_meta, getAke_meta, optNat_meta]

theorem processRevealSig_meta (K : Crypto) (msg : Bytes) : Stable MetaFrame (processRevealSig K msg) := by
  unfold processRevealSig
  stable [modAke_meta, getAke_meta, calcAKEKeys_meta, processEncryptedSig_meta]

theorem processSig_meta (K : Crypto) (msg : Bytes) : Stable MetaFrame (processSig K msg) := by
  unfold processSig
  stable [getAke_meta, processEncryptedSig_meta]

/-- `akeHasFinished` resets the AKE context but keeps its state and its time stamp (`Ake.wiped`) -/
theorem akeHasFinished_meta (K : Crypto) : Stable MetaFrame (akeHasFinished K) := by
  intro s r s' h
  cases ha : s.conv.ake with
  | none => rw [akeHasFinished_none K s ha] at h; cases h
  | some a =>
    obtain ⟨r0, env', mm', -, h'⟩ := akeHasFinished_run K s a ha
    rw [h'] at h
    simp only [Res.ok.injEq, Prod.mk.injEq] at h
    rw [← h.2]
    show metaKept _ = metaKept _
    unfold metaKept stampOf
    rw [ha]
    rfl

theorem recvRevealSig_meta (K : Crypto) (st : AuthState) (msg : Bytes) :
    Stable MetaFrame (recvRevealSig K st msg) := by
  unfold recvRevealSig akeTry
  stable [processRevealSig_meta, sigMessage_meta, wrapMessageHeader_meta, akeSetTheirCurrent_meta,
    akeSetOurCurrent_meta, akeHasFinished_meta, modAke_meta]

theorem recvSig_meta (K : Crypto) (st : AuthState) (msg : Bytes) :
    Stable MetaFrame (recvSig K st msg) := by
  unfold recvSig akeTry
  stable [processSig_meta, akeSetTheirCurrent_meta, akeHasFinished_meta]

theorem retransmit_meta (K : Crypto) : Stable MetaFrame (retransmit K) := by
  unfold retransmit updateLastSent msgEvent
  stable [(genDataMsgWithFlag_sendFrame K _ _ _).send_meta, wrapMessageHeader_meta]

theorem retransmitOrReveal_meta (K : Crypto) : Stable MetaFrame (retransmitOrReveal K) := by
  unfold retransmitOrReveal maybeRetransmit
  stable [retransmit_meta, (genDataMsgWithFlag_sendFrame K _ _ _).send_meta, wrapMessageHeader_meta]

theorem retransmitAfterCompletedExchange_meta (K : Crypto) (before after : AuthState) (e : Option Err) :
    Stable MetaFrame (retransmitAfterCompletedExchange K before after e) := by
  by_cases h : before = .none ∨ after ≠ .none ∨ e ≠ none
  · rw [retransmitAfterCompletedExchange_skip K before after e h]; exact Stable.pure _
  · have hb : before ≠ .none := fun hb => h (Or.inl hb)
    have ha : after = .none := Classical.byContradiction fun ha => h (Or.inr (Or.inl ha))
    have he : e = none := Classical.byContradiction fun he => h (Or.inr (Or.inr he))
    subst ha he
    rw [retransmitAfterCompletedExchange_completed K before hb]
    exact retransmitOrReveal_meta K

/-- frame: the version is unchanged and no new time stamp appears — the stamp is what it was, or it has been
    cleared (`initAKE`, reached through a DH-Commit message, starts a fresh AKE context) -/
def NoStamp (s s' : MState) : Prop :=
  s'.conv.version = s.conv.version ∧ s'.conv.ourCurrentKey = s.conv.ourCurrentKey ∧
    (stampOf s' = stampOf s ∨ stampOf s' = none)

instance : Frame NoStamp where
  refl _ := ⟨rfl, rfl, Or.inl rfl⟩
  trans h1 h2 := ⟨h2.1.trans h1.1, h2.2.1.trans h1.2.1, by
    rcases h2.2.2 with h | h
    · rcases h1.2.2 with h' | h'
      · exact Or.inl (h.trans h')
      · exact Or.inr (h.trans h')
    · exact Or.inr h⟩

theorem Stable.nostamp {α} {x : M α} (h : Stable MetaFrame x) : Stable NoStamp x :=
  Stable.mono (fun s s' hs => by
    have h2 : metaKept s' = metaKept s := hs
    unfold metaKept at h2
    simp only [Prod.mk.injEq] at h2
    exact ⟨h2.1, h2.2.1, Or.inl h2.2.2⟩) h

theorem modAke_nostamp (f : Ake → Ake) (hf : ∀ a, (f a).lastStateChange = a.lastStateChange) :
    Stable NoStamp (modAke f) := (modAke_meta f hf).nostamp

theorem initAKE_nostamp : Stable NoStamp initAKE :=
  Stable.modc _ (fun _ => ⟨rfl, rfl, Or.inr rfl⟩)

theorem dhKeyMessage_nostamp (K : Crypto) : Stable NoStamp (dhKeyMessage K) := by
  unfold dhKeyMessage setSecretExponent
  stable [initAKE_nostamp, (randomInto_meta _).nostamp, modAke_nostamp, serializeDHKey_meta.nostamp]

theorem recvDHCommitNone_nostamp (K : Crypto) (msg : Bytes) : Stable NoStamp (recvDHCommitNone K msg) := by
  unfold recvDHCommitNone akeTry
  stable [dhKeyMessage_nostamp, (wrapMessageHeader_meta _ _).nostamp, (processDHCommit_meta _).nostamp,
    modAke_nostamp]
  all_goals (intros; rfl)

theorem recvDHCommit_nostamp (K : Crypto) (st : AuthState) (msg : Bytes) :
    Stable NoStamp (recvDHCommit K st msg) := by
  unfold recvDHCommit akeTry
  stable [recvDHCommitNone_nostamp, (wrapMessageHeader_meta _ _).nostamp, (processDHCommit_meta _).nostamp,
    serializeDHKey_meta.nostamp, (serializeDHCommit_meta _).nostamp, getAke_meta.nostamp,
    (optNat_meta _ _).nostamp, modAke_nostamp]

/-- every message type but DH-Commit: the dispatch of `processAKE` keeps version and time stamp -/
theorem akeDispatch_meta (K : Crypto) (t : Nat) (msg : Bytes) (st : AuthState) (h1 : t ≠ msgTypeDHCommit) :
    Stable MetaFrame (akeDispatch K t msg st) := by
  unfold akeDispatch
  rw [if_neg h1]
  stable [recvDHKey_meta, recvRevealSig_meta, recvSig_meta, modAke_meta, retransmitAfterCompletedExchange_meta]

/-- every message type: the dispatch of `processAKE` sets no time stamp -/
theorem akeDispatch_nostamp (K : Crypto) (t : Nat) (msg : Bytes) (st : AuthState) :
    Stable NoStamp (akeDispatch K t msg st) := by
  by_cases h1 : t = msgTypeDHCommit
  · unfold akeDispatch
    rw [if_pos h1]
    stable [recvDHCommit_nostamp, modAke_nostamp]
  · exact (akeDispatch_meta K t msg st h1).nostamp

/-! ## 3. C06: rejected and ignored AKE messages set no time stamp -/

/-- a normal return of `akeRest`, taken apart: the dispatch, then the conditional stamp on the AKE context -/
theorem akeRest_ok_inv (K : Crypto) (t : Nat) (msg : Bytes) (st : AuthState) (s s' : MState)
    (msgs : List Bytes) (err : Option Err)
    (h : runM (akeRest K t msg st) s = .ok (.ok (msgs, err), s')) :
    ∃ single extra s1 a1,
      runM (akeDispatch K t msg st) s = .ok (.ok (single, extra, err), s1) ∧ s1.conv.ake = some a1 ∧
      msgs = (match single with | some m => [m] | none => []) ++ extra ∧
      s' = { s1 with conv := { s1.conv with ake := some (stampAke st single err s1.env.now a1) } } := by
  unfold akeRest at h
  rw [runM_bind] at h
  obtain ⟨⟨single, extra, err'⟩, s1, hd, h⟩ := bindM_ok_inv h
  simp only at h
  rw [runM_bind] at h
  obtain ⟨_, s2, hs, h⟩ := bindM_ok_inv h
  simp only [runM_pure, Res.ok.injEq, Prod.mk.injEq, Except.ok.injEq] at h
  obtain ⟨⟨hm, he⟩, rfl⟩ := h
  subst he
  cases ha1 : s1.conv.ake with
  | none => rw [akeStamp_run_none _ _ _ _ ha1] at hs; cases hs
  | some a1 =>
    rw [akeStamp_run _ _ _ _ _ ha1] at hs
    simp only [Res.ok.injEq, Prod.mk.injEq] at hs
    exact ⟨single, extra, s1, a1, hd, ha1, hm.symm, hs.2.symm⟩

theorem stampOf_some {s : MState} {a : Ake} (h : s.conv.ake = some a) : stampOf s = a.lastStateChange := by
  unfold stampOf; rw [h]; rfl

/-- a rejected message is not stamped -/
theorem stampAke_rejected (st : AuthState) (single : Option Bytes) (e : Err) (t : Nat) (a : Ake) :
    stampAke st single (some e) t a = a := by
  unfold stampAke akeStampCond
  simp

/-- **C06 (repaired code), strongest form that holds for every message type.**  If `processAKE` rejects a
    message (an error is returned next to the messages to send), no time stamp is set: the AKE context still
    exists, and its `lastStateChange` is what it was — or, for a DH-Commit message only, it has been cleared (the
    answer to a DH-Commit message starts with a fresh AKE context, `initAKE`, before the message is checked).
    Either way the rejected message does not make the conversation ignore the next query message. -/
theorem processAKE_rejected_no_stamp_partial (K : Crypto) (t : Nat) (msg : Bytes) (s s' : MState) (a : Ake)
    (msgs : List Bytes) (e : Err) (ha : s.conv.ake = some a)
    (h : runM (processAKE K t msg) s = .ok (.ok (msgs, some e), s')) :
    ∃ a', s'.conv.ake = some a' ∧ s'.conv.version = s.conv.version ∧
      (a'.lastStateChange = a.lastStateChange ∨ (t = msgTypeDHCommit ∧ a'.lastStateChange = none)) := by
  rw [processAKE_run_some K t msg s a ha] at h
  obtain ⟨single, extra, s1, a1, hd, ha1, -, rfl⟩ := akeRest_ok_inv K t msg a.state s s' msgs (some e) h
  rw [stampAke_rejected]
  refine ⟨a1, rfl, ?_, ?_⟩
  · exact (akeDispatch_nostamp K t msg a.state s _ s1 hd).1
  · by_cases h1 : t = msgTypeDHCommit
    · have := (akeDispatch_nostamp K t msg a.state s _ s1 hd).2.2
      rw [stampOf_some ha1, stampOf_some ha] at this
      rcases this with h2 | h2
      · exact Or.inl h2
      · exact Or.inr ⟨h1, h2⟩
    · have h2 : metaKept s1 = metaKept s := akeDispatch_meta K t msg a.state h1 s _ s1 hd
      unfold metaKept at h2
      simp only [Prod.mk.injEq] at h2
      have h3 := h2.2.2
      rw [stampOf_some ha1, stampOf_some ha] at h3
      exact Or.inl h3

/-- **C06 (repaired code).**  A rejected message that is not a DH-Commit message leaves `lastStateChange`
    exactly as it was. -/
theorem processAKE_rejected_no_stamp (K : Crypto) (t : Nat) (msg : Bytes) (s s' : MState) (a : Ake)
    (msgs : List Bytes) (e : Err) (ha : s.conv.ake = some a) (ht : t ≠ msgTypeDHCommit)
    (h : runM (processAKE K t msg) s = .ok (.ok (msgs, some e), s')) :
    ∃ a', s'.conv.ake = some a' ∧ a'.lastStateChange = a.lastStateChange := by
  obtain ⟨a', h1, -, h2⟩ := processAKE_rejected_no_stamp_partial K t msg s s' a msgs e ha h
  rcases h2 with h2 | ⟨h2, -⟩
  · exact ⟨a', h1, h2⟩
  · exact absurd h2 ht

/-- the state of the witness: an AKE context stamped at time 5, and a random source whose next read fails -/
def stampedState : MState :=
  { conv := { version := some .v2, ake := some { lastStateChange := some 5 } }, env := { rand := [none] } }

/-- **the unrestricted form of `processAKE_rejected_no_stamp` fails for a DH-Commit message** (witness): a
    DH-Commit message is answered with a fresh AKE context (`initAKE` in `dhKeyMessage`) before anything can
    fail; here the random source fails right after, the message is rejected (`shortRandom`), and the time stamp
    5 is gone (not renewed: cleared) -/
theorem processAKE_rejected_clears_stamp :
    stampedState.conv.ake = some { lastStateChange := some 5 } ∧
    runM (processAKE Crypto.dummy msgTypeDHCommit []) stampedState =
      .ok (.ok ([], some .shortRandom),
        { conv := { version := some .v2, ake := some { lastStateChange := none } }, env := { rand := [] } }) :=
  ⟨rfl, rfl⟩

/-- a property of every value `x` returns normally -/
def Ret {α} (P : α → Prop) (x : M α) : Prop := ∀ s a s', runM x s = .ok (.ok a, s') → P a

theorem Ret.pure {α} {P : α → Prop} {a : α} (h : P a) : Ret P (pure a : M α) := by
  intro s b s' hr
  simp only [runM_pure, Res.ok.injEq, Prod.mk.injEq, Except.ok.injEq] at hr
  rw [← hr.1]; exact h

theorem Ret.throw {α} {P : α → Prop} (e : Err) : Ret P (throw e : M α) := by
  intro s b s' hr
  simp only [runM_throw, Res.ok.injEq, Prod.mk.injEq, reduceCtorEq, false_and] at hr

theorem Ret.bind {α β} {P : β → Prop} {x : M α} {f : α → M β} (hf : ∀ a, Ret P (f a)) : Ret P (x >>= f) := by
  intro s b s' hr
  rw [runM_bind] at hr
  obtain ⟨a, s1, -, h2⟩ := bindM_ok_inv hr
  exact hf a s1 b s' h2

theorem Ret.tryCatch {α} {P : α → Prop} {x : M α} {h : Err → M α} (hx : Ret P x) (hh : ∀ e, Ret P (h e)) :
    Ret P (tryCatch x h) := by
  intro s b s' hr
  rw [runM_tryCatch] at hr
  cases hx' : runM x s with
  | panic p => rw [hx'] at hr; cases hr
  | ok v =>
    obtain ⟨v, s1⟩ := v
    rw [hx'] at hr
    cases v with
    | ok a =>
      simp only [catchM_ok, Res.ok.injEq, Prod.mk.injEq, Except.ok.injEq] at hr
      rw [← hr.1]; exact hx s a s1 hx'
    | error e =>
      simp only [catchM_error] at hr
      exact hh e s1 b s' hr

/-- `recvDHCommit` never ignores a message: it answers or reports an error -/
theorem recvDHCommit_answers (K : Crypto) (st : AuthState) (msg : Bytes) :
    Ret (fun u : AuthState × Option Bytes × Option Err => u.2.1 ≠ none ∨ u.2.2 ≠ none) (recvDHCommit K st msg) := by
  unfold recvDHCommit recvDHCommitNone akeTry
  repeat' (first
    | with_reducible apply Ret.bind
    | with_reducible apply Ret.tryCatch
    | with_reducible exact Ret.throw _
    | (with_reducible refine Ret.pure ?_; simp; done)
    | with_reducible intro _
    | split
    | dsimp only)

/-- **C06 (repaired code).**  A message that `processAKE` ignores — nothing to send, no error, and the
    authentication state is of the same kind afterwards — leaves `lastStateChange` exactly as it was. -/
theorem processAKE_ignored_no_stamp (K : Crypto) (t : Nat) (msg : Bytes) (s s' : MState) (a a' : Ake)
    (ha : s.conv.ake = some a)
    (h : runM (processAKE K t msg) s = .ok (.ok ([], none), s'))
    (ha' : s'.conv.ake = some a') (hk : a'.state.toNat = a.state.toNat) :
    a'.lastStateChange = a.lastStateChange ∧ s'.conv.version = s.conv.version := by
  rw [processAKE_run_some K t msg s a ha] at h
  obtain ⟨single, extra, s1, a1, hd, ha1, hm, rfl⟩ := akeRest_ok_inv K t msg a.state s s' [] none h
  have hsingle : single = none := by
    cases single with
    | none => rfl
    | some m => simp at hm
  subst hsingle
  simp only [Option.some.injEq] at ha'
  subst ha'
  rw [stampAke_state] at hk
  have hno : stampAke a.state none none s1.env.now a1 = a1 := by
    unfold stampAke akeStampCond
    simp [hk]
  rw [hno]
  refine ⟨?_, (akeDispatch_nostamp K t msg a.state s _ s1 hd).1⟩
  by_cases h1 : t = msgTypeDHCommit
  · -- a DH-Commit message is never ignored
    exfalso
    subst h1
    unfold akeDispatch at hd
    rw [if_pos rfl, runM_bind] at hd
    obtain ⟨⟨st', m, e⟩, s2, hr, hd⟩ := bindM_ok_inv hd
    simp only [modAke, runM_bind, runM_modc, bindM_ok, runM_pure, Res.ok.injEq, Prod.mk.injEq,
      Except.ok.injEq] at hd
    obtain ⟨⟨rfl, -, rfl⟩, -⟩ := hd
    rcases recvDHCommit_answers K a.state msg s _ s2 hr with h2 | h2 <;> exact h2 rfl
  · have h2 : metaKept s1 = metaKept s := akeDispatch_meta K t msg a.state h1 s _ s1 hd
    unfold metaKept at h2
    simp only [Prod.mk.injEq] at h2
    have h3 := h2.2.2
    rw [stampOf_some ha1, stampOf_some ha] at h3
    exact h3

/-- the hypotheses of §3 are satisfiable: an unknown message type is rejected (`processAKE_rejected_no_stamp`),
    a Signature message when no exchange is under way is ignored (`processAKE_ignored_no_stamp`) -/
example : runM (processAKE Crypto.dummy 99 []) stampedState =
    .ok (.ok ([], some (.other "unknown message type")), stampedState) := rfl

example : runM (processAKE Crypto.dummy msgTypeSig []) stampedState = .ok (.ok ([], none), stampedState) := rfl

/-! ## 4. C06/C15: what is rejected or discarded binds neither the version nor the peer instance -/

/-- frame: the protocol version and the long-term key selected for it are unchanged -/
abbrev VerFrame : MState → MState → Prop := Keeps (fun s => (s.conv.version, s.conv.ourCurrentKey))

/-- frame: a version the conversation is committed to stays, and so does the long-term key selected for it (an
    uncommitted conversation may commit and select) -/
def VSet (s s' : MState) : Prop :=
  s.conv.version ≠ none → s'.conv.version = s.conv.version ∧ s'.conv.ourCurrentKey = s.conv.ourCurrentKey

instance : Frame VSet where
  refl _ := fun _ => ⟨rfl, rfl⟩
  trans h1 h2 := fun hv =>
    have h2' := h2 (by rw [(h1 hv).1]; exact hv)
    ⟨h2'.1.trans (h1 hv).1, h2'.2.trans (h1 hv).2⟩

theorem Stable.vset {α} {x : M α} (h : Stable VerFrame x) : Stable VSet x :=
  Stable.mono (fun s s' (hs : VerFrame s s') => (fun _ => Prod.mk.inj hs : VSet s s')) h

theorem Stable.meta_ver {α} {x : M α} (h : Stable MetaFrame x) : Stable VerFrame x :=
  Stable.mono (fun s s' hs => by
    have h2 : metaKept s' = metaKept s := hs
    unfold metaKept at h2
    simp only [Prod.mk.injEq] at h2
    show (s'.conv.version, s'.conv.ourCurrentKey) = (s.conv.version, s.conv.ourCurrentKey)
    rw [h2.1, h2.2.1]) h

theorem Stable.nostamp_ver {α} {x : M α} (h : Stable NoStamp x) : Stable VerFrame x :=
  Stable.mono (fun s s' hs => by
    show (s'.conv.version, s'.conv.ourCurrentKey) = (s.conv.version, s.conv.ourCurrentKey)
    rw [hs.1, hs.2.1]) h

theorem Stable.send_ver {α} {x : M α} (h : Stable SendFrame x) : Stable VerFrame x :=
  h.send_meta.meta_ver

/-! ### the AKE path keeps the version -/

theorem akeStamp_ver (st : AuthState) (single : Option Bytes) (err : Option Err) :
    Stable VerFrame (akeStamp st single err) := by
  unfold akeStamp modAke
  stable [getAke_meta.meta_ver]

theorem akeRest_ver (K : Crypto) (t : Nat) (msg : Bytes) (st : AuthState) :
    Stable VerFrame (akeRest K t msg st) := by
  unfold akeRest
  stable [(akeDispatch_nostamp K t msg st).nostamp_ver, akeStamp_ver]

theorem processAKE_ver (K : Crypto) (t : Nat) (msg : Bytes) : Stable VerFrame (processAKE K t msg) := by
  intro s r s' h
  cases ha : s.conv.ake with
  | none =>
    rw [processAKE_run_none K t msg s ha] at h
    have h0 := akeRest_ver K t msg .none _ r s' h
    exact h0
  | some a =>
    rw [processAKE_run_some K t msg s a ha] at h
    exact akeRest_ver K t msg a.state s r s' h

/-! ### the data-message path keeps the version -/

theorem randRead_ver (n : Nat) : Stable VerFrame (randRead n) := (randRead_meta n).meta_ver

theorem wrapMessageHeader_ver (t : Nat) (m : Bytes) : Stable VerFrame (wrapMessageHeader t m) :=
  (wrapMessageHeader_meta t m).meta_ver

theorem processSMPTLV_ver (K : Crypto) (t : Tlv) : Stable VerFrame (processSMPTLV K t) := by
  intro s r s' hr
  have h := ConvData.processSMPTLV_frame K t s
  unfold ConvData.wp at h
  rw [show ConvData.run' (processSMPTLV K t) s = runM (processSMPTLV K t) s from rfl, hr] at h
  unfold ConvData.SmpFrame at h
  show (s'.conv.version, s'.conv.ourCurrentKey) = (s.conv.version, s.conv.ourCurrentKey)
  rw [h]

theorem processDisconnectedTLV_ver : Stable VerFrame processDisconnectedTLV := by
  unfold processDisconnectedTLV secEvent
  stable []

theorem processExtraSymmetricKeyTLV_ver (t : Tlv) (x : Bytes) :
    Stable VerFrame (processExtraSymmetricKeyTLV t x) := by
  unfold processExtraSymmetricKeyTLV
  stable []

theorem processTLVs_ver (K : Crypto) (tlvs : List Tlv) (x : Bytes) : Stable VerFrame (processTLVs K tlvs x) := by
  unfold processTLVs
  stable [processDisconnectedTLV_ver, processExtraSymmetricKeyTLV_ver, processSMPTLV_ver]

theorem processDataMessageTail_ver (K : Crypto) (dm : DataMsg) (tlvs : List Tlv) (x : Bytes) :
    Stable VerFrame (processDataMessageTail K dm tlvs x) := by
  unfold processDataMessageTail
  stable [randRead_ver, processTLVs_ver, (genDataMsgWithFlag_sendFrame K _ _ _).send_ver, wrapMessageHeader_ver]

theorem processDataMessageRaw_ver (K : Crypto) (header msg : Bytes) :
    Stable VerFrame (processDataMessageRaw K header msg) := by
  unfold processDataMessageRaw msgEvent
  stable [processDataMessageTail_ver]

theorem potentialHeartbeat_ver (K : Crypto) (plain : Option Bytes) : Stable VerFrame (potentialHeartbeat K plain) := by
  unfold potentialHeartbeat updateLastSent msgEvent
  stable [(genDataMsgWithFlag_sendFrame K _ _ _).send_ver, wrapMessageHeader_ver]

theorem notifyDataMessageError_ver (e : Err) : Stable VerFrame (notifyDataMessageError e) := by
  unfold notifyDataMessageError generatePotentialErrorMessage msgEvent
  stable []

theorem receiveDataMessage_ver (K : Crypto) (header body : Bytes) :
    Stable VerFrame (receiveDataMessage K header body) := by
  unfold receiveDataMessage
  stable [processDataMessageRaw_ver, potentialHeartbeat_ver, notifyDataMessageError_ver]

/-! ### headers: committing to a version, adopting instance tags -/

theorem commitToVersionFrom_vset (vs : Nat) : Stable VSet (commitToVersionFrom vs) := by
  intro s r s' h hv
  rw [commitToVersionFrom_run] at h
  cases hc : s.conv.version with
  | none => exact absurd hc hv
  | some v =>
    rw [hc] at h
    simp only [Res.ok.injEq, Prod.mk.injEq] at h
    rw [← h.2]
    exact ⟨hc.symm ▸ rfl, rfl⟩

theorem malformedMessage_ver : Stable VerFrame malformedMessage := by
  unfold malformedMessage generatePotentialErrorMessage msgEvent
  stable []

theorem verifyInstanceTags_ver (their our : Nat) : Stable VerFrame (verifyInstanceTags their our) := by
  unfold verifyInstanceTags msgEvent
  stable [malformedMessage_ver]

theorem checkVersion_vset (msg : Bytes) : Stable VSet (checkVersion msg) := by
  unfold checkVersion
  stable [commitToVersionFrom_vset]

theorem parseMessageHeader_ver (msg : Bytes) : Stable VerFrame (parseMessageHeader msg) := by
  unfold parseMessageHeader
  stable [malformedMessage_ver, verifyInstanceTags_ver]

theorem parseFragmentPrefix_vset (data : Bytes) : Stable VSet (parseFragmentPrefix data) := by
  unfold parseFragmentPrefix
  stable [commitToVersionFrom_vset, (verifyInstanceTags_ver _ _).vset]

theorem ev_vset (e : String) : Stable VSet (ev e) :=
  (Stable.ev e (fun _ => rfl) : Stable VerFrame (ev e)).vset

/-- the body of `receiveDecoded` never changes a version the conversation is committed to -/
theorem receiveDecodedCore_vset (K : Crypto) (msg : Bytes) : Stable VSet (receiveDecodedCore K msg) := by
  unfold receiveDecodedCore msgEventErr
  stable [checkVersion_vset, (parseMessageHeader_ver _).vset, (receiveDataMessage_ver K _ _).vset,
    (processAKE_ver K _ _).vset, ev_vset]

/-- what the repaired code does to the state `s1` reached while looking at something that is then rejected,
    ignored or discarded, `s` being the state before: the version — and the long-term key selected for it — is
    taken back if the conversation had none, the peer instance tag is put back -/
def unbindState (s s1 : MState) : MState :=
  { s1 with conv := { s1.conv with
      version := if s.conv.version.isNone then none else s1.conv.version,
      ourCurrentKey := if s.conv.version.isNone then s.conv.ourCurrentKey else s1.conv.ourCurrentKey,
      theirTag := s.conv.theirTag } }

/-- after the "unbind", version, long-term key choice and peer instance tag are those before the message -/
theorem unbindState_unbinds (s s1 : MState) (hv : VSet s s1) :
    (unbindState s s1).conv.version = s.conv.version ∧
    (unbindState s s1).conv.ourCurrentKey = s.conv.ourCurrentKey ∧
    (unbindState s s1).conv.theirTag = s.conv.theirTag := by
  unfold unbindState
  cases hc : s.conv.version with
  | none => exact ⟨rfl, rfl, rfl⟩
  | some v =>
    have h := hv (by rw [hc]; simp)
    rw [hc] at h
    exact ⟨h.1, h.2, rfl⟩

/-- `receiveDecoded` in terms of its body (repaired code): when the body reports the message as rejected — an
    error, a data message outside a private conversation, or an ignored key exchange message — the conversation
    is unbound (`unbindState`) -/
theorem receiveDecoded_of_core (K : Crypto) (msg : Bytes) (s s1 : MState) (p : Option Bytes) (ts : List Bytes)
    (err : Option Err) (rej : Bool)
    (h : runM (receiveDecodedCore K msg) s = .ok (.ok (p, ts, err, rej), s1)) :
    runM (receiveDecoded K msg) s =
      .ok (.ok (p, ts, err), if (err.isSome || rej) = true then unbindState s s1 else s1) := by
  unfold receiveDecoded
  rw [runM_bind, runM_getc, bindM_ok, runM_bind, h, bindM_ok]
  simp only []
  split
  · rw [runM_bind, runM_modc, bindM_ok, runM_pure]; rfl
  · rw [runM_pure]

/-- **C06 (repaired code).**  A message that `receiveDecoded` rejects (an error is returned) leaves the protocol
    version, the long-term key selected for it and the peer instance tag of the conversation exactly as they
    were: it neither commits an uncommitted conversation to its version nor binds the conversation to the
    instance it names. -/
theorem receiveDecoded_rejected_unbinds (K : Crypto) (msg : Bytes) (s s' : MState) (p : Option Bytes)
    (ts : List Bytes) (e : Err)
    (h : runM (receiveDecoded K msg) s = .ok (.ok (p, ts, some e), s')) :
    s'.conv.version = s.conv.version ∧ s'.conv.ourCurrentKey = s.conv.ourCurrentKey ∧
    s'.conv.theirTag = s.conv.theirTag := by
  have h0 := h
  unfold receiveDecoded at h0
  rw [runM_bind, runM_getc, bindM_ok, runM_bind] at h0
  obtain ⟨⟨p1, ts1, err1, rej⟩, s1, hcore, h0⟩ := bindM_ok_inv h0
  clear h0
  have hv := receiveDecodedCore_vset K msg s _ s1 hcore
  rw [receiveDecoded_of_core K msg s s1 p1 ts1 err1 rej hcore] at h
  simp only [Res.ok.injEq, Prod.mk.injEq, Except.ok.injEq] at h
  obtain ⟨⟨-, -, rfl⟩, rfl⟩ := h
  rw [if_pos (by simp)]
  exact unbindState_unbinds s s1 hv

/-- the same whenever the body of `receiveDecoded` reports the message as rejected without an error: a data
    message outside a private conversation whose error is suppressed by its IGNORE_UNREADABLE flag, or an ignored
    key exchange message -/
theorem receiveDecoded_unbinds_of_core (K : Crypto) (msg : Bytes) (s s1 s' : MState) (p : Option Bytes)
    (ts : List Bytes) (err : Option Err) (r : Except Err (Option Bytes × List Bytes × Option Err))
    (hcore : runM (receiveDecodedCore K msg) s = .ok (.ok (p, ts, err, true), s1))
    (h : runM (receiveDecoded K msg) s = .ok (r, s')) :
    r = .ok (p, ts, err) ∧ s'.conv.version = s.conv.version ∧ s'.conv.ourCurrentKey = s.conv.ourCurrentKey ∧
    s'.conv.theirTag = s.conv.theirTag := by
  have hv := receiveDecodedCore_vset K msg s _ s1 hcore
  rw [receiveDecoded_of_core K msg s s1 p ts err true hcore] at h
  simp only [Res.ok.injEq, Prod.mk.injEq] at h
  obtain ⟨rfl, rfl⟩ := h
  rw [if_pos (by simp)]
  exact ⟨rfl, unbindState_unbinds s s1 hv⟩

/-- the kind of the authentication state, as `receiveDecoded` compares it before and after a key exchange
    message (no AKE context counts as `none`) -/
def authKind (c : Conv) : Nat := match c.ake with | some a => a.state.toNat | none => 0

/-- **C06 (repaired code): an ignored key exchange message.**  A message that passes the version check and the
    header (states `s1`, `s2`), is not a data message, and that `processAKE` ignores — nothing to send, no error,
    the authentication state of the same kind afterwards — is accepted without effect on the binding of the
    conversation: `receiveDecoded` returns nothing, and version, long-term key choice and peer instance tag are
    what they were before the call (the message neither commits an uncommitted conversation to its version nor
    binds it to its sender). -/
theorem receiveDecoded_ignored_unbinds (K : Crypto) (msg header body : Bytes) (s s1 s2 s3 s' : MState)
    (r : Except Err (Option Bytes × List Bytes × Option Err))
    (hcv : runM (checkVersion msg) s = .ok (.ok (), s1))
    (hph : runM (parseMessageHeader msg) s1 = .ok (.ok (header, body), s2))
    (ht : (header.getD 2 0).toNat ≠ msgTypeData)
    (hake : runM (processAKE K (header.getD 2 0).toNat body) s2 = .ok (.ok ([], none), s3))
    (hkind : authKind s3.conv = authKind s2.conv)
    (h : runM (receiveDecoded K msg) s = .ok (r, s')) :
    r = .ok (none, [], none) ∧ s' = unbindState s s3 ∧
    s'.conv.version = s.conv.version ∧ s'.conv.ourCurrentKey = s.conv.ourCurrentKey ∧
    s'.conv.theirTag = s.conv.theirTag := by
  have hcore : runM (receiveDecodedCore K msg) s = .ok (.ok (none, [], none, true), s3) := by
    unfold receiveDecodedCore
    simp only [runM_bind, runM_getc, bindM_ok, runM_tryCatch, hcv, runM_pure, catchM_ok, hph, if_neg ht, hake,
      Option.isSome_none, Bool.false_eq_true, ↓reduceIte, Option.isNone_none, List.isEmpty_nil, Bool.true_and]
    unfold authKind at hkind
    cases h3 : s3.conv.ake <;> cases h2 : s2.conv.ake <;> rw [h3, h2] at hkind <;>
      simp only [] at hkind ⊢ <;> simp [hkind]
  have hv := receiveDecodedCore_vset K msg s _ s3 hcore
  rw [receiveDecoded_of_core K msg s s3 none [] none true hcore] at h
  simp only [Res.ok.injEq, Prod.mk.injEq] at h
  obtain ⟨rfl, rfl⟩ := h
  rw [if_pos (by simp)]
  exact ⟨rfl, rfl, unbindState_unbinds s s3 hv⟩

/-! ### fragments -/

/-- `x` never throws -/
def NoThrow {α} (x : M α) : Prop := ∀ s e s', runM x s ≠ .ok (.error e, s')

theorem NoThrow.pure {α} (a : α) : NoThrow (pure a : M α) := by
  intro s e s' h
  simp only [runM_pure, Res.ok.injEq, Prod.mk.injEq, reduceCtorEq, false_and] at h

theorem NoThrow.goPanic {α} (site : String) : NoThrow (goPanic site : M α) := by
  intro s e s' h
  simp only [runM_goPanic, reduceCtorEq] at h

theorem NoThrow.getc : NoThrow getc := by
  intro s e s' h
  simp only [runM_getc, Res.ok.injEq, Prod.mk.injEq, reduceCtorEq, false_and] at h

theorem NoThrow.bind {α β} {x : M α} {f : α → M β} (hx : NoThrow x) (hf : ∀ a, NoThrow (f a)) :
    NoThrow (x >>= f) := by
  intro s e s' h
  rw [runM_bind] at h
  rcases bindM_error_inv h with h1 | ⟨a, s1, -, h2⟩
  · exact hx s e s' h1
  · exact hf a s1 e s' h2

theorem NoThrow.tryCatch {α} {x : M α} {h : Err → M α} (hh : ∀ e, NoThrow (h e)) : NoThrow (tryCatch x h) := by
  intro s e s' hr
  rw [runM_tryCatch] at hr
  cases hx : runM x s with
  | panic p => rw [hx] at hr; cases hr
  | ok v =>
    obtain ⟨v, s1⟩ := v
    rw [hx] at hr
    cases v with
    | ok a => simp only [catchM_ok, Res.ok.injEq, Prod.mk.injEq, reduceCtorEq, false_and] at hr
    | error e1 =>
      simp only [catchM_error] at hr
      exact hh e1 s1 e s' hr

/-- looking at the prefix of a fragment never throws (every failure is reported in the result) -/
theorem parseFragmentPrefix_noThrow (data : Bytes) : NoThrow (parseFragmentPrefix data) := by
  unfold parseFragmentPrefix
  repeat' (first
    | with_reducible apply NoThrow.bind
    | with_reducible apply NoThrow.tryCatch
    | with_reducible exact NoThrow.pure _
    | with_reducible exact NoThrow.goPanic _
    | with_reducible exact NoThrow.getc
    | with_reducible intro _
    | split
    | dsimp only)


/-- piece `ix` of `l` is out of sequence for the context `before`: neither a first piece nor the piece that
    follows the ones collected (same total).  For a legal numbering this is exactly the case in which
    `fragAccept` forgets the context (`fragAccept_outOfSequence`) -/
def fragOutOfSequence (before : FragCtx) (ix l : Nat) : Prop :=
  ix ≠ 1 ∧ ¬ ((before.index + 1) % 65536 = ix ∧ before.len = l)

instance (before : FragCtx) (ix l : Nat) : Decidable (fragOutOfSequence before ix l) :=
  inferInstanceAs (Decidable (ix ≠ 1 ∧ ¬ ((before.index + 1) % 65536 = ix ∧ before.len = l)))

theorem fragAccept_outOfSequence (before : FragCtx) (d : Bytes) (ix l : Nat)
    (hv : ¬ (ix = 0 ∨ l = 0 ∨ ix > l)) (ho : fragOutOfSequence before ix l) :
    fragAccept before d ix l = FragCtx.empty := by
  unfold fragAccept
  rw [if_neg hv, if_neg ho.1, if_neg ho.2]

/-- `receiveFragment` (repaired code) in terms of the prefix parser: a fragment for another instance is ignored
    (with the event), a fragment that does not parse is rejected, one whose numbering is illegal (`k = 0`,
    `n = 0` or `k > n`) or that is out of sequence (neither a first piece nor the next piece of the stream being
    collected) is discarded — and in all four cases the conversation is unbound (`unbindState`) -/
theorem receiveFragment_run_of_prefix (before : FragCtx) (data : Bytes) (s s1 : MState) (body : Bytes)
    (ignore ok1 : Bool)
    (hp : runM (parseFragmentPrefix data) s = .ok (.ok (body, ignore, ok1), s1)) :
    runM (receiveFragment before data) s =
      if ignore = true then
        .ok (.ok before, { unbindState s s1 with events := (unbindState s s1).events ++ ["msg:15"] })
      else match ok1, parseFragment body with
        | true, some (d, ix, l) =>
          .ok (.ok (fragAccept before d ix l),
            if (ix = 0 ∨ l = 0 ∨ ix > l) ∨ fragOutOfSequence before ix l then unbindState s s1 else s1)
        | _, _ => .ok (.error (.other "invalid OTR fragment"), unbindState s s1) := by
  unfold receiveFragment
  rw [runM_bind, runM_getc, bindM_ok, runM_bind]
  simp only [hp, bindM_ok]
  cases ignore with
  | true => simp only [↓reduceIte, runM_bind, runM_modc, runM_msgEvent, bindM_ok, runM_pure]; rfl
  | false =>
    simp only [Bool.false_eq_true, ↓reduceIte]
    cases ok1 with
    | false => simp only [runM_bind, runM_modc, bindM_ok, runM_throw]; rfl
    | true =>
      cases parseFragment body with
      | none => simp only [runM_bind, runM_modc, bindM_ok, runM_throw]; rfl
      | some x =>
        obtain ⟨d, ix, l⟩ := x
        simp only [runM_bind, runM_ite, runM_modc, runM_pure]
        by_cases hbad : (ix = 0 ∨ l = 0 ∨ ix > l) ∨ fragOutOfSequence before ix l
        · have hbad' : (ix = 0 ∨ l = 0 ∨ ix > l) ∨
              (ix ≠ 1 ∧ ¬ ((before.index + 1) % 65536 = ix ∧ before.len = l)) := hbad
          rw [if_pos hbad, if_pos hbad']; rfl
        · have hbad' : ¬ ((ix = 0 ∨ l = 0 ∨ ix > l) ∨
              (ix ≠ 1 ∧ ¬ ((before.index + 1) % 65536 = ix ∧ before.len = l))) := hbad
          rw [if_neg hbad, if_neg hbad']

/-- nothing of the fragment is kept: its prefix or body does not parse, its numbering is illegal, or it is out of
    sequence for the context `before` — everything but a first piece or the next piece of the stream being
    collected -/
def fragmentDiscarded (before : FragCtx) (ok1 : Bool) (parsed : Option (Bytes × Nat × Nat)) : Prop :=
  match ok1, parsed with
  | true, some (_, ix, l) => (ix = 0 ∨ l = 0 ∨ ix > l) ∨ fragOutOfSequence before ix l
  | _, _ => True

/-- **C15 (repaired code).**  A fragment that is for another instance (ignored), that does not parse (rejected),
    whose numbering is illegal or that is out of sequence (discarded) leaves the conversation unbound: whatever
    looking at its prefix did (state `s1`: a version committed, a long-term key selected, the sender's instance tag
    adopted), the conversation afterwards is `s1` with version, long-term key choice and peer instance tag as
    before the call.  Only a first piece or the next piece of the stream being collected binds -/
theorem receiveFragment_discarded_unbinds (before : FragCtx) (data : Bytes) (s s1 s' : MState) (body : Bytes)
    (ignore ok1 : Bool) (r : Except Err FragCtx)
    (hp : runM (parseFragmentPrefix data) s = .ok (.ok (body, ignore, ok1), s1))
    (hd : ignore = true ∨ fragmentDiscarded before ok1 (parseFragment body))
    (h : runM (receiveFragment before data) s = .ok (r, s')) :
    s'.conv = (unbindState s s1).conv ∧
    s'.conv.version = s.conv.version ∧ s'.conv.ourCurrentKey = s.conv.ourCurrentKey ∧
    s'.conv.theirTag = s.conv.theirTag := by
  have hv := parseFragmentPrefix_vset data s _ s1 hp
  have hu := unbindState_unbinds s s1 hv
  suffices hc : s'.conv = (unbindState s s1).conv by rw [hc]; exact ⟨rfl, hu⟩
  rw [receiveFragment_run_of_prefix before data s s1 body ignore ok1 hp] at h
  cases ignore with
  | true =>
    simp only [↓reduceIte, Res.ok.injEq, Prod.mk.injEq] at h
    rw [← h.2]
  | false =>
    rcases hd with hd | hd
    · cases hd
    · simp only [Bool.false_eq_true, ↓reduceIte] at h
      cases ok1 with
      | false =>
        simp only [Res.ok.injEq, Prod.mk.injEq] at h
        rw [← h.2]
      | true =>
        cases hpf : parseFragment body with
        | none =>
          rw [hpf] at h
          simp only [Res.ok.injEq, Prod.mk.injEq] at h
          rw [← h.2]
        | some x =>
          obtain ⟨d, ix, l⟩ := x
          rw [hpf] at h hd
          have hbad : (ix = 0 ∨ l = 0 ∨ ix > l) ∨ fragOutOfSequence before ix l := hd
          simp only [if_pos hbad, Res.ok.injEq, Prod.mk.injEq] at h
          rw [← h.2]

/-- **C15 (repaired code).**  A fragment that `receiveFragment` rejects (it throws) leaves protocol version,
    long-term key choice and peer instance tag exactly as they were -/
theorem receiveFragment_rejected_unbinds (before : FragCtx) (data : Bytes) (s s' : MState) (e : Err)
    (h : runM (receiveFragment before data) s = .ok (.error e, s')) :
    s'.conv.version = s.conv.version ∧ s'.conv.ourCurrentKey = s.conv.ourCurrentKey ∧
    s'.conv.theirTag = s.conv.theirTag := by
  have h0 := h
  unfold receiveFragment at h0
  rw [runM_bind, runM_getc, bindM_ok, runM_bind] at h0
  cases hp : runM (parseFragmentPrefix data) s with
  | panic site => rw [hp] at h0; cases h0
  | ok v =>
    obtain ⟨v, s1⟩ := v
    cases v with
    | error e1 => exact absurd hp (parseFragmentPrefix_noThrow data s e1 s1)
    | ok x =>
      obtain ⟨body, ignore, ok1⟩ := x
      clear h0
      have hrun := receiveFragment_run_of_prefix before data s s1 body ignore ok1 hp
      have hd : ignore = true ∨ fragmentDiscarded before ok1 (parseFragment body) := by
        cases ignore with
        | true => exact Or.inl rfl
        | false =>
          right
          rw [h] at hrun
          simp only [Bool.false_eq_true, ↓reduceIte] at hrun
          unfold fragmentDiscarded
          cases ok1 with
          | false => trivial
          | true =>
            cases hpf : parseFragment body with
            | none => trivial
            | some x =>
              obtain ⟨d, ix, l⟩ := x
              rw [hpf] at hrun
              simp only [Res.ok.injEq, Prod.mk.injEq, reduceCtorEq, false_and] at hrun
      exact (receiveFragment_discarded_unbinds before data s s1 s' body ignore ok1 _ hp hd h).2

/-- … and so does the whole `receiveUnit` on such a fragment (with `receiveUnit_invalid_fragment`) -/
theorem receiveUnit_rejected_fragment_unbinds (K : Crypto) (fuel : Nat) (msg : Bytes) (fg : Bool)
    (s s1 s' : MState) (e : Err) (r : Except Err RecvResult)
    (hp : isOTREnabled s.conv.policies = true) (hg : guessMessageType msg = .fragment)
    (hf : runM (receiveFragment s.conv.fragCtx msg) s = .ok (.error e, s1))
    (hnf : s1.conv.fragCtx.finished = false)
    (hr : runM (receiveUnit K (fuel + 1) msg fg) s = .ok (r, s')) :
    s'.conv.version = s.conv.version ∧ s'.conv.ourCurrentKey = s.conv.ourCurrentKey ∧
    s'.conv.theirTag = s.conv.theirTag := by
  obtain ⟨h1, h2, -⟩ := receiveFragment_rejected_unbinds s.conv.fragCtx msg s s1 e hf
  rw [receiveUnit_invalid_fragment K fuel msg fg s s1 e hp hg hf hnf] at hr
  simp only [Res.ok.injEq, Prod.mk.injEq] at hr
  rw [← hr.2]
  exact ⟨h1, h2, rfl⟩

/-- the hypotheses are satisfiable: "?OTR,x" received by a fresh conversation that allows v2 and has a long-term
    key is a rejected fragment; looking at it commits to v2 and selects the key — and both are taken back -/
example : ∃ s1, runM (receiveFragment FragCtx.empty (strBytes "?OTR,x"))
      ⟨{ policies := 6, ourKeys := [⟨1, 1, 1, 1⟩] }, {}, [], []⟩ =
    .ok (.error (.other "invalid OTR fragment"), s1) ∧ s1.conv.version = none ∧ s1.conv.ourCurrentKey = none :=
  ⟨_, rfl, rfl, rfl⟩

/-- the hypotheses of the `receiveDecoded` theorems are satisfiable.  A fresh conversation that allows v2 and v3
    and has a long-term key: (i) the empty message is rejected (`receiveDecoded_rejected_unbinds`); (ii) a v2
    Signature message — no exchange is under way — is ignored (`receiveDecoded_ignored_unbinds`): looking at it
    commits to v2 and selects the key, both are taken back; only the (idle) AKE context it created stays -/
def freshState : MState := ⟨{ policies := 6, ourKeys := [⟨1, 1, 1, 1⟩] }, {}, [], []⟩

example : runM (receiveDecoded Crypto.dummy []) freshState =
    .ok (.ok (none, [], some .invalidMessage), freshState) := rfl

set_option maxRecDepth 4000 in
example :
    runM (checkVersion [0, 2, 18]) freshState =
      .ok (.ok (), ⟨{ freshState.conv with version := some .v2, ourCurrentKey := some ⟨1, 1, 1, 1⟩ }, {}, [], []⟩) ∧
    runM (receiveDecoded Crypto.dummy [0, 2, 18]) freshState =
      .ok (.ok (none, [], none), ⟨{ freshState.conv with ake := some {} }, {}, [], []⟩) :=
  ⟨rfl, rfl⟩

end Otr
