/-
  Proofs.Api — the API entry points of the conversation model as data (`ApiCall`), one step of a session
  (`ApiStep`: a call with its per-call environment) and the sequence runner `runApi`.
  Definitions only (moved unchanged out of Proofs.NoPanic, which imports this file), so that files which cannot
  import Proofs.NoPanicBase (its `Otr.Inv` and the `Otr.Inv` of Proofs.Ratchet exclude each other) can still
  speak about whole API calls: Proofs.Events, Props.C18.
-/
import Proofs.ConvLife
namespace Otr

/-- the API entry points the driver calls (Otr/DriverConv.lean): `recv`, `send`, `end`, `smpstart`, `smpsecret`,
    `smpabort`, `extrakey`, the harness hook `sendtlvs` (= `createSerializedDataMessage`), and `setfrag` -/
inductive ApiCall where
  | receive (msg : Bytes)
  | send (msg : Bytes)
  | endSession
  | smpStart (question secret : Bytes)
  | smpSecret (secret : Bytes)
  | smpAbort
  | extraKey (usage : Nat) (usageData : Bytes)
  | sendTlvs (text : Bytes) (flag : Nat) (tlvs : List Tlv)
  | setFragmentSize (n : Nat)

/-- the model computation of a call (results are dropped: only the state and a possible panic matter) -/
def ApiCall.run (K : Crypto) : ApiCall → M Unit
  | .receive m => do let _ ← Otr.receive K m
  | .send m => do let _ ← Otr.send K m
  | .endSession => do let _ ← Otr.endSession K
  | .smpStart q sec => do let _ ← startAuthenticate K q sec
  | .smpSecret sec => do let _ ← provideAuthenticationSecret K sec
  | .smpAbort => do let _ ← abortAuthentication K
  | .extraKey u d => do let _ ← useExtraSymmetricKey K u d
  | .sendTlvs text flag tlvs => do let _ ← createSerializedDataMessage K text flag tlvs
  | .setFragmentSize n => modc fun c => { c with fragmentSize := n }

/-- one step of a session: an API call with arbitrary arguments and the per-call environment: the randomness
    tape (reads may fail or be short), the signing-oracle tape (signing may fail), the clock -/
structure ApiStep where
  call : ApiCall
  env : Env

/-- run a sequence of calls from a conversation: the final conversation, or the first panic.
    A thrown error keeps the state the call left, and the sequence goes on (as in the driver). -/
def runApi (K : Crypto) : Conv → List ApiStep → Res Conv
  | c, [] => .ok c
  | c, st :: rest =>
    match runM (st.call.run K) { conv := c, env := st.env } with
    | .panic site => .panic site
    | .ok (_, s') => runApi K s'.conv rest

end Otr
