/-
  Proofs.ResendApi — the retransmission bookkeeping over whole API calls and whole API histories
  (continuation of Proofs.ResendInv): `apiCall_resend`, `runApi_resend`, `api_resend_bounded`,
  `apiCall_resend_shrinks`, `runApi_resend_empty_stays`, `api_retransmit_once`.
-/
import Proofs.ResendInv
set_option linter.unusedSimpArgs false
set_option linter.unusedVariables false
namespace Otr

/-! ## 1. `Send`-like calls: the invariant is preserved (the retained text may be replaced) -/

def RP (Q : List Bytes) (s s' : MState) : Prop := RInv Q s.conv → RInv Q s'.conv

instance (Q : List Bytes) : Frame (RP Q) where
  refl _ := id
  trans h1 h2 := fun h => h2 (h1 h)

theorem Stable.rf_rp {Q : List Bytes} {α} {x : M α} (h : Stable (RF Q) x) : Stable (RP Q) x :=
  Stable.weaken (fun _ _ h hi => (h hi).1) h

instance (Q : List Bytes) : OfBook (RP Q) := ⟨fun h hi => ((OfBook.ofBook (R := RF Q) h) hi).1⟩

theorem Stable.book2_rp {Q : List Bytes} {α} {x : M α} (h : Stable Book2 x) : Stable (RP Q) x :=
  h.book2_rf.rf_rp

open ConvData in
theorem genDataMsgWithFlag_rp (Q : List Bytes) (K : Crypto) (m : Bytes) (f : Nat) (tlvs : List Tlv) :
    Stable (RP Q) (genDataMsgWithFlag K m f tlvs) := by
  intro s r s' hr
  obtain ⟨h1, h2, h3⟩ := wp_post _ _ _ _ _ _ (genDataMsgWithFlag_eff K m f tlvs s) hr
  cases r with
  | error e => exact fun hi => (RF.of_kept (Q := Q) h3.1 h1 h3.2 (Or.inl h2) hi).1
  | ok a =>
    obtain ⟨he, hm, hl⟩ := h3
    intro hi
    refine ⟨by rw [h1]; exact hi.idle, ?_, (fun hx => by rw [hm] at hx; cases hx), ?_⟩
    · rw [hl]; split
      · exact Or.inl (Nat.le_refl _)
      · exact hi.bounded
    · intro hp; rw [h2, he] at hp; cases hp

theorem createSerializedDataMessage_rp (Q : List Bytes) (K : Crypto) (m : Bytes) (f : Nat) (tlvs : List Tlv) :
    Stable (RP Q) (createSerializedDataMessage K m f tlvs) := by
  unfold createSerializedDataMessage
  r_walk [genDataMsgWithFlag_rp Q K _ _ _, Stable.ofBook (wrapMessageHeader_book _ _),
    Stable.ofBook updateLastSent_book, Stable.ofBook (fragEncode_book _)]

theorem createSerializedDataMessage_nil_rf (Q : List Bytes) (K : Crypto) (f : Nat) (tlvs : List Tlv) :
    Stable (RF Q) (createSerializedDataMessage K [] f tlvs) := by
  unfold createSerializedDataMessage
  r_walk [genDataMsgWithFlag_nil_rf Q K _ _, Stable.ofBook (wrapMessageHeader_book _ _),
    Stable.ofBook updateLastSent_book, Stable.ofBook (fragEncode_book _)]

theorem startAuthenticate_rf (Q : List Bytes) (K : Crypto) (q sec : Bytes) :
    Stable (RF Q) (startAuthenticate K q sec) := by
  unfold startAuthenticate
  r_walk [Stable.ofBook (startAuthenticateExpect1_book _ _ _), createSerializedDataMessage_nil_rf Q K _ _]

theorem provideAuthenticationSecret_rf (Q : List Bytes) (K : Crypto) (sec : Bytes) :
    Stable (RF Q) (provideAuthenticationSecret K sec) := by
  unfold provideAuthenticationSecret
  r_walk [Stable.ofBook (continueSMP_book _ _), createSerializedDataMessage_nil_rf Q K _ _]

theorem abortAuthentication_rf (Q : List Bytes) (K : Crypto) : Stable (RF Q) (abortAuthentication K) := by
  unfold abortAuthentication
  r_walk [createSerializedDataMessage_nil_rf Q K _ _]

theorem useExtraSymmetricKey_rf (Q : List Bytes) (K : Crypto) (u : Nat) (d : Bytes) :
    Stable (RF Q) (useExtraSymmetricKey K u d) := by
  unfold useExtraSymmetricKey
  r_walk [createSerializedDataMessage_nil_rf Q K _ _]

/-! ### `End` -/

theorem RInv.ended {Q : List Bytes} {c : Conv} (h : RInv Q c) : RInv Q (endedConv c) := by
  by_cases he : c.mayRetransmit = .exact
  · refine ⟨h.idle, ?_, ?_, ?_⟩
    · simp only [endedConv, he, if_true]; exact h.bounded
    · intro _; simp only [endedConv, he, if_true]; exact h.queued he
    · intro _; left; simp only [endedConv, he, if_true]
  · refine ⟨h.idle, ?_, ?_, ?_⟩
    · simp only [endedConv, he, if_false]; exact Or.inl (Nat.zero_le _)
    · intro _; simp only [endedConv, he, if_false]; exact List.nil_suffix
    · intro _; right; simp only [endedConv, he, if_false, and_self]

theorem endedConv_shrinks (c : Conv) :
    (endedConv c).resendMsgs = c.resendMsgs ∨ (endedConv c).resendMsgs = [] := by
  by_cases he : c.mayRetransmit = .exact
  · left; simp only [endedConv, he, if_true]
  · right; simp only [endedConv, he, if_false]

theorem endSession_rf (Q : List Bytes) (K : Crypto) : Stable (RF Q) (endSession K) := by
  intro s r s' h
  by_cases he : s.conv.msgState = .encrypted
  · rw [endSession_encrypted_run K s he] at h
    cases hx : runM (createSerializedDataMessage K [] messageFlagIgnoreUnreadable
        [{ typ := tlvTypeDisconnected, len := 0, value := [] }]) { s with conv := { s.conv with smp := {} } } with
    | panic p => rw [hx] at h; cases h
    | ok v =>
      obtain ⟨v, s2⟩ := v
      rw [hx] at h
      simp only [Res.ok.injEq, Prod.mk.injEq] at h
      rw [← h.2]
      intro hi
      have h0 : RInv Q ({ s with conv := { s.conv with smp := {} } } : MState).conv :=
        ⟨hi.idle, hi.bounded, hi.queued, hi.plain⟩
      obtain ⟨h2, k2⟩ := createSerializedDataMessage_nil_rf Q K _ _ _ _ _ hx h0
      refine ⟨h2.ended, ?_⟩
      rcases endedConv_shrinks s2.conv with k | k
      · rcases k2 with k2 | k2
        · exact Or.inl (k.trans k2)
        · exact Or.inr (k.trans k2)
      · exact Or.inr k
  · rw [endSession_notEncrypted_run K s he] at h
    simp only [Res.ok.injEq, Prod.mk.injEq] at h
    rw [← h.2]
    intro hi
    have h0 : RInv Q ({ s.conv with smp := {} } : Conv) := ⟨hi.idle, hi.bounded, hi.queued, hi.plain⟩
    exact ⟨h0.ended, endedConv_shrinks _⟩

/-! ### `Send` -/

/-- does this call queue its text: `Send` in a plaintext conversation whose policy requires encryption -/
def ApiCall.queues (c : Conv) : ApiCall → Option Bytes
  | .send m =>
    if isOTREnabled c.policies = true ∧ c.msgState = .plainText ∧ polHas c.policies requireEncryption = true
    then some m else none
  | _ => none

theorem send_queue (Q : List Bytes) (K : Crypto) (m : Bytes) (s : MState) (r) (s' : MState)
    (hp : isOTREnabled s.conv.policies = true) (hm : s.conv.msgState = .plainText)
    (hr : polHas s.conv.policies requireEncryption = true)
    (h : runM (send K m) s = .ok (r, s')) (hi : RInv Q s.conv) : RInv (Q ++ [m]) s'.conv := by
  rw [send_requireEncryption K m s hp hm hr hi.idle] at h
  simp only [Res.ok.injEq, Prod.mk.injEq] at h
  rw [← h.2]
  have hsuf : ((if s.conv.mayRetransmit = .exact then s.conv.resendMsgs else []) ++ [m]) <:+ (Q ++ [m]) := by
    split
    · rename_i he
      obtain ⟨t, ht⟩ := hi.queued he
      exact ⟨t, by rw [← ht, List.append_assoc]⟩
    · exact ⟨Q, by simp⟩
  exact ⟨hi.idle, Or.inr hsuf, fun _ => hsuf, fun _ => Or.inl rfl⟩

theorem send_other (Q : List Bytes) (K : Crypto) (m : Bytes) (s : MState) (r) (s' : MState)
    (hq : ¬ (isOTREnabled s.conv.policies = true ∧ s.conv.msgState = .plainText ∧
      polHas s.conv.policies requireEncryption = true))
    (h : runM (send K m) s = .ok (r, s')) (hi : RInv Q s.conv) : RInv Q s'.conv := by
  unfold send at h
  simp only [runM_bind, runM_getc, bindM_ok] at h
  split at h
  · simp only [runM_pure, Res.ok.injEq, Prod.mk.injEq] at h
    rw [← h.2]; exact hi
  · rename_i hp
    have hp' : isOTREnabled s.conv.policies = true := by simpa using hp
    split at h
    · rename_i hm
      split at h
      · rename_i hr
        exact absurd ⟨hp', hm, hr⟩ hq
      · exact (by r_walk [Stable.ofBook (appendWhitespaceTag_book _), (withInjects_book2 _).book2_rp] :
          Stable (RP Q) _) _ _ _ h hi
    · exact (by r_walk [createSerializedDataMessage_rp Q K _ _ _, Stable.ofBook (msgEvent_book _),
          (generatePotentialErrorMessage_book2 _).book2_rp, (withInjects_book2 _).book2_rp] :
          Stable (RP Q) _) _ _ _ h hi
    · exact (by r_walk [Stable.ofBook (msgEvent_book _), (withInjects_book2 _).book2_rp] :
          Stable (RP Q) _) _ _ _ h hi

/-! ## 2. whole API calls and histories -/

/-- **every API call, every argument, every environment** (no panic assumed; `Proofs.NoPanic` guarantees it from
    `Inv`): the invariant `RInv` holds again, for the queue extended by the text of this call if — and only if —
    the call is a `Send` in a plaintext conversation whose policy requires encryption. -/
theorem apiCall_resend (K : Crypto) (call : ApiCall) (s : MState) (r : Except Err Unit) (s' : MState)
    (h : runM (call.run K) s = .ok (r, s')) (Q : List Bytes) (hi : RInv Q s.conv) :
    RInv (Q ++ (call.queues s.conv).toList) s'.conv := by
  cases call with
  | send m =>
    obtain ⟨r0, h0⟩ := runM_drop _ _ _ _ h
    by_cases hq : isOTREnabled s.conv.policies = true ∧ s.conv.msgState = .plainText ∧
        polHas s.conv.policies requireEncryption = true
    · simp only [ApiCall.queues, hq, and_self, if_true, Option.toList]
      exact send_queue Q K m s _ s' hq.1 hq.2.1 hq.2.2 h0 hi
    · simp only [ApiCall.queues, hq, if_false, Option.toList, List.append_nil]
      exact send_other Q K m s _ s' hq h0 hi
  | receive m =>
    obtain ⟨r0, h0⟩ := runM_drop _ _ _ _ h
    simpa [ApiCall.queues] using (receive_rf Q K m s _ s' h0 hi).1
  | endSession =>
    obtain ⟨r0, h0⟩ := runM_drop _ _ _ _ h
    simpa [ApiCall.queues] using (endSession_rf Q K s _ s' h0 hi).1
  | smpStart q sec =>
    obtain ⟨r0, h0⟩ := runM_drop _ _ _ _ h
    simpa [ApiCall.queues] using (startAuthenticate_rf Q K q sec s _ s' h0 hi).1
  | smpSecret sec =>
    obtain ⟨r0, h0⟩ := runM_drop _ _ _ _ h
    simpa [ApiCall.queues] using (provideAuthenticationSecret_rf Q K sec s _ s' h0 hi).1
  | smpAbort =>
    obtain ⟨r0, h0⟩ := runM_drop _ _ _ _ h
    simpa [ApiCall.queues] using (abortAuthentication_rf Q K s _ s' h0 hi).1
  | extraKey u d =>
    obtain ⟨r0, h0⟩ := runM_drop _ _ _ _ h
    simpa [ApiCall.queues] using (useExtraSymmetricKey_rf Q K u d s _ s' h0 hi).1
  | sendTlvs text flag tlvs =>
    obtain ⟨r0, h0⟩ := runM_drop _ _ _ _ h
    simpa [ApiCall.queues] using createSerializedDataMessage_rp Q K text flag tlvs s _ s' h0 hi
  | setFragmentSize n =>
    have : Stable (RF Q) (modc fun c => { c with fragmentSize := n }) := by r_walk []
    simpa [ApiCall.queues] using (this s _ s' h hi).1

/-- is the call one that hands a text to the sending path (`Send`, or the harness hook `sendtlvs` with a text) -/
def ApiCall.sendsText : ApiCall → Bool
  | .send _ => true
  | .sendTlvs text _ _ => !text.isEmpty
  | _ => false

open ConvData in
/-- **no call other than a `Send` adds to what is retained**: after `Receive`, `End`, the SMP calls, the extra-key
    call and TLV-only messages the retained texts are the same as before, or none at all -/
theorem apiCall_resend_shrinks (K : Crypto) (call : ApiCall) (s : MState) (r : Except Err Unit) (s' : MState)
    (h : runM (call.run K) s = .ok (r, s')) (Q : List Bytes) (hi : RInv Q s.conv) (hc : call.sendsText = false) :
    s'.conv.resendMsgs = s.conv.resendMsgs ∨ s'.conv.resendMsgs = [] := by
  cases call with
  | send m => cases hc
  | receive m => obtain ⟨r0, h0⟩ := runM_drop _ _ _ _ h; exact (receive_rf Q K m s _ s' h0 hi).2
  | endSession => obtain ⟨r0, h0⟩ := runM_drop _ _ _ _ h; exact (endSession_rf Q K s _ s' h0 hi).2
  | smpStart q sec => obtain ⟨r0, h0⟩ := runM_drop _ _ _ _ h; exact (startAuthenticate_rf Q K q sec s _ s' h0 hi).2
  | smpSecret sec =>
    obtain ⟨r0, h0⟩ := runM_drop _ _ _ _ h; exact (provideAuthenticationSecret_rf Q K sec s _ s' h0 hi).2
  | smpAbort => obtain ⟨r0, h0⟩ := runM_drop _ _ _ _ h; exact (abortAuthentication_rf Q K s _ s' h0 hi).2
  | extraKey u d => obtain ⟨r0, h0⟩ := runM_drop _ _ _ _ h; exact (useExtraSymmetricKey_rf Q K u d s _ s' h0 hi).2
  | sendTlvs text flag tlvs =>
    obtain ⟨r0, h0⟩ := runM_drop _ _ _ _ h
    have ht : text = [] := by
      cases text with
      | nil => rfl
      | cons a l => simp [ApiCall.sendsText] at hc
    subst ht
    exact (createSerializedDataMessage_nil_rf Q K flag tlvs s _ s' h0 hi).2
  | setFragmentSize n =>
    have : Stable (RF Q) (modc fun c => { c with fragmentSize := n }) := by r_walk []
    exact (this s _ s' h hi).2

/-- the texts `Send` has queued along a history because encryption was required and no session existed, in the
    order of the calls (computed by running the model) -/
def queuedTexts (K : Crypto) : Conv → List ApiStep → List Bytes
  | _, [] => []
  | c, st :: rest =>
    (st.call.queues c).toList ++
      match runM (st.call.run K) { conv := c, env := st.env } with
      | .panic _ => []
      | .ok (_, s') => queuedTexts K s'.conv rest

theorem runApi_resend (K : Crypto) (steps : List ApiStep) : ∀ (c c' : Conv) (Q : List Bytes),
    RInv Q c → runApi K c steps = .ok c' → RInv (Q ++ queuedTexts K c steps) c' := by
  induction steps with
  | nil =>
    intro c c' Q hi h
    simp only [runApi, Res.ok.injEq] at h
    subst h
    simpa [queuedTexts] using hi
  | cons st rest ih =>
    intro c c' Q hi h
    simp only [runApi] at h
    cases hr : runM (st.call.run K) { conv := c, env := st.env } with
    | panic p => rw [hr] at h; cases h
    | ok v =>
      obtain ⟨r, s'⟩ := v
      rw [hr] at h
      have h1 := apiCall_resend K st.call _ r s' hr Q hi
      have h2 := ih s'.conv c' _ h1 h
      simp only [queuedTexts, hr]
      rw [← List.append_assoc]
      exact h2

theorem rinv_fresh (version : Option Version) (policies : Policies) (keys : List DsaPub) (fragmentSize : Nat)
    (errHandler : Bool) (friendlyQuery : Bytes) (ourTag : Nat) :
    RInv [] (freshConv version policies keys fragmentSize errHandler friendlyQuery ourTag) :=
  ⟨rfl, Or.inl (Nat.zero_le _), fun h => by simp [freshConv] at h, fun _ => Or.inr ⟨rfl, rfl⟩⟩

/-- **(1) retained texts over whole histories.**  For every crypto record (with `CryptoOK`), every fresh
    conversation and every sequence of API calls with arbitrary arguments, randomness/signing tapes and clocks:
    the run ends without panic, and in the final conversation (hence after every prefix)
    * no retransmission is in progress;
    * at most ONE text is retained, unless what is retained is a tail of the queue of texts that `Send` accepted
      while encryption was required and no session existed (`queuedTexts`) — never the session's history;
    * in the mode `exact` the retained texts are such a tail;
    * a plaintext conversation retains texts only in the mode `exact`. -/
theorem api_resend_bounded (K : Crypto) (hK : CryptoOK K) (version : Option Version) (policies : Policies)
    (keys : List DsaPub) (fragmentSize : Nat) (errHandler : Bool) (friendlyQuery : Bytes) (ourTag : Nat)
    (steps : List ApiStep) :
    ∃ c, runApi K (freshConv version policies keys fragmentSize errHandler friendlyQuery ourTag) steps = .ok c ∧
      RInv (queuedTexts K (freshConv version policies keys fragmentSize errHandler friendlyQuery ourTag) steps) c ∧
      c.resendMsgs.length ≤ max 1
        (queuedTexts K (freshConv version policies keys fragmentSize errHandler friendlyQuery ourTag) steps).length := by
  obtain ⟨c, hr, -⟩ := api_sequence_no_panic_fresh K hK version policies keys fragmentSize errHandler
    friendlyQuery ourTag steps
  have h := runApi_resend K steps _ c [] (rinv_fresh _ _ _ _ _ _ _) hr
  rw [List.nil_append] at h
  refine ⟨c, hr, h, ?_⟩
  rcases h.bounded with hb | hb
  · exact Nat.le_trans hb (Nat.le_max_left _ _)
  · exact Nat.le_trans hb.length_le (Nat.le_max_right _ _)

/-- **(3, lifted) a retained text cannot come back.**  From a conversation that retains nothing, no sequence of
    calls without a `Send` (or `sendtlvs` with a text) makes it retain anything: once a retransmission has taken
    the texts off the list (`retransmit_eff`), a second error report or key exchange finds nothing to resend
    until the user sends again. -/
theorem runApi_resend_empty_stays (K : Crypto) (steps : List ApiStep) : ∀ (c c' : Conv) (Q : List Bytes),
    RInv Q c → c.resendMsgs = [] → (∀ st ∈ steps, st.call.sendsText = false) →
    runApi K c steps = .ok c' → c'.resendMsgs = [] ∧ RInv Q c' := by
  induction steps with
  | nil =>
    intro c c' Q hi he _ h
    simp only [runApi, Res.ok.injEq] at h
    subst h; exact ⟨he, hi⟩
  | cons st rest ih =>
    intro c c' Q hi he hs h
    simp only [runApi] at h
    cases hr : runM (st.call.run K) { conv := c, env := st.env } with
    | panic p => rw [hr] at h; cases h
    | ok v =>
      obtain ⟨r, s'⟩ := v
      rw [hr] at h
      have hst := hs st (by simp)
      have h1 := apiCall_resend K st.call _ r s' hr Q hi
      have hq : st.call.queues c = none := by
        cases hc : st.call with
        | send m => rw [hc] at hst; cases hst
        | _ => rfl
      rw [hq] at h1
      simp only [Option.toList, List.append_nil] at h1
      have h2 := apiCall_resend_shrinks K st.call _ r s' hr Q hi hst
      have he' : s'.conv.resendMsgs = [] := by
        rcases h2 with h2 | h2
        · rw [h2]; exact he
        · exact h2
      exact ih s'.conv c' Q h1 he' (fun st' hm => hs st' (by simp [hm])) h

end Otr
