/-
  Proofs.NoPanicAke — panic freedom and invariant preservation of the AKE path (`processAKE`) and of
  `sendDHCommit` of the conversation model (property C13).
-/
import Proofs.NoPanicBase
import Proofs.AkeGuard
set_option linter.unusedSimpArgs false
set_option linter.unusedVariables false
namespace Otr
open ConvData

/-! ## the predicate that holds inside `processAKE` -/

/-- inside `processAKE` the `state` field of the AKE context is stale (the state being processed is passed
    around as a value): everything of `Inv` that does not concern the AKE context holds, a version is set, and
    the AKE context exists and holds what the state `st` relies on -/
structure AkeP (K : Crypto) (st : AuthState) (c : Conv) : Prop where
  base : Inv K { c with ake := none }
  ver : c.version ≠ none
  ake : ∃ a, c.ake = some a ∧ AkeOK c.ourCurrentKey st a

theorem AkeOK_state (ock : Option DsaPub) (st x : AuthState) (a : Ake) :
    AkeOK ock st { a with state := x } ↔ AkeOK ock st a := by
  cases st <;> exact Iff.rfl

theorem AkeOK_lsc (ock : Option DsaPub) (st : AuthState) (x : Option Nat) (a : Ake) :
    AkeOK ock st { a with lastStateChange := x } ↔ AkeOK ock st a := by
  cases st <;> exact Iff.rfl

theorem AkeP.ofInv {K : Crypto} {c : Conv} {a : Ake} (h : Inv K c) (hv : c.version ≠ none) (ha : c.ake = some a) :
    AkeP K a.state c :=
  ⟨h.dropAke, hv, a, ha, h.ake a ha⟩

theorem Inv.ofDropAke {K : Crypto} {c : Conv} (h : Inv K { c with ake := none })
    (hx : ∀ a, c.ake = some a → AkeOK c.ourCurrentKey a.state a)
    (hxv : c.version = none → ∀ a, c.ake = some a → a.state = .none) : Inv K c :=
  ⟨h.smpWF, h.smpNum, h.smpWait, h.enc, hx, hxv⟩

/-- writing the new state into the AKE context re-establishes the invariant -/
theorem AkeP.toInv {K : Crypto} {st : AuthState} {c : Conv} (h : AkeP K st c) :
    Inv K { c with ake := c.ake.map fun a => { a with state := st } } := by
  obtain ⟨a, ha, hok⟩ := h.ake
  refine Inv.ofDropAke (c := { c with ake := c.ake.map fun a => { a with state := st } }) h.base ?_
    (fun hv => absurd hv h.ver)
  intro a' ha'
  simp only [ha, Option.map_some, Option.some.injEq] at ha'
  subst ha'
  exact (AkeOK_state _ _ _ _).2 hok

/-- general transfer: same version / message state / current DH pair / long-term key / SMP context, the peer's
    key unchanged or set, and an AKE context that holds what `st'` relies on -/
theorem AkeP.mk' {K : Crypto} {st st' : AuthState} {c : Conv} (h : AkeP K st c) (c' : Conv)
    (hv : c'.version = c.version) (hm : c'.msgState = c.msgState) (hk : c'.keys.ourCur = c.keys.ourCur)
    (ho : c'.ourCurrentKey = c.ourCurrentKey) (ht : c'.theirKey = c.theirKey ∨ c'.theirKey ≠ none)
    (hs : c'.smp = c.smp) (a' : Ake) (ha : c'.ake = some a') (hok : AkeOK c.ourCurrentKey st' a') :
    AkeP K st' c' := by
  refine ⟨?_, by rw [hv]; exact h.ver, a', ha, by rw [ho]; exact hok⟩
  have hb := h.base
  refine ⟨?_, ?_, ?_, ?_, ?_, fun _ a ha => (by cases ha)⟩
  · have := hb.smpWF; unfold SmpWF at *; simp only [hs] at *; exact this
  · have := hb.smpNum; unfold SmpNumWF at *; simp only [hs] at *; exact this
  · have := hb.smpWait; unfold SmpWaitWF at *; simp only [hs] at *; exact this
  · intro he
    have he' : c.msgState = .encrypted := by rw [← hm]; exact he
    obtain ⟨e1, e2, e3, e4⟩ := hb.enc he'
    refine ⟨by rw [hv]; exact e1, by rw [hk]; exact e2, by rw [ho]; exact e3, ?_⟩
    rcases ht with ht | ht
    · rw [ht]; exact e4
    · exact ht
  · intro a ha; cases ha

/-! ## leaves -/

theorem appendMPI_length (l : Bytes) (n : Nat) : (appendMPI l n).length = l.length + 4 + (natToBytes n).length := by
  simp [appendMPI, appendData, be32]; omega

/-- `encrypt` (repaired code: the IV is its own buffer) cannot panic, whatever the length of the data -/
theorem wp_akeEncrypt (K : Crypto) (key data : Bytes) (Q : Except Err Bytes → MState → Prop) (s : MState)
    (h : ∀ d, Q (.ok d) s) : wp (akeEncrypt K key data) Q NoP s := by
  unfold akeEncrypt
  wpx
  all_goals exact h _

/-- `generateEncryptedSignature` with both DH values present: no panic; the conversation is unchanged; a normal
    return means our long-term key exists -/
theorem wp_genEncSig (K : Crypto) (key : AkeKeys) (Q : Except Err Bytes → MState → Prop) (s : MState) (a : Ake)
    (ha : s.conv.ake = some a) (ho : a.ourPublicValue ≠ none) (ht : a.theirPublicValue ≠ none)
    (h : ∀ r env' mm', ((∃ b, r = .ok b) → s.conv.ourCurrentKey ≠ none) →
      Q r { s with env := env', mismatch := mm' }) :
    wp (generateEncryptedSignature K key) Q NoP s := by
  obtain ⟨ours, hours⟩ : ∃ o, a.ourPublicValue = some o := by
    cases hx : a.ourPublicValue with
    | none => exact absurd hx ho
    | some o => exact ⟨o, rfl⟩
  obtain ⟨theirs, htheirs⟩ : ∃ o, a.theirPublicValue = some o := by
    cases hx : a.theirPublicValue with
    | none => exact absurd hx ht
    | some o => exact ⟨o, rfl⟩
  unfold generateEncryptedSignature
  simp only [wp_bind, wp_getc]
  split
  · rename_i pk hpk
    simp only [wp_pure, wp_bind, getAke, wp_getc, ha, optNat, hours, htheirs]
    apply wp_signOracle_x
    intro r env' mm'
    cases r with
    | none =>
      simp only [wp_throw]
      exact h _ env' mm' (by rintro ⟨b, hb⟩; cases hb)
    | some sigb =>
      simp only [wp_bind]
      apply wp_akeEncrypt
      intro d
      simp only [wp_pure]
      exact h _ env' mm' (fun _ => by rw [hpk]; exact fun hx => by cases hx)
  · simp only [wp_bind, wp_throw]
    exact h _ s.env s.mismatch (by rintro ⟨b, hb⟩; cases hb)

-- the straight-line AKE code under `wp`, with the AKE context known
open Lean.Parser.Tactic in
syntax "akex" "[" (simpStar <|> simpErase <|> simpLemma),* "]" : tactic
macro_rules
  | `(tactic| akex [$ls,*]) => `(tactic| simp only [wp_bind, wp_getc, wp_modc, wp_ite', wp_pure, wp_throw,
      wp_ev, wp_goPanic, wp_now, wp_tryCatch, getAke, modAke, optNat, initAKE, setSecretExponent, Option.map_some,
      Option.map_none, $ls,*])

theorem recvDHCommitNone_akeP (K : Crypto) (msg : Bytes) (st : AuthState) (s : MState) (h : AkeP K st s.conv) :
    wp (recvDHCommitNone K msg) (fun r s' => ∃ st' m e, r = .ok (st', m, e) ∧ AkeP K st' s'.conv) NoP s := by
  obtain ⟨a, ha, hok⟩ := h.ake
  unfold recvDHCommitNone akeTry dhKeyMessage serializeDHKey processDHCommit
  akex [ha]
  apply wp_randomInto_x
  intro r env' mm'
  cases r with
  | error e =>
    akex []
    exact ⟨_, _, _, rfl, h.mk' _ rfl rfl rfl rfl (Or.inl rfl) rfl _ rfl trivial⟩
  | ok y =>
    akex [DhKey.serialize]
    refine wp_wrapMessageHeader_x _ _ _ _ _ h.ver ?_
    intro r v env2 mm2
    cases r with
    | error e =>
      akex []
      exact ⟨_, _, _, rfl, h.mk' _ rfl rfl rfl rfl (Or.inl rfl) rfl _ rfl trivial⟩
    | ok m =>
      akex []
      split
      · akex []
        exact ⟨_, _, _, rfl, h.mk' _ rfl rfl rfl rfl (Or.inl rfl) rfl _ rfl trivial⟩
      · akex []
        refine ⟨_, _, _, rfl, h.mk' _ rfl rfl rfl rfl (Or.inl rfl) rfl _ rfl ?_⟩
        simp [AkeOK]

theorem some_of_ne_none {α} {o : Option α} (h : o ≠ none) : ∃ v, o = some v := by
  cases o with
  | none => exact absurd rfl h
  | some v => exact ⟨v, rfl⟩

theorem recvDHCommit_akeP (K : Crypto) (msg : Bytes) (st : AuthState) (s : MState) (h : AkeP K st s.conv) :
    wp (recvDHCommit K st msg) (fun r s' => ∃ st' m e, r = .ok (st', m, e) ∧ AkeP K st' s'.conv) NoP s := by
  obtain ⟨a, ha, hok⟩ := h.ake
  unfold recvDHCommit
  split
  · exact recvDHCommitNone_akeP K msg _ s h
  · akex []
    refine ⟨fun _ => ⟨_, _, _, rfl, h⟩, fun _ => recvDHCommitNone_akeP K msg _ s h⟩
  · obtain ⟨ours, hours⟩ := some_of_ne_none (show a.ourPublicValue ≠ none from hok)
    unfold akeTry serializeDHKey processDHCommit
    akex [ha]
    refine ⟨fun _ => ⟨_, _, _, rfl, h⟩, fun _ => ?_⟩
    split
    · akex []
      refine ⟨_, _, _, rfl, h.mk' _ rfl rfl rfl rfl (Or.inl rfl) rfl _ rfl ?_⟩
      simp [AkeOK, hours]
    · akex [hours]
      refine wp_wrapMessageHeader_x _ _ _ _ _ h.ver ?_
      intro r v env2 mm2
      cases r with
      | error e =>
        akex []
        refine ⟨_, _, _, rfl, h.mk' _ rfl rfl rfl rfl (Or.inl rfl) rfl _ rfl ?_⟩
        simp [AkeOK, hours]
      | ok m =>
        akex []
        refine ⟨_, _, _, rfl, h.mk' _ rfl rfl rfl rfl (Or.inl rfl) rfl _ rfl ?_⟩
        simp [AkeOK, hours]
  · obtain ⟨ours, hours⟩ := some_of_ne_none (show a.ourPublicValue ≠ none from hok)
    split
    · akex []
      exact ⟨_, _, _, rfl, h⟩
    · split
      · akex []
        exact ⟨_, _, _, rfl, h⟩
      · unfold akeTry serializeDHCommit
        akex [ha, hours]
        refine ⟨fun _ => ?_, fun _ => recvDHCommitNone_akeP K msg _ s h⟩
        refine wp_wrapMessageHeader_x _ _ _ _ _ h.ver ?_
        intro r v env2 mm2
        have hs : s.conv.ake = some a := ha
        cases r with
        | error e =>
          akex []
          refine ⟨_, _, _, rfl, h.mk' _ rfl rfl rfl rfl (Or.inl rfl) rfl a ha ?_⟩
          simp [AkeOK, hours]
        | ok m =>
          akex []
          refine ⟨_, _, _, rfl, h.mk' _ rfl rfl rfl rfl (Or.inl rfl) rfl a ha ?_⟩
          simp [AkeOK, hours]

theorem MState.ake_eta (s : MState) (a : Ake) (ha : s.conv.ake = some a) :
    { s with conv := { s.conv with ake := some a } } = s := by
  rw [← ha]

theorem wp_processDHKey (msg : Bytes) (Q : Except Err Bool → MState → Prop) (s : MState) (a : Ake)
    (ha : s.conv.ake = some a) (herr : ∀ e, Q (.error e) s)
    (hok : ∀ b t, Q (.ok b) { s with conv := { s.conv with ake := some { a with theirPublicValue := some t } } }) :
    wp (processDHKey msg) Q NoP s := by
  unfold processDHKey
  split
  · exact herr _
  · rename_i m hm
    akex [ha]
    refine ⟨fun _ => herr _, fun _ => ?_⟩
    split
    · rename_i t ht
      akex []
      have h1 := hok (t == m.gy) t
      have h2 : ({ a with theirPublicValue := some t } : Ake) = a := by rw [← ht]
      rw [h2, MState.ake_eta s a ha] at h1
      exact h1
    · akex [ha]
      exact hok _ _

theorem wp_resToM_revealSig (K : Crypto) (hK : CryptoOK K) (r encSig key : Bytes)
    (Q : Except Err Bytes → MState → Prop) (s : MState) (h : ∀ b, Q (.ok b) s) :
    wp (resToM (RevealSig.serialize ⟨r, encSig, K.mac2 key encSig⟩)) Q NoP s := by
  have hlt : ¬ (K.mac2 key encSig).length < truncateLength := by
    have := hK.mac2_len key encSig
    unfold truncateLength; omega
  simp only [RevealSig.serialize, hlt, ↓reduceIte, resToM]
  exact h _

theorem wp_resToM_sig (K : Crypto) (hK : CryptoOK K) (encSig key : Bytes)
    (Q : Except Err Bytes → MState → Prop) (s : MState) (h : ∀ b, Q (.ok b) s) :
    wp (resToM (Sig.serialize ⟨encSig, K.mac2 key encSig⟩)) Q NoP s := by
  have hlt : ¬ (K.mac2 key encSig).length < truncateLength := by
    have := hK.mac2_len key encSig
    unfold truncateLength; omega
  simp only [Sig.serialize, hlt, ↓reduceIte, resToM]
  exact h _

/-- `revealSigMessage` with both DH values present -/
theorem wp_revealSigMessage (K : Crypto) (hK : CryptoOK K) (Q : Except Err Bytes → MState → Prop) (s : MState)
    (a : Ake) (ha : s.conv.ake = some a) (ours theirs : Nat) (ho : a.ourPublicValue = some ours)
    (ht : a.theirPublicValue = some theirs)
    (h : ∀ r env' mm' rk sk ssid cssid, ((∃ b, r = .ok b) → s.conv.ourCurrentKey ≠ none) →
      Q r { s with conv := { s.conv with
              ake := some { a with revealKey := rk, sigKey := sk, ssid := ssid,
                                   keys := { a.keys with ourKeyID := a.keys.ourKeyID + 1 } }
              ssid := cssid }, env := env', mismatch := mm' }) :
    wp (revealSigMessage K) Q NoP s := by
  unfold revealSigMessage
  rw [wp_bind]
  refine wp_of_runM _ _ _ _ _ _ (calcAKEKeys_run K s a ha theirs ht) ?_
  simp only [afterCalc]
  akex []
  refine wp_genEncSig K _ _ _ _ rfl (by simp [ho]) (by simp [ht]) ?_
  intro r env' mm' hr
  cases r with
  | error e => exact h _ env' mm' _ _ _ _ hr
  | ok encSig =>
    akex []
    refine wp_resToM_revealSig K hK _ _ _ _ _ ?_
    intro b
    exact h _ env' mm' _ _ _ _ (fun _ => hr ⟨_, rfl⟩)

theorem recvDHKey_akeP (K : Crypto) (hK : CryptoOK K) (msg : Bytes) (st : AuthState) (s : MState)
    (h : AkeP K st s.conv) :
    wp (recvDHKey K st msg) (fun r s' => ∃ st' m e, r = .ok (st', m, e) ∧ AkeP K st' s'.conv) NoP s := by
  obtain ⟨a, ha, hok⟩ := h.ake
  unfold recvDHKey
  split
  · exact ⟨_, _, _, rfl, h⟩
  · exact ⟨_, _, _, rfl, h⟩
  · obtain ⟨ours, hours⟩ := some_of_ne_none (show a.ourPublicValue ≠ none from hok)
    unfold akeTry
    akex []
    refine wp_processDHKey msg _ s a ha ?_ ?_
    · intro e
      akex []
      exact ⟨_, _, _, rfl, h⟩
    · intro b t
      akex []
      refine wp_revealSigMessage K hK _ _ _ rfl ours t hours rfl ?_
      intro r env' mm' rk sk ssid cssid hr
      cases r with
      | error e =>
        akex []
        refine ⟨_, _, _, rfl, h.mk' _ rfl rfl rfl rfl (Or.inl rfl) rfl _ rfl ?_⟩
        simp [AkeOK, hours]
      | ok m =>
        have hock := hr ⟨_, rfl⟩
        akex []
        refine wp_wrapMessageHeader_x _ _ _ _ _ h.ver ?_
        intro r v env2 mm2
        cases r with
        | error e =>
          akex []
          refine ⟨_, _, _, rfl, h.mk' _ rfl rfl rfl rfl (Or.inl rfl) rfl _ rfl ?_⟩
          simp [AkeOK, hours]
        | ok m2 =>
          akex [akeSetTheirCurrent, akeSetOurCurrent, hours]
          refine ⟨_, _, _, rfl, ?_⟩
          split
          · refine h.mk' _ rfl rfl rfl rfl (Or.inl rfl) rfl _ rfl ?_
            simp [AkeOK, hours, hock]
          · refine h.mk' _ rfl rfl rfl rfl (Or.inl rfl) rfl _ rfl ?_
            simp [AkeOK, hours, hock]
  · unfold akeTry
    akex []
    refine wp_processDHKey msg _ s a ha ?_ ?_
    · intro e
      akex []
      exact ⟨_, _, _, rfl, h⟩
    · intro b t
      have hok' : AkeOK s.conv.ourCurrentKey (.awaitingSig ‹_›) { a with theirPublicValue := some t } := by
        unfold AkeOK at hok ⊢
        exact ⟨hok.1, by simp, hok.2.2.1, hok.2.2.2⟩
      akex []
      refine ⟨fun _ => ?_, fun _ => ?_⟩ <;>
        exact ⟨_, _, _, rfl, h.mk' _ rfl rfl rfl rfl (Or.inl rfl) rfl _ rfl hok'⟩

theorem wp_processEncryptedSig (K : Crypto) (encSig theirMAC : Bytes) (keys : AkeKeys)
    (Q : Except Err Unit → MState → Prop) (s : MState) (a : Ake) (ha : s.conv.ake = some a)
    (ho : a.ourPublicValue ≠ none) (ht : a.theirPublicValue ≠ none)
    (herr : ∀ e, Q (.error e) s)
    (hok : ∀ pk keyID, Q (.ok ()) { s with conv := { s.conv with
              theirKey := some pk
              ake := some { a with keys := { a.keys with theirKeyID := keyID } } } }) :
    wp (processEncryptedSig K encSig theirMAC keys) Q NoP s := by
  obtain ⟨ours, hours⟩ := some_of_ne_none ho
  obtain ⟨theirs, htheirs⟩ := some_of_ne_none ht
  have hrun := processEncryptedSig_run K encSig theirMAC keys s a ha
  cases hp : encSigParse K encSig theirMAC keys with
  | error e =>
    rw [hp] at hrun
    exact wp_of_runM _ _ _ _ _ _ hrun (herr e)
  | ok v =>
    obtain ⟨pk, keyID, sig⟩ := v
    rw [hp] at hrun
    simp only [htheirs, hours] at hrun
    cases hv : encSigVerify K keys theirs ours pk keyID sig with
    | some e =>
      rw [hv] at hrun
      exact wp_of_runM _ _ _ _ _ _ hrun (herr e)
    | none =>
      rw [hv] at hrun
      exact wp_of_runM _ _ _ _ _ _ hrun (hok pk keyID)

theorem wp_processRevealSig (K : Crypto) (msg : Bytes) (Q : Except Err Unit → MState → Prop) (s : MState) (a : Ake)
    (ha : s.conv.ake = some a) (ho : a.ourPublicValue ≠ none)
    (herr : ∀ e a' cssid, a'.ourPublicValue = a.ourPublicValue →
      Q (.error e) { s with conv := { s.conv with ake := some a', ssid := cssid } })
    (hok : ∀ a' cssid pk, a'.ourPublicValue = a.ourPublicValue → a'.theirPublicValue ≠ none →
      a'.secretExponent = a.secretExponent →
      Q (.ok ()) { s with conv := { s.conv with ake := some a', ssid := cssid, theirKey := some pk } }) :
    wp (processRevealSig K msg) Q NoP s := by
  have hself : ∀ e, Q (.error e) s := by
    intro e
    have := herr e a s.conv.ssid rfl
    rw [show ({ s with conv := { s.conv with ake := some a, ssid := s.conv.ssid } } : MState) = s from
      MState.ake_eta s a ha] at this
    exact this
  unfold processRevealSig
  split
  · exact hself _
  · rename_i m hm
    akex [ha]
    split
    · akex []
      refine ⟨fun _ => hself _, fun _ => ?_⟩
      split
      · akex [ha]
        exact herr _ _ _ rfl
      · rename_i gx rest hx
        akex [ha]
        refine ⟨fun _ => herr _ _ _ rfl, fun _ => ⟨fun _ => herr _ _ _ rfl, fun _ => ?_⟩⟩
        refine wp_of_runM _ _ _ _ _ _ (calcAKEKeys_run K _ { a with theirPublicValue := some gx } rfl gx rfl) ?_
        simp only [afterCalc]
        akex []
        refine wp_processEncryptedSig K _ _ _ _ _ _ rfl (by simpa using ho) (by simp) ?_ ?_
        · intro e
          akex []
          exact herr _ _ _ rfl
        · intro pk keyID
          exact hok _ _ pk rfl (by simp) rfl
    · akex []
      exact hself _

theorem wp_processSig (K : Crypto) (msg : Bytes) (Q : Except Err Unit → MState → Prop) (s : MState) (a : Ake)
    (ha : s.conv.ake = some a) (ho : a.ourPublicValue ≠ none) (ht : a.theirPublicValue ≠ none)
    (herr : ∀ e, Q (.error e) s)
    (hok : ∀ pk keyID, Q (.ok ()) { s with conv := { s.conv with
              theirKey := some pk
              ake := some { a with keys := { a.keys with theirKeyID := keyID } } } }) :
    wp (processSig K msg) Q NoP s := by
  unfold processSig
  split
  · exact herr _
  · akex [ha]
    refine wp_processEncryptedSig K _ _ _ _ s a ha ho ht ?_ hok
    intro e
    akex []
    exact herr _

/-- `sigMessage` with both DH values present -/
theorem wp_sigMessage (K : Crypto) (hK : CryptoOK K) (Q : Except Err Bytes → MState → Prop) (s : MState)
    (a : Ake) (ha : s.conv.ake = some a) (ho : a.ourPublicValue ≠ none) (ht : a.theirPublicValue ≠ none)
    (h : ∀ r env' mm', ((∃ b, r = .ok b) → s.conv.ourCurrentKey ≠ none) →
      Q r { s with conv := { s.conv with
              ake := some { a with keys := { a.keys with ourKeyID := a.keys.ourKeyID + 1 } } }, env := env', mismatch := mm' }) :
    wp (sigMessage K) Q NoP s := by
  unfold sigMessage
  akex [ha]
  refine wp_genEncSig K _ _ _ _ rfl (by simpa using ho) (by simpa using ht) ?_
  intro r env' mm' hr
  cases r with
  | error e => exact h _ env' mm' hr
  | ok encSig =>
    akex []
    refine wp_resToM_sig K hK _ _ _ _ ?_
    intro b
    exact h _ env' mm' (fun _ => hr ⟨_, rfl⟩)

theorem wp_akeHasFinished (K : Crypto) (Q : Except Err (Option Err) → MState → Prop) (s : MState) (a : Ake)
    (ha : s.conv.ake = some a)
    (h : ∀ e r env' mm' cssid srs lmsc evs omk, Q (.ok e)
      { conv := { s.conv with keys := ({ a.keys with oldMACKeys := omk }.generateNewDHKeyPair K r).1,
                              ssid := cssid, sentRevealSig := srs,
                              ake := some a.wiped, lastMessageStateChange := lmsc, msgState := .encrypted },
        env := env', events := evs, mismatch := mm' }) :
    wp (akeHasFinished K) Q NoP s := by
  obtain ⟨r, env', mm', -, hr⟩ := akeHasFinished_run K s a ha
  exact wp_of_runM _ _ _ _ _ _ hr (h _ r env' mm' _ _ _ _ _)

theorem gen_ourCur (K : Crypto) (k : Keys) (r : Option Bytes) (h : k.ourCur ≠ none) :
    (k.generateNewDHKeyPair K r).1.ourCur ≠ none := by
  unfold Keys.generateNewDHKeyPair
  cases r with
  | none => exact h
  | some p => simp

/-- the AKE has finished: the conversation becomes (or stays) encrypted -/
theorem AkeP.finish {K : Crypto} {st : AuthState} {c : Conv} (h : AkeP K st c) (c' : Conv)
    (hv : c'.version = c.version) (hk : c'.keys.ourCur ≠ none)
    (ho : c'.ourCurrentKey = c.ourCurrentKey) (hock : c.ourCurrentKey ≠ none) (ht : c'.theirKey ≠ none)
    (hs : c'.smp = c.smp) (a' : Ake) (ha : c'.ake = some a') : AkeP K .none c' := by
  refine ⟨?_, by rw [hv]; exact h.ver, a', ha, trivial⟩
  have hb := h.base
  refine ⟨?_, ?_, ?_, ?_, ?_, fun _ a ha => (by cases ha)⟩
  · have := hb.smpWF; unfold SmpWF at *; simp only [hs] at *; exact this
  · have := hb.smpNum; unfold SmpNumWF at *; simp only [hs] at *; exact this
  · have := hb.smpWait; unfold SmpWaitWF at *; simp only [hs] at *; exact this
  · intro _
    exact ⟨by rw [hv]; exact h.ver, hk, by rw [ho]; exact hock, ht⟩
  · intro a ha; cases ha

theorem recvRevealSig_akeP (K : Crypto) (hK : CryptoOK K) (msg : Bytes) (st : AuthState) (s : MState)
    (h : AkeP K st s.conv) :
    wp (recvRevealSig K st msg) (fun r s' => ∃ st' m e, r = .ok (st', m, e) ∧ AkeP K st' s'.conv) NoP s := by
  obtain ⟨a, ha, hok⟩ := h.ake
  unfold recvRevealSig
  split
  · obtain ⟨ours, hours⟩ := some_of_ne_none (show a.ourPublicValue ≠ none from hok)
    unfold akeTry
    akex []
    refine wp_processRevealSig K msg _ s a ha hok ?_ ?_
    · intro e a' cssid h1
      akex []
      refine ⟨_, _, _, rfl, h.mk' _ rfl rfl rfl rfl (Or.inl rfl) rfl _ rfl ?_⟩
      simp [AkeOK, h1, hours]
    · intro a' cssid pk h1 h2 h3
      obtain ⟨theirs, htheirs⟩ := some_of_ne_none h2
      have hours' : a'.ourPublicValue = some ours := h1.trans hours
      akex []
      refine wp_sigMessage K hK _ _ a' rfl (by simp [hours']) h2 ?_
      intro r env' mm' hr
      cases r with
      | error e =>
        akex []
        refine ⟨_, _, _, rfl, h.mk' _ rfl rfl rfl rfl (Or.inl rfl) rfl _ rfl ?_⟩
        simp [AkeOK, hours']
      | ok m =>
        have hock := hr ⟨_, rfl⟩
        akex []
        refine wp_wrapMessageHeader_x _ _ _ _ _ h.ver ?_
        intro r v env2 mm2
        cases r with
        | error e =>
          akex []
          refine ⟨_, _, _, rfl, h.mk' _ rfl rfl rfl rfl (Or.inl rfl) rfl _ rfl ?_⟩
          simp [AkeOK, hours']
        | ok m2 =>
          akex [akeSetTheirCurrent, akeSetOurCurrent, hours', htheirs]
          refine wp_akeHasFinished K _ _ _ rfl ?_
          intro e r env3 mm3 cssid2 srs lmsc evs omk
          akex []
          refine ⟨_, _, _, rfl, h.finish _ rfl (gen_ourCur K _ _ (by simp)) rfl hock (by simp) rfl _ rfl⟩
  · exact ⟨_, _, _, rfl, h⟩

theorem recvSig_akeP (K : Crypto) (hK : CryptoOK K) (msg : Bytes) (st : AuthState) (s : MState)
    (h : AkeP K st s.conv) :
    wp (recvSig K st msg) (fun r s' => ∃ st' m e, r = .ok (st', m, e) ∧ AkeP K st' s'.conv) NoP s := by
  obtain ⟨a, ha, hok⟩ := h.ake
  unfold recvSig
  split
  · obtain ⟨ho, ht, hk, hock⟩ := (show _ ∧ _ ∧ _ ∧ _ from hok)
    obtain ⟨theirs, htheirs⟩ := some_of_ne_none ht
    unfold akeTry
    akex []
    refine wp_processSig K msg _ s a ha ho ht ?_ ?_
    · intro e
      akex []
      exact ⟨_, _, _, rfl, h⟩
    · intro pk keyID
      akex [akeSetTheirCurrent, htheirs]
      refine wp_akeHasFinished K _ _ _ rfl ?_
      intro e r env3 mm3 cssid2 srs lmsc evs omk
      akex []
      refine ⟨_, _, _, rfl, h.finish _ rfl (gen_ourCur K _ _ (by simpa using hk)) rfl hock (by simp) rfl _ rfl⟩
  · exact ⟨_, _, _, rfl, h⟩

/-! ## retransmission after the AKE -/

theorem retransmit_inv (K : Crypto) (s : MState) (h : Inv K s.conv) :
    wp (retransmit K) (fun _ s' => Inv K s'.conv ∧ s'.conv.version = s.conv.version) NoP s := by
  unfold retransmit
  simp only [wp_bind, wp_getc, wp_modc, wp_tryCatch]
  refine wp_mono _ (fun _ s' => Inv K s'.conv ∧ s'.conv.version = s.conv.version) _ _ _ _
    (wp_forIn _ _ (fun s' => Inv K s'.conv ∧ s'.conv.version = s.conv.version) NoP ?_ _ _ ?_) ?_ (fun _ hs => hs)
  · intro m _ g s1 ⟨h1, hv1⟩
    simp only [wp_bind]
    refine wp_mono _ _ _ _ _ _ (genData_inv K _ _ _ s1 h1) ?_ (fun _ hs => hs)
    intro r s2 ⟨h2, hv2, hm2, henc⟩
    cases r with
    | error e => exact ⟨h2, hv2.trans hv1⟩
    | ok x =>
      have he : s2.conv.msgState = .encrypted := by rw [hm2]; exact henc ⟨_, rfl⟩
      simp only [wp_bind, wp_tryCatch]
      refine wp_wrapMessageHeader_x _ _ _ _ _ (h2.enc he).1 ?_
      intro r v env' mm'
      cases r with
      | error e =>
        simp only [wp_pure]
        exact ⟨h2.congr rfl rfl rfl rfl rfl rfl rfl, hv2.trans hv1⟩
      | ok ts =>
        simp only [wp_pure]
        exact ⟨h2.congr rfl rfl rfl rfl rfl rfl rfl, hv2.trans hv1⟩
  · exact ⟨h.congr rfl rfl rfl rfl rfl rfl rfl, rfl⟩
  · intro r s1 ⟨h1, hv1⟩
    have hfin : ∀ r : Except Err (Option (List Bytes)), wp (pure none : M (Option (List Bytes)))
        (fun r s' => match r with
          | .ok a => wp (match a with
              | none => do
                modc fun c => { c with retransmitting := false }
                pure []
              | some ret => do
                for _ in s.conv.resendMsgs do
                  msgEvent (if (s.conv.mayRetransmit == Retx.withPrefix) = true then evMessageResent else evMessageSent)
                updateLastSent
                modc fun c => { c with retransmitting := false }
                pure ret)
              (fun _ s' => Inv K s'.conv ∧ s'.conv.version = s.conv.version) NoP s'
          | .error e => Inv K s'.conv ∧ s'.conv.version = s.conv.version) NoP s1 := by
      intro _
      simp only [wp_pure, wp_bind, wp_modc]
      exact ⟨h1.congr rfl rfl rfl rfl rfl rfl rfl, hv1⟩
    cases r with
    | error e => exact hfin (.error e)
    | ok ret =>
      simp only [wp_pure, wp_bind]
      refine wp_mono _ (fun _ s' => Inv K s'.conv ∧ s'.conv.version = s.conv.version) _ _ _ _
        (wp_forIn _ _ (fun s' => Inv K s'.conv ∧ s'.conv.version = s.conv.version) NoP ?_ _ _ ⟨h1, hv1⟩) ?_
        (fun _ hs => hs)
      · intro m _ g s2 ⟨h2, hv2⟩
        simp only [msgEvent, wp_bind, wp_ev, wp_pure]
        exact ⟨h2, hv2⟩
      · intro r s2 ⟨h2, hv2⟩
        cases r with
        | error e => exact ⟨h2, hv2⟩
        | ok u =>
          simp only [updateLastSent, wp_bind, wp_now, wp_modc, wp_pure]
          exact ⟨h2.congr rfl rfl rfl rfl rfl rfl rfl, hv2⟩

theorem maybeRetransmit_inv (K : Crypto) (s : MState) (h : Inv K s.conv) :
    wp (maybeRetransmit K) (fun _ s' => Inv K s'.conv ∧ s'.conv.version = s.conv.version) NoP s := by
  unfold maybeRetransmit
  simp only [wp_bind, wp_getc, wp_ite', wp_pure]
  exact ⟨fun _ => retransmit_inv K s h, fun _ => ⟨h, trivial⟩⟩

theorem retransmitOrReveal_inv (K : Crypto) (s : MState) (h : Inv K s.conv) :
    wp (retransmitOrReveal K) (fun _ s' => Inv K s'.conv ∧ s'.conv.version = s.conv.version) NoP s := by
  unfold retransmitOrReveal
  rw [wp_bind]
  refine wp_mono _ _ _ _ _ _ (maybeRetransmit_inv K s h) ?_ (fun _ hs => hs)
  intro r s1 ⟨h1, hv1⟩
  cases r with
  | error e => exact ⟨h1, hv1⟩
  | ok toSend =>
    simp only [wp_bind, wp_getc]
    split
    · simp only [wp_tryCatch, wp_bind]
      refine wp_mono _ _ _ _ _ _ (genData_inv K _ _ _ s1 h1) ?_ (fun _ hs => hs)
      intro r s2 ⟨h2, hv2, hm2, henc⟩
      cases r with
      | error e =>
        simp only [wp_pure]
        exact ⟨h2, hv2.trans hv1⟩
      | ok x =>
        have he : s2.conv.msgState = .encrypted := by rw [hm2]; exact henc ⟨_, rfl⟩
        simp only [wp_bind]
        refine wp_wrapMessageHeader_x _ _ _ _ _ (h2.enc he).1 ?_
        intro r v env' mm'
        cases r with
        | error e =>
          simp only [wp_pure]
          exact ⟨h2.congr rfl rfl rfl rfl rfl rfl rfl, hv2.trans hv1⟩
        | ok ts =>
          simp only [wp_pure]
          exact ⟨h2.congr rfl rfl rfl rfl rfl rfl rfl, hv2.trans hv1⟩
    · simp only [wp_pure]
      exact ⟨h1, hv1⟩

/-- repaired code: the retransmission step of `processAKE` keeps the invariant, in every case -/
theorem retransmitAfterCompletedExchange_inv (K : Crypto) (before after : AuthState) (e : Option Err)
    (s : MState) (h : Inv K s.conv) :
    wp (retransmitAfterCompletedExchange K before after e)
      (fun _ s' => Inv K s'.conv ∧ s'.conv.version = s.conv.version) NoP s := by
  by_cases hc : before = .none ∨ after ≠ .none ∨ e ≠ none
  · rw [retransmitAfterCompletedExchange_skip K before after e hc, wp_pure]
    exact ⟨h, rfl⟩
  · have hb : before ≠ .none := fun hb => hc (Or.inl hb)
    have ha : after = .none := Classical.byContradiction fun ha => hc (Or.inr (Or.inl ha))
    have he : e = none := Classical.byContradiction fun he => hc (Or.inr (Or.inr he))
    subst ha he
    rw [retransmitAfterCompletedExchange_completed K before hb]
    exact retransmitOrReveal_inv K s h

/-! ## `processAKE` -/

theorem wp_congr_run {α} (x y : M α) (Q : Except Err α → MState → Prop) (S : String → Prop) (s s' : MState)
    (hr : runM x s = runM y s') (h : wp y Q S s') : wp x Q S s := by
  unfold wp at *
  rw [run'_eq_runM] at *
  rw [hr]; exact h

theorem Inv.mapAkeLsc {K : Crypto} {c : Conv} (h : Inv K c) (x : Option Nat) :
    Inv K { c with ake := c.ake.map fun a => { a with lastStateChange := x } } := by
  refine h.setAke _ ?_ ?_
  · intro a' ha'
    cases hc : c.ake with
    | none => rw [hc] at ha'; cases ha'
    | some a =>
      rw [hc] at ha'
      simp only [Option.map_some, Option.some.injEq] at ha'
      subst ha'
      exact (AkeOK_lsc _ _ _ _).2 (h.ake a hc)
  · intro hv a' ha'
    cases hc : c.ake with
    | none => rw [hc] at ha'; cases ha'
    | some a =>
      rw [hc] at ha'
      simp only [Option.map_some, Option.some.injEq] at ha'
      subst ha'
      exact h.akeVer hv a hc

/-- what `processAKE` guarantees -/
def AkePost (K : Crypto) (r : Except Err (List Bytes × Option Err)) (s' : MState) : Prop :=
  Inv K s'.conv ∧ s'.conv.version ≠ none

/-- retransmission (and the parsing of headers) leaves the message state and the AKE context alone -/
abbrev AkeCtxFrame : MState → MState → Prop := Keeps (fun s => (s.conv.msgState, s.conv.ake))

theorem Stable.akeCtx {α} {x : M α} (h : Stable SendFrame x) : Stable AkeCtxFrame x :=
  Stable.mono (fun s s' hs => by
    have h2 : sendKept s' = sendKept s := hs
    simp only [sendKept, Prod.mk.injEq] at h2
    show (s'.conv.msgState, s'.conv.ake) = (s.conv.msgState, s.conv.ake)
    rw [h2.2.2.2.2.1, h2.2.2.2.2.2.2.2.2.2.2.2.2.1]) h

theorem wrapMessageHeader_akeCtx (t : Nat) (m : Bytes) : Stable AkeCtxFrame (wrapMessageHeader t m) := by
  unfold wrapMessageHeader
  stable [(messageHeader_sendFrame _).akeCtx]

theorem retransmit_akeCtx (K : Crypto) : Stable AkeCtxFrame (retransmit K) := by
  unfold retransmit updateLastSent msgEvent
  stable [(genDataMsgWithFlag_sendFrame K _ _ _).akeCtx, wrapMessageHeader_akeCtx]

theorem retransmitOrReveal_akeCtx (K : Crypto) : Stable AkeCtxFrame (retransmitOrReveal K) := by
  unfold retransmitOrReveal maybeRetransmit
  stable [retransmit_akeCtx, (genDataMsgWithFlag_sendFrame K _ _ _).akeCtx, wrapMessageHeader_akeCtx]

theorem retransmitAfterCompletedExchange_akeCtx (K : Crypto) (before after : AuthState) (e : Option Err) :
    Stable AkeCtxFrame (retransmitAfterCompletedExchange K before after e) := by
  by_cases h : before = .none ∨ after ≠ .none ∨ e ≠ none
  · rw [retransmitAfterCompletedExchange_skip K before after e h]; exact Stable.pure _
  · have hb : before ≠ .none := fun hb => h (Or.inl hb)
    have ha : after = .none := Classical.byContradiction fun ha => h (Or.inr (Or.inl ha))
    have he : e = none := Classical.byContradiction fun he => h (Or.inr (Or.inr he))
    subst ha he
    rw [retransmitAfterCompletedExchange_completed K before hb]
    exact retransmitOrReveal_akeCtx K

/-- the conditional time stamp at the end of `processAKE` (repaired code) keeps the invariant; it needs the AKE
    context (which `processAKE` has created) -/
theorem akeStamp_inv (K : Crypto) (st : AuthState) (m : Option Bytes) (e : Option Err) (s : MState)
    (h : Inv K s.conv) (hv : s.conv.version ≠ none) (ha : s.conv.ake ≠ none)
    (r : Except Err (List Bytes × Option Err)) :
    wp (akeStamp st m e) (fun _ s' => AkePost K r s') NoP s := by
  obtain ⟨a, ha⟩ := some_of_ne_none ha
  refine wp_of_runM _ _ _ _ _ _ (akeStamp_run st m e s a ha) ?_
  rw [stampAke_eq]
  have h2 := h.mapAkeLsc (if akeStampCond st a.state m e then some s.env.now else a.lastStateChange)
  rw [ha] at h2
  exact ⟨h2, hv⟩

theorem akeRest_inv (K : Crypto) (hK : CryptoOK K) (t : Nat) (msg : Bytes) (s : MState) (a : Ake)
    (hI : Inv K s.conv) (hv : s.conv.version ≠ none) (ha : s.conv.ake = some a) :
    wp (akeRest K t msg a.state) (AkePost K) NoP s := by
  have h : AkeP K a.state s.conv := AkeP.ofInv hI hv ha
  generalize a.state = st at h
  have hfin : ∀ (m : Option Bytes) (e : Option Err) (s2 : MState), Inv K s2.conv →
      s2.conv.version ≠ none → s2.conv.ake ≠ none → ∀ (Q : Except Err Unit → MState → Prop),
      (∀ r s', (Inv K s'.conv ∧ s'.conv.version ≠ none) → Q r s') →
      wp (akeStamp st m e) Q NoP s2 := by
    intro m e s2 h2 hv2 ha2 Q hQ
    exact wp_mono _ _ _ _ _ _ (akeStamp_inv K st m e s2 h2 hv2 ha2 (.ok ([], none))) (fun r s3 h3 => hQ r s3 h3)
      (fun _ hs => hs)
  have hmap : ∀ (s1 : MState) (st' : AuthState), AkeP K st' s1.conv →
      (s1.conv.ake.map fun a => { a with state := st' }) ≠ none := by
    intro s1 st' hP
    obtain ⟨a1, ha1, -⟩ := hP.ake
    rw [ha1]; simp
  unfold akeRest akeDispatch
  rw [wp_bind]
  simp only [wp_ite']
  refine ⟨fun _ => ?_, fun _ => ⟨fun _ => ?_, fun _ => ⟨fun _ => ?_, fun _ => ⟨fun _ => ?_, fun _ => ?_⟩⟩⟩⟩
  · rw [wp_bind]
    refine wp_mono _ _ _ _ _ _ (recvDHCommit_akeP K msg st s h) ?_ (fun _ hs => hs)
    rintro r s1 ⟨st', m, e, rfl, hP⟩
    simp only [modAke, wp_bind, wp_modc, wp_pure]
    refine hfin m e ⟨_, s1.env, s1.events, s1.mismatch⟩ hP.toInv hP.ver (hmap s1 st' hP) _ ?_
    intro r s' hq
    cases r <;> exact hq
  · rw [wp_bind]
    refine wp_mono _ _ _ _ _ _ (recvDHKey_akeP K hK msg st s h) ?_ (fun _ hs => hs)
    rintro r s1 ⟨st', m, e, rfl, hP⟩
    simp only [modAke, wp_bind, wp_modc, wp_pure]
    refine hfin m e ⟨_, s1.env, s1.events, s1.mismatch⟩ hP.toInv hP.ver (hmap s1 st' hP) _ ?_
    intro r s' hq
    cases r <;> exact hq
  · rw [wp_bind]
    refine wp_mono _ _ _ _ _ _ (recvRevealSig_akeP K hK msg st s h) ?_ (fun _ hs => hs)
    rintro r s1 ⟨st', m, e, rfl, hP⟩
    simp only [modAke, wp_bind, wp_modc]
    refine wp_mono _ _ _ _ _ _ (wp_stable _ _ _ _ _ (retransmitAfterCompletedExchange_inv K _ _ _ _ hP.toInv)
      (retransmitAfterCompletedExchange_akeCtx K _ _ _)) ?_ (fun _ hs => hs)
    intro r s2 ⟨⟨h2, hv2⟩, hk2⟩
    have hv2' : s2.conv.version ≠ none := by rw [hv2]; exact hP.ver
    cases r with
    | error e => exact ⟨h2, hv2'⟩
    | ok extra =>
      simp only [wp_pure]
      refine hfin m e s2 h2 hv2' ?_ _ ?_
      · rw [show s2.conv.ake = _ from (Prod.mk.inj hk2).2]
        exact hmap s1 st' hP
      · intro r s' hq
        cases r <;> exact hq
  · rw [wp_bind]
    refine wp_mono _ _ _ _ _ _ (recvSig_akeP K hK msg st s h) ?_ (fun _ hs => hs)
    rintro r s1 ⟨st', m, e, rfl, hP⟩
    simp only [modAke, wp_bind, wp_modc]
    refine wp_mono _ _ _ _ _ _ (wp_stable _ _ _ _ _ (retransmitAfterCompletedExchange_inv K _ _ _ _ hP.toInv)
      (retransmitAfterCompletedExchange_akeCtx K _ _ _)) ?_ (fun _ hs => hs)
    intro r s2 ⟨⟨h2, hv2⟩, hk2⟩
    have hv2' : s2.conv.version ≠ none := by rw [hv2]; exact hP.ver
    cases r with
    | error e => exact ⟨h2, hv2'⟩
    | ok extra =>
      simp only [wp_pure]
      refine hfin m e s2 h2 hv2' ?_ _ ?_
      · rw [show s2.conv.ake = _ from (Prod.mk.inj hk2).2]
        exact hmap s1 st' hP
      · intro r s' hq
        cases r <;> exact hq
  · simp only [wp_pure, wp_bind]
    refine hfin _ _ s hI hv (by rw [ha]; simp) _ ?_
    intro r s' hq
    cases r <;> exact hq

/-- **the AKE path**: from a state satisfying the invariant with a version set, `processAKE` does not panic
    on any message type and body, and re-establishes the invariant (whether it returns or throws) -/
theorem processAKE_inv (K : Crypto) (hK : CryptoOK K) (t : Nat) (msg : Bytes) (s : MState)
    (hI : Inv K s.conv) (hv : s.conv.version ≠ none) :
    wp (processAKE K t msg) (fun _ s' => Inv K s'.conv ∧ s'.conv.version ≠ none) NoP s := by
  cases ha : s.conv.ake with
  | some a =>
    exact wp_congr_run _ _ _ _ _ _ (processAKE_run_some K t msg s a ha) (akeRest_inv K hK t msg s a hI hv ha)
  | none =>
    refine wp_congr_run _ _ _ _ _ _ (processAKE_run_none K t msg s ha)
      (akeRest_inv K hK t msg _ {} (hI.setAke _ ?_ (fun hn => absurd hn hv)) hv rfl)
    intro a' ha'
    simp only [Option.some.injEq] at ha'
    subst ha'
    trivial

/-- from the authentication state `none`, the dispatch of a message that is rejected leaves the state `none`
    and produces nothing to send -/
theorem akeDispatch_none_rejected (K : Crypto) (t : Nat) (msg : Bytes) (s0 s1 : MState)
    (single : Option Bytes) (extra : List Bytes) (err : Option Err)
    (h0 : ∀ a, s0.conv.ake = some a → a.state = .none)
    (h : runM (akeDispatch K t msg .none) s0 = .ok (.ok (single, extra, err), s1)) (he : err ≠ none) :
    single = none ∧ extra = [] ∧ ∀ a, s1.conv.ake = some a → a.state = .none := by
  have hmapnone : ∀ (s2 : MState) (a : Ake),
      (s2.conv.ake.map fun a => { a with state := AuthState.none }) = some a → a.state = .none := by
    intro s2 a ha
    cases hc : s2.conv.ake with
    | none => rw [hc] at ha; cases ha
    | some a2 =>
      rw [hc] at ha
      simp only [Option.map_some, Option.some.injEq] at ha
      subst ha; rfl
  unfold akeDispatch at h
  by_cases h1 : t = msgTypeDHCommit
  · rw [if_pos h1, runM_bind] at h
    obtain ⟨u, s2, hr, h⟩ := bindM_ok_inv h
    have hr' : runM (recvDHCommitNone K msg) s0 = .ok (.ok u, s2) := hr
    unfold recvDHCommitNone at hr'
    rcases akeTry_cases hr' with ⟨u', hu, hx⟩ | ⟨er, hu, -⟩
    · exfalso
      cases hu
      rw [runM_bind] at hx
      obtain ⟨_, s3, -, hx⟩ := bindM_ok_inv hx
      rw [runM_bind] at hx
      obtain ⟨_, s4, -, hx⟩ := bindM_ok_inv hx
      rw [runM_bind] at hx
      obtain ⟨_, s5, -, hx⟩ := bindM_ok_inv hx
      rw [runM_bind] at hx
      obtain ⟨_, s6, -, hx⟩ := bindM_ok_inv hx
      simp only [runM_pure, Res.ok.injEq, Prod.mk.injEq, Except.ok.injEq] at hx
      obtain ⟨hu, -⟩ := hx
      subst hu
      simp only [modAke, runM_bind, runM_modc, bindM_ok, runM_pure, Res.ok.injEq, Prod.mk.injEq,
        Except.ok.injEq] at h
      exact he h.1.2.2.symm
    · cases hu
      simp only [modAke, runM_bind, runM_modc, bindM_ok, runM_pure, Res.ok.injEq, Prod.mk.injEq,
        Except.ok.injEq] at h
      obtain ⟨⟨hs, hx, -⟩, rfl⟩ := h
      exact ⟨hs.symm, hx.symm, hmapnone s2⟩
  · rw [if_neg h1] at h
    by_cases h2 : t = msgTypeDHKey
    · exfalso
      rw [if_pos h2] at h
      simp only [recvDHKey, modAke, runM_bind, runM_modc, bindM_ok, runM_pure, Res.ok.injEq, Prod.mk.injEq,
        Except.ok.injEq] at h
      exact he h.1.2.2.symm
    · rw [if_neg h2] at h
      by_cases h3 : t = msgTypeRevealSig
      · exfalso
        rw [if_pos h3, recvRevealSig_other K .none msg (by simp)] at h
        simp only [modAke, runM_bind, runM_modc, bindM_ok, runM_pure, retransmitAfterCompletedExchange_same,
          Res.ok.injEq, Prod.mk.injEq, Except.ok.injEq] at h
        exact he h.1.2.2.symm
      · rw [if_neg h3] at h
        by_cases h4 : t = msgTypeSig
        · exfalso
          rw [if_pos h4, recvSig_other K .none msg (by simp)] at h
          simp only [modAke, runM_bind, runM_modc, bindM_ok, runM_pure, retransmitAfterCompletedExchange_same,
            Res.ok.injEq, Prod.mk.injEq, Except.ok.injEq] at h
          exact he h.1.2.2.symm
        · rw [if_neg h4] at h
          simp only [runM_pure, Res.ok.injEq, Prod.mk.injEq, Except.ok.injEq] at h
          obtain ⟨⟨hs, hx, -⟩, rfl⟩ := h
          exact ⟨hs.symm, hx.symm, h0⟩

/-- **no exchange is started by a rejected message**: from the authentication state `none` (or without an AKE
    context), if `processAKE` returns an error next to the messages to send, there is nothing to send and the
    authentication state is still `none` -/
theorem processAKE_none_rejected (K : Crypto) (t : Nat) (msg : Bytes) (s s' : MState)
    (msgs : List Bytes) (e : Err) (h0 : ∀ a, s.conv.ake = some a → a.state = .none)
    (h : runM (processAKE K t msg) s = .ok (.ok (msgs, some e), s')) :
    msgs = [] ∧ ∀ a, s'.conv.ake = some a → a.state = .none := by
  have key : ∀ s0 : MState, (∀ a, s0.conv.ake = some a → a.state = .none) →
      runM (akeRest K t msg .none) s0 = .ok (.ok (msgs, some e), s') →
      msgs = [] ∧ ∀ a, s'.conv.ake = some a → a.state = .none := by
    intro s0 h0 h
    unfold akeRest at h
    rw [runM_bind] at h
    obtain ⟨⟨single, extra, err⟩, s1, hd, h⟩ := bindM_ok_inv h
    simp only at h
    rw [runM_bind] at h
    obtain ⟨_, s2, hs, h⟩ := bindM_ok_inv h
    simp only [runM_pure, Res.ok.injEq, Prod.mk.injEq, Except.ok.injEq] at h
    obtain ⟨⟨hmsgs, herr⟩, rfl⟩ := h
    obtain ⟨hsing, hext, h1⟩ :=
      akeDispatch_none_rejected K t msg s0 s1 single extra err h0 hd (by rw [herr]; simp)
    subst hsing hext
    refine ⟨hmsgs.symm, ?_⟩
    cases ha1 : s1.conv.ake with
    | none => rw [akeStamp_run_none _ _ _ _ ha1] at hs; cases hs
    | some a1 =>
      rw [akeStamp_run _ _ _ _ _ ha1] at hs
      simp only [Res.ok.injEq, Prod.mk.injEq] at hs
      obtain ⟨-, rfl⟩ := hs
      intro a ha
      simp only [Option.some.injEq] at ha
      subst ha
      rw [stampAke_state]
      exact h1 a1 ha1
  cases ha : s.conv.ake with
  | none =>
    rw [processAKE_run_none K t msg s ha] at h
    exact key _ (fun a ha' => by simp only [Option.some.injEq] at ha'; subst ha'; rfl) h
  | some a =>
    rw [processAKE_run_some K t msg s a ha, h0 a ha] at h
    exact key s h0 h

theorem processAKE_no_panic (K : Crypto) (hK : CryptoOK K) (t : Nat) (msg : Bytes) (s : MState)
    (hI : Inv K s.conv) (hv : s.conv.version ≠ none) :
    ∀ site, runM (processAKE K t msg) s ≠ .panic site :=
  wp_no_panic _ _ _ (processAKE_inv K hK t msg s hI hv)

/-! ## starting an AKE: `sendDHCommit` -/

/- History: before the repair of `encrypt` (keys.go) the call `dst[:aes.BlockSize]` in `dhCommitMessage` panicked when
   the 40 random bytes of the secret exponent encoded x ≤ 87 (g^x < 2^88, MPI encoding shorter than one AES block).
   That was reachable (`?OTRv2?` received with an all-zero 40-byte read) and was proved here as
   `sendDHCommit_panics` / `receive_query_panics`; a tape hypothesis `FirstExpOK` excluded it.  The Go code and the
   model were repaired (the IV is its own buffer), the reachability theorems and the hypothesis are gone. -/

theorem sendDHCommit_inv (K : Crypto) (s : MState) (h : Inv K s.conv) (hv : s.conv.version ≠ none) :
    wp (sendDHCommit K) (fun _ s' => Inv K s'.conv ∧ s'.conv.version = s.conv.version) NoP s := by
  have hset : ∀ (c : Conv) (a : Ake), c.version = s.conv.version → c.msgState = s.conv.msgState →
      c.keys.ourCur = s.conv.keys.ourCur → c.ourCurrentKey = s.conv.ourCurrentKey → c.theirKey = s.conv.theirKey →
      c.smp = s.conv.smp → c.ake = some a → AkeOK s.conv.ourCurrentKey a.state a →
      Inv K c := by
    intro c a h1 h2 h3 h4 h5 h6 h7 h8
    refine ⟨?_, ?_, ?_, ?_, ?_, fun hn => absurd (h1 ▸ hn) hv⟩
    · have := h.smpWF; unfold SmpWF at *; rw [h6]; exact this
    · have := h.smpNum; unfold SmpNumWF at *; rw [h6]; exact this
    · have := h.smpWait; unfold SmpWaitWF at *; rw [h6]; exact this
    · rw [h1, h2, h3, h4, h5]; exact h.enc
    · intro a' ha'
      rw [h7] at ha'
      simp only [Option.some.injEq] at ha'
      subst ha'
      rw [h4]; exact h8
  unfold sendDHCommit dhCommitMessage serializeDHCommit
  akex []
  apply wp_randomInto_x
  intro r env' mm'
  cases r with
  | error e =>
    akex []
    exact ⟨hset _ _ (by rfl) (by rfl) (by rfl) (by rfl) (by rfl) (by rfl) (by rfl) (by trivial), trivial⟩
  | ok x =>
    akex []
    apply wp_randomInto_x
    intro r env2 mm2
    cases r with
    | error e =>
      akex []
      exact ⟨hset _ _ (by rfl) (by rfl) (by rfl) (by rfl) (by rfl) (by rfl) (by rfl) (by trivial), trivial⟩
    | ok r16 =>
      akex []
      refine wp_akeEncrypt K _ _ _ _ ?_
      intro enc
      akex []
      refine wp_wrapMessageHeader_x _ _ _ _ _ hv ?_
      intro r v env3 mm3
      cases r with
      | error e =>
        akex []
        exact ⟨hset _ _ (by rfl) (by rfl) (by rfl) (by rfl) (by rfl) (by rfl) (by rfl) (by trivial), trivial⟩
      | ok m =>
        akex []
        exact ⟨hset _ _ (by rfl) (by rfl) (by rfl) (by rfl) (by rfl) (by rfl) (by rfl) (by simp [AkeOK]), trivial⟩

end Otr
